import Fcgi.Proofs.E2ERun

/-!
# C14(a) end to end: the stop flag raised at an arbitrary poll of a request's life

`runTask fuel c pollNo (some j)` raises `c.stop` at the start of poll `j` (and, if the task is parked
by then, wakes it for that poll).  The model looks at the flag only in `parse_request`
(`select(stop_fut, req_fut)`: the stop listener is polled first): the handler and `close` run on.

`StageS g c`: the stages of `E2EConn` with the flag raised.  `stageS_poll`: one poll with the flag
raised — inside `parse_request` (of the request itself, or of a reused connection) the task finishes at
once, without a transport call; inside the handler or `close` the poll goes on exactly as without the
flag, and when `close` hands the connection over for reuse the next `parse_request` finishes the task
in the same poll, before its first read.  `run_S` / `run_stop`: the executor.
-/
namespace Fcgi.C14E
open Fcgi Fcgi.Req Fcgi.Str Fcgi.Async Fcgi.Run Fcgi.Spec Fcgi.E2E

def unstop (c : Conn) : Conn := { c with stop := false }

theorem stage_stop_false {g : E2E.Cfg} {c : Conn} (h : Stage g c) : c.stop = false := by
  cases h with
  | start _ _ _ _ _ hs _ _ _ => exact hs
  | parse hst _ _ _ => exact hst.stop
  | hread _ _ _ hs _ _ => exact hs
  | hwrite _ _ _ hs _ _ => exact hs
  | closeW _ _ _ _ _ _ hs _ _ _ => exact hs
  | close _ _ _ _ _ _ hs _ _ _ => exact hs
  | idle _ hst _ _ _ _ _ _ => exact hst.stop

/-- a stage of the request's life, with the stop flag raised -/
structure StageS (g : E2E.Cfg) (c : Conn) : Prop where
  stop : c.stop = true
  st : Stage g (unstop c)

/-- The flag was seen by the request's own `parse_request`: no handler, nothing written beyond
(part of) the replies owed for the preamble. -/
structure FinEarly (g : E2E.Cfg) (c' : Conn) : Prop where
  ph : c'.phase = .finished
  hs : hsCount c'.env.tr.events = g.hs0
  log : c'.env.tr.wlog <+: g.L0 ++ owedPreamble g.p g.mc g.recs
  sc : c'.scripts = (g.hscript, true) :: g.more

/-- The request was completed (whole log, incl. its `EndRequest`), then the task stopped: no further
handler start; of what the request left unread (`g.U`) nothing more was taken from the transport
than what was already buffered (`raw`). -/
structure FinDone (g : E2E.Cfg) (O1 O2 : Bytes) (exact : Bool) (c' : Conn) : Prop where
  ph : c'.phase = .finished
  /-- `exact = true` (then the log is exactly the request's complete log) except in one corner the
  stage invariant of `E2EConn` does not exclude: the flag is seen by the `parse_request` of the
  reused connection while that is suspended inside a `write_all` (it never is: it owes no reply) -/
  log : ∃ rest, c'.env.tr.wlog ++ rest = g.L3 O1 O2 ∧ (exact = true → rest = [])
  ev : Ev1 g c'.env.tr
  re : ∀ s ∈ g.revs, s ∈ c'.env.tr.events
  sc : c'.scripts = g.more
  unread : ∃ raw, raw ++ c'.env.tr.input = g.U

inductive OutS (g : E2E.Cfg) (c c' : Conn) : PRes → Prop
  | pend : StageS g c' → c'.env.tr.woken = true → ans c'.env.tr < ans c.env.tr → OutS g c c' .pending
  | early : FinEarly g c' → OutS g c c' .finished
  | done {O1 O2 : Bytes} {exact : Bool} : O1 ++ O2 = g.Ot → FinDone g O1 O2 exact c' → OutS g c c' .finished

def ResS (g : E2E.Cfg) (N : Nat) (c : Conn) : Prop := ∃ c' r, Halts N c c' r ∧ Link c c' ∧ OutS g c c' r

theorem OutS.mono {g : E2E.Cfg} {c c1 c' : Conn} {r : PRes} (hl : Link c c1) (h : OutS g c1 c' r) : OutS g c c' r := by
  cases h with
  | pend a b d => exact .pend a b (by have := hl.ts.ans_le; omega)
  | early a => exact .early a
  | done a b => exact .done a b

theorem ResS.of_steps {g : E2E.Cfg} {k N : Nat} {c c1 : Conn} (hs : Steps k c c1) (hl : Link c c1)
    (h : ResS g N c1) : ResS g (k + N) c := by
  obtain ⟨c', r, hh, hl2, ho⟩ := h
  exact ⟨c', r, hh.of_steps hs, hl.trans hl2, ho.mono hl⟩

theorem ResS.mono {g : E2E.Cfg} {N M : Nat} {c : Conn} (h : ResS g N c) (hm : N ≤ M) : ResS g M c := by
  obtain ⟨c', r, hh, hl2, ho⟩ := h
  exact ⟨c', r, hh.mono hm, hl2, ho⟩

/-- `parse_request` with the flag raised: the task is done, no transport call -/
theorem step_stop (c : Conn) (rp : Req.Parser) (sub : PRSub) (hp : c.phase = .parseReq rp sub) (hs : c.stop = true) :
    stepConn c = .halt { c with phase := .finished } .finished := by
  obtain ⟨phase, env, scripts, stop⟩ := c
  simp only at hp hs; subst hp; subst hs
  rfl

/-! ## `close` with the flag raised -/

theorem close_coreS {g : E2E.Cfg} {c : Conn} {r r2 : AReq} {cs : CloseSt} {rest O1 O2 : Bytes}
    {t1 : Transport} (hO : O1 ++ O2 = g.Ot)
    (hph : c.phase = .closing r cs g.st 0)
    (heq : closePoll r cs g.st 0 c.env.mutex c.env.tr = closePoll.finishEnd r2 rest c.env.mutex t1)
    (hts1 : TStep c.env.tr t1) (hin1 : t1.input = c.env.tr.input)
    (hce : CEnd g r2 c.env.tr.input) (hm : c.env.mutex = none) (hlog : t1.wlog ++ rest = g.L3 O1 O2)
    (hb : Ben c.env.tr) (hstop : c.stop = true) (hev : Ev1 g c.env.tr)
    (hre : ∀ s ∈ g.revs, s ∈ c.env.tr.events) (hsc : c.scripts = g.more) :
    ResS g (2 * c.env.tr.input.length + 8) c := by
  have hstep := C07.closing_step c r cs g.st 0 hph
  rw [heq] at hstep
  have hb1 := hb.step hts1
  rcases finishEnd_cases r2 rest c.env.mutex hb1 with
    ⟨rest', t', hfe, hts0, hinp0, hwl, hwk, hans⟩ | ⟨t', hts0, hinp0, hwl, hfe⟩
  · have hts := hts1.trans hts0
    have hinp := hinp0.trans hin1
    rw [hfe] at hstep
    have hstep' : stepConn c = .halt (mkC c (.closing r2 (.writeEnd rest') g.st 0) t') .pending := hstep
    refine ⟨mkC c (.closing r2 (.writeEnd rest') g.st 0) t', .pending, (Halts.now hstep').mono (by omega),
      mkC_link c _ hts, .pend ⟨hstop, ?_⟩ hwk (by show ans t' < ans c.env.tr; have := hts1.ans_le; omega)⟩
    exact .close (r := r2) (rest := rest') rfl hO (by show CEnd g r2 t'.input; rw [hinp]; exact hce) hm
      (by show t'.wlog ++ rest' = _; rw [hwl, hlog]) (hb.step hts) rfl (hev.step hts) ((fun s hs => hts.mem_events (hre s hs))) hsc
  · have hts := hts1.trans hts0
    have hinp := hinp0.trans hin1
    rw [hfe, hce.req, hce.into] at hstep
    have hlog' : t'.wlog = g.L3 O1 O2 := by rw [hwl, hlog]
    have hunread : r2.sp.raw ++ t'.input = g.U := by rw [hinp]; exact hce.wire
    by_cases hk : g.p.flags.toNat % 2 = 1
    · have hreq : (g.p.request.flags.toNat % 2 == 1) = true := by simpa [Preamble.request] using hk
      simp only [hreq, if_true] at hstep
      have hstep' : stepConn c = .next (mkC c (.parseReq ⟨g.cap, r2.sp.raw, .header, g.mc⟩ .start) t') := hstep
      -- the connection is reused, and the next `parse_request` sees the flag before its first read
      have hstep2 := step_stop (mkC c (.parseReq ⟨g.cap, r2.sp.raw, .header, g.mc⟩ .start) t') _ _ rfl hstop
      refine ⟨_, .finished, ⟨1, _, by omega, Steps.one hstep', hstep2⟩, mkC_link c _ hts,
        .done (exact := true) hO ⟨rfl, ⟨[], by rw [List.append_nil]; exact hlog', fun _ => rfl⟩, hev.step hts, (fun s hs => hts.mem_events (hre s hs)), hsc, r2.sp.raw, hunread⟩⟩
    · have hreq : (g.p.request.flags.toNat % 2 == 1) = false := by simpa [Preamble.request] using hk
      simp only [hreq, Bool.false_eq_true, if_false] at hstep
      have hstep' : stepConn c = .halt (mkC c .finished t') .finished := hstep
      exact ⟨mkC c .finished t', .finished, (Halts.now hstep').mono (by omega), mkC_link c _ hts,
        .done (exact := true) hO ⟨rfl, ⟨[], by rw [List.append_nil]; exact hlog', fun _ => rfl⟩, hev.step hts, (fun s hs => hts.mem_events (hre s hs)), hsc, r2.sp.raw, hunread⟩⟩

theorem close_outS {g : E2E.Cfg} {c : Conn} {r r2 : AReq} {cs : CloseSt} {rest O1 O2 : Bytes}
    (hO : O1 ++ O2 = g.Ot) (hph : c.phase = .closing r cs g.st 0)
    (heq : closePoll r cs g.st 0 c.env.mutex c.env.tr =
      closeP4 r2 c.env.mutex c.env.tr (.writeOut rest g.epi))
    (hce : CEndW g r2 c.env.tr.input) (hm : c.env.mutex = none)
    (hlog : c.env.tr.wlog ++ rest ++ g.epi = g.L3 O1 O2)
    (hb : Ben c.env.tr) (hstop : c.stop = true) (hev : Ev1 g c.env.tr)
    (hre : ∀ s ∈ g.revs, s ∈ c.env.tr.events) (hsc : c.scripts = g.more) :
    ResS g (2 * c.env.tr.input.length + 8) c := by
  rcases hw : writeAllLoop (rest.length + 1) rest c.env.tr with ⟨rest', t', res⟩
  obtain ⟨hts, hinp, ⟨dn, hd, hl⟩, hres⟩ := writeAllLoop_ben _ _ _ hb (Nat.lt_succ_self _) hw
  rcases hres with ⟨rfl, rfl⟩ | ⟨rfl, _, hwk, hans⟩
  · simp only [List.append_nil] at hd
    subst hd
    have heq' : closePoll r cs g.st 0 c.env.mutex c.env.tr =
        closePoll.finishEnd { r2 with sp := r2.sp.consumeOutput r2.sp.output.length } g.epi c.env.mutex t' := by
      rw [heq]; simp only [closeP4, hw]
    refine close_coreS hO hph heq' hts hinp ?_ hm (by rw [hl, ← hlog]) hb hstop hev hre hsc
    exact ⟨hce.pay, hce.pad, by simp [Str.Parser.consumeOutput], hce.wire, hce.req, hce.cap, hce.mc, hce.rawlen⟩
  · have hstep := C07.closing_step c r cs g.st 0 hph
    rw [heq] at hstep
    simp only [closeP4, hw] at hstep
    have hstep' : stepConn c = .halt (mkC c (.closing r2 (.writeOut rest' g.epi) g.st 0) t') .pending := hstep
    refine ⟨_, .pending, (Halts.now hstep').mono (by omega), mkC_link c _ hts, .pend ⟨hstop, ?_⟩ hwk hans⟩
    exact .closeW (r := r2) (rest := rest') rfl hO (by show CEndW g r2 t'.input; rw [hinp]; exact hce) hm
      (by show t'.wlog ++ rest' ++ g.epi = _; rw [hl, ← hlog, hd]; simp only [List.append_assoc])
      (hb.step hts) rfl (hev.step hts) ((fun s hs => hts.mem_events (hre s hs))) hsc

/-! ## The handler with the flag raised: it runs on -/

theorem handler_coreS {g : E2E.Cfg} {c : Conn} {r : AReq} {h : HState} (hph : c.phase = .handler r h)
    (hout : HOut g.Wc g.Rd c.env (handlerPoll ((handlerFuel c.env r + scriptOf c)) r h c.env))
    (hb : Ben c.env.tr) (hstop : c.stop = true) (hev : Ev1 g c.env.tr) (hsc : c.scripts = g.more) :
    ResS g (2 * c.env.tr.input.length + 10) c := by
  have hstep := C07.handler_step c r h hph
  rcases hhp : handlerPoll ((handlerFuel c.env r + scriptOf c)) r h c.env with ⟨r', h', e', res⟩
  rw [hhp] at hstep hout
  obtain ⟨hts, hsegs, hres⟩ := hout
  simp only at hts hsegs hres
  rcases hres with ⟨rfl, hwk, hans, hst⟩ | ⟨hres, O1, hd⟩
  · have hstep' : stepConn c = .halt ⟨.handler r' h', e', c.scripts, c.stop⟩ .pending := hstep
    refine ⟨⟨.handler r' h', e', c.scripts, c.stop⟩, .pending, (Halts.now hstep').mono (by omega),
      ⟨hts.w, hsegs, rfl⟩, .pend ⟨hstop, ?_⟩ hwk hans⟩
    rcases hst with hst | ⟨O1, hst⟩
    · exact .hread rfl hst (hb.step hts) rfl (hev.step hts) hsc
    · exact .hwrite rfl hst (hb.step hts) rfl (hev.step hts) hsc
  · have hres' : res = .done (.ok g.st) := hres
    subst hres'
    have halive : (h'.writers.filter Option.isSome).length = 0 := by rw [hd.ws]; rfl
    simp only [halive] at hstep
    have hstep' : stepConn c =
        .next ⟨.closing r' .start g.st 0, e'.ev s!"HE(ok:{showStatus g.st})", c.scripts, c.stop⟩ := hstep
    have hts2 : TStep c.env.tr (e'.tr.ev s!"HE(ok:{showStatus g.st})") :=
      hts.trans (TStep.ev _ (by simp [isHS, toString_str]))
    obtain ⟨heq, hce⟩ := close_start_eq (g := g) (r := r') (t := e'.tr.ev s!"HE(ok:{showStatus g.st})") hd.fin
    have hO : O1 ++ r'.sp.output = g.Ot := hd.out
    have hcore := close_outS
      (c := ⟨.closing r' .start g.st 0, e'.ev s!"HE(ok:{showStatus g.st})", c.scripts, c.stop⟩)
      (r := r') (r2 := closeReq r') (cs := .start) (rest := r'.sp.output) hO rfl
      (by show closePoll r' .start g.st 0 e'.mutex _ = closeP4 _ e'.mutex _ _
          rw [hd.mtx]; exact heq)
      hce hd.mtx
      (by show (e'.tr.ev _).wlog ++ r'.sp.output ++ g.epi = g.L3 O1 r'.sp.output
          rw [Transport.ev_wlog, hd.log]; rfl)
      (hb.step hts2) hstop (hev.step hts2)
      (by intro s hs
          show s ∈ e'.tr.events ++ [_]
          exact List.mem_append_left _ (hd.ev s hs)) hsc
    have := ResS.of_steps (Steps.one hstep') ⟨hts2.w, hsegs, rfl⟩ hcore
    refine this.mono ?_
    have hl := hts.tle.input_len
    show 1 + (2 * e'.tr.input.length + 8) ≤ _
    omega

/-! ## One poll with the flag raised -/

/-- what the request parser has put out for a prefix of the wire is a prefix of the owed replies -/
theorem out_prefix {g : E2E.Cfg} (ok : g.OK) {F : Bytes} (hF : F <+: g.W) :
    (run .header F g.mc).out <+: owedPreamble g.p g.mc g.recs := by
  rcases C06.run_wire_state ok.wf g.X (F := F) hF g.mc with ⟨e1, _, _, hrun⟩ | ⟨t, ht, hFt, _⟩
  · rw [hrun]; exact List.prefix_refl _
  · have hsplit := Req.run_split (st := .header) trivial F t g.mc ht
    rw [hFt] at hsplit
    have hone := C01.C01_oneshot ok.wf [] g.mc
    rw [List.append_nil] at hone
    have : owedPreamble g.p g.mc g.recs = (run .header (serAll g.recs) g.mc).out := by rw [hone]
    rw [this, hsplit]
    exact List.prefix_append _ _

theorem stageS_poll {g : E2E.Cfg} (ok : g.OK) {c : Conn} (hst : StageS g c) :
    ResS g (4 * c.env.tr.input.length + 17) c := by
  obtain ⟨hstop, hs⟩ := hst
  have fin_now : ∀ (rp : Req.Parser) (sub : PRSub), c.phase = .parseReq rp sub →
      OutS g c { c with phase := .finished } .finished → ResS g (4 * c.env.tr.input.length + 17) c := by
    intro rp sub hph ho
    exact ⟨_, .finished, (Halts.now (step_stop c rp sub hph hstop)).mono (by omega), ⟨.refl _, rfl, rfl⟩, ho⟩
  cases hs with
  | @start raw hph hwire hraw hlog hb _ hsc hm hev =>
    refine fin_now _ _ hph (.early ⟨rfl, hev, ?_, hsc⟩)
    show c.env.tr.wlog <+: _
    have : c.env.tr.wlog = g.L0 := hlog
    rw [this]; exact List.prefix_append _ _
  | @parse F hst hsc hm hev =>
    have hF : F <+: g.W := ⟨c.env.tr.input, by have := hst.wire; rwa [List.append_nil] at this⟩
    have hpre := out_prefix ok hF
    have hlogp : c.env.tr.wlog <+: g.L0 ++ owedPreamble g.p g.mc g.recs := by
      rcases hst.ph with ⟨_, _, h⟩ | ⟨rest, _, h, _⟩
      · have h' : c.env.tr.wlog = g.L0 ++ (run .header F g.mc).out := h
        rw [h']; exact (List.prefix_append_right_inj _).2 hpre
      · have h' : c.env.tr.wlog ++ rest = g.L0 ++ (run .header F g.mc).out := h
        exact (List.prefix_append _ rest).trans (by rw [h']; exact (List.prefix_append_right_inj _).2 hpre)
    rcases hst.ph with ⟨hph, _, _⟩ | ⟨rest, hph, _⟩
    · exact fin_now _ _ hph (.early ⟨rfl, hev, hlogp, hsc⟩)
    · exact fin_now _ _ hph (.early ⟨rfl, hev, hlogp, hsc⟩)
  | @hread r h hph hr hb _ hev hsc =>
    exact (handler_coreS (c := c) hph (rd_poll ok hr hb (Nat.le_trans hr.fuel (Nat.le_add_right _ _))) hb hstop hev hsc).mono (by omega)
  | @hwrite r h O1 hph hw hb _ hev hsc =>
    refine (handler_coreS (c := c) hph (write_phase hw hb ?_) hb hstop hev hsc).mono (by omega)
    have := handlerFuel_ge c.env r
    have := ok.wfuel
    show wcost g.data.length + 3 ≤ _
    omega
  | @closeW r rest O1 O2 hph hO hce hm hlog hb _ hev hre hsc =>
    refine (close_outS (c := c) (r2 := r) (rest := rest) hO hph ?_ hce hm hlog hb hstop hev hre hsc).mono (by omega)
    rw [closePoll_late _ _ _ _ _ _ rfl]
  | @close r rest O1 O2 hph hO hce hm hlog hb _ hev hre hsc =>
    refine (close_coreS (c := c) (r2 := r) (rest := rest) hO hph ?_ (.refl _) rfl hce hm hlog hb hstop hev hre hsc).mono
      (by omega)
    rw [closePoll_late _ _ _ _ _ _ rfl]
    rfl
  | @idle F O1 O2 hO hst hfin hkeep hev hre hsc hmx =>
    -- the reused connection's `parse_request`: it owes nothing for (a prefix of) what was left unread
    have hFU : F <+: g.U := ⟨c.env.tr.input, hfin⟩
    have hout := (run_U_prefix ok hFU).2
    rcases hst.ph with ⟨hph, _, h⟩ | ⟨rest, hph, h, _⟩
    · have h' : c.env.tr.wlog = g.L3 O1 O2 ++ (run .header F g.mc).out := h
      rw [hout, List.append_nil] at h'
      exact fin_now _ _ hph (.done (exact := true) hO ⟨rfl, ⟨[], by rw [List.append_nil]; exact h', fun _ => rfl⟩, hev, hre, hsc, F, hfin⟩)
    · have h' : c.env.tr.wlog ++ rest = g.L3 O1 O2 ++ (run .header F g.mc).out := h
      rw [hout, List.append_nil] at h'
      exact fin_now _ _ hph (.done (exact := false) hO ⟨rfl, ⟨rest, h', fun h => by cases h⟩, hev, hre, hsc, F, hfin⟩)

/-! ## The executor -/

theorem StageS.cong {g : E2E.Cfg} {c c' : Conn} (h : StageS g c) (hph : c'.phase = c.phase)
    (hsc : c'.scripts = c.scripts) (hstop : c'.stop = c.stop) (hm : c'.env.mutex = c.env.mutex)
    (hs : TrSame c.env.tr c'.env.tr) : StageS g c' :=
  ⟨hstop.trans h.stop, h.st.cong (c' := unstop c') hph hsc rfl hm hs⟩

theorem prePoll_ne (c : Conn) (n j : Nat) (h : j ≠ n) : prePoll c n (some j) = prePoll c n none := by
  unfold prePoll
  have : (some j == some n) = false := by simpa using h
  simp [this]

theorem prePoll_eq (c : Conn) (n : Nat) : prePoll c n (some n) = prePoll { c with stop := true } n none := by
  unfold prePoll
  simp

theorem prePoll_stopped (c : Conn) (n : Nat) (sa : Option Nat) (h : c.stop = true) :
    prePoll c n sa = prePoll c n none := by
  have hc : ({ c with stop := true } : Conn) = c := by
    obtain ⟨ph, env, sc, st⟩ := c
    simp only at h
    subst h
    rfl
  unfold prePoll
  split
  · rw [hc]; simp
  · simp

/-- how the task ends once the flag is up -/
def FinOut (g : E2E.Cfg) (c' : Conn) : Prop :=
  FinEarly g c' ∨ ∃ O1 O2 exact, O1 ++ O2 = g.Ot ∧ FinDone g O1 O2 exact c'

/-- **The executor with the flag raised**: `RET`. -/
theorem run_S {g : E2E.Cfg} (ok : g.OK) : ∀ (A : Nat) (c : Conn) (n fuel : Nat) (sa : Option Nat),
    StageS g c → c.env.segs = [] → ans c.env.tr ≤ A → A + 1 ≤ fuel →
    4 * c.env.tr.input.length + 17 ≤ 100000 →
    ∃ c', runTask fuel c n sa = (c', "RET") ∧ FinOut g c' := by
  intro A
  induction A with
  | zero =>
    intro c n fuel sa hst hsegs hA hf hlen
    obtain ⟨f, rfl⟩ : ∃ f, fuel = f + 1 := ⟨fuel - 1, by omega⟩
    obtain ⟨hsame, hph, hsc, hstop, hmx, hsg, hwk⟩ := prePoll_same c n hsegs
    have hst0 := hst.cong hph hsc hstop hmx hsame
    obtain ⟨c', r, hh, hl, ho⟩ := stageS_poll ok hst0
    have hpoll := hh.pollT (by rw [hsame.input]; exact hlen)
    have hans0 : ans (prePoll c n none).env.tr = ans c.env.tr := by unfold ans; rw [hsame.rd, hsame.wr]
    rw [runTask_succ, prePoll_stopped c n sa hst.stop, hpoll]
    cases ho with
    | early h => exact ⟨c', rfl, Or.inl h⟩
    | @done O1 O2 ex hO h => exact ⟨c', rfl, Or.inr ⟨O1, O2, ex, hO, h⟩⟩
    | pend hs' hw ha => omega
  | succ A ih =>
    intro c n fuel sa hst hsegs hA hf hlen
    obtain ⟨f, rfl⟩ : ∃ f, fuel = f + 1 := ⟨fuel - 1, by omega⟩
    obtain ⟨hsame, hph, hsc, hstop, hmx, hsg, hwk⟩ := prePoll_same c n hsegs
    have hst0 := hst.cong hph hsc hstop hmx hsame
    obtain ⟨c', r, hh, hl, ho⟩ := stageS_poll ok hst0
    have hpoll := hh.pollT (by rw [hsame.input]; exact hlen)
    have hans0 : ans (prePoll c n none).env.tr = ans c.env.tr := by unfold ans; rw [hsame.rd, hsame.wr]
    have hlen' : 4 * c'.env.tr.input.length + 17 ≤ 100000 := by
      have := hl.ts.inp
      rw [hsame.input] at this
      omega
    rw [runTask_succ, prePoll_stopped c n sa hst.stop, hpoll]
    cases ho with
    | early h => exact ⟨c', rfl, Or.inl h⟩
    | @done O1 O2 ex hO h => exact ⟨c', rfl, Or.inr ⟨O1, O2, ex, hO, h⟩⟩
    | pend hs' hw ha =>
      simp only [hw, if_true]
      exact ih c' (n + 1) f sa hs' (hl.segs.trans hsg) (by omega) (by omega) hlen'

/-- the poll at which the flag is raised -/
theorem run_at {g : E2E.Cfg} (ok : g.OK) {c : Conn} {j fuel : Nat} (hst : Stage g c) (hsegs : c.env.segs = [])
    (hf : ans c.env.tr + 1 ≤ fuel) (hlen : 4 * c.env.tr.input.length + 17 ≤ 100000) :
    ∃ c', runTask fuel c j (some j) = (c', "RET") ∧ FinOut g c' := by
  obtain ⟨f, rfl⟩ : ∃ f, fuel = f + 1 := ⟨fuel - 1, by omega⟩
  have hS : StageS g { c with stop := true } := by
    refine ⟨rfl, ?_⟩
    have : unstop { c with stop := true } = c := by
      obtain ⟨ph, env, sc, st⟩ := c
      have := stage_stop_false hst
      simp only at this
      subst this
      rfl
    rw [this]; exact hst
  have heq : runTask (f + 1) c j (some j) = runTask (f + 1) { c with stop := true } j (some j) := by
    rw [runTask_succ, runTask_succ, prePoll_eq, prePoll_stopped { c with stop := true } j (some j) rfl]
  rw [heq]
  exact run_S ok (ans c.env.tr) { c with stop := true } j (f + 1) (some j) hS hsegs (Nat.le_refl _) hf hlen

/-- How the task ends when the flag is raised at poll `j`: with the flag up (`FinOut`), or — the run
was over before poll `j` — as without a stop request (`E2E.Fin`). -/
def StopOut (g : E2E.Cfg) (c' : Conn) : Prop :=
  FinOut g c' ∨ ∃ O1 O2, O1 ++ O2 = g.Ot ∧ Fin g O1 O2 c'

/-- **The executor, the flag raised at poll `j`** (`n ≤ j` polls done so far): always `RET`. -/
theorem run_stop {g : E2E.Cfg} (ok : g.OK) (j : Nat) : ∀ (A : Nat) (c : Conn) (n fuel : Nat),
    Stage g c → c.env.segs = [] → n ≤ j → ans c.env.tr ≤ A → A + 2 ≤ fuel →
    4 * c.env.tr.input.length + 17 ≤ 100000 →
    ∃ c', runTask fuel c n (some j) = (c', "RET") ∧ StopOut g c' := by
  intro A
  induction A with
  | zero =>
    intro c n fuel hst hsegs hn hA hf hlen
    by_cases hnj : n = j
    · subst hnj
      obtain ⟨c', h1, h2⟩ := run_at ok (j := n) (fuel := fuel) hst hsegs (by omega) hlen
      exact ⟨c', h1, Or.inl h2⟩
    · obtain ⟨f, rfl⟩ : ∃ f, fuel = f + 1 := ⟨fuel - 1, by omega⟩
      obtain ⟨hsame, hph, hsc, hstop, hmx, hsg, hwk⟩ := prePoll_same c n hsegs
      have hst0 := hst.cong hph hsc hstop hmx hsame
      obtain ⟨c', r, hh, hl, ho⟩ := stage_poll ok hst0
      have hpoll := hh.pollT (by rw [hsame.input]; exact hlen)
      have hans0 : ans (prePoll c n none).env.tr = ans c.env.tr := by unfold ans; rw [hsame.rd, hsame.wr]
      have hlen' : 4 * c'.env.tr.input.length + 17 ≤ 100000 := by
        have := hl.ts.inp
        rw [hsame.input] at this
        omega
      rw [runTask_succ, prePoll_ne c n j (fun h => hnj h.symm), hpoll]
      cases ho with
      | @fin O1 O2 hO hfin => exact ⟨c', rfl, Or.inr ⟨O1, O2, hO, hfin⟩⟩
      | pend hs' hw ha => omega
      | @park O1 O2 hs' hO hp =>
        rcases hl.ts.wk with hw | ⟨_, ha⟩
        · rw [hwk] at hw
          simp only [hw, Bool.false_eq_true, if_false]
          have hsg' : c'.env.segs = [] := hl.segs.trans hsg
          rw [release_nil _ hsg']
          simp only [hw, Bool.false_eq_true, if_false]
          have hstop' : c'.stop = false := stage_stop_false hs'
          have hjn : (decide (j > n) && !c'.stop) = true := by
            rw [hstop']; simp; omega
          simp only [hjn, if_true]
          have hst2 : Stage g { c' with env := { c'.env with tr := { c'.env.tr with hold := false, woken := false } } } :=
            hs'.cong rfl rfl rfl rfl ⟨rfl, rfl, rfl, rfl, rfl, rfl, [], by simp, Quiet.nil⟩
          obtain ⟨c2, h1, h2⟩ := run_at ok (j := j) (fuel := f) hst2 hsg'
            (by show ans c'.env.tr + 1 ≤ f; have := hl.ts.ans_le; omega) hlen'
          exact ⟨c2, h1, Or.inl h2⟩
        · omega
  | succ A ih =>
    intro c n fuel hst hsegs hn hA hf hlen
    by_cases hnj : n = j
    · subst hnj
      obtain ⟨c', h1, h2⟩ := run_at ok (j := n) (fuel := fuel) hst hsegs (by omega) hlen
      exact ⟨c', h1, Or.inl h2⟩
    · obtain ⟨f, rfl⟩ : ∃ f, fuel = f + 1 := ⟨fuel - 1, by omega⟩
      obtain ⟨hsame, hph, hsc, hstop, hmx, hsg, hwk⟩ := prePoll_same c n hsegs
      have hst0 := hst.cong hph hsc hstop hmx hsame
      obtain ⟨c', r, hh, hl, ho⟩ := stage_poll ok hst0
      have hpoll := hh.pollT (by rw [hsame.input]; exact hlen)
      have hans0 : ans (prePoll c n none).env.tr = ans c.env.tr := by unfold ans; rw [hsame.rd, hsame.wr]
      have hsg' : c'.env.segs = [] := hl.segs.trans hsg
      have hlen' : 4 * c'.env.tr.input.length + 17 ≤ 100000 := by
        have := hl.ts.inp
        rw [hsame.input] at this
        omega
      rw [runTask_succ, prePoll_ne c n j (fun h => hnj h.symm), hpoll]
      cases ho with
      | @fin O1 O2 hO hfin => exact ⟨c', rfl, Or.inr ⟨O1, O2, hO, hfin⟩⟩
      | pend hs' hw ha =>
        simp only [hw, if_true]
        exact ih c' (n + 1) f hs' hsg' (by omega) (by omega) (by omega) hlen'
      | @park O1 O2 hs' hO hp =>
        have hstop' : c'.stop = false := stage_stop_false hs'
        have hjn : (decide (j > n) && !c'.stop) = true := by
          rw [hstop']; simp; omega
        rcases hl.ts.wk with hw | ⟨hw, ha⟩
        · rw [hwk] at hw
          simp only [hw, Bool.false_eq_true, if_false]
          rw [release_nil _ hsg']
          simp only [hw, Bool.false_eq_true, if_false, hjn, if_true]
          have hst2 : Stage g { c' with env := { c'.env with tr := { c'.env.tr with hold := false, woken := false } } } :=
            hs'.cong rfl rfl rfl rfl ⟨rfl, rfl, rfl, rfl, rfl, rfl, [], by simp, Quiet.nil⟩
          obtain ⟨c2, h1, h2⟩ := run_at ok (j := j) (fuel := f) hst2 hsg'
            (by show ans c'.env.tr + 1 ≤ f; have := hl.ts.ans_le; omega) hlen'
          exact ⟨c2, h1, Or.inl h2⟩
        · simp only [hw, if_true]
          exact ih c' (n + 1) f hs' hsg' (by omega) (by omega) (by omega) hlen'

end Fcgi.C14E
