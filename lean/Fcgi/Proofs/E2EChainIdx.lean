import Fcgi.Proofs.E2EWriters4
import Fcgi.Proofs.E2EChainStart
/-!
# The scripted write / flush answers a run consumes: a prefix of the scripts — for every connection

`SufL t' t`: the write and flush answer scripts of `t'` are suffixes of those of `t`.  Every phase transition of every
connection (`stepConn_suf`, no `AllProp`, no benignity), every poll, every `runTask` and every `closedLoop` run
satisfies it: what is left of the scripts after a run is `t.wr.drop n`, `t.fl.drop m` (`SufL.drop`).
(Generated from the `fl` development of `Proofs/E2EWriters4`.)
-/
namespace Fcgi.E2E
open Fcgi Fcgi.Req Fcgi.Str Fcgi.Async Fcgi.Run Fcgi.Spec

/-- the write and flush scripts of `t'` are what is left of those of `t` -/
def SufL (t' t : Transport) : Prop := t'.wr <:+ t.wr ∧ t'.fl <:+ t.fl

theorem SufL.refl (t : Transport) : SufL t t := ⟨List.suffix_refl _, List.suffix_refl _⟩
theorem SufL.trans {a b c : Transport} (h1 : SufL a b) (h2 : SufL b c) : SufL a c := ⟨h1.1.trans h2.1, h1.2.trans h2.2⟩
theorem SufL.of_eq {t' t : Transport} (h1 : t'.wr = t.wr) (h2 : t'.fl = t.fl) : SufL t' t := by
  unfold SufL; rw [h1, h2]; exact ⟨List.suffix_refl _, List.suffix_refl _⟩

theorem suffix_eq_drop {α : Type} {a b : List α} (h : a <:+ b) : ∃ n, a = b.drop n ∧ n + a.length = b.length := by
  obtain ⟨p, rfl⟩ := h
  exact ⟨p.length, by simp, by simp⟩

/-- what is left is the script with its first `n` (`m`) answers dropped -/
theorem SufL.drop {t' t : Transport} (h : SufL t' t) :
    ∃ n m, t'.wr = t.wr.drop n ∧ n + t'.wr.length = t.wr.length ∧ t'.fl = t.fl.drop m ∧ m + t'.fl.length = t.fl.length := by
  obtain ⟨n, h1, h2⟩ := suffix_eq_drop h.1
  obtain ⟨m, h3, h4⟩ := suffix_eq_drop h.2
  exact ⟨n, m, h1, h2, h3, h4⟩

theorem suf_of_clean {t t' : Transport} (h : C12Inv.Clean t t') : SufL t' t := by
  obtain ⟨cw, cf, d, hw, hf, _⟩ := h.answers
  exact ⟨⟨cw, hw.symm⟩, ⟨cf, hf.symm⟩⟩

theorem writeV_suf (t : Transport) (sl : List Bytes) (tag : String) : SufL (t.writeV sl tag).1 t := by
  refine ⟨?_, by rw [writeV_fl]; exact List.suffix_refl _⟩
  obtain ⟨input, endMode, rd, wr, fl, wlog, events, hold, woken, readWaker, abortKind⟩ := t
  unfold Transport.writeV
  by_cases hd : sl.flatten.isEmpty
  · simp [hd, Transport.ev]
  · rcases wr with _ | ⟨a, rest⟩
    · simp [hd, Transport.ev]
    · cases a <;> simp [hd, Transport.ev]

theorem flush_suf (t : Transport) : SufL t.flush.1 t := by
  refine ⟨?_, flush_fl t⟩
  obtain ⟨input, endMode, rd, wr, fl, wlog, events, hold, woken, readWaker, abortKind⟩ := t
  rcases fl with _ | ⟨a, rest⟩
  · exact List.suffix_refl _
  · cases a <;> exact List.suffix_refl _

theorem suf_of_failed {t t' : Transport} (h : C12Inv.Failed t t') : SufL t' t := by
  obtain ⟨t1, t2, hc, hf, hs⟩ := h
  have h1 := suf_of_clean hc
  have h3 : SufL t' t2 := SufL.of_eq hs.1 hs.2.1
  refine h3.trans ?_
  rcases hf with ⟨sl, tag, rfl, _⟩ | ⟨rfl, _⟩
  · exact (writeV_suf t1 sl tag).trans h1
  · exact (flush_suf t1).trans h1

theorem suf_any {t t' : Transport} {s : Bool} (h : C12Inv.WOut t t' s) : SufL t' t := by
  rcases h with h | ⟨h, _⟩
  · exact suf_of_clean h
  · exact suf_of_failed h

open C12Inv in
theorem handlerPoll_suf : ∀ (fuel : Nat) (r : AReq) (h : HState) (e : Run.Env)
    {r' : AReq} {h' : HState} {e' : Run.Env} {res : HRes},
    handlerPoll fuel r h e = (r', h', e', res) → SufL e'.tr e.tr := by
  intro fuel
  induction fuel with
  | zero => intro r h e r' h' e' res hh; simp only [handlerPoll] at hh; cases hh; exact SufL.refl _
  | succ n ih =>
    intro r h e r' h' e' res hh
    simp only [handlerPoll] at hh
    repeat' (split at hh)
    all_goals first
      | (cases hh
         first
          | exact SufL.refl _
          | (have hp := pollInput_wout ‹_›; have h2 := suf_any hp; exact h2)
          | (have hp := writeablePoll_wout ‹_›; have h2 := suf_any hp; exact h2)
          | (have hp := pollWrite_wout ‹_›; have h2 := suf_any hp; exact h2)
          | (have hp := pollFlush_wout ‹_›; have h2 := suf_any hp; exact h2))
      | (refine (ih _ _ _ hh).trans ?_
         first
          | exact SufL.refl _
          | (have hp := pollInput_wout ‹_›; have h2 := suf_any hp; exact h2)
          | (have hp := writeablePoll_wout ‹_›; have h2 := suf_any hp; exact h2)
          | (have hp := pollWrite_wout ‹_›; have h2 := suf_any hp; exact h2)
          | (have hp := pollFlush_wout ‹_›; have h2 := suf_any hp; exact h2))

/-- the flush script after a phase transition is a suffix of the one before -/
def StepSuf (c : Conn) : Step → Prop
  | .next c1 => SufL c1.env.tr c.env.tr
  | .halt c1 _ => SufL c1.env.tr c.env.tr

open C12Inv in
/-- **Every phase transition of every connection** consumes a prefix of the flush script (no `AllProp`). -/
theorem stepConn_suf (c : Conn) : StepSuf c (stepConn c) := by
  obtain ⟨phase, env, scripts, stop⟩ := c
  cases phase with
  | finished => exact SufL.refl _
  | handler r h =>
    simp only [stepConn]
    cases hhp : handlerPoll (1000 + env.tr.input.length * 4 + (env.segs.map (·.2.length)).sum * 4 + r.sp.cap * 4 + scriptCost h) r h env with
    | mk r' x =>
      obtain ⟨h', e', res⟩ := x
      have hw := handlerPoll_suf _ _ _ _ hhp
      cases res with
      | pending => exact hw
      | panic s => exact hw
      | done res =>
        cases res with
        | ok st => exact hw
        | error x =>
          simp only []
          split
          · exact hw
          · exact hw
  | closing r cs status alive =>
    simp only [stepConn]
    cases hcp : closePoll r cs status alive env.mutex env.tr with
    | mk r' x =>
      obtain ⟨cs', m', t', res⟩ := x
      have hw := suf_any (closePoll_wout hcp)
      cases res with
      | pending => exact hw
      | panic s => exact hw
      | err e => exact hw
      | reuse rp => exact hw
  | parseReq rp sub =>
    cases stop with
    | true => exact SufL.refl _
    | false =>
      cases sub with
      | start =>
        simp only [stepConn, Bool.false_eq_true, if_false]
        cases hp : rp.parse [] with
        | mk rp' oy =>
          cases oy with
          | none => exact SufL.refl _
          | some y => exact SufL.refl _
      | reading =>
        simp only [stepConn, Bool.false_eq_true, if_false]
        cases hrd : env.tr.read rp.free with
        | mk t pr =>
          have hc := suf_of_clean (read_clean hrd)
          cases pr with
          | pending => exact hc
          | ready ex =>
            cases ex with
            | error e => exact hc
            | ok bs =>
              cases bs with
              | nil => exact hc
              | cons b bs =>
                simp only []
                cases hp : rp.parse (b :: bs) with
                | mk rp' oy =>
                  cases oy with
                  | none => exact hc
                  | some y => exact hc
      | writing rest done =>
        simp only [stepConn, Bool.false_eq_true, if_false]
        cases hwl : writeAllLoop (rest.length + 1) rest env.tr with
        | mk rest' x =>
          obtain ⟨t, res⟩ := x
          have hw := suf_any (writeAllLoop_wout _ _ _ hwl)
          cases res with
          | pending => exact hw
          | err e => exact hw
          | panic s => exact hw
          | ready =>
            simp only []
            cases done with
            | false => exact hw
            | true =>
              simp only [Bool.not_true, Bool.false_eq_true, if_false]
              cases rp.intoStreamParser with
              | error e => exact hw
              | ok sp =>
                cases scripts with
                | nil => exact hw
                | cons s ss =>
                  obtain ⟨o, p⟩ := s
                  exact hw

theorem steps_suf {k : Nat} {c c1 : Conn} (hs : Steps k c c1) : SufL c1.env.tr c.env.tr := by
  induction hs with
  | refl c => exact SufL.refl _
  | @step n c0 c1 c2 h _ ih =>
    have hw := stepConn_suf c0
    rw [h] at hw
    exact ih.trans hw

/-- a poll consumes a prefix of the flush script — for every connection, whatever the poll's result -/
theorem halts_suf {N : Nat} {c c' : Conn} {r : Run.PRes} (h : Halts N c c' r) : SufL c'.env.tr c.env.tr := by
  obtain ⟨n, c1, _, hs, hh⟩ := h
  have hw := stepConn_suf c1
  rw [hh] at hw
  exact hw.trans (steps_suf hs)

/-! ## The executors without `AllProp` (copies of `Proofs/E2EWriters2`, `E2EWriters3`) -/


theorem pollConn_suf : ∀ (fuel : Nat) (c : Conn), SufL (pollConn fuel c).1.env.tr c.env.tr
  | 0, c => SufL.refl _
  | fuel + 1, c => by
    rw [pollConn_succ]
    have h := stepConn_suf c
    cases hs : stepConn c with
    | next c' => rw [hs] at h; exact (pollConn_suf fuel c').trans h
    | halt c' r => rw [hs] at h; exact h

theorem release_go_wf : ∀ (fuel : Nat) (e : Run.Env) (any : Bool),
    (Run.Env.release.go fuel e any).1.tr.wr = e.tr.wr ∧ (Run.Env.release.go fuel e any).1.tr.fl = e.tr.fl := by
  intro fuel
  induction fuel with
  | zero => intro e any; simp [Run.Env.release.go]
  | succ n ih =>
    intro e any
    obtain ⟨tr, mutex, segs⟩ := e
    cases segs with
    | nil => simp [Run.Env.release.go]
    | cons p rest =>
      obtain ⟨g, bs⟩ := p
      simp only [Run.Env.release.go]
      split
      · exact ih _ true
      · exact ⟨rfl, rfl⟩

theorem release_wf (e : Run.Env) : e.release.1.tr.wr = e.tr.wr ∧ e.release.1.tr.fl = e.tr.fl := by
  unfold Run.Env.release
  have := release_go_wf (e.segs.length + 1) e false
  generalize Run.Env.release.go (e.segs.length + 1) e false = x at this
  obtain ⟨e', any⟩ := x
  exact this

theorem prePoll_suf (c : Conn) (n : Nat) (sa : Option Nat) : SufL (prePoll c n sa).env.tr c.env.tr := by
  unfold prePoll
  have h : ∀ c0 : Conn, c0.env = c.env →
      SufL (match c0.env.release with
        | (env, _) => ({ c0 with env := ({ env with tr := { env.tr with woken := false } } : Run.Env).ev s!"|{n}" } : Conn)).env.tr
        c.env.tr := by
    intro c0 h0
    have := release_wf c0.env
    generalize c0.env.release = x at this
    obtain ⟨e', any⟩ := x
    simp only at this
    exact SufL.of_eq (by show e'.tr.wr = _; rw [this.1, h0]) (by show e'.tr.fl = _; rw [this.2, h0])
  split
  · exact h _ rfl
  · exact h _ rfl

/-- **every run of the task** consumes prefixes of the write and flush scripts -/
theorem runTask_suf : ∀ (fuel : Nat) (c : Conn) (n : Nat) (sa : Option Nat), SufL (runTask fuel c n sa).1.env.tr c.env.tr := by
  intro fuel
  induction fuel with
  | zero => intro c n sa; exact SufL.refl _
  | succ k ih =>
    intro c n sa
    rw [runTask_succ]
    have h0 := (pollConn_suf (connFuel (prePoll c n sa)) (prePoll c n sa)).trans (prePoll_suf c n sa)
    generalize pollConn (connFuel (prePoll c n sa)) (prePoll c n sa) = x at h0
    obtain ⟨c3, r⟩ := x
    simp only at h0
    cases r with
    | finished => exact h0
    | panic s => exact h0
    | pending =>
      simp only
      split
      · exact (ih c3 (n + 1) sa).trans h0
      · have hrel := release_wf c3.env
        generalize c3.env.release = y at hrel
        obtain ⟨env, any⟩ := y
        simp only at hrel ⊢
        have h1 : SufL env.tr c.env.tr := (SufL.of_eq hrel.1 hrel.2).trans h0
        split
        · exact (ih _ (n + 1) sa).trans h1
        · split
          · split
            · exact (ih _ _ _).trans h1
            · exact h1
          · exact h1

/-- … and so does every closed-loop run -/
theorem closedLoop_suf (fuel : Nat) : ∀ (ws : List Bytes) (c : Conn) (n : Nat),
    SufL (closedLoop fuel ws c n).1.env.tr c.env.tr
  | [], c, n => runTask_suf fuel c n none
  | w :: ws, c, n => by
    have h0 := runTask_suf fuel c n none
    simp only [closedLoop]
    generalize runTask fuel c n none = x at h0
    obtain ⟨c', fin⟩ := x
    simp only at h0 ⊢
    split
    · exact (closedLoop_suf fuel ws (feed c' w) (n + 1000)).trans (show SufL (feed c' w).env.tr c.env.tr from h0)
    · exact h0


/-! ## The READ script: the same for `rd` (generated from the `TLe` family of `Proofs/RunLoop`: `/verif/.run/gen/rdfam.py`) -/

/-- the read answers of `t'` are what is left of those of `t` -/
structure RdL (t t' : Transport) : Prop where
  rd : t'.rd <:+ t.rd

theorem RdL.refl (t : Transport) : RdL t t := ⟨List.suffix_refl _⟩
theorem RdL.trans {a b c : Transport} (h1 : RdL a b) (h2 : RdL b c) : RdL a c := ⟨h2.rd.trans h1.rd⟩
theorem RdL.ev (t : Transport) (s : String) : RdL t (t.ev s) := ⟨List.suffix_refl _⟩
theorem RdL.of_eq {t t' : Transport} (h : t'.rd = t.rd) : RdL t t' := ⟨by rw [h]; exact List.suffix_refl _⟩

theorem read_rl {t t' : Transport} {cap : Nat} {r : Poll (Except IoErr Bytes)}
    (h : t.read cap = (t', r)) : RdL t t' := by
  have := (read_frame t cap).1
  rw [h] at this
  exact ⟨this⟩

theorem writeV_rd (t : Transport) (sl : List Bytes) (tag : String) : (t.writeV sl tag).1.rd = t.rd := by
  unfold Transport.writeV
  repeat' split
  all_goals (try simp [Transport.ev])
  all_goals (repeat' split)
  all_goals (try simp)

theorem flush_rd (t : Transport) : t.flush.1.rd = t.rd := by
  unfold Transport.flush
  repeat' split
  all_goals (try simp [Transport.ev])

theorem flush_rl {t t' : Transport} {r : Poll (Except IoErr Unit)} (h : t.flush = (t', r)) : RdL t t' := by
  have := flush_rd t; rw [h] at this; exact .of_eq this
theorem writeV_rl {t t' : Transport} {sl : List Bytes} {r : Poll (Except IoErr Nat)}
    (h : t.writeV sl "V" = (t', r)) : RdL t t' := by
  have := writeV_rd t sl "V"; rw [h] at this; exact .of_eq this
theorem write_rl {t t' : Transport} {buf : Bytes} {r : Poll (Except IoErr Nat)}
    (h : t.write buf = (t', r)) : RdL t t' := by
  have := writeV_rd t [buf] "W"
  rw [show t.writeV [buf] "W" = (t', r) from h] at this; exact .of_eq this

theorem writeAllLoop_rl : ∀ (fuel : Nat) (buf : Bytes) (t : Transport) {rest : Bytes} {t' : Transport} {res : ORes},
    writeAllLoop fuel buf t = (rest, t', res) → RdL t t' := by
  intro fuel
  induction fuel with
  | zero => intro buf t rest t' res h; simp only [writeAllLoop] at h; cases h; exact .refl _
  | succ n ih =>
    intro buf t rest t' res h
    simp only [writeAllLoop] at h
    split at h
    · cases h; exact .refl _
    · split at h
      · cases h; exact write_rl ‹_›
      · cases h; exact write_rl ‹_›
      · cases h; exact write_rl ‹_›
      · exact (write_rl ‹_›).trans (ih _ _ h)

theorem outLoop_rl : ∀ (fuel : Nat) (sp : Str.Parser) (t : Transport) {sp' : Str.Parser} {t' : Transport} {res : ORes},
    outLoop fuel sp t = (sp', t', res) → RdL t t' := by
  intro fuel
  induction fuel with
  | zero => intro sp t sp' t' res h; simp only [outLoop] at h; cases h; exact .refl _
  | succ n ih =>
    intro sp t sp' t' res h
    simp only [outLoop] at h
    split at h
    · cases h; exact .refl _
    · split at h
      · cases h; exact write_rl ‹_›
      · cases h; exact write_rl ‹_›
      · cases h; exact write_rl ‹_›
      · exact (write_rl ‹_›).trans (ih _ _ h)

theorem writeLoop_rl : ∀ (fuel : Nat) (w : Writer) (head buf : Bytes) (t : Transport)
    {w' : Writer} {t' : Transport} {res : WRes},
    writeLoop fuel w head buf t = (w', t', res) → RdL t t' := by
  intro fuel
  induction fuel with
  | zero => intro w head buf t w' t' res h; simp only [writeLoop] at h; cases h; exact .refl _
  | succ n ih =>
    intro w head buf t w' t' res h
    simp only [writeLoop] at h
    split at h
    · cases h; exact .refl _
    · split at h
      · cases h; exact .refl _
      · split at h
        · cases h; exact writeV_rl ‹_›
        · cases h; exact writeV_rl ‹_›
        · cases h; exact writeV_rl ‹_›
        · split at h
          · cases h; exact writeV_rl ‹_›
          · exact (writeV_rl ‹_›).trans (ih _ _ _ _ h)

theorem pollWrite_rl {w : Writer} {me : Nat} {buf : Bytes} {m : MutexSt} {t : Transport}
    {w' : Writer} {m' : MutexSt} {t' : Transport} {res : WRes}
    (h : w.pollWrite me buf m t = (w', m', t', res)) : RdL t t' := by
  simp only [Writer.pollWrite] at h
  split at h
  · cases h; exact .refl _
  · split at h
    · cases h; exact .refl _
    · split at h
      · cases h; exact .refl _
      · split at h
        · cases h; exact .refl _
        · split at h
          · cases h; exact .refl _
          · split at h
            · cases h; exact writeLoop_rl _ _ _ _ _ ‹_›
            · cases h; exact writeLoop_rl _ _ _ _ _ ‹_›

theorem pollFlush_rl {w : Writer} {me : Nat} {m : MutexSt} {t : Transport}
    {w' : Writer} {m' : MutexSt} {t' : Transport} {res : WRes}
    (h : w.pollFlush me m t = (w', m', t', res)) : RdL t t' := by
  simp only [Writer.pollFlush] at h
  repeat' (split at h)
  all_goals (cases h; first | exact .refl _ | exact flush_rl ‹_›)

theorem pollOutput_rl {r : AReq} {m : MutexSt} {t : Transport}
    {r' : AReq} {m' : MutexSt} {t' : Transport} {res : ORes}
    (h : r.pollOutput m t = (r', m', t', res)) : RdL t t' := by
  simp only [AReq.pollOutput] at h
  repeat' (split at h)
  all_goals (cases h; first | exact .refl _ | exact outLoop_rl _ _ _ ‹_›)

theorem inLoop_rl : ∀ (fuel : Nat) (r : AReq) (new : Bytes) (dest : Option Nat) (m : MutexSt) (t : Transport)
    {r' : AReq} {m' : MutexSt} {t' : Transport} {res : IRes},
    inLoop fuel r new dest m t = (r', m', t', res) → RdL t t' := by
  intro fuel
  induction fuel with
  | zero => intro r new dest m t r' m' t' res h; simp only [inLoop] at h; cases h; exact .refl _
  | succ n ih =>
    intro r new dest m t r' m' t' res h
    simp only [inLoop] at h
    repeat' (split at h)
    all_goals first
      | (cases h; first | exact .refl _ | exact pollOutput_rl ‹_› | exact (pollOutput_rl ‹_›).trans (read_rl ‹_›))
      | exact ((pollOutput_rl ‹_›).trans (read_rl ‹_›)).trans (ih _ _ _ _ _ h)

theorem pollInput_rl {r : AReq} {dest : Option Nat} {m : MutexSt} {t : Transport}
    {r' : AReq} {m' : MutexSt} {t' : Transport} {res : IRes}
    (h : r.pollInput dest m t = (r', m', t', res)) : RdL t t' := by
  simp only [AReq.pollInput] at h
  repeat' (split at h)
  all_goals first
    | (cases h; first | exact .refl _ | exact pollOutput_rl ‹_›)
    | exact (pollOutput_rl ‹_›).trans (inLoop_rl _ _ _ _ _ _ h)

theorem writeablePoll_rl {r : AReq} {started : Bool} {m : MutexSt} {t : Transport}
    {r' : AReq} {b : Bool} {m' : MutexSt} {t' : Transport} {res : ORes}
    (h : r.writeablePoll started m t = (r', b, m', t', res)) : RdL t t' := by
  simp only [AReq.writeablePoll] at h
  repeat' (split at h)
  all_goals (cases h; first | exact .refl _ | exact pollInput_rl ‹_›)

theorem boundaryCont_rl {n : Nat}
    (ih : ∀ (sp : Str.Parser) (new : Bytes) (t : Transport) {sp' : Str.Parser} {t' : Transport} {res : ORes},
      boundaryLoop n sp new t = (sp', t', res) → RdL t t')
    {sp : Str.Parser} {t : Transport} {sp' : Str.Parser} {t' : Transport} {res : ORes}
    (h : boundaryLoop.cont sp t n = (sp', t', res)) : RdL t t' := by
  simp only [boundaryLoop.cont] at h
  repeat' (split at h)
  all_goals first
    | (cases h; first | exact .refl _ | exact read_rl ‹_›)
    | exact (read_rl ‹_›).trans (ih _ _ _ h)

theorem boundaryLoop_rl : ∀ (fuel : Nat) (sp : Str.Parser) (new : Bytes) (t : Transport)
    {sp' : Str.Parser} {t' : Transport} {res : ORes},
    boundaryLoop fuel sp new t = (sp', t', res) → RdL t t' := by
  intro fuel
  induction fuel with
  | zero => intro sp new t sp' t' res h; simp only [boundaryLoop] at h; cases h; exact .refl _
  | succ n ih =>
    intro sp new t sp' t' res h
    simp only [boundaryLoop] at h
    repeat' (split at h)
    all_goals first
      | (cases h; exact .refl _)
      | exact boundaryCont_rl ih h

theorem closeP1_rl {r : AReq} {st : CloseSt} {m : MutexSt} {t : Transport} :
    (∀ {r' m' t' st'}, closeP1 r st m t = .ok (r', m', t', st') → RdL t t') ∧
    (∀ {r' cs' m' t' res}, closeP1 r st m t = .error (r', cs', m', t', res) → RdL t t') := by
  constructor
  all_goals
    intros
    rename_i h
    simp only [closeP1] at h
    repeat' (split at h)
    all_goals (cases h <;> first | exact .refl _ | exact writeablePoll_rl ‹_›)

theorem closeBoundary_rl {sp : Str.Parser} {resume : Bool} {t : Transport}
    {sp' : Str.Parser} {t' : Transport} {res : ORes}
    (h : closeBoundary sp resume t = (sp', t', res)) : RdL t t' := by
  simp only [closeBoundary] at h
  repeat' (split at h)
  all_goals first
    | (cases h; first | exact .refl _ | exact read_rl ‹_›)
    | exact boundaryLoop_rl _ _ _ _ h
    | exact (read_rl ‹_›).trans (boundaryLoop_rl _ _ _ _ h)

theorem closeP2_rl {r : AReq} {st : CloseSt} {m : MutexSt} {t : Transport} :
    (∀ {r' m' t' st'}, closeP2 r m t st = .ok (r', m', t', st') → RdL t t') ∧
    (∀ {r' cs' m' t' res}, closeP2 r m t st = .error (r', cs', m', t', res) → RdL t t') := by
  constructor
  all_goals
    intros
    rename_i h
    simp only [closeP2] at h
    repeat' (split at h)
    all_goals (cases h <;> first | exact .refl _ | exact closeBoundary_rl ‹_›)

theorem closeP3_rl {r : AReq} {st : CloseSt} {m : MutexSt} {t : Transport} {status : ExitStatus} {alive : Nat} :
    (∀ {r' m' t' st'}, closeP3 r m t st status alive = .ok (r', m', t', st') → t' = t) ∧
    (∀ {r' cs' m' t' res}, closeP3 r m t st status alive = .error (r', cs', m', t', res) → t' = t) := by
  constructor
  all_goals
    intros
    rename_i h
    simp only [closeP3] at h
    repeat' (split at h)
    all_goals (cases h <;> rfl)

theorem finishEnd_rl {r : AReq} {rest : Bytes} {m : MutexSt} {t : Transport}
    {r' : AReq} {cs' : CloseSt} {m' : MutexSt} {t' : Transport} {res : CRes}
    (h : closePoll.finishEnd r rest m t = (r', cs', m', t', res)) : RdL t t' := by
  simp only [closePoll.finishEnd] at h
  repeat' (split at h)
  all_goals (cases h; exact writeAllLoop_rl _ _ _ ‹_›)

theorem closeP4_rl {r : AReq} {st : CloseSt} {m : MutexSt} {t : Transport}
    {r' : AReq} {cs' : CloseSt} {m' : MutexSt} {t' : Transport} {res : CRes}
    (h : closeP4 r m t st = (r', cs', m', t', res)) : RdL t t' := by
  simp only [closeP4] at h
  repeat' (split at h)
  all_goals first
    | (cases h; first | exact .refl _ | exact writeAllLoop_rl _ _ _ ‹_›)
    | exact finishEnd_rl h
    | exact (writeAllLoop_rl _ _ _ ‹_›).trans (finishEnd_rl h)

theorem closePoll_rl {r : AReq} {st : CloseSt} {status : ExitStatus} {alive : Nat} {m : MutexSt} {t : Transport}
    {r' : AReq} {cs' : CloseSt} {m' : MutexSt} {t' : Transport} {res : CRes}
    (h : closePoll r st status alive m t = (r', cs', m', t', res)) : RdL t t' := by
  rw [closePoll_eq] at h
  split at h
  · subst h; exact closeP1_rl.2 ‹_›
  · have h1 := closeP1_rl.1 ‹closeP1 r st m t = _›
    split at h
    · subst h; exact h1.trans (closeP2_rl.2 ‹_›)
    · have h2 := h1.trans (closeP2_rl.1 ‹closeP2 _ _ _ _ = _›)
      split at h
      · subst h; have := closeP3_rl.2 ‹closeP3 _ _ _ _ _ _ = _›; subst this; exact h2
      · have := closeP3_rl.1 ‹closeP3 _ _ _ _ _ _ = _›; subst this
        exact h2.trans (closeP4_rl h)

/-! ## The handler interpreter -/

macro "hq_pre" : tactic => `(tactic| first
  | exact pollInput_rl ‹_›
  | exact writeablePoll_rl ‹_›
  | exact pollWrite_rl ‹_›
  | exact pollFlush_rl ‹_›
  | exact RdL.refl _)

macro "hq_mid" : tactic => `(tactic| first
  | hq_pre
  | (refine RdL.trans ?_ (RdL.ev _ _) <;> first | hq_pre | simp [isHS, toString_str]))

theorem handlerPoll_rl : ∀ (fuel : Nat) (r : AReq) (h : HState) (e : Run.Env)
    {r' : AReq} {h' : HState} {e' : Run.Env} {res : HRes},
    handlerPoll fuel r h e = (r', h', e', res) → RdL e.tr e'.tr := by
  intro fuel
  induction fuel with
  | zero => intro r h e r' h' e' res hh; simp only [handlerPoll] at hh; cases hh; exact .refl _
  | succ n ih =>
    intro r h e r' h' e' res hh
    simp only [handlerPoll] at hh
    repeat' (split at hh)
    all_goals first
      | (cases hh; hq_mid)
      | (refine RdL.trans ?_ (ih _ _ _ hh); hq_mid)


theorem stepConn_rl (c : Conn) : RdL c.env.tr (stepConn c).conn.env.tr := by
  obtain ⟨phase, env, scripts, stop⟩ := c
  cases phase with
  | finished => exact .refl _
  | handler r h =>
    simp only [stepConn]
    repeat' split
    all_goals first
      | exact handlerPoll_rl _ _ _ _ ‹_›
      | exact (handlerPoll_rl _ _ _ _ ‹_›).trans (RdL.ev _ _)
  | closing r cs status alive =>
    simp only [stepConn]
    repeat' split
    all_goals exact closePoll_rl ‹_›
  | parseReq rp sub =>
    cases stop with
    | true => exact .refl _
    | false =>
      cases sub with
      | start =>
        simp only [stepConn, Bool.false_eq_true, if_false]
        repeat' split
        all_goals exact .refl _
      | reading =>
        simp only [stepConn, Bool.false_eq_true, if_false]
        repeat' split
        all_goals exact read_rl ‹_›
      | writing rest done =>
        simp only [stepConn, Bool.false_eq_true, if_false]
        repeat' split
        all_goals first
          | exact writeAllLoop_rl _ _ _ ‹_›
          | exact (writeAllLoop_rl _ _ _ ‹_›).trans (RdL.ev _ _)

theorem pollConn_rl : ∀ (fuel : Nat) (c : Conn), RdL c.env.tr (pollConn fuel c).1.env.tr
  | 0, c => .refl _
  | fuel + 1, c => by
    rw [pollConn_succ]
    have h := stepConn_rl c
    cases hs : stepConn c with
    | next c' => rw [hs] at h; exact h.trans (pollConn_rl fuel c')
    | halt c' r => rw [hs] at h; exact h

theorem release_go_rd : ∀ (fuel : Nat) (e : Run.Env) (any : Bool),
    (Run.Env.release.go fuel e any).1.tr.rd = e.tr.rd := by
  intro fuel
  induction fuel with
  | zero => intro e any; simp [Run.Env.release.go]
  | succ n ih =>
    intro e any
    obtain ⟨tr, mutex, segs⟩ := e
    cases segs with
    | nil => simp [Run.Env.release.go]
    | cons p rest =>
      obtain ⟨g, bs⟩ := p
      simp only [Run.Env.release.go]
      split
      · exact ih _ true
      · rfl

theorem release_rd (e : Run.Env) : e.release.1.tr.rd = e.tr.rd := by
  unfold Run.Env.release
  have := release_go_rd (e.segs.length + 1) e false
  generalize Run.Env.release.go (e.segs.length + 1) e false = x at this
  obtain ⟨e', any⟩ := x
  exact this

theorem prePoll_rl (c : Conn) (n : Nat) (sa : Option Nat) : RdL c.env.tr (prePoll c n sa).env.tr := by
  unfold prePoll
  have h : ∀ c0 : Conn, c0.env = c.env →
      RdL c.env.tr (match c0.env.release with
        | (env, _) => ({ c0 with env := ({ env with tr := { env.tr with woken := false } } : Run.Env).ev s!"|{n}" } : Conn)).env.tr := by
    intro c0 h0
    have := release_rd c0.env
    generalize c0.env.release = x at this
    obtain ⟨e', any⟩ := x
    simp only at this
    exact .of_eq (by show e'.tr.rd = _; rw [this, h0])
  split
  · exact h _ rfl
  · exact h _ rfl

/-- **every run of the task** consumes a prefix of the read script -/
theorem runTask_rl : ∀ (fuel : Nat) (c : Conn) (n : Nat) (sa : Option Nat), RdL c.env.tr (runTask fuel c n sa).1.env.tr := by
  intro fuel
  induction fuel with
  | zero => intro c n sa; exact .refl _
  | succ k ih =>
    intro c n sa
    rw [runTask_succ]
    have h0 := (prePoll_rl c n sa).trans (pollConn_rl (connFuel (prePoll c n sa)) (prePoll c n sa))
    generalize pollConn (connFuel (prePoll c n sa)) (prePoll c n sa) = x at h0
    obtain ⟨c3, r⟩ := x
    simp only at h0
    cases r with
    | finished => exact h0
    | panic s => exact h0
    | pending =>
      simp only
      split
      · exact h0.trans (ih c3 (n + 1) sa)
      · have hrel := release_rd c3.env
        generalize c3.env.release = y at hrel
        obtain ⟨env, any⟩ := y
        simp only at hrel ⊢
        have h1 : RdL c.env.tr env.tr := h0.trans (.of_eq hrel)
        split
        · exact h1.trans (ih { c3 with env := env } (n + 1) sa)
        · split
          · split
            · exact h1.trans (ih { c3 with env := env } _ _)
            · exact h1
          · exact h1

theorem closedLoop_rl (fuel : Nat) : ∀ (ws : List Bytes) (c : Conn) (n : Nat),
    RdL c.env.tr (closedLoop fuel ws c n).1.env.tr
  | [], c, n => runTask_rl fuel c n none
  | w :: ws, c, n => by
    have h0 := runTask_rl fuel c n none
    simp only [closedLoop]
    generalize runTask fuel c n none = x at h0
    obtain ⟨c', fin⟩ := x
    simp only at h0 ⊢
    split
    · exact (h0.trans (.of_eq rfl : RdL c'.env.tr (feed c' w).env.tr)).trans (closedLoop_rl fuel ws (feed c' w) (n + 1000))
    · exact h0

theorem RdL.drop {t t' : Transport} (h : RdL t t') : ∃ n, t'.rd = t.rd.drop n ∧ n + t'.rd.length = t.rd.length :=
  suffix_eq_drop h.rd

end Fcgi.E2E
