import Fcgi.Proofs.E2EFilterAbort2
/-!
# `readAll` on the LAST input stream, cut by an `AbortRequest` after some content

`poll_input` sets `writeable` when it returns `Ready` on the last input stream.  For the handler's
`readAll` of the Data stream of a Filter that is cut by the request's `AbortRequest`: the request is
writeable after the failed read iff some `read` returned content before (the accumulator is not empty).
Content that is parsed in the same `parse` call as the abort record is lost with the `Err` — if that is
all the content, the request does not become writeable.
-/
namespace Fcgi.E2E
open Fcgi Fcgi.Req Fcgi.Str Fcgi.Async Fcgi.Run Fcgi.Spec Fcgi.C09E

/-- a `Ready` from the read loop of `poll_input` on the last input stream leaves the request writeable -/
theorem inLoop_readyW : ∀ (fuel : Nat) (r : AReq) (new : Bytes) (dest : Option Nat) (m : MutexSt) (t : Transport)
    {r' : AReq} {m' : MutexSt} {t' : Transport} {k : Nat} {d : Bytes},
    inLoop fuel r new dest m t = (r', m', t', .ready k d) → r'.isFinalStream = true → r'.writeable = true := by
  intro fuel
  induction fuel with
  | zero => intro r new dest m t r' m' t' k d h; simp only [inLoop] at h; cases h
  | succ n ih =>
    intro r new dest m t r' m' t' k d h hf
    simp only [inLoop] at h
    repeat' (split at h)
    all_goals first
      | (cases h; done)
      | (cases h; simp_all [AReq.isFinalStream]; done)
      | exact ih _ _ _ _ _ h hf

theorem pollInput_readyW {r : AReq} {m : MutexSt} {t : Transport}
    {r' : AReq} {m' : MutexSt} {t' : Transport} {k : Nat} {d : Bytes}
    (h : r.pollInput (some 64) m t = (r', m', t', .ready k d)) (hp : r.sp.parsed = [])
    (hf : r'.isFinalStream = true) : r'.writeable = true := by
  simp only [AReq.pollInput, hp] at h
  repeat' (split at h)
  all_goals first
    | (cases h; done)
    | (cases ‹([] : Bytes) = _ :: _›)
    | (exfalso; omega)
    | exact inLoop_readyW _ _ _ _ _ _ h hf

/-- `readAll` on the last input stream, cut by an `AbortRequest` (`Proofs/E2EAbortStr.readAll_runA`): the
request is writeable afterwards iff the handler had received content before the failing `read`. -/
theorem readAll_runAF {K : RCtx} (hK : K.Aborted) (hfinal : K.final = true) {L P : Bytes} (rest : List HOp) (ws : List (Option Writer))
    (pr : Bool) :
    ∀ (N fuel : Nat) (r : AReq) (sub : HSub) (e : Run.Env) (dO : Bytes) (d : Nat),
      2 * ((K.C.length - (accOf sub).length) / 64) + 2 * e.tr.input.length + d < N → N + 1 ≤ fuel →
      (d = 0 → Idle r.sp) → Ben e.tr → RSt K L P r e.mutex e.tr (accOf sub) dO →
      (r.writeable = true ↔ accOf sub ≠ []) →
      (∃ (r' : AReq) (acc' : Bytes) (e' : Run.Env) (dO' : Bytes),
          handlerPoll fuel r { ops := .readAll :: rest, sub := sub, writers := ws, propagate := pr } e =
            (r', { ops := .readAll :: rest, sub := .readAllAcc acc', writers := ws, propagate := pr }, e', .pending) ∧
          RSt K L P r' e'.mutex e'.tr acc' dO' ∧ e'.segs = e.segs ∧ TStep e.tr e'.tr ∧
          e'.tr.woken = true ∧ ans e'.tr < ans e.tr ∧ (r'.writeable = true ↔ acc' ≠ [])) ∨
      (∃ (r' : AReq) (acc lost : Bytes) (e' : Run.Env) (fuel' : Nat),
          handlerPoll fuel r { ops := .readAll :: rest, sub := sub, writers := ws, propagate := pr } e =
            (if pr then (r', { ops := rest, sub := .fresh, writers := ws, propagate := pr },
                e'.ev (raEvent acc), .done (.error .abortRequest))
             else handlerPoll fuel' r' { ops := rest, sub := .fresh, writers := ws, propagate := pr }
                (e'.ev (raEvent acc))) ∧
          fuel ≤ fuel' + N ∧ acc ++ lost = K.C ∧ AtAbort K L P r' e'.tr ∧ e'.mutex = none ∧
          e'.segs = e.segs ∧ TStep e.tr e'.tr ∧ (r'.writeable = true ↔ acc ≠ []) ∧ r'.sp.parsed = [] ∧
          r'.sp.stream = r.sp.stream) := by
  intro N
  induction N with
  | zero => intro fuel r sub e dO d hN; omega
  | succ N ih =>
    intro fuel r sub e dO d hN hf hd hb hs hw0
    obtain ⟨f, rfl⟩ : ∃ f, fuel = f + 1 := ⟨fuel - 1, by omega⟩
    rw [hp_readAll]
    rcases hpi : r.pollInput (some 64) e.mutex e.tr with ⟨r1, m1, t1, res⟩
    obtain ⟨s1, s4, s5, s6⟩ := pollInput_simA hK (by omega : 0 < 64) hb hs hpi
    have s8 : r1.sp.parsed = [] := pollInput_some_parsed hpi hs.inv.choose_spec.par
    have s9 : r1.sp.stream = r.sp.stream := pollInput_stream hpi
    have s7 : (∀ k dd, res ≠ .ready k dd) → r1.writeable = r.writeable := pollInput_wframe hpi
    cases res with
    | pending =>
      left
      obtain ⟨⟨dO', hs'⟩, hw, ha⟩ := s4
      exact ⟨r1, accOf sub, { e with mutex := m1, tr := t1 }, dO', rfl, hs', rfl, s1, hw, ha, by rw [s7 (fun _ _ h => nomatch h)]; exact hw0⟩
    | panic x => exact s4.elim
    | err x =>
      right
      obtain ⟨hx, hm1, ⟨lost, hl⟩, hat⟩ := s4
      subst hx hm1
      exact ⟨r1, accOf sub, lost, { e with mutex := none, tr := t1 }, f, rfl, by omega, hl, hat, rfl, rfl, s1, by rw [s7 (fun _ _ h => nomatch h)]; exact hw0, s8, s9⟩
    | ready k dd =>
      obtain ⟨hk, hkpos, dO', hs', hlk, hm1, hfull⟩ := s4
      subst hm1
      cases k with
      | zero => omega
      | succ k' =>
        simp only
        obtain ⟨G1, hi1⟩ := hs'.inv
        have hnow := (hi1.nowA hK).1
        have hlenC : (accOf sub).length + (k' + 1) ≤ K.C.length := by
          have := congrArg List.length hnow
          simp only [List.length_append] at this
          omega
        have hinle := s1.tle.input_len
        have hdec : ∃ d1, (d1 = 0 → Idle r1.sp) ∧
            2 * ((K.C.length - (accOf sub ++ dd).length) / 64) + 2 * t1.input.length + d1 < N := by
          have hin' : d = 0 → t1.input.length < e.tr.input.length := by
            intro h0
            exact s5 (hd h0) _ _ rfl
          simp only [List.length_append]
          rcases hfull with h64 | hdr
          · refine ⟨1, fun h => by omega, ?_⟩
            by_cases h0 : d = 0
            · have := hin' h0; omega
            · omega
          · refine ⟨0, fun _ => hdr, ?_⟩
            by_cases h0 : d = 0
            · have := hin' h0; omega
            · omega
        obtain ⟨d1, hd1, hm1⟩ := hdec
        have hw1 : r1.writeable = true ↔ accOf (HSub.readAllAcc (accOf sub ++ dd)) ≠ [] := by
          have hwt : r1.writeable = true :=
            pollInput_readyW hpi hs.inv.choose_spec.par (by rw [isFinal_of_match hi1.mt]; exact hfinal)
          have hne : accOf sub ++ dd ≠ [] := by
            intro h0
            have := congrArg List.length h0
            simp only [List.length_append, List.length_nil] at this
            omega
          exact ⟨fun _ => hne, fun _ => hwt⟩
        rcases ih f r1 (.readAllAcc (accOf sub ++ dd)) { e with mutex := none, tr := t1 } dO' d1 hm1
            (by omega) hd1 (hb.step s1) hs' hw1 with
          ⟨r2, acc2, e2, dO2, d1', d3, d5, d6, d8, d9, d10⟩ |
          ⟨r2, acc2, lost2, e2, f2, d1', d2, d3, d4, d5, d6, d7, d8, d8', d8s⟩
        · left
          refine ⟨r2, acc2, e2, dO2, d1', d3, d5, s1.trans d6, d8, ?_, d10⟩
          have := s1.ans_le
          have d9' : ans e2.tr < ans t1 := d9
          omega
        · right
          exact ⟨r2, acc2, lost2, e2, f2, d1', by omega, d3, d4, d5, d6, s1.trans d7, d8, d8', d8s.trans s9⟩



end Fcgi.E2E
