import Fcgi.Proofs.E2EChainNF
/-!
# The abort continuations over `Cfg.OKn` (the follow-up request without a cost bound)

Copies (text transformation, suffix `N`) of `apre_pst`, `apre_poll`, `run_from_out'`, `run_from_res'`, `run_via'`, `run_absorbed'`
(`Proofs/E2EAbort`, `E2EUnb`), `NextOK`, `After.stage`, `run_abort_next'` (`Proofs/E2EAbortConn`, `E2EUnb`).
-/
namespace Fcgi.E2E
open Fcgi Fcgi.Req Fcgi.Str Fcgi.Async Fcgi.Run Fcgi.Spec Fcgi.C09E

structure NextOKn (g g' : Cfg) : Prop where
  ok : g'.OKn
  b : g'.b = g.b
  mc : g'.mc = g.mc
  hs0 : g'.hs0 = g.hs0 + 1
  more : g.more = (g'.hscript, true) :: g'.more
  wire : g.U = g'.W
  keep : g.p.flags.toNat % 2 = 1

theorem apre_pstN {A E L : Bytes} {g : Cfg} (ok : g.OKn) (hab : Absorb g.cap g.mc A E) (hL : g.L0 = L ++ E)
    {c : Conn} {F : Bytes} (hst : PSt g.cap g.mc (A ++ g.W) L [] c F)
    (hsc : c.scripts = (g.hscript, true) :: g.more) (hm : c.env.mutex = none)
    (hev : hsCount c.env.tr.events = g.hs0) :
    SRes (APre A L g) g (6 * c.env.tr.input.length + 19) c := by
  obtain ⟨n, c1, F1, hn, hs, hfr, hout⟩ :=
    parse_loop (cap24 g) (hab.ns (nsN ok)) _ c F hst (Nat.le_refl _)
  have hnb : n ≤ 2 * c.env.tr.input.length + 2 := by have := wbit_le c; omega
  have hsc1 : c1.scripts = (g.hscript, true) :: g.more := hfr.scripts.trans hsc
  have hm1 : c1.env.mutex = none := hfr.mutex.trans hm
  have hev1 : hsCount c1.env.tr.events = g.hs0 := hfr.ts.hs.trans hev
  have hin1 := hfr.ts.tle.input_len
  -- behind the prefix: a poll of the request itself
  have behind : ∀ e, PSt g.cap g.mc (A ++ g.W) L [] c1 (A ++ e) → (∃ q, c1.phase = .parseReq q .reading) →
      SRes (APre A L g) g (6 * c.env.tr.input.length + 19) c := by
    intro e h1 hrd
    have h2 : PSt g.cap g.mc g.W g.L0 [] c1 e := by rw [hL]; exact h1.shift hab hrd
    exact Or.inr ((Res.of_steps hs hfr.link (parse_pollN ok h2 hsc1 hm1 hev1)).mono (by omega))
  rcases hout with ⟨c2, h1, h2, h3, h4, h5⟩ | ⟨rest, t', hph, hf, hw, hstop1, hben1, hrem1, hwa, hlog, hts', hinp'⟩ |
      ⟨hin, hnf, hph, hst1⟩
  · left
    refine ⟨c2, ⟨n, c1, by omega, hs, h1⟩, hfr.link.trans h3.link,
      ⟨Or.inl ⟨F1, h2⟩, h3.scripts.trans hsc1, h3.mutex.trans hm1, h3.ts.hs.trans hev1⟩, h4,
      by have := hfr.ts.ans_le; omega⟩
  · have hpre : F1 <+: A ++ g.W := ⟨c1.env.tr.input, by simpa using hw⟩
    rcases prefix_append_cases hpre with ⟨e, rfl, _⟩ | ⟨t, _, hFt⟩
    · -- the preamble of `g` is complete; its last `write_all` (which may still carry part of `E`) completes
      have hrun := hab.app e
      have hw' : e ++ c1.env.tr.input ++ [] = g.W := by
        rw [List.append_nil] at hw ⊢
        rw [List.append_assoc] at hw
        exact List.append_cancel_left hw
      have hfp := final_pollN ok (F1 := e) (rest := rest) (t' := t')
        (by rw [← hab.track_eq e]; exact hph) (by rw [hrun] at hf; exact hf) hw' hstop1 hben1
        (by rw [hrun] at hrem1; exact hrem1) hwa
        (by rw [hlog, hrun, hL]; simp only [pre, List.append_assoc]) hts' hinp' hsc1 hm1 hev1
      exact Or.inr ((Res.of_steps hs hfr.link hfp).mono (by omega))
    · rw [hab.nonfinal ⟨t, hFt⟩] at hf; cases hf
  · have hF1 : F1 = A ++ g.W := by
      have := hst1.wire
      rwa [hin, List.append_nil, List.append_nil] at this
    subst hF1
    exact behind g.W hst1 ⟨_, hph⟩

/-- **One poll** from inside `parse_request` on `A ++ g.W`. -/
theorem apre_pollN {A E L : Bytes} {g : Cfg} (ok : g.OKn) (hab : Absorb g.cap g.mc A E) (hL : g.L0 = L ++ E)
    {c : Conn} (h : APre A L g c) : SRes (APre A L g) g (6 * c.env.tr.input.length + 20) c := by
  obtain ⟨hst, hsc, hm, hev⟩ := h
  rcases hst with ⟨F, hst⟩ | ⟨raw, hph, hwire, hraw, hlog, hb, hstop⟩
  · exact (apre_pstN ok hab hL hst hsc hm hev).mono (by omega)
  · have hpre : raw <+: A ++ g.W := ⟨c.env.tr.input, hwire⟩
    have hstart := start_track (cap24 g) hraw (hab.ns (nsN ok) _ hpre)
    have hstep := step_start c _ hph hstop
    rw [hstart] at hstep
    have hstep' : stepConn c = .next (mkC c (.parseReq (track g.cap g.mc raw)
        (.writing (run .header raw g.mc).out (run .header raw g.mc).st.isFinal)) c.env.tr) := hstep
    have hremle : (run .header raw g.mc).rem.length ≤ g.cap := by
      have := (run_ok raw g.mc (st := .header) trivial).2.2.length_le
      omega
    have hst : PSt g.cap g.mc (A ++ g.W) L [] (mkC c (.parseReq (track g.cap g.mc raw)
        (.writing (run .header raw g.mc).out (run .header raw g.mc).st.isFinal)) c.env.tr) raw :=
      ⟨by show raw ++ c.env.tr.input ++ [] = A ++ g.W
          rw [List.append_nil]; exact hwire,
        hstop, hb, hremle, Or.inr ⟨_, rfl, by show c.env.tr.wlog ++ _ = _; rw [hlog], [], rfl⟩⟩
    have := SRes.of_steps (Steps.one hstep') (mkC_link c _ (.refl _)) (apre_pstN ok hab hL hst hsc hm hev)
    exact this.mono (by show 1 + (6 * c.env.tr.input.length + 19) ≤ _; omega)

/-- `run_from_out` without the size hypothesis. -/
theorem run_from_outN' {g : Cfg} (ok : g.OKn) (c : Conn) (n f N : Nat) (hsegs : c.env.segs = [])
    {c' : Conn} {r : Run.PRes} (hh : Halts N (prePoll c n none) c' r) (hl : Link (prePoll c n none) c')
    (ho : Out g (prePoll c n none) c' r) (hN : N ≤ 6 * c.env.tr.input.length + 26) (hf : ans c.env.tr ≤ f) :
    ∃ c'', ((c''.env.tr.endMode = c.env.tr.endMode ∧ ans c''.env.tr ≤ ans c.env.tr ∧ c''.env.segs = [] ∧
        ∀ s, s ∈ c.env.tr.events → s ∈ c''.env.tr.events) ∧
      ∃ O1 O2, O1 ++ O2 = g.Ot ∧
      ((runTask (f + 1) c n none = (c'', "RET") ∧ Fin g O1 O2 c'') ∨
       (runTask (f + 1) c n none = (c'', "STALL") ∧ Parked g O1 O2 c''))) ∧
      ∀ s, s ∈ c'.env.tr.events → s ∈ c''.env.tr.events := by
  obtain ⟨hsame, hph, hsc, hstop, hmx, hsg, hwk⟩ := prePoll_same c n hsegs
  have hpoll := hh.pollB (by rw [hsame.input]; exact hN)
  have hans0 : ans (prePoll c n none).env.tr = ans c.env.tr := by unfold ans; rw [hsame.rd, hsame.wr]
  have hsg' : c'.env.segs = [] := hl.segs.trans hsg
  have hem : c'.env.tr.endMode = c.env.tr.endMode ∧ ans c'.env.tr ≤ ans c.env.tr ∧ c'.env.segs = [] ∧
      ∀ s, s ∈ c.env.tr.events → s ∈ c'.env.tr.events :=
    ⟨hl.ts.em.trans hsame.em, by have := hl.ts.ans_le; omega, hsg', fun s hs => hl.ts.evm s (hsame.mem hs)⟩
  rw [runTask_succ, hpoll]
  have again : ∀ (hs' : Stage g c'), ans c'.env.tr < ans (prePoll c n none).env.tr →
      ∃ c2, ((c2.env.tr.endMode = c.env.tr.endMode ∧ ans c2.env.tr ≤ ans c.env.tr ∧ c2.env.segs = [] ∧
          ∀ s, s ∈ c.env.tr.events → s ∈ c2.env.tr.events) ∧
        ∃ O1 O2, O1 ++ O2 = g.Ot ∧
        ((runTask f c' (n + 1) none = (c2, "RET") ∧ Fin g O1 O2 c2) ∨
         (runTask f c' (n + 1) none = (c2, "STALL") ∧ Parked g O1 O2 c2))) ∧
        ∀ s, s ∈ c'.env.tr.events → s ∈ c2.env.tr.events := by
    intro hs' ha
    obtain ⟨c2, ⟨h1, h1', h1'', h1e⟩, h2⟩ :=
      run_from_stageN' ok (ans c'.env.tr) c' (n + 1) f hs' hsg' (Nat.le_refl _) (by omega)
    exact ⟨c2, ⟨⟨h1.trans hem.1, by have := hem.2.1; omega, h1'', fun s hs => h1e s (hem.2.2.2 s hs)⟩, h2⟩, h1e⟩
  cases ho with
  | @fin O1 O2 hO hfin => exact ⟨c', ⟨hem, O1, O2, hO, Or.inl ⟨rfl, hfin⟩⟩, fun _ hs => hs⟩
  | pend hs' hw ha =>
    simp only [hw, if_true]
    exact again hs' ha
  | @park O1 O2 hs' hO hp =>
    rcases hl.ts.wk with hw | ⟨hw, ha⟩
    · rw [hwk] at hw
      simp only [hw, Bool.false_eq_true, if_false]
      rw [release_nil _ hsg']
      simp only [hw, Bool.false_eq_true, if_false]
      refine ⟨_, ⟨?_, O1, O2, hO,
        Or.inr ⟨rfl, hp.cong rfl rfl rfl rfl ⟨rfl, rfl, rfl, rfl, rfl, rfl, [], by simp, Quiet.nil⟩⟩⟩, fun _ hs => hs⟩
      exact hem
    · simp only [hw, if_true]
      exact again hs' ha

/-- `run_from_res` without the size hypothesis. -/
theorem run_from_resN' {g : Cfg} (ok : g.OKn) (c : Conn) (n f N : Nat) (hsegs : c.env.segs = [])
    (hres : Res g N (prePoll c n none)) (hN : N ≤ 6 * c.env.tr.input.length + 26) (hf : ans c.env.tr ≤ f) : RunEnd g (f + 1) c n := by
  obtain ⟨c', r, hh, hl, ho⟩ := hres
  obtain ⟨c'', h, _⟩ := run_from_outN' ok c n f N hsegs hh hl ho hN hf
  exact ⟨c'', h⟩

/-- `run_via` without the size hypothesis. -/
theorem run_viaN' {g : Cfg} (ok : g.OKn) (S : Conn → Prop)
    (hcong : ∀ c c', S c → c'.phase = c.phase → c'.scripts = c.scripts → c'.stop = c.stop →
      c'.env.mutex = c.env.mutex → TrSame c.env.tr c'.env.tr → S c')
    (hpoll : ∀ c, S c → SRes S g (6 * c.env.tr.input.length + 20) c) :
    ∀ (A : Nat) (c : Conn) (n fuel : Nat), S c → c.env.segs = [] → ans c.env.tr ≤ A → A + 1 ≤ fuel → RunEnd g fuel c n := by
  intro A
  induction A with
  | zero =>
    intro c n fuel hS hsegs hA hf
    obtain ⟨f, rfl⟩ : ∃ f, fuel = f + 1 := ⟨fuel - 1, by omega⟩
    obtain ⟨hsame, hph, hsc, hstop, hmx, hsg, hwk⟩ := prePoll_same c n hsegs
    have hans0 : ans (prePoll c n none).env.tr = ans c.env.tr := by unfold ans; rw [hsame.rd, hsame.wr]
    rcases hpoll _ (hcong _ _ hS hph hsc hstop hmx hsame) with ⟨c', hh, hl, hS', hw, ha⟩ | hres
    · omega
    · exact run_from_resN' ok c n f _ hsegs hres (by rw [hsame.input]; omega) (by omega)
  | succ A ih =>
    intro c n fuel hS hsegs hA hf
    obtain ⟨f, rfl⟩ : ∃ f, fuel = f + 1 := ⟨fuel - 1, by omega⟩
    obtain ⟨hsame, hph, hsc, hstop, hmx, hsg, hwk⟩ := prePoll_same c n hsegs
    have hans0 : ans (prePoll c n none).env.tr = ans c.env.tr := by unfold ans; rw [hsame.rd, hsame.wr]
    rcases hpoll _ (hcong _ _ hS hph hsc hstop hmx hsame) with ⟨c', hh, hl, hS', hw, ha⟩ | hres
    · have hpoll' := hh.pollB (by omega)
      have hsg' : c'.env.segs = [] := hl.segs.trans hsg
      obtain ⟨c2, ⟨h1, h1', h1'', h1e⟩, h2⟩ := ih c' (n + 1) f hS' hsg' (by omega) (by omega)
      unfold RunEnd
      rw [runTask_succ, hpoll']
      simp only [hw, if_true]
      exact ⟨c2, ⟨h1.trans (hl.ts.em.trans hsame.em), by have := hl.ts.ans_le; omega, h1'',
        fun s hs => h1e s (hl.ts.evm s (hsame.mem hs))⟩, h2⟩
    · exact run_from_resN' ok c n f _ hsegs hres (by rw [hsame.input]; omega) (by omega)

/-- `run_absorbed` without the size hypothesis. -/
theorem run_absorbedN' {A E L : Bytes} {g : Cfg} (ok : g.OKn) (hab : Absorb g.cap g.mc A E) (hL : g.L0 = L ++ E)
    (c : Conn) (n fuel : Nat) (h : APre A L g c) (hsegs : c.env.segs = []) (hf : ans c.env.tr + 1 ≤ fuel) : RunEnd g fuel c n :=
  run_viaN' ok (APre A L g) (fun _ _ h a b c d e => h.cong a b c d e) (fun _ h => apre_pollN ok hab hL h)
    (ans c.env.tr) c n fuel h hsegs (Nat.le_refl _) hf

theorem After.stageN {g g' : Cfg} {O1 O2 : Bytes} {c : Conn} (h : After g O1 O2 c) (hn : NextOKn g g') :
    Stage (g'.at (g.LA O1 O2)) c := by
  obtain ⟨raw, hph, hw, hraw⟩ := h.ph
  have hcap : g'.cap = g.cap := by simp only [Cfg.cap, hn.b]
  refine .start (raw := raw) ?_ ?_ ?_ h.log h.ben h.stop (h.sc.trans hn.more) h.mtx (h.ev.1.trans hn.hs0.symm)
  · show c.phase = .parseReq ⟨g'.cap, raw, .header, g'.mc⟩ .start
    rw [hcap, hn.mc]; exact hph
  · show raw ++ c.env.tr.input = g'.W
    rw [← hn.wire]; exact hw
  · show raw.length ≤ g'.cap
    rw [hcap]; exact hraw

/-- `run_abort_next` without the size hypothesis. -/
theorem run_abort_nextN' {g g' : Cfg} {a : Rec} {tail : Bytes} {pr : Bool} {rest : List HOp}
    (ok : AbOK g a tail pr rest) (hn : NextOKn g g') (em : EndMode) (c : Conn) (n fuel : Nat)
    (hst : BStage g pr rest c) (hem : c.env.tr.endMode = em) (hsegs : c.env.segs = [])
    (hf : ans c.env.tr + 1 ≤ fuel) :
    ∃ c'' fin O1 O2 P1 P2, runTask fuel c n none = (c'', fin) ∧ O1 ++ O2 = g.Ot ∧ P1 ++ P2 = g'.Ot ∧
      c''.env.tr.endMode = em ∧ RaEv g c''.env.tr ∧ hsEvent g.p.request ∈ c''.env.tr.events ∧
      ((fin = "RET" ∧ Fin (g'.at (g.LA O1 O2)) P1 P2 c'') ∨
       (fin = "STALL" ∧ Parked (g'.at (g.LA O1 O2)) P1 P2 c'')) := by
  obtain ⟨c'', fin, hrun, O1, O2, P1, P2, h1, h2, h3, h4, h5, h6⟩ := run_gen'
    (fun c0 => BStage g pr rest c0 ∧ c0.env.tr.endMode = em)
    (fun c0 => ∃ k c1 O1 O2, k ≤ 2 * c0.env.tr.input.length + 9 ∧ Steps k c0 c1 ∧ Link c0 c1 ∧ O1 ++ O2 = g.Ot ∧
      After g O1 O2 c1)
    (fun c'' fin => ∃ O1 O2 P1 P2, O1 ++ O2 = g.Ot ∧ P1 ++ P2 = g'.Ot ∧
      c''.env.tr.endMode = em ∧ RaEv g c''.env.tr ∧ hsEvent g.p.request ∈ c''.env.tr.events ∧
      ((fin = "RET" ∧ Fin (g'.at (g.LA O1 O2)) P1 P2 c'') ∨
       (fin = "STALL" ∧ Parked (g'.at (g.LA O1 O2)) P1 P2 c'')))
    (fun _ _ h a b c d e => ⟨h.1.cong a b c d e, e.em.trans h.2⟩)
    (fun c0 h => by
      rcases bstage_poll ok h.1 with ⟨c', hh, hl, hS, hw, ha⟩ | ⟨k, c1, O1, O2, hk, hs, hl, hO, haf⟩ |
          ⟨c', O1, O2, hh, hl, hO, hf⟩
      · exact Or.inl ⟨c', hh.mono (by omega), hl, ⟨hS, hl.ts.em.trans h.2⟩, hw, ha⟩
      · exact Or.inr ⟨k, c1, O1, O2, hk, hs, hl, hO, haf⟩
      · have := hf.nokeep; have := hn.keep; omega)
    (fun c0 n0 f0 hS0 hsg ⟨k, c1, O1, O2, hk, hs, hl, hO, haf⟩ hf0 => by
      obtain ⟨hsame, _⟩ := prePoll_same c0 n0 hsg
      have hres := stage_pollN (hn.ok.at (g.LA O1 O2)) (haf.stageN hn)
      obtain ⟨c', r, hh, hl2, ho⟩ := hres
      have hin1 := hl.ts.inp
      obtain ⟨c'', ⟨⟨e1, _, _, _⟩, P1, P2, hP, hfin⟩, hevs⟩ :=
        run_from_outN' (hn.ok.at (g.LA O1 O2)) c0 n0 f0 _ hsg (hh.of_steps hs) (hl.trans hl2) (ho.mono hl)
          (by rw [hsame.input] at hk hin1; omega) hf0
      have hevs1 : ∀ s, s ∈ c1.env.tr.events → s ∈ c''.env.tr.events := fun s hs => hevs s (hl2.ts.evm s hs)
      obtain ⟨acc, lost, hacc, hmem⟩ := haf.ra
      rcases hfin with ⟨hr, hf⟩ | ⟨hr, hp⟩
      · exact ⟨c'', "RET", hr, O1, O2, P1, P2, hO, hP, e1.trans hS0.2, ⟨acc, lost, hacc, hevs1 _ hmem⟩,
          hevs1 _ haf.ev.2, Or.inl ⟨rfl, hf⟩⟩
      · exact ⟨c'', "STALL", hr, O1, O2, P1, P2, hO, hP, e1.trans hS0.2, ⟨acc, lost, hacc, hevs1 _ hmem⟩,
          hevs1 _ haf.ev.2, Or.inr ⟨rfl, hp⟩⟩)
    (ans c.env.tr) c n fuel ⟨hst, hem⟩ hsegs (Nat.le_refl _) hf
  exact ⟨c'', fin, O1, O2, P1, P2, hrun, h1, h2, h3, h4, h5, h6⟩

end Fcgi.E2E
