import Fcgi.Proofs.E2ETrunc3

/-!
# C12 end to end, FILTER: the configuration of a wire cut inside the terminating `Data` record

`cutCfgF g n`: the Filter configuration `g` (`Cfg.OK`) with its terminating `Data` record cut after `n`
bytes, `8 ≤ n < |record|`.  `cfg3_cut`: it satisfies `Cfg3`.
-/
namespace Fcgi.C12E
open Fcgi Fcgi.Req Fcgi.Str Fcgi.Async Fcgi.Run Fcgi.Spec Fcgi.E2E

def cutCfgF (g : E2E.Cfg) (n : Nat) : E2E.Cfg :=
  { g with X := serAll g.body ++ (g.term.ser ++ (serAll g.body2 ++ g.term2.ser.take n)),
           X2 := serAll g.body2 ++ g.term2.ser.take n, U := g.term2.ser.take n }

theorem cfg3_cut {g : E2E.Cfg} (ok : g.OK) (hr : g.p.role = 3) {n : Nat} (h8 : 8 ≤ n)
    (hn : n < g.term2.ser.length) : Cfg3 (cutCfgF g n) := by
  cases ok.shape with
  | authorizer hr2 hX hU hOt hrv hs hfu0 => omega
  | responderU hr1 hb hf hp hX2 hX hU hOt hrv hs hfu => omega
  | filterU hr3 hb1 hb2 hf hf2 hp hp2 hX2 hX hU hOt hrv hs hfu =>
    have hid := (pid_lt ok).2
    obtain ⟨hK1, hK2, hfo⟩ := kokF ok hr3 hb1 hb2 hf hf2 hp hp2 hX2 hX
    have htw := term_wf ok hp
    have htw2 := term2_wf ok hp2
    have htp : g.term2.ser.take n <+: g.term2.ser := List.take_prefix _ _
    have htl : (g.term2.ser.take n).length = n := by rw [List.length_take]; omega
    have hcls1 : rclass ⟨g.p.id, 3, 5, g.mc⟩ g.term = .endStream := by
      simp [rclass, E2E.Cfg.term, RT.isInputStream]
    have hcls2 : rclass ⟨g.p.id, 3, 8, g.mc⟩ g.term2 = .endStream := by
      simp [rclass, E2E.Cfg.term2, RT.isInputStream]
    have hpc : rclass ⟨g.p.id, 3, 8, g.mc⟩ g.term = .noise := by
      have hl : ¬ Later 3 (some 8) 5 := by decide
      simp [rclass, E2E.Cfg.term, RT.isInputStream, hl]
    have hpo : owed (some g.p.id) g.mc g.term = [] := by
      simp [owed, E2E.Cfg.term, RT.valid, RT.getValues, RT.beginRequest]
    have hUpre : ∀ F, F <+: g.term2.ser.take n → F <+: g.U := fun F hF => by rw [hU]; exact hF.trans htp
    have hXpre : serAll g.body ++ (g.term.ser ++ (serAll g.body2 ++ g.term2.ser.take n)) <+: g.X := by
      rw [hX, hX2]
      exact (List.prefix_append_right_inj _).2 ((List.prefix_append_right_inj _).2
        ((List.prefix_append_right_inj _).2 htp))
    have hX2pre : g.term.ser ++ (serAll g.body2 ++ g.term2.ser.take n) <+: g.term.ser ++ g.X2 := by
      rw [hX2]
      exact (List.prefix_append_right_inj _).2 ((List.prefix_append_right_inj _).2 htp)
    have hterm8 : 8 ≤ g.term.ser.length := by rw [ser_length]; omega
    refine ⟨ok.wf, ok.pairs, ok.noise, hr, ⟨?_, ?_, hK1.cap8⟩, ⟨?_, ?_, hK2.cap8⟩, ⟨?_, rfl, rfl, rfl, rfl⟩, ?_, ?_, hs, hfu,
      ?_, ?_⟩
    · show refWire ⟨g.p.id, g.p.role, 5, g.mc⟩ (serAll g.body ++ (g.term.ser ++ (serAll g.body2 ++ g.term2.ser.take n))) =
        ⟨g.content, owedStream g.p.id 5 g.mc g.body, .eos, g.term.ser ++ (serAll g.body2 ++ g.term2.ser.take n)⟩
      rw [hr]
      exact k1_ref g.p.id g.mc hid hb1 g.term htw hcls1 (List.prefix_refl _)
        (by rw [List.length_append]; omega)
    · intro G hG hv
      exact hK1.fits G (hG.trans hXpre) hv
    · show refWire ⟨g.p.id, 3, 8, g.mc⟩ (g.term.ser ++ (serAll g.body2 ++ g.term2.ser.take n)) =
        ⟨g.content2, owedStream g.p.id 8 g.mc g.body2, .eos, g.term2.ser.take n⟩
      rw [refWire_skip ⟨g.p.id, 3, 8, g.mc⟩ g.term htw hpc hpo,
        refWire_of_presentation _ (body_wf hid hb2) (tail_nextRec htw2 htp (by omega)),
        refRun_body (E := ⟨g.p.id, 3, 8, g.mc⟩) (Or.inr rfl) hb2,
        refTail_end _ htw2 hcls2 htp (by omega) (by omega)]
      simp [glue, RefOut.pre]
    · intro G hG hv
      exact hK2.fits G (hG.trans hX2pre) hv
    · show (⟨g.p.id, g.p.role, 5, g.mc⟩ : Str.Cfg) = ⟨g.p.id, 3, 5, g.mc⟩
      rw [hr]
    · exact hOt
    · exact hrv
    · intro F hF
      refine ns' ok F ((hUpre F hF).trans ?_)
      exact List.prefix_append _ _
    · intro F hF
      exact run_U_prefix ok (hUpre F hF)

end Fcgi.C12E
