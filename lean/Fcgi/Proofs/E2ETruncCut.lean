import Fcgi.Proofs.E2ETruncConn

/-!
# C12 end to end, part 4: every cut inside the body of a well-formed stream is a `Cut`

`Y` = any prefix of the wire of the data records and noise of a well-formed `Stdin` stream (that
is: the wire is cut anywhere before the header of the stream's terminating empty record).  Then the
reference says "more input needed" on `Y`, the content it has seen is a prefix of the stream's
content, and the buffer condition of `RCtx.Cut` follows from `NoiseFits` as for the whole stream.
-/
namespace Fcgi.C12E
open Fcgi Fcgi.Req Fcgi.Str Fcgi.Async Fcgi.Run Fcgi.Spec Fcgi.E2E

theorem body_split {id s : Nat} : ∀ (pre : List Rec) {c : Bytes} {rs : List Rec}, Body id s c (pre ++ rs) →
    ∃ c1 c2, c = c1 ++ c2 ∧ Body id s c1 pre ∧ Body id s c2 rs := by
  intro pre
  induction pre with
  | nil => intro c rs h; exact ⟨[], c, rfl, .nil, h⟩
  | cons r pre ih =>
    intro c rs h
    rw [List.cons_append] at h
    cases h with
    | noise _ hn t =>
      obtain ⟨c1, c2, rfl, h1, h2⟩ := ih t
      exact ⟨c1, c2, rfl, .noise r hn h1, h2⟩
    | chunk cc pad res hc hp t =>
      obtain ⟨c1, c2, rfl, h1, h2⟩ := ih t
      exact ⟨cc ++ c1, c2, by simp, .chunk cc pad res hc hp h1, h2⟩

/-- the reference on a proper prefix of a data or noise record: "more", with the part of a data
record's content that is there -/
theorem tail_more (E : Str.Cfg) {r : Rec} (hr : r.WF) {tail : Bytes} (ht : tail <+: r.ser)
    (hl : tail.length < r.ser.length) :
    (rclass E r = .noise → (refTail E tail).verdict = .more ∧ (refTail E tail).content = [] ∧
      (refTail E tail).out <+: owed (some E.id) E.mc r) ∧
    (rclass E r = .data → (refTail E tail).verdict = .more ∧ (refTail E tail).content <+: r.content ∧
      (refTail E tail).out = []) := by
  by_cases hshort : tail.length < 8
  · rw [refTail_short E hshort]
    exact ⟨fun _ => ⟨rfl, rfl, List.nil_prefix⟩, fun _ => ⟨rfl, List.nil_prefix, rfl⟩⟩
  · obtain ⟨rest, rfl, hrest, hrl⟩ := tail_hdr ht hl hshort
    have hcl := be16_toBe16 hr.2.1
    have hcls := hclass_rec E r hr
    simp only [hdr, List.cons_append, List.nil_append, refTail]
    rw [hcls]
    constructor
    · intro hrc
      simp only [hrc, hcl]
      have hcp : r.content <+: r.content ++ r.pad := List.prefix_append _ _
      split
      · refine ⟨rfl, ?_, ?_⟩
        · show stateC (noiseState r) rest = []
          unfold noiseState; split <;> rfl
        · show headOut E.id r <+: _
          rw [owed_noise]
          exact List.prefix_append _ _
      · rename_i hge
        refine ⟨rfl, ?_, ?_⟩
        · show stateC (noiseState r) _ = []
          unfold noiseState; split <;> rfl
        · show headOut E.id r ++ stateO E.mc (noiseState r) (rest.take r.content.length) <+: _
          obtain ⟨z, hz⟩ := List.prefix_of_prefix_length_le hcp hrest (by omega)
          rw [← hz, List.take_left' rfl, owed_noise]
          exact List.prefix_refl _
    · intro hrc
      simp only [hrc, hcl]
      have hcp : r.content <+: r.content ++ r.pad := List.prefix_append _ _
      split
      · rename_i hlt
        refine ⟨rfl, ?_, rfl⟩
        show rest <+: r.content
        exact List.prefix_of_prefix_length_le hrest hcp (by omega)
      · rename_i hge
        refine ⟨rfl, ?_, rfl⟩
        show rest.take r.content.length <+: r.content
        obtain ⟨z, hz⟩ := List.prefix_of_prefix_length_le hcp hrest (by omega)
        rw [← hz, List.take_left']
        · exact List.prefix_refl _
        · rfl

theorem refOut_more {R : RefOut} (h : R.verdict = .more) : R = ⟨R.content, R.out, .more, R.unread⟩ := by
  cases R; simp_all

/-- **Every cut inside the body of a well-formed `Stdin` stream is a `Cut`**: the reference has seen a
prefix of the content and owes a prefix of the replies owed for the whole stream. -/
theorem cut_of_body (id role mc : Nat) (hid : id < 65536) {content : Bytes} {body : List Rec}
    (hb : Body id 5 content body) {M : Nat} (h8 : 8 ≤ M) (hfit : NoiseFits M body) {Y : Bytes}
    (hY : Y <+: serAll body) :
    ∃ C O U, refWire ⟨id, role, 5, mc⟩ Y = ⟨C, O, .more, U⟩ ∧ C <+: content ∧ O <+: owedStream id 5 mc body ∧
      (∀ G, G <+: Y → (refWire ⟨id, role, 5, mc⟩ G).verdict = .more →
        (refWire ⟨id, role, 5, mc⟩ G).unread.length < M) := by
  have hwfb := body_wf hid hb
  have key : (refWire ⟨id, role, 5, mc⟩ Y).verdict = .more ∧ (refWire ⟨id, role, 5, mc⟩ Y).content <+: content ∧
      (refWire ⟨id, role, 5, mc⟩ Y).out <+: owedStream id 5 mc body := by
    rcases prefix_serAll _ Y hY with rfl | ⟨pre, r, post, tail, hrs, rfl, ht, hl⟩
    · have := refWire_of_presentation ⟨id, role, 5, mc⟩ hwfb (tail := []) (nextRec_short (by simp))
      rw [List.append_nil] at this
      rw [this, refRun_body (E := ⟨id, role, 5, mc⟩) (Or.inl rfl) hb]
      refine ⟨rfl, ?_, ?_⟩
      · show content ++ [] <+: content
        rw [List.append_nil]
        exact List.prefix_refl _
      · show owedStream id 5 mc body ++ [] <+: _
        rw [List.append_nil]
        exact List.prefix_refl _
    · subst hrs
      have hrwf : r.WF := hwfb r (by simp)
      have hprewf : ∀ x ∈ pre, x.WF := fun x hx => hwfb x (by simp [hx])
      obtain ⟨c1, c2, rfl, hb1, hb2⟩ := body_split pre hb
      rw [refWire_of_presentation _ hprewf (tail_nextRec hrwf ht hl),
        refRun_body (E := ⟨id, role, 5, mc⟩) (Or.inl rfl) hb1]
      simp only [glue, RefOut.pre_verdict, RefOut.pre_content, RefOut.pre_out]
      rw [owedStream_append, owedStream_cons]
      have htm := tail_more ⟨id, role, 5, mc⟩ hrwf ht hl
      cases hb2 with
      | noise _ hn t =>
        obtain ⟨h1, h2, h3⟩ := htm.1 (rclass_noise (E := ⟨id, role, 5, mc⟩) hn)
        rw [h2, List.append_nil]
        refine ⟨h1, List.prefix_append _ _, ?_⟩
        rw [if_neg]
        · obtain ⟨z, hz⟩ := h3
          exact ⟨z ++ owedStream id 5 mc post, by
            simp only at hz
            rw [← hz]; simp only [List.append_assoc]⟩
        · intro hh
          simp only [Bool.and_eq_true, beq_iff_eq] at hh
          exact hn.2 ⟨hh.2, Or.inl hh.1⟩
      | @chunk c3 _ cc pad res hc hp t =>
        have hcl : rclass ⟨id, role, 5, mc⟩ { rtype := UInt8.ofNat 5, id := id, content := cc, pad := pad, reserved := res } = .data := by
          have hne : cc ≠ [] := fun h => by rw [h] at hc; simp at hc
          simp [rclass, RT.isInputStream, hne]
        obtain ⟨h1, ⟨z, hz⟩, h3⟩ := htm.2 hcl
        refine ⟨h1, ?_, ?_⟩
        · simp only at hz
          rw [← hz]
          exact ⟨z ++ c3, by simp only [List.append_assoc]⟩
        · rw [h3, List.append_nil]
          exact List.prefix_append _ _
  refine ⟨_, _, _, refOut_more key.1, key.2.1, key.2.2, ?_⟩
  -- the buffer condition, from the whole stream
  let term : Rec := { rtype := UInt8.ofNat 5, id := id, content := [], pad := [], reserved := 0 }
  have htwf : term.WF := ⟨hid, by simp [term], by simp [term]⟩
  have hcls : rclass ⟨id, role, 5, mc⟩ term = .endStream := by simp [rclass, term, RT.isInputStream]
  have href := refWire_stream ⟨id, role, 5, mc⟩ (Or.inl rfl) hid hb term htwf hcls [] (fun r hr => by cases hr)
  have hwf : ∀ r ∈ body ++ [term], r.WF := by
    intro r hr
    rcases List.mem_append.1 hr with hr | hr
    · exact hwfb r hr
    · rw [List.mem_singleton] at hr; subst hr; exact htwf
  have hfit' : NoiseFits M (body ++ [term]) := by
    intro r hr hg
    rcases List.mem_append.1 hr with hr | hr
    · exact hfit r hr hg
    · rw [List.mem_singleton] at hr
      subst hr
      exfalso
      have := hg.1
      simp [term, RT.getValues] at this
  have hsf := stream_fits ⟨id, role, 5, mc⟩ (body ++ [term]) hwf (by rw [href]; simp) h8 hfit'
  intro G hG hv
  refine hsf G ?_ hv
  rw [C02.serAll_append]
  exact (hG.trans hY).trans (List.prefix_append _ _)

/-- the reference on all data records and noise of a stream plus fewer than 8 further bytes -/
theorem refWire_body_short (id role mc : Nat) (hid : id < 65536) {content : Bytes} {body : List Rec}
    (hb : Body id 5 content body) {w : Bytes} (hw : w.length < 8) :
    refWire ⟨id, role, 5, mc⟩ (serAll body ++ w) = ⟨content, owedStream id 5 mc body, .more, w⟩ := by
  rw [refWire_of_presentation _ (body_wf hid hb) (nextRec_short hw),
    refRun_body (E := ⟨id, role, 5, mc⟩) (Or.inl rfl) hb, refTail_short _ hw]
  simp [glue, RefOut.pre]

/-- **… and so is every cut within the first 7 bytes behind the body** (`h`: the part of the header
of the terminating record that arrived). -/
theorem cut_of_body' (id role mc : Nat) (hid : id < 65536) {content : Bytes} {body : List Rec}
    (hb : Body id 5 content body) {M : Nat} (h8 : 8 ≤ M) (hfit : NoiseFits M body) {Y h : Bytes}
    (hh : h.length < 8) (hY : Y <+: serAll body ++ h) :
    ∃ C O U, refWire ⟨id, role, 5, mc⟩ Y = ⟨C, O, .more, U⟩ ∧ C <+: content ∧ O <+: owedStream id 5 mc body ∧
      (∀ G, G <+: Y → (refWire ⟨id, role, 5, mc⟩ G).verdict = .more →
        (refWire ⟨id, role, 5, mc⟩ G).unread.length < M) := by
  rcases prefix_append_cases hY with ⟨w, rfl, hw⟩ | ⟨t, _, hYt⟩
  · have hwl : w.length < 8 := Nat.lt_of_le_of_lt hw.length_le hh
    refine ⟨_, _, _, refWire_body_short id role mc hid hb hwl, List.prefix_refl _, List.prefix_refl _, ?_⟩
    intro G hG hv
    rcases prefix_append_cases hG with ⟨w2, rfl, hw2⟩ | ⟨t2, _, hGt⟩
    · have hw2l : w2.length < 8 := Nat.lt_of_le_of_lt hw2.length_le hwl
      rw [refWire_body_short id role mc hid hb hw2l]
      show w2.length < M
      omega
    · obtain ⟨_, _, _, _, _, _, hf⟩ := cut_of_body id role mc hid hb h8 hfit (List.prefix_refl (serAll body))
      exact hf G ⟨t2, hGt⟩ hv
  · exact cut_of_body id role mc hid hb h8 hfit ⟨t, hYt⟩

end Fcgi.C12E
