import Fcgi.Model.NV
import Fcgi.Props.C15
/-!
# Helper lemmas for C16 (name-value codec)

Facts about `VarInt.decode` under extension of the input, the shape of a successful `NV.next`,
an induction principle following the recursion of `NV.all`, and `Sink.writeAll` on both kinds
of sink.
-/
namespace Fcgi.NV
open Fcgi Fcgi.VarInt

/-! ## `VarInt.decode` -/

/-- A successful decode yields a value in range and splits the input into a 1- or 4-byte head and
the returned remainder. -/
theorem decode_split {bs r : Bytes} {v : Nat} (h : decode bs = some (v, r)) :
    v ≤ maxVal ∧ ∃ hd, bs = hd ++ r ∧ (hd.length = 1 ∨ hd.length = 4) := by
  obtain ⟨hv, h | h⟩ := C15.decode_some bs r v h
  · obtain ⟨b0, rfl, _, _⟩ := h
    exact ⟨hv, [b0], rfl, Or.inl rfl⟩
  · obtain ⟨b0, b1, b2, b3, rfl, _, _⟩ := h
    exact ⟨hv, [b0, b1, b2, b3], rfl, Or.inr rfl⟩

/-- A successful decode is unaffected by data following the input. -/
theorem decode_append {a r : Bytes} {v : Nat} (b : Bytes) (h : decode a = some (v, r)) :
    decode (a ++ b) = some (v, r ++ b) := by
  obtain ⟨_, h' | h'⟩ := C15.decode_some a r v h
  · obtain ⟨b0, rfl, hb, rfl⟩ := h'
    simp [decode, hb]
  · obtain ⟨b0, b1, b2, b3, rfl, hb, rfl⟩ := h'
    simp [decode, Nat.not_lt.mpr hb]

/-! ## Shape of `NV.next` -/

theorem next_some {bs n v r : Bytes} (h : next bs = some ((n, v), r)) :
    ∃ nl r1 vl r2, decode bs = some (nl, r1) ∧ decode r1 = some (vl, r2) ∧ nl + vl ≤ r2.length ∧
      n = r2.take nl ∧ v = (r2.drop nl).take vl ∧ r = r2.drop (nl + vl) := by
  unfold next at h
  split at h
  · cases h
  · rename_i nl r1 h1
    split at h
    · cases h
    · rename_i vl r2 h2
      split at h
      · rename_i hle
        simp at h
        obtain ⟨⟨rfl, rfl⟩, rfl⟩ := h
        exact ⟨nl, r1, vl, r2, h1, h2, hle, rfl, rfl, rfl⟩
      · cases h

theorem next_of {bs r1 r2 : Bytes} {nl vl : Nat} (h1 : decode bs = some (nl, r1))
    (h2 : decode r1 = some (vl, r2)) (h3 : nl + vl ≤ r2.length) :
    next bs = some ((r2.take nl, (r2.drop nl).take vl), r2.drop (nl + vl)) := by
  simp [next, h1, h2, h3]

/-- Splitting a list into three consecutive pieces. -/
theorem split3 (l : Bytes) (a b : Nat) :
    l = l.take a ++ (l.drop a).take b ++ l.drop (a + b) := by
  have h1 : (l.drop a).take b ++ l.drop (a + b) = l.drop a := by
    rw [← List.drop_drop]; exact List.take_append_drop b (l.drop a)
  rw [List.append_assoc, h1, List.take_append_drop]

/-! ## `Sink.writeAll` -/

theorem writeAll_true {w w1 : Sink} {d : Bytes} (h : w.writeAll d = (w1, true)) :
    w1.out = w.out ++ d := by
  unfold Sink.writeAll at h
  split at h
  · cases h; rfl
  · split at h
    · cases h; rfl
    · cases h

theorem writeAll_cap_le (c : Nat) (o d : Bytes) (h : d.length ≤ c) :
    Sink.writeAll { cap := some c, out := o } d =
      ({ cap := some (c - d.length), out := o ++ d }, true) := by
  simp [Sink.writeAll, h]

theorem writeAll_cap_gt (c : Nat) (o d : Bytes) (h : ¬ d.length ≤ c) :
    Sink.writeAll { cap := some c, out := o } d =
      ({ cap := some 0, out := o ++ d.take c }, false) := by
  simp [Sink.writeAll, h]

theorem writeAll_vec (o d : Bytes) :
    Sink.writeAll { cap := none, out := o } d = ({ cap := none, out := o ++ d }, true) := by
  simp [Sink.writeAll]

theorem tryFromUsize_some {x y : Nat} (h : tryFromUsize x = some y) : y = x ∧ x ≤ maxVal := by
  rw [C15.tryFromUsize_iff] at h
  split at h
  · cases h; exact ⟨rfl, ‹_›⟩
  · cases h

theorem tryFromUsize_le {x : Nat} (h : x ≤ maxVal) : tryFromUsize x = some x := by
  rw [C15.tryFromUsize_iff]; simp [h]

theorem tryFromUsize_gt {x : Nat} (h : ¬ x ≤ maxVal) : tryFromUsize x = none := by
  rw [C15.tryFromUsize_iff]; simp [h]

end Fcgi.NV
