import Fcgi.Proofs.E2EMulti
/-!
# The core end-to-end engine without the model-fuel hypothesis (`…N`)

Since the model's handler fuel pays for what is left of the handler script (`scriptCost h`, `Props/C07ScriptFuel.lean`),
the bound `hfu : wcost |data| + c ≤ 1000` of `E2E.Cfg.Shape` is no longer needed: at every poll of the handler the
fuel is `handlerFuel c.env r + scriptOf c` and `scriptOf c` dominates the cost of the `write_all` still to come
(`Cfg.Rd.cost`, `hscript_cost`, `curCost_writeAll`).  Below: `Cfg.ShapeN` / `Cfg.OKn` (= `Shape` / `OK` without `hfu`) and
copies (text transformation, suffix `N`) of every lemma of `Proofs/E2EConn`, `E2ERun`, `E2EMulti` that takes a `Cfg.OK`;
the definitions (`Stage`, `Res`, `Fin`, `Parked`, …) are shared.  `write_phaseN` is `write_phase` asking only for the
cost of the REST of the data.
-/
namespace Fcgi.E2E
open Fcgi Fcgi.Req Fcgi.Str Fcgi.Async Fcgi.Run Fcgi.Spec

namespace Cfg
/-- `Cfg.Shape` without the model-fuel bounds -/
inductive ShapeN (g : Cfg) : Prop
  | responderU (hr : g.p.role = 1) (hb : Body g.p.id 5 g.content g.body)
      (hf : NoiseFits (alignedBufsize g.b) g.body) (hp : g.pad.length < 256) (hX2 : g.X2 = [])
      (hX : g.X = serAll g.body ++ g.term.ser) (hU : g.U = g.term.ser)
      (hOt : g.Ot = owedStream g.p.id 5 g.mc g.body) (hrv : g.revs = [rEvent g.content])
      (hs : g.hscript = script g.data g.st)
  | authorizer (hr : g.p.role = 2) (hX : g.X = []) (hU : g.U = []) (hOt : g.Ot = []) (hrv : g.revs = [])
      (hs : g.hscript = oscript g.data g.st)
  | filterU (hr : g.p.role = 3) (hb : Body g.p.id 5 g.content g.body) (hb2 : Body g.p.id 8 g.content2 g.body2)
      (hf : NoiseFits (alignedBufsize g.b) g.body) (hf2 : NoiseFits (alignedBufsize g.b) g.body2)
      (hp : g.pad.length < 256) (hp2 : g.pad2.length < 256)
      (hX2 : g.X2 = serAll g.body2 ++ g.term2.ser) (hX : g.X = serAll g.body ++ (g.term.ser ++ g.X2))
      (hU : g.U = g.term2.ser)
      (hOt : g.Ot = owedStream g.p.id 5 g.mc g.body ++ owedStream g.p.id 8 g.mc g.body2)
      (hrv : g.revs = [rEvent g.content, rEvent g.content2]) (hs : g.hscript = fscript g.data g.st)

/-- `Cfg.OK` without the model-fuel bound -/
structure OKn (g : Cfg) : Prop where
  wf : WellFormedPreamble g.p g.recs
  pairs : ∀ q ∈ g.p.pairs, (NV.enc q).length ≤ alignedBufsize g.b
  noise : NoiseFits (alignedBufsize g.b) g.recs
  shape : g.ShapeN
end Cfg

theorem wcost_le (n : Nat) : wcost n ≤ n + 1 := by unfold wcost; omega

/-- a `write_all` in progress costs what is left of its data -/
theorem curCost_writeAll (sub : HSub) (i : Nat) (data : Bytes) :
    curCost sub (.writeAll i data) = (restOf sub data).length + 1 := by cases sub <;> rfl

theorem curCost_readAllN (sub : HSub) : curCost sub .readAll = 1 := by cases sub <;> rfl

/-- a handler suspended in a `readAll` in front of `rest ⊇ write_all data`: the script still pays for the write -/
theorem HRead.cost {K : RCtx} {rest : List HOp} {L P : Bytes} {r : AReq} {h : HState} {e : Run.Env}
    (hr : HRead K rest L P r h e) : scriptCost h = 1 + (rest.map opCost).sum := by
  obtain ⟨ops, sub, ws, pr⟩ := h
  have := hr.ops
  simp only at this
  subst this
  simp only [scriptCost, curCost_readAllN]

theorem Cfg.Rd.cost {g : Cfg} {r : AReq} {h : HState} {e : Run.Env} (hr : g.Rd r h e) :
    wcost g.data.length ≤ scriptCost h := by
  have hw := wcost_le g.data.length
  rcases hr with ⟨_, hr⟩ | ⟨_, hr | ⟨hr, _⟩⟩
  · rw [hr.cost]; simp [oscript, opCost]; omega
  · rw [hr.cost]; simp [oscript, opCost, Cfg.Wc]; omega
  · rw [hr.cost]; simp [oscript, opCost, Cfg.Wc]; omega

/-- the fresh script of the role pays for its `write_all` -/
theorem hscript_costN {g : Cfg} (ok : g.OKn) :
    wcost g.data.length ≤ scriptCost { ops := g.hscript, propagate := true } := by
  have hw := wcost_le g.data.length
  cases ok.shape with
  | responderU hr hb hf hp hX2 hX hU hOt hrv hs => rw [hs]; simp [scriptCost, script, curCost, opCost]; omega
  | authorizer hr hX hU hOt hrv hs => rw [hs]; simp [scriptCost, oscript, curCost, opCost]; omega
  | filterU hr hb hb2 hf hf2 hp hp2 hX2 hX hU hOt hrv hs => rw [hs]; simp [scriptCost, fscript, curCost, opCost]; omega

/-- `write_phase` asking for the cost of the REST of the data only. -/
theorem write_phaseN {W : WCtx} {Rd : AReq → HState → Run.Env → Prop} {O1 : Bytes}
    {r : AReq} {h : HState} {e : Run.Env} (hw : HWrite W O1 r h e) (hb : Ben e.tr)
    {fuel : Nat} (hf : wcost (restOf h.sub W.data).length + 3 ≤ fuel) :
    HOut W Rd e (handlerPoll fuel r h e) := by
  obtain ⟨ops, sub, ws, pr⟩ := h
  obtain ⟨hops, hpr, ⟨w, L, sent, hws, hst, hlog, hL⟩, hlen, hfin, hout, hev⟩ := hw
  simp only at hops hpr hws hst hL hlen
  subst hops hpr hws
  have hfu : wcost (restOf sub W.data).length + 3 ≤ fuel := hf
  rcases writeAll_run (id := W.N.rq.id) r W.data [.dropW 0, .ret W.st] true (restOf sub W.data).length fuel sub w e
      L sent (Nat.le_refl _) (by omega) hb hst hlog with
    ⟨w', e', rd', L', sent', d1, d2, d3, d4, d5, d6, d7, d8, d9, d10, d11⟩ |
    ⟨w', e', f', d1, d2, d3, d4, d5, d6, d7, d8, d9⟩
  · show HOut W Rd e (handlerPoll fuel r
      { ops := wscript W.data W.st, sub := sub, writers := [some w], propagate := true } e)
    rw [show wscript W.data W.st = .writeAll 0 W.data :: [.dropW 0, .ret W.st] from rfl, d1]
    refine ⟨d7, d9, Or.inl ⟨rfl, d10, d11, Or.inr ⟨O1, rfl, rfl, ⟨w', L', sent', rfl, d5, d3, ?_⟩, ?_, ?_,
      hout, fun s hs => d7.mem_events (hev s hs)⟩⟩⟩
    · show L' ++ streamRecords 6 W.N.rq.id rd' = _
      rw [d4, hL]
    · show rd'.length ≤ W.data.length
      omega
    · exact hfin.step d8
  · show HOut W Rd e (handlerPoll fuel r
      { ops := wscript W.data W.st, sub := sub, writers := [some w], propagate := true } e)
    rw [show wscript W.data W.st = .writeAll 0 W.data :: [.dropW 0, .ret W.st] from rfl, d1]
    obtain ⟨f2, rfl⟩ : ∃ f2, f' = f2 + 2 := ⟨f' - 2, by omega⟩
    rw [hp_dropW]
    simp only [List.getD_cons_zero, List.set_cons_zero]
    rw [hp_ret]
    have hs2 : TStep e.tr (e'.tr.ev "W=ok") := d7.trans (TStep.ev _ (by decide))
    refine ⟨hs2, d9, Or.inr ⟨rfl, O1, ⟨rfl, ?_, ?_, ?_, hout, fun s hs => hs2.mem_events (hev s hs)⟩⟩⟩
    · show lockDrop w'.lock (e'.ev "W=ok").mutex = none
      rw [d5]; exact d6
    · show (e'.tr.ev "W=ok").wlog = _
      rw [Transport.ev_wlog, d3, hL]
    · exact hfin.step d8

theorem pid_ltN {g : Cfg} (ok : g.OKn) : 0 < g.p.id ∧ g.p.id < 65536 := by
  have h := ok.wf
  generalize g.recs = rs at h
  induction h with
  | noise r hn t ih => exact ih
  | «begin» pad res body5 hb hp hid hrole hl t => exact hid

theorem term_wfN {g : Cfg} (ok : g.OKn) (hp : g.pad.length < 256) : g.term.WF :=
  ⟨(pid_ltN ok).2, by simp [Cfg.term], hp⟩

theorem term2_wfN {g : Cfg} (ok : g.OKn) (hp : g.pad2.length < 256) : g.term2.WF :=
  ⟨(pid_ltN ok).2, by simp [Cfg.term2], hp⟩

/-- the reference on the Stdin stream's wire, and the buffer condition; `rest` = the records after
the Stdin terminator (none for a Responder, the Data stream for a Filter) -/
theorem kokN {g : Cfg} (ok : g.OKn) (hb : Body g.p.id 5 g.content g.body)
    (hf : NoiseFits (alignedBufsize g.b) g.body) (hp : g.pad.length < 256) (rest : List Rec)
    (hrw : ∀ r ∈ rest, r.WF) (hrf : NoiseFits (alignedBufsize g.b) rest) (hX2 : g.X2 = serAll rest)
    (hX : g.X = serAll g.body ++ (g.term.ser ++ g.X2)) : g.K.OK := by
  have hid := (pid_ltN ok).2
  have hXs : g.X = serAll (g.body ++ g.term :: rest) := by
    rw [hX, hX2, C02.serAll_append, serAll_cons]
  have hcls : rclass ⟨g.p.id, g.p.role, 5, g.mc⟩ g.term = .endStream := by simp [rclass, Cfg.term, RT.isInputStream]
  have href := refWire_stream ⟨g.p.id, g.p.role, 5, g.mc⟩ (Or.inl rfl) hid hb g.term (term_wfN ok hp) hcls rest hrw
  have hwf : ∀ r ∈ g.body ++ g.term :: rest, r.WF := by
    intro r hr
    rcases List.mem_append.1 hr with hr | hr
    · exact body_wf hid hb r hr
    · rcases List.mem_cons.1 hr with rfl | hr
      · exact term_wfN ok hp
      · exact hrw r hr
  refine ⟨?_, ?_, by have := cap24 g; show 8 ≤ g.cap; omega⟩
  · show refWire ⟨g.p.id, g.p.role, 5, g.mc⟩ g.X = _
    rw [hXs, href]
    simp only [Cfg.K, hX2, serAll_cons]
  · intro G hG hv
    have hG' : G <+: g.X := hG
    rw [hXs] at hG'
    refine stream_fits ⟨g.p.id, g.p.role, 5, g.mc⟩ _ hwf (by rw [href]; intro h; cases h)
      (by have := cap24 g; show 8 ≤ alignedBufsize g.b; exact Nat.le_trans (by omega) this) ?_ G hG' hv
    intro r hr hg
    rcases List.mem_append.1 hr with hr | hr
    · exact hf r hr hg
    · rcases List.mem_cons.1 hr with rfl | hr
      · exact absurd hg.1 (by simp [Cfg.term, RT.getValues])
      · exact hrf r hr hg

/-- the same for the Data stream of a Filter, whose wire starts with the Stdin terminator -/
theorem kok2N {g : Cfg} (ok : g.OKn) (hb2 : Body g.p.id 8 g.content2 g.body2)
    (hf2 : NoiseFits (alignedBufsize g.b) g.body2) (hp : g.pad.length < 256) (hp2 : g.pad2.length < 256)
    (hX2 : g.X2 = serAll g.body2 ++ g.term2.ser) : g.K2.OK := by
  have hid := (pid_ltN ok).2
  have hXs : g.term.ser ++ g.X2 = serAll (g.term :: (g.body2 ++ g.term2 :: [])) := by
    rw [hX2, serAll_cons, C02.serAll_append, C02.serAll_single]
  have hcls : rclass ⟨g.p.id, 3, 8, g.mc⟩ g.term2 = .endStream := by simp [rclass, Cfg.term2, RT.isInputStream]
  have hpc : rclass ⟨g.p.id, 3, 8, g.mc⟩ g.term = .noise := by
    have hl : ¬ Later 3 (some 8) 5 := by decide
    simp [rclass, Cfg.term, RT.isInputStream, hl]
  have hpo : owed (some g.p.id) g.mc g.term = [] := by
    simp [owed, Cfg.term, RT.valid, RT.getValues, RT.beginRequest]
  have href := refWire_stream' ⟨g.p.id, 3, 8, g.mc⟩ (Or.inr rfl) hid g.term (term_wfN ok hp) hpc hpo hb2 g.term2
    (term2_wfN ok hp2) hcls [] (fun r hr => by cases hr)
  have hwf : ∀ r ∈ g.term :: (g.body2 ++ g.term2 :: []), r.WF := by
    intro r hr
    rcases List.mem_cons.1 hr with rfl | hr
    · exact term_wfN ok hp
    rcases List.mem_append.1 hr with hr | hr
    · exact body_wf hid hb2 r hr
    · rw [List.mem_singleton.1 hr]; exact term2_wfN ok hp2
  refine ⟨?_, ?_, by have := cap24 g; show 8 ≤ g.cap; omega⟩
  · show refWire ⟨g.p.id, 3, 8, g.mc⟩ (g.term.ser ++ g.X2) = _
    rw [hXs, href]
    simp only [Cfg.K2, C02.serAll_single]
  · intro G hG hv
    have hG' : G <+: g.term.ser ++ g.X2 := hG
    rw [hXs] at hG'
    refine stream_fits ⟨g.p.id, 3, 8, g.mc⟩ _ hwf (by rw [href]; intro h; cases h)
      (by have := cap24 g; show 8 ≤ alignedBufsize g.b; exact Nat.le_trans (by omega) this) ?_ G hG' hv
    intro r hr hg
    rcases List.mem_cons.1 hr with rfl | hr
    · exact absurd hg.1 (by simp [Cfg.term, RT.getValues])
    rcases List.mem_append.1 hr with hr | hr
    · exact hf2 r hr hg
    · rw [List.mem_singleton.1 hr] at hg
      exact absurd hg.1 (by simp [Cfg.term2, RT.getValues])

/-- the facts about the two streams of a Filter request -/
theorem kokFN {g : Cfg} (ok : g.OKn) (hr : g.p.role = 3) (hb : Body g.p.id 5 g.content g.body)
    (hb2 : Body g.p.id 8 g.content2 g.body2)
    (hf : NoiseFits (alignedBufsize g.b) g.body) (hf2 : NoiseFits (alignedBufsize g.b) g.body2)
    (hp : g.pad.length < 256) (hp2 : g.pad2.length < 256)
    (hX2 : g.X2 = serAll g.body2 ++ g.term2.ser) (hX : g.X = serAll g.body ++ (g.term.ser ++ g.X2)) :
    g.K.OK ∧ g.K2.OK ∧ Follows g.K g.K2 := by
  have hid := (pid_ltN ok).2
  refine ⟨kokN ok hb hf hp (g.body2 ++ [g.term2]) ?_ ?_ (by rw [hX2, C02.serAll_append, C02.serAll_single]) hX,
    kok2N ok hb2 hf2 hp hp2 hX2, ?_⟩
  · intro r hr
    rcases List.mem_append.1 hr with hr | hr
    · exact body_wf hid hb2 r hr
    · rw [List.mem_singleton.1 hr]; exact term2_wfN ok hp2
  · intro r hr hg
    rcases List.mem_append.1 hr with hr | hr
    · exact hf2 r hr hg
    · rw [List.mem_singleton.1 hr] at hg
      exact absurd hg.1 (by simp [Cfg.term2, RT.getValues])
  · exact ⟨by simp [Cfg.K, hr], by simp [Cfg.K, Cfg.K2], rfl, rfl, rfl⟩

theorem term_idleN {g : Cfg} (ok : g.OKn) (hp : g.pad.length < 256) : IdleNoise g.term :=
  ⟨term_wfN ok hp, fun h => by simp [Cfg.term, RT.beginRequest] at h⟩

theorem term2_idleN {g : Cfg} (ok : g.OKn) (hp : g.pad2.length < 256) : IdleNoise g.term2 :=
  ⟨term2_wfN ok hp, fun h => by simp [Cfg.term2, RT.beginRequest] at h⟩

theorem U_shapeN {g : Cfg} (ok : g.OKn) : ∃ us : List Rec, g.U = serAll us ∧ ∀ e ∈ us, URec e := by
  cases ok.shape with
  | responderU hr hb hf hp hX2 hX hU hOt hrv hs =>
    exact ⟨[g.term], by rw [hU, C02.serAll_single], fun e he => by
      rw [List.mem_singleton.1 he]; exact ⟨term_idleN ok hp, rfl, Or.inl rfl⟩⟩
  | authorizer hr hX hU hOt hrv hs => exact ⟨[], by rw [hU]; rfl, fun e he => by cases he⟩
  | filterU hr hb hb2 hf hf2 hp hp2 hX2 hX hU hOt hrv hs =>
    exact ⟨[g.term2], by rw [hU, C02.serAll_single], fun e he => by
      rw [List.mem_singleton.1 he]; exact ⟨term2_idleN ok hp2, rfl, Or.inr rfl⟩⟩

theorem nsN {g : Cfg} (ok : g.OKn) : NoStuckW g.cap g.mc g.W := noStuck_of ok.wf g.X g.b g.mc ok.pairs ok.noise

theorem nsN' {g : Cfg} (ok : g.OKn) : NoStuckW g.cap g.mc g.W' := by
  obtain ⟨us, hU, hu⟩ := U_shapeN ok
  have := noStuck_of (wf_us ok.wf us hu) [] g.b g.mc ok.pairs (noise_us ok.noise us hu)
  simpa [Cfg.W', Cfg.cap, hU, C02.serAll_append] using this

/-- the request parser's run over what the request left unread -/
theorem run_UN {g : Cfg} (ok : g.OKn) : run .header g.U g.mc = ⟨[], .header, [], none⟩ := by
  obtain ⟨us, hU, hu⟩ := U_shapeN ok
  rw [hU]
  clear hU
  induction us with
  | nil => exact resting_header g.mc
  | cons e us ih =>
    have hE := hu e List.mem_cons_self
    have h := header_noise e hE.1 (serAll us) g.mc
      (Or.inr (fun h => by
        rcases hE.2.2 with h5 | h8
        · simp [EmptyGetValues, h5, RT.getValues] at h
        · simp [EmptyGetValues, h8, RT.getValues] at h))
    rw [serAll_cons, h, ih (fun x hx => hu x (List.mem_cons_of_mem _ hx))]
    have : owed none g.mc e = [] := by
      rcases hE.2.2 with h5 | h8
      · simp [owed, h5, RT.valid, RT.getValues, RT.beginRequest]
      · simp [owed, h8, RT.valid, RT.getValues, RT.beginRequest]
    rw [this]; rfl

/-- … and over a prefix of it: never final, no output -/
theorem run_U_prefixN {g : Cfg} (ok : g.OKn) {F : Bytes} (hF : F <+: g.U) :
    (run .header F g.mc).st.isFinal = false ∧ (run .header F g.mc).out = [] := by
  obtain ⟨t, ht⟩ := hF
  by_cases hne : t = []
  · subst hne
    rw [List.append_nil] at ht
    rw [ht, run_UN ok]; exact ⟨rfl, rfl⟩
  · have hs := Req.run_split (st := .header) trivial F t g.mc hne
    rw [ht, run_UN ok] at hs
    have hout := congrArg Out.out hs
    simp only at hout
    refine ⟨?_, (List.append_eq_nil_iff.1 hout.symm).1⟩
    cases hf : (run .header F g.mc).st.isFinal with
    | false => rfl
    | true =>
      rw [run_final _ _ hf] at hs
      have := congrArg Out.st hs
      simp only at this
      rw [← this] at hf
      cases hf

theorem idle_pollN {g : Cfg} (ok : g.OKn) {c : Conn} {F O1 O2 : Bytes} (hO : O1 ++ O2 = g.Ot)
    (hst : PSt g.cap g.mc g.W' (g.L3 O1 O2) (serAll g.recs) c F)
    (hkeep : g.p.flags.toNat % 2 = 1) (hev : Ev1 g c.env.tr) (hre : ∀ s ∈ g.revs, s ∈ c.env.tr.events)
    (hsc : c.scripts = g.more) (hmx : c.env.mutex = none) :
    Res g (2 * c.env.tr.input.length + 4) c := by
  have hfin_of : ∀ (c2 : Conn) (F2 : Bytes), PSt g.cap g.mc g.W' (g.L3 O1 O2) (serAll g.recs) c2 F2 →
      F2 ++ c2.env.tr.input = g.U := by
    intro c2 F2 h2
    have := h2.wire
    rw [Cfg.W'] at this
    exact List.append_cancel_right this
  obtain ⟨n, c1, F1, hn, hs, hfr, hout⟩ := parse_loop (cap24 g) (nsN' ok) _ c F hst (Nat.le_refl _)
  have hnb : n ≤ 2 * c.env.tr.input.length + 2 := by have := wbit_le c; omega
  rcases hout with ⟨c2, h1, h2, h3, h4, h5⟩ | ⟨rest, t', _, hf, hw, _⟩ | ⟨hin, hnf, hph, hst1⟩
  · refine ⟨c2, .pending, ⟨n, c1, by omega, hs, h1⟩, hfr.link.trans h3.link, ?_⟩
    have hts := hfr.ts.trans h3.ts
    exact .pend (.idle hO h2 (hfin_of _ _ h2) hkeep (hev.step hts) ((fun s hs => hts.mem_events (hre s hs)))
      (h3.scripts.trans (hfr.scripts.trans hsc)) (h3.mutex.trans (hfr.mutex.trans hmx))) h4
      (by have := hfr.ts.ans_le; omega)
  · exfalso
    rw [Cfg.W'] at hw
    have hpre : F1 <+: g.U := ⟨c1.env.tr.input, List.append_cancel_right hw⟩
    rw [(run_U_prefixN ok hpre).1] at hf
    cases hf
  · have hF1 : F1 = g.U := by
      have := hfin_of _ _ hst1
      rwa [hin, List.append_nil] at this
    subst hF1
    have htrack : track g.cap g.mc g.U = ⟨g.cap, [], .header, g.mc⟩ := by
      simp only [track, run_UN ok]
    rw [htrack] at hph
    have hstep := step_reading c1 _ hph hst1.stop
    have hfree : (⟨g.cap, [], .header, g.mc⟩ : Req.Parser).free = g.cap := by simp [Req.Parser.free]
    rw [hfree] at hstep
    have hlog1 : c1.env.tr.wlog = g.L3 O1 O2 := by
      rcases hst1.ph with ⟨_, _, h⟩ | ⟨rest, hp', _⟩
      · rw [h, run_UN ok]; simp
      · rw [hph, htrack] at hp'; cases hp'
    have hts1 := hfr.ts
    rcases hrd : c1.env.tr.read g.cap with ⟨t, res⟩
    rw [hrd] at hstep
    have hts := read_tstep hrd
    have hwl : t.wlog = c1.env.tr.wlog := by have := read_wlog c1.env.tr g.cap; rwa [hrd] at this
    have hlink : Link c { c1 with env := { c1.env with tr := t } } :=
      hfr.link.trans ⟨hts.w, rfl, rfl⟩
    cases res with
    | pending =>
      obtain ⟨hi, hw⟩ := read_pending hst1.ben hrd
      have hst2 : PSt g.cap g.mc g.W' (g.L3 O1 O2) (serAll g.recs) { c1 with env := { c1.env with tr := t } } g.U :=
        ⟨by simpa [hi] using hst1.wire, hst1.stop, hst1.ben.step hts, hst1.rem,
          Or.inl ⟨by rw [htrack]; exact hph, hnf, by show t.wlog = _; rw [hwl, hlog1, run_UN ok]; simp⟩⟩
      have hstage : Stage g { c1 with env := { c1.env with tr := t } } :=
        .idle hO hst2 (hfin_of _ _ hst2) hkeep (hev.step (hts1.trans hts)) ((fun s hs => (hts1.trans hts).mem_events (hre s hs)))
          (hfr.scripts.trans hsc) (hfr.mutex.trans hmx)
      refine ⟨_, .pending, ⟨n, c1, by omega, hs, hstep⟩, hlink, ?_⟩
      rcases hw with hw | hw
      · exact .pend hstage hw.1 (by show ans t < ans c.env.tr; have := hts1.ans_le; omega)
      · refine .park hstage hO ⟨hph, by show t.input = []; rw [hi, hin], by show t.wlog = _; rw [hwl, hlog1],
          hev.step (hts1.trans hts), (fun s hs => (hts1.trans hts).mem_events (hre s hs)), hfr.scripts.trans hsc, hst1.stop,
          hfr.mutex.trans hmx, hst1.ben.step hts, hkeep, ?_⟩
        show t.endMode = .pend
        rw [hts.em]; exact hw.2.1
    | ready x =>
      cases x with
      | error e => exact (read_error hst1.ben hrd).elim
      | ok bs =>
        obtain ⟨hinp, _, _, hz⟩ := read_ok_ben hst1.ben hrd
        have hbs : bs = [] := by
          rw [hin] at hinp
          exact (List.append_eq_nil_iff.1 hinp.symm).1
        subst hbs
        have heof : c1.env.tr.endMode = .eof := by
          rcases hz rfl with hz | hz
          · have := cap24 g; omega
          · exact hz.2
        refine ⟨{ c1 with phase := .finished, env := { c1.env with tr := t } }, .finished,
          ⟨n, c1, by omega, hs, hstep⟩, hfr.link.trans ⟨hts.w, rfl, rfl⟩, .fin hO ⟨rfl, ?_, hev.step (hts1.trans hts),
            (fun s hs => (hts1.trans hts).mem_events (hre s hs)), hfr.scripts.trans hsc, Or.inr ⟨hkeep, ?_⟩⟩⟩
        · show t.wlog = _; rw [hwl, hlog1]
        · show t.endMode = .eof; rw [hts.em]; exact heof

/-- A poll of `close` that is (back) in its last `write_all` (`t1` = the transport when that
`write_all` is reached in this poll). -/
theorem close_coreN {g : Cfg} (ok : g.OKn) {c : Conn} {r r2 : AReq} {cs : CloseSt} {rest O1 O2 : Bytes}
    {t1 : Transport} (hO : O1 ++ O2 = g.Ot)
    (hph : c.phase = .closing r cs g.st 0)
    (heq : closePoll r cs g.st 0 c.env.mutex c.env.tr = closePoll.finishEnd r2 rest c.env.mutex t1)
    (hts1 : TStep c.env.tr t1) (hin1 : t1.input = c.env.tr.input)
    (hce : CEnd g r2 c.env.tr.input) (hm : c.env.mutex = none) (hlog : t1.wlog ++ rest = g.L3 O1 O2)
    (hb : Ben c.env.tr) (hstop : c.stop = false) (hev : Ev1 g c.env.tr)
    (hre : ∀ s ∈ g.revs, s ∈ c.env.tr.events) (hsc : c.scripts = g.more) :
    Res g (2 * c.env.tr.input.length + 8) c := by
  have hstep := C07.closing_step c r cs g.st 0 hph
  rw [heq] at hstep
  have hb1 := hb.step hts1
  rcases finishEnd_cases r2 rest c.env.mutex hb1 with
    ⟨rest', t', hfe, hts0, hinp0, hwl, hwk, hans⟩ | ⟨t', hts0, hinp0, hwl, hfe⟩
  · have hts := hts1.trans hts0
    have hinp := hinp0.trans hin1
    rw [hfe] at hstep
    have hstep' : stepConn c = .halt (mkC c (.closing r2 (.writeEnd rest') g.st 0) t') .pending := hstep
    refine ⟨mkC c (.closing r2 (.writeEnd rest') g.st 0) t', .pending, (Halts.now hstep').mono (by omega),
      mkC_link c _ hts, .pend ?_ hwk (by show ans t' < ans c.env.tr; have := hts1.ans_le; omega)⟩
    exact .close (r := r2) (rest := rest') rfl hO (by show CEnd g r2 t'.input; rw [hinp]; exact hce) hm
      (by show t'.wlog ++ rest' = _; rw [hwl, hlog]) (hb.step hts) hstop (hev.step hts) ((fun s hs => hts.mem_events (hre s hs))) hsc
  · have hts := hts1.trans hts0
    have hinp := hinp0.trans hin1
    rw [hfe, hce.req, hce.into] at hstep
    have hlog' : t'.wlog = g.L3 O1 O2 := by rw [hwl, hlog]
    by_cases hk : g.p.flags.toNat % 2 = 1
    · have hreq : (g.p.request.flags.toNat % 2 == 1) = true := by simpa [Preamble.request] using hk
      simp only [hreq, if_true] at hstep
      have hstep' : stepConn c = .next (mkC c (.parseReq ⟨g.cap, r2.sp.raw, .header, g.mc⟩ .start) t') := hstep
      -- the connection is reused: `parse_request` starts on what is left in the buffer
      have hrawin : r2.sp.raw ++ t'.input = g.U := by rw [hinp]; exact hce.wire
      have hpre : r2.sp.raw <+: g.W' := by
        rw [Cfg.W', ← hrawin, List.append_assoc]
        exact List.prefix_append _ _
      have hstart := start_track (cap24 g) hce.rawlen (nsN' ok _ hpre)
      have hstep2 := step_start (mkC c (.parseReq ⟨g.cap, r2.sp.raw, .header, g.mc⟩ .start) t') _ rfl hstop
      rw [hstart] at hstep2
      have hstep2' : stepConn (mkC c (.parseReq ⟨g.cap, r2.sp.raw, .header, g.mc⟩ .start) t') =
          .next (mkC c (.parseReq (track g.cap g.mc r2.sp.raw)
            (.writing (run .header r2.sp.raw g.mc).out (run .header r2.sp.raw g.mc).st.isFinal)) t') := hstep2
      have hremle : (run .header r2.sp.raw g.mc).rem.length ≤ g.cap := by
        have := (run_ok r2.sp.raw g.mc (st := .header) trivial).2.2.length_le
        have := hce.rawlen
        omega
      have hst : PSt g.cap g.mc g.W' (g.L3 O1 O2) (serAll g.recs)
          (mkC c (.parseReq (track g.cap g.mc r2.sp.raw)
            (.writing (run .header r2.sp.raw g.mc).out (run .header r2.sp.raw g.mc).st.isFinal)) t') r2.sp.raw :=
        ⟨by show r2.sp.raw ++ t'.input ++ serAll g.recs = g.W'
            rw [hrawin, Cfg.W'],
          hstop, hb.step hts, hremle, Or.inr ⟨_, rfl, by show t'.wlog ++ _ = _; rw [hlog'], [], rfl⟩⟩
      have hidle := idle_pollN ok hO hst hk (hev.step hts) ((fun s hs => hts.mem_events (hre s hs))) hsc hm
      have := Res.of_steps (Steps.step hstep' (Steps.one hstep2')) (mkC_link c _ hts) hidle
      refine this.mono ?_
      have := congrArg List.length hinp
      show 1 + 1 + (2 * t'.input.length + 4) ≤ _
      omega
    · have hreq : (g.p.request.flags.toNat % 2 == 1) = false := by simpa [Preamble.request] using hk
      simp only [hreq, Bool.false_eq_true, if_false] at hstep
      have hstep' : stepConn c = .halt (mkC c .finished t') .finished := hstep
      exact ⟨mkC c .finished t', .finished, (Halts.now hstep').mono (by omega), mkC_link c _ hts,
        .fin hO ⟨rfl, hlog', hev.step hts, (fun s hs => hts.mem_events (hre s hs)), hsc, Or.inl (by omega)⟩⟩

/-- A poll of `close` that is (back) in the `write_all` of the replies still queued in the parser. -/
theorem close_outN {g : Cfg} (ok : g.OKn) {c : Conn} {r r2 : AReq} {cs : CloseSt} {rest O1 O2 : Bytes}
    (hO : O1 ++ O2 = g.Ot) (hph : c.phase = .closing r cs g.st 0)
    (heq : closePoll r cs g.st 0 c.env.mutex c.env.tr =
      closeP4 r2 c.env.mutex c.env.tr (.writeOut rest g.epi))
    (hce : CEndW g r2 c.env.tr.input) (hm : c.env.mutex = none)
    (hlog : c.env.tr.wlog ++ rest ++ g.epi = g.L3 O1 O2)
    (hb : Ben c.env.tr) (hstop : c.stop = false) (hev : Ev1 g c.env.tr)
    (hre : ∀ s ∈ g.revs, s ∈ c.env.tr.events) (hsc : c.scripts = g.more) :
    Res g (2 * c.env.tr.input.length + 8) c := by
  rcases hw : writeAllLoop (rest.length + 1) rest c.env.tr with ⟨rest', t', res⟩
  obtain ⟨hts, hinp, ⟨dn, hd, hl⟩, hres⟩ := writeAllLoop_ben _ _ _ hb (Nat.lt_succ_self _) hw
  rcases hres with ⟨rfl, rfl⟩ | ⟨rfl, _, hwk, hans⟩
  · -- the queued replies are out: on to the epilogue
    simp only [List.append_nil] at hd
    subst hd
    have heq' : closePoll r cs g.st 0 c.env.mutex c.env.tr =
        closePoll.finishEnd { r2 with sp := r2.sp.consumeOutput r2.sp.output.length } g.epi c.env.mutex t' := by
      rw [heq]; simp only [closeP4, hw]
    refine close_coreN ok hO hph heq' hts hinp ?_ hm (by rw [hl, ← hlog]) hb hstop hev hre hsc
    exact ⟨hce.pay, hce.pad, by simp [Str.Parser.consumeOutput], hce.wire, hce.req, hce.cap, hce.mc, hce.rawlen⟩
  · have hstep := C07.closing_step c r cs g.st 0 hph
    rw [heq] at hstep
    simp only [closeP4, hw] at hstep
    have hstep' : stepConn c = .halt (mkC c (.closing r2 (.writeOut rest' g.epi) g.st 0) t') .pending := hstep
    refine ⟨_, .pending, (Halts.now hstep').mono (by omega), mkC_link c _ hts, .pend ?_ hwk hans⟩
    exact .closeW (r := r2) (rest := rest') rfl hO (by show CEndW g r2 t'.input; rw [hinp]; exact hce) hm
      (by show t'.wlog ++ rest' ++ g.epi = _; rw [hl, ← hlog, hd]; simp only [List.append_assoc])
      (hb.step hts) hstop (hev.step hts) ((fun s hs => hts.mem_events (hre s hs))) hsc

/-- One poll of the handler suspended in (or starting) one of its reads, for both roles that read. -/
theorem rd_pollN {g : Cfg} (ok : g.OKn) {r : AReq} {h : HState} {e : Run.Env} (hr : g.Rd r h e) (hb : Ben e.tr)
    {fuel : Nat} (hfu : 1000 + 4 * e.tr.input.length + 4 * g.cap + wcost g.data.length ≤ fuel) :
    HOut g.Wc g.Rd e (handlerPoll fuel r h e) := by
  have hcap : g.cap = alignedBufsize g.b := rfl
  cases ok.shape with
  | responderU hr1 hb1 hf hp hX2 hX hU hOt hrv hs =>
    rcases hr with ⟨_, hr⟩ | ⟨h3, _⟩
    · have hK := kokN ok hb1 hf hp [] (fun r hr => by cases hr) (fun r hr => by cases hr) (by rw [hX2]; rfl) (by rw [hX, hX2, List.append_nil])
      have hfinal : g.K.final = true := by simp [RCtx.final, Cfg.K, hr1, nextInputStream, RT.stdin]
      have hN : g.Wc.N = g.K.ectx := by simp [Cfg.Wc, Cfg.N, RCtx.ectx, Cfg.K, hU, hX2]
      refine (read_phase (W := g.Wc) hK hfinal hN hOt hrv hr hb ?_).mono (fun r h e hh => Or.inl ⟨hr1, hh⟩)
      show alignedBufsize g.b / 32 + 3 * e.tr.input.length + wcost g.data.length + 12 ≤ fuel
      omega
    · omega
  | authorizer hr2 hX hU hOt hrv hs => rcases hr with ⟨h1, _⟩ | ⟨h3, _⟩ <;> omega
  | filterU hr3 hb1 hb2 hf hf2 hp hp2 hX2 hX hU hOt hrv hs =>
    rcases hr with ⟨h1, _⟩ | ⟨_, hr⟩
    · omega
    · obtain ⟨hK1, hK2, hfo⟩ := kokFN ok hr3 hb1 hb2 hf hf2 hp hp2 hX2 hX
      have hN : g.Wc.N = g.K2.ectx := by simp [Cfg.Wc, Cfg.N, RCtx.ectx, Cfg.K2, hU]
      refine (read_phaseF (W := g.Wc) hK1 hK2 hfo hN hOt hrv hr hb ?_).mono (fun r h e hh => Or.inr ⟨hr3, hh⟩)
      show alignedBufsize g.b / 16 + 3 * e.tr.input.length + wcost g.data.length + 24 ≤ fuel
      omega

/-- One poll that starts inside the handler (given what this poll of the handler returns). -/
theorem handler_coreN {g : Cfg} (ok : g.OKn) {c : Conn} {r : AReq} {h : HState} (hph : c.phase = .handler r h)
    (hout : HOut g.Wc g.Rd c.env (handlerPoll ((handlerFuel c.env r + scriptOf c)) r h c.env))
    (hb : Ben c.env.tr) (hstop : c.stop = false) (hev : Ev1 g c.env.tr) (hsc : c.scripts = g.more) :
    Res g (2 * c.env.tr.input.length + 10) c := by
  have hstep := C07.handler_step c r h hph
  rcases hhp : handlerPoll ((handlerFuel c.env r + scriptOf c)) r h c.env with ⟨r', h', e', res⟩
  rw [hhp] at hstep hout
  obtain ⟨hts, hsegs, hres⟩ := hout
  simp only at hts hsegs hres
  rcases hres with ⟨rfl, hwk, hans, hst⟩ | ⟨hres, O1, hd⟩
  · have hstep' : stepConn c = .halt ⟨.handler r' h', e', c.scripts, c.stop⟩ .pending := hstep
    refine ⟨⟨.handler r' h', e', c.scripts, c.stop⟩, .pending, (Halts.now hstep').mono (by omega),
      ⟨hts.w, hsegs, rfl⟩, .pend ?_ hwk hans⟩
    rcases hst with hst | ⟨O1, hst⟩
    · exact .hread rfl hst (hb.step hts) hstop (hev.step hts) hsc
    · exact .hwrite rfl hst (hb.step hts) hstop (hev.step hts) hsc
  · have hres' : res = .done (.ok g.st) := hres
    subst hres'
    have halive : (h'.writers.filter Option.isSome).length = 0 := by rw [hd.ws]; rfl
    simp only [halive] at hstep
    have hstep' : stepConn c =
        .next ⟨.closing r' .start g.st 0, e'.ev s!"HE(ok:{showStatus g.st})", c.scripts, c.stop⟩ := hstep
    have hts2 : TStep c.env.tr (e'.tr.ev s!"HE(ok:{showStatus g.st})") :=
      hts.trans (TStep.ev _ (by simp [isHS, toString_str]))
    obtain ⟨heq, hce⟩ := close_start_eq (g := g) (r := r') (t := e'.tr.ev s!"HE(ok:{showStatus g.st})") hd.fin
    have hO : O1 ++ r'.sp.output = g.Ot := hd.out
    have hcore := close_outN ok
      (c := ⟨.closing r' .start g.st 0, e'.ev s!"HE(ok:{showStatus g.st})", c.scripts, c.stop⟩)
      (r := r') (r2 := closeReq r') (cs := .start) (rest := r'.sp.output) hO rfl
      (by show closePoll r' .start g.st 0 e'.mutex _ = closeP4 _ e'.mutex _ _
          rw [hd.mtx]; exact heq)
      hce hd.mtx
      (by show (e'.tr.ev _).wlog ++ r'.sp.output ++ g.epi = g.L3 O1 r'.sp.output
          rw [Transport.ev_wlog, hd.log]; rfl)
      (hb.step hts2) hstop (hev.step hts2)
      (by intro s hs
          show s ∈ e'.tr.events ++ [_]
          exact List.mem_append_left _ (hd.ev s hs)) hsc
    have := Res.of_steps (Steps.one hstep') ⟨hts2.w, hsegs, rfl⟩ hcore
    refine this.mono ?_
    have hl := hts.tle.input_len
    show 1 + (2 * e'.tr.input.length + 8) ≤ _
    omega

/-- **The handler start** (end of stage 1).  `parse_request` has consumed `F1`, its request parser is
`done`, and the final `write_all` of its replies completes: then `F1` is the whole preamble plus the
read-ahead `e1`, the write log is exactly the owed preamble replies, and the next phase transition
starts the handler on `Request::new(stream parser for exactly the request sent, holding e1)`. -/
theorem handler_startN {g : Cfg} (ok : g.OKn) {c1 : Conn} {F1 rest : Bytes} {t' : Transport}
    (hph : c1.phase = .parseReq (track g.cap g.mc F1) (.writing rest true))
    (hw : F1 ++ c1.env.tr.input = g.W) (hstop1 : c1.stop = false)
    (hrem1 : (run .header F1 g.mc).rem.length ≤ g.cap)
    (hf : (run .header F1 g.mc).st.isFinal = true)
    (hwa : writeAllLoop (rest.length + 1) rest c1.env.tr = ([], t', .ready))
    (hlog : t'.wlog = g.L0 ++ (run .header F1 g.mc).out)
    (hsc1 : c1.scripts = (g.hscript, true) :: g.more) :
    ∃ e1, F1 = serAll g.recs ++ e1 ∧ e1 ++ c1.env.tr.input = g.X ∧ t'.wlog = g.L1 ∧ e1.length ≤ g.cap ∧
      stepConn c1 = .next
        ⟨.handler (AReq.new (Str.Parser.fromParser g.cap g.p.request e1 g.mc))
            { ops := g.hscript, propagate := true },
          (⟨t', c1.env.mutex, c1.env.segs⟩ : Run.Env).ev (hsEvent g.p.request), g.more, false⟩ := by
  have hF1 : F1 <+: serAll g.recs ++ g.X := ⟨c1.env.tr.input, by simpa [Cfg.W] using hw⟩
  rcases C06.run_wire_state ok.wf g.X hF1 g.mc with ⟨e1, hFe, he1, hrun⟩ | ⟨t, _, _, hnf⟩
  · have hd : (track g.cap g.mc F1).state = .done g.p.request := by simp only [track, hrun]
    obtain ⟨r, hrq, hr, hstep⟩ := C07.done_starts_handler c1 (track g.cap g.mc F1) rest [] t' g.p.request
      hph hstop1 hwa hd
    rw [hsc1] at hstep
    have hcap : (track g.cap g.mc F1).cap = g.cap := rfl
    have hinput : (track g.cap g.mc F1).input = e1 := by simp only [track, hrun]
    have hmc : (track g.cap g.mc F1).maxConns = g.mc := rfl
    rw [hcap, hinput, hmc] at hr
    subst hr
    have hwire : e1 ++ c1.env.tr.input = g.X := by
      have : F1 ++ c1.env.tr.input = serAll g.recs ++ g.X := by simpa [Cfg.W] using hw
      rw [hFe, List.append_assoc] at this
      exact List.append_cancel_left this
    have he1len : e1.length ≤ g.cap := by
      have := hrem1; rw [hrun] at this; exact this
    exact ⟨e1, hFe, hwire, by rw [hlog, hrun]; rfl, he1len, hstep⟩
  · rw [hf] at hnf; cases hnf

/-- the request at the handler start, for the roles with input streams: nothing delivered, nothing
generated, buffer ++ transport = the wire after the preamble -/
theorem rinv_startN {g : Cfg} (ok : g.OKn) (hrole : g.p.role = 1 ∨ g.p.role = 3) {e1 input : Bytes}
    (hlen : e1.length ≤ g.cap) (hwire : e1 ++ input = g.X) :
    RInv g.K (AReq.new (Str.Parser.fromParser g.cap g.p.request e1 g.mc)) e1 input [] [] := by
  have hstart : C03SI.Start g.K.E (Str.Parser.fromParser g.cap g.p.request e1 g.mc) :=
    C03SI.start_fresh g.cap g.p.request e1 g.mc hlen (pid_ltN ok).2 hrole
  refine ⟨hstart.mtch, hstart.inv, rfl, rfl, rfl, hwire, fun x => ?_⟩
  have := C03SI.rem_start hstart x
  show refWire g.K.E (e1 ++ x) = (Rem g.K.E (Str.Parser.fromParser g.cap g.p.request e1 g.mc) x).pre [] []
  rw [this]; rfl

/-- the first poll of the handler, by role -/
theorem first_pollN {g : Cfg} (ok : g.OKn) {e1 : Bytes} {e : Run.Env} (hlen : e1.length ≤ g.cap)
    (hwire : e1 ++ e.tr.input = g.X) (hlog : e.tr.wlog = g.L1) (hm : e.mutex = none) (hb : Ben e.tr)
    {fuel : Nat} (hfu : 1000 + 4 * e.tr.input.length + 4 * g.cap + wcost g.data.length ≤ fuel) :
    HOut g.Wc g.Rd e (handlerPoll fuel (AReq.new (Str.Parser.fromParser g.cap g.p.request e1 g.mc))
      { ops := g.hscript, propagate := true } e) := by
  have hrst : g.p.role = 1 ∨ g.p.role = 3 →
      RSt g.K g.L1 [] (AReq.new (Str.Parser.fromParser g.cap g.p.request e1 g.mc)) e.mutex e.tr [] [] := by
    intro hrole
    refine ⟨⟨e1, rinv_startN ok hrole hlen hwire⟩, ?_, Or.inl hm, ⟨[], by rw [hlog, List.append_nil], rfl⟩⟩
    rw [hm]; exact lockInv_free rfl
  cases ok.shape with
  | responderU hr1 hb1 hf hp hX2 hX hU hOt hrv hs =>
    rw [hs]
    exact rd_pollN ok (Or.inl ⟨hr1, rfl, rfl, rfl, [], hrst (Or.inl hr1)⟩) hb hfu
  | authorizer hr2 hX hU hOt hrv hs =>
    rw [hs]
    have he1 : e1 = [] ∧ e.tr.input = [] := by
      rw [hX] at hwire; exact List.append_eq_nil_iff.1 hwire
    refine open_phase (W := g.Wc) (O1 := []) ?_ hm (by rw [hlog]; exact (List.append_nil _).symm)
      (by show [] ++ [] = g.Ot; rw [hOt]; rfl) (by intro s hs; rw [show g.Wc.revs = g.revs from rfl, hrv] at hs; cases hs) hb
      (by show wcost g.data.length + 4 ≤ fuel; omega)
    refine ⟨by simp [AReq.new, Str.Parser.fromParser, Preamble.request, hr2, inputStreams], rfl, rfl, rfl, ?_,
      rfl, rfl, rfl, hlen, Str.SInv_fromParser g.cap g.p.request e1 g.mc hlen (pid_ltN ok).2⟩
    show e1 ++ e.tr.input = g.U
    rw [hU, he1.1, he1.2]; rfl
  | filterU hr3 hb1 hb2 hf hf2 hp hp2 hX2 hX hU hOt hrv hs =>
    rw [hs]
    have hrd : HRead g.K (.setStream 8 :: .readAll :: oscript g.data g.st) g.L1 []
        (AReq.new (Str.Parser.fromParser g.cap g.p.request e1 g.mc))
        { ops := fscript g.data g.st, propagate := true } e := ⟨rfl, rfl, rfl, [], hrst (Or.inr hr3)⟩
    exact rd_pollN ok (Or.inr ⟨hr3, Or.inl hrd⟩) hb hfu

/-- **The poll in which the preamble's last `write_all` completes**: the handler starts and is polled. -/
theorem final_pollN {g : Cfg} (ok : g.OKn) {c1 : Conn} {F1 rest : Bytes} {t' : Transport}
    (hph : c1.phase = .parseReq (track g.cap g.mc F1) (.writing rest true))
    (hf : (run .header F1 g.mc).st.isFinal = true)
    (hw : F1 ++ c1.env.tr.input ++ [] = g.W) (hstop1 : c1.stop = false) (hben1 : Ben c1.env.tr)
    (hrem1 : (run .header F1 g.mc).rem.length ≤ g.cap)
    (hwa : writeAllLoop (rest.length + 1) rest c1.env.tr = ([], t', .ready))
    (hlog : t'.wlog = g.L0 ++ (run .header F1 g.mc).out) (hts' : TStep c1.env.tr t')
    (hinp' : t'.input = c1.env.tr.input)
    (hsc1 : c1.scripts = (g.hscript, true) :: g.more) (hmx1 : c1.env.mutex = none)
    (hev0 : hsCount c1.env.tr.events = g.hs0) :
    Res g (2 * c1.env.tr.input.length + 11) c1 := by
  obtain ⟨e1, _, hwire, hL1, he1len, hstep'⟩ :=
    handler_startN ok hph (by simpa using hw) hstop1 hrem1 hf hwa hlog hsc1
  have hwsE : WStep c1.env.tr (t'.ev (hsEvent g.p.request)) :=
    hts'.w.trans ⟨List.suffix_refl _, List.suffix_refl _, rfl, rfl, Or.inl rfl, Nat.le_refl _,
      fun s hs => List.mem_append_left _ hs⟩
  have hev1 : Ev1 g (t'.ev (hsEvent g.p.request)) := by
    have h0 : hsCount t'.events = g.hs0 := hts'.hs.trans hev0
    constructor
    · show hsCount (t'.events ++ [hsEvent g.p.request]) = g.hs0 + 1
      rw [hsCount_append, h0, hsCount_single_true (isHS_hsEvent _)]
    · show hsEvent g.p.request ∈ t'.events ++ [hsEvent g.p.request]
      simp
  have hben2 : Ben (t'.ev (hsEvent g.p.request)) := hben1.wstep hwsE
  have hfuelH : 1000 + 4 * t'.input.length + 4 * g.cap ≤
      handlerFuel ((⟨t', c1.env.mutex, c1.env.segs⟩ : Run.Env).ev (hsEvent g.p.request))
        (AReq.new (Str.Parser.fromParser g.cap g.p.request e1 g.mc)) :=
    handlerFuel_ge' ((⟨t', c1.env.mutex, c1.env.segs⟩ : Run.Env).ev (hsEvent g.p.request))
      (AReq.new (Str.Parser.fromParser g.cap g.p.request e1 g.mc))
  have hcore := handler_coreN ok
    (c := ⟨.handler (AReq.new (Str.Parser.fromParser g.cap g.p.request e1 g.mc))
            { ops := g.hscript, propagate := true },
        (⟨t', c1.env.mutex, c1.env.segs⟩ : Run.Env).ev (hsEvent g.p.request), g.more, false⟩) rfl
    (first_pollN ok (e := (⟨t', c1.env.mutex, c1.env.segs⟩ : Run.Env).ev (hsEvent g.p.request)) he1len
      (by show e1 ++ t'.input = g.X; rw [hinp']; exact hwire) hL1 hmx1 hben2 (Nat.add_le_add hfuelH (hscript_costN ok))) hben2 rfl hev1 rfl
  have hres := Res.of_steps (Steps.one hstep') ⟨hwsE, rfl, hstop1.symm ▸ rfl⟩ hcore
  refine hres.mono ?_
  have h2 := congrArg List.length hinp'
  show 1 + (2 * t'.input.length + 10) ≤ _
  omega

theorem parse_pollN {g : Cfg} (ok : g.OKn) {c : Conn} {F : Bytes}
    (hst : PSt g.cap g.mc g.W g.L0 [] c F) (hsc : c.scripts = (g.hscript, true) :: g.more)
    (hm : c.env.mutex = none) (hev : hsCount c.env.tr.events = g.hs0) :
    Res g (4 * c.env.tr.input.length + 16) c := by
  obtain ⟨n, c1, F1, hn, hs, hfr, hout⟩ := parse_loop (cap24 g) (nsN ok) _ c F hst (Nat.le_refl _)
  have hnb : n ≤ 2 * c.env.tr.input.length + 2 := by have := wbit_le c; omega
  rcases hout with ⟨c2, h1, h2, h3, h4, h5⟩ | ⟨rest, t', hph, hf, hw, hstop1, hben1, hrem1, hwa, hlog, hts', hinp'⟩ |
      ⟨hin, hnf, hph, hst1⟩
  · refine ⟨c2, .pending, ⟨n, c1, by omega, hs, h1⟩, hfr.link.trans h3.link, ?_⟩
    have hts := hfr.ts.trans h3.ts
    exact .pend (.parse h2 (h3.scripts.trans (hfr.scripts.trans hsc)) (h3.mutex.trans (hfr.mutex.trans hm))
      (hts.hs.trans hev)) h4 (by have := hfr.ts.ans_le; omega)
  · -- the preamble is complete and its replies are written: the handler starts
    have hfp := final_pollN ok hph hf hw hstop1 hben1 hrem1 hwa hlog hts' hinp' (hfr.scripts.trans hsc)
      (hfr.mutex.trans hm) (hfr.ts.hs.trans hev)
    refine (Res.of_steps hs hfr.link hfp).mono ?_
    have h1 := hfr.ts.tle.input_len
    omega
  · exfalso
    have hF1 : F1 = g.W := by
      have := hst1.wire
      rwa [hin, List.append_nil, List.append_nil] at this
    rcases C06.run_wire_state ok.wf g.X (F := F1) (by rw [hF1]; exact List.prefix_refl _) g.mc with
      ⟨e1, _, _, hrun⟩ | ⟨t, ht, hFt, _⟩
    · rw [hrun] at hnf; cases hnf
    · rw [hF1, Cfg.W] at hFt
      have := congrArg List.length hFt
      have : 0 < t.length := List.length_pos_iff.mpr ht
      simp only [List.length_append] at *
      omega

/-- the poll that starts `parse_request` (with `raw` left in the buffer by the previous request) -/
theorem start_pollN {g : Cfg} (ok : g.OKn) {c : Conn} {raw : Bytes}
    (hph : c.phase = .parseReq ⟨g.cap, raw, .header, g.mc⟩ .start)
    (hwire : raw ++ c.env.tr.input = g.W) (hraw : raw.length ≤ g.cap) (hlog : c.env.tr.wlog = g.L0)
    (hb : Ben c.env.tr) (hstop : c.stop = false)
    (hsc : c.scripts = (g.hscript, true) :: g.more) (hm : c.env.mutex = none)
    (hev : hsCount c.env.tr.events = g.hs0) : Res g (4 * c.env.tr.input.length + 17) c := by
  have hpre : raw <+: g.W := ⟨c.env.tr.input, hwire⟩
  have hstart := start_track (cap24 g) hraw (nsN ok _ hpre)
  have hstep := step_start c _ hph hstop
  rw [hstart] at hstep
  have hstep' : stepConn c = .next (mkC c (.parseReq (track g.cap g.mc raw)
      (.writing (run .header raw g.mc).out (run .header raw g.mc).st.isFinal)) c.env.tr) := hstep
  have hremle : (run .header raw g.mc).rem.length ≤ g.cap := by
    have := (run_ok raw g.mc (st := .header) trivial).2.2.length_le
    omega
  have hst : PSt g.cap g.mc g.W g.L0 [] (mkC c (.parseReq (track g.cap g.mc raw)
      (.writing (run .header raw g.mc).out (run .header raw g.mc).st.isFinal)) c.env.tr) raw :=
    ⟨by show raw ++ c.env.tr.input ++ [] = g.W
        rw [List.append_nil]; exact hwire,
      hstop, hb, hremle, Or.inr ⟨_, rfl, by show c.env.tr.wlog ++ _ = _; rw [hlog], [], rfl⟩⟩
  have hres := parse_pollN ok hst hsc hm hev
  have := Res.of_steps (Steps.one hstep') (mkC_link c _ (.refl _)) hres
  exact this.mono (by show 1 + (4 * c.env.tr.input.length + 16) ≤ _; omega)

theorem stage_pollN {g : Cfg} (ok : g.OKn) {c : Conn} (hst : Stage g c) :
    Res g (4 * c.env.tr.input.length + 17) c := by
  cases hst with
  | start hph hwire hraw hlog hb hstop hsc hm hev => exact start_pollN ok hph hwire hraw hlog hb hstop hsc hm hev
  | parse hst hsc hm hev => exact (parse_pollN ok hst hsc hm hev).mono (by omega)
  | @hread r h hph hr hb hstop hev hsc =>
    exact (handler_coreN ok hph (rd_pollN ok hr hb (by rw [scriptOf_handler hph]; exact Nat.add_le_add hr.fuel hr.cost)) hb hstop hev hsc).mono (by omega)
  | @hwrite r h O1 hph hw hb hstop hev hsc =>
    refine (handler_coreN ok hph (write_phaseN hw hb ?_) hb hstop hev hsc).mono (by omega)
    have h1 := handlerFuel_ge c.env r
    have h2 := wcost_le (restOf h.sub g.Wc.data).length
    have h3 : scriptOf c = (restOf h.sub g.Wc.data).length + 1 + 2 := by
      rw [scriptOf_handler hph]
      obtain ⟨ops, sub, ws, pr⟩ := h
      have := hw.ops
      simp only at this
      subst this
      simp [scriptCost, wscript, curCost_writeAll, opCost]
    omega
  | @closeW r rest O1 O2 hph hO hce hm hlog hb hstop hev hre hsc =>
    refine (close_outN ok (r2 := r) (rest := rest) hO hph ?_ hce hm hlog hb hstop hev hre hsc).mono (by omega)
    rw [closePoll_late _ _ _ _ _ _ rfl]
  | @close r rest O1 O2 hph hO hce hm hlog hb hstop hev hre hsc =>
    refine (close_coreN ok (r2 := r) (rest := rest) hO hph ?_ (.refl _) rfl hce hm hlog hb hstop hev hre hsc).mono
      (by omega)
    rw [closePoll_late _ _ _ _ _ _ rfl]
    rfl
  | idle hO hst _ hkeep hev hre hsc hmx => exact (idle_pollN ok hO hst hkeep hev hre hsc hmx).mono (by omega)

/-- **The executor.**  Started in a stage with nothing held back by a peer, `runTask` needs at most
one poll per scripted answer still to come (plus one) and ends `RET` with the connection finished,
or `STALL` with the connection parked on an empty buffer waiting for the next request. -/
theorem run_from_stageN' {g : Cfg} (ok : g.OKn) : ∀ (A : Nat) (c : Conn) (n fuel : Nat),
    Stage g c → c.env.segs = [] → ans c.env.tr ≤ A → A + 1 ≤ fuel →
    ∃ c', (c'.env.tr.endMode = c.env.tr.endMode ∧ ans c'.env.tr ≤ ans c.env.tr ∧ c'.env.segs = [] ∧
        ∀ s, s ∈ c.env.tr.events → s ∈ c'.env.tr.events) ∧
      ∃ O1 O2, O1 ++ O2 = g.Ot ∧
      ((runTask fuel c n none = (c', "RET") ∧ Fin g O1 O2 c') ∨
       (runTask fuel c n none = (c', "STALL") ∧ Parked g O1 O2 c')) := by
  intro A
  induction A with
  | zero =>
    intro c n fuel hst hsegs hA hf
    obtain ⟨f, rfl⟩ : ∃ f, fuel = f + 1 := ⟨fuel - 1, by omega⟩
    obtain ⟨hsame, hph, hsc, hstop, hmx, hsg, hwk⟩ := prePoll_same c n hsegs
    have hst0 := hst.cong hph hsc hstop hmx hsame
    obtain ⟨c', r, hh, hl, ho⟩ := stage_pollN ok hst0
    have hpoll := hh.pollB (by omega)
    have hans0 : ans (prePoll c n none).env.tr = ans c.env.tr := by unfold ans; rw [hsame.rd, hsame.wr]
    have hem : c'.env.tr.endMode = c.env.tr.endMode ∧ ans c'.env.tr ≤ ans c.env.tr ∧ c'.env.segs = [] ∧
        ∀ s, s ∈ c.env.tr.events → s ∈ c'.env.tr.events :=
      ⟨hl.ts.em.trans hsame.em, by have := hl.ts.ans_le; omega, hl.segs.trans hsg,
        fun s hs => hl.ts.evm s (hsame.mem hs)⟩
    rw [runTask_succ, hpoll]
    cases ho with
    | @fin O1 O2 hO hfin => exact ⟨c', hem, O1, O2, hO, Or.inl ⟨rfl, hfin⟩⟩
    | pend hs' hw ha => omega
    | @park O1 O2 hs' hO hp =>
      rcases hl.ts.wk with hw | ⟨_, ha⟩
      · rw [hwk] at hw
        simp only [hw, Bool.false_eq_true, if_false]
        have hsg' : c'.env.segs = [] := hl.segs.trans hsg
        rw [release_nil _ hsg']
        simp only [hw, Bool.false_eq_true, if_false]
        refine ⟨_, ?_, O1, O2, hO, Or.inr ⟨rfl, hp.cong rfl rfl rfl rfl ⟨rfl, rfl, rfl, rfl, rfl, rfl, [], by simp, Quiet.nil⟩⟩⟩
        exact hem
      · omega
  | succ A ih =>
    intro c n fuel hst hsegs hA hf
    obtain ⟨f, rfl⟩ : ∃ f, fuel = f + 1 := ⟨fuel - 1, by omega⟩
    obtain ⟨hsame, hph, hsc, hstop, hmx, hsg, hwk⟩ := prePoll_same c n hsegs
    have hst0 := hst.cong hph hsc hstop hmx hsame
    obtain ⟨c', r, hh, hl, ho⟩ := stage_pollN ok hst0
    have hpoll := hh.pollB (by omega)
    have hans0 : ans (prePoll c n none).env.tr = ans c.env.tr := by unfold ans; rw [hsame.rd, hsame.wr]
    have hsg' : c'.env.segs = [] := hl.segs.trans hsg
    have hem : c'.env.tr.endMode = c.env.tr.endMode ∧ ans c'.env.tr ≤ ans c.env.tr ∧ c'.env.segs = [] ∧
        ∀ s, s ∈ c.env.tr.events → s ∈ c'.env.tr.events :=
      ⟨hl.ts.em.trans hsame.em, by have := hl.ts.ans_le; omega, hl.segs.trans hsg,
        fun s hs => hl.ts.evm s (hsame.mem hs)⟩
    rw [runTask_succ, hpoll]
    cases ho with
    | @fin O1 O2 hO hfin => exact ⟨c', hem, O1, O2, hO, Or.inl ⟨rfl, hfin⟩⟩
    | pend hs' hw ha =>
      simp only [hw, if_true]
      obtain ⟨c2, ⟨h1, h1', h1'', h1e⟩, h2⟩ := ih c' (n + 1) f hs' hsg' (by omega) (by omega)
      exact ⟨c2, ⟨h1.trans hem.1, by have := hem.2.1; omega, h1'', fun s hs => h1e s (hem.2.2.2 s hs)⟩, h2⟩
    | @park O1 O2 hs' hO hp =>
      rcases hl.ts.wk with hw | ⟨hw, ha⟩
      · rw [hwk] at hw
        simp only [hw, Bool.false_eq_true, if_false]
        rw [release_nil _ hsg']
        simp only [hw, Bool.false_eq_true, if_false]
        refine ⟨_, ?_, O1, O2, hO, Or.inr ⟨rfl, hp.cong rfl rfl rfl rfl ⟨rfl, rfl, rfl, rfl, rfl, rfl, [], by simp, Quiet.nil⟩⟩⟩
        exact hem
      · simp only [hw, if_true]
        obtain ⟨c2, ⟨h1, h1', h1'', h1e⟩, h2⟩ := ih c' (n + 1) f hs' hsg' (by omega) (by omega)
        exact ⟨c2, ⟨h1.trans hem.1, by have := hem.2.1; omega, h1'', fun s hs => h1e s (hem.2.2.2 s hs)⟩, h2⟩

theorem Cfg.ShapeN.at {g : Cfg} (h : g.ShapeN) (L : Bytes) : (g.at L).ShapeN := by
  cases h with
  | responderU hr hb hf hp hX2 hX hU hOt hrv hs => exact .responderU hr hb hf hp hX2 hX hU hOt hrv hs
  | authorizer hr hX hU hOt hrv hs => exact .authorizer hr hX hU hOt hrv hs
  | filterU hr hb hb2 hf hf2 hp hp2 hX2 hX hU hOt hrv hs =>
    exact .filterU hr hb hb2 hf hf2 hp hp2 hX2 hX hU hOt hrv hs

theorem Cfg.OKn.at {g : Cfg} (ok : g.OKn) (L : Bytes) : (g.at L).OKn :=
  ⟨ok.wf, ok.pairs, ok.noise, ok.shape.at L⟩

/-- `chain_run` without any bound on the size of the requests -/
theorem chain_runN' : ∀ (gs : List Cfg) (g : Cfg) (c : Conn) (n fuel : Nat),
    Stage g c → c.env.segs = [] → c.env.tr.endMode = .pend → ans c.env.tr + 1 ≤ fuel →
    g.OKn → (∀ g' ∈ gs, g'.OKn) → ChainFrom g gs →
    ∃ c' fin, closedLoop fuel (gs.map Cfg.W) c n = (c', fin) ∧
      (∀ s, s ∈ c.env.tr.events → s ∈ c'.env.tr.events) ∧ c'.env.tr.endMode = .pend ∧
      LogChain g.L0 (g :: gs) c'.env.tr.wlog ∧ ChainEnd (lastP g gs) c' fin ∧
      (∀ g' ∈ g :: gs, hsEvent g'.p.request ∈ c'.env.tr.events ∧ ∀ s ∈ g'.revs, s ∈ c'.env.tr.events) := by
  intro gs
  induction gs with
  | nil =>
    intro g c n fuel hst hsegs hem hf ok _ _
    obtain ⟨c', ⟨hem', _, _, hevm⟩, O1, O2, hO, hres⟩ :=
      run_from_stageN' ok (ans c.env.tr) c n fuel hst hsegs (Nat.le_refl _) hf
    rcases hres with ⟨hrun, hfin⟩ | ⟨hrun, hpk⟩
    · refine ⟨c', "RET", hrun, hevm, hem'.trans hem, ⟨O1, O2, hO, hfin.log⟩,
        ⟨hfin.ev.1, hfin.sc, Or.inl ⟨rfl, hfin.ph, hfin.why⟩⟩, fun g' hg' => ?_⟩
      rw [List.mem_singleton.1 hg']
      exact ⟨hfin.ev.2, hfin.re⟩
    · refine ⟨c', "STALL", hrun, hevm, hem'.trans hem, ⟨O1, O2, hO, hpk.log⟩,
        ⟨hpk.ev.1, hpk.sc, Or.inr ⟨rfl, hpk.ph, hpk.inp, hpk.keep⟩⟩, fun g' hg' => ?_⟩
      rw [List.mem_singleton.1 hg']
      exact ⟨hpk.ev.2, hpk.re⟩
  | cons g2 gs ih =>
    intro g c n fuel hst hsegs hem hf ok hall hch
    obtain ⟨hl, hch2⟩ := hch
    obtain ⟨c', ⟨hem', hans', hsegs', hevm⟩, O1, O2, hO, hres⟩ :=
      run_from_stageN' ok (ans c.env.tr) c n fuel hst hsegs (Nat.le_refl _) hf
    rcases hres with ⟨hrun, hfin⟩ | ⟨hrun, hpk⟩
    · exfalso
      rcases hfin.why with h | ⟨_, h⟩
      · have := hl.keep; omega
      · rw [hem', hem] at h; cases h
    · have hst2 := next_stage (g2 := g2.at (g.L3 O1 O2)) hpk (hl.at_right _) rfl
      have ok2 := hall g2 (List.mem_cons_self)
      obtain ⟨c2, fin2, hrun2, hevm2, hem2, hlog2, hend2, hall2⟩ :=
        ih (g2.at (g.L3 O1 O2)) (feed c' g2.W) (n + 1000) fuel hst2 hsegs'
          (by show c'.env.tr.endMode = .pend; rw [hem', hem])
          (by show ans c'.env.tr + 1 ≤ fuel; omega) (ok2.at _)
          (fun g' hg' => hall g' (List.mem_cons_of_mem _ hg')) (hch2.at_left _)
      obtain ⟨L', hL'⟩ := lastP_at g2 gs (g.L3 O1 O2)
      refine ⟨c2, fin2, ?_, fun s hs => hevm2 s (hevm s hs), hem2, ⟨O1, O2, hO, ?_⟩, ?_, ?_⟩
      · simp only [closedLoop, List.map_cons, hrun, if_true]
        exact hrun2
      · have : (g.at g.L0) = g := by cases g; rfl
        rw [this]
        obtain ⟨P1, P2, hP, hrest⟩ := hlog2
        exact ⟨P1, P2, hP, by
          have h2 : ((g2.at (g.L3 O1 O2)).at (g2.at (g.L3 O1 O2)).L0) = g2.at (g.L3 O1 O2) := rfl
          rw [h2] at hrest
          exact hrest⟩
      · rw [lastP_cons]
        rw [hL'] at hend2
        exact hend2.at
      · intro g' hg'
        rcases List.mem_cons.1 hg' with rfl | hg'
        · exact ⟨hevm2 _ hpk.ev.2, fun s hs => hevm2 _ (hpk.re s hs)⟩
        · rcases List.mem_cons.1 hg' with rfl | hg''
          · exact hall2 (g'.at (g.L3 O1 O2)) List.mem_cons_self
          · exact hall2 g' (List.mem_cons_of_mem _ hg'')

end Fcgi.E2E
