import Fcgi.Proofs.E2EUnreadNF
import Fcgi.Proofs.E2EUnb
/-!
# The chain steps (`Serves`) for requests without a cost bound

`Cfg.OKn.front`, `UOKn.front`, `serve_full_coreN'`, `serve_unread_coreN'`: the lemmas of `Proofs/E2EUnreadChain` / `E2EUnb` behind
`Serves`, over `Cfg.OKn` / `UOKn` (text transformation).
-/
namespace Fcgi.E2E
open Fcgi Fcgi.Req Fcgi.Str Fcgi.Async Fcgi.Run Fcgi.Spec

theorem Cfg.OKn.front {g : Cfg} (ok : g.OKn) {us : List Rec} (hu : LeftOK (alignedBufsize g.b) us) : (g.front us).OKn := by
  refine ⟨wf_idle ok.wf us hu.1, ok.pairs, noiseFits_app hu.2 ok.noise, ?_⟩
  cases ok.shape with
  | responderU hr hb hf hp hX2 hX hU hOt hrv hs => exact .responderU hr hb hf hp hX2 hX hU hOt hrv hs
  | authorizer hr hX hU hOt hrv hs => exact .authorizer hr hX hU hOt hrv hs
  | filterU hr hb hb2 hf hf2 hp hp2 hX2 hX hU hOt hrv hs =>
    exact .filterU hr hb hb2 hf hf2 hp hp2 hX2 hX hU hOt hrv hs

theorem UOKn.front {g : Cfg} (ok : UOKn g) {us : List Rec} (hu : LeftOK (alignedBufsize g.b) us) : UOKn (g.front us) :=
  ⟨wf_idle ok.wf us hu.1, ok.role, ok.pairs, noiseFits_app hu.2 ok.noise, ok.hX, ok.hU, ok.hOt, ok.hrv, ok.mode⟩

theorem serve_full_coreN' {g : Cfg} (ok : g.OKn) (hk : g.p.flags.toNat % 2 = 1) {left : List Rec}
    (hleft : LeftOK (alignedBufsize g.b) left) {Lw : Bytes} {evs : List String} {A0 : Nat} {c : Conn} (n fuel : Nat)
    (hLw : Lw = g.L0 ++ idleOwed g.mc left)
    (hstart : StartAt g.cap g.mc left Lw ((g.hscript, true) :: g.more) g.hs0 evs A0 g.W c)
    (hf : A0 + 1 ≤ fuel) :
    ∃ c' O1 O2, runTask fuel c n none = (c', "STALL") ∧ O1 ++ O2 = g.Ot ∧
      Waiting g.cap g.mc [] ((g.front left).L3 O1 O2) g.more (g.hs0 + 1) (hsEvent g.p.request :: evs) A0 c' ∧
      ∀ s ∈ g.revs, s ∈ c'.env.tr.events := by
  have okf := ok.front hleft
  have hout := (run_idle_out g.mc left hleft.1).1
  -- the stage at the start, and the facts about `c`
  have hst : Stage (g.front left) c ∧ c.env.segs = [] ∧ c.env.tr.endMode = .pend ∧ ans c.env.tr ≤ A0 ∧
      (∀ s ∈ evs, s ∈ c.env.tr.events) ∧ c.env.tr.input = g.W := by
    rcases hstart with ⟨c0, w, rfl⟩ | ⟨hl, hph, hin, hlog, hb, hstop, hsc, hm, hhs, hev, hsg, hem, hans⟩
    · obtain ⟨L, hL, hpst⟩ := w.pst g.W
      have hLe : L = g.L0 := by
        rw [hLw, hout] at hL
        exact (List.append_cancel_right hL).symm
      subst hLe
      refine ⟨.parse (F := serAll left) (by rw [Cfg.front_W]; exact hpst) w.sc w.mtx w.hs, w.segs, w.em, w.ans, w.ev, rfl⟩
    · subst hl
      refine ⟨.start (raw := []) hph (by rw [Cfg.front_W, hin]; rfl) (Nat.zero_le _) ?_ hb hstop hsc hm hhs,
        hsg, hem, hans, hev, hin⟩
      rw [hlog, hLw]; simp [idleOwed]; rfl
  obtain ⟨hst, hsg, hem, hans, hev, hin⟩ := hst
  obtain ⟨c', ⟨e1, e2, e3, e4⟩, O1, O2, hO, hres⟩ :=
    run_from_stageN' okf (ans c.env.tr) c n fuel hst hsg (Nat.le_refl _) (by omega)
  rcases hres with ⟨_, hfin⟩ | ⟨hrun, hpk⟩
  · exfalso
    rcases hfin.why with h | ⟨_, h⟩
    · have : (g.front left).p.flags.toNat % 2 = 1 := hk
      omega
    · rw [e1, hem] at h; cases h
  · refine ⟨c', O1, O2, hrun, hO, ⟨?_, ?_, ?_, hpk.inp, hpk.log, ⟨(g.front left).L3 O1 O2, by rw [serAll_nil, resting_header]; exact (List.append_nil _).symm⟩, hpk.stop, hpk.ben,
      hpk.sc, hpk.mtx, hpk.ev.1, ?_, e3, hpk.em, by omega⟩, hpk.re⟩
    · rw [serAll_nil, track_nil]; exact hpk.ph
    · rw [serAll_nil, resting_header]; rfl
    · rw [serAll_nil, resting_header]; exact Nat.zero_le _
    · intro s hs
      rcases List.mem_cons.1 hs with rfl | hs
      · exact hpk.ev.2
      · exact e4 s (hev s hs)

theorem serve_unread_coreN' {g : Cfg} (ok : UOKn g) (hk : g.p.flags.toNat % 2 = 1) {left : List Rec}
    (hleft : LeftOK (alignedBufsize g.b) left) {Z : Bytes} (hbody : ∀ e ∈ g.body, IdleNoise e)
    (hZ : GoodNext g.cap g.mc g.body Z)
    {Lw : Bytes} {evs : List String} {A0 : Nat} {c : Conn} (n fuel : Nat)
    (hLw : Lw = g.L0 ++ idleOwed g.mc left)
    (hstart : StartAt g.cap g.mc left Lw ((g.hscript, true) :: g.more) g.hs0 evs A0 g.W c)
    (hf : A0 + 1 ≤ fuel) :
    ∃ c', runTask fuel c n none = (c', "STALL") ∧
      Waiting g.cap g.mc g.body ((g.front left).LU ++ idleOwed g.mc g.body) g.more (g.hs0 + 1)
        (hsEvent g.p.request :: evs) A0 c' := by
  have okf := ok.front hleft
  have hout := (run_idle_out g.mc left hleft.1).1
  have hst : UStage (g.front left) c ∧ c.env.segs = [] ∧ c.env.tr.endMode = .pend ∧ ans c.env.tr ≤ A0 ∧
      (∀ s ∈ evs, s ∈ c.env.tr.events) ∧ c.env.tr.input = g.W := by
    rcases hstart with ⟨c0, w, rfl⟩ | ⟨hl, hph, hin, hlog, hb, hstop, hsc, hm, hhs, hev, hsg, hem, hans⟩
    · obtain ⟨L, hL, hpst⟩ := w.pst g.W
      have hLe : L = g.L0 := by
        rw [hLw, hout] at hL
        exact (List.append_cancel_right hL).symm
      subst hLe
      refine ⟨.parse (F := serAll left) (by rw [Cfg.front_W]; exact hpst) w.sc w.mtx w.hs, w.segs, w.em, w.ans, w.ev, rfl⟩
    · subst hl
      refine ⟨.start (raw := []) hph (by rw [Cfg.front_W, hin]; rfl) (Nat.zero_le _) ?_ hb hstop hsc hm hhs,
        hsg, hem, hans, hev, hin⟩
      rw [hlog, hLw]; simp [idleOwed]; rfl
  obtain ⟨hst, hsg, hem, hans, hev, hin⟩ := hst
  have hU : (g.front left).U = serAll g.body := ok.hU
  obtain ⟨c', fin, hrun, hkp, hem', hev', hans', hsg', hend⟩ :=
    run_unreadN' okf hk (Z := Z) (by rw [hU]; exact hZ.1) (by rw [hU]; exact hZ.2) .pend evs c n fuel hst hem hev hsg
      (by omega)
  rcases hend with ⟨rfl, hp⟩ | ⟨_, hfn⟩
  · obtain ⟨F, hF, hps, hph, hlg⟩ := hp.pst
    have hFe : F = serAll g.body := by rw [hU] at hF; exact List.append_cancel_right hF
    subst hFe
    have hnf : (run .header (serAll g.body) g.mc).st.isFinal = false := (run_idle_out g.mc g.body hbody).2.2
    have hob : (run .header (serAll g.body) (g.front left).mc).out = idleOwed g.mc g.body :=
      (run_idle_out g.mc g.body hbody).1
    refine ⟨c', hrun, ⟨hph, hnf, hps.rem, hp.inp, by rw [hlg, hob], ⟨(g.front left).LU, by
      show _ = _ ++ (run .header (serAll g.body) (g.front left).mc).out
      rw [hob]⟩, hps.stop, hps.ben, hkp.sc, hkp.mx,
      hkp.hs, ?_, hsg', hem', by omega⟩⟩
    intro s hs
    rcases List.mem_cons.1 hs with rfl | hs
    · exact hkp.ev _ List.mem_cons_self
    · exact hev' s hs
  · rw [hfn.em] at hem'; cases hem'

end Fcgi.E2E
