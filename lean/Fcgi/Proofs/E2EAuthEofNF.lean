import Fcgi.Proofs.E2EAuthConnNF
import Fcgi.Proofs.E2ETruncUnb
/-!
# The Authorizer on a cut wire, closed form (`Proofs/E2EAuthEofEnd`, `run_authC'`) without the model-fuel bound (`…NF`)

Copies by text transformation of the lemmas of `Proofs/E2EAuthEofEnd.lean` that take an `AOK`, and of `run_authC'`
(`Proofs/E2ETruncUnb.lean`), over `AOKN` (`Proofs/E2EAuthConnNF.lean`).
-/
namespace Fcgi.C12E
open Fcgi Fcgi.Req Fcgi.Str Fcgi.Async Fcgi.Run Fcgi.Spec Fcgi.E2E

theorem aboundary_outTNF {g : E2E.Cfg} {rd : ARead} {wr : Bool} (ok : AOKN g rd wr) {X lost : Bytes} {c : Conn} {r : AReq}
    {cs : CloseSt} {sp0 sp' : Str.Parser} {t' : Transport} {res : ORes} {dO : Bytes}
    (hph : c.phase = .closing r cs g.st 0)
    (heq : closePoll r cs g.st 0 c.env.mutex c.env.tr = closeTail r c.env.mutex g.st (sp', t', res))
    (hts : TStep c.env.tr t') (hwl : t'.wlog = c.env.tr.wlog)
    (hend : BEndT g.p.id g.mc g.cap g.body sp0 sp' dO t' lost)
    (hreq : sp0.request = g.p.request) (hmc : sp0.maxConns = g.mc)
    (hres : BResT sp' c.env.tr t' lost g.cap res)
    (hlk : r.lock = .none) (hwr : r.writeable = true) (hm : c.env.mutex = none)
    (hlog : ∃ O1, c.env.tr.wlog = (g.L1 ++ O1) ++ g.D ∧ O1 ++ sp0.output = dO) (hrd : REvs g c.env.tr)
    (hb : Ben c.env.tr) (hem : c.env.tr.endMode = .eof) (hstop : c.stop = false) (hev : Ev1 g c.env.tr)
    (hsc : c.scripts = g.more) :
    GRes3 (SAc g X lost) (AAc g lost) (FAc g lost) 2 c := by
  obtain ⟨⟨o, G', ho, hr2⟩, hreq', hmc'⟩ := hend
  obtain ⟨O1, hl1, hl2⟩ := hlog
  have hl1' : t'.wlog = (g.L1 ++ O1) ++ g.D := hwl.trans hl1
  have hl2' : O1 ++ sp'.output = dO ++ o := by rw [ho, ← List.append_assoc, hl2]
  have hctx := ok.ctx
  rcases hres with ⟨rfl, hbd⟩ | ⟨rfl, hwk, hans, hnb, hraw, hg0, hg1, hin⟩ | ⟨rfl, hin, hl, hnb, hraw⟩
  · have hpay : sp'.pay = 0 ∧ sp'.pad = 0 := by
      simpa [Str.Parser.isRecordBoundary] using hbd
    obtain ⟨cc, pd, s2, hcc, hpd, hw, ⟨s1, hsuf⟩⟩ := hr2.ign.pos
    rw [hpay.1] at hcc
    rw [hpay.2] at hpd
    have hcc' : cc = [] := List.length_eq_zero_iff.1 hcc
    have hpd' : pd = [] := List.length_eq_zero_iff.1 hpd
    rw [hcc', hpd', List.nil_append, List.nil_append] at hw
    have hsp : g.body = s1 ++ s2 := hsuf.symm
    obtain ⟨_, hout, _⟩ := hr2.now hctx
    have hrem : Rem (Ev g.p.id g.mc) (view sp') (t'.input ++ lost) = refWire (Ev g.p.id g.mc) (serAll s2) := by
      show ref (Ev g.p.id g.mc) (view sp').state (view sp').pay (view sp').pad ((view sp').raw ++ (t'.input ++ lost)) = _
      have e1 : (view sp').pay = 0 := hpay.1
      have e2 : (view sp').pad = 0 := hpay.2
      have e3 : (view sp').raw = sp'.raw := rfl
      rw [e1, e2, e3, hw]
      exact ref_eq_refWire (Ev g.p.id g.mc) _ _
    have hs2 : ∀ r ∈ s2, StdinRec g.p.id r := fun r hr => ok.str r (by rw [hsp]; exact List.mem_append_right _ hr)
    rw [hrem, refWire_view g.p.id g.mc hs2] at hout
    have hdO : dO ++ o = owedI g.p.id g.mc s1 := by
      have : owedI g.p.id g.mc g.body = owedI g.p.id g.mc s1 ++ owedI g.p.id g.mc s2 := by
        rw [hsp]; simp [owedI, List.flatMap_append]
      rw [this] at hout
      exact List.append_cancel_right hout
    have hU : (sp'.raw ++ t'.input) ++ lost = serAll s2 := by rw [List.append_assoc]; exact hw
    have hepi : epilogueOf { r with sp := sp' } g.st =
        (gU g (sp'.raw ++ t'.input) ((g.L1 ++ O1) ++ g.D ++ sp'.output)).epi := by
      simp only [epilogueOf, hwr, if_true, E2E.Cfg.epi, outputStreams]
      show makeRequestEpilogue sp'.request.id g.st _ = _
      rw [hreq', hreq]; rfl
    have heq' : closePoll r cs (gU g (sp'.raw ++ t'.input) ((g.L1 ++ O1) ++ g.D ++ sp'.output)).st 0 c.env.mutex c.env.tr =
        closeP4 { sp := sp', lock := .none, writeable := r.writeable } c.env.mutex t'
          (.writeOut sp'.output (gU g (sp'.raw ++ t'.input) ((g.L1 ++ O1) ++ g.D ++ sp'.output)).epi) := by
      show closePoll r cs g.st 0 c.env.mutex c.env.tr = _
      rw [heq, ← hepi]
      simp only [closeTail, closeP2Tail, closeP3_start, Nat.lt_irrefl, gt_iff_lt, if_false, hlk, lockDrop]
    have hrawlen : sp'.raw.length ≤ g.cap := by
      have := hr2.sinv.1
      have e : (view sp').freeStart = sp'.freeStart := rfl
      have e2 : (view sp').cap = sp'.cap := rfl
      rw [e, e2, hr2.capK] at this
      simp only [Str.Parser.freeStart] at this
      omega
    have hce : CEndW (gU g (sp'.raw ++ t'.input) ((g.L1 ++ O1) ++ g.D ++ sp'.output))
        { sp := sp', lock := .none, writeable := r.writeable } t'.input :=
      ⟨hpay.1, hpay.2, rfl, hreq'.trans hreq, hr2.capK, hmc'.trans hmc, hrawlen⟩
    have hUr := uclose_out' (g := gU g (sp'.raw ++ t'.input) ((g.L1 ++ O1) ++ g.D ++ sp'.output)) hph heq' hts hce hm
      (by rw [gU_LU, hl1']; rfl) hb hstop hev hsc
    have hO : O1 ++ sp'.output = owedI g.p.id g.mc s1 := hl2'.trans hdO
    exact hUr.toG3.imp
      (fun _ hl h => ⟨Or.inr (Or.inr (Or.inr ⟨s1, s2, O1, sp'.output, _, hsp, hO, hU, hrd.wstep hl.ts, h⟩)),
        hl.ts.em.trans hem⟩)
      (fun _ hl h => ⟨s1, s2, O1, sp'.output, _, hsp, hO, hU, hrd.wstep hl.ts, h⟩)
      (fun _ hl h => Or.inl ⟨s1, s2, O1, sp'.output, _, hsp, hO, hU, hrd.wstep hl.ts, h⟩)
  · have hstep := C07.closing_step c r cs g.st 0 hph
    rw [heq] at hstep
    have hstep' : stepConn c = .halt (mkC c (.closing { r with sp := sp' } .inBoundary g.st 0) t') .pending := hstep
    refine Or.inl (Or.inl ⟨_, (Halts.now hstep').mono (by omega), mkC_link c _ hts, ⟨?_, hts.em.trans hem⟩, hwk, hans⟩)
    exact Or.inr (Or.inr (Or.inl ⟨{ r with sp := sp' }, dO ++ o, O1, rfl, ⟨G', hr2⟩, hreq'.trans hreq,
      hmc'.trans hmc, hlk, hwr, hm, hl1', hl2', hnb, hraw, hg0, hg1, hin, hrd.step hts, hb.step hts, hstop,
      hev.step hts, hsc⟩))
  · rw [closeTail_err] at heq
    have hstep := step_closing_err hph heq
    refine Or.inr ⟨_, (Halts.now hstep).mono (by omega), ⟨hts.w, rfl, rfl⟩, Or.inr ⟨rfl, ?_, hin, hl, hev.step hts,
      hrd.step hts, hsc⟩⟩
    refine ⟨O1, sp'.output, ?_, hl1'⟩
    rw [hl2']; exact r2_owed_prefix hctx hr2

/-- `close` polled: first poll (`resume = false`, `cs = start`) or re-poll in `record_boundary()` -/
theorem aclose_pollTNF {g : E2E.Cfg} {rd : ARead} {wr : Bool} (ok : AOKN g rd wr) {X lost : Bytes} {c : Conn} {r : AReq}
    {cs : CloseSt} {G dO : Bytes}
    (hph : c.phase = .closing r cs g.st 0)
    (hr2 : R2 g.p.id g.mc g.cap g.body r.sp G (c.env.tr.input ++ lost) dO)
    (hcs : (cs = .start) ∨ (cs = .inBoundary ∧ r.sp.isRecordBoundary = false ∧ r.sp.raw.length < g.cap ∧
      r.sp.g0 = 0 ∧ r.sp.g1 = 0 ∧ c.env.tr.input ++ lost ≠ []))
    (hreq : r.sp.request = g.p.request) (hmc : r.sp.maxConns = g.mc)
    (hlk : r.lock = .none) (hwr : r.writeable = true) (hm : c.env.mutex = none)
    (hlog : ∃ O1, c.env.tr.wlog = (g.L1 ++ O1) ++ g.D ∧ O1 ++ r.sp.output = dO) (hrd : REvs g c.env.tr)
    (hb : Ben c.env.tr) (hem : c.env.tr.endMode = .eof) (hstop : c.stop = false) (hev : Ev1 g c.env.tr)
    (hsc : c.scripts = g.more) :
    GRes3 (SAc g X lost) (AAc g lost) (FAc g lost) 2 c := by
  have hign : spIgnore r.sp = r.sp := by simp [spIgnore, hr2.ign.strm]
  obtain ⟨resume, heq, hres⟩ : ∃ resume, closePoll r cs g.st 0 c.env.mutex c.env.tr =
      closeTail r c.env.mutex g.st (closeBoundary r.sp resume c.env.tr) ∧
      (resume = true → r.sp.isRecordBoundary = false ∧ r.sp.raw.length < g.cap ∧ r.sp.g0 = 0 ∧ r.sp.g1 = 0 ∧
        c.env.tr.input ++ lost ≠ []) := by
    rcases hcs with rfl | ⟨rfl, hx⟩
    · refine ⟨false, ?_, fun hh => by cases hh⟩
      have := closePoll_start_tail r c.env.mutex c.env.tr g.st hwr
      rwa [hign] at this
    · exact ⟨true, closePoll_bound_tail r c.env.mutex c.env.tr g.st, fun _ => hx⟩
  rcases hcb : closeBoundary r.sp resume c.env.tr with ⟨sp', t', res⟩
  rw [hcb] at heq
  obtain ⟨hts, hwl, hend, hout⟩ := close_boundary_eof ok.ctx hb hem hr2 hres hcb
  exact aboundary_outTNF ok (sp0 := r.sp) (dO := dO) hph heq hts hwl hend hreq hmc hout hlk hwr hm hlog hrd hb hem hstop hev hsc

theorem aout_finishTNF {g : E2E.Cfg} {rd : ARead} {wr : Bool} (ok : AOKN g rd wr) {X lost : Bytes} {c : Conn} {r0 r' : AReq}
    {h0 : HState} {e2 : Run.Env} {O1 G dO : Bytes} (hph : c.phase = .handler r0 h0)
    (hw : WOutG g.p.id g.data g.st (g.L1 ++ O1) r' e2 (handlerPoll ((handlerFuel c.env r0 + scriptOf c)) r0 h0 c.env))
    (hts0 : TStep c.env.tr e2.tr) (hsg : e2.segs = c.env.segs)
    (hr2 : R2 g.p.id g.mc g.cap g.body r'.sp G (e2.tr.input ++ lost) dO)
    (hreq : r'.sp.request = g.p.request) (hmc : r'.sp.maxConns = g.mc)
    (hlk : r'.lock = .none) (hwr : r'.writeable = true) (hout : O1 ++ r'.sp.output = dO) (hrd : REvs g e2.tr)
    (hb : Ben c.env.tr) (hem : c.env.tr.endMode = .eof) (hstop : c.stop = false) (hev : Ev1 g c.env.tr)
    (hsc : c.scripts = g.more) :
    GRes3 (SAc g X lost) (AAc g lost) (FAc g lost) 3 c := by
  have hstep := C07.handler_step c r0 h0 hph
  rcases hhp : handlerPoll ((handlerFuel c.env r0 + scriptOf c)) r0 h0 c.env with ⟨r2, h2, e3, res⟩
  rw [hhp] at hstep hw
  obtain ⟨hr2', q1, q2, q3, q4⟩ := hw
  simp only at hr2' q1 q2 q3 q4
  subst hr2'
  have hts := hts0.trans q1
  rcases q4 with ⟨rfl, hwk, hans, hwg⟩ | ⟨rfl, hws, hmx, hlg⟩
  · have hstep' : stepConn c = .halt ⟨.handler r2 h2, e3, c.scripts, c.stop⟩ .pending := hstep
    refine Or.inl (Or.inl ⟨_, (Halts.now hstep').mono (by omega), ⟨hts.w, q3.trans hsg, rfl⟩, ⟨?_, hts.em.trans hem⟩, hwk,
      by show ans e3.tr < ans c.env.tr; have := hts0.ans_le; omega⟩)
    exact Or.inr (Or.inl ⟨r2, h2, O1, dO, rfl, hwg, ⟨G, by show R2 _ _ _ _ _ _ (e3.tr.input ++ lost) _; rw [q2]; exact hr2⟩,
      hreq, hmc, hlk, hwr, hout, hrd.step q1, hb.step hts, hstop, hev.step hts, hsc⟩)
  · have halive : (h2.writers.filter Option.isSome).length = 0 := by rw [hws]; rfl
    simp only [halive] at hstep
    have hstep' : stepConn c =
        .next ⟨.closing r2 .start g.st 0, e3.ev s!"HE(ok:{showStatus g.st})", c.scripts, c.stop⟩ := hstep
    have hts2 : TStep c.env.tr (e3.tr.ev s!"HE(ok:{showStatus g.st})") :=
      hts.trans (TStep.ev _ (by simp [isHS, toString_str]))
    have hcore := aclose_pollTNF ok (X := X) (lost := lost)
      (c := ⟨.closing r2 .start g.st 0, e3.ev s!"HE(ok:{showStatus g.st})", c.scripts, c.stop⟩) (G := G)
      (dO := dO) rfl (by show R2 _ _ _ _ r2.sp G (e3.tr.input ++ lost) dO; rw [q2]; exact hr2) (Or.inl rfl)
      hreq hmc hlk hwr hmx
      ⟨O1, by show (e3.tr.ev _).wlog = _; rw [Transport.ev_wlog, hlg]; rfl, hout⟩
      ((hrd.step q1).step (TStep.ev _ (by simp [isHS, toString_str]))) (hb.step hts2) (hts2.em.trans hem) hstop
      (hev.step hts2) hsc
    exact (GRes3.of_steps (Steps.one hstep') ⟨hts2.w, q3.trans hsg, rfl⟩ hcore).mono (by omega)

theorem hwa_pollTNF {g : E2E.Cfg} {rd : ARead} {wr : Bool} (ok : AOKN g rd wr) {X lost : Bytes} {c : Conn} {r : AReq}
    {h : HState} {O1 G dO : Bytes} (hph : c.phase = .handler r h)
    (hwg : HWriteG g.p.id g.data g.st (g.L1 ++ O1) h c.env)
    (hr2 : R2 g.p.id g.mc g.cap g.body r.sp G (c.env.tr.input ++ lost) dO)
    (hreq : r.sp.request = g.p.request) (hmc : r.sp.maxConns = g.mc)
    (hlk : r.lock = .none) (hwr : r.writeable = true) (hout : O1 ++ r.sp.output = dO) (hrd : REvs g c.env.tr)
    (hb : Ben c.env.tr) (hem : c.env.tr.endMode = .eof) (hstop : c.stop = false) (hev : Ev1 g c.env.tr)
    (hsc : c.scripts = g.more) :
    GRes3 (SAc g X lost) (AAc g lost) (FAc g lost) 3 c := by
  refine aout_finishTNF ok hph (write_phaseGN hwg hb ?_) (.refl _) rfl hr2 hreq hmc hlk hwr hout hrd hb hem hstop hev hsc
  have h1 := handlerFuel_ge c.env r
  have h2 := wcost_le (restOf h.sub g.data).length
  have h3 : scriptOf c = (restOf h.sub g.data).length + 1 + 2 := by
    rw [scriptOf_handler hph]
    obtain ⟨ops, sub, ws, pr⟩ := h
    have := hwg.ops
    simp only at this
    subst this
    simp [scriptCost, wscript, curCost_writeAll, opCost]
  omega

/-- **The first poll of the handler** on the cut wire, and what follows it in the same poll. -/
theorem afirstCNF {g : E2E.Cfg} {rd : ARead} {wr : Bool} (ok : AOKN g rd wr) {X lost : Bytes} (hcut : X ++ lost = g.X)
    (c : Conn) (hc : FirstCfg (cutX g X) c) (hem : c.env.tr.endMode = .eof) :
    GRes3 (SAc g X lost) (AAc g lost) (FAc g lost) 6 c := by
  obtain ⟨e1, hph, hlen, hwire, hlog, hm, hb, hstop, hev, hsc⟩ := hc
  have hrole : g.p.request.role = 2 := ok.role
  have hwr0 : (AReq.new (Str.Parser.fromParser g.cap g.p.request e1 g.mc)).writeable = true := by
    simp [AReq.new, Str.Parser.fromParser, hrole, inputStreams]
  have hwire' : e1 ++ (c.env.tr.input ++ lost) = g.X := by
    rw [← List.append_assoc]
    have : e1 ++ c.env.tr.input = X := hwire
    rw [this]; exact hcut
  have hr20 := r2_auth_startNF ok (input := c.env.tr.input ++ lost) hlen hwire'
  obtain ⟨f, hf⟩ : ∃ f, (handlerFuel c.env (AReq.new (Str.Parser.fromParser g.cap g.p.request e1 g.mc)) + scriptOf c) = f + 1 :=
    ⟨(handlerFuel c.env (AReq.new (Str.Parser.fromParser g.cap g.p.request e1 g.mc)) + scriptOf c) - 1, by
      have := handlerFuel_ge c.env (AReq.new (Str.Parser.fromParser g.cap g.p.request e1 g.mc)); omega⟩
  have hfge := handlerFuel_ge c.env (AReq.new (Str.Parser.fromParser g.cap g.p.request e1 g.mc))
  obtain ⟨r', e2, o, heqX, hts0, hin2, hwl2, hsg2, hm2, hevs, hr2, hout, hlk, hwr, hrq, hmc⟩ :=
    areadsT ok.ctx rd (r0 := AReq.new (Str.Parser.fromParser g.cap g.p.request e1 g.mc)) (e := c.env) (G := e1)
      (atail wr g.data g.st) f hr20 rfl rfl hwr0 hm
  have hph' : c.phase = .handler (AReq.new (Str.Parser.fromParser g.cap g.p.request e1 g.mc))
      { ops := rd.ops ++ atail wr g.data g.st, propagate := true } := by
    rw [← ok.hs]; exact hph
  have hcost : wr = true → wcost g.data.length ≤ scriptOf c := by
    intro hw
    subst hw
    have hwl := wcost_le g.data.length
    rw [scriptOf_handler hph', scriptCost_fresh]
    simp only [List.map_append, List.sum_append, atail, if_true, oscript, List.map_cons, List.sum_cons, opCost,
      List.map_nil, List.sum_nil]
    omega
  have hreq' : r'.sp.request = g.p.request := hrq
  have hmc' : r'.sp.maxConns = g.mc := hmc
  have hrd : REvs g e2.tr := by intro s hs; rw [ok.hrv] at hs; exact hevs s hs
  have hlog' : c.env.tr.wlog = g.L1 := hlog
  have hev' : Ev1 g c.env.tr := hev
  have hsc' : c.scripts = g.more := hsc
  cases wr with
  | true =>
    have hw := open_phaseA (data := g.data) (st := g.st) (Lb := g.L1 ++ []) (r := r') (e := e2) hwr hm2
      (by rw [hwl2, hlog', List.append_nil]) (hb.step hts0) (fuel := rd.fuel f)
      (by have := rd.fuel_ge f; have := hcost rfl; omega)
    have hid' : r'.sp.request.id = g.p.id := by rw [hreq']; rfl
    rw [hid', show ({ ops := oscript g.data g.st, propagate := true } : HState) =
      { ops := atail true g.data g.st, propagate := true } from rfl, ← heqX, ← hf] at hw
    exact (aout_finishTNF ok hph' hw hts0 hsg2 (G := e1) (dO := o) (by rw [hin2]; exact hr2) hreq' hmc' hlk hwr
      (by rw [hout]; rfl) hrd hb hem hstop hev' hsc').mono (by omega)
  | false =>
    have hdata := ok.hd rfl
    have hstep := C07.handler_step c _ _ hph'
    rw [hf, heqX] at hstep
    obtain ⟨f', hf'⟩ : ∃ f', rd.fuel f = f' + 1 := ⟨rd.fuel f - 1, by have := rd.fuel_ge f; omega⟩
    rw [hf'] at hstep
    have hret : handlerPoll (f' + 1) r' { ops := atail false g.data g.st, propagate := true } e2 =
        (r', { ops := [.ret g.st], sub := .fresh, writers := [], propagate := true }, e2, .done (.ok g.st)) :=
      hp_ret f' r' g.st [] .fresh [] true e2
    rw [hret] at hstep
    simp only [List.filter_nil, List.length_nil] at hstep
    have hstep1 : stepConn c = .next ⟨.closing r' .start g.st 0, e2.ev s!"HE(ok:{showStatus g.st})", c.scripts, c.stop⟩ :=
      hstep
    have hts2 : TStep c.env.tr (e2.tr.ev s!"HE(ok:{showStatus g.st})") :=
      hts0.trans (TStep.ev _ (by simp [isHS, toString_str]))
    have hD : g.D = [] := by unfold E2E.Cfg.D; rw [hdata]; rfl
    have hcore := aclose_pollTNF ok (X := X) (lost := lost)
      (c := ⟨.closing r' .start g.st 0, e2.ev s!"HE(ok:{showStatus g.st})", c.scripts, c.stop⟩) (G := e1) (dO := o)
      rfl (by show R2 _ _ _ _ r'.sp e1 (e2.tr.input ++ lost) o; rw [hin2]; exact hr2) (Or.inl rfl) hreq' hmc' hlk hwr hm2
      ⟨[], by show (e2.tr.ev _).wlog = _; rw [Transport.ev_wlog, hwl2, hlog', hD]; simp, by rw [hout]; rfl⟩
      (hrd.step (TStep.ev _ (by simp [isHS, toString_str]))) (hb.step hts2) (hts2.em.trans hem) hstop (hev'.step hts2) hsc'
    exact (GRes3.of_steps (Steps.one hstep1) ⟨hts2.w, hsg2, rfl⟩ hcore).mono (by omega)

theorem sac_pollNF {g : E2E.Cfg} {rd : ARead} {wr : Bool} (ok : AOKN g rd wr) {X lost : Bytes} (hcut : X ++ lost = g.X)
    {c : Conn} (h : SAc g X lost c) :
    GRes3 (SAc g X lost) (AAc g lost) (FAc g lost) (2 * c.env.tr.input.length + 15) c := by
  obtain ⟨h, hem⟩ := h
  rcases h with h |
    ⟨r, h, O1, dO, h1, h2, ⟨G, h3⟩, h4, h5, h6, h7, h8, h9, h10, h11, h12, h13⟩ |
    ⟨r, dO, O1, h1, ⟨G, h2⟩, h3, h4, h5, h6, h7, h8, h9, h10, h11, h12, h13, h14, h15, h16, h17, h18, h19⟩ |
    ⟨s1, s2, O1, O2, U', h1, h2, hU, h3, h4⟩
  · have fok : FOK (cutX g X) := ⟨ok.wf, ok.pairs, ok.noise⟩
    rcases fstage_first fok h with ⟨c', hh, hl, hS, hw, ha⟩ | ⟨k, c1, hk, hs, hl, hfirst⟩
    · exact Or.inl (Or.inl ⟨c', hh.mono (by omega), hl, ⟨Or.inl hS, hl.ts.em.trans hem⟩, hw, ha⟩)
    · exact (GRes3.of_steps hs hl (afirstCNF ok hcut c1 hfirst (hl.ts.em.trans hem))).mono (by omega)
  · exact (hwa_pollTNF ok h1 h2 h3 h4 h5 h6 h7 h8 h9 h10 hem h11 h12 h13).mono (by omega)
  · exact (aclose_pollTNF ok h1 h2 (Or.inr ⟨rfl, h10, h11, h12, h13, h14⟩) h3 h4 h5 h6 h7 ⟨O1, h8, h9⟩ h15 h16 hem
      h17 h18 h19).mono (by omega)
  · exact ((lstage_poll3 (g := gU g U' ((g.L1 ++ O1) ++ g.D ++ O2)) h4).imp
      (fun _ hl h => ⟨Or.inr (Or.inr (Or.inr ⟨s1, s2, O1, O2, U', h1, h2, hU, h3.wstep hl.ts, h⟩)), hl.ts.em.trans hem⟩)
      (fun _ hl h => ⟨s1, s2, O1, O2, U', h1, h2, hU, h3.wstep hl.ts, h⟩)
      (fun _ hl h => Or.inl ⟨s1, s2, O1, O2, U', h1, h2, hU, h3.wstep hl.ts, h⟩)).mono (by omega)

/-- `run_authC` without the size hypothesis. -/
theorem run_authCNF' {g : E2E.Cfg} {rd : ARead} {wr : Bool} (ok : AOKN g rd wr) {X lost Zd : Bytes} (hcut : X ++ lost = g.X)
    (hns : ∀ t1 t2, g.body = t1 ++ t2 → NoStuckW g.cap g.mc (serAll t2 ++ Zd))
    (hNF : ∀ t1 t2, g.body = t1 ++ t2 → ∀ F x, F ++ x ++ Zd = serAll t2 ++ Zd → (run .header F g.mc).st.isFinal = false)
    (c : Conn) (n0 fuel : Nat) (hst : E2E.FStage (cutX g X) c)
    (hem : c.env.tr.endMode = .eof)
    (hsegs : c.env.segs = []) (hf : ans c.env.tr + 1 ≤ fuel) :
    ∃ c'' fin, runTask fuel c n0 none = (c'', fin) ∧
      (GEnd g.cap g.mc (lost ++ Zd) g.more (g.hs0 + 1) (CIdx.OK g lost) (fun i => serAll i.t2 ++ Zd) (CIdx.L g)
          (fun _ => hsEvent g.p.request :: g.revs) .eof [] (ans c.env.tr) c'' fin ∨
       (fin = "RET" ∧ FAc g lost c'' ∧ c''.env.tr.endMode = .eof ∧ (∀ s ∈ ([] : List String), s ∈ c''.env.tr.events))) :=
  run_stages3' (cap24 g) (fun i hi => hns i.t1 i.t2 hi.1.1)
    (fun i hi F x hx => hNF i.t1 i.t2 hi.1.1 F (x ++ lost) (by
      rw [← hx]; simp only [List.append_assoc]))
    (fun _ _ h => h.cong)
    (fun _ h => (sac_pollNF ok hcut h).imp (fun _ _ h => h) (fun c1 _ h => by
      obtain ⟨s1, s2, O1, O2, U', hsp, hO, hU, hrd, haf⟩ := h
      obtain ⟨raw, hph, hw, hraw⟩ := haf.ph
      refine ⟨⟨s1, s2, O1, O2, U'⟩, ⟨⟨hsp, hO, hU⟩, haf.keep⟩, Or.inr ⟨raw, hph, ?_, hraw, ?_, haf.ben, haf.stop⟩,
        ⟨haf.sc, haf.mtx, haf.ev.1, fun s hs => ?_⟩⟩
      · have hw' : raw ++ c1.env.tr.input = U' := hw
        show raw ++ c1.env.tr.input ++ (lost ++ Zd) = serAll s2 ++ Zd
        rw [hw', ← List.append_assoc, hU]
      · rw [haf.log, gU_LU]; rfl
      · rcases List.mem_cons.1 hs with rfl | hs
        · exact haf.ev.2
        · exact hrd s hs) (fun _ _ h => h))
    .eof [] c n0 fuel ⟨Or.inl hst, hem⟩ hem (fun s hs => by cases hs) hsegs hf

end Fcgi.C12E
