import Fcgi.Proofs.E2EPrefixW
/-!
# The stream parser of an Authorizer request (no input stream: ignore mode from the start)

`parse_se`: a `parse` call in ignore mode reports `stream_end` (so `poll_input` returns at once).
`parse_ign_d`, `parse_r2d`: `parse_ign` / `parse_r2` of `Proofs/E2EIgnore`, `Proofs/E2EPrefixStr` for a call
with a destination buffer (`dest = Some n`: the handler's `read`): it parses what is buffered, queues the
replies, delivers nothing.
-/
namespace Fcgi.E2E
open Fcgi Fcgi.Req Fcgi.Str Fcgi.Async Fcgi.Run Fcgi.Spec

/-! ## `stream_end` stays set -/

def SE : Iter → Prop
  | .cont _ _ r => r.streamEnd = true
  | .stop _ r => r.streamEnd = true
  | _ => True

theorem parsePayload_se (p : Str.Parser) (dest : Option Nat) (r : Status) (h : r.streamEnd = true) :
    SE (parsePayload p dest r) := by
  unfold parsePayload
  cases hst : p.state <;> cases dest <;> simp only [hst] <;> (repeat' split) <;> simp_all [SE]

theorem parseHead_se (p : Str.Parser) (dest : Option Nat) (r : Status) (h : r.streamEnd = true) :
    SE (parseHead p dest r) := by
  by_cases hlen : p.raw.length < 8
  · rw [parseHead_short hlen]; exact h
  · obtain ⟨b0, b1, b2, b3, b4, b5, b6, b7, rest, hraw⟩ := cons8_of_len hlen
    simp only [parseHead, hraw]
    cases hfb : RecordHeader.fromBytes [b0, b1, b2, b3, b4, b5, b6, b7] with
    | none => trivial
    | some x =>
      cases x with
      | error e => cases e <;> first | trivial | exact h
      | ok head =>
        simp only
        repeat' split
        all_goals first | trivial | exact h | rfl

theorem padHead_se (p : Str.Parser) (dest : Option Nat) (r : Status) (h : r.streamEnd = true) :
    SE (padHead p dest r) := by
  unfold padHead
  split
  · split
    · exact h
    · exact parseHead_se _ _ _ h
  · exact parseHead_se _ _ _ h

theorem iter_se (p : Str.Parser) (dest : Option Nat) (r : Status) (h : r.streamEnd = true) :
    SE (iter p dest r) := by
  rw [iter_eq]
  by_cases hpay : p.pay > 0
  · simp only [hpay, if_true]
    have := parsePayload_se p dest r h
    cases hp : parsePayload p dest r with
    | cont q d r' => rw [hp] at this; exact padHead_se _ _ _ this
    | stop q r' => rw [hp] at this; exact this
    | err q e => trivial
    | panic s => trivial
  · simp only [hpay, if_false]
    exact padHead_se _ _ _ h

theorem loop_se : ∀ (n : Nat) (p : Str.Parser) (dest : Option Nat) (r : Status), p.raw.length ≤ n →
    r.streamEnd = true → ∀ st, (loop p dest r).2 = .ok st → st.streamEnd = true := by
  intro n
  induction n with
  | zero =>
    intro p dest r hn h st hst
    have he : p.raw = [] := List.length_eq_zero_iff.1 (by omega)
    rw [loop.eq_1] at hst
    simp only [he, List.isEmpty_nil, if_true] at hst
    cases hst; exact h
  | succ n ih =>
    intro p dest r hn h st hst
    rw [loop.eq_1] at hst
    by_cases he : p.raw.isEmpty
    · simp only [he, if_true] at hst
      cases hst; exact h
    · simp only [he, Bool.false_eq_true, if_false] at hst
      have hi := iter_se p dest r h
      cases hit : iter p dest r with
      | stop q r' => rw [hit] at hi hst; simp only at hst; cases hst; exact hi
      | err q e => rw [hit] at hst; cases hst
      | panic s => rw [hit] at hst; cases hst
      | cont q d r' =>
        rw [hit] at hi hst
        simp only at hst
        by_cases hlt : q.raw.length < p.raw.length
        · simp only [hlt, if_true] at hst
          exact ih q d r' (by omega) hi st hst
        · simp only [hlt, if_false] at hst
          cases hst

/-- **A `parse` call in ignore mode reports `stream_end`.** -/
theorem parse_se (p : Str.Parser) (new : Bytes) (dest : Option Nat) (hs : p.stream = none) (st : Status)
    (h : (p.parse new dest).2 = .ok st) : st.streamEnd = true := by
  unfold Str.Parser.parse at h
  split at h
  · cases h
  · split at h
    · cases h
    · exact loop_se _ _ dest _ (Nat.le_refl _) (by rw [hs]; rfl) st h

/-! ## A `parse` call with a destination buffer, in ignore mode -/

theorem parse_ign_d {id : Nat} {R : List Rec} (hR : RecsOK id R) {p : Str.Parser} {new fut : Bytes} (dest : Option Nat)
    (hpar : p.parsed = []) (h : Ign id R p (new ++ fut)) :
    (view p).parse new dest = (view (p.parse new dest).1, resv (p.parse new dest).2) ∧
      (Ign id R (p.parse new dest).1 fut ∨ ∃ s, (p.parse new dest).2 = .panic s) := by
  unfold Str.Parser.parse
  have e1 : (view p).parsed = p.parsed := rfl
  have e2 : (view p).cap = p.cap := rfl
  have e3 : (view p).freeStart = p.freeStart := rfl
  have hc : (dest.isSome && !p.parsed.isEmpty) = false := by rw [hpar]; simp
  simp only [e1, hc, Bool.false_eq_true, if_false, e2, e3]
  split
  · exact ⟨rfl, Or.inr ⟨_, rfl⟩⟩
  · have hf : Ign id R { p with raw := p.raw ++ new } fut :=
      ⟨h.strm, h.rid, by
        obtain ⟨c, pd, rs, a, b, c', d⟩ := h.pos
        exact ⟨c, pd, rs, a, b, by rw [List.append_assoc]; exact c', d⟩⟩
    have hs1 : p.stream.isNone = true := by rw [h.strm]; rfl
    have := loop_ign hR _ { p with raw := p.raw ++ new } fut dest
      { stream := 0, streamEnd := true, output := 0, delivered := [] } (Nat.le_refl _) hf
    rw [hs1]
    exact this

/-- **One `parse(new, Some(n))` call of an ignoring parser** (the `read` of an Authorizer's handler): it
parses what it is given, queues the replies, delivers nothing and reports `stream_end`. -/
theorem parse_r2d {id mc cap : Nat} {R : List Rec} (hc : R2Ctx id mc cap R) {sp : Str.Parser} {G new fut dO : Bytes}
    (n : Nat) (hi : R2 id mc cap R sp G (new ++ fut) dO) (hfree : new.length ≤ sp.free) :
    ∃ p' st o, sp.parse new (some n) = (p', .ok st) ∧ st.streamEnd = true ∧ st.stream = 0 ∧ st.delivered = [] ∧
      p'.output = sp.output ++ o ∧ p'.request = sp.request ∧ p'.maxConns = sp.maxConns ∧
      R2 id mc cap R p' (G ++ new) fut (dO ++ o) := by
  have hR := stdin_recsOK hc.recs
  obtain ⟨hv, hign⟩ := parse_ign_d hR (some n) hi.par hi.ign
  have hfree' : new.length ≤ (view sp).free := hfree
  have hpar' : (view sp).parsed = [] := hi.par
  have hpt := C03S.parse_total (view sp) new (some n) hi.sinv (Or.inr hpar') hfree'
  have hri : ∀ x, ∃ lost, _ := fun x =>
    parse_ri (E := Ev id mc) (fut := x) (p := view sp) (new := new) (dest := some n) hi.mt hi.sinv (Or.inr hpar') hfree'
  have hnow := hi.now hc
  have hcap : sp.freeStart ≤ sp.cap := hi.sinv.1
  cases hp : sp.parse new (some n) with
  | mk p1 res1 =>
    rw [hp] at hv hign
    simp only at hv hign
    rw [hv] at hpt
    cases res1 with
    | panic s => exact hpt.elim
    | err e =>
      exfalso
      obtain ⟨lost, _, _, _, hvd, _, _, hm⟩ := hri fut
      rw [hv] at hvd hm
      simp only [resv] at hvd hm
      obtain ⟨a, b, c⟩ := hm
      rw [a, b, ref_atStop c] at hvd
      have := hnow.2.2
      unfold Rem at this
      rw [← hvd] at this
      cases this
    | ok st =>
      have hign1 : Ign id R p1 fut := by
        rcases hign with h | ⟨s, hs⟩
        · exact h
        · cases hs
      simp only [resv] at hpt hv
      obtain ⟨hs', _, hcap', _, _, _, _⟩ := hpt
      obtain ⟨⟨o, ho, _⟩, _, hnn, _⟩ := C03S.counts_exact hcap (Or.inr hi.par) hfree hp
      obtain ⟨hpar1, _, hdl, _⟩ := hnn n rfl
      have hog : C03S.outGrowth (view sp) (.parse new (some n)) = o := by
        simp only [C03S.outGrowth, hv]
        show (view p1).output.drop (view sp).output.length = o
        rw [show (view p1).output = p1.output from rfl, show (view sp).output = sp.output from rfl, ho, List.drop_left]
      have hav : availOp (view sp) (.parse new (some n)) = st.delivered := by
        simp only [availOp, hv]
        rfl
      have hd0 : st.delivered = [] := by
        obtain ⟨lost, _, h1, _, _, _, _, _⟩ := hri fut
        rw [hv] at h1
        simp only at h1
        rw [hav] at h1
        have hc0 := hnow.1
        unfold Rem at hc0
        rw [hc0] at h1
        exact (List.append_eq_nil_iff.1 (List.append_eq_nil_iff.1 h1).1).1
      have hist' : ∀ x, (G ++ new) ++ x <+: serAll R →
          refWire (Ev id mc) ((G ++ new) ++ x) = (Rem (Ev id mc) (view p1) x).pre [] (dO ++ o) := by
        intro x hx
        obtain ⟨lost, _, h1, h2, h3, h4, _, hm⟩ := hri x
        rw [hv] at h1 h2 h3 h4 hm
        simp only at h1 h2 h3 h4 hm
        rw [hm.1, List.append_nil, hav, hd0, List.nil_append] at h1
        rw [hog] at h2
        rw [List.append_assoc] at hx ⊢
        rw [hi.hist (new ++ x) hx]
        apply RefOut.ext'
        · simp only [RefOut.pre_content, Rem, List.nil_append]; rw [← h1]
        · simp only [RefOut.pre_out, Rem, List.append_assoc]; rw [← h2]
        · simp only [RefOut.pre_verdict, Rem]; rw [h3]
        · simp only [RefOut.pre_unread, Rem]; rw [h4]
      have hmt' : Match (Ev id mc) (view p1) := by
        obtain ⟨_, hm', _⟩ := hri fut
        rw [hv] at hm'; exact hm'
      have hfr := parse_frame sp new (some n)
      rw [hp] at hfr
      refine ⟨p1, st, o, rfl, parse_se sp new (some n) hi.ign.strm st (by rw [hp]), ?_, hd0, ho, hfr.2.1, hfr.2.2.2.1,
        ⟨hign1, hmt', hs', (show p1.cap = sp.cap from hcap').trans hi.capK, hpar1,
          by rw [List.append_assoc]; exact hi.wire, hist'⟩⟩
      rw [← hdl, hd0]; rfl

end Fcgi.E2E
