import Fcgi.Proofs.E2EFilterAbort4Str
/-!
# End-to-end composition (C11) — a Filter whose handler never reads, aborted behind Data content

Handler `[.ret st]`, role 3; wire: Stdin records `g.R`, Data records `db` (content `g.content2`) and
noise, the request's `AbortRequest` record `a`, `g.body2`.  `close()`'s `writeable()` (`set_stream(Data)`,
`poll_input(None)`) returns `Ready` when a `parse` call has buffered Data content — the request is
writeable; `set_stream(None)` drops the content; `record_boundary()` runs the parser in ignore mode until
it stands between two records (`bloop_simA`): at the latest in front of the abort record, whose
`Err(AbortRequest)` the loop swallows —, full epilogue.  Or `poll_input(None)` fails with the abort error
(content and abort record in one `parse` call): swallowed, not writeable, bare `EndRequest`.
The outcome is existential in `full` and a split `db = d₁ ++ s₂` (`s₂ = []` unless `full`): `s₂`, the
abort record and `g.body2` are handed to the next request parser.
-/
namespace Fcgi.E2E
open Fcgi Fcgi.Req Fcgi.Str Fcgi.Async Fcgi.Run Fcgi.Spec Fcgi.C09E

/-- … and its framing stands inside the Data records -/
theorem pos_in_dataA {id mc : Nat} {R5 Rd : List Rec} (h5 : ∀ r ∈ R5, StdinRec id r) {K : RCtx} (hK : K.Aborted) {r : AReq}
    {G fut dC dO : Bytes} (hE : K.E = E8 id mc)
    (href : ∀ A', A' <:+ R5 → (refWire (E8 id mc) (serAll (A' ++ Rd))).content = K.C)
    (hi : C09E.RInvB K r G fut dC dO) (hd : dC ≠ [])
    (hpos : Pos (R5 ++ Rd) r.sp.raw r.sp.pay r.sp.pad fut) : Pos Rd r.sp.raw r.sp.pay r.sp.pad fut := by
  obtain ⟨c, pd, rs, hc, hpd, hw, hsuf⟩ := hpos
  rcases suffix_append_cases hsuf with h | ⟨A', hA, rfl⟩
  · exact ⟨c, pd, rs, hc, hpd, hw, h⟩
  · exfalso
    have hnow := (hi.nowA hK).1
    unfold Rem at hnow
    rw [hE, hw, ← hc, ← hpd, ref_body, ref_eq_refWire] at hnow
    simp only [RefOut.pre_content] at hnow
    rw [href A' hA] at hnow
    have hl := congrArg List.length hnow
    simp only [List.length_append] at hl
    have : 0 < dC.length := List.length_pos_iff.mpr hd
    omega

/-- **The switch.**  The Filter's `Request` inside `close()` after `writeable()` (`RInvB` for
`⟨id, 3, 8⟩` on the wire Stdin records ++ Data records, past the Stdin records, framed on the Data
records), `set_stream(None)`: the ignoring parser's view follows `⟨id, 1, 5⟩` on the Data bytes handed
to the parser so far; `P` = the replies owed for the Stdin records. -/
theorem r2a_of_switch {id mc cap : Nat} {R5 Rd : List Rec} (h5 : ∀ r ∈ R5, StdinRec id r)
    (hR : RecsOK1 id Rd) {K : RCtx} {r : AReq}
    {Gd fut dC dO : Bytes} (hE : K.E = E8 id mc) (hX : K.X = serAll R5 ++ serAll Rd) (hcap : K.cap = cap)
    (hi : C09E.RInvB K r (serAll R5 ++ Gd) fut dC dO) (hpos : Pos Rd r.sp.raw r.sp.pay r.sp.pad fut) :
    R2f id mc cap Rd (owedI id mc R5) (r.sp.switchTo none) Gd fut dO := by
  have hmt := hi.mt
  rw [hE] at hmt
  have hsinv := hi.sinv
  have hwire : Gd ++ fut = serAll Rd := by
    have := hi.wire
    rw [hX, List.append_assoc] at this
    exact List.append_cancel_left this
  refine ⟨⟨rfl, hmt.id, hpos⟩, ⟨hmt.id, rfl, rfl, hmt.mc, (by show 5 ∈ inputStreams 1; decide)⟩, ?_, hi.capK.trans hcap, rfl,
    hwire, ?_⟩
  · obtain ⟨h1, h2, h3, h4, _, h6⟩ := hsinv
    refine ⟨?_, h2, h3, ?_, Or.inr ⟨5, rfl, (by show 5 ∈ inputStreams 1; decide)⟩, h6⟩
    · simp only [Str.Parser.freeStart, view1, Str.Parser.switchTo, Str.Parser.discardStream, List.length_nil] at h1 ⊢
      omega
    · show match (if r.sp.state == .stream then SState.skip else r.sp.state) with | .values v => v < 8 | _ => True
      cases hst : r.sp.state with
      | values v => rw [hst] at h4; exact h4
      | stream => trivial
      | skip => trivial
  · intro x hx
    have hxf : x <+: fut := by
      rw [← hwire] at hx
      exact (List.prefix_append_right_inj Gd).1 hx
    have hclean0 : CleanW1 id 0 0 (Gd ++ x) := clean_recs1 id Rd hR _ hx
    have hclean1 : CleanW1 id r.sp.pay r.sp.pad (r.sp.raw ++ x) :=
      clean_pos1 hR hpos ((List.prefix_append_right_inj r.sp.raw).2 hxf)
    have h8 := hi.hist x
    rw [hE, List.append_assoc, refWire8_stdin id mc h5] at h8
    -- the two `⟨id,3,8⟩` references, and the view's
    have hA0 := ref_81 id mc hclean0 .skip
    have hA := ref_81 id mc hclean1 r.sp.state
    rw [ref_eq_refWire, show sw .skip = .skip from rfl, ref_eq_refWire] at hA0
    have hst : (view1 (r.sp.switchTo none)).state = sw r.sp.state := by
      show (if r.sp.state == .stream then SState.skip else r.sp.state) = _
      cases r.sp.state <;> rfl
    have hrem : Rem (E1 id mc) (view1 (r.sp.switchTo none)) x =
        ref (E1 id mc) (sw r.sp.state) r.sp.pay r.sp.pad (r.sp.raw ++ x) := by
      unfold Rem
      rw [hst]
      rfl
    rw [hrem]
    have hv := congrArg RefOut.verdict h8
    have hu := congrArg RefOut.unread h8
    have ho := congrArg RefOut.out h8
    simp only [RefOut.pre_verdict, RefOut.pre_unread, RefOut.pre_out, Rem] at hv hu ho
    rcases hA0 with ⟨a1, a2⟩ | ⟨a1, a2⟩ <;> rcases hA with ⟨b1, b2⟩ | ⟨b1, b2⟩
    · rw [a2, b2]
      simp only [RefOut.pre, List.nil_append]
      rw [ho, hu]
    · exact absurd (hv ▸ a1) b1
    · exact absurd (hv ▸ b1 : (refWire (E8 id mc) (Gd ++ x)).verdict = .more) a1
    · rw [a2, b2, RefOut.pre_pre, RefOut.pre_pre, hu]
      simp only [List.nil_append]
      rw [ho]


/-! ## The request -/

theorem body_data {id : Nat} (hid : id < 65536) {c : Bytes} {rs : List Rec} (h : Body id 8 c rs) :
    ∀ r ∈ rs, DataRec id r := by
  induction h with
  | nil => intro r hr; cases hr
  | noise r hn t ih =>
    intro x hx
    rcases List.mem_cons.1 hx with rfl | hx
    · exact ⟨hn.1, Or.inl hn⟩
    · exact ih x hx
  | chunk c pad res hc hp t ih =>
    intro x hx
    rcases List.mem_cons.1 hx with rfl | hx
    · exact ⟨⟨hid, hc.2, hp⟩, Or.inr ⟨rfl, rfl⟩⟩
    · exact ih x hx

/-- the records from the first Data record on: Data records `db`, the abort record, the rest -/
def Cfg.R4 (g : Cfg) (db : List Rec) (a : Rec) : List Rec := db ++ a :: g.body2

/-- The hypotheses: a Filter; `g.R` = its Stdin records (terminator included), `db` = Data records
(content `g.content2`) and noise, `a` = the request's `AbortRequest`, `g.body2` = what follows (no
record typed Stdin with the request's id: the proof views the ignoring parser as a Responder's);
handler `[.ret st]`. -/
structure FR4OK (g : Cfg) (db : List Rec) (a : Rec) : Prop where
  wf : WellFormedPreamble g.p g.recs
  role : g.p.role = 3
  pairs : ∀ q ∈ g.p.pairs, (NV.enc q).length ≤ alignedBufsize g.b
  noise : NoiseFits (alignedBufsize g.b) g.recs
  str : ∀ r ∈ g.R, StdinRec g.p.id r
  hf : NoiseFits (alignedBufsize g.b) g.R
  dbody : Body g.p.id 8 g.content2 db
  dfits : NoiseFits (alignedBufsize g.b) db
  ab : IsAbort g.p.id a
  hpost : ∀ r ∈ g.body2, r.WF ∧ ¬ (r.rtype.toNat = 5 ∧ r.id = g.p.id)
  hX : g.X = serAll g.R ++ serAll (g.R4 db a)
  hU : g.U = a.ser ++ serAll g.body2
  hs : g.hscript = [.ret g.st]

theorem FR4OK.fok {g : Cfg} {db : List Rec} {a : Rec} (ok : FR4OK g db a) : FOK g := ⟨ok.wf, ok.pairs, ok.noise⟩
theorem FR4OK.hid {g : Cfg} {db : List Rec} {a : Rec} (ok : FR4OK g db a) : g.p.id < 65536 := (pid_of_wf ok.wf).2
theorem FR4OK.data {g : Cfg} {db : List Rec} {a : Rec} (ok : FR4OK g db a) : ∀ r ∈ db, DataRec g.p.id r :=
  body_data ok.hid ok.dbody
theorem FR4OK.awf {g : Cfg} {db : List Rec} {a : Rec} (ok : FR4OK g db a) : a.WF := isAbort_wf ok.ab ok.hid

theorem FR4OK.ok1 {g : Cfg} {db : List Rec} {a : Rec} (ok : FR4OK g db a) : RecsOK1 g.p.id (g.R4 db a) := by
  intro r hr
  rcases List.mem_append.1 hr with hr | hr
  · exact data_recsOK1 ok.data r hr
  · rcases List.mem_cons.1 hr with rfl | hr
    · exact ⟨ok.awf, fun hx => by rw [ok.ab.1] at hx; exact absurd hx.1 (by decide)⟩
    · exact ok.hpost r hr

theorem FR4OK.wf4 {g : Cfg} {db : List Rec} {a : Rec} (ok : FR4OK g db a) : ∀ r ∈ g.R4 db a, r.WF :=
  fun r hr => (ok.ok1 r hr).1

theorem FR4OK.X4 {g : Cfg} {db : List Rec} {a : Rec} (ok : FR4OK g db a) :
    g.X = serAll (g.R ++ (db ++ [a])) ++ serAll g.body2 := by
  rw [ok.hX, Cfg.R4]
  simp only [C02.serAll_append, serAll_cons, C02.serAll_single, List.append_assoc, serAll_nil, List.append_nil]

/-- the Data stream as `writeable()` sees it from the start of Stdin, cut by the abort -/
def Cfg.K8w (g : Cfg) (db : List Rec) : RCtx :=
  ⟨E8 g.p.id g.mc, g.p.request, g.cap, g.X, g.content2,
    owedI g.p.id g.mc g.R ++ owedStream g.p.id 8 g.mc db, g.U⟩

theorem FR4OK.ref8 {g : Cfg} {db : List Rec} {a : Rec} (ok : FR4OK g db a) {A : List Rec}
    (hA : ∀ r ∈ A, StdinRec g.p.id r) (tail : Bytes) :
    refWire (E8 g.p.id g.mc) (serAll (A ++ (db ++ [a])) ++ tail) =
      ⟨g.content2, owedI g.p.id g.mc A ++ owedStream g.p.id 8 g.mc db, .err .abortRequest, a.ser ++ tail⟩ := by
  have hcls : rclass (E8 g.p.id g.mc) a = .abort := by
    simp [rclass, E8, ok.ab.1, ok.ab.2.1, RT.isInputStream, RT.abortRequest]
  have h2 := refWire_abort (E8 g.p.id g.mc) (Or.inr rfl) ok.hid ok.dbody a ok.awf hcls tail
  rw [C02.serAll_append, List.append_assoc, refWire8_stdin g.p.id g.mc hA, h2]
  simp only [RefOut.pre, List.nil_append]

theorem FR4OK.k8w {g : Cfg} {db : List Rec} {a : Rec} (ok : FR4OK g db a) : (g.K8w db).Aborted := by
  have hwf : ∀ r ∈ g.R ++ (db ++ [a]), r.WF := by
    intro r hr
    rcases List.mem_append.1 hr with hr | hr
    · exact (ok.str r hr).1
    · rcases List.mem_append.1 hr with hr | hr
      · exact (ok.data r hr).1
      · rw [List.mem_singleton.1 hr]; exact ok.awf
  refine ⟨?_, ?_, by have := cap24 g; show 8 ≤ g.cap; omega⟩
  · show refWire (E8 g.p.id g.mc) g.X = _
    rw [ok.X4, ok.ref8 ok.str]
    show _ = (⟨g.content2, _, _, g.U⟩ : RefOut)
    rw [ok.hU]
    rfl
  · intro G hG hv
    have hG' : G <+: serAll (g.R ++ (db ++ [a])) ++ serAll g.body2 := by rw [← ok.X4]; exact hG
    have hfull : (refWire (E8 g.p.id g.mc) (serAll (g.R ++ (db ++ [a])))).verdict ≠ .more := by
      have := ok.ref8 ok.str []
      rw [List.append_nil] at this
      rw [this]; intro h; cases h
    rcases prefix_append_cases hG' with ⟨e, rfl, _⟩ | ⟨t, _, hFt⟩
    · exfalso
      have hv' : (refWire (E8 g.p.id g.mc) (serAll (g.R ++ (db ++ [a])) ++ e)).verdict = .more := hv
      rw [ok.ref8 ok.str e] at hv'
      cases hv'
    · refine stream_fits (E8 g.p.id g.mc) _ hwf hfull
        (by show 8 ≤ alignedBufsize g.b; exact Nat.le_trans (by omega) (cap24 g)) ?_ G ⟨t, hFt⟩ hv
      intro r hr hg
      rcases List.mem_append.1 hr with hr | hr
      · exact ok.hf r hr hg
      · rcases List.mem_append.1 hr with hr | hr
        · exact ok.dfits r hr hg
        · rw [List.mem_singleton.1 hr] at hg
          exact absurd hg.1 (by rw [ok.ab.1]; decide)

/-- the `(5,1)`-view's reference behind any suffix of the Data records -/
theorem FR4OK.ref1 {g : Cfg} {db : List Rec} {a : Rec} (ok : FR4OK g db a) {A : List Rec}
    (hA : ∀ r ∈ A, DataRec g.p.id r) (tail : Bytes) :
    refWire (E1 g.p.id g.mc) (serAll (A ++ [a]) ++ tail) =
      ⟨[], owedI g.p.id g.mc A, .err .abortRequest, a.ser ++ tail⟩ := by
  have hcls : rclass (E1 g.p.id g.mc) a = .abort := by
    simp [rclass, E1, ok.ab.1, ok.ab.2.1, RT.isInputStream, RT.abortRequest]
  have hwf : ∀ r ∈ A ++ [a], r.WF := by
    intro r hr
    rcases List.mem_append.1 hr with hr | hr
    · exact (hA r hr).1
    · rw [List.mem_singleton.1 hr]; exact ok.awf
  have htl : refRun (E1 g.p.id g.mc) [a] = ⟨[], [], .abort 0⟩ := by simp only [refRun, hcls]
  rw [← ref_eq_refWire _ .skip, ref_serAll _ _ hwf tail .skip, refRun_view1 g.p.id g.mc A hA [a], htl]
  simp only [stop_add_abort, glue, List.append_nil, List.drop_left', C02.serAll_single]

theorem FR4OK.ctx {g : Cfg} {db : List Rec} {a : Rec} (ok : FR4OK g db a) :
    R2aCtx g.p.id g.mc g.cap (g.R4 db a) (owedI g.p.id g.mc db) g.U := by
  have hser : serAll (g.R4 db a) = serAll (db ++ [a]) ++ serAll g.body2 := by
    simp only [Cfg.R4, C02.serAll_append, serAll_cons, C02.serAll_single, List.append_assoc, serAll_nil,
      List.append_nil]
  have hwf : ∀ r ∈ db ++ [a], r.WF := by
    intro r hr
    rcases List.mem_append.1 hr with hr | hr
    · exact (ok.data r hr).1
    · rw [List.mem_singleton.1 hr]; exact ok.awf
  refine ⟨ok.ok1, by rw [hser, ok.ref1 ok.data, ok.hU], ?_, by have := cap24 g; show 8 ≤ g.cap; omega⟩
  intro G hG hv
  rw [hser] at hG
  have hfull : (refWire (E1 g.p.id g.mc) (serAll (db ++ [a]))).verdict ≠ .more := by
    have := ok.ref1 ok.data []
    rw [List.append_nil] at this
    rw [this]; intro h; cases h
  rcases prefix_append_cases hG with ⟨e, rfl, _⟩ | ⟨t, _, hFt⟩
  · exfalso
    rw [ok.ref1 ok.data e] at hv
    cases hv
  · refine stream_fits (E1 g.p.id g.mc) _ hwf hfull
      (by show 8 ≤ alignedBufsize g.b; exact Nat.le_trans (by omega) (cap24 g)) ?_ G ⟨t, hFt⟩ hv
    intro r hr hg
    rcases List.mem_append.1 hr with hr | hr
    · exact ok.dfits r hr hg
    · rw [List.mem_singleton.1 hr] at hg
      exact absurd hg.1 (by rw [ok.ab.1]; decide)

/-! ## Stages -/

/-- `g` with another left-over for the next request parser -/
def Cfg.withU (g : Cfg) (U' : Bytes) : Cfg := { g with U := U' }

/-- what is handed to the next request parser: the Data records `s₂` not consumed by
`record_boundary()`, the abort record, the rest -/
def Cfg.U4 (g : Cfg) (a : Rec) (s2 : List Rec) : Bytes := serAll (s2 ++ a :: g.body2)

/-- the epilogue: full for a writeable request -/
def Cfg.ep4 (g : Cfg) (full : Bool) : Bytes := if full then g.epi else g.epN

/-- the log when `close` is done; `d₁` = the Data records consumed -/
def Cfg.Lf4 (g : Cfg) (full : Bool) (d1 : List Rec) : Bytes :=
  g.L1 ++ owedI g.p.id g.mc (g.R ++ d1) ++ g.ep4 full

/-- `d₁` consumed, `s₂` left; a request that is not writeable has consumed them all -/
def Split4 (db : List Rec) (full : Bool) (d1 s2 : List Rec) : Prop := db = d1 ++ s2 ∧ (full = false → s2 = [])

def T4 (g : Cfg) (db : List Rec) (a : Rec) (c : Conn) : Prop :=
  ∃ full d1 s2, Split4 db full d1 s2 ∧ LE (g.withU (g.U4 a s2)) (g.Lf4 full d1) (g.ep4 full) c
def A4 (g : Cfg) (db : List Rec) (a : Rec) (c : Conn) : Prop :=
  ∃ full d1 s2, Split4 db full d1 s2 ∧ AfterE (g.withU (g.U4 a s2)) (g.Lf4 full d1) c
def F4 (g : Cfg) (db : List Rec) (a : Rec) (c : Conn) : Prop :=
  ∃ full d1 s2, Split4 db full d1 s2 ∧ FinE (g.withU (g.U4 a s2)) (g.Lf4 full d1) c

/-- `close`, suspended in `writeable()` -/
def W4 (g : Cfg) (db : List Rec) (a : Rec) (c : Conn) : Prop :=
  ∃ r dO, c.phase = .closing r .inWriteable g.st 0 ∧ RSt (g.K8w db) g.L1 [] r c.env.mutex c.env.tr [] dO ∧
    Pos (g.R ++ g.R4 db a) r.sp.raw r.sp.pay r.sp.pad c.env.tr.input ∧ r.writeable = false ∧
    Ben c.env.tr ∧ c.stop = false ∧ Ev1 g c.env.tr ∧ c.scripts = g.more

/-- `close`, suspended in the transport read of `record_boundary()` -/
def B4 (g : Cfg) (db : List Rec) (a : Rec) (c : Conn) : Prop :=
  ∃ r dO, c.phase = .closing r .inBoundary g.st 0 ∧
    (∃ G, R2f g.p.id g.mc g.cap (g.R4 db a) (owedI g.p.id g.mc g.R) r.sp G c.env.tr.input dO) ∧
    r.sp.request = g.p.request ∧ r.sp.maxConns = g.mc ∧ r.lock = .none ∧ r.writeable = true ∧
    c.env.mutex = none ∧ (∃ O1, c.env.tr.wlog = g.L1 ++ O1 ∧ O1 ++ r.sp.output = dO) ∧
    r.sp.isRecordBoundary = false ∧ r.sp.raw.length < g.cap ∧ r.sp.g0 = 0 ∧ r.sp.g1 = 0 ∧
    c.env.tr.input ≠ [] ∧ Ben c.env.tr ∧ c.stop = false ∧ Ev1 g c.env.tr ∧ c.scripts = g.more

def S4 (g : Cfg) (db : List Rec) (a : Rec) (c : Conn) : Prop :=
  FStage g c ∨ W4 g db a c ∨ B4 g db a c ∨ T4 g db a c

theorem S4.cong {g : Cfg} {db : List Rec} {a : Rec} {c c' : Conn} (h : S4 g db a c)
    (hph : c'.phase = c.phase) (hsc : c'.scripts = c.scripts) (hstop : c'.stop = c.stop)
    (hm : c'.env.mutex = c.env.mutex) (hs : TrSame c.env.tr c'.env.tr) : S4 g db a c' := by
  rcases h with h | ⟨r, dO, h1, h2, h3, h4, h5, h6, h7, h8⟩ |
    ⟨r, dO, h1, h2, h3, h4, h5, h6, h7, h8, h9, h10, h11, h12, h13, h14, h15, h16, h17⟩ | ⟨full, d1, s2, hsp, h⟩
  · exact Or.inl (h.cong hph hsc hstop hm hs)
  · exact Or.inr (Or.inl ⟨r, dO, hph.trans h1, h2.cong hm hs, by rw [hs.input]; exact h3, h4, hs.ben h5,
      hstop.trans h6, hs.ev1 h7, hsc.trans h8⟩)
  · exact Or.inr (Or.inr (Or.inl ⟨r, dO, hph.trans h1, by rw [hs.input]; exact h2, h3, h4, h5, h6, hm.trans h7,
      by rw [hs.wlog]; exact h8, h9, h10, h11, h12, by rw [hs.input]; exact h13, hs.ben h14, hstop.trans h15,
      hs.ev1 h16, hsc.trans h17⟩))
  · exact Or.inr (Or.inr (Or.inr ⟨full, d1, s2, hsp, h.cong hph hsc hstop hm hs⟩))

abbrev R4res (g : Cfg) (db : List Rec) (a : Rec) (N : Nat) (c : Conn) : Prop :=
  GRes3 (S4 g db a) (A4 g db a) (F4 g db a) N c

/-- **`close` past `record_boundary()`**: the parser `sp'` stands at a record boundary, `d₁` consumed. -/
theorem close4_out {g : Cfg} {db : List Rec} {a : Rec} (ok : FR4OK g db a) {c : Conn} {r r' : AReq} {cs : CloseSt}
    {sp' : Str.Parser} {t' : Transport} {full : Bool} {d1 s2 : List Rec} (hsp : Split4 db full d1 s2)
    (hph : c.phase = .closing r cs g.st 0)
    (heq : closePoll r cs g.st 0 c.env.mutex c.env.tr = closeTail r' none g.st (sp', t', .ready))
    (hts : TStep c.env.tr t') (hpay : sp'.pay = 0) (hpad : sp'.pad = 0)
    (hw : sp'.raw ++ t'.input = g.U4 a s2) (hreq : sp'.request = g.p.request) (hcap : sp'.cap = g.cap)
    (hmc : sp'.maxConns = g.mc) (hrl : sp'.raw.length ≤ g.cap)
    (hlk : r'.lock = .none) (hwr : r'.writeable = full)
    (hlog : ∃ O1, t'.wlog = g.L1 ++ O1 ∧ O1 ++ sp'.output = owedI g.p.id g.mc (g.R ++ d1))
    (hb : Ben c.env.tr) (hstop : c.stop = false) (hev : Ev1 g c.env.tr) (hsc : c.scripts = g.more) :
    R4res g db a 2 c := by
  have hepi : epilogueOf { r' with sp := sp' } g.st = g.ep4 full := by
    cases full with
    | true =>
      simp only [epilogueOf, hwr, if_true, Cfg.ep4, Cfg.epi]
      show makeRequestEpilogue sp'.request.id g.st (outputStreams sp'.request.role) = _
      rw [hreq]
      show makeRequestEpilogue g.p.id g.st (outputStreams g.p.role) = _
      rw [ok.role]; rfl
    | false =>
      simp only [epilogueOf, hwr, Bool.false_eq_true, if_false, Cfg.ep4, Cfg.epN]
      show makeRequestEpilogue sp'.request.id g.st [] = _
      rw [hreq]; rfl
  have heq' : closePoll r cs (g.withU (g.U4 a s2)).st 0 c.env.mutex c.env.tr =
      closeP4 { sp := sp', lock := .none, writeable := r'.writeable } none t'
        (.writeOut sp'.output (g.ep4 full)) := by
    show closePoll r cs g.st 0 c.env.mutex c.env.tr = _
    rw [heq, ← hepi]
    simp only [closeTail, closeP2Tail, closeP3_start, Nat.lt_irrefl, gt_iff_lt, if_false, hlk, lockDrop]
  have hce : CEndW (g.withU (g.U4 a s2)) { sp := sp', lock := .none, writeable := r'.writeable } t'.input :=
    ⟨hpay, hpad, hw, hreq, hcap, hmc, hrl⟩
  obtain ⟨O1, hl1, hl2⟩ := hlog
  have hlg : t'.wlog ++ sp'.output ++ g.ep4 full = g.Lf4 full d1 := by
    rw [hl1, List.append_assoc g.L1, hl2]; rfl
  exact (eclose_out (g := g.withU (g.U4 a s2)) (Lf := g.Lf4 full d1) (ep := g.ep4 full) hph heq' hts hce hlg hb hstop
      hev hsc).imp
    (fun _ _ h => Or.inr (Or.inr (Or.inr ⟨full, d1, s2, hsp, h⟩))) (fun _ _ h => ⟨full, d1, s2, hsp, h⟩)
    (fun _ _ h => ⟨full, d1, s2, hsp, h⟩)

theorem serAll_drop_le (rs : List Rec) (k : Nat) : (serAll (rs.drop k)).length ≤ (serAll rs).length := by
  have : serAll rs = serAll (rs.take k) ++ serAll (rs.drop k) := by
    rw [← C02.serAll_append, List.take_append_drop]
  rw [this, List.length_append]; omega

/-- **`record_boundary()` returned**: the rest of that poll of `close`. -/
theorem b4_out {g : Cfg} {db : List Rec} {a : Rec} (ok : FR4OK g db a) {c : Conn} {r r' : AReq} {cs : CloseSt}
    {sp0 sp' : Str.Parser} {t' : Transport} {res : ORes} {dO : Bytes}
    (hph : c.phase = .closing r cs g.st 0)
    (heq : closePoll r cs g.st 0 c.env.mutex c.env.tr = closeTail r' none g.st (sp', t', res))
    (hts : TStep c.env.tr t')
    (hend : (BEnda g.p.id g.mc g.cap (g.R4 db a) (owedI g.p.id g.mc g.R) sp0 sp' dO t' ∧
        ((res = .ready ∧ sp'.isRecordBoundary = true) ∨
         (res = .pending ∧ t'.woken = true ∧ ans t' < ans c.env.tr ∧ sp'.isRecordBoundary = false ∧
            sp'.raw.length < g.cap ∧ sp'.g0 = 0 ∧ sp'.g1 = 0 ∧ t'.input ≠ []))) ∨
      (res = .ready ∧ ∃ o, sp'.output = sp0.output ++ o ∧
        dO ++ o = owedI g.p.id g.mc g.R ++ owedI g.p.id g.mc db ∧ sp'.request = sp0.request ∧
        sp'.maxConns = sp0.maxConns ∧ sp'.cap = g.cap ∧ sp'.pay = 0 ∧ sp'.pad = 0 ∧ sp'.raw ++ t'.input = g.U ∧
        sp'.raw.length ≤ g.cap))
    (hreq : sp0.request = g.p.request) (hmc : sp0.maxConns = g.mc)
    (hlk : r'.lock = .none) (hwr : r'.writeable = true)
    (hlog : ∃ O1, t'.wlog = g.L1 ++ O1 ∧ O1 ++ sp0.output = dO)
    (hb : Ben c.env.tr) (hstop : c.stop = false) (hev : Ev1 g c.env.tr) (hsc : c.scripts = g.more) :
    R4res g db a 2 c := by
  obtain ⟨O1, hl1, hl2⟩ := hlog
  have hU0 : g.U = g.U4 a [] := by rw [ok.hU, Cfg.U4, List.nil_append, serAll_cons]
  rcases hend with ⟨⟨⟨o, G', ho, hr2⟩, hreq', hmc'⟩, hres⟩ | ⟨rfl, o, ho, hO, hreq', hmc', hcap', hpay, hpad, hw, hrl⟩
  · have hlog' : ∃ O1, t'.wlog = g.L1 ++ O1 ∧ O1 ++ sp'.output = dO ++ o :=
      ⟨O1, hl1, by rw [ho, ← List.append_assoc, hl2]⟩
    rcases hres with ⟨rfl, hbd⟩ | ⟨rfl, hwk, hans, hnb, hraw, hg0, hg1, hin⟩
    · -- at a record boundary: the split
      have hpay : sp'.pay = 0 ∧ sp'.pad = 0 := by
        simpa [Str.Parser.isRecordBoundary] using hbd
      obtain ⟨cc, pd, s2', hcc, hpd, hw, hsuf⟩ := hr2.ign.pos
      rw [hpay.1] at hcc
      rw [hpay.2] at hpd
      have hcc' : cc = [] := List.length_eq_zero_iff.1 hcc
      have hpd' : pd = [] := List.length_eq_zero_iff.1 hpd
      rw [hcc', hpd', List.nil_append, List.nil_append] at hw
      have hctx := ok.ctx
      obtain ⟨_, hout, hverd, hunr⟩ := r2a_now hctx hr2
      have hrem : Rem (E1 g.p.id g.mc) (view1 sp') t'.input = refWire (E1 g.p.id g.mc) (serAll s2') := by
        show ref (E1 g.p.id g.mc) (view1 sp').state (view1 sp').pay (view1 sp').pad ((view1 sp').raw ++ t'.input) = _
        have e1 : (view1 sp').pay = 0 := hpay.1
        have e2 : (view1 sp').pad = 0 := hpay.2
        have e3 : (view1 sp').raw = sp'.raw := rfl
        rw [e1, e2, e3, hw]
        exact ref_eq_refWire (E1 g.p.id g.mc) _ _
      rw [hrem] at hout hverd hunr
      have hrawlen : sp'.raw.length ≤ g.cap := by
        have := hr2.sinv.1
        have e : (view1 sp').freeStart = sp'.freeStart := rfl
        have e2 : (view1 sp').cap = sp'.cap := rfl
        rw [e, e2, hr2.capK] at this
        simp only [Str.Parser.freeStart] at this
        omega
      -- where the boundary lies
      have good : ∀ d1 s2, db = d1 ++ s2 → s2' = s2 ++ a :: g.body2 → R4res g db a 2 c := by
        intro d1 s2 hdb hs2
        have hs2d : ∀ r ∈ s2, DataRec g.p.id r := fun r hr => ok.data r (by rw [hdb]; exact List.mem_append_right _ hr)
        have href := ok.ref1 hs2d (serAll g.body2)
        have hser : serAll s2' = serAll (s2 ++ [a]) ++ serAll g.body2 := by
          rw [hs2]
          simp only [C02.serAll_append, serAll_cons, C02.serAll_single, List.append_assoc, serAll_nil, List.append_nil]
        rw [hser, href] at hout
        have hdO : dO ++ o = owedI g.p.id g.mc (g.R ++ d1) := by
          have e : owedI g.p.id g.mc g.R ++ owedI g.p.id g.mc db =
              owedI g.p.id g.mc (g.R ++ d1) ++ owedI g.p.id g.mc s2 := by
            rw [hdb]; simp [owedI, List.flatMap_append]
          rw [e] at hout
          exact List.append_cancel_right hout
        obtain ⟨O1', hl1', hl2'⟩ := hlog'
        exact close4_out ok (full := true) ⟨hdb, fun h => by cases h⟩ hph heq hts hpay.1 hpay.2
          (by rw [hw, hs2]; rfl) (hreq'.trans hreq) hr2.capK (hmc'.trans hmc) hrawlen hlk hwr
          ⟨O1', hl1', hl2'.trans hdO⟩ hb hstop hev hsc
      rcases suffix_append_cases (show s2' <:+ db ++ a :: g.body2 from hsuf) with h | ⟨A', ⟨d1, hd1⟩, hs2⟩
      · rcases List.suffix_cons_iff.1 h with h | h
        · exact good db [] (List.append_nil _).symm (by rw [h]; rfl)
        · -- the parser cannot have passed the abort record
          exfalso
          obtain ⟨pfx, hpfx⟩ := h
          have hwf2 : ∀ r ∈ s2', r.WF := fun r hr => (ok.hpost r (by rw [← hpfx]; exact List.mem_append_right _ hr)).1
          have hgl := ref_serAll (E1 g.p.id g.mc) s2' hwf2 [] .skip
          rw [List.append_nil, ref_eq_refWire] at hgl
          rw [hgl] at hverd hunr
          have hlen : (serAll s2').length < (g.U).length := by
            rw [ok.hU]
            have e : serAll g.body2 = serAll pfx ++ serAll s2' := by rw [← C02.serAll_append, hpfx]
            have h8 : 0 < a.ser.length := by simp [Rec.ser]
            rw [e]
            simp only [List.length_append]
            omega
          unfold glue at hverd hunr
          split at hverd
          · simp [ref] at hverd
          · cases hverd
          · rename_i k hk
            simp only [hk] at hunr
            have := serAll_drop_le s2' k
            have hl := congrArg List.length hunr
            simp only [List.append_nil] at hl
            omega
      · exact good d1 A' hd1.symm hs2
    · -- suspended in the read
      have hstep := C07.closing_step c r cs g.st 0 hph
      rw [heq] at hstep
      have hstep' : stepConn c = .halt (mkC0 c (.closing { r' with sp := sp' } .inBoundary g.st 0) t') .pending := hstep
      refine Or.inl (Or.inl ⟨_, (Halts.now hstep').mono (by omega), mkC0_link c _ hts, ?_, hwk, hans⟩)
      exact Or.inr (Or.inr (Or.inl ⟨{ r' with sp := sp' }, dO ++ o, rfl, ⟨G', hr2⟩, hreq'.trans hreq, hmc'.trans hmc,
        hlk, hwr, rfl, hlog', hnb, hraw, hg0, hg1, hin, hb.step hts, hstop, hev.step hts, hsc⟩))
  · -- the abort record was reached inside `record_boundary()`
    refine close4_out ok (full := true) (d1 := db) (s2 := []) ⟨(List.append_nil _).symm, fun h => by cases h⟩ hph heq hts
      hpay hpad (by rw [hw, hU0]) (hreq'.trans hreq) hcap' (hmc'.trans hmc) hrl hlk hwr ?_ hb hstop hev hsc
    refine ⟨O1, hl1, ?_⟩
    rw [ho, ← List.append_assoc, hl2, hO]
    simp [owedI, List.flatMap_append]

/-- a poll that resumes `close` inside `record_boundary()` -/
theorem b4_poll {g : Cfg} {db : List Rec} {a : Rec} (ok : FR4OK g db a) {c : Conn} {r : AReq} {dO : Bytes}
    (hph : c.phase = .closing r .inBoundary g.st 0)
    (hr2 : ∃ G, R2f g.p.id g.mc g.cap (g.R4 db a) (owedI g.p.id g.mc g.R) r.sp G c.env.tr.input dO)
    (hreq : r.sp.request = g.p.request) (hmc : r.sp.maxConns = g.mc)
    (hlk : r.lock = .none) (hwr : r.writeable = true) (hm : c.env.mutex = none)
    (hlog : ∃ O1, c.env.tr.wlog = g.L1 ++ O1 ∧ O1 ++ r.sp.output = dO)
    (hnb : r.sp.isRecordBoundary = false) (hraw : r.sp.raw.length < g.cap) (hg0 : r.sp.g0 = 0)
    (hg1 : r.sp.g1 = 0) (hin : c.env.tr.input ≠ [])
    (hb : Ben c.env.tr) (hstop : c.stop = false) (hev : Ev1 g c.env.tr) (hsc : c.scripts = g.more) :
    R4res g db a 2 c := by
  have hctx := ok.ctx
  obtain ⟨G, hr2⟩ := hr2
  have heq0 : closePoll r .inBoundary g.st 0 c.env.mutex c.env.tr =
      closeTail r none g.st (closeBoundary r.sp true c.env.tr) := by
    have := closePoll_bound_tail r c.env.mutex c.env.tr g.st
    rw [hm] at this ⊢
    exact this
  have hfree : r.sp.free = g.cap - r.sp.raw.length := by
    simp [Str.Parser.free, Str.Parser.freeStart, hr2.par, hr2.capK, hg0, hg1]
  have hfp : 0 < r.sp.free := by rw [hfree]; omega
  rcases hrd : c.env.tr.read r.sp.free with ⟨t1, x⟩
  cases x with
  | pending =>
    have hwl : t1.wlog = c.env.tr.wlog := by have := read_wlog c.env.tr r.sp.free; rwa [hrd] at this
    obtain ⟨hinp, hw | hw⟩ := read_pending hb hrd
    · have hcb : closeBoundary r.sp true c.env.tr = (r.sp, t1, .pending) := by simp [closeBoundary, hrd]
      rw [hcb] at heq0
      exact b4_out ok (sp0 := r.sp) (dO := dO) hph heq0 (read_tstep hrd)
        (Or.inl ⟨⟨⟨[], G, (List.append_nil _).symm, by rw [List.append_nil]; exact hr2.input hinp⟩, rfl, rfl⟩,
          Or.inr ⟨rfl, hw.1, hw.2, hnb, hraw, hg0, hg1, by rw [hinp]; exact hin⟩⟩) hreq hmc hlk hwr
        (by obtain ⟨O1, h1, h2⟩ := hlog; exact ⟨O1, hwl.trans h1, h2⟩) hb hstop hev hsc
    · exact absurd hw.1 hin
  | ready y =>
    cases y with
    | error e => exact (read_error hb hrd).elim
    | ok bs =>
      obtain ⟨hinp, hwl, hlen, hz⟩ := read_ok_ben hb hrd
      by_cases hbs : bs = []
      · rcases hz hbs with hz | hz
        · omega
        · exact absurd hz.1 hin
      · have hs1 := read_tstep hrd
        rcases hbl : boundaryLoop (t1.input.length + 2) r.sp bs t1 with ⟨sp', t', res⟩
        have hcb : closeBoundary r.sp true c.env.tr = (sp', t', res) := by
          cases bs with
          | nil => exact absurd rfl hbs
          | cons b0 bs' => simp [closeBoundary, hrd, hbl]
        rw [hcb] at heq0
        obtain ⟨q1, q2, q3⟩ := bloop_simA hctx _ _ bs t1 (hb.step hs1) (hr2.input (by rw [← hinp]))
          hlen (Nat.le_refl _) hbl
        refine b4_out ok (sp0 := r.sp) (dO := dO) hph heq0 (hs1.trans q1) ?_ hreq hmc
          hlk hwr (by obtain ⟨O1, h1, h2⟩ := hlog; exact ⟨O1, (q2.trans hwl).trans h1, h2⟩) hb hstop hev hsc
        rcases q3 with ⟨q3, q4⟩ | q5
        · refine Or.inl ⟨q3, ?_⟩
          rcases q4 with q4 | ⟨a1, b1, c1, d1⟩
          · exact Or.inl q4
          · exact Or.inr ⟨a1, b1, by have := hs1.ans_le; omega, d1⟩
        · exact Or.inr q5

/-- **One poll of `close` inside `writeable()`** (its first, or a resumed one). -/
theorem w4_poll {g : Cfg} {db : List Rec} {a : Rec} (ok : FR4OK g db a) {c : Conn} {r r1 : AReq} {cs : CloseSt}
    {dO : Bytes} (hph : c.phase = .closing r cs g.st 0)
    (hp1 : closeP1 r cs c.env.mutex c.env.tr = wTail (r1.pollInput none c.env.mutex c.env.tr))
    (hs : RSt (g.K8w db) g.L1 [] r1 c.env.mutex c.env.tr [] dO)
    (hpos : Pos (g.R ++ g.R4 db a) r1.sp.raw r1.sp.pay r1.sp.pad c.env.tr.input) (hnw : r1.writeable = false)
    (hb : Ben c.env.tr) (hstop : c.stop = false) (hev : Ev1 g c.env.tr) (hsc : c.scripts = g.more) :
    R4res g db a 2 c := by
  have hK := ok.k8w
  have hwfA : ∀ r ∈ g.R ++ g.R4 db a, r.WF := by
    intro r hr
    rcases List.mem_append.1 hr with hr | hr
    · exact (ok.str r hr).1
    · exact ok.wf4 r hr
  rcases hpi : r1.pollInput none c.env.mutex c.env.tr with ⟨r', m', t', res⟩
  obtain ⟨hts, hpost⟩ := pollInput_sim_noneA hK hb hs hpi
  rw [hnw] at hpost
  have hpar1 : r1.sp.parsed = [] := by obtain ⟨G, hi⟩ := hs.inv; exact hi.par
  have hpos' : (∀ s, res ≠ .panic s) → Pos (g.R ++ g.R4 db a) r'.sp.raw r'.sp.pay r'.sp.pad t'.input :=
    pollInput_pos_none hwfA hb hs.lk hs.mx hpar1 hpos hpi
  have hU0 : g.U = g.U4 a [] := by rw [ok.hU, Cfg.U4, List.nil_append, serAll_cons]
  rw [hpi] at hp1
  cases res with
  | pending =>
    obtain ⟨⟨dO', hs'⟩, hwk, hans, hw'⟩ := hpost
    have heq : closePoll r cs g.st 0 c.env.mutex c.env.tr = (r', .inWriteable, m', t', .pending) := by
      rw [closePoll_eq', hp1]; rfl
    have hstep := C07.closing_step c r cs g.st 0 hph
    rw [heq] at hstep
    have hstep' : stepConn c = .halt ⟨.closing r' .inWriteable g.st 0, ⟨t', m', c.env.segs⟩, c.scripts, c.stop⟩ .pending :=
      hstep
    exact Or.inl (Or.inl ⟨_, (Halts.now hstep').mono (by omega), ⟨hts.w, rfl, rfl⟩,
      Or.inr (Or.inl ⟨r', dO', rfl, hs', hpos' (fun s hx => nomatch hx), hw', hb.step hts, hstop, hev.step hts, hsc⟩),
      hwk, hans⟩)
  | ready k d =>
    obtain ⟨_, hk', hkpos, dO', hsB, hlk, hm', hfin⟩ := hpost
    subst hm'
    have hposR := hpos' (fun s hx => nomatch hx)
    obtain ⟨⟨G, hiB⟩, _, _, ⟨O1, hl1, hl2⟩⟩ := hsB
    have hwr : r'.writeable = true := hfin (by simp [RCtx.final, Cfg.K8w, E8, nextInputStream, RT.stdin])
    have hstrm : r'.sp.stream = some 8 := hiB.mt.strm
    have hreq : r'.sp.request = g.p.request := hiB.req
    have hp1' : closeP1 r cs c.env.mutex c.env.tr = .ok (r', none, t', .start) := hp1
    have hpar : r'.sp.parsed ≠ [] := by
      intro h0; rw [h0] at hk'; simp at hk'; omega
    have hXR : (g.K8w db).X = serAll g.R ++ serAll (g.R4 db a) := ok.hX
    obtain ⟨Gd, hG⟩ := past_stdin (mc := g.mc) ok.str rfl hXR hiB hpar
    have hposD := pos_in_dataA (mc := g.mc) ok.str hK rfl
      (fun A' hA => by
        have e : serAll (A' ++ g.R4 db a) = serAll (A' ++ (db ++ [a])) ++ serAll g.body2 := by
          simp only [Cfg.R4, C02.serAll_append, serAll_cons, C02.serAll_single, List.append_assoc, serAll_nil,
            List.append_nil]
        rw [e, ok.ref8 (fun r hr => ok.str r (hA.subset hr))]; rfl) hiB hpar hposR
    subst hG
    have hr2 := r2a_of_switch (cap := g.cap) ok.str ok.ok1 rfl hXR rfl hiB hposD
    have hctx := ok.ctx
    have hign : spIgnore r'.sp = r'.sp.switchTo none := by simp [spIgnore, hstrm]
    have heq0 := closePoll_w_tail g.st hp1'
    rw [hign] at heq0
    have hmc : (r'.sp.switchTo none).maxConns = g.mc := hiB.mt.mc
    have hlogt : ∃ O1, t'.wlog = g.L1 ++ O1 ∧ O1 ++ (r'.sp.switchTo none).output = dO' :=
      ⟨O1, hl1, by rw [show (r'.sp.switchTo none).output = r'.sp.output from rfl, hl2]; rfl⟩
    by_cases hbd : (r'.sp.switchTo none).isRecordBoundary = true
    · have hcb : closeBoundary (r'.sp.switchTo none) false t' = (r'.sp.switchTo none, t', .ready) := by
        simp [closeBoundary, hbd]
      rw [hcb] at heq0
      exact b4_out ok (sp0 := r'.sp.switchTo none) (dO := dO') hph heq0 hts
        (Or.inl ⟨⟨⟨[], Gd, (List.append_nil _).symm, by rw [List.append_nil]; exact hr2⟩, rfl, rfl⟩,
          Or.inl ⟨rfl, hbd⟩⟩) hreq hmc hlk hwr hlogt hb hstop hev hsc
    · have hbd' : (r'.sp.switchTo none).isRecordBoundary = false := by simpa using hbd
      rcases hbl : boundaryLoop (t'.input.length + 2) (r'.sp.switchTo none) [] t' with ⟨sp', t2, res⟩
      have hcb : closeBoundary (r'.sp.switchTo none) false t' = (sp', t2, res) := by
        simp [closeBoundary, hbd', hbl]
      rw [hcb] at heq0
      obtain ⟨q1, q2, q3⟩ := bloop_simA hctx _ _ [] t' (hb.step hts) (by rw [List.nil_append]; exact hr2)
        (Nat.zero_le _) (Nat.le_refl _) hbl
      refine b4_out ok (sp0 := r'.sp.switchTo none) (dO := dO') hph heq0 (hts.trans q1) ?_ hreq hmc
        hlk hwr (by obtain ⟨O1', h1, h2⟩ := hlogt; exact ⟨O1', q2.trans h1, h2⟩) hb hstop hev hsc
      rcases q3 with ⟨q3, q4⟩ | q5
      · refine Or.inl ⟨q3, ?_⟩
        rcases q4 with q4 | ⟨a1, b1, c1, d1⟩
        · exact Or.inl q4
        · exact Or.inr ⟨a1, b1, by have := hts.ans_le; omega, d1⟩
      · exact Or.inr q5
  | err e =>
    -- content and abort record in one `parse` call: the error is swallowed, the request is not writeable
    obtain ⟨rfl, rfl, hat, hw'⟩ := hpost
    have hp1' : closeP1 r cs c.env.mutex c.env.tr = .ok (r', none, t', .start) := hp1
    have heq0 := closePoll_w_tail g.st hp1'
    have hrb : (spIgnore r'.sp).isRecordBoundary = true := by
      simp [Str.Parser.isRecordBoundary, spIgnore_pay, spIgnore_pad, hat.pay, hat.pad]
    have hcb : closeBoundary (spIgnore r'.sp) false t' = (spIgnore r'.sp, t', .ready) := by
      simp [closeBoundary, hrb]
    rw [hcb] at heq0
    have hrawlen : r'.sp.raw.length ≤ g.cap := by
      have := hat.sinv.1
      rw [hat.capK] at this
      simp only [Str.Parser.freeStart] at this
      have e : (g.K8w db).cap = g.cap := rfl
      omega
    obtain ⟨O1, hl1, hl2⟩ := hat.log
    refine close4_out ok (full := false) (d1 := db) (s2 := []) ⟨(List.append_nil _).symm, fun _ => rfl⟩ hph heq0 hts
      (by rw [spIgnore_pay]; exact hat.pay) (by rw [spIgnore_pad]; exact hat.pad)
      (by rw [spIgnore_raw, ← hU0]; exact hat.wire) (by rw [spIgnore_request]; exact hat.req)
      (by rw [spIgnore_cap]; exact hat.capK) (by rw [spIgnore_mc]; exact hat.mcK)
      (by rw [spIgnore_raw]; exact hrawlen) hat.lock hw' ⟨O1, hl1, ?_⟩ hb hstop hev hsc
    rw [spIgnore_output, hl2]
    show [] ++ (owedI g.p.id g.mc g.R ++ owedStream g.p.id 8 g.mc db) = _
    rw [← owedI_eq_owedStream8]
    simp [owedI, List.flatMap_append]
  | panic s => exact hpost.elim

/-- the first poll of the handler `[.ret st]`: it returns, `close` starts `writeable()` -/
theorem filterR4_first {g : Cfg} {db : List Rec} {a : Rec} (ok : FR4OK g db a) (c : Conn) (hc : FirstCfg g c) :
    R4res g db a 6 c := by
  obtain ⟨e1, hph, hlen, hwire, hlog, hm, hb, hstop, hev, hsc⟩ := hc
  have hrole : g.p.request.role = 3 := ok.role
  have hstep := C07.handler_step c _ _ hph
  obtain ⟨f, hf⟩ : ∃ f, (handlerFuel c.env (AReq.new (Str.Parser.fromParser g.cap g.p.request e1 g.mc)) + scriptOf c) = f + 1 :=
    ⟨(handlerFuel c.env (AReq.new (Str.Parser.fromParser g.cap g.p.request e1 g.mc)) + scriptOf c) - 1, by have := handlerFuel_ge c.env (AReq.new (Str.Parser.fromParser g.cap g.p.request e1 g.mc)); omega⟩
  rw [ok.hs, hf, hp_ret] at hstep
  have hts2 : TStep c.env.tr (c.env.tr.ev s!"HE(ok:{showStatus g.st})") := TStep.ev _ (by simp [isHS, toString_str])
  have hstep' : stepConn c = .next ⟨.closing (AReq.new (Str.Parser.fromParser g.cap g.p.request e1 g.mc)) .start g.st 0,
      c.env.ev s!"HE(ok:{showStatus g.st})", c.scripts, c.stop⟩ := hstep
  have hwr : (AReq.new (Str.Parser.fromParser g.cap g.p.request e1 g.mc)).writeable = false := by
    simp [AReq.new, Str.Parser.fromParser, hrole, inputStreams]
  have hstrm : (Str.Parser.fromParser g.cap g.p.request e1 g.mc).stream = some 5 := by
    simp [Str.Parser.fromParser, hrole, nextInputStream, RT.stdin]
  have hset : (Str.Parser.fromParser g.cap g.p.request e1 g.mc).setStream
      (inputStreams (Str.Parser.fromParser g.cap g.p.request e1 g.mc).request.role).getLast? =
      .ok ((Str.Parser.fromParser g.cap g.p.request e1 g.mc).switchTo (some 8)) := by
    have e : (inputStreams (Str.Parser.fromParser g.cap g.p.request e1 g.mc).request.role).getLast? = some 8 := by
      show (inputStreams g.p.request.role).getLast? = some 8
      rw [hrole]; rfl
    rw [e, setStream_some_input _ (by decide) (by intro e he; rw [hstrm] at he; cases he; decide), hstrm]
    have hl : Later (Str.Parser.fromParser g.cap g.p.request e1 g.mc).request.role (some 5) 8 := by
      show Later g.p.request.role (some 5) 8
      rw [hrole]; exact later358
    simp [hl]
  have hsinv0 := Str.SInv_fromParser g.cap g.p.request e1 g.mc hlen ok.hid
  have hri : RInv (g.K8w db)
      ({ AReq.new (Str.Parser.fromParser g.cap g.p.request e1 g.mc) with
        sp := (Str.Parser.fromParser g.cap g.p.request e1 g.mc).switchTo (some 8) } : AReq)
      e1 c.env.tr.input [] [] := by
    refine ⟨⟨rfl, hrole, rfl, rfl, by show 8 ∈ inputStreams 3; decide⟩,
      SInv_switchTo hsinv0 (Or.inr ⟨8, rfl, by show 8 ∈ inputStreams g.p.request.role; rw [hrole]; decide⟩),
      rfl, rfl, rfl, hwire, fun x => ?_⟩
    rw [RefOut.pre_nil]
    exact (ref_eq_refWire _ _ _).symm
  have hcore := w4_poll ok
    (c := ⟨.closing (AReq.new (Str.Parser.fromParser g.cap g.p.request e1 g.mc)) .start g.st 0,
      c.env.ev s!"HE(ok:{showStatus g.st})", c.scripts, c.stop⟩) (dO := []) rfl
    (closeP1_first _ _ _ hwr hset)
    ⟨⟨e1, hri⟩, by show LockInv _ c.env.mutex; rw [hm]; exact lockInv_free rfl, Or.inl hm,
      ⟨[], by show c.env.tr.wlog = _; rw [hlog, List.append_nil], rfl⟩⟩
    ⟨[], [], g.R ++ g.R4 db a, rfl, rfl, by
      show e1 ++ c.env.tr.input = [] ++ ([] ++ serAll (g.R ++ g.R4 db a))
      rw [hwire, ok.hX, C02.serAll_append]; rfl, List.suffix_refl _⟩ hwr
    (hb.step hts2) hstop (hev.step hts2) hsc
  exact (GRes3.of_steps (Steps.one hstep') ⟨hts2.w, rfl, rfl⟩ hcore).mono (by omega)

theorem t4_poll {g : Cfg} {db : List Rec} {a : Rec} {c : Conn} (h : T4 g db a c) : R4res g db a 2 c := by
  obtain ⟨full, d1, s2, hsp, h⟩ := h
  exact (le_poll h).imp (fun _ _ h => Or.inr (Or.inr (Or.inr ⟨full, d1, s2, hsp, h⟩)))
    (fun _ _ h => ⟨full, d1, s2, hsp, h⟩) (fun _ _ h => ⟨full, d1, s2, hsp, h⟩)

theorem s4_poll {g : Cfg} {db : List Rec} {a : Rec} (ok : FR4OK g db a) {c : Conn} (h : S4 g db a c) :
    R4res g db a (2 * c.env.tr.input.length + 15) c := by
  rcases h with h | ⟨r, dO, h1, h2, h3, h4, h5, h6, h7, h8⟩ |
    ⟨r, dO, h1, h2, h3, h4, h5, h6, h7, h8, h9, h10, h11, h12, h13, h14, h15, h16, h17⟩ | h
  · exact fstage_poll3 ok.fok (fun _ h => Or.inl h) (filterR4_first ok) h
  · exact (w4_poll ok h1 (closeP1_resume _ _ _) h2 h3 h4 h5 h6 h7 h8).mono (by omega)
  · exact (b4_poll ok h1 h2 h3 h4 h5 h6 h7 h8 h9 h10 h11 h12 h13 h14 h15 h16 h17).mono (by omega)
  · exact (t4_poll h).mono (by omega)

/-- **The executor** for a Filter request whose handler never reads, aborted behind Data content. -/
theorem run_filterR4 {g : Cfg} {db : List Rec} {a : Rec} (ok : FR4OK g db a) {Z : Bytes}
    (hns : ∀ s2, s2 <:+ db → NoStuckW g.cap g.mc (g.U4 a s2 ++ Z))
    (hNF : ∀ s2, s2 <:+ db → ∀ F x, F ++ x ++ Z = g.U4 a s2 ++ Z → (run .header F g.mc).st.isFinal = false)
    (em : EndMode) (evs0 : List String) (c : Conn) (n0 fuel : Nat) (hst : FStage g c)
    (hem : c.env.tr.endMode = em) (hev0 : ∀ s ∈ evs0, s ∈ c.env.tr.events)
    (hsegs : c.env.segs = []) (hf : ans c.env.tr + 1 ≤ fuel) (hlen : 6 * c.env.tr.input.length + 26 ≤ 100000) :
    ∃ c'' fin, runTask fuel c n0 none = (c'', fin) ∧
      (GEnd g.cap g.mc Z g.more (g.hs0 + 1)
          (fun i : Bool × List Rec × List Rec => g.p.flags.toNat % 2 = 1 ∧ Split4 db i.1 i.2.1 i.2.2)
          (fun i => g.U4 a i.2.2 ++ Z) (fun i => g.Lf4 i.1 i.2.1) (fun _ => [hsEvent g.p.request])
          em evs0 (ans c.env.tr) c'' fin ∨
       (fin = "RET" ∧ F4 g db a c'' ∧ c''.env.tr.endMode = em ∧ (∀ s ∈ evs0, s ∈ c''.env.tr.events))) :=
  run_stages3 (cap24 g) (fun i hi => hns i.2.2 ⟨i.2.1, hi.2.1.symm⟩) (fun i hi => hNF i.2.2 ⟨i.2.1, hi.2.1.symm⟩)
    (fun _ _ h => h.cong)
    (fun _ h => (s4_poll ok h).imp (fun _ _ h => h) (fun c1 _ h => by
      obtain ⟨full, d1, s2, hsp, haf⟩ := h
      obtain ⟨raw, hph, hw, hraw⟩ := haf.ph
      exact ⟨(full, d1, s2), ⟨haf.keep, hsp⟩, Or.inr ⟨raw, hph, by rw [hw]; rfl, hraw, haf.log, haf.ben, haf.stop⟩,
        ⟨haf.sc, haf.mtx, haf.ev.1, fun s hs => by
          rw [List.mem_singleton.1 hs]; exact haf.ev.2⟩⟩) (fun _ _ h => h))
    em evs0 c n0 fuel (Or.inl hst) hem hev0 hsegs hf hlen

theorem FR4OK.front {g : Cfg} {db : List Rec} {a : Rec} (ok : FR4OK g db a) {us : List Rec}
    (hu : LeftOK (alignedBufsize g.b) us) : FR4OK (g.front us) db a :=
  ⟨wf_idle ok.wf us hu.1, ok.role, ok.pairs, noiseFits_app hu.2 ok.noise, ok.str, ok.hf, ok.dbody, ok.dfits, ok.ab,
    ok.hpost, ok.hX, ok.hU, ok.hs⟩

/-- the request (KEEP_CONN) started from any `StartAt` of a chain: it ends parked behind the Data records
`s₂` it did not consume, its abort record and what followed -/
theorem serve_filterR4_core {g : Cfg} {db : List Rec} {a : Rec} (ok : FR4OK g db a) (hk : g.p.flags.toNat % 2 = 1)
    {left : List Rec} (hleft : LeftOK (alignedBufsize g.b) left) {Z : Bytes}
    (hR : ∀ s2, s2 <:+ db → ∀ e ∈ s2 ++ a :: g.body2, IdleNoise e)
    (hZ : ∀ s2, s2 <:+ db → GoodNext g.cap g.mc (s2 ++ a :: g.body2) Z)
    {Lw : Bytes} {evs : List String} {A0 : Nat} {c : Conn} (n0 fuel : Nat)
    (hLw : Lw = g.L0 ++ idleOwed g.mc left)
    (hstart : StartAt g.cap g.mc left Lw ((g.hscript, true) :: g.more) g.hs0 evs A0 g.W c)
    (hf : A0 + 1 ≤ fuel) (hsize : 6 * g.W.length + 26 ≤ 100000) :
    ∃ c' full d1 s2, runTask fuel c n0 none = (c', "STALL") ∧ Split4 db full d1 s2 ∧
      Waiting g.cap g.mc (s2 ++ a :: g.body2) ((g.front left).Lf4 full d1 ++ idleOwed g.mc (s2 ++ a :: g.body2))
        g.more (g.hs0 + 1) (hsEvent g.p.request :: evs) A0 c' := by
  have okf := ok.front hleft
  obtain ⟨hst, hsg, hem, hans, hev, hin⟩ := fstage_of_startAt hleft hLw hstart
  obtain ⟨c', fin, hrun, hres⟩ :=
    run_filterR4 okf (Z := Z) (fun s2 hs2 => (hZ s2 hs2).1) (fun s2 hs2 => (hZ s2 hs2).2) .pend evs c n0 fuel hst hem hev
      hsg (by omega) (by rw [hin]; exact hsize)
  rcases hres with ⟨⟨full, d1, s2⟩, ⟨_, hsp⟩, hkp, hem', hev', hans', hsg', hend⟩ | ⟨_, ⟨full, d1, s2, _, hfu⟩, _, _⟩
  · have hsuf : s2 <:+ db := ⟨d1, hsp.1.symm⟩
    have hs2 := hR s2 hsuf
    rcases hend with ⟨rfl, hp⟩ | ⟨_, hfn⟩
    · obtain ⟨F, hF, hps, hph, hlg⟩ := hp.pst
      have hFe : F = serAll (s2 ++ a :: g.body2) := List.append_cancel_right hF
      subst hFe
      have hnf : (run .header (serAll (s2 ++ a :: g.body2)) g.mc).st.isFinal = false := (run_idle_out g.mc _ hs2).2.2
      have hob : (run .header (serAll (s2 ++ a :: g.body2)) (g.front left).mc).out = idleOwed g.mc (s2 ++ a :: g.body2) :=
        (run_idle_out g.mc _ hs2).1
      refine ⟨c', full, d1, s2, hrun, hsp, ⟨hph, hnf, hps.rem, hp.inp, by rw [hlg, hob],
        ⟨(g.front left).Lf4 full d1, by
          show _ = _ ++ (run .header (serAll (s2 ++ a :: g.body2)) (g.front left).mc).out
          rw [hob]⟩, hps.stop, hps.ben, hkp.sc, hkp.mx,
        hkp.hs, ?_, hsg', hem', by omega⟩⟩
      intro s hs
      rcases List.mem_cons.1 hs with rfl | hs
      · exact hkp.ev _ List.mem_cons_self
      · exact hev' s hs
    · rw [hfn.em] at hem'; cases hem'
  · have hnk := hfu.nokeep
    have e : ((g.front left).withU ((g.front left).U4 a s2)).p = g.p := rfl
    rw [e] at hnk
    omega

end Fcgi.E2E
