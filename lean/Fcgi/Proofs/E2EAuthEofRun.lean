import Fcgi.Proofs.E2EAuthEof
/-!
# C12 end to end — the run of an Authorizer request on a wire cut behind its preamble

The wire is `serAll recs ++ X` with `X ++ lost = serAll tail` (`lost` never arrives; end-of-file).
`parse_request` sees a complete preamble (`fstage_first`, reused as is: it does not look at what
follows the preamble); the handler `rd.ops ++ [ret st]` (`areadsT`: its read parses what is buffered
and returns `Ok(0)` — no transport read); `close()` (`aclose_eof_poll`).  `cut_run`: the executor —
the task either returns `RET` from `record_boundary()`'s `UnexpectedEof` with the log exactly as
the handler found it (`FinC`), or it reaches a poll in which `record_boundary()` succeeds
(`BdryAt`: the parser stands between two tail records; `close` goes on to the epilogue).
-/
namespace Fcgi.C12E
open Fcgi Fcgi.Req Fcgi.Str Fcgi.Async Fcgi.Run Fcgi.Spec Fcgi.E2E

/-- `apoll_read` for any framing future (no transport access happens) -/
theorem apoll_readT {id mc cap : Nat} {R : List Rec} (hc : R2Ctx id mc cap R) {r : AReq} {t : Transport}
    {G fut dO : Bytes} (n : Nat) (hr2 : R2 id mc cap R r.sp G fut dO) (hout : r.sp.output = [])
    (hlk : r.lock = .none) (hwr : r.writeable = true) :
    ∃ r' o, r.pollInput (some (n + 1)) none t = (r', none, t, .ready 0 []) ∧ r'.lock = .none ∧
      r'.writeable = true ∧ r'.sp.output = o ∧ r'.sp.request = r.sp.request ∧ r'.sp.maxConns = r.sp.maxConns ∧
      R2 id mc cap R r'.sp G fut (dO ++ o) := by
  have hpar := hr2.par
  obtain ⟨p', st, o, hp, hse, hs0, hd0, ho, hrq, hmc, hr2'⟩ :=
    parse_r2d hc (n + 1) (new := []) (by simpa using hr2) (Nat.zero_le _)
  refine ⟨{ r with sp := p' }, o, ?_, hlk, hwr, by show p'.output = o; rw [ho, hout]; rfl, hrq, hmc,
    by simpa using hr2'⟩
  have hpo : r.pollOutput none t = (r, none, t, .ready) := by simp [AReq.pollOutput, hout, hlk]
  simp only [AReq.pollInput, hpar, hpo]
  show inLoop (t.input.length + 1 + 1) r [] (some (n + 1)) none t = _
  simp only [inLoop, hp, hse, Bool.true_or, if_true, hwr, Bool.not_true, Bool.false_and, Bool.false_eq_true, if_false,
    hs0, hd0]

/-- `areads` for any framing future -/
theorem areadsT {id mc cap : Nat} {R : List Rec} (hc : R2Ctx id mc cap R) (rd : ARead) {r0 : AReq} {e : Run.Env}
    {G fut : Bytes} (tl : List HOp) (f : Nat)
    (hr2 : R2 id mc cap R r0.sp G fut []) (hout : r0.sp.output = [])
    (hlk : r0.lock = .none) (hwr : r0.writeable = true) (hm : e.mutex = none) :
    ∃ r' e2 o, handlerPoll (f + 1) r0 { ops := rd.ops ++ tl, propagate := true } e =
        handlerPoll (rd.fuel f) r' { ops := tl, propagate := true } e2 ∧
      TStep e.tr e2.tr ∧ e2.tr.input = e.tr.input ∧ e2.tr.wlog = e.tr.wlog ∧ e2.segs = e.segs ∧ e2.mutex = none ∧
      (∀ s ∈ rd.evs, s ∈ e2.tr.events) ∧
      R2 id mc cap R r'.sp G fut o ∧ r'.sp.output = o ∧ r'.lock = .none ∧ r'.writeable = true ∧
      r'.sp.request = r0.sp.request ∧ r'.sp.maxConns = r0.sp.maxConns := by
  cases rd with
  | none =>
    exact ⟨r0, e, [], rfl, .refl _, rfl, rfl, rfl, hm, (fun _ h => nomatch h), hr2, hout, hlk, hwr, rfl, rfl⟩
  | read n =>
    cases n with
    | zero =>
      refine ⟨r0, ({ e with mutex := e.mutex, tr := e.tr } : Run.Env).ev s!"r={0}:{hexOrDash []}", [], ?_,
        TStep.ev _ (by simp [isHS, toString_str]), rfl, rfl, rfl, hm, ?_, hr2, hout, hlk, hwr, rfl, rfl⟩
      · show handlerPoll (f + 1) r0 { ops := .read 0 :: tl, sub := .fresh, writers := [], propagate := true } e = _
        rw [hp_read, C09E.read_zero]
        rfl
      · intro s hs
        rw [List.mem_singleton.1 hs]
        show rdEvent [] ∈ e.tr.events ++ [_]
        simp [rdEvent]
    | succ n =>
      obtain ⟨r', o, hpi, a1, a2, a3, a4, a5, a6⟩ := apoll_readT hc (t := e.tr) n hr2 hout hlk hwr
      refine ⟨r', ({ e with mutex := none, tr := e.tr } : Run.Env).ev s!"r={0}:{hexOrDash []}", o, ?_,
        TStep.ev _ (by simp [isHS, toString_str]), rfl, rfl, rfl, rfl, ?_, by simpa using a6, a3, a1, a2, a4, a5⟩
      · show handlerPoll (f + 1) r0 { ops := .read (n + 1) :: tl, sub := .fresh, writers := [], propagate := true } e = _
        rw [hp_read, hm, hpi]
        rfl
      · intro s hs
        rw [List.mem_singleton.1 hs]
        show rdEvent [] ∈ e.tr.events ++ [_]
        simp [rdEvent]
  | all =>
    obtain ⟨r', o, hpi, a1, a2, a3, a4, a5, a6⟩ := apoll_readT hc (t := e.tr) 63 hr2 hout hlk hwr
    refine ⟨r', ({ e with mutex := none, tr := e.tr } : Run.Env).ev (rEvent []), o, ?_,
      TStep.ev _ (isHS_rEvent _), rfl, rfl, rfl, rfl, ?_, by simpa using a6, a3, a1, a2, a4, a5⟩
    · show handlerPoll (f + 1) r0 { ops := .readAll :: tl, sub := .fresh, writers := [], propagate := true } e = _
      rw [hp_readAll, hm, hpi]
      rfl
    · intro s hs
      rw [List.mem_singleton.1 hs]
      show rEvent [] ∈ e.tr.events ++ [_]
      simp

/-! ## Stages of the cut run -/

/-- the configuration with the wire behind the preamble cut to `X` -/
def cutX (g : E2E.Cfg) (X : Bytes) : E2E.Cfg := { g with X := X }

/-- in `close()`: about to be polled for the first time, or suspended in `record_boundary()`;
nothing has been written since the handler was started -/
def ACl (g : E2E.Cfg) (lost : Bytes) (c : Conn) : Prop :=
  AClose g.p.id g.mc g.cap g.body lost g.st c ∧ c.env.tr.wlog = g.L1 ∧ Ev1 g c.env.tr ∧ (∀ s ∈ g.revs, s ∈ c.env.tr.events) ∧
    c.scripts = g.more ∧ c.stop = false

/-- the task has returned out of `record_boundary()`'s `UnexpectedEof` -/
structure FinC (g : E2E.Cfg) (lost : Bytes) (c' : Conn) : Prop where
  phase : c'.phase = .finished
  /-- nothing written by `close`: no queued reply, no stream terminator, no `EndRequest` -/
  wlog : c'.env.tr.wlog = g.L1
  input : c'.env.tr.input = []
  lost : lost ≠ []
  ev : Ev1 g c'.env.tr
  reads : ∀ s ∈ g.revs, s ∈ c'.env.tr.events
  scripts : c'.scripts = g.more

/-- in the poll that starts in `c1`, `record_boundary()` returns `Ok`: the parser stands between two
records of the tail, and `close` goes on with phases 3 and 4 (the epilogue) -/
def BdryAt (g : E2E.Cfg) (lost : Bytes) (c1 : Conn) : Prop :=
  ACl g lost c1 ∧ ∃ r cs sp' t' G' dO', c1.phase = .closing r cs g.st 0 ∧
    closePoll r cs g.st 0 c1.env.mutex c1.env.tr = closeTail r c1.env.mutex g.st (sp', t', .ready) ∧
    sp'.isRecordBoundary = true ∧ t'.wlog = c1.env.tr.wlog ∧ TStep c1.env.tr t' ∧
    R2 g.p.id g.mc g.cap g.body sp' G' (t'.input ++ lost) dO'

def SC (g : E2E.Cfg) (X lost : Bytes) (c : Conn) : Prop := E2E.FStage (cutX g X) c ∨ ACl g lost c

theorem ACl.cong {g : E2E.Cfg} {lost : Bytes} {c c' : Conn} (h : ACl g lost c)
    (hph : c'.phase = c.phase) (hsc : c'.scripts = c.scripts) (hstop : c'.stop = c.stop)
    (hs : TrSame c.env.tr c'.env.tr) : ACl g lost c' := by
  obtain ⟨⟨r, cs, G, dO, h1, h2, h3, h4, h5⟩, hw, hev, hre, hscr, hst⟩ := h
  refine ⟨⟨r, cs, G, dO, hph.trans h1, by rw [hs.input]; exact h2, ?_, hs.ben h4, hs.em.trans h5⟩,
    hs.wlog.trans hw, hs.ev1 hev, fun s hx => hs.mem (hre s hx), hsc.trans hscr, hstop.trans hst⟩
  rcases h3 with h3 | ⟨a, b, c0, d, e, f⟩
  · exact Or.inl h3
  · exact Or.inr ⟨a, b, c0, d, e, by rw [hs.input]; exact f⟩

theorem SC.cong {g : E2E.Cfg} {X lost : Bytes} {c c' : Conn} (h : SC g X lost c)
    (hph : c'.phase = c.phase) (hsc : c'.scripts = c.scripts) (hstop : c'.stop = c.stop)
    (hm : c'.env.mutex = c.env.mutex) (hs : TrSame c.env.tr c'.env.tr) : SC g X lost c' := by
  rcases h with h | h
  · exact Or.inl (h.cong hph hsc hstop hm hs)
  · exact Or.inr (h.cong hph hsc hstop hs)

/-- **The first poll of the handler** on the cut wire: the read(s) return `Ok(0)`, the handler returns,
the task enters `close()`. -/
theorem afirstT {g : E2E.Cfg} {rd : ARead} (ok : AOK g rd false) {X lost : Bytes} (hcut : X ++ lost = g.X)
    (c : Conn) (hc : FirstCfg (cutX g X) c) (hem : c.env.tr.endMode = .eof) :
    ∃ c1, stepConn c = .next c1 ∧ Link c c1 ∧ ACl g lost c1 := by
  obtain ⟨e1, hph, hlen, hwire, hlog, hm, hb, hstop, hev, hsc⟩ := hc
  have hrole : g.p.request.role = 2 := ok.role
  have hwr0 : (AReq.new (Str.Parser.fromParser g.cap g.p.request e1 g.mc)).writeable = true := by
    simp [AReq.new, Str.Parser.fromParser, hrole, inputStreams]
  have hwire' : e1 ++ (c.env.tr.input ++ lost) = g.X := by
    rw [← List.append_assoc]
    have : e1 ++ c.env.tr.input = X := hwire
    rw [this]; exact hcut
  have hr20 := r2_auth_start ok (input := c.env.tr.input ++ lost) hlen hwire'
  obtain ⟨f, hf⟩ : ∃ f, (handlerFuel c.env (AReq.new (Str.Parser.fromParser g.cap g.p.request e1 g.mc)) + scriptOf c) = f + 1 :=
    ⟨(handlerFuel c.env (AReq.new (Str.Parser.fromParser g.cap g.p.request e1 g.mc)) + scriptOf c) - 1, by
      have := handlerFuel_ge c.env (AReq.new (Str.Parser.fromParser g.cap g.p.request e1 g.mc)); omega⟩
  obtain ⟨r', e2, o, heqX, hts0, hin2, hwl2, hsg2, hm2, hevs, hr2, hout, hlk, hwr, hrq, hmc⟩ :=
    areadsT ok.ctx rd (r0 := AReq.new (Str.Parser.fromParser g.cap g.p.request e1 g.mc)) (e := c.env) (G := e1)
      [.ret g.st] f hr20 rfl rfl hwr0 hm
  have hph' : c.phase = .handler (AReq.new (Str.Parser.fromParser g.cap g.p.request e1 g.mc))
      { ops := rd.ops ++ [.ret g.st], propagate := true } := by
    have hs := ok.hs
    have : g.hscript = rd.ops ++ [.ret g.st] := hs
    rw [← this]; exact hph
  have hstep := C07.handler_step c _ _ hph'
  rw [hf, heqX] at hstep
  obtain ⟨f', hf'⟩ : ∃ f', rd.fuel f = f' + 1 := ⟨rd.fuel f - 1, by
    have := rd.fuel_ge f
    have := handlerFuel_ge c.env (AReq.new (Str.Parser.fromParser g.cap g.p.request e1 g.mc)); omega⟩
  rw [hf'] at hstep
  have hret : handlerPoll (f' + 1) r' { ops := [.ret g.st], propagate := true } e2 =
      (r', { ops := [.ret g.st], sub := .fresh, writers := [], propagate := true }, e2, .done (.ok g.st)) :=
    hp_ret f' r' g.st [] .fresh [] true e2
  rw [hret] at hstep
  simp only [List.filter_nil, List.length_nil] at hstep
  have hstep1 : stepConn c = .next ⟨.closing r' .start g.st 0, e2.ev s!"HE(ok:{showStatus g.st})", c.scripts, c.stop⟩ :=
    hstep
  have hts2 : TStep c.env.tr (e2.tr.ev s!"HE(ok:{showStatus g.st})") :=
    hts0.trans (TStep.ev _ (by simp [isHS, toString_str]))
  refine ⟨_, hstep1, ⟨hts2.w, hsg2, rfl⟩, ⟨r', .start, e1, o, rfl, ?_, Or.inl ⟨rfl, hwr⟩, hb.step hts2,
    hts2.em.trans hem⟩, ?_, hev.step hts2, ?_, hsc, hstop⟩
  · show R2 _ _ _ _ r'.sp e1 (e2.tr.input ++ lost) o
    rw [hin2]; exact hr2
  · show (e2.tr.ev _).wlog = _
    rw [Transport.ev_wlog, hwl2]; exact hlog
  · intro s hs
    have : s ∈ rd.evs := by rw [← ok.hrv]; exact hs
    exact (TStep.ev _ (by simp [isHS, toString_str])).mem_events (hevs s this)

/-- one poll that starts in `close()` -/
theorem acl_poll {g : E2E.Cfg} {rd : ARead} (ok : AOK g rd false) {lost : Bytes} {c : Conn} (h : ACl g lost c) :
    (∃ c', Halts 1 c c' .pending ∧ Link c c' ∧ ACl g lost c' ∧ c'.env.tr.woken = true ∧
        ans c'.env.tr < ans c.env.tr) ∨
    (∃ c', Halts 1 c c' .finished ∧ Link c c' ∧ FinC g lost c') ∨ BdryAt g lost c := by
  obtain ⟨hcl, hw, hev, hre, hsc, hst⟩ := h
  rcases aclose_eof_poll ok.ctx hcl with ⟨c', hs, hcl', hfr, hwl, hwk, ha⟩ | ⟨c', hs, hph, hfr, hwl, hin, hl⟩ | hb
  · exact Or.inl ⟨c', Halts.now hs, ⟨hfr.ts.w, hfr.segs, hfr.stop⟩, ⟨hcl', hwl.trans hw, hev.step hfr.ts,
      fun s hx => hfr.ts.mem_events (hre s hx), hfr.scripts.trans hsc, hfr.stop.trans hst⟩, hwk, ha⟩
  · exact Or.inr (Or.inl ⟨c', Halts.now hs, ⟨hfr.ts.w, hfr.segs, hfr.stop⟩, ⟨hph, hwl.trans hw, hin, hl,
      hev.step hfr.ts, fun s hx => hfr.ts.mem_events (hre s hx), hfr.scripts.trans hsc⟩⟩)
  · exact Or.inr (Or.inr ⟨⟨hcl, hw, hev, hre, hsc, hst⟩, hb⟩)

/-- **One poll from any stage of the cut run.** -/
theorem sc_poll {g : E2E.Cfg} {rd : ARead} (ok : AOK g rd false) {X lost : Bytes} (hcut : X ++ lost = g.X)
    {c : Conn} (h : SC g X lost c) (hem : c.env.tr.endMode = .eof) :
    (∃ c', Halts (2 * c.env.tr.input.length + 11) c c' .pending ∧ Link c c' ∧ SC g X lost c' ∧
        c'.env.tr.woken = true ∧ ans c'.env.tr < ans c.env.tr) ∨
    (∃ c', Halts (2 * c.env.tr.input.length + 11) c c' .finished ∧ Link c c' ∧ FinC g lost c') ∨
    (∃ k c1, k ≤ 2 * c.env.tr.input.length + 11 ∧ Steps k c c1 ∧ Link c c1 ∧ BdryAt g lost c1) := by
  rcases h with h | h
  · have fok : FOK (cutX g X) := ⟨ok.wf, ok.pairs, ok.noise⟩
    rcases fstage_first fok h with ⟨c', hh, hl, hS, hw, ha⟩ | ⟨k, c1, hk, hs, hl, hfirst⟩
    · exact Or.inl ⟨c', hh.mono (by omega), hl, Or.inl hS, hw, ha⟩
    · obtain ⟨c2, hstep, hl2, hacl⟩ := afirstT ok hcut c1 hfirst (hl.ts.em.trans hem)
      have hs2 : Steps (k + 1) c c2 := hs.trans (Steps.one hstep)
      have hl02 := hl.trans hl2
      rcases acl_poll ok hacl with ⟨c', hh, hl3, hS, hw, ha⟩ | ⟨c', hh, hl3, hf⟩ | hb
      · refine Or.inl ⟨c', (hh.of_steps hs2).mono (by omega), hl02.trans hl3, Or.inr hS, hw, ?_⟩
        have := hl02.ts.ans_le; omega
      · exact Or.inr (Or.inl ⟨c', (hh.of_steps hs2).mono (by omega), hl02.trans hl3, hf⟩)
      · exact Or.inr (Or.inr ⟨k + 1, c2, by omega, hs2, hl02, hb⟩)
  · rcases acl_poll ok h with ⟨c', hh, hl3, hS, hw, ha⟩ | ⟨c', hh, hl3, hf⟩ | hb
    · exact Or.inl ⟨c', hh.mono (by omega), hl3, Or.inr hS, hw, ha⟩
    · exact Or.inr (Or.inl ⟨c', hh.mono (by omega), hl3, hf⟩)
    · exact Or.inr (Or.inr ⟨0, c, by omega, .refl _, Link.refl _, hb⟩)

/-- what the executor ends in on the cut wire -/
def CutEnd (g : E2E.Cfg) (X lost : Bytes) (fuel : Nat) (c : Conn) (n : Nat) : Prop :=
  (∃ c', runTask fuel c n none = (c', "RET") ∧ FinC g lost c') ∨
  (∃ c0 n0 f0 k c1, runTask fuel c n none = runTask (f0 + 1) c0 n0 none ∧ SC g X lost c0 ∧
      Steps k (prePoll c0 n0 none) c1 ∧ BdryAt g lost c1)

/-- **The executor on the cut wire.** -/
theorem cut_run {g : E2E.Cfg} {rd : ARead} (ok : AOK g rd false) {X lost : Bytes} (hcut : X ++ lost = g.X) :
    ∀ (A : Nat) (c : Conn) (n fuel : Nat), SC g X lost c → c.env.tr.endMode = .eof → c.env.segs = [] →
      ans c.env.tr ≤ A → A + 1 ≤ fuel → 2 * c.env.tr.input.length + 11 ≤ 100000 → CutEnd g X lost fuel c n := by
  intro A
  induction A with
  | zero =>
    intro c n fuel hst hem hsegs hA hf hlen
    obtain ⟨f, rfl⟩ : ∃ f, fuel = f + 1 := ⟨fuel - 1, by omega⟩
    obtain ⟨hsame, hph, hsc, hstop, hmx, hsg, hwk⟩ := prePoll_same c n hsegs
    have hst0 := hst.cong hph hsc hstop hmx hsame
    have hans0 : ans (prePoll c n none).env.tr = ans c.env.tr := by unfold ans; rw [hsame.rd, hsame.wr]
    rcases sc_poll ok hcut hst0 (hsame.em.trans hem) with ⟨c', hh, hl, hS, hw, ha⟩ | ⟨c', hh, hl, hfin⟩ | ⟨k, c1, hk, hs, hl, hb⟩
    · omega
    · have hpoll := hh.pollT (by rw [hsame.input]; exact hlen)
      refine Or.inl ⟨c', ?_, hfin⟩
      rw [runTask_succ, hpoll]
    · exact Or.inr ⟨c, n, f, k, c1, rfl, hst, hs, hb⟩
  | succ A ih =>
    intro c n fuel hst hem hsegs hA hf hlen
    obtain ⟨f, rfl⟩ : ∃ f, fuel = f + 1 := ⟨fuel - 1, by omega⟩
    obtain ⟨hsame, hph, hsc, hstop, hmx, hsg, hwk⟩ := prePoll_same c n hsegs
    have hst0 := hst.cong hph hsc hstop hmx hsame
    have hans0 : ans (prePoll c n none).env.tr = ans c.env.tr := by unfold ans; rw [hsame.rd, hsame.wr]
    rcases sc_poll ok hcut hst0 (hsame.em.trans hem) with ⟨c', hh, hl, hS, hw, ha⟩ | ⟨c', hh, hl, hfin⟩ | ⟨k, c1, hk, hs, hl, hb⟩
    · have hpoll := hh.pollT (by rw [hsame.input]; exact hlen)
      have hlen' : 2 * c'.env.tr.input.length + 11 ≤ 100000 := by
        have := hl.ts.inp
        rw [hsame.input] at this
        omega
      have hrec := ih c' (n + 1) f hS (hl.ts.em.trans (hsame.em.trans hem)) (hl.segs.trans hsg) (by omega) (by omega) hlen'
      have heq : runTask (f + 1) c n none = runTask f c' (n + 1) none := by
        rw [runTask_succ, hpoll]
        simp only [hw, if_true]
      rcases hrec with ⟨c2, h1, h2⟩ | ⟨c0, n0, f0, k, c1, h1, h2, h3, h4⟩
      · exact Or.inl ⟨c2, heq.trans h1, h2⟩
      · exact Or.inr ⟨c0, n0, f0, k, c1, heq.trans h1, h2, h3, h4⟩
    · have hpoll := hh.pollT (by rw [hsame.input]; exact hlen)
      refine Or.inl ⟨c', ?_, hfin⟩
      rw [runTask_succ, hpoll]
    · exact Or.inr ⟨c, n, f, k, c1, rfl, hst, hs, hb⟩

end Fcgi.C12E
