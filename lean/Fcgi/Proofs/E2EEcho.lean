import Fcgi.Proofs.E2EWriters4
/-!
# End-to-end composition (C07) — the ECHO Responder: writes interleaved with reads

The handler `open Stdout (and Stderr); loop { read 1 byte; if none → break; write_all(that byte) }; return st`.
The model's handler scripts have no data flow (`writeAll i data` has its data fixed in the script), so the echo
handler for a request with Stdin content `C` is the unrolling `echoOps C st`: for every byte `b` of `C`, in order,
`read(1); write_all([b])`, then one more `read(1)` (which must return 0), drop, return.  That the script IS an
echo — every `read` returns exactly the byte the script then writes — is part of what is proved (`PRead`: the
`k = 1, d = [b]` / `k = 0` case analysis), whatever the transport does.  `m = 1` is what makes the unrolling
independent of the transport: a `read` of up to 1 byte returns exactly 1 byte as long as content remains.

Restriction (forced by `Proofs/E2EStr`): the noise inside the Stdin stream owes NO reply (`K.O = []`).  `RSt` ties the
write log to `L ++ (replies written so far)`; with handler records between the replies the log is an interleaving,
which `RSt`/`pollInput_sim` cannot express (it needs the read simulation redone with a ledger for the log).  With
nothing owed the log base `L` can be re-based after every write (`RQ.rst`).

* `echoOps`, `echoW` (the writes, as a `WList` of `Proofs/E2EWriters`: one 1-byte Stdout write per content byte);
* `RQ` — the request between a `read` and the next (frozen while the writer works);
* `EOut` — how a poll of the echo loop ends: suspended in a `read`, suspended in a `write_all`, or done;
* `pread_nil`, `pwrite_of_pread`, `pread_all` — the loop, by induction on the content still to come.
-/
namespace Fcgi.E2E
open Fcgi Fcgi.Req Fcgi.Str Fcgi.Async Fcgi.Run Fcgi.Spec Fcgi.C09E

/-- the echo loop for the content still to come -/
def echoOps : Bytes → ExitStatus → List HOp
  | [], st => [.read 1, .dropW 0, .dropW 1, .ret st]
  | b :: bs, st => .read 1 :: .writeAll 0 [b] :: echoOps bs st

/-- the echo handler for a request with Stdin content `C` -/
def echoScript (C : Bytes) (st : ExitStatus) : List HOp := .open_ 6 :: .open_ 7 :: echoOps C st

/-- its writes: one 1-byte Stdout write per content byte, in order -/
def echoW (C : Bytes) : WList := C.map fun b => ((0 : _root_.Fin 2), [b])

theorem echoW_snoc (C : Bytes) (b : UInt8) : echoW (C ++ [b]) = echoW C ++ [((0 : _root_.Fin 2), [b])] := by
  simp [echoW]

theorem outOf_app (id : Nat) (W₁ W₂ : WList) : outOf id (W₁ ++ W₂) = outOf id W₁ ++ outOf id W₂ := by
  induction W₁ with
  | nil => rfl
  | cons x W ih => simp [outOf, ih, List.append_assoc]

theorem outOf_echo_snoc (id : Nat) (C : Bytes) (b : UInt8) :
    outOf id (echoW (C ++ [b])) = outOf id (echoW C) ++ streamRecords 6 id [b] := by
  rw [echoW_snoc, outOf_app]
  simp [outOf]

/-- the request between two `read`s: the stream invariant, no lock, nothing queued -/
structure RQ (K : RCtx) (r : AReq) (t : Transport) (dC : Bytes) : Prop where
  inv : ∃ G, RInv K r G t.input dC []
  lock : r.lock = .none
  out : r.sp.output = []

theorem RQ.rst {K : RCtx} {r : AReq} {t : Transport} {dC : Bytes} (h : RQ K r t dC) :
    RSt K t.wlog [] r none t dC [] :=
  ⟨h.inv, lockInv_free h.lock, Or.inl rfl, ⟨[], (List.append_nil _).symm, by rw [h.out]⟩⟩

theorem RQ.of_rst {K : RCtx} (hK : K.OK) (hO : K.O = []) {L : Bytes} {r : AReq} {m : MutexSt} {t : Transport}
    {dC dO : Bytes} (h : RSt K L [] r m t dC dO) (hl : r.lock = .none) :
    RQ K r t dC ∧ dO = [] ∧ t.wlog = L := by
  obtain ⟨⟨G, hi⟩, lk, mx, ⟨O1, l1, l2⟩⟩ := h
  have hdO : dO = [] := by
    have := (hi.now hK).2.1
    rw [hO] at this
    exact (List.append_eq_nil_iff.1 this.symm).1
  subst hdO
  have h2 : O1 = [] ∧ r.sp.output = [] := List.append_eq_nil_iff.1 (by simpa using l2)
  exact ⟨⟨⟨G, hi⟩, hl, h2.2⟩, rfl, by rw [l1, h2.1, List.append_nil]⟩

/-- how one poll of the echo loop ends -/
def EOut (K : RCtx) (id : Nat) (st : ExitStatus) (Lb : Bytes) (e : Run.Env)
    (out : AReq × HState × Run.Env × HRes) : Prop :=
  out.2.2.1.segs = e.segs ∧ TStep e.tr out.2.2.1.tr ∧
  ((out.2.2.2 = .pending ∧ out.2.2.1.tr.woken = true ∧ ans out.2.2.1.tr < ans e.tr ∧
      ∃ (dC rem : Bytes) (ws : _root_.Fin 2 → Writer), K.C = dC ++ rem ∧
        out.2.1 = { ops := echoOps rem st, sub := .fresh, writers := wtab ws, propagate := true } ∧
        RSt K (Lb ++ outOf id (echoW dC)) [] out.1 out.2.2.1.mutex out.2.2.1.tr dC [] ∧
        (∀ j : _root_.Fin 2, WIdle (6 + j.val) id (ws j))) ∨
   (out.2.2.2 = .pending ∧ out.2.2.1.tr.woken = true ∧ ans out.2.2.1.tr < ans e.tr ∧
      ∃ (dC : Bytes) (b : UInt8) (rem : Bytes) (ws : _root_.Fin 2 → Writer) (L sent : Bytes), K.C = dC ++ b :: rem ∧
        out.2.1.ops = .writeAll 0 [b] :: echoOps rem st ∧ out.2.1.propagate = true ∧ out.2.1.writers = wtab ws ∧
        WIdle 7 id (ws 1) ∧ WSt2 6 0 id (ws 0) out.2.2.1.mutex (restOf out.2.1.sub [b]) sent ∧
        out.2.2.1.tr.wlog = L ++ sent ∧
        L ++ streamRecords 6 id (restOf out.2.1.sub [b]) = Lb ++ outOf id (echoW (dC ++ [b])) ∧
        RQ K out.1 out.2.2.1.tr (dC ++ [b])) ∨
   (out.2.2.2 = .done (.ok st) ∧ out.2.1.writers = [none, none] ∧ out.2.2.1.mutex = none ∧
      out.2.2.1.tr.wlog = Lb ++ outOf id (echoW K.C) ∧ RQ K out.1 out.2.2.1.tr K.C ∧
      out.1.sp.pay = 0 ∧ out.1.sp.pad = 0 ∧ out.1.sp.raw ++ out.2.2.1.tr.input = K.U ∧
      (K.final = true → out.1.writeable = true)))

theorem EOut.after {K : RCtx} {id : Nat} {st : ExitStatus} {Lb : Bytes} {e e0 : Run.Env}
    {out : AReq × HState × Run.Env × HRes} (h : EOut K id st Lb e out)
    (hts : TStep e0.tr e.tr) (hsg : e.segs = e0.segs) : EOut K id st Lb e0 out := by
  obtain ⟨q0, q1, q2⟩ := h
  have := hts.ans_le
  refine ⟨q0.trans hsg, hts.trans q1, ?_⟩
  rcases q2 with ⟨a1, a2, a3, a4⟩ | ⟨a1, a2, a3, a4⟩ | a
  · exact Or.inl ⟨a1, a2, by omega, a4⟩
  · exact Or.inr (Or.inl ⟨a1, a2, by omega, a4⟩)
  · exact Or.inr (Or.inr a)

/-- the loop from a `read`, `rem` still to come -/
def PRead (K : RCtx) (id : Nat) (st : ExitStatus) (Lb : Bytes) (rem : Bytes) : Prop :=
  ∀ (fuel : Nat) (r : AReq) (e : Run.Env) (ws : _root_.Fin 2 → Writer) (dC : Bytes),
    K.C = dC ++ rem → 3 * rem.length + 8 ≤ fuel → Ben e.tr →
    RSt K (Lb ++ outOf id (echoW dC)) [] r e.mutex e.tr dC [] →
    (∀ j : _root_.Fin 2, WIdle (6 + j.val) id (ws j)) →
    EOut K id st Lb e (handlerPoll fuel r
      { ops := echoOps rem st, sub := .fresh, writers := wtab ws, propagate := true } e)

/-- the loop from inside the `write_all` of `b`, `rem` still to come -/
def PWrite (K : RCtx) (id : Nat) (st : ExitStatus) (Lb : Bytes) (b : UInt8) (rem : Bytes) : Prop :=
  ∀ (fuel : Nat) (r : AReq) (e : Run.Env) (ws : _root_.Fin 2 → Writer) (dC : Bytes) (sub : HSub) (L sent : Bytes),
    K.C = dC ++ b :: rem → wcost (restOf sub [b]).length + 3 * rem.length + 8 ≤ fuel → Ben e.tr → RQ K r e.tr (dC ++ [b]) →
    WIdle 7 id (ws 1) → WSt2 6 0 id (ws 0) e.mutex (restOf sub [b]) sent → e.tr.wlog = L ++ sent →
    L ++ streamRecords 6 id (restOf sub [b]) = Lb ++ outOf id (echoW (dC ++ [b])) →
    EOut K id st Lb e (handlerPoll fuel r
      { ops := .writeAll 0 [b] :: echoOps rem st, sub := sub, writers := wtab ws, propagate := true } e)

theorem pwrite_of_pread {K : RCtx} {id : Nat} {st : ExitStatus} {Lb : Bytes} {rem : Bytes}
    (hn : PRead K id st Lb rem) (b : UInt8) : PWrite K id st Lb b rem := by
  intro fuel r e ws dC sub L sent hC hf hb hrq hid1 hst hlog hL
  rcases writeAll_run2 (ty := 6) (me := 0) (id := id) r [b] (echoOps rem st) true (restOf sub [b]).length fuel sub
      (wtab ws) (ws 0) e L sent (by show 0 < 2; omega) (wtab_get ws 0) (Nat.le_refl _) (by omega) hb hst hlog with
    ⟨w', e', rd', L', sent', d1, d2, d3, d4, d5, d6, d7, d8, d9, d10, d11⟩ |
    ⟨w', e', f', d1, d2, d3, d4, d5, d6, d7, d8⟩
  · rw [d1]
    refine ⟨d9, d7, Or.inr (Or.inl ⟨rfl, d10, d11, dC, b, rem, (fun j => if j = 0 then w' else ws j), L', sent', hC, rfl, rfl,
      wtab_set ws 0 w', ?_, ?_, d3, ?_, ?_⟩)⟩
    · simp only [show ((1 : _root_.Fin 2) = 0) = False from by decide, if_false]; exact hid1
    · simp only [if_true]; exact d5
    · show L' ++ streamRecords 6 id rd' = _
      rw [d4]; exact hL
    · obtain ⟨G, hi⟩ := hrq.inv
      exact ⟨⟨G, by rw [d8]; exact hi⟩, hrq.lock, hrq.out⟩
  · rw [d1, show (wtab ws).set 0 (some w') = _ from wtab_set ws 0 w']
    have hs1 : TStep e.tr (e'.ev "W=ok").tr := d6.trans (TStep.ev _ (by decide))
    have hrq' : RQ K r (e'.ev "W=ok").tr (dC ++ [b]) := by
      obtain ⟨G, hi⟩ := hrq.inv
      exact ⟨⟨G, by show RInv K r G e'.tr.input _ _; rw [d7]; exact hi⟩, hrq.lock, hrq.out⟩
    have hlog' : (e'.ev "W=ok").tr.wlog = Lb ++ outOf id (echoW (dC ++ [b])) := by
      show (e'.tr.ev _).wlog = _
      rw [Transport.ev_wlog, d3, hL]
    have hrst := hrq'.rst
    rw [hlog'] at hrst
    have hm' : (e'.ev "W=ok").mutex = none := d5
    refine (hn f' r (e'.ev "W=ok") (fun j => if j = 0 then w' else ws j) (dC ++ [b])
      (by rw [hC]; simp) (by omega) (hb.step hs1) (by rw [hm']; exact hrst) ?_).after hs1 d8
    intro j
    by_cases hj : j = 0
    · subst hj; simp only [if_true]; exact d4
    · simp only [if_neg hj]
      match j, hj with
      | ⟨0, _⟩, h => exact absurd rfl h
      | ⟨1, _⟩, _ => exact hid1

theorem rst_dO {K : RCtx} (hK : K.OK) (hO : K.O = []) {L : Bytes} {r : AReq} {m : MutexSt} {t : Transport}
    {dC dO : Bytes} (h : RSt K L [] r m t dC dO) : dO = [] := by
  obtain ⟨⟨G, hi⟩, _⟩ := h
  have := (hi.now hK).2.1
  rw [hO] at this
  exact (List.append_eq_nil_iff.1 this.symm).1

theorem rst_prefix {K : RCtx} (hK : K.OK) {L : Bytes} {r : AReq} {m : MutexSt} {t : Transport}
    {dC dO : Bytes} (h : RSt K L [] r m t dC dO) : ∃ rest, K.C = dC ++ rest := by
  obtain ⟨⟨G, hi⟩, _⟩ := h
  exact ⟨_, (hi.now hK).1⟩

/-- one `read(1)` of the loop: pending, or exactly one byte (the next of the content), or 0 at the end -/
theorem read1_step {K : RCtx} (hK : K.OK) (hO : K.O = []) (h24 : 24 ≤ K.cap) {L : Bytes} {r : AReq} {e : Run.Env}
    {dC : Bytes} (hb : Ben e.tr) (hs : RSt K L [] r e.mutex e.tr dC [])
    {r1 : AReq} {m1 : MutexSt} {t1 : Transport} {res : IRes}
    (hpi : r.pollInput (some 1) e.mutex e.tr = (r1, m1, t1, res)) :
    TStep e.tr t1 ∧
    match res with
    | .pending => RSt K L [] r1 m1 t1 dC [] ∧ t1.woken = true ∧ ans t1 < ans e.tr
    | .ready k d => m1 = none ∧ k = d.length ∧ RQ K r1 t1 (dC ++ d) ∧ t1.wlog = L ∧ (K.final = true → r1.writeable = true) ∧
        ((∃ x, d = [x] ∧ ∃ rest, K.C = dC ++ x :: rest) ∨
         (d = [] ∧ dC = K.C ∧ r1.sp.pay = 0 ∧ r1.sp.pad = 0 ∧ r1.sp.raw ++ t1.input = K.U))
    | .err _ => False
    | .panic _ => False := by
  obtain ⟨s1, s4, _⟩ := pollInput_sim hK (by omega : 0 < 1) hb hs hpi
  refine ⟨s1, ?_⟩
  have hainv : AInv r := by
    obtain ⟨⟨G, hi⟩, _⟩ := hs
    exact ⟨hi.sinv, by rw [hi.capK]; exact h24⟩
  have hpo := (Async.pollInput_spec hainv hs.lk hpi).2.1
  cases res with
  | pending =>
    obtain ⟨⟨dO', hs'⟩, hw, ha⟩ := s4
    have := rst_dO hK hO hs'
    subst this
    exact ⟨hs', hw, ha⟩
  | err x => exact s4.elim
  | panic x => exact s4.elim
  | ready k d =>
    obtain ⟨hk, dO', hs', hlk, hm1, hor, _, hwr⟩ := s4
    obtain ⟨hrq, hdO, hwl⟩ := RQ.of_rst hK hO hs' hlk
    subst hdO
    obtain ⟨hdl, hk1⟩ := hpo.rsome 1 k d rfl rfl
    obtain ⟨rest, hrest⟩ := rst_prefix hK hs'
    refine ⟨hm1, hk, hrq, hwl, hwr, ?_⟩
    rcases hor with hpos | ⟨a1, _, a3, a4, a5⟩
    · left
      match d, hdl, hk with
      | [x], _, _ => exact ⟨x, rfl, rest, by rw [hrest]; simp⟩
      | [], h0, _ => simp at h0; omega
      | _ :: _ :: _, h2, _ => simp at h2; omega
    · match d, hdl with
      | [], _ => exact Or.inr ⟨rfl, by simpa using a1, a3, a4, a5⟩
      | [x], _ => exact Or.inl ⟨x, rfl, rest, by rw [hrest]; simp⟩
      | _ :: _ :: _, h2 => simp at h2; omega

theorem pread_all {K : RCtx} (hK : K.OK) (hO : K.O = []) (h24 : 24 ≤ K.cap) (id : Nat) (st : ExitStatus) (Lb : Bytes) :
    ∀ rem : Bytes, PRead K id st Lb rem := by
  intro rem
  induction rem with
  | nil =>
    intro fuel r e ws dC hC hf hb hs hid
    obtain ⟨f, rfl⟩ : ∃ f, fuel = f + 4 := ⟨fuel - 4, by omega⟩
    show EOut K id st Lb e (handlerPoll (f + 3 + 1) r
      { ops := .read 1 :: [.dropW 0, .dropW 1, .ret st], sub := .fresh, writers := wtab ws, propagate := true } e)
    rw [hp_read]
    rcases hpi : r.pollInput (some 1) e.mutex e.tr with ⟨r1, m1, t1, res⟩
    obtain ⟨s1, s2⟩ := read1_step hK hO h24 hb hs hpi
    cases res with
    | pending =>
      obtain ⟨hs', hw, ha⟩ := s2
      exact ⟨rfl, s1, Or.inl ⟨rfl, hw, ha, dC, [], ws, hC, rfl, hs', hid⟩⟩
    | err x => exact s2.elim
    | panic x => exact s2.elim
    | ready k d =>
      obtain ⟨hm1, hk, hrq, hwl, hwr, hcase⟩ := s2
      subst hm1
      rcases hcase with ⟨x, rfl, rest, hrest⟩ | ⟨rfl, hdc, hpay, hpad, hwire⟩
      · exfalso
        rw [hC, List.append_nil] at hrest
        have := congrArg List.length hrest
        simp at this
      · simp only
        rw [hp_dropW]
        simp only [wtab, List.getD_cons_zero, List.set_cons_zero]
        rw [hp_dropW]
        simp only [List.getD_cons_succ, List.getD_cons_zero, List.set_cons_succ, List.set_cons_zero]
        rw [hp_ret]
        have hs1 : TStep e.tr (t1.ev s!"r={k}:{hexOrDash ([] : Bytes)}") :=
          s1.trans (TStep.ev _ (by simp [isHS, toString_str]))
        rw [List.append_nil] at hrq
        refine ⟨rfl, hs1, Or.inr (Or.inr ⟨rfl, rfl, ?_, ?_, ?_, hpay, hpad, hwire, hwr⟩)⟩
        · show lockDrop (ws 1).lock (lockDrop (ws 0).lock none) = none
          rw [(hid 0).lock, (hid 1).lock]; rfl
        · show (t1.ev _).wlog = _
          rw [Transport.ev_wlog, hwl, hdc]
        · rw [← hdc]
          obtain ⟨G, hi⟩ := hrq.inv
          exact ⟨⟨G, hi⟩, hrq.lock, hrq.out⟩
  | cons b bs ih =>
    intro fuel r e ws dC hC hf hb hs hid
    obtain ⟨f, rfl⟩ : ∃ f, fuel = f + 1 := ⟨fuel - 1, by omega⟩
    show EOut K id st Lb e (handlerPoll (f + 1) r
      { ops := .read 1 :: .writeAll 0 [b] :: echoOps bs st, sub := .fresh, writers := wtab ws, propagate := true } e)
    rw [hp_read]
    rcases hpi : r.pollInput (some 1) e.mutex e.tr with ⟨r1, m1, t1, res⟩
    obtain ⟨s1, s2⟩ := read1_step hK hO h24 hb hs hpi
    cases res with
    | pending =>
      obtain ⟨hs', hw, ha⟩ := s2
      exact ⟨rfl, s1, Or.inl ⟨rfl, hw, ha, dC, b :: bs, ws, hC, rfl, hs', hid⟩⟩
    | err x => exact s2.elim
    | panic x => exact s2.elim
    | ready k d =>
      obtain ⟨hm1, hk, hrq, hwl, hwr, hcase⟩ := s2
      subst hm1
      rcases hcase with ⟨x, rfl, rest, hrest⟩ | ⟨rfl, hdc, _⟩
      · have hx : x = b := by
          rw [hC] at hrest
          have := List.append_cancel_left hrest
          exact (List.cons.inj this).1.symm
        subst hx
        simp only
        have hs1 : TStep e.tr (t1.ev s!"r={k}:{hexOrDash [x]}") :=
          s1.trans (TStep.ev _ (by simp [isHS, toString_str]))
        have hrq' : RQ K r1 (t1.ev s!"r={k}:{hexOrDash [x]}") (dC ++ [x]) := by
          obtain ⟨G, hi⟩ := hrq.inv
          exact ⟨⟨G, hi⟩, hrq.lock, hrq.out⟩
        refine ((pwrite_of_pread ih x) f r1 _ ws dC .fresh (Lb ++ outOf id (echoW dC)) [] hC (by
            show wcost ([x] : Bytes).length + 3 * bs.length + 8 ≤ f
            simp only [List.length_cons] at hf
            have : wcost ([x] : Bytes).length = 2 := by show wcost 1 = 2; decide
            omega) (hb.step hs1) hrq'
          (hid 1) ((hid 0).wst 0 [x]) (by
            show (t1.ev _).wlog = _
            rw [Transport.ev_wlog, hwl, List.append_nil]) (by
            show _ ++ streamRecords 6 id [x] = _
            rw [outOf_echo_snoc, List.append_assoc])).after hs1 rfl
      · exfalso
        rw [hdc] at hC
        have := congrArg List.length hC
        simp at this

/-! ## The connection level

The `close` part of `Proofs/E2EWriters` (`bdoneQW`, `tq_pollW`) for a stage set WITHOUT its write stage `HWqW` (whose
poll lemma has a fuel side condition on the whole output) — generated copies. -/

/-- the stages: those of the request's own part `S0`, then `close` -/
def SQE (g : Cfg) (W : WList) (Q : Transport → Prop) (S0 : Conn → Prop) (c : Conn) : Prop := S0 c ∨ TQW g W Q c

abbrev REq (g : Cfg) (W : WList) (Q : Transport → Prop) (S0 : Conn → Prop) (N : Nat) (c : Conn) : Prop :=
  GRes3 (SQE g W Q S0) (AQW g W Q) (FQW g W Q) N c

theorem SQE.cong {g : Cfg} {W : WList} {Q : Transport → Prop} {S0 : Conn → Prop} (hQ : MonoQ Q)
    (h0 : ∀ c c', S0 c → c'.phase = c.phase → c'.scripts = c.scripts → c'.stop = c.stop →
      c'.env.mutex = c.env.mutex → TrSame c.env.tr c'.env.tr → S0 c') {c c' : Conn} (h : SQE g W Q S0 c)
    (hph : c'.phase = c.phase) (hsc : c'.scripts = c.scripts) (hstop : c'.stop = c.stop)
    (hm : c'.env.mutex = c.env.mutex) (hs : TrSame c.env.tr c'.env.tr) : SQE g W Q S0 c' := by
  rcases h with h | ⟨O1, O2, h1, h2, h3⟩
  · exact Or.inl (h0 c c' h hph hsc hstop hm hs)
  · exact Or.inr ⟨O1, O2, h1, hQ.up _ _ (fun _ hx => hs.mem hx) h2, h3.cong hph hsc hstop hm hs⟩

theorem bdoneE {g : Cfg} {W : WList} {Q : Transport → Prop} {S0 : Conn → Prop} (hQ : MonoQ Q) {c : Conn} {r0 r : AReq} {h h' : HState} {e' : Run.Env}
    {O1 : Bytes} (hph : c.phase = .handler r0 h)
    (heq : handlerPoll ((handlerFuel c.env r0 + scriptOf c)) r0 h c.env = (r, h', e', .done (.ok g.st)))
    (hws : h'.writers = [none, none]) (hm : e'.mutex = none)
    (hlog : e'.tr.wlog = (g.L1 ++ O1) ++ outOf g.p.id W)
    (hfin : REnd g.N r e'.tr.input) (hO : O1 ++ r.sp.output = g.Ob) (hseen : Q e'.tr)
    (hts : TStep c.env.tr e'.tr) (hsg : e'.segs = c.env.segs)
    (hb : Ben c.env.tr) (hstop : c.stop = false) (hev : Ev1 g c.env.tr) (hsc : c.scripts = g.more) :
    REq g W Q S0 3 c := by
  have hstep := C07.handler_step c r0 h hph
  rw [heq] at hstep
  have halive : (h'.writers.filter Option.isSome).length = 0 := by rw [hws]; rfl
  simp only [halive] at hstep
  have hstep' : stepConn c =
      .next ⟨.closing r .start g.st 0, e'.ev s!"HE(ok:{showStatus g.st})", c.scripts, c.stop⟩ := hstep
  have hts2 : TStep c.env.tr (e'.tr.ev s!"HE(ok:{showStatus g.st})") :=
    hts.trans (TStep.ev _ (by simp [isHS, toString_str]))
  obtain ⟨heq2, hce⟩ := close_start_eq (g := g) (r := r) (t := e'.tr.ev s!"HE(ok:{showStatus g.st})") hfin
  have hcore := eclose_out (g := g) (Lf := g.Lw W O1 r.sp.output) (ep := g.epi)
    (c := ⟨.closing r .start g.st 0, e'.ev s!"HE(ok:{showStatus g.st})", c.scripts, c.stop⟩)
    (r := r) (r2 := closeReq r) (cs := .start) (rest := r.sp.output) rfl
    (by show closePoll r .start g.st 0 e'.mutex _ = closeP4 _ none _ _
        rw [hm]; exact heq2)
    (.refl _) hce
    (by show (e'.tr.ev _).wlog ++ r.sp.output ++ g.epi = g.Lw W O1 r.sp.output
        rw [Transport.ev_wlog, hlog]; simp only [Cfg.Lw, List.append_assoc])
    (hb.step hts2) hstop (hev.step hts2) hsc
  have hseen2 : Q (e'.tr.ev s!"HE(ok:{showStatus g.st})") :=
    hQ.up _ _ (fun _ hx => List.mem_append_left _ hx) hseen
  have hres : REq g W Q S0 2 ⟨.closing r .start g.st 0, e'.ev s!"HE(ok:{showStatus g.st})", c.scripts, c.stop⟩ := hcore.imp
    (fun c' hl x => Or.inr ⟨O1, r.sp.output, hO, hQ.up _ _ (fun _ hx => hl.ts.evm _ hx) hseen2, x⟩)
    (fun c' hl x => (⟨O1, r.sp.output, hO, hQ.up _ _ (fun _ hx => hl.ts.evm _ hx) hseen2, x⟩ : AQW g W Q c'))
    (fun c' hl x => (⟨O1, r.sp.output, hO, hQ.up _ _ (fun _ hx => hl.ts.evm _ hx) hseen2, x⟩ : FQW g W Q c'))
  exact (GRes3.of_steps (Steps.one hstep') ⟨hts2.w, hsg, rfl⟩ hres).mono (by omega)

theorem tq_pollE {g : Cfg} {W : WList} {Q : Transport → Prop} {S0 : Conn → Prop} (hQ : MonoQ Q) {c : Conn} (h : TQW g W Q c) :
    REq g W Q S0 2 c := by
  obtain ⟨O1, O2, hO, hseen, h⟩ := h
  exact (le_poll h).imp
    (fun c' hl x => Or.inr ⟨O1, O2, hO, hQ.up _ _ (fun _ hx => hl.ts.evm _ hx) hseen, x⟩)
    (fun c' hl x => ⟨O1, O2, hO, hQ.up _ _ (fun _ hx => hl.ts.evm _ hx) hseen, x⟩)
    (fun c' hl x => ⟨O1, O2, hO, hQ.up _ _ (fun _ hx => hl.ts.evm _ hx) hseen, x⟩)

/-- The hypotheses on the request. -/
structure EOK (g : Cfg) : Prop where
  wf : WellFormedPreamble g.p g.recs
  role : g.p.role = 1
  pairs : ∀ q ∈ g.p.pairs, (NV.enc q).length ≤ alignedBufsize g.b
  noise : NoiseFits (alignedBufsize g.b) g.recs
  hb : Body g.p.id 5 g.content g.body
  hf : NoiseFits (alignedBufsize g.b) g.body
  hp : g.pad.length < 256
  hX2 : g.X2 = []
  hX : g.X = serAll g.body ++ g.term.ser
  hU : g.U = g.term.ser
  hs : g.hscript = echoScript g.content g.st
  /-- the noise inside the Stdin stream owes no reply -/
  quiet : owedStream g.p.id 5 g.mc g.body = []

theorem EOK.fok {g : Cfg} (ok : EOK g) : FOK g := ⟨ok.wf, ok.pairs, ok.noise⟩
theorem EOK.hid {g : Cfg} (ok : EOK g) : g.p.id < 65536 := (pid_of_wf ok.wf).2
theorem EOK.kok {g : Cfg} (ok : EOK g) : g.K.OK := resp_kok ok.hid ok.hb ok.hf ok.hp ok.hX2 ok.hX
theorem EOK.kfin {g : Cfg} (ok : EOK g) : g.K.final = true := by
  simp [RCtx.final, Cfg.K, ok.role, nextInputStream, RT.stdin]
theorem EOK.kO {g : Cfg} (ok : EOK g) : g.K.O = [] := ok.quiet

def QT (_ : Transport) : Prop := True
theorem qt_mono : MonoQ QT := ⟨fun _ _ _ h => h⟩

/-- the handler at a `read` of the loop -/
def HER (g : Cfg) (c : Conn) : Prop :=
  ∃ (r : AReq) (dC rem : Bytes) (ws : _root_.Fin 2 → Writer), g.content = dC ++ rem ∧
    c.phase = .handler r { ops := echoOps rem g.st, sub := .fresh, writers := wtab ws, propagate := true } ∧
    RSt g.K (g.L1 ++ outOf g.p.id (echoW dC)) [] r c.env.mutex c.env.tr dC [] ∧
    (∀ j : _root_.Fin 2, WIdle (6 + j.val) g.p.id (ws j)) ∧
    Ben c.env.tr ∧ c.stop = false ∧ Ev1 g c.env.tr ∧ c.scripts = g.more

/-- the handler inside a `write_all` of the loop -/
def HEW (g : Cfg) (c : Conn) : Prop :=
  ∃ (r : AReq) (h : HState) (dC : Bytes) (b : UInt8) (rem : Bytes) (ws : _root_.Fin 2 → Writer) (L sent : Bytes),
    g.content = dC ++ b :: rem ∧ c.phase = .handler r h ∧
    h.ops = .writeAll 0 [b] :: echoOps rem g.st ∧ h.propagate = true ∧ h.writers = wtab ws ∧
    WIdle 7 g.p.id (ws 1) ∧ WSt2 6 0 g.p.id (ws 0) c.env.mutex (restOf h.sub [b]) sent ∧
    c.env.tr.wlog = L ++ sent ∧
    L ++ streamRecords 6 g.p.id (restOf h.sub [b]) = g.L1 ++ outOf g.p.id (echoW (dC ++ [b])) ∧
    RQ g.K r c.env.tr (dC ++ [b]) ∧
    Ben c.env.tr ∧ c.stop = false ∧ Ev1 g c.env.tr ∧ c.scripts = g.more

def S0E (g : Cfg) (c : Conn) : Prop := FStage g c ∨ HER g c ∨ HEW g c
abbrev SEc (g : Cfg) : Conn → Prop := SQE g (echoW g.content) QT (S0E g)
abbrev RE (g : Cfg) (N : Nat) (c : Conn) : Prop := REq g (echoW g.content) QT (S0E g) N c

theorem S0E.cong {g : Cfg} (c c' : Conn) (h : S0E g c)
    (hph : c'.phase = c.phase) (hsc : c'.scripts = c.scripts) (hstop : c'.stop = c.stop)
    (hm : c'.env.mutex = c.env.mutex) (hs : TrSame c.env.tr c'.env.tr) : S0E g c' := by
  rcases h with h | ⟨r, dC, rem, ws, h0, h1, h2, h3, h4, h5, h6, h7⟩ |
    ⟨r, h, dC, b, rem, ws, L, sent, h0, h1, a1, a2, a3, a4, a5, a6, a7, ⟨⟨G, hi⟩, q2, q3⟩, h4, h5, h6, h7⟩
  · exact Or.inl (h.cong hph hsc hstop hm hs)
  · exact Or.inr (Or.inl ⟨r, dC, rem, ws, h0, hph.trans h1, h2.cong hm hs, h3, hs.ben h4, hstop.trans h5, hs.ev1 h6,
      hsc.trans h7⟩)
  · exact Or.inr (Or.inr ⟨r, h, dC, b, rem, ws, L, sent, h0, hph.trans h1, a1, a2, a3, a4, by rw [hm]; exact a5,
      by rw [hs.wlog]; exact a6, a7, ⟨⟨G, by rw [hs.input]; exact hi⟩, q2, q3⟩, hs.ben h4, hstop.trans h5, hs.ev1 h6,
      hsc.trans h7⟩)

theorem scriptCost_echo (rem : Bytes) (st : ExitStatus) (ws : List (Option Writer)) (pr : Bool) :
    scriptCost { ops := echoOps rem st, sub := .fresh, writers := ws, propagate := pr } = 3 * rem.length + 4 := by
  rw [scriptCost_fresh]
  induction rem with
  | nil => rfl
  | cons b bs ih =>
    simp only [echoOps, List.map_cons, List.sum_cons, List.length_cons] at ih ⊢
    simp only [opCost, List.length_cons, List.length_nil] at ih ⊢
    omega

theorem wcost_le_cur (sub : HSub) (b : UInt8) : wcost (restOf sub [b]).length ≤ curCost sub (.writeAll 0 [b]) := by
  cases sub <;> simp [restOf, curCost, opCost, wcost] <;> omega

/-- what a poll of the echo loop comes to -/
theorem eout_res {g : Cfg} (ok : EOK g) {c : Conn} {r0 : AReq} {h : HState}
    (hph : c.phase = .handler r0 h) {out : AReq × HState × Run.Env × HRes}
    (heq : handlerPoll ((handlerFuel c.env r0 + scriptOf c)) r0 h c.env = out)
    (ho : EOut g.K g.p.id g.st g.L1 c.env out)
    (hb : Ben c.env.tr) (hstop : c.stop = false) (hev : Ev1 g c.env.tr) (hsc : c.scripts = g.more) :
    RE g 3 c := by
  obtain ⟨r', h', e', res⟩ := out
  obtain ⟨q0, q1, q2⟩ := ho
  simp only at q0 q1 q2
  rcases q2 with ⟨rfl, hwk, hans, dC, rem, ws, hC, rfl, hrst, hid⟩ |
      ⟨rfl, hwk, hans, dC, b, rem, ws, L, sent, hC, a1, a2, a3, a4, a5, a6, a7, a8⟩ |
      ⟨rfl, hws, hm, hlog, hrq, hpay, hpad, hwire, hwr⟩
  · have hstep := C07.handler_step c r0 h hph
    rw [heq] at hstep
    have hstep' : stepConn c = .halt ⟨.handler r' _, e', c.scripts, c.stop⟩ .pending := hstep
    exact Or.inl (Or.inl ⟨_, (Halts.now hstep').mono (by omega), ⟨q1.w, q0, rfl⟩,
      Or.inl (Or.inr (Or.inl ⟨r', dC, rem, ws, hC, rfl, hrst, hid, hb.step q1, hstop, hev.step q1, hsc⟩)), hwk, hans⟩)
  · have hstep := C07.handler_step c r0 h hph
    rw [heq] at hstep
    have hstep' : stepConn c = .halt ⟨.handler r' h', e', c.scripts, c.stop⟩ .pending := hstep
    exact Or.inl (Or.inl ⟨_, (Halts.now hstep').mono (by omega), ⟨q1.w, q0, rfl⟩,
      Or.inl (Or.inr (Or.inr ⟨r', h', dC, b, rem, ws, L, sent, hC, rfl, a1, a2, a3, a4, a5, a6, a7, a8, hb.step q1, hstop,
        hev.step q1, hsc⟩)), hwk, hans⟩)
  · obtain ⟨G, hi⟩ := hrq.inv
    have hi' : RInv g.K r' G e'.tr.input g.K.C g.K.O := by rw [ok.kO]; exact hi
    have hfin : REnd g.N r' e'.tr.input := by
      have := REnd.of_read hi' (hwr ok.kfin) hrq.lock hpay hpad hwire
      have hN : g.K.ectx = g.N := by simp [RCtx.ectx, Cfg.N, Cfg.K, ok.hX2, ok.hU]
      rw [hN] at this; exact this
    have hO : ([] : Bytes) ++ r'.sp.output = g.Ob := by
      rw [hrq.out]; exact ok.quiet.symm
    exact bdoneE qt_mono hph heq hws hm (by rw [hlog, List.append_nil]; rfl) hfin hO trivial q1 q0 hb hstop hev hsc

theorem her_poll {g : Cfg} (ok : EOK g) {c : Conn} (h : HER g c) : RE g 3 c := by
  obtain ⟨r, dC, rem, ws, hC, hph, hrst, hid, hb, hstop, hev, hsc⟩ := h
  have hfuel := handlerFuel_ge c.env r
  have hsc0 : scriptOf c = 3 * rem.length + 4 := by rw [scriptOf_handler hph, scriptCost_echo]
  have h24 : 24 ≤ g.K.cap := cap24 g
  exact eout_res ok hph rfl (pread_all ok.kok ok.kO h24 g.p.id g.st g.L1 rem _ r c.env ws dC hC (by omega) hb hrst hid)
    hb hstop hev hsc

theorem hew_poll {g : Cfg} (ok : EOK g) {c : Conn} (h : HEW g c) : RE g 3 c := by
  obtain ⟨r, ⟨ops, sub, wsl, pr⟩, dC, b, rem, ws, L, sent, hC, hph, a1, a2, a3, a4, a5, a6, a7, a8, hb, hstop, hev, hsc⟩ := h
  simp only at a1 a2 a3 a5 a7
  subst a1 a2 a3
  have hfuel := handlerFuel_ge c.env r
  have h24 : 24 ≤ g.K.cap := cap24 g
  have hsc0 : scriptOf c = curCost sub (.writeAll 0 [b]) + (3 * rem.length + 4) := by
    rw [scriptOf_handler hph]
    have := scriptCost_echo rem g.st (wtab ws) true
    rw [scriptCost_fresh] at this
    simp only [scriptCost, this]
  have hwc := wcost_le_cur sub b
  exact eout_res ok hph rfl (pwrite_of_pread (pread_all ok.kok ok.kO h24 g.p.id g.st g.L1 rem) b _ r c.env ws dC sub L sent
    hC (by omega) hb a8 a4 a5 a6 a7) hb hstop hev hsc

/-- the first poll of the handler: both writers are opened, then the loop -/
theorem echo_first {g : Cfg} (ok : EOK g) (c : Conn) (hc : FirstCfg g c) : RE g 6 c := by
  obtain ⟨e1, hph, hlen, hwire, hlog, hm, hb, hstop, hev, hsc⟩ := hc
  have hrole : g.p.request.role = 1 := ok.role
  have hstart : C03SI.Start g.K.E (Str.Parser.fromParser g.cap g.p.request e1 g.mc) :=
    C03SI.start_fresh g.cap g.p.request e1 g.mc hlen ok.hid (Or.inl hrole)
  have hrinv : RInv g.K (AReq.new (Str.Parser.fromParser g.cap g.p.request e1 g.mc)) e1 c.env.tr.input [] [] := by
    refine ⟨hstart.mtch, hstart.inv, rfl, rfl, rfl, hwire, fun x => ?_⟩
    have := C03SI.rem_start hstart x
    show refWire g.K.E (e1 ++ x) = (Rem g.K.E (Str.Parser.fromParser g.cap g.p.request e1 g.mc) x).pre [] []
    rw [this]; rfl
  rw [ok.hs] at hph
  have hwr : (AReq.new (Str.Parser.fromParser g.cap g.p.request e1 g.mc)).writeable = true := by
    simp [AReq.new, Str.Parser.fromParser, hrole, inputStreams]
  have hfuel := handlerFuel_ge c.env (AReq.new (Str.Parser.fromParser g.cap g.p.request e1 g.mc))
  have hsc0 : scriptOf c = 2 + (3 * g.content.length + 4) := by
    rw [scriptOf_handler hph]
    have := scriptCost_echo g.content g.st [] true
    rw [scriptCost_fresh] at this
    rw [scriptCost_fresh]
    simp only [echoScript, List.map_cons, List.sum_cons, opCost, this]
    omega
  have h24 : 24 ≤ g.K.cap := cap24 g
  refine (eout_res ok hph rfl ?_ hb hstop hev hsc).mono (by omega)
  obtain ⟨f2, hf2⟩ : ∃ f2, (handlerFuel c.env (AReq.new (Str.Parser.fromParser g.cap g.p.request e1 g.mc)) + scriptOf c) = f2 + 2 :=
    ⟨(handlerFuel c.env (AReq.new (Str.Parser.fromParser g.cap g.p.request e1 g.mc)) + scriptOf c) - 2, by omega⟩
  rw [hf2]
  show EOut g.K g.p.id g.st g.L1 c.env (handlerPoll (f2 + 1 + 1) _
    { ops := .open_ 6 :: .open_ 7 :: echoOps g.content g.st, sub := .fresh, writers := [], propagate := true } c.env)
  rw [hp_open]
  rw [if_neg (by simp [hwr, outputStreams, RT.stdout, RT.stderr])]
  rw [hp_open]
  rw [if_neg (by simp [hwr, outputStreams, RT.stdout, RT.stderr])]
  have hs1 : TStep c.env.tr ((c.env.ev s!"o=w{([] : List (Option Writer)).length}").ev
      s!"o=w{(([] : List (Option Writer)) ++ [some ({ rtype := 6, id := (AReq.new (Str.Parser.fromParser g.cap g.p.request e1 g.mc)).sp.request.id } : Writer)]).length}").tr :=
    (TStep.ev _ (by decide)).trans (TStep.ev _ (by simp [isHS, toString_str]))
  refine (pread_all ok.kok ok.kO h24 g.p.id g.st g.L1 g.content f2 _ _
    (fun j => if j = 0 then { rtype := 6, id := g.p.id } else { rtype := 7, id := g.p.id }) [] rfl (by omega)
    (hb.step hs1) ?_ (fun j => by
      match j with
      | ⟨0, _⟩ => exact ⟨rfl, rfl, rfl, rfl⟩
      | ⟨1, _⟩ => exact ⟨rfl, rfl, rfl, rfl⟩)).after hs1 rfl
  exact ⟨⟨e1, hrinv⟩, by rw [show ((c.env.ev _).ev _).mutex = c.env.mutex from rfl, hm]; exact lockInv_free rfl,
    Or.inl hm, ⟨[], by
      show ((c.env.tr.ev _).ev _).wlog = _
      rw [Transport.ev_wlog, Transport.ev_wlog, hlog]; simp [echoW, outOf], rfl⟩⟩

theorem se_poll {g : Cfg} (ok : EOK g) {c : Conn} (h : SEc g c) : RE g (2 * c.env.tr.input.length + 15) c := by
  rcases h with (h | h | h) | h
  · exact fstage_poll3 ok.fok (fun _ h => Or.inl (Or.inl h)) (echo_first ok) h
  · exact (her_poll ok h).mono (by omega)
  · exact (hew_poll ok h).mono (by omega)
  · exact (tq_pollE qt_mono h).mono (by omega)

/-- **The executor** for the echo Responder. -/
theorem run_echo {g : Cfg} (ok : EOK g) {Z : Bytes}
    (hns : NoStuckW g.cap g.mc (g.U ++ Z))
    (hNF : ∀ F x, F ++ x ++ Z = g.U ++ Z → (run .header F g.mc).st.isFinal = false)
    (em : EndMode) (evs0 : List String) (c : Conn) (n0 fuel : Nat) (hst : FStage g c)
    (hem : c.env.tr.endMode = em) (hev0 : ∀ s ∈ evs0, s ∈ c.env.tr.events)
    (hsegs : c.env.segs = []) (hf : ans c.env.tr + 1 ≤ fuel) :
    ∃ c'' fin, runTask fuel c n0 none = (c'', fin) ∧
      (GEnd g.cap g.mc Z g.more (g.hs0 + 1)
          (fun _ : Unit => g.p.flags.toNat % 2 = 1)
          (fun _ => g.U ++ Z) (fun _ => g.Lw (echoW g.content) [] [])
          (fun _ => [hsEvent g.p.request]) em evs0 (ans c.env.tr) c'' fin ∨
       (fin = "RET" ∧ FQW g (echoW g.content) QT c'' ∧ c''.env.tr.endMode = em ∧ (∀ s ∈ evs0, s ∈ c''.env.tr.events))) :=
  run_stages3' (cap24 g) (fun _ _ => hns) (fun _ _ => hNF)
    (fun _ _ h => SQE.cong qt_mono (fun c c' h a b d e f => S0E.cong c c' h a b d e f) h)
    (fun _ h => (se_poll ok h).imp (fun _ _ h => h) (fun c1 _ h => by
      obtain ⟨O1, O2, hO, _, haf⟩ := h
      have hO' : O1 = [] ∧ O2 = [] := by
        have : O1 ++ O2 = [] := hO.trans ok.quiet
        exact List.append_eq_nil_iff.1 this
      obtain ⟨rfl, rfl⟩ := hO'
      obtain ⟨raw, hph, hw, hraw⟩ := haf.ph
      exact ⟨(), haf.keep,
        Or.inr ⟨raw, hph, by rw [hw], hraw, haf.log, haf.ben, haf.stop⟩,
        ⟨haf.sc, haf.mtx, haf.ev.1, fun s hs => by rw [List.mem_singleton.1 hs]; exact haf.ev.2⟩⟩) (fun _ _ h => h))
    em evs0 c n0 fuel (Or.inl (Or.inl hst)) hem hev0 hsegs hf

end Fcgi.E2E
