import Fcgi.Proofs.ChainPos
import Fcgi.Proofs.E2EUnread
/-!
# C05 at the sync level — one turn of the conversion chain, and k turns

One *turn*: a request parser (state `Header`, some look-ahead already in its buffer) is fed chunks
`cs` until it reports a request; `into_stream_parser`; the caller runs an ARBITRARY legal operation
history `ops` on the stream parser; `into_request_parser` succeeds (record boundary, output buffer
empty).  `turn` / `chain` are the executable composition of the model functions; `turn_spec` relates
one turn to the wire, `chain_spec` k turns.
-/
namespace Fcgi.C05C
open Fcgi Fcgi.Req Fcgi.Str Fcgi.Spec
open Fcgi.E2E (Pos parse_pos serAll_app idleOwed wf_idle owedPreamble_idle)

/-- what the caller does in one turn: the chunks fed to the request parser, the operations on the
stream parser -/
structure Turn where
  cs : List Bytes
  ops : List Op

/-- all bytes handed to the two parsers in a turn -/
def Turn.fed (t : Turn) : Bytes := t.cs.flatten ++ C05.fedBytes t.ops

/-- what a turn produced: the request, the request parser's output (replies), the stream parser as
created by `into_stream_parser` and as it was when `into_request_parser` was called -/
structure Obs where
  r : Request
  reqOut : Bytes
  sp : Str.Parser
  spEnd : Str.Parser

/-- one turn, executed on the model (`none`: some stage failed) -/
def turn (rp : Req.Parser) (t : Turn) : Option (Obs × Req.Parser) :=
  match (C03.feedAll rp t.cs).1.state, (C03.feedAll rp t.cs).1.intoStreamParser with
  | .done r, .ok sp =>
    match (applyOps sp t.ops).intoRequestParser with
    | some (.ok rp') => some (⟨r, (C03.feedAll rp t.cs).2.1, sp, applyOps sp t.ops⟩, rp')
    | _ => none
  | _, _ => none

/-- `k` turns on one shared buffer -/
def chain : Req.Parser → List Turn → Option (List Obs × Req.Parser)
  | rp, [] => some ([], rp)
  | rp, t :: ts =>
    match turn rp t with
    | some (o, rp') =>
      match chain rp' ts with
      | some (os, rpK) => some (o :: os, rpK)
      | none => none
    | none => none

/-- the caller respects the documented preconditions: chunks non-empty and within the free space,
every chunk is fed (the caller stops reading when the request is reported), every stream-parser
call legal -/
def TurnLegal (rp : Req.Parser) (t : Turn) : Prop :=
  C03.LegalFeed rp t.cs ∧ (C03.feedAll rp t.cs).2.2 = [] ∧
    ∀ sp, (C03.feedAll rp t.cs).1.intoStreamParser = .ok sp → LegalAll sp t.ops

def ChainLegal : Req.Parser → List Turn → Prop
  | _, [] => True
  | rp, t :: ts => TurnLegal rp t ∧ ∀ o rp', turn rp t = some (o, rp') → ChainLegal rp' ts

theorem turn_some {rp : Req.Parser} {t : Turn} {o : Obs} {rp' : Req.Parser} (h : turn rp t = some (o, rp')) :
    (C03.feedAll rp t.cs).1.state = .done o.r ∧ (C03.feedAll rp t.cs).1.intoStreamParser = .ok o.sp ∧
    o.spEnd = applyOps o.sp t.ops ∧ o.spEnd.intoRequestParser = some (.ok rp') ∧
    o.reqOut = (C03.feedAll rp t.cs).2.1 := by
  unfold turn at h
  split at h
  · rename_i r sp h1 h2
    split at h
    · rename_i rp'' h3
      cases h
      exact ⟨h1, h2, rfl, h3, rfl⟩
    · cases h
  · cases h

/-- One request as it is on the wire: the preamble records (with their noise) and the records that
follow up to the next request's preamble — the request's input streams, with their noise. -/
structure Spec1 where
  p : Preamble
  recs : List Rec
  srecs : List Rec

/-- The preamble is well formed; the records behind it are well formed and none of them is a
BeginRequest of a valid role or of a wrong length (`IdleNoise`; forced: such a record left unread
makes the next request parser start a request or fail — crate and model agree, `Props/C07Unread`). -/
def Spec1.OK (q : Spec1) : Prop := WellFormedPreamble q.p q.recs ∧ ∀ r ∈ q.srecs, IdleNoise r

def wireRecs (qs : List Spec1) : List Rec := qs.flatMap fun q => q.recs ++ q.srecs

theorem wireRecs_cons (q : Spec1) (qs : List Spec1) : wireRecs (q :: qs) = q.recs ++ q.srecs ++ wireRecs qs := by
  simp [wireRecs]

theorem wireRecs_wf {qs : List Spec1} (h : ∀ q ∈ qs, q.OK) : ∀ r ∈ wireRecs qs, r.WF := by
  intro r hr
  simp only [wireRecs, List.mem_flatMap, List.mem_append] at hr
  obtain ⟨q, hq, hr | hr⟩ := hr
  · exact C06.preamble_WF (h q hq).1 r hr
  · exact ((h q hq).2 r hr).1

/-- **The stream parser did not run over the end of its request's records**: of the bytes it was
given, at most `|serAll srecs|` are not handed on to the next request parser.  (Forced when bytes of
the NEXT request are already buffered: see `k_requests_any_reads_full_false`.  Sufficient:
`noOverrun_of_within` — the parser is never given bytes beyond the request's records —, or
`Props/C05Chain.lean`, `reads_noOverrun` — every `parse` call is made with the stream still active.) -/
def NoOverrun (q : Spec1) (t : Turn) (o : Obs) : Prop :=
  (o.sp.raw ++ C05.fedBytes t.ops).length ≤ (serAll q.srecs).length + o.spEnd.raw.length

theorem noOverrun_of_within {q : Spec1} {t : Turn} {o : Obs}
    (h : o.sp.raw ++ C05.fedBytes t.ops <+: serAll q.srecs) : NoOverrun q t o := by
  obtain ⟨z, hz⟩ := h
  have := congrArg List.length hz
  unfold NoOverrun
  simp only [List.length_append] at this ⊢
  omega

/-- What is known about the stream parser of a turn before looking at what it did: created by
`from_parser` on the look-ahead, a legal history, fed a prefix of the rest of the wire. -/
def Front (cap mc : Nat) (q : Spec1) (later : List Rec) (t : Turn) (o : Obs) : Prop :=
  o.sp = Str.Parser.fromParser cap q.p.request o.sp.raw mc ∧ o.sp.raw.length ≤ cap ∧
  o.spEnd = applyOps o.sp t.ops ∧ LegalAll o.sp t.ops ∧
  o.sp.raw ++ C05.fedBytes t.ops <+: serAll (q.srecs ++ later)

/-- **One turn.**  `u`: records left unread by the previous request (idle noise for this request
parser); `later`: the records of the later requests.  The wire is `serAll (u ++ recs ++ srecs ++
later)`, of which `rp.input` is already buffered (any amount), `t.fed` is fed during the turn in
arbitrary chunks, `fut` is still to come.  If the stream parser did not run over the end of the
request's own records (`NoOverrun`), then: the request is the preamble's; the request parser answered the
unread records of the previous request as idle noise, then the preamble's noise; the stream parser
was created holding exactly the look-ahead `e` with `e ++ … = serAll (srecs ++ later)`; it consumed
`serAll d` for a prefix `d` of the request's records; the next request parser holds, followed by the
bytes to come, exactly `serAll (u' ++ later)` — the unread records, then the later requests. -/
theorem turn_spec {mc : Nat} {rp : Req.Parser} (hp : PInv rp) (hst : rp.state = .header)
    (hmc : rp.maxConns = mc) {u : List Rec} (hu : ∀ e ∈ u, IdleNoise e) {q : Spec1} (hq : q.OK)
    {later : List Rec} (hlater : ∀ r ∈ later, r.WF) {t : Turn} {fut : Bytes}
    (hwire : rp.input ++ t.fed ++ fut = serAll (u ++ q.recs ++ q.srecs ++ later))
    (hl : TurnLegal rp t) {o : Obs} {rp' : Req.Parser} (ht : turn rp t = some (o, rp'))
    (hno : Front rp.cap mc q later t o → NoOverrun q t o) :
    o.r = q.p.request ∧ o.reqOut = idleOwed mc u ++ owedPreamble q.p mc q.recs ∧
    Front rp.cap mc q later t o ∧
    o.sp.raw ++ C05.fedBytes t.ops ++ fut = serAll (q.srecs ++ later) ∧
    rp.input ++ t.cs.flatten = serAll (u ++ q.recs) ++ o.sp.raw ∧
    (∃ d u', q.srecs = d ++ u' ∧ o.sp.raw ++ C05.fedBytes t.ops = serAll d ++ rp'.input ∧
      rp'.input ++ fut = serAll (u' ++ later) ∧ (∀ e ∈ u', IdleNoise e)) ∧
    rp'.input = o.spEnd.raw ∧ PInv rp' ∧ rp'.state = .header ∧ rp'.maxConns = mc ∧ rp'.cap = rp.cap := by
  obtain ⟨hd, hsp, hend, hrp, hout⟩ := turn_some ht
  obtain ⟨hlf, hall, hlo⟩ := hl
  have hlops := hlo _ hsp
  -- the request parser
  obtain ⟨fed, consumed, hcs, -, hrun⟩ := C03.leftover_is_unread_suffix hp hlf hd
  rw [hall, List.append_nil] at hcs
  subst hcs
  rw [hst, hmc] at hrun
  have hwf := wf_idle hq.1 u hu
  have hwire' : rp.input ++ t.cs.flatten ++ C05.fedBytes t.ops ++ fut =
      serAll (u ++ q.recs) ++ serAll (q.srecs ++ later) := by
    rw [← serAll_app]
    simpa [Turn.fed, List.append_assoc] using hwire
  have hF : rp.input ++ t.cs.flatten <+: serAll (u ++ q.recs) ++ serAll (q.srecs ++ later) :=
    ⟨C05.fedBytes t.ops ++ fut, by rw [← hwire']; simp [List.append_assoc]⟩
  have hreq : o.r = q.p.request ∧ (C03.feedAll rp t.cs).2.1 = owedPreamble q.p mc (u ++ q.recs) ∧
      rp.input ++ t.cs.flatten = serAll (u ++ q.recs) ++ (C03.feedAll rp t.cs).1.input := by
    rcases C06.run_wire_state hwf (serAll (q.srecs ++ later)) hF mc with ⟨e1, hFe, -, hr⟩ | ⟨x, -, -, hnf⟩
    · rw [hr] at hrun
      injection hrun with h1 h2 h3
      injection h2 with h2
      exact ⟨h2.symm, h3.symm, by rw [hFe, h1]⟩
    · rw [hrun] at hnf; cases hnf
  obtain ⟨hr, ho, hFe⟩ := hreq
  obtain ⟨hsinv, hcap24, hraw, hreqsp, hcapsp⟩ := C05.handoff_inv hp (by rw [hst]; trivial) hlf hd hsp
  obtain ⟨-, -, hmcf⟩ := C05.feedAll_inv t.cs rp hp hlf
  have hspeq : o.sp = Str.Parser.fromParser rp.cap q.p.request o.sp.raw mc := by
    have := hsp
    rw [C05.into_stream_parser_done hd] at this
    have h := Except.ok.inj this
    rw [← h, (C05.feedAll_inv t.cs rp hp hlf).2.1, hmcf, hmc, hr]
    rfl
  have hpay : o.sp.pay = 0 := by rw [hspeq]; rfl
  have hpad : o.sp.pad = 0 := by rw [hspeq]; rfl
  have hspmc : o.sp.maxConns = mc := by rw [hspeq]; rfl
  -- the wire seen by the stream parser
  have hw2 : o.sp.raw ++ C05.fedBytes t.ops ++ fut = serAll (q.srecs ++ later) := by
    have h1 : serAll (u ++ q.recs) ++ (o.sp.raw ++ C05.fedBytes t.ops ++ fut) =
        serAll (u ++ q.recs) ++ serAll (q.srecs ++ later) := by
      rw [← hwire', hraw, hFe]
      simp only [List.append_assoc]
    exact List.append_cancel_left h1
  -- the hand-over
  have hRwf : ∀ r ∈ q.srecs ++ later, r.WF := by
    intro r hr'
    rcases List.mem_append.1 hr' with h | h
    · exact (hq.2 r h).1
    · exact hlater r h
  obtain ⟨hsinvE, -⟩ := Str.trace_safe hsinv hlops
  obtain ⟨fc, -, fm⟩ := C05.applyOps_frame t.ops o.sp
  rw [hend] at hrp
  obtain ⟨e1, e2, e3, e4, e5, hb, -⟩ := C05.into_request_parser hsinvE (by rw [fc]; exact hcap24) hrp
  obtain ⟨d, rs, hsplit, hrs, hcons⟩ := handover_records hRwf hsinv hpay hpad hlops hw2 hb
  have hfront : Front rp.cap mc q later t o := by
    refine ⟨hspeq, ?_, hend, hlops, ⟨fut, hw2⟩⟩
    have := hsinv.1
    rw [← hcapsp]
    unfold Str.Parser.freeStart at this
    omega
  have hno := hno hfront
  have hlen : (serAll d).length ≤ (serAll q.srecs).length := by
    have := congrArg List.length hcons
    unfold NoOverrun at hno
    rw [hend] at hno
    simp only [List.length_append] at this hno
    omega
  obtain ⟨u', hu1, hu2⟩ := split_within hsplit.symm hlen
  refine ⟨hr, by rw [hout, ho, owedPreamble_idle q.p mc u hu], hfront, hw2, by rw [hFe, hraw], ?_, by rw [e1, hend], e5, e4, ?_, ?_⟩
  · refine ⟨d, u', hu1, by rw [e1]; exact hcons, by rw [e1, hrs, hu2], ?_⟩
    intro e he
    exact hq.2 e (by rw [hu1]; exact List.mem_append_right _ he)
  · rw [e3, fm, hspmc]
  · rw [e2, fc, hcapsp]

/-! ## k turns -/

/-- What the k turns produced, request by request (`u`: the records left unread by the previous
request): the request is the preamble's; the request parser answered `u` as idle noise and then the
preamble's own noise; the stream parser was created by `from_parser` on the look-ahead; it consumed
`serAll d` for a prefix `d` of the request's records, and what it held at the hand-over is the
beginning of `serAll (u' ++ later requests)`, `u'` the unread records. -/
def Results (cap mc : Nat) : List Rec → List Spec1 → List Turn → List Obs → Prop
  | u, q :: qs, t :: ts, o :: os =>
    o.r = q.p.request ∧ o.reqOut = idleOwed mc u ++ owedPreamble q.p mc q.recs ∧
    Front cap mc q (wireRecs qs) t o ∧
    ∃ d u', q.srecs = d ++ u' ∧ (∀ e ∈ u', IdleNoise e) ∧
      o.sp.raw ++ C05.fedBytes t.ops = serAll d ++ o.spEnd.raw ∧
      o.spEnd.raw <+: serAll (u' ++ wireRecs qs) ∧ Results cap mc u' qs ts os
  | _, _, [], [] => True
  | _, _, _, _ => False

/-- per turn: the stream parser did not run over the end of its request's records (which may be
shown using what `Front` says about it) -/
def NoOverruns (cap mc : Nat) : List Spec1 → List Turn → List Obs → Prop
  | q :: qs, t :: ts, o :: os => (Front cap mc q (wireRecs qs) t o → NoOverrun q t o) ∧ NoOverruns cap mc qs ts os
  | _, _, _ => True

theorem chain_cons {rp : Req.Parser} {t : Turn} {ts : List Turn} {os : List Obs} {rpK : Req.Parser}
    (h : chain rp (t :: ts) = some (os, rpK)) :
    ∃ o rp' os', turn rp t = some (o, rp') ∧ chain rp' ts = some (os', rpK) ∧ os = o :: os' := by
  simp only [chain] at h
  split at h
  · rename_i o rp' h1
    split at h
    · rename_i os' rpK' h2
      cases h
      exact ⟨o, rp', os', h1, h2, rfl⟩
    · cases h
  · cases h

/-- **k turns on one shared buffer**, `k ≤` the number of requests on the wire (so the bytes fed may
reach into requests that are not served yet: look-ahead at the last hand-off too). -/
theorem chain_spec {cap mc : Nat} : ∀ (ts : List Turn) (qs : List Spec1) (os : List Obs) (rp : Req.Parser)
    (u : List Rec) (fut : Bytes) (rpK : Req.Parser),
    (∀ q ∈ qs, q.OK) → PInv rp → rp.state = .header → rp.maxConns = mc → rp.cap = cap →
    (∀ e ∈ u, IdleNoise e) → ts.length ≤ qs.length →
    rp.input ++ ts.flatMap Turn.fed ++ fut = serAll (u ++ wireRecs qs) →
    ChainLegal rp ts → chain rp ts = some (os, rpK) → NoOverruns cap mc qs ts os →
    Results cap mc u qs ts os ∧ PInv rpK ∧ rpK.state = .header ∧ rpK.maxConns = mc ∧ rpK.cap = cap ∧
      ∃ uK, (∀ e ∈ uK, IdleNoise e) ∧ rpK.input ++ fut = serAll (uK ++ wireRecs (qs.drop ts.length)) := by
  intro ts
  induction ts with
  | nil =>
    intro qs os rp u fut rpK _ hp hst hmc hcap hu _ hwire _ hch _
    simp only [chain, Option.some.injEq, Prod.mk.injEq] at hch
    obtain ⟨rfl, rfl⟩ := hch
    refine ⟨?_, hp, hst, hmc, hcap, u, hu, ?_⟩
    · cases qs <;> trivial
    · simpa using hwire
  | cons t ts ih =>
    intro qs os rp u fut rpK hqs hp hst hmc hcap hu hlen hwire hleg hch hno
    cases qs with
    | nil => simp at hlen
    | cons q qs =>
      obtain ⟨o, rp', os', ht, hch', rfl⟩ := chain_cons hch
      obtain ⟨hl1, hl2⟩ := hleg
      obtain ⟨hno1, hno2⟩ := hno
      have hq := hqs q List.mem_cons_self
      have hqs' : ∀ x ∈ qs, x.OK := fun x hx => hqs x (List.mem_cons_of_mem _ hx)
      have hwire1 : rp.input ++ t.fed ++ (ts.flatMap Turn.fed ++ fut) =
          serAll (u ++ q.recs ++ q.srecs ++ wireRecs qs) := by
        rw [wireRecs_cons] at hwire
        simpa [List.append_assoc] using hwire
      obtain ⟨h1, h2, h3, h4, -, ⟨d, u', h6, h7, h8, h9⟩, h10, h11, h12, h13, h14⟩ :=
        turn_spec hp hst hmc hu hq (wireRecs_wf hqs') hwire1 hl1 ht (by rw [hcap]; exact hno1)
      obtain ⟨r1, r2, r3, r4, r5, uK, r6, r7⟩ := ih qs os' rp' u' fut rpK hqs' h11 h12 h13 (h14.trans hcap) h9
        (by simpa using hlen) (by rw [List.append_assoc]; exact h8) (hl2 o rp' ht) hch' hno2
      refine ⟨⟨h1, h2, by rw [← hcap]; exact h3, d, u', h6, h9, by rw [← h10]; exact h7,
        ⟨_, by rw [← h10]; exact h8⟩, r1⟩, r2, r3, r4, r5, uK, r6, ?_⟩
      simpa using r7

/-- **(1) The requests served are the first requests sent, in order** — what separate connections
yield (`C01.C01_oneshot`: `p.request` is the request a fresh parser makes of the preamble alone). -/
theorem results_requests {cap mc : Nat} : ∀ (os : List Obs) (qs : List Spec1) (ts : List Turn) (u : List Rec),
    Results cap mc u qs ts os → os.map (·.r) = (qs.take os.length).map (·.p.request) := by
  intro os
  induction os with
  | nil => intro qs ts u _; simp
  | cons o os ih =>
    intro qs ts u h
    cases qs with
    | nil => cases ts <;> exact h.elim
    | cons q qs =>
      cases ts with
      | nil => exact h.elim
      | cons t ts =>
        obtain ⟨h1, -, -, d, u', -, -, -, -, hr⟩ := h
        simp only [List.map_cons, List.length_cons, List.take_succ_cons, h1, ih qs ts u' hr]

end Fcgi.C05C
