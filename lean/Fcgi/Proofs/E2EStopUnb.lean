import Fcgi.Proofs.E2EStopX
/-!
# Executors of the graceful-stop (C14) family without the size hypotheses

Copies of the executors of `Proofs/E2EStop`, `E2EStop2`, `E2EStopX` with `4·|input| + 17 ≤ 100000` dropped
(`Halts.pollB`, `run_from_stage'`).  Proofs otherwise verbatim.
-/
namespace Fcgi.C14E
open Fcgi Fcgi.Req Fcgi.Str Fcgi.Async Fcgi.Run Fcgi.Spec Fcgi.E2E

/-- `run_S` without the size hypothesis. -/
theorem run_S' {g : E2E.Cfg} (ok : g.OK) : ∀ (A : Nat) (c : Conn) (n fuel : Nat) (sa : Option Nat),
    StageS g c → c.env.segs = [] → ans c.env.tr ≤ A → A + 1 ≤ fuel →
    ∃ c', runTask fuel c n sa = (c', "RET") ∧ FinOut g c' := by
  intro A
  induction A with
  | zero =>
    intro c n fuel sa hst hsegs hA hf
    obtain ⟨f, rfl⟩ : ∃ f, fuel = f + 1 := ⟨fuel - 1, by omega⟩
    obtain ⟨hsame, hph, hsc, hstop, hmx, hsg, hwk⟩ := prePoll_same c n hsegs
    have hst0 := hst.cong hph hsc hstop hmx hsame
    obtain ⟨c', r, hh, hl, ho⟩ := stageS_poll ok hst0
    have hpoll := hh.pollB (by omega)
    have hans0 : ans (prePoll c n none).env.tr = ans c.env.tr := by unfold ans; rw [hsame.rd, hsame.wr]
    rw [runTask_succ, prePoll_stopped c n sa hst.stop, hpoll]
    cases ho with
    | early h => exact ⟨c', rfl, Or.inl h⟩
    | @done O1 O2 ex hO h => exact ⟨c', rfl, Or.inr ⟨O1, O2, ex, hO, h⟩⟩
    | pend hs' hw ha => omega
  | succ A ih =>
    intro c n fuel sa hst hsegs hA hf
    obtain ⟨f, rfl⟩ : ∃ f, fuel = f + 1 := ⟨fuel - 1, by omega⟩
    obtain ⟨hsame, hph, hsc, hstop, hmx, hsg, hwk⟩ := prePoll_same c n hsegs
    have hst0 := hst.cong hph hsc hstop hmx hsame
    obtain ⟨c', r, hh, hl, ho⟩ := stageS_poll ok hst0
    have hpoll := hh.pollB (by omega)
    have hans0 : ans (prePoll c n none).env.tr = ans c.env.tr := by unfold ans; rw [hsame.rd, hsame.wr]
    rw [runTask_succ, prePoll_stopped c n sa hst.stop, hpoll]
    cases ho with
    | early h => exact ⟨c', rfl, Or.inl h⟩
    | @done O1 O2 ex hO h => exact ⟨c', rfl, Or.inr ⟨O1, O2, ex, hO, h⟩⟩
    | pend hs' hw ha =>
      simp only [hw, if_true]
      exact ih c' (n + 1) f sa hs' (hl.segs.trans hsg) (by omega) (by omega)

/-- `run_at` without the size hypothesis. -/
theorem run_at' {g : E2E.Cfg} (ok : g.OK) {c : Conn} {j fuel : Nat} (hst : Stage g c) (hsegs : c.env.segs = [])
    (hf : ans c.env.tr + 1 ≤ fuel) :
    ∃ c', runTask fuel c j (some j) = (c', "RET") ∧ FinOut g c' := by
  obtain ⟨f, rfl⟩ : ∃ f, fuel = f + 1 := ⟨fuel - 1, by omega⟩
  have hS : StageS g { c with stop := true } := by
    refine ⟨rfl, ?_⟩
    have : unstop { c with stop := true } = c := by
      obtain ⟨ph, env, sc, st⟩ := c
      have := stage_stop_false hst
      simp only at this
      subst this
      rfl
    rw [this]; exact hst
  have heq : runTask (f + 1) c j (some j) = runTask (f + 1) { c with stop := true } j (some j) := by
    rw [runTask_succ, runTask_succ, prePoll_eq, prePoll_stopped { c with stop := true } j (some j) rfl]
  rw [heq]
  exact run_S' ok (ans c.env.tr) { c with stop := true } j (f + 1) (some j) hS hsegs (Nat.le_refl _) hf

/-- `run_stop` without the size hypothesis. -/
theorem run_stop' {g : E2E.Cfg} (ok : g.OK) (j : Nat) : ∀ (A : Nat) (c : Conn) (n fuel : Nat),
    Stage g c → c.env.segs = [] → n ≤ j → ans c.env.tr ≤ A → A + 2 ≤ fuel →
    ∃ c', runTask fuel c n (some j) = (c', "RET") ∧ StopOut g c' := by
  intro A
  induction A with
  | zero =>
    intro c n fuel hst hsegs hn hA hf
    by_cases hnj : n = j
    · subst hnj
      obtain ⟨c', h1, h2⟩ := run_at' ok (j := n) (fuel := fuel) hst hsegs (by omega)
      exact ⟨c', h1, Or.inl h2⟩
    · obtain ⟨f, rfl⟩ : ∃ f, fuel = f + 1 := ⟨fuel - 1, by omega⟩
      obtain ⟨hsame, hph, hsc, hstop, hmx, hsg, hwk⟩ := prePoll_same c n hsegs
      have hst0 := hst.cong hph hsc hstop hmx hsame
      obtain ⟨c', r, hh, hl, ho⟩ := stage_poll ok hst0
      have hpoll := hh.pollB (by omega)
      have hans0 : ans (prePoll c n none).env.tr = ans c.env.tr := by unfold ans; rw [hsame.rd, hsame.wr]
      rw [runTask_succ, prePoll_ne c n j (fun h => hnj h.symm), hpoll]
      cases ho with
      | @fin O1 O2 hO hfin => exact ⟨c', rfl, Or.inr ⟨O1, O2, hO, hfin⟩⟩
      | pend hs' hw ha => omega
      | @park O1 O2 hs' hO hp =>
        rcases hl.ts.wk with hw | ⟨_, ha⟩
        · rw [hwk] at hw
          simp only [hw, Bool.false_eq_true, if_false]
          have hsg' : c'.env.segs = [] := hl.segs.trans hsg
          rw [release_nil _ hsg']
          simp only [hw, Bool.false_eq_true, if_false]
          have hstop' : c'.stop = false := stage_stop_false hs'
          have hjn : (decide (j > n) && !c'.stop) = true := by
            rw [hstop']; simp; omega
          simp only [hjn, if_true]
          have hst2 : Stage g { c' with env := { c'.env with tr := { c'.env.tr with hold := false, woken := false } } } :=
            hs'.cong rfl rfl rfl rfl ⟨rfl, rfl, rfl, rfl, rfl, rfl, [], by simp, Quiet.nil⟩
          obtain ⟨c2, h1, h2⟩ := run_at' ok (j := j) (fuel := f) hst2 hsg'
            (by show ans c'.env.tr + 1 ≤ f; have := hl.ts.ans_le; omega)
          exact ⟨c2, h1, Or.inl h2⟩
        · omega
  | succ A ih =>
    intro c n fuel hst hsegs hn hA hf
    by_cases hnj : n = j
    · subst hnj
      obtain ⟨c', h1, h2⟩ := run_at' ok (j := n) (fuel := fuel) hst hsegs (by omega)
      exact ⟨c', h1, Or.inl h2⟩
    · obtain ⟨f, rfl⟩ : ∃ f, fuel = f + 1 := ⟨fuel - 1, by omega⟩
      obtain ⟨hsame, hph, hsc, hstop, hmx, hsg, hwk⟩ := prePoll_same c n hsegs
      have hst0 := hst.cong hph hsc hstop hmx hsame
      obtain ⟨c', r, hh, hl, ho⟩ := stage_poll ok hst0
      have hpoll := hh.pollB (by omega)
      have hans0 : ans (prePoll c n none).env.tr = ans c.env.tr := by unfold ans; rw [hsame.rd, hsame.wr]
      have hsg' : c'.env.segs = [] := hl.segs.trans hsg
      rw [runTask_succ, prePoll_ne c n j (fun h => hnj h.symm), hpoll]
      cases ho with
      | @fin O1 O2 hO hfin => exact ⟨c', rfl, Or.inr ⟨O1, O2, hO, hfin⟩⟩
      | pend hs' hw ha =>
        simp only [hw, if_true]
        exact ih c' (n + 1) f hs' hsg' (by omega) (by omega) (by omega)
      | @park O1 O2 hs' hO hp =>
        have hstop' : c'.stop = false := stage_stop_false hs'
        have hjn : (decide (j > n) && !c'.stop) = true := by
          rw [hstop']; simp; omega
        rcases hl.ts.wk with hw | ⟨hw, ha⟩
        · rw [hwk] at hw
          simp only [hw, Bool.false_eq_true, if_false]
          rw [release_nil _ hsg']
          simp only [hw, Bool.false_eq_true, if_false, hjn, if_true]
          have hst2 : Stage g { c' with env := { c'.env with tr := { c'.env.tr with hold := false, woken := false } } } :=
            hs'.cong rfl rfl rfl rfl ⟨rfl, rfl, rfl, rfl, rfl, rfl, [], by simp, Quiet.nil⟩
          obtain ⟨c2, h1, h2⟩ := run_at' ok (j := j) (fuel := f) hst2 hsg'
            (by show ans c'.env.tr + 1 ≤ f; have := hl.ts.ans_le; omega)
          exact ⟨c2, h1, Or.inl h2⟩
        · simp only [hw, if_true]
          exact ih c' (n + 1) f hs' hsg' (by omega) (by omega) (by omega)

/-- `run_S_feed` without the size hypothesis. -/
theorem run_S_feed' {g : E2E.Cfg} (ok : g.OK) (ws : List Bytes) : ∀ (A : Nat) (c : Conn) (n fuel : Nat) (sa : Option Nat),
    StageS g c → c.env.segs = [] → ans c.env.tr ≤ A → A + 1 ≤ fuel →
    ∃ c', runFeed fuel c n sa ws = (c', "RET") ∧ FinOut g c' := by
  intro A
  induction A with
  | zero =>
    intro c n fuel sa hst hsegs hA hf
    obtain ⟨f, rfl⟩ : ∃ f, fuel = f + 1 := ⟨fuel - 1, by omega⟩
    obtain ⟨hsame, hph, hsc, hstop, hmx, hsg, hwk⟩ := prePoll_same c n hsegs
    have hst0 := hst.cong hph hsc hstop hmx hsame
    obtain ⟨c', r, hh, hl, ho⟩ := stageS_poll ok hst0
    have hpoll := hh.pollB (by omega)
    have hans0 : ans (prePoll c n none).env.tr = ans c.env.tr := by unfold ans; rw [hsame.rd, hsame.wr]
    rw [runFeed_succ, prePoll_stopped c n sa hst.stop, hpoll]
    cases ho with
    | early h => exact ⟨c', rfl, Or.inl h⟩
    | @done O1 O2 ex hO h => exact ⟨c', rfl, Or.inr ⟨O1, O2, ex, hO, h⟩⟩
    | pend hs' hw ha => omega
  | succ A ih =>
    intro c n fuel sa hst hsegs hA hf
    obtain ⟨f, rfl⟩ : ∃ f, fuel = f + 1 := ⟨fuel - 1, by omega⟩
    obtain ⟨hsame, hph, hsc, hstop, hmx, hsg, hwk⟩ := prePoll_same c n hsegs
    have hst0 := hst.cong hph hsc hstop hmx hsame
    obtain ⟨c', r, hh, hl, ho⟩ := stageS_poll ok hst0
    have hpoll := hh.pollB (by omega)
    have hans0 : ans (prePoll c n none).env.tr = ans c.env.tr := by unfold ans; rw [hsame.rd, hsame.wr]
    rw [runFeed_succ, prePoll_stopped c n sa hst.stop, hpoll]
    cases ho with
    | early h => exact ⟨c', rfl, Or.inl h⟩
    | @done O1 O2 ex hO h => exact ⟨c', rfl, Or.inr ⟨O1, O2, ex, hO, h⟩⟩
    | pend hs' hw ha =>
      simp only [hw, if_true]
      exact ih c' (n + 1) f sa hs' (hl.segs.trans hsg) (by omega) (by omega)

/-- `run_at_feed` without the size hypothesis. -/
theorem run_at_feed' {g : E2E.Cfg} (ok : g.OK) (ws : List Bytes) {c : Conn} {j fuel : Nat} (hst : Stage g c)
    (hsegs : c.env.segs = [])
    (hf : ans c.env.tr + 1 ≤ fuel) :
    ∃ c', runFeed fuel c j (some j) ws = (c', "RET") ∧ FinOut g c' := by
  obtain ⟨f, rfl⟩ : ∃ f, fuel = f + 1 := ⟨fuel - 1, by omega⟩
  have hS : StageS g { c with stop := true } := by
    refine ⟨rfl, ?_⟩
    have : unstop { c with stop := true } = c := by
      obtain ⟨ph, env, sc, st⟩ := c
      have := stage_stop_false hst
      simp only at this
      subst this
      rfl
    rw [this]; exact hst
  have heq : runFeed (f + 1) c j (some j) ws = runFeed (f + 1) { c with stop := true } j (some j) ws := by
    rw [runFeed_succ, runFeed_succ, prePoll_eq, prePoll_stopped { c with stop := true } j (some j) rfl]
  rw [heq]
  exact run_S_feed' ok ws (ans c.env.tr) { c with stop := true } j (f + 1) (some j) hS hsegs (Nat.le_refl _) hf

/-- `leg1` without the size hypothesis. -/
theorem leg1' {g : E2E.Cfg} (ok : g.OK) (j : Nat) (w : Bytes) : ∀ (A : Nat) (c : Conn) (n fuel : Nat),
    Stage g c → c.env.segs = [] → n ≤ j → ans c.env.tr ≤ A → A + 2 ≤ fuel →
    Leg1 g j w fuel c n := by
  intro A
  induction A with
  | zero =>
    intro c n fuel hst hsegs hn hA hf
    by_cases hnj : n = j
    · subst hnj
      obtain ⟨c', h1, h2⟩ := run_at_feed' ok [w] (j := n) (fuel := fuel) hst hsegs (by omega)
      exact Or.inl ⟨c', h1, Or.inl h2⟩
    · obtain ⟨f, rfl⟩ : ∃ f, fuel = f + 1 := ⟨fuel - 1, by omega⟩
      obtain ⟨hsame, hph, hsc, hstop, hmx, hsg, hwk⟩ := prePoll_same c n hsegs
      have hst0 := hst.cong hph hsc hstop hmx hsame
      obtain ⟨c', r, hh, hl, ho⟩ := stage_poll ok hst0
      have hpoll := hh.pollB (by omega)
      have hans0 : ans (prePoll c n none).env.tr = ans c.env.tr := by unfold ans; rw [hsame.rd, hsame.wr]
      unfold Leg1
      rw [runFeed_succ, prePoll_ne c n j (fun h => hnj h.symm), hpoll]
      cases ho with
      | @fin O1 O2 hO hfin => exact Or.inl ⟨c', rfl, Or.inr ⟨O1, O2, hO, hfin⟩⟩
      | pend hs' hw ha => omega
      | @park O1 O2 hs' hO hp =>
        rcases hl.ts.wk with hw | ⟨_, ha⟩
        · rw [hwk] at hw
          have hsg' : c'.env.segs = [] := hl.segs.trans hsg
          simp only [hw, Bool.false_eq_true, if_false]
          rw [release_nil _ hsg']
          simp only [hw, Bool.false_eq_true, if_false]
          refine Or.inr ⟨{ c' with env := { c'.env with tr := { c'.env.tr with hold := false, woken := false } } }, O1, O2, n, f, hO,
            hp.cong rfl rfl rfl rfl ⟨rfl, rfl, rfl, rfl, rfl, rfl, [], by simp, Quiet.nil⟩, by omega, hsg', ?_, ?_, rfl⟩
          · show ans c'.env.tr ≤ ans c.env.tr
            have := hl.ts.ans_le; omega
          · omega
        · omega
  | succ A ih =>
    intro c n fuel hst hsegs hn hA hf
    by_cases hnj : n = j
    · subst hnj
      obtain ⟨c', h1, h2⟩ := run_at_feed' ok [w] (j := n) (fuel := fuel) hst hsegs (by omega)
      exact Or.inl ⟨c', h1, Or.inl h2⟩
    · obtain ⟨f, rfl⟩ : ∃ f, fuel = f + 1 := ⟨fuel - 1, by omega⟩
      obtain ⟨hsame, hph, hsc, hstop, hmx, hsg, hwk⟩ := prePoll_same c n hsegs
      have hst0 := hst.cong hph hsc hstop hmx hsame
      obtain ⟨c', r, hh, hl, ho⟩ := stage_poll ok hst0
      have hpoll := hh.pollB (by omega)
      have hans0 : ans (prePoll c n none).env.tr = ans c.env.tr := by unfold ans; rw [hsame.rd, hsame.wr]
      have hsg' : c'.env.segs = [] := hl.segs.trans hsg
      have hale : ans c'.env.tr ≤ ans c.env.tr := by have := hl.ts.ans_le; omega
      unfold Leg1
      rw [runFeed_succ, prePoll_ne c n j (fun h => hnj h.symm), hpoll]
      cases ho with
      | @fin O1 O2 hO hfin => exact Or.inl ⟨c', rfl, Or.inr ⟨O1, O2, hO, hfin⟩⟩
      | pend hs' hw ha =>
        simp only [hw, if_true]
        rcases ih c' (n + 1) f hs' hsg' (by omega) (by omega) (by omega) with
          ⟨c2, h1, h2⟩ | ⟨cP, O1, O2, m, f', hO, hp, hm, hsP, haP, hfP, heq⟩
        · exact Or.inl ⟨c2, h1, h2⟩
        · exact Or.inr ⟨cP, O1, O2, m, f', hO, hp, hm, hsP, by omega, by omega, heq⟩
      | @park O1 O2 hs' hO hp =>
        rcases hl.ts.wk with hw | ⟨hw, ha⟩
        · rw [hwk] at hw
          simp only [hw, Bool.false_eq_true, if_false]
          rw [release_nil _ hsg']
          simp only [hw, Bool.false_eq_true, if_false]
          refine Or.inr ⟨{ c' with env := { c'.env with tr := { c'.env.tr with hold := false, woken := false } } }, O1, O2, n, f, hO,
            hp.cong rfl rfl rfl rfl ⟨rfl, rfl, rfl, rfl, rfl, rfl, [], by simp, Quiet.nil⟩, by omega, hsg', ?_, ?_, rfl⟩
          · show ans c'.env.tr ≤ ans c.env.tr
            exact hale
          · omega
        · simp only [hw, if_true]
          rcases ih c' (n + 1) f hs' hsg' (by omega) (by omega) (by omega) with
            ⟨c2, h1, h2⟩ | ⟨cP, O1, O2, m, f', hO, hp, hm, hsP, haP, hfP, heq⟩
          · exact Or.inl ⟨c2, h1, h2⟩
          · exact Or.inr ⟨cP, O1, O2, m, f', hO, hp, hm, hsP, by omega, by omega, heq⟩

/-- `run_stop2` without the size hypothesis. -/
theorem run_stop2' {g1 g2 : E2E.Cfg} (ok1 : g1.OK) (ok2 : g2.OK) (hl : Linked g1 g2) (j : Nat)
    {c : Conn} {n fuel : Nat} (hst : Stage g1 c) (hsegs : c.env.segs = []) (hn : n ≤ j)
    (hf : ans c.env.tr + 3 ≤ fuel) :
    ∃ c', runFeed fuel c n (some j) [g2.W] = (c', "RET") ∧ StopOut2 g1 g2 c' := by
  rcases leg1' ok1 j g2.W (ans c.env.tr) c n fuel hst hsegs hn (Nat.le_refl _) (by omega) with
    ⟨c', h1, h2⟩ | ⟨cP, O1, O2, m, f', hO, hp, hm, hsP, haP, hfP, heq⟩
  · exact ⟨c', h1, Or.inl h2⟩
  · have hfe : feedA cP g2.W = E2E.feed cP (g2.at (g1.L3 O1 O2)).W := feedA_eq_feed cP g2.W hp.inp
    have hst2 : Stage (g2.at (g1.L3 O1 O2)) (feedA cP g2.W) := by
      rw [hfe]; exact next_stage (g2 := g2.at (g1.L3 O1 O2)) hp (hl.at_right _) rfl
    have hin2 : (feedA cP g2.W).env.tr.input = g2.W := by
      show cP.env.tr.input ++ g2.W = g2.W
      rw [hp.inp]; rfl
    obtain ⟨c', hrun, hout⟩ := run_stop' (ok2.at (g1.L3 O1 O2)) j (ans cP.env.tr) (feedA cP g2.W) (m + 1) f' hst2
      hsP (by omega) (Nat.le_refl _) (by omega)
    refine ⟨c', by rw [heq, runFeed_nil]; exact hrun, Or.inr ⟨O1, O2, hO, ?_, hout⟩⟩
    have hg := Indep3.runTask_grow f' (feedA cP g2.W) (m + 1) (some j)
    rw [hrun] at hg
    obtain ⟨⟨wx, hw⟩, _⟩ := hg
    have hw' : c'.env.tr.wlog = cP.env.tr.wlog ++ wx := hw
    rw [hw', hp.log]
    exact List.prefix_append _ _

/-- `run_SX` without the size hypothesis. -/
theorem run_SX' {g : E2E.Cfg} (ok : g.OK) : ∀ (A : Nat) (c : Conn) (n fuel : Nat) (sa : Option Nat),
    StageS g c → c.env.segs = [] → ans c.env.tr ≤ A → A + 1 ≤ fuel →
    ∃ c', runTask fuel c n sa = (c', "RET") ∧ FinOutX g c' := by
  intro A
  induction A with
  | zero =>
    intro c n fuel sa hst hsegs hA hf
    obtain ⟨f, rfl⟩ : ∃ f, fuel = f + 1 := ⟨fuel - 1, by omega⟩
    obtain ⟨hsame, hph, hsc, hstop, hmx, hsg, hwk⟩ := prePoll_same c n hsegs
    have hst0 := hst.cong hph hsc hstop hmx hsame
    obtain ⟨c', r, hh, hl, ho⟩ := stageS_pollX ok hst0
    have hpoll := hh.pollB (by omega)
    have hans0 : ans (prePoll c n none).env.tr = ans c.env.tr := by unfold ans; rw [hsame.rd, hsame.wr]
    rw [runTask_succ, prePoll_stopped c n sa hst.stop, hpoll]
    cases ho with
    | early h => exact ⟨c', rfl, Or.inl h⟩
    | @done O1 O2 hO h => exact ⟨c', rfl, Or.inr ⟨O1, O2, hO, h⟩⟩
    | pend hs' hw ha => omega
  | succ A ih =>
    intro c n fuel sa hst hsegs hA hf
    obtain ⟨f, rfl⟩ : ∃ f, fuel = f + 1 := ⟨fuel - 1, by omega⟩
    obtain ⟨hsame, hph, hsc, hstop, hmx, hsg, hwk⟩ := prePoll_same c n hsegs
    have hst0 := hst.cong hph hsc hstop hmx hsame
    obtain ⟨c', r, hh, hl, ho⟩ := stageS_pollX ok hst0
    have hpoll := hh.pollB (by omega)
    have hans0 : ans (prePoll c n none).env.tr = ans c.env.tr := by unfold ans; rw [hsame.rd, hsame.wr]
    rw [runTask_succ, prePoll_stopped c n sa hst.stop, hpoll]
    cases ho with
    | early h => exact ⟨c', rfl, Or.inl h⟩
    | @done O1 O2 hO h => exact ⟨c', rfl, Or.inr ⟨O1, O2, hO, h⟩⟩
    | pend hs' hw ha =>
      simp only [hw, if_true]
      exact ih c' (n + 1) f sa hs' (hl.segs.trans hsg) (by omega) (by omega)

/-- `run_atX` without the size hypothesis. -/
theorem run_atX' {g : E2E.Cfg} (ok : g.OK) {c : Conn} {j fuel : Nat} (hst : Stage g c) (hsegs : c.env.segs = [])
    (hf : ans c.env.tr + 1 ≤ fuel) :
    ∃ c', runTask fuel c j (some j) = (c', "RET") ∧ FinOutX g c' := by
  obtain ⟨f, rfl⟩ : ∃ f, fuel = f + 1 := ⟨fuel - 1, by omega⟩
  have hS : StageS g { c with stop := true } := by
    refine ⟨rfl, ?_⟩
    have : unstop { c with stop := true } = c := by
      obtain ⟨ph, env, sc, st⟩ := c
      have := stage_stop_false hst
      simp only at this
      subst this
      rfl
    rw [this]; exact hst
  have heq : runTask (f + 1) c j (some j) = runTask (f + 1) { c with stop := true } j (some j) := by
    rw [runTask_succ, runTask_succ, prePoll_eq, prePoll_stopped { c with stop := true } j (some j) rfl]
  rw [heq]
  exact run_SX' ok (ans c.env.tr) { c with stop := true } j (f + 1) (some j) hS hsegs (Nat.le_refl _) hf

/-- `run_stopX` without the size hypothesis. -/
theorem run_stopX' {g : E2E.Cfg} (ok : g.OK) (j : Nat) : ∀ (A : Nat) (c : Conn) (n fuel : Nat),
    Stage g c → c.env.segs = [] → n ≤ j → ans c.env.tr ≤ A → A + 2 ≤ fuel →
    ∃ c', runTask fuel c n (some j) = (c', "RET") ∧ StopOutX g c' := by
  intro A
  induction A with
  | zero =>
    intro c n fuel hst hsegs hn hA hf
    by_cases hnj : n = j
    · subst hnj
      obtain ⟨c', h1, h2⟩ := run_atX' ok (j := n) (fuel := fuel) hst hsegs (by omega)
      exact ⟨c', h1, Or.inl h2⟩
    · obtain ⟨f, rfl⟩ : ∃ f, fuel = f + 1 := ⟨fuel - 1, by omega⟩
      obtain ⟨hsame, hph, hsc, hstop, hmx, hsg, hwk⟩ := prePoll_same c n hsegs
      have hst0 := hst.cong hph hsc hstop hmx hsame
      obtain ⟨c', r, hh, hl, ho⟩ := stage_poll ok hst0
      have hpoll := hh.pollB (by omega)
      have hans0 : ans (prePoll c n none).env.tr = ans c.env.tr := by unfold ans; rw [hsame.rd, hsame.wr]
      rw [runTask_succ, prePoll_ne c n j (fun h => hnj h.symm), hpoll]
      cases ho with
      | @fin O1 O2 hO hfin => exact ⟨c', rfl, Or.inr ⟨O1, O2, hO, hfin⟩⟩
      | pend hs' hw ha => omega
      | @park O1 O2 hs' hO hp =>
        rcases hl.ts.wk with hw | ⟨_, ha⟩
        · rw [hwk] at hw
          simp only [hw, Bool.false_eq_true, if_false]
          have hsg' : c'.env.segs = [] := hl.segs.trans hsg
          rw [release_nil _ hsg']
          simp only [hw, Bool.false_eq_true, if_false]
          have hstop' : c'.stop = false := stage_stop_false hs'
          have hjn : (decide (j > n) && !c'.stop) = true := by
            rw [hstop']; simp; omega
          simp only [hjn, if_true]
          have hst2 : Stage g { c' with env := { c'.env with tr := { c'.env.tr with hold := false, woken := false } } } :=
            hs'.cong rfl rfl rfl rfl ⟨rfl, rfl, rfl, rfl, rfl, rfl, [], by simp, Quiet.nil⟩
          obtain ⟨c2, h1, h2⟩ := run_atX' ok (j := j) (fuel := f) hst2 hsg'
            (by show ans c'.env.tr + 1 ≤ f; have := hl.ts.ans_le; omega)
          exact ⟨c2, h1, Or.inl h2⟩
        · omega
  | succ A ih =>
    intro c n fuel hst hsegs hn hA hf
    by_cases hnj : n = j
    · subst hnj
      obtain ⟨c', h1, h2⟩ := run_atX' ok (j := n) (fuel := fuel) hst hsegs (by omega)
      exact ⟨c', h1, Or.inl h2⟩
    · obtain ⟨f, rfl⟩ : ∃ f, fuel = f + 1 := ⟨fuel - 1, by omega⟩
      obtain ⟨hsame, hph, hsc, hstop, hmx, hsg, hwk⟩ := prePoll_same c n hsegs
      have hst0 := hst.cong hph hsc hstop hmx hsame
      obtain ⟨c', r, hh, hl, ho⟩ := stage_poll ok hst0
      have hpoll := hh.pollB (by omega)
      have hans0 : ans (prePoll c n none).env.tr = ans c.env.tr := by unfold ans; rw [hsame.rd, hsame.wr]
      have hsg' : c'.env.segs = [] := hl.segs.trans hsg
      rw [runTask_succ, prePoll_ne c n j (fun h => hnj h.symm), hpoll]
      cases ho with
      | @fin O1 O2 hO hfin => exact ⟨c', rfl, Or.inr ⟨O1, O2, hO, hfin⟩⟩
      | pend hs' hw ha =>
        simp only [hw, if_true]
        exact ih c' (n + 1) f hs' hsg' (by omega) (by omega) (by omega)
      | @park O1 O2 hs' hO hp =>
        have hstop' : c'.stop = false := stage_stop_false hs'
        have hjn : (decide (j > n) && !c'.stop) = true := by
          rw [hstop']; simp; omega
        rcases hl.ts.wk with hw | ⟨hw, ha⟩
        · rw [hwk] at hw
          simp only [hw, Bool.false_eq_true, if_false]
          rw [release_nil _ hsg']
          simp only [hw, Bool.false_eq_true, if_false, hjn, if_true]
          have hst2 : Stage g { c' with env := { c'.env with tr := { c'.env.tr with hold := false, woken := false } } } :=
            hs'.cong rfl rfl rfl rfl ⟨rfl, rfl, rfl, rfl, rfl, rfl, [], by simp, Quiet.nil⟩
          obtain ⟨c2, h1, h2⟩ := run_atX' ok (j := j) (fuel := f) hst2 hsg'
            (by show ans c'.env.tr + 1 ≤ f; have := hl.ts.ans_le; omega)
          exact ⟨c2, h1, Or.inl h2⟩
        · simp only [hw, if_true]
          exact ih c' (n + 1) f hs' hsg' (by omega) (by omega) (by omega)


/-- `run_S_feedX` without the size hypothesis. -/
theorem run_S_feedX' {g : E2E.Cfg} (ok : g.OK) (ws : List Bytes) : ∀ (A : Nat) (c : Conn) (n fuel : Nat) (sa : Option Nat),
    StageS g c → c.env.segs = [] → ans c.env.tr ≤ A → A + 1 ≤ fuel →
    ∃ c', runFeed fuel c n sa ws = (c', "RET") ∧ FinOutX g c' := by
  intro A
  induction A with
  | zero =>
    intro c n fuel sa hst hsegs hA hf
    obtain ⟨f, rfl⟩ : ∃ f, fuel = f + 1 := ⟨fuel - 1, by omega⟩
    obtain ⟨hsame, hph, hsc, hstop, hmx, hsg, hwk⟩ := prePoll_same c n hsegs
    have hst0 := hst.cong hph hsc hstop hmx hsame
    obtain ⟨c', r, hh, hl, ho⟩ := stageS_pollX ok hst0
    have hpoll := hh.pollB (by omega)
    have hans0 : ans (prePoll c n none).env.tr = ans c.env.tr := by unfold ans; rw [hsame.rd, hsame.wr]
    rw [runFeed_succ, prePoll_stopped c n sa hst.stop, hpoll]
    cases ho with
    | early h => exact ⟨c', rfl, Or.inl h⟩
    | @done O1 O2 hO h => exact ⟨c', rfl, Or.inr ⟨O1, O2, hO, h⟩⟩
    | pend hs' hw ha => omega
  | succ A ih =>
    intro c n fuel sa hst hsegs hA hf
    obtain ⟨f, rfl⟩ : ∃ f, fuel = f + 1 := ⟨fuel - 1, by omega⟩
    obtain ⟨hsame, hph, hsc, hstop, hmx, hsg, hwk⟩ := prePoll_same c n hsegs
    have hst0 := hst.cong hph hsc hstop hmx hsame
    obtain ⟨c', r, hh, hl, ho⟩ := stageS_pollX ok hst0
    have hpoll := hh.pollB (by omega)
    have hans0 : ans (prePoll c n none).env.tr = ans c.env.tr := by unfold ans; rw [hsame.rd, hsame.wr]
    rw [runFeed_succ, prePoll_stopped c n sa hst.stop, hpoll]
    cases ho with
    | early h => exact ⟨c', rfl, Or.inl h⟩
    | @done O1 O2 hO h => exact ⟨c', rfl, Or.inr ⟨O1, O2, hO, h⟩⟩
    | pend hs' hw ha =>
      simp only [hw, if_true]
      exact ih c' (n + 1) f sa hs' (hl.segs.trans hsg) (by omega) (by omega)

/-- `run_at_feedX` without the size hypothesis. -/
theorem run_at_feedX' {g : E2E.Cfg} (ok : g.OK) (ws : List Bytes) {c : Conn} {j fuel : Nat} (hst : Stage g c)
    (hsegs : c.env.segs = [])
    (hf : ans c.env.tr + 1 ≤ fuel) :
    ∃ c', runFeed fuel c j (some j) ws = (c', "RET") ∧ FinOutX g c' := by
  obtain ⟨f, rfl⟩ : ∃ f, fuel = f + 1 := ⟨fuel - 1, by omega⟩
  have hS : StageS g { c with stop := true } := by
    refine ⟨rfl, ?_⟩
    have : unstop { c with stop := true } = c := by
      obtain ⟨ph, env, sc, st⟩ := c
      have := stage_stop_false hst
      simp only at this
      subst this
      rfl
    rw [this]; exact hst
  have heq : runFeed (f + 1) c j (some j) ws = runFeed (f + 1) { c with stop := true } j (some j) ws := by
    rw [runFeed_succ, runFeed_succ, prePoll_eq, prePoll_stopped { c with stop := true } j (some j) rfl]
  rw [heq]
  exact run_S_feedX' ok ws (ans c.env.tr) { c with stop := true } j (f + 1) (some j) hS hsegs (Nat.le_refl _) hf

/-- `leg1X` without the size hypothesis. -/
theorem leg1X' {g : E2E.Cfg} (ok : g.OK) (j : Nat) (w : Bytes) : ∀ (A : Nat) (c : Conn) (n fuel : Nat),
    Stage g c → c.env.segs = [] → n ≤ j → ans c.env.tr ≤ A → A + 2 ≤ fuel →
    Leg1X g j w fuel c n := by
  intro A
  induction A with
  | zero =>
    intro c n fuel hst hsegs hn hA hf
    by_cases hnj : n = j
    · subst hnj
      obtain ⟨c', h1, h2⟩ := run_at_feedX' ok [w] (j := n) (fuel := fuel) hst hsegs (by omega)
      exact Or.inl ⟨c', h1, Or.inl h2⟩
    · obtain ⟨f, rfl⟩ : ∃ f, fuel = f + 1 := ⟨fuel - 1, by omega⟩
      obtain ⟨hsame, hph, hsc, hstop, hmx, hsg, hwk⟩ := prePoll_same c n hsegs
      have hst0 := hst.cong hph hsc hstop hmx hsame
      obtain ⟨c', r, hh, hl, ho⟩ := stage_poll ok hst0
      have hpoll := hh.pollB (by omega)
      have hans0 : ans (prePoll c n none).env.tr = ans c.env.tr := by unfold ans; rw [hsame.rd, hsame.wr]
      unfold Leg1X
      rw [runFeed_succ, prePoll_ne c n j (fun h => hnj h.symm), hpoll]
      cases ho with
      | @fin O1 O2 hO hfin => exact Or.inl ⟨c', rfl, Or.inr ⟨O1, O2, hO, hfin⟩⟩
      | pend hs' hw ha => omega
      | @park O1 O2 hs' hO hp =>
        rcases hl.ts.wk with hw | ⟨_, ha⟩
        · rw [hwk] at hw
          have hsg' : c'.env.segs = [] := hl.segs.trans hsg
          simp only [hw, Bool.false_eq_true, if_false]
          rw [release_nil _ hsg']
          simp only [hw, Bool.false_eq_true, if_false]
          refine Or.inr ⟨{ c' with env := { c'.env with tr := { c'.env.tr with hold := false, woken := false } } }, O1, O2, n, f, hO,
            hp.cong rfl rfl rfl rfl ⟨rfl, rfl, rfl, rfl, rfl, rfl, [], by simp, Quiet.nil⟩, by omega, hsg', ?_, ?_, rfl⟩
          · show ans c'.env.tr ≤ ans c.env.tr
            have := hl.ts.ans_le; omega
          · omega
        · omega
  | succ A ih =>
    intro c n fuel hst hsegs hn hA hf
    by_cases hnj : n = j
    · subst hnj
      obtain ⟨c', h1, h2⟩ := run_at_feedX' ok [w] (j := n) (fuel := fuel) hst hsegs (by omega)
      exact Or.inl ⟨c', h1, Or.inl h2⟩
    · obtain ⟨f, rfl⟩ : ∃ f, fuel = f + 1 := ⟨fuel - 1, by omega⟩
      obtain ⟨hsame, hph, hsc, hstop, hmx, hsg, hwk⟩ := prePoll_same c n hsegs
      have hst0 := hst.cong hph hsc hstop hmx hsame
      obtain ⟨c', r, hh, hl, ho⟩ := stage_poll ok hst0
      have hpoll := hh.pollB (by omega)
      have hans0 : ans (prePoll c n none).env.tr = ans c.env.tr := by unfold ans; rw [hsame.rd, hsame.wr]
      have hsg' : c'.env.segs = [] := hl.segs.trans hsg
      have hale : ans c'.env.tr ≤ ans c.env.tr := by have := hl.ts.ans_le; omega
      unfold Leg1X
      rw [runFeed_succ, prePoll_ne c n j (fun h => hnj h.symm), hpoll]
      cases ho with
      | @fin O1 O2 hO hfin => exact Or.inl ⟨c', rfl, Or.inr ⟨O1, O2, hO, hfin⟩⟩
      | pend hs' hw ha =>
        simp only [hw, if_true]
        rcases ih c' (n + 1) f hs' hsg' (by omega) (by omega) (by omega) with
          ⟨c2, h1, h2⟩ | ⟨cP, O1, O2, m, f', hO, hp, hm, hsP, haP, hfP, heq⟩
        · exact Or.inl ⟨c2, h1, h2⟩
        · exact Or.inr ⟨cP, O1, O2, m, f', hO, hp, hm, hsP, by omega, by omega, heq⟩
      | @park O1 O2 hs' hO hp =>
        rcases hl.ts.wk with hw | ⟨hw, ha⟩
        · rw [hwk] at hw
          simp only [hw, Bool.false_eq_true, if_false]
          rw [release_nil _ hsg']
          simp only [hw, Bool.false_eq_true, if_false]
          refine Or.inr ⟨{ c' with env := { c'.env with tr := { c'.env.tr with hold := false, woken := false } } }, O1, O2, n, f, hO,
            hp.cong rfl rfl rfl rfl ⟨rfl, rfl, rfl, rfl, rfl, rfl, [], by simp, Quiet.nil⟩, by omega, hsg', ?_, ?_, rfl⟩
          · show ans c'.env.tr ≤ ans c.env.tr
            exact hale
          · omega
        · simp only [hw, if_true]
          rcases ih c' (n + 1) f hs' hsg' (by omega) (by omega) (by omega) with
            ⟨c2, h1, h2⟩ | ⟨cP, O1, O2, m, f', hO, hp, hm, hsP, haP, hfP, heq⟩
          · exact Or.inl ⟨c2, h1, h2⟩
          · exact Or.inr ⟨cP, O1, O2, m, f', hO, hp, hm, hsP, by omega, by omega, heq⟩

/-- `run_stop2X` without the size hypothesis. -/
theorem run_stop2X' {g1 g2 : E2E.Cfg} (ok1 : g1.OK) (ok2 : g2.OK) (hl : Linked g1 g2) (j : Nat)
    {c : Conn} {n fuel : Nat} (hst : Stage g1 c) (hsegs : c.env.segs = []) (hn : n ≤ j)
    (hf : ans c.env.tr + 3 ≤ fuel) :
    ∃ c', runFeed fuel c n (some j) [g2.W] = (c', "RET") ∧ StopOut2X g1 g2 c' := by
  rcases leg1X' ok1 j g2.W (ans c.env.tr) c n fuel hst hsegs hn (Nat.le_refl _) (by omega) with
    ⟨c', h1, h2⟩ | ⟨cP, O1, O2, m, f', hO, hp, hm, hsP, haP, hfP, heq⟩
  · exact ⟨c', h1, Or.inl h2⟩
  · have hfe : feedA cP g2.W = E2E.feed cP (g2.at (g1.L3 O1 O2)).W := feedA_eq_feed cP g2.W hp.inp
    have hst2 : Stage (g2.at (g1.L3 O1 O2)) (feedA cP g2.W) := by
      rw [hfe]; exact next_stage (g2 := g2.at (g1.L3 O1 O2)) hp (hl.at_right _) rfl
    have hin2 : (feedA cP g2.W).env.tr.input = g2.W := by
      show cP.env.tr.input ++ g2.W = g2.W
      rw [hp.inp]; rfl
    obtain ⟨c', hrun, hout⟩ := run_stopX' (ok2.at (g1.L3 O1 O2)) j (ans cP.env.tr) (feedA cP g2.W) (m + 1) f' hst2
      hsP (by omega) (Nat.le_refl _) (by omega)
    refine ⟨c', by rw [heq, runFeed_nil]; exact hrun, Or.inr ⟨O1, O2, hO, ?_, hout⟩⟩
    have hg := Indep3.runTask_grow f' (feedA cP g2.W) (m + 1) (some j)
    rw [hrun] at hg
    obtain ⟨⟨wx, hw⟩, _⟩ := hg
    have hw' : c'.env.tr.wlog = cP.env.tr.wlog ++ wx := hw
    rw [hw', hp.log]
    exact List.prefix_append _ _


end Fcgi.C14E
