import Fcgi.Proofs.E2ENoFuel
import Fcgi.Proofs.E2EStopUnb
/-!
# The graceful-stop executors without the model-fuel bound (`…N`)

Copies (text transformation, suffix `N`) of the lemmas of `Proofs/E2EStop`, `E2EStopX`, `E2EStopUnb` (exact-log versions)
that take a `Cfg.OK`, over `Cfg.OKn` and the engine of `Proofs/E2ENoFuel.lean`.
-/
namespace Fcgi.C14E
open Fcgi Fcgi.Req Fcgi.Str Fcgi.Async Fcgi.Run Fcgi.Spec Fcgi.E2E

/-- what the request parser has put out for a prefix of the wire is a prefix of the owed replies -/
theorem out_prefixN {g : E2E.Cfg} (ok : g.OKn) {F : Bytes} (hF : F <+: g.W) :
    (run .header F g.mc).out <+: owedPreamble g.p g.mc g.recs := by
  rcases C06.run_wire_state ok.wf g.X (F := F) hF g.mc with ⟨e1, _, _, hrun⟩ | ⟨t, ht, hFt, _⟩
  · rw [hrun]; exact List.prefix_refl _
  · have hsplit := Req.run_split (st := .header) trivial F t g.mc ht
    rw [hFt] at hsplit
    have hone := C01.C01_oneshot ok.wf [] g.mc
    rw [List.append_nil] at hone
    have : owedPreamble g.p g.mc g.recs = (run .header (serAll g.recs) g.mc).out := by rw [hone]
    rw [this, hsplit]
    exact List.prefix_append _ _

theorem stageS_pollXN {g : E2E.Cfg} (ok : g.OKn) {c : Conn} (hst : StageS g c) :
    ResSX g (4 * c.env.tr.input.length + 17) c := by
  obtain ⟨hstop, hs⟩ := hst
  have fin_now : ∀ (rp : Req.Parser) (sub : PRSub), c.phase = .parseReq rp sub →
      OutSX g c { c with phase := .finished } .finished → ResSX g (4 * c.env.tr.input.length + 17) c := by
    intro rp sub hph ho
    exact ⟨_, .finished, (Halts.now (step_stop c rp sub hph hstop)).mono (by omega), ⟨.refl _, rfl, rfl⟩, ho⟩
  cases hs with
  | @start raw hph hwire hraw hlog hb _ hsc hm hev =>
    refine fin_now _ _ hph (.early ⟨rfl, hev, ?_, hsc⟩)
    show c.env.tr.wlog <+: _
    have : c.env.tr.wlog = g.L0 := hlog
    rw [this]; exact List.prefix_append _ _
  | @parse F hst hsc hm hev =>
    have hF : F <+: g.W := ⟨c.env.tr.input, by have := hst.wire; rwa [List.append_nil] at this⟩
    have hpre := out_prefixN ok hF
    have hlogp : c.env.tr.wlog <+: g.L0 ++ owedPreamble g.p g.mc g.recs := by
      rcases hst.ph with ⟨_, _, h⟩ | ⟨rest, _, h, _⟩
      · have h' : c.env.tr.wlog = g.L0 ++ (run .header F g.mc).out := h
        rw [h']; exact (List.prefix_append_right_inj _).2 hpre
      · have h' : c.env.tr.wlog ++ rest = g.L0 ++ (run .header F g.mc).out := h
        exact (List.prefix_append _ rest).trans (by rw [h']; exact (List.prefix_append_right_inj _).2 hpre)
    rcases hst.ph with ⟨hph, _, _⟩ | ⟨rest, hph, _⟩
    · exact fin_now _ _ hph (.early ⟨rfl, hev, hlogp, hsc⟩)
    · exact fin_now _ _ hph (.early ⟨rfl, hev, hlogp, hsc⟩)
  | @hread r h hph hr hb _ hev hsc =>
    exact (handler_coreSX (c := c) hph (rd_pollN ok hr hb (by rw [scriptOf_handler (c := c) hph]; exact Nat.add_le_add hr.fuel hr.cost)) hb hstop hev hsc).mono (by omega)
  | @hwrite r h O1 hph hw hb _ hev hsc =>
    refine (handler_coreSX (c := c) hph (write_phaseN hw hb ?_) hb hstop hev hsc).mono (by omega)
    have h1 := handlerFuel_ge c.env r
    have h2 := wcost_le (restOf h.sub g.Wc.data).length
    have h3 : scriptOf c = (restOf h.sub g.Wc.data).length + 1 + 2 := by
      rw [scriptOf_handler (c := c) hph]
      obtain ⟨ops, sub, ws, pr⟩ := h
      have := hw.ops
      simp only at this
      subst this
      simp [scriptCost, wscript, curCost_writeAll, opCost]
    omega
  | @closeW r rest O1 O2 hph hO hce hm hlog hb _ hev hre hsc =>
    refine (close_outSX (c := c) (r2 := r) (rest := rest) hO hph ?_ hce hm hlog hb hstop hev hre hsc).mono (by omega)
    rw [closePoll_late _ _ _ _ _ _ rfl]
  | @close r rest O1 O2 hph hO hce hm hlog hb _ hev hre hsc =>
    refine (close_coreSX (c := c) (r2 := r) (rest := rest) hO hph ?_ (.refl _) rfl hce hm hlog hb hstop hev hre hsc).mono
      (by omega)
    rw [closePoll_late _ _ _ _ _ _ rfl]
    rfl
  | @idle F O1 O2 hO hst hfin hkeep hev hre hsc hmx =>
    -- the reused connection's `parse_request`: it owes nothing for (a prefix of) what was left unread
    have hFU : F <+: g.U := ⟨c.env.tr.input, hfin⟩
    have hout := (run_U_prefixN ok hFU).2
    rcases hst.ph with ⟨hph, _, h⟩ | ⟨rest, hph, h, pre, hpre⟩
    · have h' : c.env.tr.wlog = g.L3 O1 O2 ++ (run .header F g.mc).out := h
      rw [hout, List.append_nil] at h'
      exact fin_now _ _ hph (.done hO ⟨rfl, h', hev, hre, hsc, F, hfin⟩)
    · -- suspended in a `write_all`: what is unsent is a suffix of the parser's output, which is empty
      have h' : c.env.tr.wlog ++ rest = g.L3 O1 O2 ++ (run .header F g.mc).out := h
      have hpre' : (run .header F g.mc).out = pre ++ rest := hpre
      rw [hout] at hpre'
      have hrest : rest = [] := (List.append_eq_nil_iff.1 hpre'.symm).2
      rw [hout, hrest, List.append_nil, List.append_nil] at h'
      exact fin_now _ _ hph (.done hO ⟨rfl, h', hev, hre, hsc, F, hfin⟩)

/-- `run_SX` without the size hypothesis. -/
theorem run_SXN' {g : E2E.Cfg} (ok : g.OKn) : ∀ (A : Nat) (c : Conn) (n fuel : Nat) (sa : Option Nat),
    StageS g c → c.env.segs = [] → ans c.env.tr ≤ A → A + 1 ≤ fuel →
    ∃ c', runTask fuel c n sa = (c', "RET") ∧ FinOutX g c' := by
  intro A
  induction A with
  | zero =>
    intro c n fuel sa hst hsegs hA hf
    obtain ⟨f, rfl⟩ : ∃ f, fuel = f + 1 := ⟨fuel - 1, by omega⟩
    obtain ⟨hsame, hph, hsc, hstop, hmx, hsg, hwk⟩ := prePoll_same c n hsegs
    have hst0 := hst.cong hph hsc hstop hmx hsame
    obtain ⟨c', r, hh, hl, ho⟩ := stageS_pollXN ok hst0
    have hpoll := hh.pollB (by omega)
    have hans0 : ans (prePoll c n none).env.tr = ans c.env.tr := by unfold ans; rw [hsame.rd, hsame.wr]
    rw [runTask_succ, prePoll_stopped c n sa hst.stop, hpoll]
    cases ho with
    | early h => exact ⟨c', rfl, Or.inl h⟩
    | @done O1 O2 hO h => exact ⟨c', rfl, Or.inr ⟨O1, O2, hO, h⟩⟩
    | pend hs' hw ha => omega
  | succ A ih =>
    intro c n fuel sa hst hsegs hA hf
    obtain ⟨f, rfl⟩ : ∃ f, fuel = f + 1 := ⟨fuel - 1, by omega⟩
    obtain ⟨hsame, hph, hsc, hstop, hmx, hsg, hwk⟩ := prePoll_same c n hsegs
    have hst0 := hst.cong hph hsc hstop hmx hsame
    obtain ⟨c', r, hh, hl, ho⟩ := stageS_pollXN ok hst0
    have hpoll := hh.pollB (by omega)
    have hans0 : ans (prePoll c n none).env.tr = ans c.env.tr := by unfold ans; rw [hsame.rd, hsame.wr]
    rw [runTask_succ, prePoll_stopped c n sa hst.stop, hpoll]
    cases ho with
    | early h => exact ⟨c', rfl, Or.inl h⟩
    | @done O1 O2 hO h => exact ⟨c', rfl, Or.inr ⟨O1, O2, hO, h⟩⟩
    | pend hs' hw ha =>
      simp only [hw, if_true]
      exact ih c' (n + 1) f sa hs' (hl.segs.trans hsg) (by omega) (by omega)

/-- `run_atX` without the size hypothesis. -/
theorem run_atXN' {g : E2E.Cfg} (ok : g.OKn) {c : Conn} {j fuel : Nat} (hst : Stage g c) (hsegs : c.env.segs = [])
    (hf : ans c.env.tr + 1 ≤ fuel) :
    ∃ c', runTask fuel c j (some j) = (c', "RET") ∧ FinOutX g c' := by
  obtain ⟨f, rfl⟩ : ∃ f, fuel = f + 1 := ⟨fuel - 1, by omega⟩
  have hS : StageS g { c with stop := true } := by
    refine ⟨rfl, ?_⟩
    have : unstop { c with stop := true } = c := by
      obtain ⟨ph, env, sc, st⟩ := c
      have := stage_stop_false hst
      simp only at this
      subst this
      rfl
    rw [this]; exact hst
  have heq : runTask (f + 1) c j (some j) = runTask (f + 1) { c with stop := true } j (some j) := by
    rw [runTask_succ, runTask_succ, prePoll_eq, prePoll_stopped { c with stop := true } j (some j) rfl]
  rw [heq]
  exact run_SXN' ok (ans c.env.tr) { c with stop := true } j (f + 1) (some j) hS hsegs (Nat.le_refl _) hf

/-- `run_stopX` without the size hypothesis. -/
theorem run_stopXN' {g : E2E.Cfg} (ok : g.OKn) (j : Nat) : ∀ (A : Nat) (c : Conn) (n fuel : Nat),
    Stage g c → c.env.segs = [] → n ≤ j → ans c.env.tr ≤ A → A + 2 ≤ fuel →
    ∃ c', runTask fuel c n (some j) = (c', "RET") ∧ StopOutX g c' := by
  intro A
  induction A with
  | zero =>
    intro c n fuel hst hsegs hn hA hf
    by_cases hnj : n = j
    · subst hnj
      obtain ⟨c', h1, h2⟩ := run_atXN' ok (j := n) (fuel := fuel) hst hsegs (by omega)
      exact ⟨c', h1, Or.inl h2⟩
    · obtain ⟨f, rfl⟩ : ∃ f, fuel = f + 1 := ⟨fuel - 1, by omega⟩
      obtain ⟨hsame, hph, hsc, hstop, hmx, hsg, hwk⟩ := prePoll_same c n hsegs
      have hst0 := hst.cong hph hsc hstop hmx hsame
      obtain ⟨c', r, hh, hl, ho⟩ := stage_pollN ok hst0
      have hpoll := hh.pollB (by omega)
      have hans0 : ans (prePoll c n none).env.tr = ans c.env.tr := by unfold ans; rw [hsame.rd, hsame.wr]
      rw [runTask_succ, prePoll_ne c n j (fun h => hnj h.symm), hpoll]
      cases ho with
      | @fin O1 O2 hO hfin => exact ⟨c', rfl, Or.inr ⟨O1, O2, hO, hfin⟩⟩
      | pend hs' hw ha => omega
      | @park O1 O2 hs' hO hp =>
        rcases hl.ts.wk with hw | ⟨_, ha⟩
        · rw [hwk] at hw
          simp only [hw, Bool.false_eq_true, if_false]
          have hsg' : c'.env.segs = [] := hl.segs.trans hsg
          rw [release_nil _ hsg']
          simp only [hw, Bool.false_eq_true, if_false]
          have hstop' : c'.stop = false := stage_stop_false hs'
          have hjn : (decide (j > n) && !c'.stop) = true := by
            rw [hstop']; simp; omega
          simp only [hjn, if_true]
          have hst2 : Stage g { c' with env := { c'.env with tr := { c'.env.tr with hold := false, woken := false } } } :=
            hs'.cong rfl rfl rfl rfl ⟨rfl, rfl, rfl, rfl, rfl, rfl, [], by simp, Quiet.nil⟩
          obtain ⟨c2, h1, h2⟩ := run_atXN' ok (j := j) (fuel := f) hst2 hsg'
            (by show ans c'.env.tr + 1 ≤ f; have := hl.ts.ans_le; omega)
          exact ⟨c2, h1, Or.inl h2⟩
        · omega
  | succ A ih =>
    intro c n fuel hst hsegs hn hA hf
    by_cases hnj : n = j
    · subst hnj
      obtain ⟨c', h1, h2⟩ := run_atXN' ok (j := n) (fuel := fuel) hst hsegs (by omega)
      exact ⟨c', h1, Or.inl h2⟩
    · obtain ⟨f, rfl⟩ : ∃ f, fuel = f + 1 := ⟨fuel - 1, by omega⟩
      obtain ⟨hsame, hph, hsc, hstop, hmx, hsg, hwk⟩ := prePoll_same c n hsegs
      have hst0 := hst.cong hph hsc hstop hmx hsame
      obtain ⟨c', r, hh, hl, ho⟩ := stage_pollN ok hst0
      have hpoll := hh.pollB (by omega)
      have hans0 : ans (prePoll c n none).env.tr = ans c.env.tr := by unfold ans; rw [hsame.rd, hsame.wr]
      have hsg' : c'.env.segs = [] := hl.segs.trans hsg
      rw [runTask_succ, prePoll_ne c n j (fun h => hnj h.symm), hpoll]
      cases ho with
      | @fin O1 O2 hO hfin => exact ⟨c', rfl, Or.inr ⟨O1, O2, hO, hfin⟩⟩
      | pend hs' hw ha =>
        simp only [hw, if_true]
        exact ih c' (n + 1) f hs' hsg' (by omega) (by omega) (by omega)
      | @park O1 O2 hs' hO hp =>
        have hstop' : c'.stop = false := stage_stop_false hs'
        have hjn : (decide (j > n) && !c'.stop) = true := by
          rw [hstop']; simp; omega
        rcases hl.ts.wk with hw | ⟨hw, ha⟩
        · rw [hwk] at hw
          simp only [hw, Bool.false_eq_true, if_false]
          rw [release_nil _ hsg']
          simp only [hw, Bool.false_eq_true, if_false, hjn, if_true]
          have hst2 : Stage g { c' with env := { c'.env with tr := { c'.env.tr with hold := false, woken := false } } } :=
            hs'.cong rfl rfl rfl rfl ⟨rfl, rfl, rfl, rfl, rfl, rfl, [], by simp, Quiet.nil⟩
          obtain ⟨c2, h1, h2⟩ := run_atXN' ok (j := j) (fuel := f) hst2 hsg'
            (by show ans c'.env.tr + 1 ≤ f; have := hl.ts.ans_le; omega)
          exact ⟨c2, h1, Or.inl h2⟩
        · simp only [hw, if_true]
          exact ih c' (n + 1) f hs' hsg' (by omega) (by omega) (by omega)

/-- `run_S_feedX` without the size hypothesis. -/
theorem run_S_feedXN' {g : E2E.Cfg} (ok : g.OKn) (ws : List Bytes) : ∀ (A : Nat) (c : Conn) (n fuel : Nat) (sa : Option Nat),
    StageS g c → c.env.segs = [] → ans c.env.tr ≤ A → A + 1 ≤ fuel →
    ∃ c', runFeed fuel c n sa ws = (c', "RET") ∧ FinOutX g c' := by
  intro A
  induction A with
  | zero =>
    intro c n fuel sa hst hsegs hA hf
    obtain ⟨f, rfl⟩ : ∃ f, fuel = f + 1 := ⟨fuel - 1, by omega⟩
    obtain ⟨hsame, hph, hsc, hstop, hmx, hsg, hwk⟩ := prePoll_same c n hsegs
    have hst0 := hst.cong hph hsc hstop hmx hsame
    obtain ⟨c', r, hh, hl, ho⟩ := stageS_pollXN ok hst0
    have hpoll := hh.pollB (by omega)
    have hans0 : ans (prePoll c n none).env.tr = ans c.env.tr := by unfold ans; rw [hsame.rd, hsame.wr]
    rw [runFeed_succ, prePoll_stopped c n sa hst.stop, hpoll]
    cases ho with
    | early h => exact ⟨c', rfl, Or.inl h⟩
    | @done O1 O2 hO h => exact ⟨c', rfl, Or.inr ⟨O1, O2, hO, h⟩⟩
    | pend hs' hw ha => omega
  | succ A ih =>
    intro c n fuel sa hst hsegs hA hf
    obtain ⟨f, rfl⟩ : ∃ f, fuel = f + 1 := ⟨fuel - 1, by omega⟩
    obtain ⟨hsame, hph, hsc, hstop, hmx, hsg, hwk⟩ := prePoll_same c n hsegs
    have hst0 := hst.cong hph hsc hstop hmx hsame
    obtain ⟨c', r, hh, hl, ho⟩ := stageS_pollXN ok hst0
    have hpoll := hh.pollB (by omega)
    have hans0 : ans (prePoll c n none).env.tr = ans c.env.tr := by unfold ans; rw [hsame.rd, hsame.wr]
    rw [runFeed_succ, prePoll_stopped c n sa hst.stop, hpoll]
    cases ho with
    | early h => exact ⟨c', rfl, Or.inl h⟩
    | @done O1 O2 hO h => exact ⟨c', rfl, Or.inr ⟨O1, O2, hO, h⟩⟩
    | pend hs' hw ha =>
      simp only [hw, if_true]
      exact ih c' (n + 1) f sa hs' (hl.segs.trans hsg) (by omega) (by omega)

/-- `run_at_feedX` without the size hypothesis. -/
theorem run_at_feedXN' {g : E2E.Cfg} (ok : g.OKn) (ws : List Bytes) {c : Conn} {j fuel : Nat} (hst : Stage g c)
    (hsegs : c.env.segs = [])
    (hf : ans c.env.tr + 1 ≤ fuel) :
    ∃ c', runFeed fuel c j (some j) ws = (c', "RET") ∧ FinOutX g c' := by
  obtain ⟨f, rfl⟩ : ∃ f, fuel = f + 1 := ⟨fuel - 1, by omega⟩
  have hS : StageS g { c with stop := true } := by
    refine ⟨rfl, ?_⟩
    have : unstop { c with stop := true } = c := by
      obtain ⟨ph, env, sc, st⟩ := c
      have := stage_stop_false hst
      simp only at this
      subst this
      rfl
    rw [this]; exact hst
  have heq : runFeed (f + 1) c j (some j) ws = runFeed (f + 1) { c with stop := true } j (some j) ws := by
    rw [runFeed_succ, runFeed_succ, prePoll_eq, prePoll_stopped { c with stop := true } j (some j) rfl]
  rw [heq]
  exact run_S_feedXN' ok ws (ans c.env.tr) { c with stop := true } j (f + 1) (some j) hS hsegs (Nat.le_refl _) hf

/-- `leg1X` without the size hypothesis. -/
theorem leg1XN' {g : E2E.Cfg} (ok : g.OKn) (j : Nat) (w : Bytes) : ∀ (A : Nat) (c : Conn) (n fuel : Nat),
    Stage g c → c.env.segs = [] → n ≤ j → ans c.env.tr ≤ A → A + 2 ≤ fuel →
    Leg1X g j w fuel c n := by
  intro A
  induction A with
  | zero =>
    intro c n fuel hst hsegs hn hA hf
    by_cases hnj : n = j
    · subst hnj
      obtain ⟨c', h1, h2⟩ := run_at_feedXN' ok [w] (j := n) (fuel := fuel) hst hsegs (by omega)
      exact Or.inl ⟨c', h1, Or.inl h2⟩
    · obtain ⟨f, rfl⟩ : ∃ f, fuel = f + 1 := ⟨fuel - 1, by omega⟩
      obtain ⟨hsame, hph, hsc, hstop, hmx, hsg, hwk⟩ := prePoll_same c n hsegs
      have hst0 := hst.cong hph hsc hstop hmx hsame
      obtain ⟨c', r, hh, hl, ho⟩ := stage_pollN ok hst0
      have hpoll := hh.pollB (by omega)
      have hans0 : ans (prePoll c n none).env.tr = ans c.env.tr := by unfold ans; rw [hsame.rd, hsame.wr]
      unfold Leg1X
      rw [runFeed_succ, prePoll_ne c n j (fun h => hnj h.symm), hpoll]
      cases ho with
      | @fin O1 O2 hO hfin => exact Or.inl ⟨c', rfl, Or.inr ⟨O1, O2, hO, hfin⟩⟩
      | pend hs' hw ha => omega
      | @park O1 O2 hs' hO hp =>
        rcases hl.ts.wk with hw | ⟨_, ha⟩
        · rw [hwk] at hw
          have hsg' : c'.env.segs = [] := hl.segs.trans hsg
          simp only [hw, Bool.false_eq_true, if_false]
          rw [release_nil _ hsg']
          simp only [hw, Bool.false_eq_true, if_false]
          refine Or.inr ⟨{ c' with env := { c'.env with tr := { c'.env.tr with hold := false, woken := false } } }, O1, O2, n, f, hO,
            hp.cong rfl rfl rfl rfl ⟨rfl, rfl, rfl, rfl, rfl, rfl, [], by simp, Quiet.nil⟩, by omega, hsg', ?_, ?_, rfl⟩
          · show ans c'.env.tr ≤ ans c.env.tr
            have := hl.ts.ans_le; omega
          · omega
        · omega
  | succ A ih =>
    intro c n fuel hst hsegs hn hA hf
    by_cases hnj : n = j
    · subst hnj
      obtain ⟨c', h1, h2⟩ := run_at_feedXN' ok [w] (j := n) (fuel := fuel) hst hsegs (by omega)
      exact Or.inl ⟨c', h1, Or.inl h2⟩
    · obtain ⟨f, rfl⟩ : ∃ f, fuel = f + 1 := ⟨fuel - 1, by omega⟩
      obtain ⟨hsame, hph, hsc, hstop, hmx, hsg, hwk⟩ := prePoll_same c n hsegs
      have hst0 := hst.cong hph hsc hstop hmx hsame
      obtain ⟨c', r, hh, hl, ho⟩ := stage_pollN ok hst0
      have hpoll := hh.pollB (by omega)
      have hans0 : ans (prePoll c n none).env.tr = ans c.env.tr := by unfold ans; rw [hsame.rd, hsame.wr]
      have hsg' : c'.env.segs = [] := hl.segs.trans hsg
      have hale : ans c'.env.tr ≤ ans c.env.tr := by have := hl.ts.ans_le; omega
      unfold Leg1X
      rw [runFeed_succ, prePoll_ne c n j (fun h => hnj h.symm), hpoll]
      cases ho with
      | @fin O1 O2 hO hfin => exact Or.inl ⟨c', rfl, Or.inr ⟨O1, O2, hO, hfin⟩⟩
      | pend hs' hw ha =>
        simp only [hw, if_true]
        rcases ih c' (n + 1) f hs' hsg' (by omega) (by omega) (by omega) with
          ⟨c2, h1, h2⟩ | ⟨cP, O1, O2, m, f', hO, hp, hm, hsP, haP, hfP, heq⟩
        · exact Or.inl ⟨c2, h1, h2⟩
        · exact Or.inr ⟨cP, O1, O2, m, f', hO, hp, hm, hsP, by omega, by omega, heq⟩
      | @park O1 O2 hs' hO hp =>
        rcases hl.ts.wk with hw | ⟨hw, ha⟩
        · rw [hwk] at hw
          simp only [hw, Bool.false_eq_true, if_false]
          rw [release_nil _ hsg']
          simp only [hw, Bool.false_eq_true, if_false]
          refine Or.inr ⟨{ c' with env := { c'.env with tr := { c'.env.tr with hold := false, woken := false } } }, O1, O2, n, f, hO,
            hp.cong rfl rfl rfl rfl ⟨rfl, rfl, rfl, rfl, rfl, rfl, [], by simp, Quiet.nil⟩, by omega, hsg', ?_, ?_, rfl⟩
          · show ans c'.env.tr ≤ ans c.env.tr
            exact hale
          · omega
        · simp only [hw, if_true]
          rcases ih c' (n + 1) f hs' hsg' (by omega) (by omega) (by omega) with
            ⟨c2, h1, h2⟩ | ⟨cP, O1, O2, m, f', hO, hp, hm, hsP, haP, hfP, heq⟩
          · exact Or.inl ⟨c2, h1, h2⟩
          · exact Or.inr ⟨cP, O1, O2, m, f', hO, hp, hm, hsP, by omega, by omega, heq⟩

/-- `run_stop2X` without the size hypothesis. -/
theorem run_stop2XN' {g1 g2 : E2E.Cfg} (ok1 : g1.OKn) (ok2 : g2.OKn) (hl : Linked g1 g2) (j : Nat)
    {c : Conn} {n fuel : Nat} (hst : Stage g1 c) (hsegs : c.env.segs = []) (hn : n ≤ j)
    (hf : ans c.env.tr + 3 ≤ fuel) :
    ∃ c', runFeed fuel c n (some j) [g2.W] = (c', "RET") ∧ StopOut2X g1 g2 c' := by
  rcases leg1XN' ok1 j g2.W (ans c.env.tr) c n fuel hst hsegs hn (Nat.le_refl _) (by omega) with
    ⟨c', h1, h2⟩ | ⟨cP, O1, O2, m, f', hO, hp, hm, hsP, haP, hfP, heq⟩
  · exact ⟨c', h1, Or.inl h2⟩
  · have hfe : feedA cP g2.W = E2E.feed cP (g2.at (g1.L3 O1 O2)).W := feedA_eq_feed cP g2.W hp.inp
    have hst2 : Stage (g2.at (g1.L3 O1 O2)) (feedA cP g2.W) := by
      rw [hfe]; exact next_stage (g2 := g2.at (g1.L3 O1 O2)) hp (hl.at_right _) rfl
    have hin2 : (feedA cP g2.W).env.tr.input = g2.W := by
      show cP.env.tr.input ++ g2.W = g2.W
      rw [hp.inp]; rfl
    obtain ⟨c', hrun, hout⟩ := run_stopXN' (ok2.at (g1.L3 O1 O2)) j (ans cP.env.tr) (feedA cP g2.W) (m + 1) f' hst2
      hsP (by omega) (Nat.le_refl _) (by omega)
    refine ⟨c', by rw [heq, runFeed_nil]; exact hrun, Or.inr ⟨O1, O2, hO, ?_, hout⟩⟩
    have hg := Indep3.runTask_grow f' (feedA cP g2.W) (m + 1) (some j)
    rw [hrun] at hg
    obtain ⟨⟨wx, hw⟩, _⟩ := hg
    have hw' : c'.env.tr.wlog = cP.env.tr.wlog ++ wx := hw
    rw [hw', hp.log]
    exact List.prefix_append _ _

end Fcgi.C14E
