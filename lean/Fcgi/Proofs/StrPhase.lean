import Fcgi.Proofs.StrHostileOps
import Fcgi.Proofs.StrDecomp
/-!
# Switching the active stream (`set_stream`) against the reference

`set_stream(Some(s'))` with `s'` strictly later than the active stream `s` discards the buffered
stream bytes (`discard_stream`), demotes state `Stream` to `Skip` (the rest of the current record's
payload is skipped) and makes `s'` the active stream; the unconsumed input, `payload_rem`,
`padding_rem` stay.

* `demote`, `switchRef` — what this means for the reference: the replies still owed stay owed;
  nothing of the old stream is delivered any more; if the old stream's reference ended at an end
  mark (`eos`), the new stream's reference runs from that header on (the header is re-dispatched);
  if it ended for lack of input or in a fatal header, so does the new one, at the same place.
* `ref_switch` — **the phase lemma**: `ref E' (demote st) pay pad w = switchRef E' (ref E st pay pad w)`
  for every control state and every byte string.  Consequently the outcome of the new phase does
  not depend on WHERE in the old stream the switch happens.
* `ref_rest` — "exactly the bytes skipped": from a non-`Stream` state the reference is the
  reference at the next record boundary, `pay + pad` bytes further on.
* `set_stream_phase` — the model's `set_stream` against it.
* `later_final` — after a switch to a later stream no further switch is possible (the roles have
  at most two input streams).
-/
namespace Fcgi.Str
open Fcgi Fcgi.Req Fcgi.Spec

/-- The state after a stream switch: `Stream` becomes `Skip`. -/
def demote : SState → SState
  | .stream => .skip
  | st => st

theorem demote_eq (st : SState) : (if st == .stream then SState.skip else st) = demote st := by
  cases st <;> rfl

theorem stateC_demote (st : SState) (c : Bytes) : stateC (demote st) c = [] := by
  cases st <;> rfl
theorem stateO_demote (mc : Nat) (st : SState) (c : Bytes) :
    stateO mc (demote st) c = stateO mc st c := by
  cases st <;> rfl
theorem partialRest_demote (st : SState) (w : Bytes) : partialRest (demote st) w = partialRest st w := by
  cases st <;> rfl

/-- The configuration with another active stream. -/
def Cfg.withStream (E : Cfg) (s' : Nat) : Cfg := { E with s := s' }

/-- **The reference after a switch**, from the reference `R` of the old stream over the same
bytes: replies stay; if `R` ended at an end mark the new stream's reference continues from the
held-back header; otherwise it ends where `R` ended, having delivered nothing. -/
def switchRef (E' : Cfg) (R : RefOut) : RefOut :=
  match R.verdict with
  | .eos => (ref E' .skip 0 0 R.unread).pre [] R.out
  | _ => ⟨[], R.out, R.verdict, R.unread⟩

theorem switchRef_pre (E' : Cfg) (d o : Bytes) (R : RefOut) :
    switchRef E' (R.pre d o) = (switchRef E' R).pre [] o := by
  unfold switchRef
  simp only [RefOut.pre_verdict, RefOut.pre_unread, RefOut.pre_out]
  cases R.verdict <;> simp [RefOut.pre, List.append_assoc]

/-- `switchRef` depends on the replies, the verdict and the unread remainder only — not on how
much of the old stream's content is still to come. -/
theorem switchRef_congr (E' : Cfg) {R T : RefOut} {g : Bytes} (ho : g ++ R.out = T.out)
    (hv : R.verdict = T.verdict) (hu : R.unread = T.unread) :
    g ++ (switchRef E' R).out = (switchRef E' T).out ∧
      (switchRef E' R).content = (switchRef E' T).content ∧
      (switchRef E' R).verdict = (switchRef E' T).verdict ∧
      (switchRef E' R).unread = (switchRef E' T).unread := by
  unfold switchRef
  rw [← hv, ← hu, ← ho]
  cases R.verdict <;> simp [RefOut.pre, List.append_assoc]

theorem hclass_ne_more (E : Cfg) (b0 b1 b2 b3 b4 b5 : UInt8) :
    hclass E b0 b1 b2 b3 b4 b5 ≠ .stop .more := by
  unfold hclass
  repeat' split
  all_goals (intro h; cases h)

theorem not_later_back {role s s' : Nat} (h : Later role (some s) s') : ¬ Later role (some s') s :=
  fun h' => by have := h.1; have := h'.1; omega

theorem not_later_trans {role s s' t : Nat} (h : Later role (some s) s')
    (hn : ¬ Later role (some s) t) : ¬ Later role (some s') t := fun h' => by
  apply hn
  have := h.1; have := h'.1; have := h'.2
  exact ⟨by omega, h'.2⟩

/-- **Headers under the later stream.**  A fatal header is fatal under both; a header the old
stream passes over is passed over by the new one too, with the same reply, entering the demoted
state (the old stream's data records are records of an earlier stream now). -/
theorem hclass_later {E : Cfg} {s' : Nat} (hl : Later E.role (some E.s) s')
    (b0 b1 b2 b3 b4 b5 : UInt8) :
    match hclass E b0 b1 b2 b3 b4 b5 with
    | .stop (.err e) => hclass (E.withStream s') b0 b1 b2 b3 b4 b5 = .stop (.err e)
    | .pass st o => hclass (E.withStream s') b0 b1 b2 b3 b4 b5 = .pass (demote st) o
    | _ => True := by
  obtain ⟨id, role, s, mc⟩ := E
  dsimp only [Cfg.withStream] at hl ⊢
  have hne : s' ≠ s := Later_ne hl
  unfold hclass
  dsimp only
  by_cases hv : b0.toNat ≠ 1
  · simp only [if_pos hv]
  · simp only [if_neg hv]
    by_cases hval : RT.valid b1.toNat = false
    · simp only [if_pos hval]; rfl
    · simp only [if_neg hval]
      by_cases hin : RT.isInputStream b1.toNat = true ∧ be16 b2 b3 = id
      · simp only [if_pos hin]
        by_cases hs : b1.toNat = s
        · simp only [if_pos hs]
          by_cases hz : be16 b4 b5 = 0
          · simp only [if_pos hz]
          · simp only [if_neg hz]
            have h1 : ¬ b1.toNat = s' := fun h => hne (h.symm.trans hs)
            have h2 : ¬ Later role (some s') b1.toNat := by rw [hs]; exact not_later_back hl
            simp only [if_neg h1, if_neg h2]; rfl
        · simp only [if_neg hs]
          by_cases hlt : Later role (some s) b1.toNat
          · simp only [if_pos hlt]
          · simp only [if_neg hlt]
            have h1 : ¬ b1.toNat = s' := fun h => hlt (h ▸ hl)
            have h2 : ¬ Later role (some s') b1.toNat := not_later_trans hl hlt
            simp only [if_neg h1, if_neg h2]; rfl
      · simp only [if_neg hin]
        by_cases hab : b1.toNat = RT.abortRequest ∧ be16 b2 b3 = id
        · simp only [if_pos hab]
        · simp only [if_neg hab]
          by_cases hbg : b1.toNat = RT.beginRequest ∧ be16 b2 b3 ≠ id
          · simp only [if_pos hbg]; rfl
          · simp only [if_neg hbg]
            by_cases hgv : b1.toNat = RT.getValues ∧ be16 b2 b3 = 0
            · simp only [if_pos hgv]; rfl
            · simp only [if_neg hgv]; rfl

/-- **The phase lemma.**  For a switch from stream `E.s` to a strictly later stream `s'`: the
reference of the new stream from the demoted control state, over ANY bytes, is `switchRef` of the
old stream's reference over the same bytes. -/
theorem ref_switch {E : Cfg} {s' : Nat} (hl : Later E.role (some E.s) s') :
    ∀ (w : Bytes) (st : SState) (pay pad : Nat),
      ref (E.withStream s') (demote st) pay pad w = switchRef (E.withStream s') (ref E st pay pad w) := by
  intro w
  generalize hn : w.length = n
  induction n using Nat.strongRecOn generalizing w with
  | _ n ih =>
    intro st pay pad
    have hmc : (E.withStream s').mc = E.mc := rfl
    by_cases hp : 0 < pay
    · by_cases hs : w.length < pay
      · rw [ref_pay_short _ _ pad hp hs, ref_pay_short _ _ pad hp hs]
        simp only [switchRef, stateC_demote, partialRest_demote]
      · have hs' : pay ≤ w.length := by omega
        rw [ref_pay_full _ _ pad hp hs', ref_pay_full _ _ pad hp hs', switchRef_pre,
          stateC_demote, hmc, stateO_demote,
          ih _ (by simp only [List.length_drop]; omega) (w.drop pay) rfl]
    · have hp0 : pay = 0 := by omega
      subst hp0
      by_cases hd : 0 < pad
      · by_cases hs : w.length < pad
        · rw [ref_pad_short _ _ hd hs, ref_pad_short _ _ hd hs]; rfl
        · have hs' : pad ≤ w.length := by omega
          rw [ref_pad_full _ _ hd hs', ref_pad_full _ _ hd hs',
            ih _ (by simp only [List.length_drop]; omega) (w.drop pad) rfl]
      · have hd0 : pad = 0 := by omega
        subst hd0
        by_cases hlen : w.length < 8
        · rw [ref_short _ _ hlen, ref_short _ _ hlen]; rfl
        · obtain ⟨b0, b1, b2, b3, b4, b5, b6, b7, rest, rfl⟩ := cons8_of_len hlen
          rw [ref_hdr, ref_hdr]
          have hh := hclass_later hl b0 b1 b2 b3 b4 b5
          cases hc : hclass E b0 b1 b2 b3 b4 b5 with
          | stop v =>
            rw [hc] at hh
            cases v with
            | more => exact absurd hc (hclass_ne_more _ _ _ _ _ _ _)
            | eos =>
              simp only [switchRef]
              rw [RefOut.pre_nil, ← ref_hdr (E.withStream s') .skip]
            | err e =>
              simp only at hh
              rw [hh]; rfl
          | pass st1 o =>
            rw [hc] at hh
            simp only at hh ⊢
            rw [hh]
            simp only
            rw [switchRef_pre,
              ih _ (by simp only [List.length_cons] at hn ⊢; omega) rest rfl]

/-- **Exactly the bytes skipped.**  From a control state other than `Stream`, with the rest of the
current record present, the reference is the reference at the next record boundary — `pay + pad`
bytes further on — preceded by the reply a GetValues body still owes. -/
theorem ref_rest (E : Cfg) {st : SState} (hst : st ≠ .stream) {pay pad : Nat} {w : Bytes}
    (hw : pay + pad ≤ w.length) :
    ref E st pay pad w =
      (refWire E (w.drop (pay + pad))).pre [] (stateO E.mc st (w.take pay)) := by
  have h := ref_body E st (w.take pay) ((w.drop pay).take pad) (w.drop (pay + pad))
  have l1 : (w.take pay).length = pay := by simp only [List.length_take]; omega
  have l2 : ((w.drop pay).take pad).length = pad := by
    simp only [List.length_take, List.length_drop]; omega
  have hw' : w.take pay ++ ((w.drop pay).take pad ++ w.drop (pay + pad)) = w := by
    rw [← List.drop_drop, List.take_append_drop, List.take_append_drop]
  rw [l1, l2, hw', ref_eq_refWire] at h
  rw [h]
  cases st with
  | stream => exact absurd rfl hst
  | skip => rfl
  | values v => rfl

/-! ## The model's `set_stream` -/

/-- **`set_stream_phase`.**  A legal `set_stream(Some(s'))` in a state of configuration `E`:
either the active stream does not change and neither does the parser (`s'` is the active stream,
or not strictly later: `Err(SequenceError)`); or `s'` is strictly later, and then the new state
belongs to `E' = E.withStream s'`, nothing was queued, the buffered stream bytes are gone, the
unconsumed input and the position in the current record are as before, and what is still to come
under `E'` is `switchRef` of what was still to come under `E` — over the same bytes. -/
theorem set_stream_phase {E : Cfg} {p : Parser} (hm : Match E p) (hinv : SInv p) {s' : Nat}
    (hleg : Legal p (.setStream (some s'))) :
    (¬ Later E.role (some E.s) s' ∧ applyOp p (.setStream (some s')) = p) ∨
    (Later E.role (some E.s) s' ∧
      Match (E.withStream s') (applyOp p (.setStream (some s'))) ∧
      SInv (applyOp p (.setStream (some s'))) ∧
      (applyOp p (.setStream (some s'))).output = p.output ∧
      (applyOp p (.setStream (some s'))).parsed = [] ∧
      (applyOp p (.setStream (some s'))).raw = p.raw ∧
      (applyOp p (.setStream (some s'))).pay = p.pay ∧
      (applyOp p (.setStream (some s'))).pad = p.pad ∧
      (applyOp p (.setStream (some s'))).state = demote p.state ∧
      ∀ fut, Rem (E.withStream s') (applyOp p (.setStream (some s'))) fut =
        switchRef (E.withStream s') (Rem E p fut)) := by
  by_cases hl : Later E.role (some E.s) s'
  · right
    have hcur : ∀ e, p.stream = some e → RT.isInputStream e = true := by
      intro e he
      rw [hm.strm] at he; cases he
      exact mem_inputStreams_isInput hm.mem
    have hne : ¬ some E.s = some s' := fun h => by
      cases h; exact Later_ne hl rfl
    have happ : applyOp p (.setStream (some s')) = p.switchTo (some s') := by
      simp only [applyOp]
      rw [setStream_some_input p hleg hcur, hm.strm, hm.role, if_neg hne, if_pos hl]
    have hinv' := (step_safe hinv hleg).1
    rw [happ] at hinv' ⊢
    have hst : (p.switchTo (some s')).state = demote p.state := by
      simp only [Parser.switchTo]; exact demote_eq p.state
    refine ⟨hl, ⟨hm.id, hm.role, rfl, hm.mc, mem_of_Later hl⟩, hinv', rfl, rfl, rfl, rfl, rfl, hst,
      fun fut => ?_⟩
    unfold Rem
    rw [hst]
    exact ref_switch hl _ _ _ _
  · exact Or.inl ⟨hl, applyOp_setStream_noSwitch hm hleg hl⟩

/-- At a record boundary nothing is skipped: the new stream's reference starts at the first
unconsumed byte (a held-back header is re-dispatched). -/
theorem rem_boundary (E : Cfg) {p : Parser} (hpay : p.pay = 0) (hpad : p.pad = 0) (fut : Bytes) :
    Rem E p fut = refWire E (p.raw ++ fut) := by
  unfold Rem; rw [hpay, hpad]; exact ref_eq_refWire E _ _

/-- Mid-record (state not `Stream`, e.g. after the demotion), with the rest of the record
available: exactly `pay + pad` bytes are skipped. -/
theorem rem_midrecord (E : Cfg) {p : Parser} (hst : p.state ≠ .stream) (fut : Bytes)
    (hw : p.pay + p.pad ≤ (p.raw ++ fut).length) :
    Rem E p fut = (refWire E ((p.raw ++ fut).drop (p.pay + p.pad))).pre []
      (stateO E.mc p.state ((p.raw ++ fut).take p.pay)) :=
  ref_rest E hst hw

/-! ## No second switch -/

/-- The roles have at most two input streams: after a switch to a strictly later stream there is
no stream later still. -/
theorem later_final {role s s' : Nat} (h : Later role (some s) s') (t : Nat) :
    ¬ Later role (some s') t := by
  intro h'
  obtain ⟨a1, a2⟩ := h
  obtain ⟨b1, b2⟩ := h'
  have hlen : (inputStreams role).length ≤ 2 := by
    unfold inputStreams; split
    · simp
    · split <;> simp
  have e1 : rankOf role none = (inputStreams role).length := rfl
  have := List.idxOf_le_length (a := s) (l := inputStreams role)
  simp only [rankOf] at a1 a2 b1 b2
  omega

end Fcgi.Str
