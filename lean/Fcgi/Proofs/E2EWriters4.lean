import Fcgi.Proofs.E2EWriters3
/-!
# "The flush script only shrinks" for EVERY connection, and the executors of `Proofs/E2EWriters2` without `AllProp`

`Proofs/E2EWriters2` took the fact that a poll consumes a prefix of the transport's flush script from
`C12Inv.stepConn_w`, which is stated for connections all of whose handler scripts propagate I/O errors (`AllProp`)
— it proves more (a failing call is final).  The weaker fact holds for every connection: `stepConn_fs`.  With it
the executors need no `AllProp`, and the end-to-end theorems no hypothesis on the later handler scripts.
-/
namespace Fcgi.E2E
open Fcgi Fcgi.Req Fcgi.Str Fcgi.Async Fcgi.Run Fcgi.Spec Fcgi.C09E

/-! ## The flush script only shrinks -/

theorem writeV_fl (t : Transport) (sl : List Bytes) (tag : String) : (t.writeV sl tag).1.fl = t.fl := by
  unfold Transport.writeV
  repeat' split
  all_goals (try simp [Transport.ev])
  all_goals (repeat' split)
  all_goals (try simp)

theorem flush_fl (t : Transport) : t.flush.1.fl <:+ t.fl := by
  obtain ⟨input, endMode, rd, wr, fl, wlog, events, hold, woken, readWaker, abortKind⟩ := t
  rcases fl with _ | ⟨a, rest⟩
  · exact List.suffix_refl _
  · cases a <;> exact List.suffix_cons _ _

theorem fl_of_failed {t t' : Transport} (h : C12Inv.Failed t t') : t'.fl <:+ t.fl := by
  obtain ⟨t1, t2, hc, hf, hs⟩ := h
  have h1 := fl_of_clean hc
  have h3 : t'.fl = t2.fl := hs.2.1
  rw [h3]
  rcases hf with ⟨sl, tag, rfl, _⟩ | ⟨rfl, _⟩
  · rw [writeV_fl]; exact h1
  · exact (flush_fl t1).trans h1

/-- whatever a call did (clean, or failed): the flush answers it consumed are a prefix of the script -/
theorem fl_any {t t' : Transport} {s : Bool} (h : C12Inv.WOut t t' s) : t'.fl <:+ t.fl := by
  rcases h with h | ⟨h, _⟩
  · exact fl_of_clean h
  · exact fl_of_failed h

open C12Inv in
theorem handlerPoll_fs : ∀ (fuel : Nat) (r : AReq) (h : HState) (e : Run.Env)
    {r' : AReq} {h' : HState} {e' : Run.Env} {res : HRes},
    handlerPoll fuel r h e = (r', h', e', res) → e'.tr.fl <:+ e.tr.fl := by
  intro fuel
  induction fuel with
  | zero => intro r h e r' h' e' res hh; simp only [handlerPoll] at hh; cases hh; exact List.suffix_refl _
  | succ n ih =>
    intro r h e r' h' e' res hh
    simp only [handlerPoll] at hh
    repeat' (split at hh)
    all_goals first
      | (cases hh
         first
          | exact List.suffix_refl _
          | (have hp := pollInput_wout ‹_›; have h2 := fl_any hp; exact h2)
          | (have hp := writeablePoll_wout ‹_›; have h2 := fl_any hp; exact h2)
          | (have hp := pollWrite_wout ‹_›; have h2 := fl_any hp; exact h2)
          | (have hp := pollFlush_wout ‹_›; have h2 := fl_any hp; exact h2))
      | (refine (ih _ _ _ hh).trans ?_
         first
          | exact List.suffix_refl _
          | (have hp := pollInput_wout ‹_›; have h2 := fl_any hp; exact h2)
          | (have hp := writeablePoll_wout ‹_›; have h2 := fl_any hp; exact h2)
          | (have hp := pollWrite_wout ‹_›; have h2 := fl_any hp; exact h2)
          | (have hp := pollFlush_wout ‹_›; have h2 := fl_any hp; exact h2))

/-- the flush script after a phase transition is a suffix of the one before -/
def StepFS (c : Conn) : Step → Prop
  | .next c1 => c1.env.tr.fl <:+ c.env.tr.fl
  | .halt c1 _ => c1.env.tr.fl <:+ c.env.tr.fl

open C12Inv in
/-- **Every phase transition of every connection** consumes a prefix of the flush script (no `AllProp`). -/
theorem stepConn_fs (c : Conn) : StepFS c (stepConn c) := by
  obtain ⟨phase, env, scripts, stop⟩ := c
  cases phase with
  | finished => exact List.suffix_refl _
  | handler r h =>
    simp only [stepConn]
    cases hhp : handlerPoll (1000 + env.tr.input.length * 4 + (env.segs.map (·.2.length)).sum * 4 + r.sp.cap * 4 + scriptCost h) r h env with
    | mk r' x =>
      obtain ⟨h', e', res⟩ := x
      have hw := handlerPoll_fs _ _ _ _ hhp
      cases res with
      | pending => exact hw
      | panic s => exact hw
      | done res =>
        cases res with
        | ok st => exact hw
        | error x =>
          simp only []
          split
          · exact hw
          · exact hw
  | closing r cs status alive =>
    simp only [stepConn]
    cases hcp : closePoll r cs status alive env.mutex env.tr with
    | mk r' x =>
      obtain ⟨cs', m', t', res⟩ := x
      have hw := fl_any (closePoll_wout hcp)
      cases res with
      | pending => exact hw
      | panic s => exact hw
      | err e => exact hw
      | reuse rp => exact hw
  | parseReq rp sub =>
    cases stop with
    | true => exact List.suffix_refl _
    | false =>
      cases sub with
      | start =>
        simp only [stepConn, Bool.false_eq_true, if_false]
        cases hp : rp.parse [] with
        | mk rp' oy =>
          cases oy with
          | none => exact List.suffix_refl _
          | some y => exact List.suffix_refl _
      | reading =>
        simp only [stepConn, Bool.false_eq_true, if_false]
        cases hrd : env.tr.read rp.free with
        | mk t pr =>
          have hc := fl_of_clean (read_clean hrd)
          cases pr with
          | pending => exact hc
          | ready ex =>
            cases ex with
            | error e => exact hc
            | ok bs =>
              cases bs with
              | nil => exact hc
              | cons b bs =>
                simp only []
                cases hp : rp.parse (b :: bs) with
                | mk rp' oy =>
                  cases oy with
                  | none => exact hc
                  | some y => exact hc
      | writing rest done =>
        simp only [stepConn, Bool.false_eq_true, if_false]
        cases hwl : writeAllLoop (rest.length + 1) rest env.tr with
        | mk rest' x =>
          obtain ⟨t, res⟩ := x
          have hw := fl_any (writeAllLoop_wout _ _ _ hwl)
          cases res with
          | pending => exact hw
          | err e => exact hw
          | panic s => exact hw
          | ready =>
            simp only []
            cases done with
            | false => exact hw
            | true =>
              simp only [Bool.not_true, Bool.false_eq_true, if_false]
              cases rp.intoStreamParser with
              | error e => exact hw
              | ok sp =>
                cases scripts with
                | nil => exact hw
                | cons s ss =>
                  obtain ⟨o, p⟩ := s
                  exact hw

theorem steps_fs {k : Nat} {c c1 : Conn} (hs : Steps k c c1) : c1.env.tr.fl <:+ c.env.tr.fl := by
  induction hs with
  | refl c => exact List.suffix_refl _
  | @step n c0 c1 c2 h _ ih =>
    have hw := stepConn_fs c0
    rw [h] at hw
    exact ih.trans hw

/-- a poll consumes a prefix of the flush script — for every connection, whatever the poll's result -/
theorem halts_fs {N : Nat} {c c' : Conn} {r : Run.PRes} (h : Halts N c c' r) : c'.env.tr.fl <:+ c.env.tr.fl := by
  obtain ⟨n, c1, _, hs, hh⟩ := h
  have hw := stepConn_fs c1
  rw [hh] at hw
  exact hw.trans (steps_fs hs)

/-! ## The executors without `AllProp` (copies of `Proofs/E2EWriters2`, `E2EWriters3`) -/

theorem GResF.of_stepsN {S A Fn : Conn → Prop} {k N : Nat} {c c1 : Conn} (hs : Steps k c c1)
    (hl : Link c c1) (h : GResF S A Fn N c1) : GResF S A Fn (k + N) c := by
  rcases h with h | ⟨c', hh, hl2, hS, hw, ha⟩
  · exact Or.inl (GRes3.of_steps hs hl h)
  · refine Or.inr ⟨c', hh.of_steps hs, hl.f.trans hl2, hS, hw, ?_⟩
    have := (steps_fs hs).length_le
    have := hl.ts.ans_le
    unfold mu at ha ⊢; omega

theorem run_genN (S : Conn → Prop) (Q : Conn → Prop) (T : Conn → String → Prop)
    (hcong : ∀ c c', S c → c'.phase = c.phase → c'.scripts = c.scripts → c'.stop = c.stop →
      c'.env.mutex = c.env.mutex → TrSame c.env.tr c'.env.tr → S c')
    (hpoll : ∀ c, S c → FlOk c.env.tr →
      (∃ c', Halts (6 * c.env.tr.input.length + 26) c c' .pending ∧ LinkF c c' ∧ S c' ∧
      c'.env.tr.woken = true ∧ mu c'.env.tr < mu c.env.tr) ∨ Q c)
    (hQ : ∀ (c : Conn) (n f : Nat), S c → c.env.segs = [] → Q (prePoll c n none) → mu c.env.tr ≤ f →
      ∃ c'' fin, runTask (f + 1) c n none = (c'', fin) ∧ T c'' fin) :
    ∀ (A : Nat) (c : Conn) (n fuel : Nat), S c → FlOk c.env.tr → c.env.segs = [] →
      mu c.env.tr ≤ A → A + 1 ≤ fuel →
      ∃ c'' fin, runTask fuel c n none = (c'', fin) ∧ T c'' fin := by
  intro A
  induction A with
  | zero =>
    intro c n fuel hS hok hsegs hA hf
    obtain ⟨f, rfl⟩ : ∃ f, fuel = f + 1 := ⟨fuel - 1, by omega⟩
    obtain ⟨hsame, hph, hsc, hstop, hmx, hsg, hwk⟩ := prePoll_same c n hsegs
    have hfl0 : (prePoll c n none).env.tr.fl = c.env.tr.fl := by rw [prePoll_nil c n hsegs]; rfl
    have hans0 : mu (prePoll c n none).env.tr = mu c.env.tr := by unfold mu ans; rw [hsame.rd, hsame.wr, hfl0]
    have hok0 : FlOk (prePoll c n none).env.tr := fun a ha => hok a (by rw [← hfl0]; exact ha)
    rcases hpoll _ (hcong _ _ hS hph hsc hstop hmx hsame) hok0 with ⟨c', hh, hl, hS', hw, ha⟩ | hq
    · omega
    · exact hQ c n f hS hsegs hq (by omega)
  | succ A ih =>
    intro c n fuel hS hok hsegs hA hf
    obtain ⟨f, rfl⟩ : ∃ f, fuel = f + 1 := ⟨fuel - 1, by omega⟩
    obtain ⟨hsame, hph, hsc, hstop, hmx, hsg, hwk⟩ := prePoll_same c n hsegs
    have hfl0 : (prePoll c n none).env.tr.fl = c.env.tr.fl := by rw [prePoll_nil c n hsegs]; rfl
    have hans0 : mu (prePoll c n none).env.tr = mu c.env.tr := by unfold mu ans; rw [hsame.rd, hsame.wr, hfl0]
    have hok0 : FlOk (prePoll c n none).env.tr := fun a ha => hok a (by rw [← hfl0]; exact ha)
    rcases hpoll _ (hcong _ _ hS hph hsc hstop hmx hsame) hok0 with ⟨c', hh, hl, hS', hw, ha⟩ | hq
    · have hpoll' := hh.pollB (Nat.le_refl _)
      have hsg' : c'.env.segs = [] := hl.segs.trans hsg
      have hfl' := halts_fs hh
      obtain ⟨c2, fin, h1, h2⟩ := ih c' (n + 1) f hS' (hok0.suffix hfl') hsg' (by omega) (by omega)
      refine ⟨c2, fin, ?_, h2⟩
      rw [runTask_succ, hpoll']
      simp only [hw, if_true]
      exact h1
    · exact hQ c n f hS hsegs hq (by omega)

theorem run_stagesN {cap mc : Nat} (h24 : 24 ≤ cap) {Z : Bytes} {sc : List (List HOp × Bool)} {h0 : Nat} {ι : Type}
    {P : ι → Prop} {W0 L : ι → Bytes} {evs : ι → List String}
    (hns : ∀ i, P i → NoStuckW cap mc (W0 i))
    (hNF : ∀ i, P i → ∀ F x, F ++ x ++ Z = W0 i → (run .header F mc).st.isFinal = false)
    {S Fn : Conn → Prop}
    (hcong : ∀ c c', S c → c'.phase = c.phase → c'.scripts = c.scripts → c'.stop = c.stop →
      c'.env.mutex = c.env.mutex → TrSame c.env.tr c'.env.tr → S c')
    (hpoll : ∀ c, S c → FlOk c.env.tr →
      GResF S (ZTailAt cap mc Z sc h0 P W0 L evs) Fn (2 * c.env.tr.input.length + 15) c)
    (em : EndMode) (evs0 : List String) (c : Conn) (n0 fuel : Nat) (hst : S c)
    (hem : c.env.tr.endMode = em) (hev0 : ∀ s ∈ evs0, s ∈ c.env.tr.events)
    (hok : FlOk c.env.tr)
    (hsegs : c.env.segs = []) (hf : mu c.env.tr + 1 ≤ fuel) :
    ∃ c'' fin, runTask fuel c n0 none = (c'', fin) ∧
      (GEnd cap mc Z sc h0 P W0 L evs em evs0 (ans c.env.tr) c'' fin ∨
       (fin = "RET" ∧ Fn c'' ∧ c''.env.tr.endMode = em ∧ (∀ s ∈ evs0, s ∈ c''.env.tr.events))) := by
  refine run_genN
    (fun c0 => (S c0 ∨ ZTailAt cap mc Z sc h0 P W0 L evs c0) ∧
      c0.env.tr.endMode = em ∧ (∀ s ∈ evs0, s ∈ c0.env.tr.events) ∧ ans c0.env.tr ≤ ans c.env.tr)
    (fun c0 => (∃ c', Halts (4 * c0.env.tr.input.length + 22) c0 c' .finished ∧ Link c0 c' ∧ Fn c') ∨ ∃ i, P i ∧
      ((∃ c', Halts (4 * c0.env.tr.input.length + 22) c0 c' .pending ∧ Link c0 c' ∧ c'.env.tr.woken = c0.env.tr.woken ∧
        ZT cap mc (W0 i) (L i) Z c' ∧ PKeep sc h0 (evs i) c' ∧ ZParked cap mc (W0 i) (L i) Z c') ∨
      (∃ c', Halts (4 * c0.env.tr.input.length + 22) c0 c' .finished ∧ Link c0 c' ∧
        PKeep sc h0 (evs i) c' ∧ ZFin mc (W0 i) (L i) Z c')))
    (fun c'' fin => GEnd cap mc Z sc h0 P W0 L evs em evs0 (ans c.env.tr) c'' fin ∨
       (fin = "RET" ∧ Fn c'' ∧ c''.env.tr.endMode = em ∧ (∀ s ∈ evs0, s ∈ c''.env.tr.events)))
    (fun c0 c1 h a b c d e => by
      refine ⟨?_, e.em.trans h.2.1, fun s hs => e.mem (h.2.2.1 s hs), by
        have := h.2.2.2; unfold ans at this ⊢; rw [e.rd, e.wr]; exact this⟩
      rcases h.1 with h1 | ⟨i, hi, h1, h2⟩
      · exact Or.inl (hcong _ _ h1 a b c d e)
      · exact Or.inr ⟨i, hi, h1.cong a c e, h2.same b d e⟩)
    (fun c0 h hok0 => ?_)
    (fun c0 n1 f0 hS0 hsg hq _ => ?_)
    (mu c.env.tr) c n0 fuel ⟨Or.inl hst, hem, hev0, Nat.le_refl _⟩ hok hsegs (Nat.le_refl _) hf
  · -- one poll
    have keep : ∀ {c' : Conn}, LinkF c0 c' → c'.env.tr.endMode = em ∧ (∀ s ∈ evs0, s ∈ c'.env.tr.events) ∧
        ans c'.env.tr ≤ ans c.env.tr :=
      fun hl => ⟨hl.em.trans h.2.1, fun s hs => hl.evm s (h.2.2.1 s hs),
        Nat.le_trans hl.ans_le h.2.2.2⟩
    have up : ∀ {c' : Conn} {N : Nat}, Halts N c0 c' .pending → ans c'.env.tr < ans c0.env.tr → mu c'.env.tr < mu c0.env.tr :=
      fun hh ha => by have := (halts_fs hh).length_le; unfold mu; omega
    rcases h.1 with h1 | ⟨i, hi, h1, h2⟩
    · rcases hpoll c0 h1 hok0 with ((⟨c', hh, hl, hS, hw, ha⟩ | ⟨k, c1, hk1, hs, hl, i, hi, hzt, hkp⟩) | ⟨c', hh, hl, hfn⟩) |
          ⟨c', hh, hl, hS, hw, ha⟩
      rotate_left 3
      · exact Or.inl ⟨c', hh.mono (by omega), hl, ⟨Or.inl hS, keep hl⟩, hw, ha⟩
      · exact Or.inl ⟨c', hh.mono (by omega), hl.f, ⟨Or.inl hS, keep hl.f⟩, hw, up hh ha⟩
      · have hin1 := hl.ts.inp
        rcases ZRes.of_steps hs hl (ztail_poll h24 (hns i hi) (hNF i hi) hzt hkp) with
          ⟨c', hh, hl', hS, hw, ha⟩ | ⟨c', hh, r⟩ | ⟨c', hh, r⟩
        · exact Or.inl ⟨c', hh.mono (by omega), hl'.f, ⟨Or.inr ⟨i, hi, hS⟩, keep hl'.f⟩, hw, up hh ha⟩
        · exact Or.inr (Or.inr ⟨i, hi, Or.inl ⟨c', hh.mono (by omega), r⟩⟩)
        · exact Or.inr (Or.inr ⟨i, hi, Or.inr ⟨c', hh.mono (by omega), r⟩⟩)
      · exact Or.inr (Or.inl ⟨c', hh.mono (by omega), hl, hfn⟩)
    · rcases ztail_poll h24 (hns i hi) (hNF i hi) h1 h2 with ⟨c', hh, hl', hS, hw, ha⟩ | ⟨c', hh, r⟩ | ⟨c', hh, r⟩
      · exact Or.inl ⟨c', hh.mono (by omega), hl'.f, ⟨Or.inr ⟨i, hi, hS⟩, keep hl'.f⟩, hw, up hh ha⟩
      · exact Or.inr (Or.inr ⟨i, hi, Or.inl ⟨c', hh.mono (by omega), r⟩⟩)
      · exact Or.inr (Or.inr ⟨i, hi, Or.inr ⟨c', hh.mono (by omega), r⟩⟩)
  · -- from the last poll to the end of `runTask`
    obtain ⟨hsame, hph, hsc, hstop, hmx, hsg', hwk⟩ := prePoll_same c0 n1 hsg
    have hN : 4 * (prePoll c0 n1 none).env.tr.input.length + 22 ≤ 6 * (prePoll c0 n1 none).env.tr.input.length + 26 := by omega
    have keep : ∀ {c' : Conn}, Link (prePoll c0 n1 none) c' → c'.env.tr.endMode = em ∧
        (∀ s ∈ evs0, s ∈ c'.env.tr.events) ∧ ans c'.env.tr ≤ ans c.env.tr ∧ c'.env.segs = [] :=
      fun hl => ⟨(hl.ts.em.trans hsame.em).trans hS0.2.1, fun s hs => hl.ts.evm s (hsame.mem (hS0.2.2.1 s hs)),
        by
          have hans0 : ans (prePoll c0 n1 none).env.tr = ans c0.env.tr := by unfold ans; rw [hsame.rd, hsame.wr]
          have := hl.ts.ans_le; have := hS0.2.2.2; omega, hl.segs.trans hsg'⟩
    rcases hq with ⟨c', hh, hl, hfn⟩ | ⟨i, hi, hq⟩
    · have hpoll' := hh.pollB hN
      obtain ⟨k1, k2, k3, k4⟩ := keep hl
      exact ⟨c', "RET", by rw [runTask_succ, hpoll'], Or.inr ⟨rfl, hfn, k1, k2⟩⟩
    rcases hq with ⟨c', hh, hl, hw, hzt, hkp, hpk⟩ | ⟨c', hh, hl, hkp, hfin⟩
    · have hpoll' := hh.pollB hN
      have hw' : c'.env.tr.woken = false := hw.trans hwk
      obtain ⟨k1, k2, k3, k4⟩ := keep hl
      rw [runTask_succ, hpoll']
      simp only [hw', Bool.false_eq_true, if_false]
      rw [release_nil _ k4]
      simp only [hw', Bool.false_eq_true, if_false]
      refine ⟨_, "STALL", rfl, Or.inl ⟨i, hi, ?_⟩⟩
      obtain ⟨F, hF, hps, hph', hlg⟩ := hpk.pst
      exact ⟨hkp.same rfl rfl ⟨rfl, rfl, rfl, rfl, rfl, rfl, [], by simp, Quiet.nil⟩, k1, k2, k3, k4,
        Or.inl ⟨rfl, ⟨F, hF, hps.cong rfl rfl ⟨rfl, rfl, rfl, rfl, rfl, rfl, [], by simp, Quiet.nil⟩, hph', hlg⟩,
          hpk.inp, hpk.em⟩⟩
    · have hpoll' := hh.pollB hN
      obtain ⟨k1, k2, k3, k4⟩ := keep hl
      exact ⟨c', "RET", by rw [runTask_succ, hpoll'], Or.inl ⟨i, hi, hkp, k1, k2, k3, k4, Or.inr ⟨rfl, hfin⟩⟩⟩

theorem sfw_pollN {g : Cfg} {W : FList} (ok : WFOK g W) {c : Conn} (h : SFw g W c)
    (hok : FlOk c.env.tr) : RF g W (2 * c.env.tr.input.length + 15) c := by
  have hfu := ok.hfu
  have hwc := wcostAll_le W
  rcases h with (h | h | h) | h | h
  · rcases fstage_first ok.fok h with ⟨c', hh, hl, hS', hw, ha⟩ | ⟨k, c1, hk, hs, hl, hf⟩
    · exact Or.inl (Or.inl (Or.inl ⟨c', hh.mono (by omega), hl, Or.inl (Or.inl hS'), hw, ha⟩))
    · have hfl1 := steps_fs hs
      exact (GResF.of_stepsN hs hl (writersF_first ok c1 hf (hok.suffix hfl1))).mono (by omega)
  · exact (ha_poll ok h hok).mono (by omega)
  · exact (hwf_poll ok h hok).mono (by omega)
  · exact Or.inl ((hwq_pollW (qr_mono g) (by omega) h).mono (by omega))
  · exact Or.inl ((tq_pollW (qr_mono g) h).mono (by omega))

/-- **The executor**: a Responder whose handler reads all of Stdin and then runs any sequence of `write_all` and
`flush` calls on its two writers, over a transport with any script of `Pending`/`Ok` flush answers. -/
theorem run_writersN {g : Cfg} {W : FList} (ok : WFOK g W) {Z : Bytes}
    (hns : NoStuckW g.cap g.mc (g.U ++ Z))
    (hNF : ∀ F x, F ++ x ++ Z = g.U ++ Z → (run .header F g.mc).st.isFinal = false)
    (em : EndMode) (evs0 : List String) (c : Conn) (n0 fuel : Nat) (hst : FStage g c)
    (hem : c.env.tr.endMode = em) (hev0 : ∀ s ∈ evs0, s ∈ c.env.tr.events)
    (hok : FlOk c.env.tr)
    (hsegs : c.env.segs = []) (hf : mu c.env.tr + 1 ≤ fuel) :
    ∃ c'' fin, runTask fuel c n0 none = (c'', fin) ∧
      (GEnd g.cap g.mc Z g.more (g.hs0 + 1)
          (fun i : Bytes × Bytes => g.p.flags.toNat % 2 = 1 ∧ i.1 ++ i.2 = g.Ob)
          (fun _ => g.U ++ Z) (fun i => g.Lw (writesOf W) i.1 i.2)
          (fun _ => [hsEvent g.p.request, rEvent g.content]) em evs0 (ans c.env.tr) c'' fin ∨
       (fin = "RET" ∧ FQW g (writesOf W) (QR g) c'' ∧ c''.env.tr.endMode = em ∧ (∀ s ∈ evs0, s ∈ c''.env.tr.events))) :=
  run_stagesN (cap24 g) (fun _ _ => hns) (fun _ _ => hNF)
    (fun _ _ h => SQW.cong (qr_mono g) (fun c c' h a b d e f => S0F.cong c c' h a b d e f) h)
    (fun _ h hok => (sfw_pollN ok h hok).imp3 (fun c1 _ h => by
      obtain ⟨O1, O2, hO, q3, haf⟩ := h
      obtain ⟨raw, hph, hw, hraw⟩ := haf.ph
      exact ⟨(O1, O2), ⟨haf.keep, hO⟩,
        Or.inr ⟨raw, hph, by rw [hw], hraw, haf.log, haf.ben, haf.stop⟩,
        ⟨haf.sc, haf.mtx, haf.ev.1, fun s hs => by
          rcases List.mem_cons.1 hs with rfl | hs
          · exact haf.ev.2
          · rw [List.mem_singleton.1 hs]; exact q3⟩⟩))
    em evs0 c n0 fuel (Or.inl (Or.inl hst)) hem hev0 hok hsegs hf

theorem sf3_pollN {g : Cfg} {W : FList} (ok : WFOK3 g W) {c : Conn} (h : SF3 g W c)
    (hok : FlOk c.env.tr) : RFf g W (2 * c.env.tr.input.length + 15) c := by
  have hfu := ok.hfu
  have hwc := wcostAll_le W
  rcases h with (h | h | h | h) | h | h
  · rcases fstage_first ok.fok h with ⟨c', hh, hl, hS', hw, ha⟩ | ⟨k, c1, hk, hs, hl, hf⟩
    · exact Or.inl (Or.inl (Or.inl ⟨c', hh.mono (by omega), hl, Or.inl (Or.inl hS'), hw, ha⟩))
    · have hfl1 := steps_fs hs
      exact (GResF.of_stepsN hs hl (filterF_first ok c1 hf (hok.suffix hfl1))).mono (by omega)
  · exact (hf1_poll ok h hok).mono (by omega)
  · exact (hf2_poll ok h hok).mono (by omega)
  · exact (hwf_poll3 (qr2_mono g) s0f3_inj (by omega) h hok).mono (by omega)
  · exact Or.inl ((hwq_poll3 (qr2_mono g) (by omega) h).mono (by omega))
  · exact Or.inl ((tq_poll3 (qr2_mono g) h).mono (by omega))

/-- **The executor** for the Filter. -/
theorem run_filterWN {g : Cfg} {W : FList} (ok : WFOK3 g W) {Z : Bytes}
    (hns : NoStuckW g.cap g.mc (g.U ++ Z))
    (hNF : ∀ F x, F ++ x ++ Z = g.U ++ Z → (run .header F g.mc).st.isFinal = false)
    (em : EndMode) (evs0 : List String) (c : Conn) (n0 fuel : Nat) (hst : FStage g c)
    (hem : c.env.tr.endMode = em) (hev0 : ∀ s ∈ evs0, s ∈ c.env.tr.events)
    (hok : FlOk c.env.tr)
    (hsegs : c.env.segs = []) (hf : mu c.env.tr + 1 ≤ fuel) :
    ∃ c'' fin, runTask fuel c n0 none = (c'', fin) ∧
      (GEnd g.cap g.mc Z g.more (g.hs0 + 1)
          (fun i : Bytes × Bytes => g.p.flags.toNat % 2 = 1 ∧ i.1 ++ i.2 = g.Ot)
          (fun _ => g.U ++ Z) (fun i => g.Lw (writesOf W) i.1 i.2)
          (fun _ => [hsEvent g.p.request, rEvent g.content, rEvent g.content2]) em evs0 (ans c.env.tr) c'' fin ∨
       (fin = "RET" ∧ FQ3 g (writesOf W) (QR2 g) c'' ∧ c''.env.tr.endMode = em ∧ (∀ s ∈ evs0, s ∈ c''.env.tr.events))) :=
  run_stagesN (cap24 g) (fun _ _ => hns) (fun _ _ => hNF)
    (fun _ _ h => SQ3.cong (qr2_mono g) (fun c c' h a b d e f => S0F3.cong c c' h a b d e f) h)
    (fun _ h hok => (sf3_pollN ok h hok).imp3 (fun c1 _ h => by
      obtain ⟨O1, O2, hO, q3, haf⟩ := h
      obtain ⟨raw, hph, hw, hraw⟩ := haf.ph
      exact ⟨(O1, O2), ⟨haf.keep, hO⟩,
        Or.inr ⟨raw, hph, by rw [hw], hraw, haf.log, haf.ben, haf.stop⟩,
        ⟨haf.sc, haf.mtx, haf.ev.1, fun s hs => by
          rcases List.mem_cons.1 hs with rfl | hs
          · exact haf.ev.2
          rcases List.mem_cons.1 hs with rfl | hs
          · exact q3.1
          · rw [List.mem_singleton.1 hs]; exact q3.2⟩⟩))
    em evs0 c n0 fuel (Or.inl (Or.inl hst)) hem hev0 hok hsegs hf

end Fcgi.E2E
