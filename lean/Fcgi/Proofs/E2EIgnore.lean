import Fcgi.Proofs.E2EUnreadChain
/-!
# End-to-end composition (C07/C05) — the stream parser in "ignore" mode (`stream = None`)

`close()` calls `set_stream(None)` and then `record_boundary()`, which runs the stream parser with
no active stream until it stands at a record boundary.  The reference semantics of
`Proofs/StrRef`/`StrHostile` needs an active stream (`Match`).  Here:

* `view`: the parser seen as a Filter's parser reading the Data stream.  On a wire without own-id
  Data records (a Responder's Stdin stream) the ignoring parser and its view do the same thing
  (`iter_view`, `loop_view`, `parse_view`) — so the reference applies to the view;
* `Pos`: the pure framing invariant (what is buffered ++ what is to come = the rest of the current
  record ++ whole records of the original list), kept by every `parse` call in ignore mode
  (`parse_pos`): the parser never loses the record boundaries of the wire.
-/
namespace Fcgi.E2E
open Fcgi Fcgi.Req Fcgi.Str Fcgi.Async Fcgi.Run Fcgi.Spec

def view (p : Str.Parser) : Str.Parser :=
  { p with stream := some 8, request := { p.request with role := 3 } }

def vS (r : Status) : Status := { r with streamEnd := false }

def mapv : Iter → Iter
  | .cont p d r => .cont (view p) d (vS r)
  | .stop p r => .stop (view p) (vS r)
  | .err p e => .err (view p) e
  | .panic s => .panic s

theorem parsePayload_view (p : Str.Parser) (dest : Option Nat) (r : Status) :
    parsePayload (view p) dest (vS r) = mapv (parsePayload p dest r) := by
  unfold parsePayload
  cases hst : p.state <;> cases dest <;> simp only [view, vS, hst] <;> (repeat' split) <;> simp_all [mapv, view, vS]

/-- the header at the front (if complete) is not that of an own-id Data record -/
def HeadOK (id : Nat) (w : Bytes) : Prop :=
  ∀ b0 b1 b2 b3 b4 b5 b6 b7 rest, w = b0 :: b1 :: b2 :: b3 :: b4 :: b5 :: b6 :: b7 :: rest →
    ¬ (b1.toNat = 8 ∧ be16 b2 b3 = id)

theorem cmp_none (role t : Nat) : cmpInputStreams role t none = some .lt := rfl

theorem cmp_view5 : cmpInputStreams 3 5 (some 8) = some .lt := by decide

theorem parseHead_view (p : Str.Parser) (hs : p.stream = none) (hok : HeadOK p.request.id p.raw)
    (dest : Option Nat) (r : Status) :
    parseHead (view p) dest (vS r) = mapv (parseHead p dest r) := by
  by_cases hlen : p.raw.length < 8
  · rw [parseHead_short hlen, parseHead_short (p := view p) hlen]; rfl
  · obtain ⟨b0, b1, b2, b3, b4, b5, b6, b7, rest, hraw⟩ := cons8_of_len hlen
    have hno := hok b0 b1 b2 b3 b4 b5 b6 b7 rest hraw
    have hvraw : (view p).raw = b0 :: b1 :: b2 :: b3 :: b4 :: b5 :: b6 :: b7 :: rest := hraw
    simp only [parseHead, hraw, hvraw]
    cases hfb : RecordHeader.fromBytes [b0, b1, b2, b3, b4, b5, b6, b7] with
    | none => simp [mapv, view, vS]
    | some x =>
      cases x with
      | error e =>
        cases e <;> simp [mapv, view, vS]
      | ok head =>
        simp only [hs, cmp_none]
        have hhd : head.rtype = b1.toNat ∧ head.requestId = be16 b2 b3 := by
          simp only [RecordHeader.fromBytes] at hfb
          split at hfb
          · cases hfb
          · split at hfb
            · cases hfb
            · cases hfb; exact ⟨rfl, rfl⟩
        have hvid : (view p).request.id = p.request.id := rfl
        have hvrole : (view p).request.role = 3 := rfl
        have hvs : (view p).stream = some 8 := rfl
        rw [hvid, hvrole, hvs]
        by_cases hc : (RT.isInputStream head.rtype && head.requestId == p.request.id) = true
        · rw [if_pos hc, if_pos hc]
          simp only [Bool.and_eq_true, beq_iff_eq] at hc
          have h5 : head.rtype = 5 := by
            have := hc.1
            simp only [RT.isInputStream, Bool.or_eq_true, beq_iff_eq] at this
            rcases this with h | h
            · exact h
            · exact absurd ⟨by rw [← hhd.1]; exact h, by rw [← hhd.2]; exact hc.2⟩ hno
          rw [h5, cmp_view5]
          rfl
        · rw [if_neg hc, if_neg hc]
          repeat' split
          all_goals rfl

/-! ## The framing invariant -/

/-- What is buffered ++ what is still to come = the rest of the current record's payload, its
padding, and whole records — a suffix of the original record list `R`. -/
def Pos (R : List Rec) (raw : Bytes) (pay pad : Nat) (fut : Bytes) : Prop :=
  ∃ c pd rs, c.length = pay ∧ pd.length = pad ∧ raw ++ fut = c ++ (pd ++ serAll rs) ∧ rs <:+ R

theorem Pos.drop {R : List Rec} {raw fut : Bytes} {pay pad k : Nat} (h : Pos R raw pay pad fut)
    (hk : k ≤ pay) (hr : k ≤ raw.length) : Pos R (raw.drop k) (pay - k) pad fut := by
  obtain ⟨c, pd, rs, hc, hpd, hw, hsuf⟩ := h
  refine ⟨c.drop k, pd, rs, by simp [hc], hpd, ?_, hsuf⟩
  have := congrArg (List.drop k) hw
  rw [List.drop_append_of_le_length hr, List.drop_append_of_le_length (by omega)] at this
  exact this

theorem Pos.dropPad {R : List Rec} {raw fut : Bytes} {pad k : Nat} (h : Pos R raw 0 pad fut)
    (hk : k ≤ pad) (hr : k ≤ raw.length) : Pos R (raw.drop k) 0 (pad - k) fut := by
  obtain ⟨c, pd, rs, hc, hpd, hw, hsuf⟩ := h
  have hc0 : c = [] := List.length_eq_zero_iff.1 hc
  subst hc0
  refine ⟨[], pd.drop k, rs, rfl, by simp [hpd], ?_, hsuf⟩
  have := congrArg (List.drop k) hw
  rw [List.drop_append_of_le_length hr, List.nil_append, List.drop_append_of_le_length (by omega)] at this
  rw [List.nil_append]
  exact this

/-- at a record boundary with a complete header buffered: it is the header of the next record of
the list -/
theorem Pos.head {R : List Rec} (hwf : ∀ r ∈ R, r.WF) {b0 b1 b2 b3 b4 b5 b6 b7 : UInt8} {rest fut : Bytes}
    (h : Pos R (b0 :: b1 :: b2 :: b3 :: b4 :: b5 :: b6 :: b7 :: rest) 0 0 fut) :
    Pos R rest (be16 b4 b5) b6.toNat fut ∧ ∃ r ∈ R, b1 = r.rtype ∧ be16 b2 b3 = r.id := by
  obtain ⟨c, pd, rs, hc, hpd, hw, hsuf⟩ := h
  have hc0 : c = [] := List.length_eq_zero_iff.1 hc
  have hp0 : pd = [] := List.length_eq_zero_iff.1 hpd
  subst hc0 hp0
  simp only [List.nil_append] at hw
  cases rs with
  | nil => simp [serAll] at hw
  | cons r rs' =>
    have hrR : r ∈ R := hsuf.subset List.mem_cons_self
    have hrw := hwf r hrR
    rw [serAll_cons] at hw
    obtain ⟨e1, e2⟩ := raw_hdr (raw := b0 :: b1 :: b2 :: b3 :: b4 :: b5 :: b6 :: b7 :: rest) hw (by simp)
    simp only [hdr, List.drop_succ_cons, List.drop_zero, List.cons_append, List.nil_append, List.cons.injEq] at e1
    obtain ⟨_, h1, h2, h3, h4, h5, h6, _, _⟩ := e1
    have hsuf' : rs' <:+ R := (List.suffix_cons r rs').trans hsuf
    refine ⟨⟨r.content, r.pad, rs', ?_, ?_, ?_, hsuf'⟩, r, hrR, h1, ?_⟩
    · rw [h4, h5]; exact (be16_toBe16 hrw.2.1).symm
    · rw [h6]; exact (toNat_ofNat_lt hrw.2.2).symm
    · simpa using e2
    · rw [h2, h3]; exact be16_toBe16 hrw.1

/-- the records none of which is an own-id Data record -/
def RecsOK (id : Nat) (R : List Rec) : Prop := ∀ r ∈ R, r.WF ∧ ¬ (r.rtype.toNat = 8 ∧ r.id = id)

theorem Pos.headOK {id : Nat} {R : List Rec} (hR : RecsOK id R) {raw fut : Bytes} (h : Pos R raw 0 0 fut) :
    HeadOK id raw := by
  intro b0 b1 b2 b3 b4 b5 b6 b7 rest hraw
  rw [hraw] at h
  obtain ⟨_, r, hr, h1, h2⟩ := h.head (fun r hr => (hR r hr).1)
  rw [h1, h2]
  exact (hR r hr).2

/-! ## What the micro-steps do to the framing -/

def PayShape (p : Str.Parser) : Iter → Prop
  | .cont q _ _ => ∃ k, k ≤ p.pay ∧ k ≤ p.raw.length ∧ q.raw = p.raw.drop k ∧ q.pay = p.pay - k ∧ q.pay = 0 ∧
      q.pad = p.pad ∧ q.stream = p.stream ∧ q.request = p.request
  | .stop q _ => ∃ k, k ≤ p.pay ∧ k ≤ p.raw.length ∧ q.raw = p.raw.drop k ∧ q.pay = p.pay - k ∧
      q.pad = p.pad ∧ q.stream = p.stream ∧ q.request = p.request
  | .err _ _ => False
  | .panic _ => True

theorem parsePayload_fr (p : Str.Parser) (dest : Option Nat) (r : Status) :
    PayShape p (parsePayload p dest r) := by
  unfold parsePayload
  cases hst : p.state with
  | stream =>
    cases dest with
    | some c =>
      simp only
      split
      · trivial
      · rename_i hc
        split
        · rename_i h2
          simp only [Bool.and_eq_true, beq_iff_eq] at h2
          exact ⟨_, by omega, by omega, rfl, rfl, h2.1, rfl, rfl, rfl⟩
        · exact ⟨_, by omega, by omega, rfl, rfl, rfl, rfl, rfl⟩
    | none =>
      simp only
      split
      · trivial
      · rename_i hc
        split
        · rename_i h2
          simp only [Bool.and_eq_true, beq_iff_eq] at h2
          exact ⟨_, by omega, by omega, rfl, rfl, h2.1, rfl, rfl, rfl⟩
        · exact ⟨_, by omega, by omega, rfl, rfl, rfl, rfl, rfl⟩
  | skip =>
    simp only
    split
    · trivial
    · rename_i hc
      split
      · rename_i h2
        simp only [Bool.and_eq_true, beq_iff_eq] at h2
        exact ⟨_, by omega, by omega, rfl, rfl, h2.1, rfl, rfl, rfl⟩
      · exact ⟨_, by omega, by omega, rfl, rfl, rfl, rfl, rfl⟩
  | values v =>
    simp only
    split
    · rename_i hlt
      simp only [hlt, if_true]
      split
      · trivial
      · rename_i hc
        split
        · rename_i h2
          simp only [Bool.and_eq_true, beq_iff_eq] at h2
          exact ⟨_, by omega, by omega, rfl, rfl, h2.1, rfl, rfl, rfl⟩
        · exact ⟨_, by omega, by omega, rfl, rfl, rfl, rfl, rfl⟩
    · rename_i hlt
      simp only [hlt, if_false]
      split
      · trivial
      · rename_i hc
        split
        · rename_i h2
          simp only [Bool.and_eq_true, beq_iff_eq] at h2
          exact ⟨_, by omega, by omega, rfl, rfl, h2.1, rfl, rfl, rfl⟩
        · exact ⟨_, by omega, by omega, rfl, rfl, rfl, rfl, rfl⟩

def HeadShape (p : Str.Parser) : Iter → Prop
  | .cont q _ _ => ∃ b0 b1 b2 b3 b4 b5 b6 b7 rest, p.raw = b0 :: b1 :: b2 :: b3 :: b4 :: b5 :: b6 :: b7 :: rest ∧
      q.raw = rest ∧ q.pay = be16 b4 b5 ∧ q.pad = b6.toNat ∧ q.stream = p.stream ∧ q.request = p.request
  | .stop q _ => q = p
  | .err q _ => q = p
  | .panic _ => True

theorem parseHead_fr (p : Str.Parser) (dest : Option Nat) (r : Status) : HeadShape p (parseHead p dest r) := by
  by_cases hlen : p.raw.length < 8
  · rw [parseHead_short hlen]; rfl
  · obtain ⟨b0, b1, b2, b3, b4, b5, b6, b7, rest, hraw⟩ := cons8_of_len hlen
    simp only [parseHead, hraw]
    cases hfb : RecordHeader.fromBytes [b0, b1, b2, b3, b4, b5, b6, b7] with
    | none => rfl
    | some x =>
      cases x with
      | error e =>
        cases e with
        | unknownRecordType t => exact ⟨b0, b1, b2, b3, b4, b5, b6, b7, rest, hraw, rfl, rfl, rfl, rfl, rfl⟩
        | unknownVersion v => rfl
        | _ => rfl
      | ok head =>
        have hhd : head.contentLength = be16 b4 b5 ∧ head.paddingLength = b6.toNat := by
          simp only [RecordHeader.fromBytes] at hfb
          split at hfb
          · cases hfb
          · split at hfb
            · cases hfb
            · cases hfb; exact ⟨rfl, rfl⟩
        simp only
        repeat' split
        all_goals first
          | trivial
          | rfl
          | exact ⟨b0, b1, b2, b3, b4, b5, b6, b7, rest, hraw, rfl, hhd.1, hhd.2, rfl, rfl⟩

/-! ## One iteration, the loop, one `parse` call in ignore mode -/

/-- the ignoring parser of request `id`, framed on the record list `R` -/
structure Ign (id : Nat) (R : List Rec) (p : Str.Parser) (fut : Bytes) : Prop where
  strm : p.stream = none
  rid : p.request.id = id
  pos : Pos R p.raw p.pay p.pad fut

def IterIgn (id : Nat) (R : List Rec) (fut : Bytes) : Iter → Prop
  | .cont q _ _ => Ign id R q fut
  | .stop q _ => Ign id R q fut
  | .err q _ => Ign id R q fut
  | .panic _ => True

/-- the padding step followed by `parse_head` -/
def padHead (q : Str.Parser) (d : Option Nat) (r : Status) : Iter :=
  if q.pad > 0 then
    if q.raw.length ≤ q.pad then
      .stop { q with raw := [], g1 := q.g1 + q.raw.length, pad := q.pad - q.raw.length } r
    else parseHead { q with raw := q.raw.drop q.pad, g1 := q.g1 + q.pad, pad := 0 } d r
  else parseHead q d r

theorem iter_eq (p : Str.Parser) (dest : Option Nat) (res : Status) :
    iter p dest res =
      match (if p.pay > 0 then parsePayload p dest res else .cont p dest res) with
      | .cont p d r => padHead p d r
      | x => x := by
  unfold iter padHead
  split <;> rfl

theorem headIgn {id : Nat} {R : List Rec} (hR : RecsOK id R) {q : Str.Parser} {fut : Bytes}
    (h : Ign id R q fut) (hpay : q.pay = 0) (hpad : q.pad = 0) (d : Option Nat) (r : Status) :
    parseHead (view q) d (vS r) = mapv (parseHead q d r) ∧ IterIgn id R fut (parseHead q d r) := by
  have hpos : Pos R q.raw 0 0 fut := by have := h.pos; rwa [hpay, hpad] at this
  refine ⟨parseHead_view q h.strm (by rw [h.rid]; exact hpos.headOK hR) d r, ?_⟩
  have hsh := parseHead_fr q d r
  cases hph : parseHead q d r with
  | cont q' d' r' =>
    rw [hph] at hsh
    obtain ⟨b0, b1, b2, b3, b4, b5, b6, b7, rest, hraw, e1, e2, e3, e4, e5⟩ := hsh
    rw [hraw] at hpos
    obtain ⟨hp', _⟩ := hpos.head (fun r hr => (hR r hr).1)
    exact ⟨e4.trans h.strm, by rw [e5]; exact h.rid, by rw [e1, e2, e3]; exact hp'⟩
  | stop q' r' => rw [hph] at hsh; cases hsh; exact h
  | err q' e => rw [hph] at hsh; cases hsh; exact h
  | panic s => trivial

theorem padHeadIgn {id : Nat} {R : List Rec} (hR : RecsOK id R) {q : Str.Parser} {fut : Bytes}
    (h : Ign id R q fut) (hpay : q.pay = 0) (d : Option Nat) (r : Status) :
    padHead (view q) d (vS r) = mapv (padHead q d r) ∧ IterIgn id R fut (padHead q d r) := by
  unfold padHead
  have hvpad : (view q).pad = q.pad := rfl
  have hvraw : (view q).raw = q.raw := rfl
  rw [hvpad, hvraw]
  have hpos : Pos R q.raw 0 q.pad fut := by have := h.pos; rwa [hpay] at this
  split
  · split
    · rename_i hle
      refine ⟨rfl, h.strm, h.rid, ?_⟩
      show Pos R [] q.pay (q.pad - q.raw.length) fut
      have := hpos.dropPad (k := q.raw.length) hle (Nat.le_refl _)
      rw [List.drop_length] at this
      rw [hpay]; exact this
    · rename_i hgt
      have hq : Ign id R { q with raw := q.raw.drop q.pad, g1 := q.g1 + q.pad, pad := 0 } fut :=
        ⟨h.strm, h.rid, by
          show Pos R (q.raw.drop q.pad) q.pay 0 fut
          have := hpos.dropPad (k := q.pad) (Nat.le_refl _) (by omega)
          rw [Nat.sub_self] at this
          rw [hpay]; exact this⟩
      exact headIgn hR hq hpay rfl d r
  · rename_i hpad
    exact headIgn hR h hpay (by omega) d r

theorem iter_ign {id : Nat} {R : List Rec} (hR : RecsOK id R) {p : Str.Parser} {fut : Bytes}
    (h : Ign id R p fut) (dest : Option Nat) (r : Status) :
    iter (view p) dest (vS r) = mapv (iter p dest r) ∧ IterIgn id R fut (iter p dest r) := by
  rw [iter_eq, iter_eq]
  have hvpay : (view p).pay = p.pay := rfl
  rw [hvpay]
  by_cases hpay : p.pay > 0
  · simp only [hpay, if_true]
    rw [parsePayload_view]
    have hsh := parsePayload_fr p dest r
    cases hpp : parsePayload p dest r with
    | cont q d r' =>
      rw [hpp] at hsh
      obtain ⟨k, k1, k2, e1, e2, e3, e4, e5, e6⟩ := hsh
      have hq : Ign id R q fut := ⟨e5.trans h.strm, by rw [e6]; exact h.rid, by
        rw [e1, e2, e4]; exact h.pos.drop k1 k2⟩
      exact padHeadIgn hR hq e3 d r'
    | stop q r' =>
      rw [hpp] at hsh
      obtain ⟨k, k1, k2, e1, e2, e4, e5, e6⟩ := hsh
      exact ⟨rfl, e5.trans h.strm, by rw [e6]; exact h.rid, by rw [e1, e2, e4]; exact h.pos.drop k1 k2⟩
    | err q e => rw [hpp] at hsh; exact hsh.elim
    | panic s => exact ⟨rfl, trivial⟩
  · simp only [hpay, if_false]
    exact padHeadIgn hR h (by omega) dest r

/-- how the results of the two loops correspond -/
def resv : ParseRes → ParseRes
  | .ok st => .ok (vS st)
  | x => x

theorem loop_ign {id : Nat} {R : List Rec} (hR : RecsOK id R) : ∀ (n : Nat) (p : Str.Parser) (fut : Bytes)
    (dest : Option Nat) (r : Status), p.raw.length ≤ n → Ign id R p fut →
    loop (view p) dest (vS r) = (view (loop p dest r).1, resv (loop p dest r).2) ∧
      (Ign id R (loop p dest r).1 fut ∨ ∃ s, (loop p dest r).2 = .panic s) := by
  intro n
  induction n with
  | zero =>
    intro p fut dest r hn h
    have he : p.raw = [] := List.length_eq_zero_iff.1 (by omega)
    have hv : (view p).raw = [] := he
    rw [loop.eq_1 (view p) dest (vS r), loop.eq_1 p dest r]
    simp only [he, hv, List.isEmpty_nil, if_true]
    exact ⟨rfl, Or.inl h⟩
  | succ n ih =>
    intro p fut dest r hn h
    rw [loop.eq_1 (view p) dest (vS r), loop.eq_1 p dest r]
    have hvraw : (view p).raw = p.raw := rfl
    rw [hvraw]
    by_cases he : p.raw.isEmpty
    · simp only [he, if_true]
      exact ⟨rfl, Or.inl h⟩
    · simp only [he, Bool.false_eq_true, if_false]
      obtain ⟨hv, hi⟩ := iter_ign hR h dest r
      rw [hv]
      cases hit : iter p dest r with
      | stop q r' => rw [hit] at hi; exact ⟨rfl, Or.inl hi⟩
      | err q e => rw [hit] at hi; exact ⟨rfl, Or.inl hi⟩
      | panic s => exact ⟨rfl, Or.inr ⟨s, rfl⟩⟩
      | cont q d r' =>
        rw [hit] at hi
        simp only [mapv]
        have hvq : (view q).raw = q.raw := rfl
        rw [hvq]
        by_cases hlt : q.raw.length < p.raw.length
        · simp only [hlt, if_true]
          exact ih q fut d r' (by omega) hi
        · simp only [hlt, if_false]
          exact ⟨rfl, Or.inr ⟨_, rfl⟩⟩

/-- **One `parse` call in ignore mode** (`dest = None`): it does what the view's call does, and the
framing is kept. -/
theorem parse_ign {id : Nat} {R : List Rec} (hR : RecsOK id R) {p : Str.Parser} {new fut : Bytes}
    (h : Ign id R p (new ++ fut)) :
    (view p).parse new none = (view (p.parse new none).1, resv (p.parse new none).2) ∧
      (Ign id R (p.parse new none).1 fut ∨ ∃ s, (p.parse new none).2 = .panic s) := by
  unfold Str.Parser.parse
  have e1 : (view p).parsed = p.parsed := rfl
  have e2 : (view p).cap = p.cap := rfl
  have e3 : (view p).freeStart = p.freeStart := rfl
  simp only [Option.isSome_none, Bool.false_and, Bool.false_eq_true, if_false, e2, e3]
  split
  · exact ⟨rfl, Or.inr ⟨_, rfl⟩⟩
  · have hf : Ign id R { p with raw := p.raw ++ new } fut :=
      ⟨h.strm, h.rid, by
        obtain ⟨c, pd, rs, a, b, c', d⟩ := h.pos
        exact ⟨c, pd, rs, a, b, by rw [List.append_assoc]; exact c', d⟩⟩
    have hs1 : p.stream.isNone = true := by rw [h.strm]; rfl
    have := loop_ign hR _ { p with raw := p.raw ++ new } fut none
      { stream := 0, streamEnd := true, output := 0, delivered := [] } (Nat.le_refl _) hf
    rw [hs1]
    exact this

/-! ## The framing is kept in every mode -/

def IterPos (R : List Rec) (fut : Bytes) : Iter → Prop
  | .cont q _ _ => Pos R q.raw q.pay q.pad fut
  | .stop q _ => Pos R q.raw q.pay q.pad fut
  | .err q _ => Pos R q.raw q.pay q.pad fut
  | .panic _ => True

theorem headPos {R : List Rec} (hR : ∀ r ∈ R, r.WF) {q : Str.Parser} {fut : Bytes}
    (h : Pos R q.raw q.pay q.pad fut) (hpay : q.pay = 0) (hpad : q.pad = 0) (d : Option Nat) (r : Status) :
    IterPos R fut (parseHead q d r) := by
  have hpos : Pos R q.raw 0 0 fut := by rwa [hpay, hpad] at h
  have hsh := parseHead_fr q d r
  cases hph : parseHead q d r with
  | cont q' d' r' =>
    rw [hph] at hsh
    obtain ⟨b0, b1, b2, b3, b4, b5, b6, b7, rest, hraw, e1, e2, e3, e4, e5⟩ := hsh
    rw [hraw] at hpos
    obtain ⟨hp', _⟩ := hpos.head hR
    show Pos R q'.raw q'.pay q'.pad fut
    rw [e1, e2, e3]; exact hp'
  | stop q' r' => rw [hph] at hsh; cases hsh; exact h
  | err q' e => rw [hph] at hsh; cases hsh; exact h
  | panic s => trivial

theorem padHeadPos {R : List Rec} (hR : ∀ r ∈ R, r.WF) {q : Str.Parser} {fut : Bytes}
    (h : Pos R q.raw q.pay q.pad fut) (hpay : q.pay = 0) (d : Option Nat) (r : Status) :
    IterPos R fut (padHead q d r) := by
  unfold padHead
  have hpos : Pos R q.raw 0 q.pad fut := by rwa [hpay] at h
  split
  · split
    · rename_i hle
      show Pos R [] q.pay (q.pad - q.raw.length) fut
      have := hpos.dropPad (k := q.raw.length) hle (Nat.le_refl _)
      rw [List.drop_length] at this
      rw [hpay]; exact this
    · rename_i hgt
      refine headPos hR (q := { q with raw := q.raw.drop q.pad, g1 := q.g1 + q.pad, pad := 0 }) ?_ hpay rfl d r
      show Pos R (q.raw.drop q.pad) q.pay 0 fut
      have := hpos.dropPad (k := q.pad) (Nat.le_refl _) (by omega)
      rw [Nat.sub_self] at this
      rw [hpay]; exact this
  · rename_i hpad
    exact headPos hR h hpay (by omega) d r

theorem iter_pos {R : List Rec} (hR : ∀ r ∈ R, r.WF) {p : Str.Parser} {fut : Bytes}
    (h : Pos R p.raw p.pay p.pad fut) (dest : Option Nat) (r : Status) : IterPos R fut (iter p dest r) := by
  rw [iter_eq]
  by_cases hpay : p.pay > 0
  · simp only [hpay, if_true]
    have hsh := parsePayload_fr p dest r
    cases hpp : parsePayload p dest r with
    | cont q d r' =>
      rw [hpp] at hsh
      obtain ⟨k, k1, k2, e1, e2, e3, e4, e5, e6⟩ := hsh
      exact padHeadPos hR (by rw [e1, e2, e4]; exact h.drop k1 k2) e3 d r'
    | stop q r' =>
      rw [hpp] at hsh
      obtain ⟨k, k1, k2, e1, e2, e4, e5, e6⟩ := hsh
      show Pos R q.raw q.pay q.pad fut
      rw [e1, e2, e4]; exact h.drop k1 k2
    | err q e => rw [hpp] at hsh; exact hsh.elim
    | panic s => trivial
  · simp only [hpay, if_false]
    exact padHeadPos hR h (by omega) dest r

theorem loop_pos {R : List Rec} (hR : ∀ r ∈ R, r.WF) : ∀ (n : Nat) (p : Str.Parser) (fut : Bytes)
    (dest : Option Nat) (r : Status), p.raw.length ≤ n → Pos R p.raw p.pay p.pad fut →
    Pos R (loop p dest r).1.raw (loop p dest r).1.pay (loop p dest r).1.pad fut ∨ ∃ s, (loop p dest r).2 = .panic s := by
  intro n
  induction n with
  | zero =>
    intro p fut dest r hn h
    have he : p.raw = [] := List.length_eq_zero_iff.1 (by omega)
    rw [loop.eq_1 p dest r]
    simp only [he, List.isEmpty_nil, if_true]
    rw [he] at h
    exact Or.inl h
  | succ n ih =>
    intro p fut dest r hn h
    rw [loop.eq_1 p dest r]
    by_cases he : p.raw.isEmpty
    · simp only [he, if_true]
      exact Or.inl h
    · simp only [he, Bool.false_eq_true, if_false]
      have hi := iter_pos hR h dest r
      cases hit : iter p dest r with
      | stop q r' => rw [hit] at hi; exact Or.inl hi
      | err q e => rw [hit] at hi; exact Or.inl hi
      | panic s => exact Or.inr ⟨s, rfl⟩
      | cont q d r' =>
        rw [hit] at hi
        simp only
        by_cases hlt : q.raw.length < p.raw.length
        · simp only [hlt, if_true]
          exact ih q fut d r' (by omega) hi
        · simp only [hlt, if_false]
          exact Or.inr ⟨_, rfl⟩

/-- **Every `parse` call keeps the framing**, whatever the mode and the destination. -/
theorem parse_pos {R : List Rec} (hR : ∀ r ∈ R, r.WF) {p : Str.Parser} {new fut : Bytes} (dest : Option Nat)
    (h : Pos R p.raw p.pay p.pad (new ++ fut)) :
    Pos R (p.parse new dest).1.raw (p.parse new dest).1.pay (p.parse new dest).1.pad fut ∨
      ∃ s, (p.parse new dest).2 = .panic s := by
  unfold Str.Parser.parse
  split
  · exact Or.inr ⟨_, rfl⟩
  · split
    · exact Or.inr ⟨_, rfl⟩
    · refine loop_pos hR _ { p with raw := p.raw ++ new } fut dest _ (Nat.le_refl _) ?_
      obtain ⟨c, pd, rs, a, b, c', d⟩ := h
      exact ⟨c, pd, rs, a, b, by rw [List.append_assoc]; exact c', d⟩

end Fcgi.E2E
