import Fcgi.Proofs.E2EAuthConn
/-!
# `poll_input(None)` on a stream that is cut by an `AbortRequest` before any content

`close()`'s `writeable()` of a Filter whose handler did not get to the Data stream: `set_stream(Data)`,
`poll_input(None)`.  If the request's `AbortRequest` comes before any Data content (`K.C = []`,
`K.Aborted`), `poll_input(None)` never returns `Ready`: it passes over what precedes the abort (replies
written), and fails with `Err(AbortRequest)` standing in front of the abort record (`AtAbort`) — the
`writeable` flag is NOT set.
-/
namespace Fcgi.E2E
open Fcgi Fcgi.Req Fcgi.Str Fcgi.Async Fcgi.Run Fcgi.Spec Fcgi.C09E

theorem pollOutput_writeable (r : AReq) (m : MutexSt) (t : Transport) :
    (r.pollOutput m t).1.writeable = r.writeable := by
  unfold AReq.pollOutput
  split
  · split <;> rfl
  · simp only
    rcases lockPoll (if r.lock == LockSt.none then LockSt.polling else r.lock) m 0 with ⟨l, m', got⟩
    simp only
    split
    · rfl
    · rcases outLoop (r.sp.output.length + 1) r.sp t with ⟨sp, t', o⟩
      cases o <;> rfl

/-- One `parse` call of the read loop of `poll_input(None)` on a stream aborted before any content. -/
theorem parse_rinvA0 {K : RCtx} (hK : K.Aborted) (hC : K.C = []) {r : AReq} {G new fut dO : Bytes}
    (hi : RInv K r G (new ++ fut) [] dO) (hfree : new.length ≤ r.sp.free) :
    (∃ p' st o, r.sp.parse new none = (p', .ok st) ∧ st.streamEnd = false ∧ st.stream = 0 ∧
      p'.output = r.sp.output ++ o ∧
      RInv K { r with sp := p' } (G ++ new) fut [] (dO ++ o) ∧ p'.raw.length < K.cap ∧ fut ≠ []) ∨
    (∃ p' o, r.sp.parse new none = (p', .err .abortRequest) ∧ p'.output = r.sp.output ++ o ∧
      dO ++ o = K.O ∧ p'.pay = 0 ∧ p'.pad = 0 ∧ p'.raw ++ fut = K.U ∧
      SInv p' ∧ p'.request = K.rq ∧ p'.cap = K.cap ∧ p'.maxConns = K.E.mc) := by
  have hpt := C03S.parse_total r.sp new none hi.sinv (Or.inl rfl) hfree
  have hri : ∀ x, ∃ lost, _ := fun x =>
    parse_ri (E := K.E) (fut := x) (p := r.sp) (new := new) (dest := none) hi.mt hi.sinv (Or.inl rfl) hfree
  have hfr := parse_frame r.sp new none
  have hnow := hi.nowA hK
  cases hp : r.sp.parse new none with
  | mk p' pr =>
    rw [hp] at hpt hfr
    cases pr with
    | panic s => exact hpt.elim
    | err e =>
      right
      obtain ⟨hs', _, hcap', hreq', _, hmc', _⟩ := hpt
      obtain ⟨o, ho⟩ := hfr.2.2.2.2.2.1
      obtain ⟨lost, hm', h1, h2, hv, hu, _, hm⟩ := hri fut
      rw [hp] at hm' h1 h2 hv hu hm
      simp only at hm' h1 h2 hv hu hm
      obtain ⟨a, b, c⟩ := hm
      rw [a, b, ref_atStop c] at h1 h2 hv hu
      simp only [List.append_nil] at h1 h2 hv hu
      have ho' : p'.output = r.sp.output ++ o := ho.symm
      have hog : C03S.outGrowth r.sp (.parse new none) = o := by
        simp only [C03S.outGrowth, hp, ho', List.drop_left]
      rw [hog] at h2
      unfold Rem at hnow
      have he : e = .abortRequest := by
        have := hnow.2.2.1
        rw [← hv] at this
        cases this; rfl
      subst he
      exact ⟨p', o, rfl, ho', by rw [hnow.2.1, h2], a, b,
        by rw [← hnow.2.2.2, ← hu], hs', hreq'.trans hi.req, hcap'.trans hi.capK, hmc'.trans hi.mt.mc⟩
    | ok st =>
      left
      obtain ⟨hs', _, hcap', hreq', _, _, _⟩ := hpt
      obtain ⟨d, hd1, hd2, hd3⟩ := (C03S.counts_exact hi.sinv.1 (Or.inl rfl) hfree hp).2.1 rfl
      rw [hi.par, List.nil_append] at hd1
      subst hd1
      obtain ⟨⟨o, ho, _⟩, _⟩ := C03S.counts_exact hi.sinv.1 (Or.inl rfl) hfree hp
      have hog : C03S.outGrowth r.sp (.parse new none) = o := by
        simp only [C03S.outGrowth, hp, ho, List.drop_left]
      have hav : availOp r.sp (.parse new none) = p'.parsed := by
        simp [availOp, hp, hi.par]
      -- nothing is buffered: the reference has no content at all
      have hp0 : p'.parsed = [] := by
        obtain ⟨lost, _, h1, _, _, _, _, _⟩ := hri fut
        rw [hp] at h1
        simp only at h1
        rw [hav] at h1
        have hc0 : (ref K.E r.sp.state r.sp.pay r.sp.pad (r.sp.raw ++ (new ++ fut))).content = [] := by
          have := hnow.1
          rw [hC] at this
          exact (List.append_eq_nil_iff.1 this.symm).2
        rw [hc0] at h1
        exact (List.append_eq_nil_iff.1 (List.append_eq_nil_iff.1 h1).1).1
      have hist' : ∀ x, refWire K.E ((G ++ new) ++ x) = (Rem K.E p' x).pre [] (dO ++ o) := by
        intro x
        obtain ⟨lost, _, h1, h2, h3, h4, _, hm⟩ := hri x
        rw [hp] at h1 h2 h3 h4 hm
        simp only at h1 h2 h3 h4 hm
        rw [hm.1, List.append_nil, hav, hp0, List.nil_append] at h1
        rw [hog] at h2
        rw [List.append_assoc, hi.hist (new ++ x)]
        apply RefOut.ext'
        · simp only [RefOut.pre_content, Rem, List.nil_append]; rw [← h1]
        · simp only [RefOut.pre_out, Rem, List.append_assoc]; rw [← h2]
        · simp only [RefOut.pre_verdict, Rem]; rw [h3]
        · simp only [RefOut.pre_unread, Rem]; rw [h4]
      have hmt' : Match K.E p' := by
        obtain ⟨_, hm', _⟩ := hri fut
        rw [hp] at hm'; exact hm'
      have hi' : RInv K { r with sp := p' } (G ++ new) fut [] (dO ++ o) :=
        ⟨hmt', hs', hreq'.trans hi.req, hcap'.trans hi.capK, hp0,
          by rw [List.append_assoc]; exact hi.wire, hist'⟩
      have hse : st.streamEnd = false := by
        cases hse : st.streamEnd with
        | false => rfl
        | true =>
          exfalso
          obtain ⟨lost, _, _, _, _, _, _, hm⟩ := hri fut
          rw [hp] at hm
          obtain ⟨a, b, c⟩ := hm.2 hse
          have hnow' := hi'.nowA hK
          simp only [Rem] at hnow'
          rw [a, b, ref_atStop c] at hnow'
          cases hnow'.2.2.1
      have hs0 : st.stream = 0 := by rw [← hd2, hp0]; rfl
      have hidle : Idle p' := parse_stall_none hi.sinv.1 hfree hp hse
      have h0 := hist' []
      rw [idle_ref K.E hidle, List.append_nil] at h0
      have hv : (refWire K.E (G ++ new)).verdict = .more := by rw [h0]; rfl
      have hu : (refWire K.E (G ++ new)).unread = p'.raw := by rw [h0]; rfl
      refine ⟨p', st, o, rfl, hse, hs0, ho, hi', ?_, ?_⟩
      · rw [← hu]
        exact hK.fits _ ⟨fut, by rw [List.append_assoc]; exact hi.wire⟩ hv
      · intro hf
        subst hf
        have hw := hi.wire
        rw [List.append_nil] at hw
        rw [hw, hK.ref] at hv
        cases hv

/-- What `poll_input(None)` returns on such a stream (`w0`: the `writeable` flag before the call). -/
def FillPostA0 (K : RCtx) (L P : Bytes) (w0 : Bool) (t : Transport) (r' : AReq) (m' : MutexSt)
    (t' : Transport) : IRes → Prop
  | .pending => (∃ dO', RSt K L P r' m' t' [] dO') ∧ t'.woken = true ∧ ans t' < ans t ∧ r'.writeable = w0
  | .ready _ _ => False
  | .err e => e = .abortRequest ∧ m' = none ∧ AtAbort K L P r' t' ∧ r'.writeable = w0
  | .panic _ => False

theorem inLoop_simA0 {K : RCtx} (hK : K.Aborted) (hC : K.C = []) {L P : Bytes} : ∀ (fuel : Nat) (r : AReq)
    (new : Bytes) (t : Transport) {dO : Bytes} {r' : AReq} {m' : MutexSt} {t' : Transport} {res : IRes},
    Ben t → (∃ G, RInv K r G (new ++ t.input) [] dO) → r.lock = .none → r.sp.output = [] →
    t.wlog = L ++ (P ++ dO) → new.length ≤ r.sp.free → t.input.length + 2 ≤ fuel →
    inLoop fuel r new none none t = (r', m', t', res) →
    TStep t t' ∧ FillPostA0 K L P r.writeable t r' m' t' res := by
  intro fuel
  induction fuel with
  | zero => intro r new t dO r' m' t' res _ _ _ _ _ _ hf; omega
  | succ k ih =>
    intro r new t dO r' m' t' res hb ⟨G, hi⟩ hlk hout hlog hfree hf h
    rcases parse_rinvA0 hK hC hi hfree with ⟨p', st, o, hp, hse, hs0, ho, hi1, hraw, hne⟩ |
      ⟨p', o, hp, ho, hO, hpay, hpad, hwire, hsinv, hreq, hcap, hmc⟩
    · rw [hout, List.nil_append] at ho
      simp only [inLoop, hp, hse, hs0, Bool.false_or, Nat.lt_irrefl, decide_false, Bool.false_eq_true, if_false] at h
      have hi2 : RInv K { r with sp := p'.compress } (G ++ new) t.input [] (dO ++ o) :=
        hi1.congr rfl rfl rfl rfl rfl rfl rfl rfl rfl (SInv_compress hi1.sinv)
      have hl2 : LockInv { r with sp := p'.compress } none := lockInv_free hlk
      rcases hpo : AReq.pollOutput { r with sp := p'.compress } none t with ⟨r3, m3, t3, ores⟩
      have hw3 : r3.writeable = r.writeable := by
        have := pollOutput_writeable { r with sp := p'.compress } none t
        rw [hpo] at this; exact this
      rw [hpo] at h
      obtain ⟨kk, e1, e2, e3, e4, e5, _, e7, e8⟩ := Async.pollOutput_spec hl2 hpo
      obtain ⟨b1, b2⟩ := pollOutput_ben hl2 (Or.inl rfl) hb hpo
      have hout2 : ({ r with sp := p'.compress } : AReq).sp.output = o := ho
      have hi3 : RInv K r3 (G ++ new) t3.input [] (dO ++ o) := by
        rw [e4.1]
        exact hi2.consumed e1
      have hlog3 : ∃ O1, t3.wlog = L ++ O1 ∧ O1 ++ r3.sp.output = P ++ (dO ++ o) :=
        ⟨P ++ dO ++ o.take kk, by rw [e3, hlog, hout2]; simp only [List.append_assoc], by
          rw [e1]
          show (P ++ dO ++ o.take kk) ++ (p'.compress.output.drop kk) = _
          rw [show p'.compress.output = o from ho]
          simp only [List.append_assoc, List.take_append_drop]⟩
      rcases b2 with rfl | ⟨rfl, bw, ba⟩
      · obtain ⟨f1, f2, f3, f4⟩ := e7 rfl
        have hm3 : m3 = none := by
          by_cases ho0 : o = []
          · exact (f3 (by rw [hout2]; exact ho0)).2.1
          · exact f4 (by rw [hout2]; exact ho0)
        subst hm3
        have hlog3' : t3.wlog = L ++ (P ++ (dO ++ o)) := by
          obtain ⟨O1, g1, g2⟩ := hlog3
          rw [f1, List.append_nil] at g2
          rw [g1, g2]
        have hb3 := hb.step b1
        have hne3 : t3.input ≠ [] := by rw [e4.1]; exact hne
        simp only at h
        split at h
        · rename_i t1 hr
          have hwl : t1.wlog = t3.wlog := by have := read_wlog t3 r3.sp.free; rwa [hr] at this
          cases h
          obtain ⟨hinp, hw | hw⟩ := read_pending hb3 hr
          · exact ⟨b1.trans (read_tstep hr), ⟨⟨dO ++ o, ⟨⟨G ++ new, by rw [hinp]; exact hi3⟩, e5, Or.inl rfl,
              ⟨P ++ (dO ++ o), by rw [hwl, hlog3'], by rw [f1, List.append_nil]⟩⟩⟩, hw.1,
              by have := b1.ans_le; omega, hw3⟩⟩
          · exact absurd hw.1 hne3
        · rename_i t1 e hr
          exact (read_error hb3 hr).elim
        · rename_i t1 hr
          obtain ⟨_, _, _, hz⟩ := read_ok_ben hb3 hr
          have hfreepos : 0 < r3.sp.free := by
            have hpar := hi3.par
            have hcapK := hi3.capK
            rw [e1] at hpar hcapK ⊢
            simp only [Str.Parser.consumeOutput, Str.Parser.compress] at hpar hcapK
            simp [Str.Parser.free, Str.Parser.freeStart, Str.Parser.compress, Str.Parser.consumeOutput, hpar, hcapK]
            omega
          rcases hz rfl with hz | hz
          · omega
          · exact absurd hz.1 hne3
        · rename_i t1 bs hbs hr
          obtain ⟨hin, hwl, hlen, _⟩ := read_ok_ben hb3 hr
          have hs1 := read_tstep hr
          have hbne : bs ≠ [] := fun hx => hbs (by rw [hx])
          have hbpos : 0 < bs.length := List.length_pos_iff.mpr hbne
          have hlen1 : t1.input.length + 2 ≤ k := by
            have := congrArg List.length hin
            rw [e4.1] at this
            simp only [List.length_append] at this
            omega
          obtain ⟨q1, q4⟩ := ih r3 bs t1 (hb3.step hs1)
            ⟨G ++ new, by rw [← hin]; exact hi3⟩ f2 f1 (by rw [hwl, hlog3']) hlen hlen1 h
          rw [hw3] at q4
          refine ⟨(b1.trans hs1).trans q1, ?_⟩
          cases res with
          | pending =>
            exact ⟨q4.1, q4.2.1, by have := (b1.trans hs1).ans_le; have := q4.2.2.1; omega, q4.2.2.2⟩
          | ready k d => exact q4
          | err e => exact q4
          | panic s => exact q4
      · obtain ⟨g1, g2⟩ := e8 (by intro hx; cases hx)
        have hm3 : m3 = some 0 := by
          rcases g2 with ⟨g2, _⟩ | ⟨_, _, _, _, i, hi⟩
          · exact g2
          · cases hi
        cases h
        exact ⟨b1, ⟨dO ++ o, ⟨⟨G ++ new, hi3⟩, e5, Or.inr hm3, hlog3⟩⟩, bw, ba, hw3⟩
    · -- the abort record is reached
      rw [hout, List.nil_append] at ho
      simp only [inLoop, hp] at h
      cases h
      refine ⟨.refl _, rfl, rfl, ⟨hlk, hpay, hpad, hwire, hsinv, hreq, hcap, hmc, ?_⟩, rfl⟩
      exact ⟨P ++ dO, hlog, by show (P ++ dO) ++ p'.output = _; rw [ho, List.append_assoc, hO]⟩

/-- **`poll_input(None)`** (empty stream buffer) on a stream aborted before any content. -/
theorem pollInput_simA0 {K : RCtx} (hK : K.Aborted) (hC : K.C = []) {L P : Bytes} {r : AReq} {m : MutexSt}
    {t : Transport} {dO : Bytes} {r' : AReq} {m' : MutexSt} {t' : Transport} {res : IRes}
    (hb : Ben t) (hs : RSt K L P r m t [] dO)
    (h : r.pollInput none m t = (r', m', t', res)) :
    TStep t t' ∧ FillPostA0 K L P r.writeable t r' m' t' res := by
  obtain ⟨⟨G, hi⟩, hl, hm, ⟨O1, hlog1, hlog2⟩⟩ := hs
  have hpar := hi.par
  simp only [AReq.pollInput, hpar] at h
  rcases hpo : r.pollOutput m t with ⟨r3, m3, t3, ores⟩
  have hw3 : r3.writeable = r.writeable := by
    have := pollOutput_writeable r m t
    rw [hpo] at this; exact this
  rw [hpo] at h
  obtain ⟨kk, e1, e2, e3, e4, e5, _, e7, e8⟩ := Async.pollOutput_spec hl hpo
  obtain ⟨b1, b2⟩ := pollOutput_ben hl hm hb hpo
  have hi3 : RInv K r3 G t3.input [] dO := by
    rw [e4.1]
    exact hi.consumed e1
  have hlog3 : ∃ O1', t3.wlog = L ++ O1' ∧ O1' ++ r3.sp.output = P ++ dO :=
    ⟨O1 ++ r.sp.output.take kk, by rw [e3, hlog1, List.append_assoc], by
      rw [e1]; simp only [Str.Parser.consumeOutput, List.append_assoc, List.take_append_drop]; exact hlog2⟩
  rcases b2 with rfl | ⟨rfl, bw, ba⟩
  · obtain ⟨f1, f2, f3, f4⟩ := e7 rfl
    have hm3 : m3 = none := by
      by_cases ho0 : r.sp.output = []
      · have hm0 : m = none := by
          rcases hm with hm | hm
          · exact hm
          · have := hl.1.2 hm
            rw [hl.2 ho0] at this; cases this
        rw [(f3 ho0).2.1, hm0]
      · exact f4 ho0
    subst hm3
    have hlog3' : t3.wlog = L ++ (P ++ dO) := by
      obtain ⟨O1', g1, g2⟩ := hlog3
      rw [f1, List.append_nil] at g2
      rw [g1, g2]
    simp only at h
    obtain ⟨q1, q2⟩ := inLoop_simA0 hK hC (L := L) (P := P) _ r3 [] t3 (hb.step b1) ⟨G, by simpa using hi3⟩ f2 f1 hlog3'
      (by simp) (Nat.le_refl _) h
    rw [hw3] at q2
    refine ⟨b1.trans q1, ?_⟩
    cases res with
    | pending => exact ⟨q2.1, q2.2.1, by have := b1.ans_le; have := q2.2.2.1; omega, q2.2.2.2⟩
    | ready k d => exact q2
    | err e => exact q2
    | panic s => exact q2
  · obtain ⟨g1, g2⟩ := e8 (by intro hx; cases hx)
    have hm3 : m3 = some 0 := by
      rcases g2 with ⟨g2, _⟩ | ⟨_, _, hmm, _, i, hi⟩
      · exact g2
      · rcases hm with hm | hm <;> rw [hm] at hi <;> cases hi
    cases h
    exact ⟨b1, ⟨dO, ⟨⟨G, hi3⟩, e5, Or.inr hm3, hlog3⟩⟩, bw, ba, hw3⟩

end Fcgi.E2E
