import Fcgi.Model.Runner
/-!
# Lemmas about the semaphore / event-listener model (`Fcgi.Runner.Sem`, `acqPoll`, …)

Support for `Fcgi/Props/C13.lean`.  Everything is phrased with membership in the entry list
(`(id, st) ∈ s.entries`); together with uniqueness of ids (`Sem.WF`) that determines the list up to
the (irrelevant for these statements) order.
-/
namespace Fcgi.Runner

/-! ## generic list facts -/

theorem fst_unique {es : List (Nat × LState)} (hn : (es.map (·.1)).Nodup) {i : Nat} {a b : LState}
    (ha : (i, a) ∈ es) (hb : (i, b) ∈ es) : a = b := by
  induction es with
  | nil => cases ha
  | cons e es ih =>
    simp only [List.map_cons, List.nodup_cons, List.mem_map, not_exists, not_and] at hn
    simp only [List.mem_cons] at ha hb
    rcases ha with ha | ha <;> rcases hb with hb | hb
    · rw [← ha] at hb; cases hb; rfl
    · subst ha; exact absurd rfl (hn.1 (i, b) hb)
    · subst hb; exact absurd rfl (hn.1 (i, a) ha)
    · exact ih hn.2 ha hb

theorem find_fst {es : List (Nat × LState)} (hn : (es.map (·.1)).Nodup) {i : Nat} {a : LState}
    (ha : (i, a) ∈ es) : es.find? (·.1 == i) = some (i, a) := by
  induction es with
  | nil => cases ha
  | cons e es ih =>
    simp only [List.map_cons, List.nodup_cons, List.mem_map, not_exists, not_and] at hn
    simp only [List.mem_cons] at ha
    rcases ha with ha | ha
    · subst ha; simp
    · have hne : e.1 ≠ i := fun h => hn.1 _ ha h.symm
      simp [hne, ih hn.2 ha]

theorem find_none {es : List (Nat × LState)} {i : Nat} (h : i ∉ es.map (·.1)) :
    es.find? (·.1 == i) = none := by
  rw [List.find?_eq_none]
  intro x hx hxi
  simp only [beq_iff_eq] at hxi
  exact h (List.mem_map.mpr ⟨x, hx, hxi⟩)

/-! ## `Sem` vocabulary -/

def Sem.ids (s : Sem) : List Nat := s.entries.map (·.1)

/-- some listener is in state `.notified` -/
def Sem.hasNotified (s : Sem) : Prop := ∃ e ∈ s.entries, e.2 = LState.notified

/-- listener ids are unique and below `nextId` (so `listen` always hands out a fresh id) -/
structure Sem.WF (s : Sem) : Prop where
  nodup : s.ids.Nodup
  below : ∀ i ∈ s.ids, i < s.nextId

theorem Sem.mem_ids {s : Sem} {i : Nat} {st : LState} (h : (i, st) ∈ s.entries) : i ∈ s.ids :=
  List.mem_map.mpr ⟨_, h, rfl⟩

theorem Sem.ids_mem {s : Sem} {i : Nat} (h : i ∈ s.ids) : ∃ st, (i, st) ∈ s.entries := by
  obtain ⟨⟨j, st⟩, he, rfl⟩ := List.mem_map.mp h
  exact ⟨st, he⟩

theorem Sem.stateOf_eq_some {s : Sem} (hw : s.WF) {i : Nat} {st : LState} :
    s.stateOf i = some st ↔ (i, st) ∈ s.entries := by
  constructor
  · intro h
    unfold Sem.stateOf at h
    cases hf : s.entries.find? (·.1 == i) with
    | none => simp [hf] at h
    | some e =>
      simp [hf] at h
      have hm := List.mem_of_find?_eq_some hf
      have hp := List.find?_some hf
      simp only [beq_iff_eq] at hp
      obtain ⟨j, st'⟩ := e
      simp at hp h; subst hp; subst h; exact hm
  · intro h
    unfold Sem.stateOf
    rw [find_fst hw.nodup h]; rfl

theorem Sem.notified_pos {s : Sem} : 0 < s.notified ↔ s.hasNotified := by
  unfold Sem.notified Sem.hasNotified
  rw [List.length_pos_iff_exists_mem]
  constructor
  · rintro ⟨e, he⟩
    simp only [List.mem_filter, beq_iff_eq] at he
    exact ⟨e, he.1, he.2⟩
  · rintro ⟨e, he, hn⟩
    exact ⟨e, by simp [List.mem_filter, he, hn]⟩

/-! ## `notify` -/

/-- What the notifying scan does, entry by entry. -/
theorem go_spec (k : Nat) (es : List (Nat × LState)) (w : List Nat) :
    ((Sem.notify.go k es w).1.map (·.1) = es.map (·.1)) ∧
    (∀ x ∈ w, x ∈ (Sem.notify.go k es w).2) ∧
    (∀ i st', (i, st') ∈ (Sem.notify.go k es w).1 → (i, st') ∈ es ∨
      (st' = LState.notified ∧ ∃ st, (i, st) ∈ es ∧ st ≠ LState.notified ∧
        (st = LState.task → i ∈ (Sem.notify.go k es w).2))) ∧
    (∀ i, (i, LState.notified) ∈ es → (i, LState.notified) ∈ (Sem.notify.go k es w).1) ∧
    (0 < k → es ≠ [] → ∃ e ∈ (Sem.notify.go k es w).1, e.2 = LState.notified) ∧
    (∀ x ∈ (Sem.notify.go k es w).2, x ∈ w ∨ (x, LState.task) ∈ es) := by
  induction es generalizing k w with
  | nil =>
    cases k <;> simp [Sem.notify.go]
  | cons e rest ih =>
    obtain ⟨id, st⟩ := e
    cases k with
    | zero =>
      have e0 : Sem.notify.go 0 ((id, st) :: rest) w = ((id, st) :: rest, w) := by
        simp [Sem.notify.go]
      rw [e0]
      refine ⟨rfl, fun x hx => hx, fun i st' h => Or.inl h, fun i h => h, ?_, fun x hx => Or.inl hx⟩
      intro h; exact absurd h (Nat.lt_irrefl 0)
    | succ k =>
      by_cases hst : st = LState.notified
      · subst hst
        obtain ⟨h1, h2, h3, h4, h5, h6⟩ := ih (k + 1) w
        rcases hgo : Sem.notify.go (k + 1) rest w with ⟨r, w'⟩
        rw [hgo] at h1 h2 h3 h4 h5 h6
        try simp only at h1 h2 h3 h4 h5 h6
        simp only [Sem.notify.go, hgo, beq_self_eq_true, if_true]
        refine ⟨by simp [h1], h2, ?_, ?_, ?_, ?_⟩
        · intro i st' hm
          simp only [List.mem_cons] at hm
          rcases hm with hm | hm
          · left; rw [hm]; exact List.mem_cons_self
          · rcases h3 i st' hm with h | ⟨ha, st0, hb, hc, hd⟩
            · left; exact List.mem_cons_of_mem _ h
            · right; exact ⟨ha, st0, List.mem_cons_of_mem _ hb, hc, hd⟩
        · intro i hm
          simp only [List.mem_cons] at hm ⊢
          rcases hm with hm | hm
          · left; exact hm
          · right; exact h4 i hm
        · intro _ _
          exact ⟨(id, LState.notified), List.mem_cons_self, rfl⟩
        · intro x hx
          rcases h6 x hx with h | h
          · left; exact h
          · right; exact List.mem_cons_of_mem _ h
      · have hb : (st == LState.notified) = false := by
          cases st <;> simp at hst ⊢
        obtain ⟨h1, h2, h3, h4, h5, h6⟩ :=
          ih k (if (st == LState.task) = true then w ++ [id] else w)
        rcases hgo : Sem.notify.go k rest (if (st == LState.task) = true then w ++ [id] else w)
          with ⟨r, w'⟩
        rw [hgo] at h1 h2 h3 h4 h5 h6
        try simp only at h1 h2 h3 h4 h5 h6
        simp only [Sem.notify.go, hb, hgo, Bool.false_eq_true, if_false]
        refine ⟨by simp [h1], ?_, ?_, ?_, ?_, ?_⟩
        · intro x hx
          apply h2
          split
          · exact List.mem_append_left _ hx
          · exact hx
        · intro i st' hm
          simp only [List.mem_cons] at hm
          rcases hm with hm | hm
          · right
            cases hm
            refine ⟨rfl, st, List.mem_cons_self, hst, ?_⟩
            intro ht
            apply h2
            simp [ht]
          · rcases h3 i st' hm with h | ⟨ha, st0, hb, hc, hd⟩
            · left; exact List.mem_cons_of_mem _ h
            · right; exact ⟨ha, st0, List.mem_cons_of_mem _ hb, hc, hd⟩
        · intro i hm
          simp only [List.mem_cons] at hm ⊢
          rcases hm with hm | hm
          · cases hm; exact absurd rfl hst
          · right; exact h4 i hm
        · intro _ _
          exact ⟨(id, LState.notified), List.mem_cons_self, rfl⟩
        · intro x hx
          rcases h6 x hx with h | h
          · split at h
            · rename_i ht
              simp only [List.mem_append, List.mem_singleton] at h
              rcases h with h | h
              · left; exact h
              · right; subst h
                simp only [beq_iff_eq] at ht; subst ht
                exact List.mem_cons_self
            · left; exact h
          · right; exact List.mem_cons_of_mem _ h

/-- `Event::notify(n)`: what changes and what does not. -/
structure NotifySpec (s s' : Sem) : Prop where
  count : s'.count = s.count
  nextId : s'.nextId = s.nextId
  ids : s'.ids = s.ids
  wakes_mono : ∀ x ∈ s.wakes, x ∈ s'.wakes
  /-- every entry is unchanged, or went from un-notified to `.notified`; if it was `.task`
  (a task is registered with it), that task was woken -/
  entry : ∀ i st', (i, st') ∈ s'.entries → (i, st') ∈ s.entries ∨
    (st' = LState.notified ∧ ∃ st, (i, st) ∈ s.entries ∧ st ≠ LState.notified ∧
      (st = LState.task → i ∈ s'.wakes))
  keeps : ∀ i, (i, LState.notified) ∈ s.entries → (i, LState.notified) ∈ s'.entries
  /-- wake-ups go only to listeners that have a task registered -/
  wakes_src : ∀ x ∈ s'.wakes, x ∈ s.wakes ∨ (x, LState.task) ∈ s.entries

theorem notifySpec_refl (s : Sem) : NotifySpec s s :=
  ⟨rfl, rfl, rfl, fun _ h => h, fun _ _ h => Or.inl h, fun _ h => h, fun _ h => Or.inl h⟩

theorem notify_eq (s : Sem) (n : Nat) : s.notify n =
    if n ≤ s.notified then s else
      { s with entries := (Sem.notify.go (n - s.notified) s.entries s.wakes).1,
               wakes := (Sem.notify.go (n - s.notified) s.entries s.wakes).2 } := by
  unfold Sem.notify
  split <;> rfl

theorem notify_spec (s : Sem) (n : Nat) : NotifySpec s (s.notify n) := by
  rw [notify_eq]
  split
  · exact notifySpec_refl s
  · obtain ⟨h1, h2, h3, h4, _, h6⟩ := go_spec (n - s.notified) s.entries s.wakes
    rcases hgo : Sem.notify.go (n - s.notified) s.entries s.wakes with ⟨r, w'⟩
    rw [hgo] at h1 h2 h3 h4 h6
    exact ⟨rfl, rfl, h1, h2, h3, h4, h6⟩

/-- `notify(n)` with `n ≥ 1` leaves at least one listener notified, if there is any listener. -/
theorem notify_hasNotified (s : Sem) {n : Nat} (hn : 0 < n) (hne : s.entries ≠ []) :
    (s.notify n).hasNotified := by
  rw [notify_eq]
  split
  · rename_i h
    exact Sem.notified_pos.mp (by omega)
  · rename_i h
    obtain ⟨_, _, _, _, h5, _⟩ := go_spec (n - s.notified) s.entries s.wakes
    rcases hgo : Sem.notify.go (n - s.notified) s.entries s.wakes with ⟨r, w'⟩
    rw [hgo] at h5
    exact h5 (by omega) hne

theorem notify_entries_nil (s : Sem) (n : Nat) : (s.notify n).entries = [] ↔ s.entries = [] := by
  have h := (notify_spec s n).ids
  unfold Sem.ids at h
  constructor
  · intro h'; rw [h'] at h; simpa using h.symm
  · intro h'; rw [h'] at h; simpa using h

theorem notify_wf {s : Sem} (hw : s.WF) (n : Nat) : (s.notify n).WF := by
  have sp := notify_spec s n
  exact ⟨by rw [sp.ids]; exact hw.nodup, by rw [sp.ids, sp.nextId]; exact hw.below⟩

/-! ## `remove` -/

def Sem.erase (s : Sem) (id : Nat) : Sem := { s with entries := s.entries.filter (·.1 != id) }

theorem remove_false (s : Sem) (id : Nat) : s.remove id false = s.erase id := by
  simp [Sem.remove, Sem.erase]

theorem remove_true (s : Sem) (id : Nat) :
    s.remove id true =
      if s.stateOf id = some LState.notified then (s.erase id).notify 1 else s.erase id := by
  unfold Sem.remove Sem.erase
  by_cases h : s.stateOf id = some LState.notified
  · simp [h]
  · have : (s.stateOf id == some LState.notified) = false := by
      simpa using h
    simp [this, h]

theorem erase_ids (s : Sem) (id : Nat) : (s.erase id).ids = s.ids.filter (· != id) := by
  simp [Sem.erase, Sem.ids, List.filter_map]
  rfl

theorem mem_erase {s : Sem} {id i : Nat} {st : LState} :
    (i, st) ∈ (s.erase id).entries ↔ (i, st) ∈ s.entries ∧ i ≠ id := by
  simp [Sem.erase, List.mem_filter]

theorem erase_wf {s : Sem} (hw : s.WF) (id : Nat) : (s.erase id).WF := by
  refine ⟨?_, ?_⟩
  · rw [erase_ids]; exact hw.nodup.sublist List.filter_sublist
  · intro i hi
    rw [erase_ids] at hi
    exact hw.below i (List.mem_filter.mp hi).1

/-- dropping / completing a listener -/
structure RemoveSpec (s : Sem) (id : Nat) (s' : Sem) : Prop where
  count : s'.count = s.count
  nextId : s'.nextId = s.nextId
  ids : s'.ids = s.ids.filter (· != id)
  wakes_mono : ∀ x ∈ s.wakes, x ∈ s'.wakes
  entry : ∀ i st', (i, st') ∈ s'.entries → i ≠ id ∧ ((i, st') ∈ s.entries ∨
    (st' = LState.notified ∧ ∃ st, (i, st) ∈ s.entries ∧ st ≠ LState.notified ∧
      (st = LState.task → i ∈ s'.wakes)))
  keeps : ∀ i, i ≠ id → (i, LState.notified) ∈ s.entries → (i, LState.notified) ∈ s'.entries
  wakes_src : ∀ x ∈ s'.wakes, x ∈ s.wakes ∨ (x, LState.task) ∈ s.entries

theorem erase_spec (s : Sem) (id : Nat) : RemoveSpec s id (s.erase id) :=
  ⟨rfl, rfl, erase_ids s id, fun _ h => h,
    fun _ _ h => ⟨(mem_erase.mp h).2, Or.inl (mem_erase.mp h).1⟩,
    fun _ hne h => mem_erase.mpr ⟨h, hne⟩, fun _ h => Or.inl h⟩

theorem remove_spec (s : Sem) (id : Nat) (p : Bool) : RemoveSpec s id (s.remove id p) := by
  cases p with
  | false => rw [remove_false]; exact erase_spec s id
  | true =>
    rw [remove_true]
    split
    · have sp := notify_spec (s.erase id) 1
      refine ⟨sp.count, sp.nextId, by rw [sp.ids, erase_ids], sp.wakes_mono, ?_, ?_, ?_⟩
      · intro i st' hm
        rcases sp.entry i st' hm with h | ⟨ha, st, hb, hc, hd⟩
        · exact ⟨(mem_erase.mp h).2, Or.inl (mem_erase.mp h).1⟩
        · exact ⟨(mem_erase.mp hb).2, Or.inr ⟨ha, st, (mem_erase.mp hb).1, hc, hd⟩⟩
      · intro i hne h
        exact sp.keeps i (mem_erase.mpr ⟨h, hne⟩)
      · intro x hx
        rcases sp.wakes_src x hx with h | h
        · exact Or.inl h
        · exact Or.inr (mem_erase.mp h).1
    · exact erase_spec s id

theorem remove_wf {s : Sem} (hw : s.WF) (id : Nat) (p : Bool) : (s.remove id p).WF := by
  cases p with
  | false => rw [remove_false]; exact erase_wf hw id
  | true =>
    rw [remove_true]
    split
    · exact notify_wf (erase_wf hw id) 1
    · exact erase_wf hw id

/-- A notified listener that is *dropped* passes its notification on: afterwards some listener is
notified, if any listener is left. -/
theorem remove_true_passes_on {s : Sem} {id : Nat} (hn : s.stateOf id = some LState.notified)
    (hne : (s.remove id true).entries ≠ []) : (s.remove id true).hasNotified := by
  rw [remove_true, if_pos hn] at hne ⊢
  exact notify_hasNotified _ (by omega) (fun h => hne ((notify_entries_nil _ 1).mpr h))

/-! ## `acqPoll` in closed form -/

/-- `listen()` followed by the first poll of the new listener (which registers the task) -/
def Sem.listenTask (s : Sem) : Sem :=
  { s with entries := s.entries ++ [(s.nextId, LState.task)], nextId := s.nextId + 1 }

/-- polling an un-notified listener: (re-)register the task -/
def Sem.mark (s : Sem) (id : Nat) : Sem :=
  { s with entries := s.entries.map (fun e => if e.1 == id then (e.1, LState.task) else e) }

/-- `acqPoll` without the loop -/
def acqSpec (s : Sem) (a : Acq) : Sem × Acq × Bool :=
  if s.count > 0 then ({ s with count := s.count - 1 }, a, true)
  else match a.listener with
    | none => (s.listenTask, { listener := some s.nextId }, false)
    | some id =>
      if s.stateOf id = some LState.notified then
        ((s.erase id).listenTask, { listener := some s.nextId }, false)
      else (s.mark id, a, false)

theorem below_not_mem {s : Sem} (hb : ∀ i ∈ s.ids, i < s.nextId) : s.nextId ∉ s.ids :=
  fun h => Nat.lt_irrefl _ (hb _ h)

theorem listen_mark {s : Sem} (hb : ∀ i ∈ s.ids, i < s.nextId) :
    (s.listen.1).mark s.nextId = s.listenTask := by
  unfold Sem.listen Sem.mark Sem.listenTask
  simp only [List.map_append, List.map_cons, List.map_nil, beq_self_eq_true, if_true]
  congr 2
  conv => rhs; rw [← List.map_id s.entries]
  apply List.map_congr_left
  intro e he
  have : e.1 ≠ s.nextId := fun h => below_not_mem hb (h ▸ List.mem_map.mpr ⟨e, he, rfl⟩)
  simp [this]

theorem listen_stateOf {s : Sem} (hb : ∀ i ∈ s.ids, i < s.nextId) :
    s.listen.1.stateOf s.nextId = some LState.created := by
  unfold Sem.listen Sem.stateOf
  simp only [List.find?_append, find_none (below_not_mem hb)]
  simp

theorem acqPoll_listen {s : Sem} (hb : ∀ i ∈ s.ids, i < s.nextId) (hc : s.count = 0) (fuel : Nat) :
    acqPoll (fuel + 2) s { listener := none } = (s.listenTask, { listener := some s.nextId }, false) := by
  have h1 := listen_stateOf hb
  have h2 := listen_mark hb
  have hc' : s.listen.1.count = 0 := hc
  rw [acqPoll]
  simp only [hc, Nat.lt_irrefl, if_false]
  rw [acqPoll]
  have hs : s.listen.2 = s.nextId := rfl
  simp only [hc', Nat.lt_irrefl, if_false, hs]
  simp [h1, ← h2, Sem.mark, hc']

/-- Fuel 3 is enough (the model uses 4): with well-formed ids the loop of `acqPoll` runs at most three
times — consume a notification, `listen()` again, register the task. -/
theorem acqPoll_eq_spec {s : Sem} (hb : ∀ i ∈ s.ids, i < s.nextId) (a : Acq) (fuel : Nat) :
    acqPoll (fuel + 3) s a = acqSpec s a := by
  unfold acqSpec
  by_cases hc : s.count > 0
  · rw [acqPoll]; simp [hc]
  · have hc0 : s.count = 0 := by omega
    simp only [hc, if_false]
    obtain ⟨l⟩ := a
    cases l with
    | none => exact acqPoll_listen hb hc0 (fuel + 1)
    | some id =>
      rw [acqPoll]
      simp only [hc, if_false]
      by_cases hn : s.stateOf id = some LState.notified
      · simp only [hn, beq_self_eq_true, if_true]
        rw [remove_false]
        have hb' : ∀ i ∈ (s.erase id).ids, i < (s.erase id).nextId := by
          intro i hi; rw [erase_ids] at hi; exact hb i (List.mem_filter.mp hi).1
        exact acqPoll_listen hb' hc0 fuel
      · have : (s.stateOf id == some LState.notified) = false := by simpa using hn
        simp [this, hn, Sem.mark]

/-- hence any fuel ≥ 3 gives the same result; in particular the model's fuel 4 is as good as any larger -/
theorem acqPoll_fuel {s : Sem} (hb : ∀ i ∈ s.ids, i < s.nextId) (a : Acq) (k : Nat) :
    acqPoll (4 + k) s a = acqPoll 4 s a := by
  rw [show 4 + k = (k + 1) + 3 by omega, acqPoll_eq_spec hb, show 4 = 1 + 3 by rfl,
    acqPoll_eq_spec hb]

/-! ## `mark`, `listenTask` -/

theorem mark_ids (s : Sem) (id : Nat) : (s.mark id).ids = s.ids := by
  unfold Sem.mark Sem.ids
  simp only [List.map_map]
  apply List.map_congr_left
  intro e _
  simp only [Function.comp]
  split <;> rfl

theorem mem_mark {s : Sem} {id i : Nat} {st' : LState} (h : (i, st') ∈ (s.mark id).entries) :
    (i, st') ∈ s.entries ∨ (i = id ∧ st' = LState.task ∧ ∃ st, (i, st) ∈ s.entries) := by
  unfold Sem.mark at h
  simp only [List.mem_map] at h
  obtain ⟨⟨j, st⟩, he, hf⟩ := h
  split at hf
  · rename_i hj
    simp only [beq_iff_eq] at hj
    cases hf
    right; exact ⟨hj, rfl, st, he⟩
  · cases hf; left; exact he

theorem mark_wf {s : Sem} (hw : s.WF) (id : Nat) : (s.mark id).WF :=
  ⟨by rw [mark_ids]; exact hw.nodup, by rw [mark_ids]; exact hw.below⟩

theorem listenTask_ids (s : Sem) : s.listenTask.ids = s.ids ++ [s.nextId] := by
  simp [Sem.listenTask, Sem.ids]

theorem mem_listenTask {s : Sem} {i : Nat} {st : LState} :
    (i, st) ∈ s.listenTask.entries ↔ (i, st) ∈ s.entries ∨ (i = s.nextId ∧ st = LState.task) := by
  simp [Sem.listenTask]

theorem listenTask_wf {s : Sem} (hw : s.WF) : s.listenTask.WF := by
  refine ⟨?_, ?_⟩
  · rw [listenTask_ids, List.nodup_append]
    refine ⟨hw.nodup, by simp, ?_⟩
    intro a ha b hb
    simp only [List.mem_singleton] at hb; subst hb
    exact Nat.ne_of_lt (hw.below a ha)
  · intro i hi
    rw [listenTask_ids] at hi
    simp only [List.mem_append, List.mem_singleton] at hi
    show i < s.nextId + 1
    rcases hi with hi | hi
    · exact Nat.lt_succ_of_lt (hw.below i hi)
    · omega

/-! ## Semaphore-level invariants -/

/-- well-formed; no listener is left in state `.created` (every stored listener has been polled, so
a task is registered with it); every notified listener's task has been woken -/
structure SemOk (s : Sem) : Prop where
  wf : s.WF
  noCreated : ∀ i st, (i, st) ∈ s.entries → st ≠ LState.created
  woken : ∀ i, (i, LState.notified) ∈ s.entries → i ∈ s.wakes

/-- a free permit while listeners exist ⇒ one of them is notified -/
def Sem.NoStranded (s : Sem) : Prop := 0 < s.count → s.entries ≠ [] → s.hasNotified

theorem semOk_congr {s s' : Sem} (he : s'.entries = s.entries) (hn : s'.nextId = s.nextId)
    (hk : s'.wakes = s.wakes) (h : SemOk s) : SemOk s' := by
  refine ⟨⟨?_, ?_⟩, ?_, ?_⟩
  · unfold Sem.ids; rw [he]; exact h.wf.nodup
  · unfold Sem.ids; rw [he, hn]; exact h.wf.below
  · rw [he]; exact h.noCreated
  · rw [he, hk]; exact h.woken

theorem semOk_notify {s : Sem} (h : SemOk s) (n : Nat) : SemOk (s.notify n) := by
  have sp := notify_spec s n
  refine ⟨notify_wf h.wf n, ?_, ?_⟩
  · intro i st' hm
    rcases sp.entry i st' hm with hm | ⟨ha, _⟩
    · exact h.noCreated i st' hm
    · subst ha; simp
  · intro i hm
    rcases sp.entry i _ hm with hm | ⟨_, st, hb, hc, hd⟩
    · exact sp.wakes_mono i (h.woken i hm)
    · have := h.noCreated i st hb
      cases st with
      | created => exact absurd rfl this
      | task => exact hd rfl
      | notified => exact absurd rfl hc

theorem semOk_erase {s : Sem} (h : SemOk s) (id : Nat) : SemOk (s.erase id) :=
  ⟨erase_wf h.wf id, fun i st hm => h.noCreated i st (mem_erase.mp hm).1,
    fun i hm => h.woken i (mem_erase.mp hm).1⟩

theorem semOk_remove {s : Sem} (h : SemOk s) (id : Nat) (p : Bool) : SemOk (s.remove id p) := by
  cases p with
  | false => rw [remove_false]; exact semOk_erase h id
  | true =>
    rw [remove_true]
    split
    · exact semOk_notify (semOk_erase h id) 1
    · exact semOk_erase h id

theorem semOk_mark {s : Sem} (h : SemOk s) (id : Nat) : SemOk (s.mark id) := by
  refine ⟨mark_wf h.wf id, ?_, ?_⟩
  · intro i st hm
    rcases mem_mark hm with hm | ⟨_, hb, _⟩
    · exact h.noCreated i st hm
    · subst hb; simp
  · intro i hm
    rcases mem_mark hm with hm | ⟨_, hb, _⟩
    · exact h.woken i hm
    · cases hb

theorem semOk_listenTask {s : Sem} (h : SemOk s) : SemOk s.listenTask := by
  refine ⟨listenTask_wf h.wf, ?_, ?_⟩
  · intro i st hm
    rcases mem_listenTask.mp hm with hm | ⟨_, hb⟩
    · exact h.noCreated i st hm
    · subst hb; simp
  · intro i hm
    rcases mem_listenTask.mp hm with hm | ⟨_, hb⟩
    · exact h.woken i hm
    · cases hb

theorem acqDrop_ids (s : Sem) (a : Acq) : (acqDrop s a).ids =
    match a.listener with
    | some id => s.ids.filter (· != id)
    | none => s.ids := by
  unfold acqDrop
  cases a.listener with
  | none => rfl
  | some id => exact (remove_spec s id true).ids

theorem acqDrop_count (s : Sem) (a : Acq) : (acqDrop s a).count = s.count := by
  unfold acqDrop
  cases a.listener with
  | none => rfl
  | some id => exact (remove_spec s id true).count

theorem semOk_acqDrop {s : Sem} (h : SemOk s) (a : Acq) : SemOk (acqDrop s a) := by
  unfold acqDrop
  cases a.listener with
  | none => exact h
  | some id => exact semOk_remove h id true

theorem semOk_release {s : Sem} (h : SemOk s) : SemOk (release s) := by
  unfold release
  exact semOk_notify (semOk_congr (s := s) (s' := { s with count := s.count + 1 }) rfl rfl rfl h) 1

theorem release_count (s : Sem) : (release s).count = s.count + 1 :=
  (notify_spec _ 1).count

theorem release_ids (s : Sem) : (release s).ids = s.ids := (notify_spec _ 1).ids

/-- `release` = `count += 1; notify(1)`: afterwards a listener is notified, if there is any -/
theorem noStranded_release (s : Sem) : (release s).NoStranded := by
  intro _ hne
  unfold release at hne ⊢
  exact notify_hasNotified _ (by omega) (fun h => hne ((notify_entries_nil _ 1).mpr h))

theorem noStranded_count_le {s : Sem} (h : s.NoStranded) {c : Nat} (hc : c ≤ s.count) :
    Sem.NoStranded { s with count := c } := by
  intro h0 hne
  exact h (Nat.lt_of_lt_of_le h0 hc) hne

theorem noStranded_of_count_zero {s : Sem} (h : s.count = 0) : s.NoStranded := by
  intro h0; omega

/-- Dropping a listener (cancelled `get_token`, or the future completed without consuming its
notification) never strands the others: a dropped *notified* listener passes the notification on,
a dropped un-notified one leaves the notified ones alone. -/
theorem noStranded_remove {s : Sem} (hw : s.WF) (h : s.NoStranded) (id : Nat) :
    (s.remove id true).NoStranded := by
  intro h0 hne
  by_cases hn : s.stateOf id = some LState.notified
  · exact remove_true_passes_on hn hne
  · rw [remove_true, if_neg hn] at h0 hne ⊢
    have hne' : s.entries ≠ [] := by
      intro he; apply hne; simp [Sem.erase, he]
    obtain ⟨⟨j, st⟩, he, hst⟩ := h h0 hne'
    simp only at hst; subst hst
    have hj : j ≠ id := by
      intro hj; subst hj
      exact hn ((Sem.stateOf_eq_some hw).mpr he)
    exact ⟨(j, LState.notified), mem_erase.mpr ⟨he, hj⟩, rfl⟩

theorem noStranded_acqDrop {s : Sem} (hw : s.WF) (h : s.NoStranded) (a : Acq) :
    (acqDrop s a).NoStranded := by
  unfold acqDrop
  cases a.listener with
  | none => exact h
  | some id => exact noStranded_remove hw h id

/-! ## Ownership of listeners by pending futures -/

/-- pending future number `i` holds listener `id` -/
def Owner (acqs : List (Option Acq)) (i id : Nat) : Prop :=
  acqs[i]? = some (some { listener := some id })

/-- the listener list and the pending futures are in 1-1 correspondence -/
structure Own (acqs : List (Option Acq)) (idl : List Nat) : Prop where
  /-- each pending future's listener is in the list -/
  owned : ∀ i id, Owner acqs i id → id ∈ idl
  /-- distinct futures have distinct listeners -/
  distinct : ∀ i j id, Owner acqs i id → Owner acqs j id → i = j
  /-- every entry belongs to a pending future (entries of completed/dropped futures are removed) -/
  covered : ∀ id ∈ idl, ∃ i, Owner acqs i id

theorem owner_append_fresh {acqs : List (Option Acq)} {i id : Nat} :
    Owner (acqs ++ [some { listener := none }]) i id ↔ Owner acqs i id := by
  unfold Owner
  rw [List.getElem?_append]
  split
  · rfl
  · rename_i h
    have : acqs[i]? = none := by simp; omega
    rw [this]
    constructor
    · intro h'
      cases hk : i - acqs.length with
      | zero => rw [hk] at h'; simp at h'
      | succ k => rw [hk] at h'; simp at h'
    · intro h'; cases h'

theorem own_get {acqs : List (Option Acq)} {idl : List Nat} (h : Own acqs idl) :
    Own (acqs ++ [some { listener := none }]) idl := by
  refine ⟨?_, ?_, ?_⟩
  · intro i id ho; exact h.owned i id (owner_append_fresh.mp ho)
  · intro i j id hi hj
    exact h.distinct i j id (owner_append_fresh.mp hi) (owner_append_fresh.mp hj)
  · intro id hid
    obtain ⟨i, hi⟩ := h.covered id hid
    exact ⟨i, owner_append_fresh.mpr hi⟩

theorem owner_set_ne {acqs : List (Option Acq)} {a i id : Nat} {x : Option Acq} (hne : i ≠ a) :
    Owner (acqs.set a x) i id ↔ Owner acqs i id := by
  unfold Owner
  rw [List.getElem?_set]
  simp [Ne.symm hne]

theorem owner_set_self {acqs : List (Option Acq)} {a id : Nat} {x : Option Acq}
    (h : Owner (acqs.set a x) a id) : x = some { listener := some id } := by
  unfold Owner at h
  rw [List.getElem?_set] at h
  simp only [if_true] at h
  split at h
  · cases h; rfl
  · cases h

/-- the future in slot `a` goes away (completed or cancelled) together with its listener -/
theorem own_drop {acqs : List (Option Acq)} {idl : List Nat} (h : Own acqs idl) {a : Nat} {acq : Acq}
    (ha : acqs[a]? = some (some acq)) :
    Own (acqs.set a none) (match acq.listener with
      | some id => idl.filter (· != id)
      | none => idl) := by
  have hself : ∀ id, ¬ Owner (acqs.set a none) a id := fun id ho => by
    have := owner_set_self ho; cases this
  refine ⟨?_, ?_, ?_⟩
  · intro i id ho
    have hia : i ≠ a := fun e => hself id (e ▸ ho)
    have ho' := (owner_set_ne hia).mp ho
    have hin := h.owned i id ho'
    obtain ⟨l⟩ := acq
    cases l with
    | none => exact hin
    | some id0 =>
      simp only [List.mem_filter, hin, true_and, bne_iff_ne, ne_eq]
      intro e; subst e
      exact hia (h.distinct i a id ho' ha)
  · intro i j id hi hj
    have hia : i ≠ a := fun e => hself id (e ▸ hi)
    have hja : j ≠ a := fun e => hself id (e ▸ hj)
    exact h.distinct i j id ((owner_set_ne hia).mp hi) ((owner_set_ne hja).mp hj)
  · intro id hid
    obtain ⟨l⟩ := acq
    cases l with
    | none =>
      obtain ⟨i, hi⟩ := h.covered id hid
      have hia : i ≠ a := by
        intro e; subst e
        unfold Owner at hi; rw [ha] at hi; cases hi
      exact ⟨i, (owner_set_ne hia).mpr hi⟩
    | some id0 =>
      simp only [List.mem_filter, bne_iff_ne, ne_eq] at hid
      obtain ⟨i, hi⟩ := h.covered id hid.1
      have hia : i ≠ a := by
        intro e; subst e
        unfold Owner at hi; rw [ha] at hi; cases hi
        exact hid.2 rfl
      exact ⟨i, (owner_set_ne hia).mpr hi⟩

/-- slot `a` (which holds no listener) gets the fresh listener `new` -/
theorem own_set_new {acqs : List (Option Acq)} {idl : List Nat} (h : Own acqs idl) {a new : Nat}
    (hlt : a < acqs.length) (hno : ∀ id, ¬ Owner acqs a id) (hnew : new ∉ idl) :
    Own (acqs.set a (some { listener := some new })) (idl ++ [new]) := by
  have hself : Owner (acqs.set a (some { listener := some new })) a new := by
    unfold Owner; rw [List.getElem?_set]; simp [hlt]
  refine ⟨?_, ?_, ?_⟩
  · intro i id ho
    by_cases hia : i = a
    · subst hia
      have := owner_set_self ho
      cases this
      simp
    · exact List.mem_append_left _ (h.owned i id ((owner_set_ne hia).mp ho))
  · intro i j id hi hj
    by_cases hia : i = a <;> by_cases hja : j = a
    · rw [hia, hja]
    · subst hia
      have := owner_set_self hi; cases this
      exact absurd (h.owned j _ ((owner_set_ne hja).mp hj)) hnew
    · subst hja
      have := owner_set_self hj; cases this
      exact absurd (h.owned i _ ((owner_set_ne hia).mp hi)) hnew
    · exact h.distinct i j id ((owner_set_ne hia).mp hi) ((owner_set_ne hja).mp hj)
  · intro id hid
    simp only [List.mem_append, List.mem_singleton] at hid
    rcases hid with hid | hid
    · obtain ⟨i, hi⟩ := h.covered id hid
      have hia : i ≠ a := fun e => hno id (e ▸ hi)
      exact ⟨i, (owner_set_ne hia).mpr hi⟩
    · subst hid; exact ⟨a, hself⟩

theorem set_eq_self {α : Type} {l : List α} {a : Nat} {x : α} (h : l[a]? = some x) :
    l.set a x = l := by
  apply List.ext_getElem?
  intro i
  rw [List.getElem?_set]
  split
  · rename_i e; subst e
    have hlt : a < l.length := by
      rcases Nat.lt_or_ge a l.length with h' | h'
      · exact h'
      · rw [List.getElem?_eq_none h'] at h; cases h
    rw [List.getElem?_eq_getElem hlt] at h; cases h
    simp [hlt]
  · rfl

end Fcgi.Runner
