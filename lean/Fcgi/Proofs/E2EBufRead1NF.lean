import Fcgi.Proofs.E2EBufRead2NF
/-!
# `fill_buf`/`consume` rounds to end of stream, then one write (`Proofs/E2EBufRead`) without the model-fuel bound

`BROK.hfu : 2·n + wcost |data| + 10 ≤ 1000` and the matching conjunct of `HB` are gone: `scriptOf c` (the cost of the
script still to run, part of the handler fuel of the model) dominates the rounds and the write that remain.  Same
transformation as `Proofs/E2EBufRead2NF.lean` (suffix `NF`; `write_phaseGN` comes from there).
-/
namespace Fcgi.E2E
open Fcgi Fcgi.Req Fcgi.Str Fcgi.Async Fcgi.Run Fcgi.Spec Fcgi.C09E

/-- `BROK` without the model-fuel bound -/
structure BROKN (g : Cfg) (n k : Nat) : Prop where
  wf : WellFormedPreamble g.p g.recs
  role : g.p.role = 1
  pairs : ∀ q ∈ g.p.pairs, (NV.enc q).length ≤ alignedBufsize g.b
  noise : NoiseFits (alignedBufsize g.b) g.recs
  hb : Body g.p.id 5 g.content g.body
  hf : NoiseFits (alignedBufsize g.b) g.body
  hp : g.pad.length < 256
  hX2 : g.X2 = []
  hX : g.X = serAll g.body ++ g.term.ser
  hU : g.U = g.term.ser
  hs : g.hscript = bscript n k g.data g.st
  hk : 0 < k
  hn : g.content.length ≤ n

/-- `HB` without the fuel conjunct -/
def HBN (g : Cfg) (k : Nat) (c : Conn) : Prop :=
  ∃ r n' handed dO shown, c.phase = .handler r { ops := rounds n' k ++ .fill :: oscript g.data g.st, propagate := true } ∧
    BSt g.K g.L1 [] r c.env.mutex c.env.tr handed dO ∧ g.content.length ≤ handed.length + n' ∧
    handed = taken k shown ∧ SlEv shown c.env.tr ∧
    Ben c.env.tr ∧ c.stop = false ∧ Ev1 g c.env.tr ∧ c.scripts = g.more

def SBN (g : Cfg) (k : Nat) (c : Conn) : Prop := FStage g c ∨ HBN g k c ∨ HWb g k c ∨ TB g k c

abbrev RBN (g : Cfg) (k : Nat) (N : Nat) (c : Conn) : Prop := GRes3 (SBN g k) (AB g k) (FB g k) N c

theorem BROKN.fok {g : Cfg} {n k : Nat} (ok : BROKN g n k) : FOK g := ⟨ok.wf, ok.pairs, ok.noise⟩

theorem BROKN.hid {g : Cfg} {n k : Nat} (ok : BROKN g n k) : g.p.id < 65536 := (pid_of_wf ok.wf).2

theorem BROKN.front {g : Cfg} {n k : Nat} (ok : BROKN g n k) {us : List Rec} (hu : LeftOK (alignedBufsize g.b) us) :
    BROKN (g.front us) n k :=
  ⟨wf_idle ok.wf us hu.1, ok.role, ok.pairs, noiseFits_app hu.2 ok.noise, ok.hb, ok.hf, ok.hp, ok.hX2, ok.hX, ok.hU,
    ok.hs, ok.hk, ok.hn⟩

theorem BROKN.kok {g : Cfg} {n k : Nat} (ok : BROKN g n k) : g.K.OK := by
  have hid := ok.hid
  have htw : g.term.WF := ⟨hid, by simp [Cfg.term], ok.hp⟩
  have hXs : g.X = serAll (g.body ++ g.term :: []) := by
    rw [ok.hX, C02.serAll_append, C02.serAll_single]
  have hcls : rclass ⟨g.p.id, g.p.role, 5, g.mc⟩ g.term = .endStream := by simp [rclass, Cfg.term, RT.isInputStream]
  have href := refWire_stream ⟨g.p.id, g.p.role, 5, g.mc⟩ (Or.inl rfl) hid ok.hb g.term htw hcls []
    (fun _ h => nomatch h)
  have hwf : ∀ r ∈ g.body ++ g.term :: [], r.WF := by
    intro r hr
    rcases List.mem_append.1 hr with hr | hr
    · exact body_wf hid ok.hb r hr
    · rw [List.mem_singleton.1 hr]; exact htw
  refine ⟨?_, ?_, by have := cap24 g; show 8 ≤ g.cap; omega⟩
  · show refWire ⟨g.p.id, g.p.role, 5, g.mc⟩ g.X = _
    rw [hXs, href]
    simp only [Cfg.K, ok.hX2, C02.serAll_single, List.append_nil]
  · intro G hG hv
    have hG' : G <+: g.X := hG
    rw [hXs] at hG'
    refine stream_fits ⟨g.p.id, g.p.role, 5, g.mc⟩ _ hwf (by rw [href]; intro h; cases h)
      (by have := cap24 g; show 8 ≤ alignedBufsize g.b; exact Nat.le_trans (by omega) this) ?_ G hG' hv
    intro r hr hg
    rcases List.mem_append.1 hr with hr | hr
    · exact ok.hf r hr hg
    · rw [List.mem_singleton.1 hr] at hg
      exact absurd hg.1 (by simp [Cfg.term, RT.getValues])

theorem BROKN.kfin {g : Cfg} {n k : Nat} (ok : BROKN g n k) : g.K.final = true := by
  simp [RCtx.final, Cfg.K, ok.role, nextInputStream, RT.stdin]

theorem BROKN.ku {g : Cfg} {n k : Nat} (ok : BROKN g n k) : g.K.U = g.U := by
  simp [Cfg.K, ok.hX2, ok.hU]

theorem SBN.cong {g : Cfg} {k : Nat} {c c' : Conn} (h : SBN g k c)
    (hph : c'.phase = c.phase) (hsc : c'.scripts = c.scripts) (hstop : c'.stop = c.stop)
    (hm : c'.env.mutex = c.env.mutex) (hs : TrSame c.env.tr c'.env.tr) : SBN g k c' := by
  rcases h with h | ⟨r, n', handed, dO, shown, h1, h2, h3, h4, h5, h7, h8, h9, h10⟩ |
    ⟨r, h, O1, shown, h1, h2, h3, h4, h5, h6, h7, h8, h9⟩ | ⟨O1, O2, shown, h1, h2, h3⟩
  · exact Or.inl (h.cong hph hsc hstop hm hs)
  · exact Or.inr (Or.inl ⟨r, n', handed, dO, shown, hph.trans h1, by
      obtain ⟨⟨G, hi⟩, a, b, ⟨O1, l1, l2⟩⟩ := h2
      exact ⟨⟨G, by rw [hs.input]; exact hi⟩, by rw [hm]; exact a, by rw [hm]; exact b,
        ⟨O1, by rw [hs.wlog]; exact l1, l2⟩⟩,
      h3, h4, fun s hx => hs.mem (h5 s hx), hs.ben h7, hstop.trans h8, hs.ev1 h9, hsc.trans h10⟩)
  · exact Or.inr (Or.inr (Or.inl ⟨r, h, O1, shown, hph.trans h1, h2.cong hm hs.wlog, by rw [hs.input]; exact h3, h4,
      h5.step (fun _ hx => hs.mem hx), hs.ben h6, hstop.trans h7, hs.ev1 h8, hsc.trans h9⟩))
  · exact Or.inr (Or.inr (Or.inr ⟨O1, O2, shown, h1, h2.step (fun _ hx => hs.mem hx), h3.cong hph hsc hstop hm hs⟩))

/-- **The handler has returned**: `close` of a request that has read its input to the end. -/
theorem bdoneNF {g : Cfg} {n k : Nat} (ok : BROKN g n k) {c : Conn} {r0 r : AReq} {h h' : HState} {e' : Run.Env}
    {O1 : Bytes} {shown : List Bytes} (hph : c.phase = .handler r0 h)
    (heq : handlerPoll ((handlerFuel c.env r0 + scriptOf c)) r0 h c.env = (r, h', e', .done (.ok g.st)))
    (hws : h'.writers = [none]) (hm : e'.mutex = none)
    (hlog : e'.tr.wlog = (g.L1 ++ O1) ++ streamRecords 6 g.p.id g.data)
    (hfin : REnd g.N r e'.tr.input) (hO : O1 ++ r.sp.output = g.Ob) (hseen : Seen g k shown e'.tr)
    (hts : TStep c.env.tr e'.tr) (hsg : e'.segs = c.env.segs)
    (hb : Ben c.env.tr) (hstop : c.stop = false) (hev : Ev1 g c.env.tr) (hsc : c.scripts = g.more) :
    RBN g k 3 c := by
  have hstep := C07.handler_step c r0 h hph
  rw [heq] at hstep
  have halive : (h'.writers.filter Option.isSome).length = 0 := by rw [hws]; rfl
  simp only [halive] at hstep
  have hstep' : stepConn c =
      .next ⟨.closing r .start g.st 0, e'.ev s!"HE(ok:{showStatus g.st})", c.scripts, c.stop⟩ := hstep
  have hts2 : TStep c.env.tr (e'.tr.ev s!"HE(ok:{showStatus g.st})") :=
    hts.trans (TStep.ev _ (by simp [isHS, toString_str]))
  obtain ⟨heq2, hce⟩ := close_start_eq (g := g) (r := r) (t := e'.tr.ev s!"HE(ok:{showStatus g.st})") hfin
  have hcore := eclose_out (g := g) (Lf := g.Lb O1 r.sp.output) (ep := g.epi)
    (c := ⟨.closing r .start g.st 0, e'.ev s!"HE(ok:{showStatus g.st})", c.scripts, c.stop⟩)
    (r := r) (r2 := closeReq r) (cs := .start) (rest := r.sp.output) rfl
    (by show closePoll r .start g.st 0 e'.mutex _ = closeP4 _ none _ _
        rw [hm]; exact heq2)
    (.refl _) hce
    (by show (e'.tr.ev _).wlog ++ r.sp.output ++ g.epi = g.Lb O1 r.sp.output
        rw [Transport.ev_wlog, hlog]; simp only [Cfg.Lb, List.append_assoc])
    (hb.step hts2) hstop (hev.step hts2) hsc
  have hseen2 : Seen g k shown (e'.tr.ev s!"HE(ok:{showStatus g.st})") :=
    hseen.step (fun _ hx => List.mem_append_left _ hx)
  have hres : RBN g k 2 ⟨.closing r .start g.st 0, e'.ev s!"HE(ok:{showStatus g.st})", c.scripts, c.stop⟩ := hcore.imp
    (fun c' hl x => Or.inr (Or.inr (Or.inr ⟨O1, r.sp.output, shown, hO, hseen2.step (fun _ hx => hl.ts.evm _ hx), x⟩)))
    (fun c' hl x => (⟨O1, r.sp.output, shown, hO, hseen2.step (fun _ hx => hl.ts.evm _ hx), x⟩ : AB g k c'))
    (fun c' hl x => (⟨O1, r.sp.output, shown, hO, hseen2.step (fun _ hx => hl.ts.evm _ hx), x⟩ : FB g k c'))
  exact (GRes3.of_steps (Steps.one hstep') ⟨hts2.w, hsg, rfl⟩ hres).mono (by omega)

/-- what a poll of the write phase comes to -/
theorem bwrite_outNF {g : Cfg} {n k : Nat} (ok : BROKN g n k) {c : Conn} {r0 r : AReq} {h : HState} {e0 : Run.Env}
    {O1 : Bytes} {shown : List Bytes} (hph : c.phase = .handler r0 h)
    {out : AReq × HState × Run.Env × HRes}
    (heq : handlerPoll ((handlerFuel c.env r0 + scriptOf c)) r0 h c.env = out)
    (hw : WOutG g.p.id g.data g.st (g.L1 ++ O1) r e0 out)
    (hts0 : TStep c.env.tr e0.tr) (hsg0 : e0.segs = c.env.segs)
    (hfin : REnd g.N r e0.tr.input) (hO : O1 ++ r.sp.output = g.Ob) (hseen : Seen g k shown e0.tr)
    (hb : Ben c.env.tr) (hstop : c.stop = false) (hev : Ev1 g c.env.tr) (hsc : c.scripts = g.more) :
    RBN g k 3 c := by
  obtain ⟨r', h', e', res⟩ := out
  obtain ⟨q0, q1, q2, q3, q4⟩ := hw
  simp only at q0 q1 q2 q3 q4
  subst q0
  have hts := hts0.trans q1
  have hseen' : Seen g k shown e'.tr := hseen.step (fun _ hx => q1.mem_events hx)
  rcases q4 with ⟨rfl, hwk, hans, hwg⟩ | ⟨rfl, hws, hm, hlog⟩
  · have hstep := C07.handler_step c r0 h hph
    rw [heq] at hstep
    have hstep' : stepConn c = .halt ⟨.handler r' h', e', c.scripts, c.stop⟩ .pending := hstep
    exact Or.inl (Or.inl ⟨_, (Halts.now hstep').mono (by omega), ⟨hts.w, q3.trans hsg0, rfl⟩,
      Or.inr (Or.inr (Or.inl ⟨r', h', O1, shown, rfl, hwg, by rw [q2]; exact hfin, hO, hseen', hb.step hts, hstop,
        hev.step hts, hsc⟩)), hwk, by show ans e'.tr < ans c.env.tr; have := hts0.ans_le; omega⟩)
  · exact bdoneNF ok hph heq hws hm hlog (by rw [q2]; exact hfin) hO hseen' hts (q3.trans hsg0) hb hstop hev hsc

/-- **One poll** with the handler in its rounds (or its final `fill_buf`). -/
theorem hb_pollNF {g : Cfg} {n k : Nat} (ok : BROKN g n k) {c : Conn} (h : HBN g k c) : RBN g k 3 c := by
  obtain ⟨r, n', handed, dO, shown, hph, hs, hlen, hsh, hevs, hb, hstop, hev, hsc⟩ := h
  have hK := ok.kok
  have hfuel := handlerFuel_ge c.env r
  have hwl := wcost_le g.data.length
  have hcost : 2 * n' + wcost g.data.length + 4 ≤ scriptOf c := by
    rw [scriptOf_handler hph, scriptCost_fresh]
    have := rounds_cost n' k
    simp only [List.map_append, List.sum_append, List.map_cons, List.sum_cons, opCost, oscript, List.map_nil, List.sum_nil]
    omega
  have hrole : r.sp.request.role = 1 := by
    obtain ⟨⟨G, hi⟩, _⟩ := hs
    rw [hi.req]; exact ok.role
  rcases rounds_run hK (L := g.L1) (P := []) k ok.hk (.fill :: oscript g.data g.st) [] true n' ((handlerFuel c.env r + scriptOf c)) r
      c.env handed dO shown (by omega) hb hs (by show g.content.length ≤ _; exact hlen) hsh hevs with
    ⟨n2, r', e', handed', dO', shown', a0, a1, a2, a3, a4, a5, a6, a7, a8, a9⟩ |
    ⟨r', e', dO', shown', f', b1, b2, b3, b4, b5, b6, b7⟩
  · have hstep := C07.handler_step c r _ hph
    rw [a1] at hstep
    have hstep' : stepConn c = .halt ⟨.handler r' { ops := rounds n2 k ++ .fill :: oscript g.data g.st, propagate := true },
        e', c.scripts, c.stop⟩ .pending := hstep
    exact Or.inl (Or.inl ⟨_, (Halts.now hstep').mono (by omega), ⟨a7.w, a6, rfl⟩,
      Or.inr (Or.inl ⟨r', n2, handed', dO', shown', rfl, a2, a3, a4, a5, hb.step a7, hstop, hev.step a7, hsc⟩),
      a8, a9⟩)
  · have hrole' : r'.sp.request.role = 1 := by
      obtain ⟨⟨G, hi⟩, _⟩ := b3
      rw [hi.req]; exact ok.role
    rcases bfinal_core hK ok.kfin g.data g.st f' r' e' dO' (by omega) (hb.step b7) hrole' b3 with
      ⟨r2, e2, dO2, c1, c2, c3, c4, c5, c6⟩ |
      ⟨r2, e1, O1, d1, d2, d3, d4, d5, d6, d7, d8, d9, d10, d11, ⟨G, hi⟩, d12⟩
    · have hstep := C07.handler_step c r _ hph
      rw [b1, c1] at hstep
      have hstep' : stepConn c = .halt ⟨.handler r2 { ops := rounds 0 k ++ .fill :: oscript g.data g.st, propagate := true },
          e2, c.scripts, c.stop⟩ .pending := hstep
      have hts := b7.trans c4
      exact Or.inl (Or.inl ⟨_, (Halts.now hstep').mono (by omega), ⟨hts.w, c3.trans b6, rfl⟩,
        Or.inr (Or.inl ⟨r2, 0, g.content, dO2, shown', rfl, c2, by omega, b4, b5.step c4, hb.step hts, hstop,
          hev.step hts, hsc⟩), c5, by show ans e2.tr < ans c.env.tr; have := b7.ans_le; omega⟩)
    · -- end of file seen: `output_stream(Stdout)`, `write_all(data)`
      have hreq : r2.sp.request = g.p.request := hi.req
      have hrl : r2.sp.raw.length ≤ g.cap := by
        have := hi.sinv.1
        rw [hi.capK] at this
        simp only [Str.Parser.freeStart] at this
        have e : g.K.cap = g.cap := rfl
        omega
      have hfin : REnd g.N r2 e1.tr.input :=
        ⟨d7, d8, d9, d10, by rw [d11]; exact ok.ku, hreq, hi.capK, hi.mt.mc, hrl, hi.sinv⟩
      have hid2 : r2.sp.request.id = g.p.id := by rw [hreq]; rfl
      have hw := open_phaseG (data := g.data) (st := g.st) (Lb := g.L1 ++ O1) (r := r2) (e := e1) d7
        (by rw [hreq]; exact ok.role) d6 d4 (hb.step (b7.trans d1)) (fuel := f' - 1) (by omega)
      rw [hid2] at hw
      have hseen : Seen g k shown' e1.tr := ⟨b4, b5.step d1, d3⟩
      -- the poll as a whole
      have hO : O1 ++ r2.sp.output = g.Ob := by rw [d5]; rfl
      exact bwrite_outNF ok (r := r2) (e0 := e1) (O1 := O1) (shown := shown') hph (b1.trans d12) hw (b7.trans d1)
        (d2.trans b6) hfin hO hseen hb hstop hev hsc

/-- **One poll** with the handler in its `write_all`. -/
theorem hwb_pollNF {g : Cfg} {n k : Nat} (ok : BROKN g n k) {c : Conn} (h : HWb g k c) : RBN g k 3 c := by
  obtain ⟨r, h, O1, shown, hph, hw, hfin, hO, hseen, hb, hstop, hev, hsc⟩ := h
  have hfuel := handlerFuel_ge c.env r
  have hout := write_phaseGN (r := r) hw hb (fuel := (handlerFuel c.env r + scriptOf c)) (by
    have h2 := wcost_le (restOf h.sub g.data).length
    have h3 : scriptOf c = (restOf h.sub g.data).length + 1 + 2 := by
      rw [scriptOf_handler hph]
      obtain ⟨ops, sub, ws, pr⟩ := h
      have := hw.ops
      simp only at this
      subst this
      simp [scriptCost, wscript, curCost_writeAll, opCost]
    omega)
  exact bwrite_outNF ok (r := r) (e0 := c.env) hph rfl hout (.refl _) rfl hfin hO hseen hb hstop hev hsc

/-- the first poll of the handler -/
theorem bufread_firstNF {g : Cfg} {n k : Nat} (ok : BROKN g n k) (c : Conn) (hc : FirstCfg g c) : RBN g k 6 c := by
  obtain ⟨e1, hph, hlen, hwire, hlog, hm, hb, hstop, hev, hsc⟩ := hc
  have hrole : g.p.request.role = 1 := ok.role
  have hstart : C03SI.Start g.K.E (Str.Parser.fromParser g.cap g.p.request e1 g.mc) :=
    C03SI.start_fresh g.cap g.p.request e1 g.mc hlen ok.hid (Or.inl hrole)
  have hrinv : RInv g.K (AReq.new (Str.Parser.fromParser g.cap g.p.request e1 g.mc)) e1 c.env.tr.input [] [] := by
    refine ⟨hstart.mtch, hstart.inv, rfl, rfl, rfl, hwire, fun x => ?_⟩
    have := C03SI.rem_start hstart x
    show refWire g.K.E (e1 ++ x) = (Rem g.K.E (Str.Parser.fromParser g.cap g.p.request e1 g.mc) x).pre [] []
    rw [this]; rfl
  have hrst : RSt g.K g.L1 [] (AReq.new (Str.Parser.fromParser g.cap g.p.request e1 g.mc)) c.env.mutex c.env.tr [] [] :=
    ⟨⟨e1, hrinv⟩, by rw [hm]; exact lockInv_free rfl, Or.inl hm, ⟨[], by rw [hlog, List.append_nil], rfl⟩⟩
  rw [ok.hs] at hph
  exact (hb_pollNF ok ⟨_, n, [], [], [], hph, by
      show RStB g.K g.L1 [] _ c.env.mutex c.env.tr ([] ++ _) []
      exact .of hrst,
    by have := ok.hn; simpa using this, rfl, (fun _ h => nomatch h), hb, hstop, hev, hsc⟩).mono (by omega)

theorem tb_pollNF {g : Cfg} {k : Nat} {c : Conn} (h : TB g k c) : RBN g k 2 c := by
  obtain ⟨O1, O2, shown, hO, hseen, h⟩ := h
  exact (le_poll h).imp
    (fun c' hl x => Or.inr (Or.inr (Or.inr ⟨O1, O2, shown, hO, hseen.step (fun _ hx => hl.ts.evm _ hx), x⟩)))
    (fun c' hl x => ⟨O1, O2, shown, hO, hseen.step (fun _ hx => hl.ts.evm _ hx), x⟩)
    (fun c' hl x => ⟨O1, O2, shown, hO, hseen.step (fun _ hx => hl.ts.evm _ hx), x⟩)

theorem sb_pollNF {g : Cfg} {n k : Nat} (ok : BROKN g n k) {c : Conn} (h : SBN g k c) :
    RBN g k (2 * c.env.tr.input.length + 15) c := by
  rcases h with h | h | h | h
  · exact fstage_poll3 ok.fok (fun _ h => Or.inl h) (bufread_firstNF ok) h
  · exact (hb_pollNF ok h).mono (by omega)
  · exact (hwb_pollNF ok h).mono (by omega)
  · exact (tb_pollNF h).mono (by omega)

/-- `run_bufread` without the size hypothesis (`run_stages3'`). -/
theorem run_bufreadNF' {g : Cfg} {n k : Nat} (ok : BROKN g n k) {Z : Bytes}
    (hns : NoStuckW g.cap g.mc (g.U ++ Z))
    (hNF : ∀ F x, F ++ x ++ Z = g.U ++ Z → (run .header F g.mc).st.isFinal = false)
    (em : EndMode) (evs0 : List String) (c : Conn) (n0 fuel : Nat) (hst : FStage g c)
    (hem : c.env.tr.endMode = em) (hev0 : ∀ s ∈ evs0, s ∈ c.env.tr.events)
    (hsegs : c.env.segs = []) (hf : ans c.env.tr + 1 ≤ fuel) :
    ∃ c'' fin, runTask fuel c n0 none = (c'', fin) ∧
      (GEnd g.cap g.mc Z g.more (g.hs0 + 1)
          (fun i : Bytes × Bytes × List Bytes => g.p.flags.toNat % 2 = 1 ∧ i.1 ++ i.2.1 = g.Ob ∧
            g.content = taken k i.2.2)
          (fun _ => g.U ++ Z) (fun i => g.Lb i.1 i.2.1)
          (fun i => hsEvent g.p.request :: fEvent [] :: i.2.2.map fEvent) em evs0 (ans c.env.tr) c'' fin ∨
       (fin = "RET" ∧ FB g k c'' ∧ c''.env.tr.endMode = em ∧ (∀ s ∈ evs0, s ∈ c''.env.tr.events))) :=
  run_stages3' (cap24 g) (fun _ _ => hns) (fun _ _ => hNF) (fun _ _ h => h.cong)
    (fun _ h => (sb_pollNF ok h).imp (fun _ _ h => h) (fun c1 _ h => by
      obtain ⟨O1, O2, shown, hO, hseen, haf⟩ := h
      obtain ⟨raw, hph, hw, hraw⟩ := haf.ph
      exact ⟨(O1, O2, shown), ⟨haf.keep, hO, hseen.1⟩,
        Or.inr ⟨raw, hph, by rw [hw], hraw, haf.log, haf.ben, haf.stop⟩,
        ⟨haf.sc, haf.mtx, haf.ev.1, fun s hs => by
          rcases List.mem_cons.1 hs with rfl | hs
          · exact haf.ev.2
          rcases List.mem_cons.1 hs with rfl | hs
          · exact hseen.2.2
          · obtain ⟨x, hx, rfl⟩ := List.mem_map.1 hs
            exact hseen.2.1 x hx⟩⟩) (fun _ _ h => h))
    em evs0 c n0 fuel (Or.inl hst) hem hev0 hsegs hf

end Fcgi.E2E
