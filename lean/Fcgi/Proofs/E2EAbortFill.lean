import Fcgi.Proofs.E2EEcho
import Fcgi.Proofs.E2EAbortConn
import Fcgi.Proofs.E2EFilterAbortStr
/-!
# AbortRequest for a Responder that reads through `fill_buf`: the connection level

The handler is `.fill :: rest` (`propagate = true`); the `AbortRequest` for the request's id arrives before any Stdin
content (`g.content = []`; management / foreign-id noise in front of it is allowed).  `fill_buf` (`poll_input(None)`)
fails with the abort (`pollInput_simA0`), the handler returns the error, `Token::run` calls `close(ABORT)`.
Stages: `parse_request` (`FStage`), the handler suspended in `fill_buf` (`HFl`), `close` in its last writes (`LE`).
-/
namespace Fcgi.E2E
open Fcgi Fcgi.Req Fcgi.Str Fcgi.Async Fcgi.Run Fcgi.Spec Fcgi.C09E

/-- the hypotheses -/
structure AFOK (g : Cfg) (a : Rec) (tail : Bytes) (rest : List HOp) : Prop where
  ab : AbOK g a tail true []
  hC : g.content = []
  hs : g.hscript = .fill :: rest

theorem AFOK.st {g : Cfg} {a : Rec} {tail : Bytes} {rest : List HOp} (ok : AFOK g a tail rest) :
    g.st = ExitStatus.abort := by
  rcases ok.ab.mode with ⟨_, h⟩ | ⟨h, _⟩
  · exact h
  · cases h

theorem AFOK.fok {g : Cfg} {a : Rec} {tail : Bytes} {rest : List HOp} (ok : AFOK g a tail rest) : FOK g :=
  ⟨ok.ab.wf, ok.ab.pairs, ok.ab.noise⟩

/-- the log when `close` is done -/
def Cfg.LfFill (g : Cfg) : Bytes := g.L1 ++ g.Ot ++ g.epi

/-- the handler suspended in (or about to call) `fill_buf` -/
def HFl (g : Cfg) (rest : List HOp) (c : Conn) : Prop :=
  ∃ r dO, c.phase = .handler r { ops := .fill :: rest, sub := .fresh, writers := [], propagate := true } ∧
    RSt g.KA g.L1 [] r c.env.mutex c.env.tr [] dO ∧ r.writeable = true ∧
    Ben c.env.tr ∧ c.stop = false ∧ Ev1 g c.env.tr ∧ c.scripts = g.more

def SAF (g : Cfg) (rest : List HOp) (c : Conn) : Prop := FStage g c ∨ HFl g rest c ∨ LE g g.LfFill g.epi c
abbrev RAF (g : Cfg) (rest : List HOp) (N : Nat) (c : Conn) : Prop :=
  GRes3 (SAF g rest) (AfterE g g.LfFill) (FinE g g.LfFill) N c

theorem SAF.cong {g : Cfg} {rest : List HOp} (c c' : Conn) (h : SAF g rest c)
    (hph : c'.phase = c.phase) (hsc : c'.scripts = c.scripts) (hstop : c'.stop = c.stop)
    (hm : c'.env.mutex = c.env.mutex) (hs : TrSame c.env.tr c'.env.tr) : SAF g rest c' := by
  rcases h with h | ⟨r, dO, h1, h2, h3, h4, h5, h6, h7⟩ | h
  · exact Or.inl (h.cong hph hsc hstop hm hs)
  · exact Or.inr (Or.inl ⟨r, dO, hph.trans h1, h2.cong hm hs, h3, hs.ben h4, hstop.trans h5, hs.ev1 h6, hsc.trans h7⟩)
  · exact Or.inr (Or.inr (h.cong hph hsc hstop hm hs))

/-- one poll with the handler in `fill_buf` -/
theorem hfl_core {g : Cfg} {a : Rec} {tail : Bytes} {rest : List HOp} (ok : AFOK g a tail rest) {c : Conn} {r : AReq}
    {dO : Bytes}
    (hph : c.phase = .handler r { ops := .fill :: rest, sub := .fresh, writers := [], propagate := true })
    (hs : RSt g.KA g.L1 [] r c.env.mutex c.env.tr [] dO) (hwr : r.writeable = true)
    (hb : Ben c.env.tr) (hstop : c.stop = false) (hev : Ev1 g c.env.tr) (hsc : c.scripts = g.more) :
    RAF g rest 4 c := by
  have hK := kaok ok.ab
  have hC : g.KA.C = [] := ok.hC
  have hfuel := handlerFuel_ge c.env r
  obtain ⟨f, hf⟩ : ∃ f, handlerFuel c.env r + scriptOf c = f + 1 := ⟨handlerFuel c.env r + scriptOf c - 1, by omega⟩
  have hstep := C07.handler_step c r _ hph
  rw [hf, hp_fill] at hstep
  rcases hpi : r.pollInput none c.env.mutex c.env.tr with ⟨r', m', t', res⟩
  obtain ⟨hts, hpost⟩ := pollInput_simA0 hK hC hb hs hpi
  rw [hpi] at hstep
  cases res with
  | ready k d => exact hpost.elim
  | panic x => exact hpost.elim
  | pending =>
    obtain ⟨⟨dO', hs'⟩, hwk, hans, hw'⟩ := hpost
    have hstep' : stepConn c = .halt ⟨.handler r' ⟨.fill :: rest, .fresh, [], true⟩,
        ⟨t', m', c.env.segs⟩, c.scripts, c.stop⟩ .pending := hstep
    exact Or.inl (Or.inl ⟨_, (Halts.now hstep').mono (by omega), ⟨hts.w, rfl, rfl⟩,
      Or.inr (Or.inl ⟨r', dO', rfl, hs', hw'.trans hwr, hb.step hts, hstop, hev.step hts, hsc⟩), hwk, hans⟩)
  | err e =>
    obtain ⟨he, hm', hat, hw'⟩ := hpost
    subst he
    subst hm'
    simp only [if_true] at hstep
    have hstep' : stepConn c = .next ⟨.closing r' .start g.st 0,
        ((⟨t', none, c.env.segs⟩ : Run.Env).ev s!"f!{showIo .abortRequest}").ev "HE(err:abort-request)",
        c.scripts, c.stop⟩ := by
      rw [ok.st]; exact hstep
    have hts2 : TStep c.env.tr ((t'.ev s!"f!{showIo .abortRequest}").ev "HE(err:abort-request)") :=
      (hts.trans (TStep.ev _ (by decide))).trans (TStep.ev _ (by decide))
    have hat2 : AtAbort g.KA g.L1 [] r' ((t'.ev s!"f!{showIo .abortRequest}").ev "HE(err:abort-request)") :=
      hat.congr rfl rfl
    have hfin : REnd g.N r' ((t'.ev s!"f!{showIo .abortRequest}").ev "HE(err:abort-request)").input := by
      refine ⟨hw'.trans hwr, hat2.lock, hat2.pay, hat2.pad, hat2.wire, hat2.req, hat2.capK, hat2.mcK, ?_, hat2.sinv⟩
      have := hat2.sinv.1
      have hc := hat2.capK
      simp only [Str.Parser.freeStart] at this
      show r'.sp.raw.length ≤ g.cap
      have hc' : r'.sp.cap = g.cap := hc
      omega
    obtain ⟨heq2, hce⟩ := close_start_eq (g := g) (r := r')
      (t := (t'.ev s!"f!{showIo .abortRequest}").ev "HE(err:abort-request)") hfin
    obtain ⟨O1, hl1, hl2⟩ := hat2.log
    have hO : O1 ++ r'.sp.output = g.Ot := by rw [hl2, ok.ab.hOt]; rfl
    have hcore := eclose_out (g := g) (Lf := g.LfFill) (ep := g.epi)
      (c := ⟨.closing r' .start g.st 0,
        ((⟨t', none, c.env.segs⟩ : Run.Env).ev s!"f!{showIo .abortRequest}").ev "HE(err:abort-request)",
        c.scripts, c.stop⟩)
      (r := r') (r2 := closeReq r') (cs := .start) (rest := r'.sp.output) rfl heq2 (.refl _) hce
      (by show ((t'.ev _).ev _).wlog ++ r'.sp.output ++ g.epi = g.LfFill
          rw [hl1, List.append_assoc g.L1, hO]; rfl)
      (hb.step hts2) hstop (hev.step hts2) hsc
    have hres : RAF g rest 2 ⟨.closing r' .start g.st 0,
        ((⟨t', none, c.env.segs⟩ : Run.Env).ev s!"f!{showIo .abortRequest}").ev "HE(err:abort-request)",
        c.scripts, c.stop⟩ := hcore.imp (fun _ _ x => Or.inr (Or.inr x)) (fun _ _ x => x) (fun _ _ x => x)
    exact (GRes3.of_steps (Steps.one hstep') ⟨hts2.w, rfl, rfl⟩ hres).mono (by omega)

theorem hfl_poll {g : Cfg} {a : Rec} {tail : Bytes} {rest : List HOp} (ok : AFOK g a tail rest) {c : Conn}
    (h : HFl g rest c) : RAF g rest 4 c := by
  obtain ⟨r, dO, hph, hs, hwr, hb, hstop, hev, hsc⟩ := h
  exact hfl_core ok hph hs hwr hb hstop hev hsc

/-- the first poll of the handler -/
theorem fill_first {g : Cfg} {a : Rec} {tail : Bytes} {rest : List HOp} (ok : AFOK g a tail rest) (c : Conn)
    (hc : FirstCfg g c) : RAF g rest 6 c := by
  obtain ⟨e1, hph, hlen, hwire, hlog, hm, hb, hstop, hev, hsc⟩ := hc
  rw [ok.hs] at hph
  have hstart : C03SI.Start g.KA.E (Str.Parser.fromParser g.cap g.p.request e1 g.mc) :=
    C03SI.start_fresh g.cap g.p.request e1 g.mc hlen (pid_of_wf ok.ab.wf).2 (Or.inl ok.ab.role)
  have hrinv : RInv g.KA (AReq.new (Str.Parser.fromParser g.cap g.p.request e1 g.mc)) e1 c.env.tr.input [] [] := by
    refine ⟨hstart.mtch, hstart.inv, rfl, rfl, rfl, hwire, fun x => ?_⟩
    have := C03SI.rem_start hstart x
    show refWire g.KA.E (e1 ++ x) = (Rem g.KA.E (Str.Parser.fromParser g.cap g.p.request e1 g.mc) x).pre [] []
    rw [this]; rfl
  have hwr : (AReq.new (Str.Parser.fromParser g.cap g.p.request e1 g.mc)).writeable = true := by
    simp [AReq.new, Str.Parser.fromParser, Preamble.request, ok.ab.role, inputStreams]
  exact (hfl_core ok (dO := []) hph
    ⟨⟨e1, hrinv⟩, by rw [hm]; exact lockInv_free rfl, Or.inl hm, ⟨[], by rw [hlog, List.append_nil], rfl⟩⟩
    hwr hb hstop hev hsc).mono (by omega)

theorem saf_poll {g : Cfg} {a : Rec} {tail : Bytes} {rest : List HOp} (ok : AFOK g a tail rest) {c : Conn}
    (h : SAF g rest c) : RAF g rest (2 * c.env.tr.input.length + 15) c := by
  rcases h with h | h | h
  · exact fstage_poll3 ok.fok (fun _ h => Or.inl h) (fill_first ok) h
  · exact (hfl_poll ok h).mono (by omega)
  · exact ((le_poll h).imp (fun _ _ x => Or.inr (Or.inr x)) (fun _ _ x => x) (fun _ _ x => x)).mono (by omega)

/-- **The executor.** -/
theorem run_abort_fill {g : Cfg} {a : Rec} {tail : Bytes} {rest : List HOp} (ok : AFOK g a tail rest) {Z : Bytes}
    (hns : NoStuckW g.cap g.mc (g.U ++ Z))
    (hNF : ∀ F x, F ++ x ++ Z = g.U ++ Z → (run .header F g.mc).st.isFinal = false)
    (em : EndMode) (evs0 : List String) (c : Conn) (n0 fuel : Nat) (hst : FStage g c)
    (hem : c.env.tr.endMode = em) (hev0 : ∀ s ∈ evs0, s ∈ c.env.tr.events)
    (hsegs : c.env.segs = []) (hf : ans c.env.tr + 1 ≤ fuel) :
    ∃ c'' fin, runTask fuel c n0 none = (c'', fin) ∧
      (GEnd g.cap g.mc Z g.more (g.hs0 + 1)
          (fun _ : Unit => g.p.flags.toNat % 2 = 1)
          (fun _ => g.U ++ Z) (fun _ => g.LfFill)
          (fun _ => [hsEvent g.p.request]) em evs0 (ans c.env.tr) c'' fin ∨
       (fin = "RET" ∧ FinE g g.LfFill c'' ∧ c''.env.tr.endMode = em ∧ (∀ s ∈ evs0, s ∈ c''.env.tr.events))) :=
  run_stages3' (cap24 g) (fun _ _ => hns) (fun _ _ => hNF)
    (fun c c' h => SAF.cong c c' h)
    (fun _ h => (saf_poll ok h).imp (fun _ _ h => h)
      (fun c1 _ haf => AfterE.ztail (Z := Z) (evs := []) haf (fun _ hs => nomatch hs)) (fun _ _ h => h))
    em evs0 c n0 fuel (Or.inl hst) hem hev0 hsegs hf

end Fcgi.E2E
