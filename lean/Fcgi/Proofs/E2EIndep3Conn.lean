import Fcgi.Proofs.E2EIndep3
import Fcgi.Props.C12Inv

/-!
# A run depends only on the scripted answers it has consumed — all three scripts, `pollConn`, `runTask`

`extC X c`: the connection `c` with `X`'s answers appended to the three scripts of its transport
(`Bad X`).  For connections whose handlers propagate errors (`C12Inv.AllProp`): the run on `extC X c`
is the run on `c` with the appended answers still unconsumed, or it consumed a failing one: then it
ended `finished` / `"RET"`; `HitR`: its write log is a byte prefix of the log of the run on `c` and it
has seen no more handler starts; the error is `e` with `XErr X e`, and if it hit inside the handler
the trace ends with `HE(err:<kind of e>)`.
-/
namespace Fcgi.Indep3
open Fcgi Fcgi.Req Fcgi.Str Fcgi.Async Fcgi.Run Fcgi.C12Inv

def extC (X : Ext) (c : Conn) : Conn := { c with env := extE X c.env }

def mapStep (X : Ext) : Step → Step
  | .next c => .next (extC X c)
  | .halt c r => .halt (extC X c) r

theorem closePoll_dich {X : Ext} (hX : Bad X) {r : AReq} {st : CloseSt} {status : ExitStatus} {alive : Nat}
    {m : MutexSt} {t : Transport} {r' : AReq} {cs' : CloseSt} {m' : MutexSt} {t' : Transport} {res : CRes}
    (h : closePoll r st status alive m t = (r', cs', m', t', res)) :
    closePoll r st status alive m (ext X t) = (r', cs', m', ext X t', res) ∨
    (∃ r2 cs2 m2 t2 res2, closePoll r st status alive m (ext X t) = (r2, cs2, m2, t2, res2) ∧ cHit X res2 ∧
      HitR X t2 t') := by
  rw [closePoll_eq] at h ⊢
  -- the tails behind phases 1 and 2 on the reference run
  have htail2 : ∀ r1 m1 t1 st1 r2 m2 t2 st2, closeP1 r st m t = .ok (r1, m1, t1, st1) →
      closeP2 r1 m1 t1 st1 = .ok (r2, m2, t2, st2) → TLe t2 t' := by
    intro r1 m1 t1 st1 r2 m2 t2 st2 h1 h2
    rw [h1] at h
    simp only at h
    rw [h2] at h
    simp only at h
    split at h
    · subst h; have := closeP3_le.2 ‹closeP3 _ _ _ _ _ _ = _›; subst this; exact .refl _
    · have := closeP3_le.1 ‹closeP3 _ _ _ _ _ _ = _›; subst this
      exact closeP4_le h
  have htail : ∀ r1 m1 t1 st1, closeP1 r st m t = .ok (r1, m1, t1, st1) → TLe t1 t' := by
    intro r1 m1 t1 st1 h1
    cases h2 : closeP2 r1 m1 t1 st1 with
    | error x =>
      rw [h1] at h
      simp only at h
      rw [h2] at h
      simp only at h
      subst h
      exact closeP2_le.2 h2
    | ok y =>
      obtain ⟨r2, m2, t2, st2⟩ := y
      exact (closeP2_le.1 h2).trans (htail2 _ _ _ _ _ _ _ _ h1 h2)
  rcases closeP1_dich hX r st m t with hs | ⟨r2, cs2, m2, t2, e, h2, he, hpre⟩
  · rw [hs]
    cases h1 : closeP1 r st m t with
    | error x =>
      rw [h1] at h
      simp only [mapX] at h ⊢
      subst h; exact Or.inl rfl
    | ok y =>
      obtain ⟨r1, m1, t1, st1⟩ := y
      rw [h1] at h
      simp only [mapX, mapMid] at h ⊢
      rcases closeP2_dich hX r1 m1 t1 st1 with hs2 | ⟨r2', cs2', m2', t2', e2, h22, he2, hpre2⟩
      · rw [hs2]
        cases h2 : closeP2 r1 m1 t1 st1 with
        | error x =>
          rw [h2] at h
          simp only [mapX] at h ⊢
          subst h; exact Or.inl rfl
        | ok y =>
          obtain ⟨r2, m2, t2, st2⟩ := y
          rw [h2] at h
          simp only [mapX, mapMid] at h ⊢
          rw [closeP3_ext]
          cases h3 : closeP3 r2 m2 t2 st2 status alive with
          | error x =>
            rw [h3] at h
            simp only [mapX] at h ⊢
            subst h; exact Or.inl rfl
          | ok y =>
            obtain ⟨r3, m3, t3, st3⟩ := y
            rw [h3] at h
            simp only [mapX, mapMid] at h ⊢
            exact closeP4_dich hX h
      · right
        rw [h22]
        refine ⟨r2', cs2', m2', t2', .err e2, rfl, ⟨_, rfl, he2⟩, ?_⟩
        cases h2 : closeP2 r1 m1 t1 st1 with
        | error x =>
          rw [h2] at h hpre2
          simp only at h
          subst h; exact hpre2
        | ok y =>
          obtain ⟨r2, m2, t2, st2⟩ := y
          rw [h2] at hpre2
          exact pre_tle hpre2 (htail2 _ _ _ _ _ _ _ _ h1 h2)
  · right
    rw [h2]
    refine ⟨r2, cs2, m2, t2, .err e, rfl, ⟨_, rfl, he⟩, ?_⟩
    cases h1 : closeP1 r st m t with
    | error x =>
      rw [h1] at h hpre
      simp only at h
      subst h; exact hpre
    | ok y =>
      obtain ⟨r1, m1, t1, st1⟩ := y
      rw [h1] at hpre
      exact pre_tle hpre (htail _ _ _ _ h1)

/-- the event of the handler future ending with the propagated error `x` -/
def heEv (x : IoErr) : String := s!"HE(err:{showIo x})"

theorem isHS_heEv (x : IoErr) : isHS (heEv x) = false := by
  simp [isHS, heEv, toString_str]

/-! ## One phase transition -/

theorem stepConn_dich {X : Ext} (hX : Bad X) (c : Conn) (hp : AllProp c) :
    stepConn (extC X c) = mapStep X (stepConn c) ∨
    (∃ c2 e, stepConn (extC X c) = .halt c2 .finished ∧ c2.phase = .finished ∧ XErr X e ∧
      HitR X c2.env.tr (stepConn c).conn.env.tr ∧
      (∀ r h, c.phase = .handler r h → ∃ evs, c2.env.tr.events = evs ++ [heEv e])) := by
  obtain ⟨phase, env, scripts, stop⟩ := c
  obtain ⟨hsc, hph⟩ := hp
  simp only at hsc hph
  cases phase with
  | finished => exact Or.inl rfl
  | parseReq rp sub =>
    cases stop with
    | true => exact Or.inl rfl
    | false =>
      cases sub with
      | start =>
        left
        simp only [stepConn, extC, Bool.false_eq_true, if_false]
        rcases rp.parse [] with ⟨rp', _ | y⟩ <;> rfl
      | reading =>
        simp only [stepConn, extC, extE, Bool.false_eq_true, if_false]
        rcases read_dich hX env.tr rp.free with hs | ⟨t2, e, h2, he, hpre⟩
        · left
          rw [hs]
          rcases env.tr.read rp.free with ⟨t4, rr⟩
          cases rr with
          | pending => rfl
          | ready x =>
            cases x with
            | error e => rfl
            | ok bs =>
              cases bs with
              | nil => rfl
              | cons b bs =>
                simp only
                rcases rp.parse (b :: bs) with ⟨rp', _ | y⟩ <;> rfl
        · right
          rw [h2]
          refine ⟨_, e, rfl, rfl, he, ?_, fun r h hh => by cases hh⟩
          show HitR X t2 _
          have hle := read_le' env.tr rp.free
          rcases hr : env.tr.read rp.free with ⟨t4, rr⟩
          rw [hr] at hle
          have hp4 := pre_tle hpre hle
          cases rr with
          | pending => exact hp4
          | ready x =>
            cases x with
            | error e => exact hp4
            | ok bs =>
              cases bs with
              | nil => exact hp4
              | cons b bs =>
                simp only
                rcases rp.parse (b :: bs) with ⟨rp', _ | y⟩ <;> exact hp4
      | writing rest done =>
        simp only [stepConn, extC, extE, Bool.false_eq_true, if_false]
        rcases hw : writeAllLoop (rest.length + 1) rest env.tr with ⟨rest1, t1, o⟩
        rcases writeAllLoop_dich hX _ _ _ hw with hs | ⟨rest2, t2, res2, h2, hst, hpre⟩
        · left
          rw [hs]
          cases o with
          | pending => rfl
          | err e => rfl
          | panic s => rfl
          | ready =>
            simp only
            cases done with
            | false => rfl
            | true =>
              simp only [Bool.not_true, Bool.false_eq_true, if_false]
              cases rp.intoStreamParser with
              | error e => rfl
              | ok sp => cases scripts <;> rfl
        · right
          obtain ⟨e, rfl, he⟩ := oStop_cases hst
          rw [h2]
          refine ⟨_, e, rfl, rfl, he, ?_, fun r h hh => by cases hh⟩
          show HitR X t2 _
          cases o with
          | pending => exact hpre
          | err e => exact hpre
          | panic s => exact hpre
          | ready =>
            simp only
            cases done with
            | false => exact hpre
            | true =>
              simp only [Bool.not_true, Bool.false_eq_true, if_false]
              cases rp.intoStreamParser with
              | error e => exact hpre
              | ok sp => cases scripts <;> exact pre_ev _ hpre
  | handler r h =>
    simp only [stepConn, extC, extE, ext_input]
    rcases hh : handlerPoll (1000 + env.tr.input.length * 4 + (env.segs.map (·.2.length)).sum * 4 + r.sp.cap * 4 + scriptCost h)
      r h env with ⟨r1, h1, e1, hres⟩
    rcases handlerPoll_dich hX _ _ _ _ hph hh with hs | ⟨r2, h2, e2, res2, hh2, hst, hpre⟩
    · left
      have hs' : handlerPoll (1000 + env.tr.input.length * 4 + (env.segs.map (·.2.length)).sum * 4 + r.sp.cap * 4 + scriptCost h)
          r h { tr := ext X env.tr, mutex := env.mutex, segs := env.segs } = (r1, h1, extE X e1, hres) := hs
      rw [hs']
      cases hres with
      | pending => rfl
      | panic s => rfl
      | done x =>
        cases x with
        | ok st => rfl
        | error x =>
          simp only
          split <;> rfl
    · right
      obtain ⟨x, rfl, he⟩ := hst
      have hh2' : handlerPoll (1000 + env.tr.input.length * 4 + (env.segs.map (·.2.length)).sum * 4 + r.sp.cap * 4 + scriptCost h)
          r h { tr := ext X env.tr, mutex := env.mutex, segs := env.segs } = (r2, h2, e2, .done (.error x)) := hh2
      rw [hh2']
      simp only [he.ne, Bool.false_eq_true, if_false]
      refine ⟨_, x, rfl, rfl, he, ?_, fun r h hh => ⟨e2.tr.events, rfl⟩⟩
      show HitR X (e2.tr.ev (heEv x)) _
      refine HitR.evl (isHS_heEv x) ?_
      cases hres with
      | pending => exact hpre
      | panic s => exact hpre
      | done y =>
        cases y with
        | ok st => exact pre_ev _ hpre
        | error y =>
          simp only
          split <;> exact pre_ev _ hpre
  | closing r cs status alive =>
    simp only [stepConn, extC, extE]
    rcases hc : closePoll r cs status alive env.mutex env.tr with ⟨r1, cs1, m1, t1, cres⟩
    rcases closePoll_dich hX hc with hs | ⟨r2, cs2, m2, t2, res2, h2, hst, hpre⟩
    · left
      rw [hs]
      cases cres <;> rfl
    · right
      obtain ⟨e, rfl, he⟩ := hst
      rw [h2]
      refine ⟨_, e, rfl, rfl, he, ?_, fun r h hh => by cases hh⟩
      show HitR X t2 _
      cases cres <;> exact hpre

/-! ## One poll, and the executor -/

/-- the later state has a longer log and at least as many handler starts -/
def Grow (t t' : Transport) : Prop := (∃ w, t'.wlog = t.wlog ++ w) ∧ hsCount t.events ≤ hsCount t'.events

theorem Grow.refl (t : Transport) : Grow t t := ⟨⟨[], by simp⟩, Nat.le_refl _⟩
theorem Grow.trans {a b c : Transport} (h1 : Grow a b) (h2 : Grow b c) : Grow a c := by
  obtain ⟨⟨w1, l1⟩, e1⟩ := h1
  obtain ⟨⟨w2, l2⟩, e2⟩ := h2
  exact ⟨⟨w1 ++ w2, by rw [l2, l1, List.append_assoc]⟩, Nat.le_trans e1 e2⟩

theorem Grow.of_cle {c c' : Conn} (h : CLe c c') : Grow c.env.tr c'.env.tr := by
  obtain ⟨new, he, _, _⟩ := h.ev
  refine ⟨h.wl, ?_⟩
  rw [he, hsCount_append]; omega

theorem pre_grow {a t t' : Transport} (h : HitR X a t) (g : Grow t t') : HitR X a t' := by
  obtain ⟨⟨w, hw⟩, he⟩ := g
  exact ⟨by rw [hw]; exact h.log.trans (List.prefix_append _ _), Nat.le_trans h.hs he, h.used⟩

/-- The run consumed a failing answer and ended there: `finished`; behind the reference run (`HitR`);
the error is `e`; if the failing answer was consumed inside the handler (`inH`), the last trace event
is `HE(err:<kind of e>)`. -/
structure HitC (X : Ext) (c2 : Conn) (t1 : Transport) : Prop where
  ph : c2.phase = .finished
  rel : HitR X c2.env.tr t1
  err : ∃ (e : IoErr) (inH : Bool), XErr X e ∧ (inH = true → ∃ evs, c2.env.tr.events = evs ++ [heEv e])

theorem HitC.grow {X : Ext} {c2 : Conn} {t t' : Transport} (h : HitC X c2 t) (g : Grow t t') : HitC X c2 t' :=
  ⟨h.ph, pre_grow h.rel g, h.err⟩

theorem pollConn_dich {X : Ext} (hX : Bad X) : ∀ (fuel : Nat) (c : Conn), AllProp c →
    pollConn fuel (extC X c) = (extC X (pollConn fuel c).1, (pollConn fuel c).2) ∨
    (∃ c2, pollConn fuel (extC X c) = (c2, .finished) ∧ HitC X c2 (pollConn fuel c).1.env.tr)
  | 0, c, _ => Or.inl rfl
  | fuel + 1, c, hp => by
    rw [pollConn_succ, pollConn_succ]
    have hsw := stepConn_w c hp
    rcases stepConn_dich hX c hp with hs | ⟨c2, e, h2, hph, he, hpre, hev⟩
    · rw [hs]
      cases hst : stepConn c with
      | halt c1 r => exact Or.inl rfl
      | next c1 =>
        rw [hst] at hsw
        simp only [mapStep, Step.run]
        exact pollConn_dich hX fuel c1 hsw.2
    · right
      rw [h2]
      have herr : ∃ (e : IoErr) (inH : Bool), XErr X e ∧ (inH = true → ∃ evs, c2.env.tr.events = evs ++ [heEv e]) := by
        cases hcp : c.phase with
        | handler r h => exact ⟨e, true, he, fun _ => hev r h hcp⟩
        | finished => exact ⟨e, false, he, fun h => by cases h⟩
        | parseReq a b => exact ⟨e, false, he, fun h => by cases h⟩
        | closing a b d f => exact ⟨e, false, he, fun h => by cases h⟩
      refine ⟨c2, rfl, hph, ?_, herr⟩
      cases hst : stepConn c with
      | halt c1 r => rw [hst] at hpre; exact hpre
      | next c1 =>
        rw [hst] at hpre
        simp only [Step.run]
        exact pre_grow hpre (Grow.of_cle (pollConn_cle fuel c1))

theorem release_go_ext (X : Ext) : ∀ (fuel : Nat) (e : Env) (any : Bool),
    Env.release.go fuel (extE X e) any = (extE X (Env.release.go fuel e any).1, (Env.release.go fuel e any).2) := by
  intro fuel
  induction fuel with
  | zero => intro e any; unfold Env.release.go; rfl
  | succ n ih =>
    intro e any
    obtain ⟨tr, mutex, segs⟩ := e
    cases segs with
    | nil => unfold Env.release.go; rfl
    | cons p rest =>
      obtain ⟨g, bs⟩ := p
      simp only [Env.release.go, extE, ext_wlog]
      by_cases hg : g.open_ tr.wlog = true
      · simp only [hg, if_true]
        exact ih ⟨{ tr with input := tr.input ++ bs }, mutex, rest⟩ true
      · simp only [hg]
        rfl

theorem release_ext (X : Ext) (e : Env) :
    (extE X e).release = (extE X e.release.1, e.release.2) := by
  have h := release_go_ext X (e.segs.length + 1) e false
  unfold Env.release
  simp only [extE] at h ⊢
  simp only [h]
  rfl

theorem prePoll_ext (X : Ext) (c : Conn) (n : Nat) (sa : Option Nat) :
    prePoll (extC X c) n sa = extC X (prePoll c n sa) := by
  unfold prePoll
  split
  · simp only [extC, release_ext]; rfl
  · simp only [extC, release_ext]; rfl

/-- what the executor does with the result of a poll -/
def afterPoll (fuel n : Nat) (sa : Option Nat) : Conn × PRes → Conn × String
  | (c, .finished) => (c, "RET")
  | (c, .panic _) => (c, "PANIC")
  | (c, .pending) =>
    if c.env.tr.woken then runTask fuel c (n + 1) sa
    else
      let (env, _) := c.env.release
      if env.tr.woken then runTask fuel { c with env := env } (n + 1) sa
      else
        let c := { c with env := env }
        match sa with
        | some k => if k > n && !c.stop then runTask fuel c k sa else (c, "STALL")
        | none => (c, "STALL")

theorem runTask_succ' (fuel : Nat) (c : Conn) (n : Nat) (sa : Option Nat) :
    runTask (fuel + 1) c n sa = afterPoll fuel n sa (pollConn (connFuel (prePoll c n sa)) (prePoll c n sa)) := by
  rw [runTask_succ]; rfl

theorem release_wlog (e : Env) : e.release.1.tr.wlog = e.tr.wlog := by
  obtain ⟨_, _, d, _, _, hd, _⟩ := (release_clean e).answers
  have := (release_clean e)
  unfold Env.release
  have h := release_go_wside (e.segs.length + 1) e false
  generalize Env.release.go (e.segs.length + 1) e false = x at h
  obtain ⟨e', any⟩ := x
  exact h.2.2


theorem prePoll_grow (c : Conn) (n : Nat) (sa : Option Nat) : Grow c.env.tr (prePoll c n sa).env.tr := by
  obtain ⟨_, ⟨new, he, _⟩⟩ := prePoll_spec c n sa
  obtain ⟨_, _, d, _, _, hd, _⟩ := (prePoll_clean c n sa).answers
  refine ⟨⟨d, hd⟩, ?_⟩
  rw [he, hsCount_append]; omega

theorem release_grow (e : Env) : Grow e.tr e.release.1.tr := by
  obtain ⟨h1, h2⟩ := release_events e
  exact ⟨⟨[], by rw [h2, List.append_nil]⟩, by rw [h1]; exact Nat.le_refl _⟩

/-- the write log and the number of handler starts only grow along a run -/
theorem runTask_grow : ∀ (fuel : Nat) (c : Conn) (n : Nat) (sa : Option Nat),
    Grow c.env.tr (runTask fuel c n sa).1.env.tr
  | 0, c, _, _ => Grow.refl _
  | fuel + 1, c, n, sa => by
    rw [runTask_succ']
    have h1 := (prePoll_grow c n sa).trans (Grow.of_cle (pollConn_cle (connFuel (prePoll c n sa)) (prePoll c n sa)))
    rcases hpc : pollConn (connFuel (prePoll c n sa)) (prePoll c n sa) with ⟨c1, r⟩
    rw [hpc] at h1
    refine h1.trans ?_
    cases r with
    | finished => exact Grow.refl _
    | panic s => exact Grow.refl _
    | pending =>
      simp only [afterPoll]
      split
      · exact runTask_grow fuel c1 (n + 1) sa
      · have hrel := release_grow c1.env
        rcases hre : c1.env.release with ⟨env, any⟩
        rw [hre] at hrel
        simp only at hrel ⊢
        split
        · exact hrel.trans (runTask_grow fuel { c1 with env := env } (n + 1) sa)
        · cases sa with
          | none => exact hrel
          | some k =>
            simp only
            split
            · exact hrel.trans (runTask_grow fuel { c1 with env := env } k (some k))
            · exact hrel

theorem afterPoll_grow (fuel n : Nat) (sa : Option Nat) (c : Conn) (r : PRes) :
    Grow c.env.tr (afterPoll fuel n sa (c, r)).1.env.tr := by
  cases r with
  | finished => exact Grow.refl _
  | panic s => exact Grow.refl _
  | pending =>
    simp only [afterPoll]
    split
    · exact runTask_grow fuel c (n + 1) sa
    · have hrel := release_grow c.env
      rcases hre : c.env.release with ⟨env, any⟩
      rw [hre] at hrel
      simp only at hrel ⊢
      split
      · exact hrel.trans (runTask_grow fuel { c with env := env } (n + 1) sa)
      · cases sa with
        | none => exact hrel
        | some k =>
          simp only
          split
          · exact hrel.trans (runTask_grow fuel { c with env := env } k (some k))
          · exact hrel

theorem runTask_dich {X : Ext} (hX : Bad X) : ∀ (fuel : Nat) (c : Conn) (n : Nat) (sa : Option Nat),
    AllProp c →
    runTask fuel (extC X c) n sa = (extC X (runTask fuel c n sa).1, (runTask fuel c n sa).2) ∨
    (∃ c2, runTask fuel (extC X c) n sa = (c2, "RET") ∧ HitC X c2 (runTask fuel c n sa).1.env.tr)
  | 0, c, n, sa, _ => Or.inl rfl
  | fuel + 1, c, n, sa, hp => by
    rw [runTask_succ', runTask_succ', prePoll_ext,
      show connFuel (extC X (prePoll c n sa)) = connFuel (prePoll c n sa) from rfl]
    have hp0 : AllProp (prePoll c n sa) :=
      allProp_of_frame (prePoll_frame c n sa).1 (prePoll_frame c n sa).2 hp
    have hp1 := pollConn_allProp (connFuel (prePoll c n sa)) _ hp0
    rcases pollConn_dich hX (connFuel (prePoll c n sa)) _ hp0 with hs | ⟨c2, h2, hhit⟩
    · rw [hs]
      rcases hpc : pollConn (connFuel (prePoll c n sa)) (prePoll c n sa) with ⟨c1, r⟩
      rw [hpc] at hp1
      simp only at hp1 ⊢
      cases r with
      | finished => exact Or.inl rfl
      | panic s => exact Or.inl rfl
      | pending =>
        simp only [afterPoll]
        have hwk : (extC X c1).env.tr.woken = c1.env.tr.woken := rfl
        rw [hwk]
        split
        · exact runTask_dich hX fuel c1 (n + 1) sa hp1
        · have hrel : (extC X c1).env.release = (extE X c1.env.release.1, c1.env.release.2) := release_ext X c1.env
          rw [hrel]
          rcases c1.env.release with ⟨env, any⟩
          simp only
          have hp' : AllProp { c1 with env := env } := allProp_of_frame rfl rfl hp1
          have hwk2 : (extE X env).tr.woken = env.tr.woken := rfl
          rw [hwk2]
          split
          · exact runTask_dich hX fuel { c1 with env := env } (n + 1) sa hp'
          · cases sa with
            | none => exact Or.inl rfl
            | some k =>
              simp only
              split
              · rename_i hc
                have hc' : (decide (k > n) && !c1.stop) = true := hc
                rw [if_pos hc']
                exact runTask_dich hX fuel { c1 with env := env } k (some k) hp'
              · rename_i hc
                have hc' : ¬ (decide (k > n) && !c1.stop) = true := hc
                rw [if_neg hc']
                exact Or.inl rfl
    · right
      rw [h2]
      refine ⟨c2, rfl, ?_⟩
      rcases hpc : pollConn (connFuel (prePoll c n sa)) (prePoll c n sa) with ⟨c1, r⟩
      rw [hpc] at hhit
      exact hhit.grow (afterPoll_grow fuel n sa c1 r)

end Fcgi.Indep3
