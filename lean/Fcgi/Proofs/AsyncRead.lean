import Fcgi.Model.Async
import Fcgi.Props.C03Str
import Fcgi.Props.C18
import Fcgi.Props.C05
/-!
# Helper lemmas about the poll-level `Request` model: `poll_output` / `poll_input` (for C09)

* the scripted transport: what one `read` / `write` does (`tread_spec`, `twrite_spec`);
* `outLoop_flush`, `pollOutput_spec`: the reply buffer is written front to back, the lock protocol;
* `Tr`: the effect of a poll on the stream parser *is* a legal operation history (`Str.Op`) whose fed
  bytes are exactly the bytes taken from the transport and whose `consume_output`s are exactly the
  bytes written to it;
* `inLoop_spec`, `pollInput_spec`: the main induction (fuel suffices, no panic site is reachable).
-/
namespace Fcgi.Async
open Fcgi Fcgi.Str
open Fcgi.C05 (fedBytes)
open Fcgi.C03S (sentAll outSent)

/-! ## Invariants -/

/-- The stream parser's invariant plus the minimum buffer size. -/
def AInv (r : AReq) : Prop := SInv r.sp ∧ 24 ≤ r.sp.cap

/-- The `Request`'s lock field agrees with the mutex, and `poll_output`'s debug assertion holds:
the lock future is only kept while output is queued. -/
def LockInv (r : AReq) (m : MutexSt) : Prop :=
  (r.lock = .held ↔ m = some 0) ∧ (r.sp.output = [] → r.lock = .none)

/-! ## The transport -/

/-- The read side of the transport is untouched. -/
def RFrame (t t' : Transport) : Prop :=
  t'.input = t.input ∧ t'.rd = t.rd ∧ t'.endMode = t.endMode ∧ t'.hold = t.hold

theorem RFrame.refl (t : Transport) : RFrame t t := ⟨rfl, rfl, rfl, rfl⟩
theorem RFrame.trans {a b c : Transport} (h1 : RFrame a b) (h2 : RFrame b c) : RFrame a c :=
  ⟨h2.1.trans h1.1, h2.2.1.trans h1.2.1, h2.2.2.1.trans h1.2.2.1, h2.2.2.2.trans h1.2.2.2⟩

/-- One `poll_read` with a buffer of `cap` bytes: at most `cap` bytes, taken from the front of the
input; an empty read happens only for an empty buffer or at end of input; the write log is not
touched. -/
theorem tread_spec {t t' : Transport} {cap : Nat} {res : Poll (Except IoErr Bytes)}
    (h : t.read cap = (t', res)) :
    t'.wlog = t.wlog ∧
    (∀ bs, res = .ready (.ok bs) → bs.length ≤ cap ∧ t.input = bs ++ t'.input ∧
      (bs = [] → cap = 0 ∨ (t.input = [] ∧ t.hold = false ∧ t.endMode = .eof))) ∧
    ((res = .pending ∨ ∃ e, res = .ready (.error e)) → t'.input = t.input) := by
  unfold Transport.read at h
  split at h
  · rename_i hc
    cases h
    refine ⟨rfl, fun bs hb => ?_, fun hb => rfl⟩
    cases hb
    exact ⟨Nat.zero_le _, rfl, fun _ => Or.inl (by simpa using hc)⟩
  · rename_i hc
    have hcap : 0 < cap := by
      have : cap ≠ 0 := by simpa using hc
      omega
    split at h
    rename_i a rest hq
    simp only at h
    split at h
    · cases h
      exact ⟨rfl, fun _ hb => (nomatch hb), fun _ => rfl⟩
    · cases h
      exact ⟨rfl, fun _ hb => (nomatch hb), fun _ => rfl⟩
    · split at h
      · rename_i hie
        have hin : t.input = [] := by simpa using hie
        split at h
        · cases h
          exact ⟨rfl, fun _ hb => (nomatch hb), fun _ => rfl⟩
        · rename_i hh
          split at h
          · rename_i hem
            cases h
            refine ⟨rfl, fun bs hb => ?_, fun hb => rfl⟩
            cases hb
            exact ⟨Nat.zero_le _, by simp [Transport.ev, hin], fun _ => Or.inr ⟨hin, by simpa using hh, hem⟩⟩
          · cases h
            exact ⟨rfl, fun _ hb => (nomatch hb), fun _ => rfl⟩
          · cases h
            exact ⟨rfl, fun _ hb => (nomatch hb), fun _ => rfl⟩
      · rename_i hie
        have hin : t.input ≠ [] := by simpa using hie
        have hlen : 0 < t.input.length := List.length_pos_iff.mpr hin
        cases h
        refine ⟨rfl, fun bs hb => ?_, fun hb => ?_⟩
        · cases hb
          refine ⟨?_, by simp [Transport.ev], fun he => ?_⟩
          · simp only [List.length_take]
            split <;> omega
          · exfalso
            have := congrArg List.length he
            simp only [List.length_take, List.length_nil] at this
            split at this <;> omega
        · rcases hb with hb | ⟨e, hb⟩ <;> cases hb

/-- One `poll_write`: the accepted count never exceeds what was offered, exactly that prefix is
appended to the byte log; the read side is untouched. -/
theorem twrite_spec {t t' : Transport} {buf : Bytes} {res : Poll (Except IoErr Nat)}
    (h : t.write buf = (t', res)) :
    RFrame t t' ∧
    (∀ n, res = .ready (.ok n) → n ≤ buf.length ∧ t'.wlog = t.wlog ++ buf.take n) ∧
    ((res = .pending ∨ ∃ e, res = .ready (.error e)) → t'.wlog = t.wlog) := by
  unfold Transport.write Transport.writeV at h
  simp only [List.flatten_cons, List.flatten_nil, List.append_nil] at h
  split at h
  · cases h
    refine ⟨RFrame.refl _, fun n hn => ?_, fun _ => rfl⟩
    cases hn
    simp [Transport.ev]
  · split at h
    · cases h
      exact ⟨⟨rfl, rfl, rfl, rfl⟩, fun _ hn => (nomatch hn), fun _ => rfl⟩
    · cases h
      refine ⟨⟨rfl, rfl, rfl, rfl⟩, fun n hn => ?_, fun hb => ?_⟩
      · cases hn; simp [Transport.ev]
      · rcases hb with hb | ⟨e, hb⟩ <;> cases hb
    · cases h
      exact ⟨⟨rfl, rfl, rfl, rfl⟩, fun _ hn => (nomatch hn), fun _ => rfl⟩
    · cases h
      refine ⟨⟨rfl, rfl, rfl, rfl⟩, fun n hn => ?_, fun hb => ?_⟩
      · cases hn; simp [Transport.ev]
      · rcases hb with hb | ⟨e, hb⟩ <;> cases hb
    · cases h
      refine ⟨⟨rfl, rfl, rfl, rfl⟩, fun n hn => ?_, fun hb => ?_⟩
      · cases hn
        refine ⟨by omega, by simp [Transport.ev]⟩
      · rcases hb with hb | ⟨e, hb⟩ <;> cases hb

/-! ## `poll_output` -/

theorem consumeOutput_zero (p : Parser) : p.consumeOutput 0 = p := by
  cases p; simp [Parser.consumeOutput]

theorem consumeOutput_add (p : Parser) (a b : Nat) :
    (p.consumeOutput a).consumeOutput b = p.consumeOutput (a + b) := by
  simp [Parser.consumeOutput, List.drop_drop]

/-- The write loop of `poll_output` with enough fuel: some prefix `output.take k` of the reply
buffer was written (`consume_output(k)` in total), in order; `Ready` iff the buffer is now empty;
the model's fuel guard is never reached. -/
theorem outLoop_flush : ∀ (fuel : Nat) (sp : Parser) (t : Transport), sp.output.length < fuel →
    ∀ sp' t' res, outLoop fuel sp t = (sp', t', res) →
    ∃ k, sp' = sp.consumeOutput k ∧ t'.wlog = t.wlog ++ sp.output.take k ∧ RFrame t t' ∧
      (res = .ready → sp'.output = []) ∧ (res ≠ .ready → sp'.output ≠ []) ∧
      (∀ s, res ≠ .panic s) := by
  intro fuel
  induction fuel with
  | zero => intro sp t hf; omega
  | succ fuel ih =>
    intro sp t hf sp' t' res h
    rw [outLoop] at h
    split at h
    · rename_i he
      cases h
      have he' : sp.output = [] := by simpa using he
      exact ⟨0, (consumeOutput_zero _).symm, by simp, RFrame.refl _, fun _ => he',
        fun hr => absurd rfl hr, fun s hs => nomatch hs⟩
    · rename_i he
      have hne : sp.output ≠ [] := by simpa using he
      have stay : ∀ t1 (x : Poll (Except IoErr Nat)) (o : ORes), t.write sp.output = (t1, x) →
          (x = .pending ∨ (∃ e, x = .ready (.error e)) ∨ x = .ready (.ok 0)) →
          o ≠ .ready → (∀ s, o ≠ .panic s) →
          ∃ k, sp = sp.consumeOutput k ∧ t1.wlog = t.wlog ++ sp.output.take k ∧ RFrame t t1 ∧
            (o = .ready → sp.output = []) ∧ (o ≠ .ready → sp.output ≠ []) ∧
            (∀ s, o ≠ .panic s) := by
        intro t1 x o hw hx ho hp
        obtain ⟨hfr, hok, hoth⟩ := twrite_spec hw
        refine ⟨0, (consumeOutput_zero _).symm, ?_, hfr, fun hr => absurd hr ho, fun _ => hne, hp⟩
        rcases hx with hx | hx | hx
        · simp [hoth (Or.inl hx)]
        · simp [hoth (Or.inr hx)]
        · simpa using (hok 0 hx).2
      split at h
      · rename_i _ t1 hw
        cases h
        exact stay _ _ .pending hw (Or.inl rfl) (fun hr => nomatch hr) (fun s hs => nomatch hs)
      · rename_i _ t1 e hw
        cases h
        exact stay _ _ (.err e) hw (Or.inr (Or.inl ⟨e, rfl⟩)) (fun hr => nomatch hr)
          (fun s hs => nomatch hs)
      · rename_i _ t1 hw
        cases h
        exact stay _ _ (.err .writeZero) hw (Or.inr (Or.inr rfl)) (fun hr => nomatch hr)
          (fun s hs => nomatch hs)
      · rename_i _ t1 n hn0 hw
        obtain ⟨hfr, hok, -⟩ := twrite_spec hw
        obtain ⟨hnle, hlog⟩ := hok n rfl
        have hnpos : 0 < n := by
          cases n with
          | zero => exact absurd rfl hn0
          | succ n => omega
        have hlen : (sp.consumeOutput n).output.length < fuel := by
          simp only [Parser.consumeOutput, List.length_drop]; omega
        obtain ⟨k, h1, h2, h3, h4, h5, h6⟩ := ih (sp.consumeOutput n) t1 hlen sp' t' res h
        refine ⟨n + k, by rw [h1, consumeOutput_add], ?_, hfr.trans h3, h4, h5, h6⟩
        rw [h2, hlog, List.append_assoc]
        congr 1
        simp only [Parser.consumeOutput]
        rw [List.take_add]

theorem lockPoll_req {r : AReq} {m : MutexSt} (hl : LockInv r m) :
    lockPoll (if r.lock == .none then LockSt.polling else r.lock) m 0 = (.held, some 0, true) ∨
    (lockPoll (if r.lock == .none then LockSt.polling else r.lock) m 0 = (.polling, m, false) ∧
      ∃ i, m = some (i + 1)) := by
  obtain ⟨h1, -⟩ := hl
  cases hlk : r.lock with
  | held =>
    have := h1.mp hlk
    subst this
    left; rfl
  | none =>
    have hm : m ≠ some 0 := fun hm => by have := h1.mpr hm; rw [hlk] at this; cases this
    cases m with
    | none => left; rfl
    | some x =>
      cases x with
      | zero => exact absurd rfl hm
      | succ i => right; exact ⟨rfl, i, rfl⟩
  | polling =>
    have hm : m ≠ some 0 := fun hm => by have := h1.mpr hm; rw [hlk] at this; cases this
    cases m with
    | none => left; rfl
    | some x =>
      cases x with
      | zero => exact absurd rfl hm
      | succ i => right; exact ⟨rfl, i, rfl⟩

/-- `Request::poll_output`. -/
theorem pollOutput_spec {r : AReq} {m : MutexSt} {t : Transport} {r' : AReq} {m' : MutexSt}
    {t' : Transport} {res : ORes} (hl : LockInv r m) (h : r.pollOutput m t = (r', m', t', res)) :
    ∃ k, r'.sp = r.sp.consumeOutput k ∧ r'.writeable = r.writeable ∧
      t'.wlog = t.wlog ++ r.sp.output.take k ∧ RFrame t t' ∧ LockInv r' m' ∧
      (∀ s, res ≠ .panic s) ∧
      (res = .ready → r'.sp.output = [] ∧ r'.lock = .none ∧
        (r.sp.output = [] → r' = r ∧ m' = m ∧ t' = t) ∧ (r.sp.output ≠ [] → m' = none)) ∧
      (res ≠ .ready → r'.sp.output ≠ [] ∧
        ((m' = some 0 ∧ r'.lock = .held) ∨
         (t' = t ∧ r' = { r with lock := .polling } ∧ m' = m ∧ res = .pending ∧ ∃ i, m = some (i + 1)))) := by
  unfold AReq.pollOutput at h
  split at h
  · rename_i he
    have he' : r.sp.output = [] := by simpa using he
    have hlk := hl.2 he'
    simp only [hlk, bne_self_eq_false, Bool.false_eq_true, if_false] at h
    cases h
    exact ⟨0, (consumeOutput_zero _).symm, rfl, by simp, RFrame.refl _, hl, fun s hs => (nomatch hs),
      fun _ => ⟨he', hlk, fun _ => ⟨rfl, rfl, rfl⟩, fun hne => absurd he' hne⟩,
      fun hr => absurd rfl hr⟩
  · rename_i hne
    have hne' : r.sp.output ≠ [] := by simpa using hne
    rcases lockPoll_req hl with hq | ⟨hq, i, hi⟩
    · simp only [hq, Bool.not_true, Bool.false_eq_true, if_false] at h
      rcases ho : outLoop (r.sp.output.length + 1) r.sp t with ⟨sp1, t1, o⟩
      obtain ⟨k, h1, h2, h3, h4, h5, h6⟩ := outLoop_flush _ r.sp t (Nat.lt_succ_self _) sp1 t1 o ho
      rw [ho] at h
      cases o with
      | ready =>
        simp only at h
        cases h
        have ho' := h4 rfl
        exact ⟨k, h1, rfl, h2, h3, ⟨⟨fun hx => (nomatch hx), fun hx => (nomatch hx)⟩, fun _ => rfl⟩,
          fun s hs => (nomatch hs),
          fun _ => ⟨ho', rfl, fun he => absurd he hne', fun _ => rfl⟩, fun hr => absurd rfl hr⟩
      | pending =>
        simp only at h
        cases h
        have ho' := h5 (fun hx => (nomatch hx))
        exact ⟨k, h1, rfl, h2, h3, ⟨⟨fun _ => rfl, fun _ => rfl⟩, fun he => absurd he ho'⟩,
          fun s hs => (nomatch hs), fun hr => (nomatch hr), fun _ => ⟨ho', Or.inl ⟨rfl, rfl⟩⟩⟩
      | err e =>
        simp only at h
        cases h
        have ho' := h5 (fun hx => (nomatch hx))
        exact ⟨k, h1, rfl, h2, h3, ⟨⟨fun _ => rfl, fun _ => rfl⟩, fun he => absurd he ho'⟩,
          fun s hs => (nomatch hs), fun hr => (nomatch hr), fun _ => ⟨ho', Or.inl ⟨rfl, rfl⟩⟩⟩
      | panic s => exact absurd rfl (h6 s)
    · simp only [hq, Bool.not_false, if_true] at h
      cases h
      refine ⟨0, (consumeOutput_zero _).symm, rfl, by simp, RFrame.refl _,
        ⟨⟨fun hx => (nomatch hx), fun hx => ?_⟩, fun he => absurd he hne'⟩, fun s hs => (nomatch hs),
        fun hr => (nomatch hr), fun _ => ⟨hne', Or.inr ⟨rfl, rfl, rfl, rfl, i, hi⟩⟩⟩
      rw [hi] at hx; cases hx

/-! ## Polls as operation histories -/

/-- The parser-level effect of a stretch of a poll is the operation history `ops`: every call is
legal where it is made, the bytes fed are exactly the bytes that left the transport's input
(`inp = fed ++ inp'`), the bytes removed from the reply buffer are exactly the bytes appended to
the transport's write log. -/
structure Tr (p : Parser) (inp wl : Bytes) (ops : List Op) (p' : Parser) (inp' wl' : Bytes) :
    Prop where
  legal : LegalAll p ops
  sp : p' = applyOps p ops
  fed : inp = fedBytes ops ++ inp'
  sent : wl' = wl ++ sentAll p ops
  noset : ∀ s, Op.setStream s ∉ ops

theorem Tr.nil (p : Parser) (inp wl : Bytes) : Tr p inp wl [] p inp wl :=
  ⟨trivial, rfl, rfl, by simp [sentAll], fun _ h => (nomatch h)⟩

theorem noset_cons {op : Op} {ops : List Op} (h1 : ∀ s, op ≠ .setStream s)
    (h : ∀ s, Op.setStream s ∉ ops) : ∀ s, Op.setStream s ∉ op :: ops := by
  intro s hm
  rcases List.mem_cons.mp hm with hx | hx
  · exact h1 s hx.symm
  · exact h s hx

theorem Tr.parse {p p' : Parser} {inp wl inp' wl' new : Bytes} {dest : Option Nat} {ops : List Op}
    (hl : Legal p (.parse new dest)) (h : Tr (p.parse new dest).1 inp wl ops p' inp' wl') :
    Tr p (new ++ inp) wl (.parse new dest :: ops) p' inp' wl' :=
  ⟨⟨hl, h.legal⟩, h.sp, by rw [h.fed]; simp [fedBytes],
    by rw [h.sent]; simp [sentAll, outSent, applyOp], noset_cons (fun _ hx => (nomatch hx)) h.noset⟩

theorem Tr.compress {p p' : Parser} {inp wl inp' wl' : Bytes} {ops : List Op}
    (h : Tr p.compress inp wl ops p' inp' wl') : Tr p inp wl (.compress :: ops) p' inp' wl' :=
  ⟨⟨trivial, h.legal⟩, h.sp, by rw [h.fed]; simp [fedBytes],
    by rw [h.sent]; simp [sentAll, outSent, applyOp], noset_cons (fun _ hx => (nomatch hx)) h.noset⟩

theorem Tr.consumeOutput {p p' : Parser} {inp wl inp' wl' : Bytes} {ops : List Op} (k : Nat)
    (h : Tr (p.consumeOutput k) inp (wl ++ p.output.take k) ops p' inp' wl') :
    Tr p inp wl (.consumeOutput k :: ops) p' inp' wl' :=
  ⟨⟨trivial, h.legal⟩, h.sp, by rw [h.fed]; simp [fedBytes],
    by rw [h.sent]; simp [sentAll, outSent, applyOp], noset_cons (fun _ hx => (nomatch hx)) h.noset⟩

theorem Tr.consumeStream {p p' : Parser} {inp wl inp' wl' : Bytes} {ops : List Op} (k : Nat)
    (h : Tr (p.consumeStream k) inp wl ops p' inp' wl') :
    Tr p inp wl (.consumeStream k :: ops) p' inp' wl' :=
  ⟨⟨trivial, h.legal⟩, h.sp, by rw [h.fed]; simp [fedBytes],
    by rw [h.sent]; simp [sentAll, outSent, applyOp], noset_cons (fun _ hx => (nomatch hx)) h.noset⟩

/-- From an invariant state the history keeps the invariant, the capacity and the request. -/
theorem Tr.inv {p p' : Parser} {inp wl inp' wl' : Bytes} {ops : List Op}
    (h : Tr p inp wl ops p' inp' wl') (hinv : SInv p) :
    SInv p' ∧ p'.cap = p.cap ∧ p'.request = p.request ∧ ¬ PanicsAny p ops := by
  obtain ⟨a, b⟩ := trace_safe hinv h.legal
  obtain ⟨c, d, -⟩ := C05.applyOps_frame ops p
  rw [h.sp]
  exact ⟨a, c, d, b⟩

/-- Every `parse` call of the history that feeds fresh bytes (bytes just read from the transport)
is made with an empty reply buffer: everything owed to the peer was written before the read. -/
def FlushedReads : Parser → List Op → Prop
  | _, [] => True
  | p, op :: t =>
    (∀ new dest, op = .parse new dest → new ≠ [] → p.output = []) ∧ FlushedReads (applyOp p op) t

/-! ### The ledger of delivered stream bytes -/

/-- Stream bytes the parser hands out during one operation: what a successful `parse` wrote into
`dest`, resp. what a `parse` appended to the internal stream buffer. -/
def dlv (p : Parser) : Op → Bytes
  | .parse new dest =>
    match dest with
    | some _ => (match (p.parse new dest).2 with | .ok st => st.delivered | _ => [])
    | none => (p.parse new dest).1.parsed.drop p.parsed.length
  | _ => []

def dlvAll : Parser → List Op → Bytes
  | _, [] => []
  | p, op :: t => dlv p op ++ dlvAll (applyOp p op) t

/-- The bytes a poll hands to its caller (`read`: the bytes written into `buf`). -/
def retOf : IRes → Bytes
  | .ready _ d => d
  | _ => []

/-- Ledger: buffered before ++ delivered by the parser = returned to the caller ++ buffered after. -/
def Led (p : Parser) (ops : List Op) (ret : Bytes) (p' : Parser) : Prop :=
  p.parsed ++ dlvAll p ops = ret ++ p'.parsed

theorem Led.nil (p : Parser) : Led p [] [] p := by simp [Led, dlvAll]

theorem Led.cons {p p' : Parser} {op : Op} {ops : List Op} {ret : Bytes}
    (h1 : p.parsed ++ dlv p op = (applyOp p op).parsed) (h : Led (applyOp p op) ops ret p') :
    Led p (op :: ops) ret p' := by
  unfold Led at h ⊢
  rw [dlvAll, ← List.append_assoc, h1]; exact h

/-- what a `parse` result delivers into `dest` -/
def okDel : ParseRes → Bytes
  | .ok st => st.delivered
  | _ => []

/-- The ledger of one legal `parse` call. -/
theorem led_parse {p sp : Parser} {new : Bytes} {dest : Option Nat} {pr : ParseRes}
    (hcap : p.freeStart ≤ p.cap) (hd : dest = none ∨ p.parsed = []) (hfree : new.length ≤ p.free)
    (hp : p.parse new dest = (sp, pr)) (hnp : ∀ s, pr ≠ .panic s) :
    p.parsed ++ dlv p (.parse new dest) = okDel pr ++ sp.parsed := by
  cases pr with
  | panic s => exact absurd rfl (hnp s)
  | ok st =>
    obtain ⟨-, hcn, hcs, -⟩ := C03S.counts_exact hcap hd hfree hp
    cases dest with
    | none =>
      obtain ⟨d, h1, -, h3⟩ := hcn rfl
      simp only [dlv, hp, okDel, h3, List.nil_append]
      rw [h1, List.drop_left]
    | some n =>
      obtain ⟨h1, h2, -, -⟩ := hcs n rfl
      simp only [dlv, hp, okDel, h1, h2, List.nil_append, List.append_nil]
  | err e =>
    obtain ⟨-, ⟨d, h1⟩, h2, -⟩ := C03S.counts_err hcap hd hfree hp
    cases dest with
    | none =>
      simp only [dlv, hp, okDel, List.nil_append]
      rw [h1, List.drop_left]
    | some n =>
      have hp0 : p.parsed = [] := by
        rcases hd with hd | hd
        · cases hd
        · exact hd
      simp only [dlv, hp, okDel, hp0, h2 (fun hx => (nomatch hx)), List.nil_append]

theorem isFinal_congr {r r' : AReq} (h1 : r'.sp.request = r.sp.request)
    (h2 : r'.sp.stream = r.sp.stream) : r'.isFinalStream = r.isFinalStream := by
  simp [AReq.isFinalStream, h1, h2]

/-- What every poll of `poll_input` guarantees about its result. -/
structure PollOut (r : AReq) (dest : Option Nat) (r' : AReq) (m' : MutexSt) (res : IRes) :
    Prop where
  linv : LockInv r' m'
  nopanic : ∀ s, res ≠ .panic s
  final : r'.isFinalStream = r.isFinalStream
  wmono : r.writeable = true → r'.writeable = true
  wset : r'.writeable = true →
    r.writeable = true ∨ (r'.isFinalStream = true ∧ ∃ k d, res = .ready k d)
  rsome : ∀ n k d, dest = some n → res = .ready k d → d.length = k ∧ k ≤ n
  rnone : dest = none → ∀ k d, res = .ready k d → d = []
  strm : r'.sp.stream = r.sp.stream
  req : r'.sp.request = r.sp.request

/-- What a poll that went through the parse loop guarantees in addition. -/
structure LoopOut (r : AReq) (dest : Option Nat) (r' : AReq) (res : IRes) : Prop where
  wready : ∀ k d, res = .ready k d → r.isFinalStream = true → r'.writeable = true
  last : ∀ k d, res = .ready k d → ∃ q new st, SInv q ∧ (dest = none ∨ q.parsed = []) ∧
    new.length ≤ q.free ∧ q.parse new dest = (r'.sp, .ok st) ∧ k = st.stream ∧
    d = st.delivered ∧ (st.streamEnd = true ∨ 0 < st.stream)
  psome : dest ≠ none → r'.sp.parsed = []
  ppend : res = .pending → r'.sp.parsed = r.sp.parsed

theorem PollOut.of_same {r r' : AReq} {dest : Option Nat} {m' : MutexSt} {res : IRes}
    (hw : r'.writeable = r.writeable) (hf : r'.isFinalStream = r.isFinalStream)
    (hl : LockInv r' m') (hres : ∀ k d, res ≠ .ready k d) (hnp : ∀ s, res ≠ .panic s)
    (hs : r'.sp.stream = r.sp.stream) (hr : r'.sp.request = r.sp.request) :
    PollOut r dest r' m' res :=
  ⟨hl, hnp, hf, fun h => hw ▸ h, fun h => Or.inl (hw ▸ h), fun _ k d _ h => absurd h (hres k d),
    fun _ k d h => absurd h (hres k d), hs, hr⟩

theorem PollOut.pre {r r1 r' : AReq} {dest : Option Nat} {m' : MutexSt} {res : IRes}
    (hw : r1.writeable = r.writeable) (hf : r1.isFinalStream = r.isFinalStream)
    (hs : r1.sp.stream = r.sp.stream) (hr : r1.sp.request = r.sp.request)
    (h : PollOut r1 dest r' m' res) : PollOut r dest r' m' res :=
  ⟨h.linv, h.nopanic, h.final.trans hf, fun x => h.wmono (hw ▸ x),
    fun x => (h.wset x).imp (fun y => hw ▸ y) id, h.rsome, h.rnone, h.strm.trans hs,
    h.req.trans hr⟩

theorem LoopOut.pre {r r1 r' : AReq} {dest : Option Nat} {res : IRes}
    (hf : r1.isFinalStream = r.isFinalStream) (hp : r1.sp.parsed = r.sp.parsed)
    (h : LoopOut r1 dest r' res) : LoopOut r dest r' res :=
  ⟨fun k d x y => h.wready k d x (hf ▸ y), h.last, h.psome, fun x => (h.ppend x).trans hp⟩

theorem LoopOut.of_notready {r r' : AReq} {dest : Option Nat} {res : IRes}
    (hres : ∀ k d, res ≠ .ready k d) (hp : dest ≠ none → r'.sp.parsed = [])
    (hpp : res = .pending → r'.sp.parsed = r.sp.parsed) : LoopOut r dest r' res :=
  ⟨fun k d h => absurd h (hres k d), fun k d h => absurd h (hres k d), hp, hpp⟩

theorem lockInv_sp {r : AReq} {m : MutexSt} (hl : LockInv r m) {sp : Parser}
    (ho : sp.output = [] → r.sp.output = []) : LockInv { r with sp := sp } m :=
  ⟨hl.1, fun h => hl.2 (ho h)⟩

/-! ## `poll_input` -/

/-- **The parse / compress / flush / read loop of `poll_input`.**  From an invariant state, entered
with `new` freshly read bytes that fit the input buffer, with at least `t.input.length + 1` fuel:
the loop's effect on the parser is a legal operation history starting with `parse(new, dest)`;
no panic site (Rust assertion or model fuel guard) is reached. -/
theorem inLoop_spec : ∀ (fuel : Nat) (r : AReq) (new : Bytes) (dest : Option Nat) (m : MutexSt)
    (t : Transport), AInv r → LockInv r m → (dest = none ∨ r.sp.parsed = []) →
    new.length ≤ r.sp.free → t.input.length < fuel →
    ∀ r' m' t' res, inLoop fuel r new dest m t = (r', m', t', res) →
    (∃ ops, Tr r.sp (new ++ t.input) t.wlog (.parse new dest :: ops) r'.sp t'.input t'.wlog ∧
      FlushedReads (r.sp.parse new dest).1 ops ∧
      Led r.sp (.parse new dest :: ops) (retOf res) r'.sp) ∧
    PollOut r dest r' m' res ∧ LoopOut r dest r' res := by
  intro fuel
  induction fuel with
  | zero => intro r new dest m t _ _ _ _ hf; omega
  | succ fuel ih =>
    intro r new dest m t hinv hl hd hfree hfuel r' m' t' res h
    rw [inLoop] at h
    have hpt := C03S.parse_total r.sp new dest hinv.1 hd hfree
    obtain ⟨hf1, hf2, hf3, -, -, ⟨o1, ho1⟩, -⟩ := Str.parse_frame r.sp new dest
    have hlegal : Legal r.sp (.parse new dest) := ⟨hd, hfree⟩
    rcases hp : r.sp.parse new dest with ⟨sp, pr⟩
    rw [hp] at h hpt hf1 hf2 hf3 ho1
    simp only at hf1 hf2 hf3 ho1
    have hfin : ∀ (q : AReq), q.sp.request = sp.request → q.sp.stream = sp.stream →
        q.isFinalStream = r.isFinalStream := fun q h1 h2 =>
      isFinal_congr (h1.trans hf2) (h2.trans hf1)
    have hout : sp.output = [] → r.sp.output = [] := by
      intro hx; rw [hx] at ho1; simp at ho1; exact ho1.1
    have htr0 : ∀ inp wl, Tr (r.sp.parse new dest).1 inp wl [] sp inp wl := by
      intro inp wl; rw [hp]; exact Tr.nil _ _ _
    have hledp : (∀ s, pr ≠ .panic s) →
        r.sp.parsed ++ dlv r.sp (.parse new dest) = okDel pr ++ sp.parsed :=
      led_parse hinv.1.1 hd hfree hp
    have hled0 : (∀ s, pr ≠ .panic s) → Led r.sp [.parse new dest] (okDel pr) sp := by
      intro hnp
      unfold Led
      simp only [dlvAll, List.append_nil]
      exact hledp hnp
    cases pr with
    | panic s => exact hpt.elim
    | err e =>
      simp only at h
      cases h
      have hce := C03S.counts_err hinv.1.1 hd hfree hp
      exact ⟨⟨[], Tr.parse hlegal (htr0 _ _), trivial, hled0 (fun s hx => (nomatch hx))⟩,
        PollOut.of_same rfl (hfin _ rfl rfl) (lockInv_sp hl hout) (fun k d hx => (nomatch hx))
          (fun s hx => (nomatch hx)) hf1 hf2,
        LoopOut.of_notready (fun k d hx => (nomatch hx)) hce.2.2.1 (fun hx => (nomatch hx))⟩
    | ok st =>
      obtain ⟨hsinv, hfs, hcap, -⟩ := hpt
      obtain ⟨-, hcn, hcs, -⟩ := C03S.counts_exact hinv.1.1 hd hfree hp
      have hps : dest ≠ none → sp.parsed = [] := by
        intro hx
        cases dest with
        | none => exact absurd rfl hx
        | some n => exact (hcs n rfl).1
      simp only at h
      split at h
      · -- the parse produced stream data or reported end of stream
        rename_i hdone
        have hdone' : st.streamEnd = true ∨ 0 < st.stream := by
          simpa using hdone
        by_cases hc : (!r.writeable && ({ r with sp := sp } : AReq).isFinalStream) = true
        · rw [if_pos hc] at h
          cases h
          have hfinal : ({ r with sp := sp } : AReq).isFinalStream = true := by
            simp only [Bool.and_eq_true] at hc; exact hc.2
          refine ⟨⟨[], Tr.parse hlegal (htr0 _ _), trivial, hled0 (fun s hx => (nomatch hx))⟩,
            ⟨lockInv_sp hl hout, fun s hx => (nomatch hx),
            hfin _ rfl rfl, fun _ => rfl, fun _ => Or.inr ⟨hfinal, _, _, rfl⟩, ?_, ?_, hf1, hf2⟩,
            ⟨fun _ _ _ _ => rfl, ?_, hps, fun hx => (nomatch hx)⟩⟩
          · intro n k d hn hx
            cases hx
            exact ⟨(hcs n hn).2.2.1, (hcs n hn).2.2.2⟩
          · intro hn k d hx
            cases hx
            obtain ⟨_, _, _, h3⟩ := hcn hn
            exact h3
          · intro k d hx
            cases hx
            exact ⟨r.sp, new, st, hinv.1, hd, hfree, hp, rfl, rfl, hdone'⟩
        · rw [if_neg hc] at h
          cases h
          refine ⟨⟨[], Tr.parse hlegal (htr0 _ _), trivial, hled0 (fun s hx => (nomatch hx))⟩,
            ⟨lockInv_sp hl hout, fun s hx => (nomatch hx),
            hfin _ rfl rfl, id, fun hx => Or.inl hx, ?_, ?_, hf1, hf2⟩,
            ⟨?_, ?_, hps, fun hx => (nomatch hx)⟩⟩
          · intro n k d hn hx
            cases hx
            exact ⟨(hcs n hn).2.2.1, (hcs n hn).2.2.2⟩
          · intro hn k d hx
            cases hx
            obtain ⟨_, _, _, h3⟩ := hcn hn
            exact h3
          · intro k d _ hfinal
            have h1 : ∀ w, ({ sp := sp, lock := r.lock, writeable := w } : AReq).isFinalStream = true :=
              fun w => by rw [hfin _ rfl rfl]; exact hfinal
            cases hw : r.writeable with
            | true => rfl
            | false => rw [hw] at hc; simp [h1] at hc
          · intro k d hx
            cases hx
            exact ⟨r.sp, new, st, hinv.1, hd, hfree, hp, rfl, rfl, hdone'⟩
      · -- compress, flush the replies, read more
        have hl3 : LockInv ({ r with sp := sp.compress } : AReq) m := lockInv_sp hl hout
        rcases hpo : ({ r with sp := sp.compress } : AReq).pollOutput m t with ⟨r4, m4, t4, o⟩
        obtain ⟨k, hk1, hk2, hk3, hk4, hk5, hk6, hk7, hk8⟩ := pollOutput_spec hl3 hpo
        simp only at hk1 hk2 hk3
        rw [hpo] at h
        have hfin4 : r4.isFinalStream = r.isFinalStream := hfin r4 (by rw [hk1]; rfl) (by rw [hk1]; rfl)
        have hs4 : r4.sp.stream = r.sp.stream := by rw [hk1]; exact hf1
        have hr4 : r4.sp.request = r.sp.request := by rw [hk1]; exact hf2
        have hps4 : dest ≠ none → r4.sp.parsed = [] := by
          intro hx; rw [hk1]; exact hps hx
        have hpar4 : r4.sp.parsed = r.sp.parsed := by
          rw [hk1]
          show sp.parsed = r.sp.parsed
          cases dest with
          | none =>
            obtain ⟨d, hd1, hd2, -⟩ := hcn rfl
            have hz : st.stream = 0 := by
              rename_i hnd
              simp only [Bool.or_eq_true, decide_eq_true_eq, not_or] at hnd
              omega
            have : d = [] := List.length_eq_zero_iff.mp (hd2.trans hz)
            rw [hd1, this, List.append_nil]
          | some n => rw [(hcs n rfl).1, (hcs n rfl).2.1]
        -- the history up to here
        have htr4 : ∀ {ops p' inp' wl'}, Tr r4.sp t4.input t4.wlog ops p' inp' wl' →
            Tr r.sp (new ++ t.input) t.wlog (.parse new dest :: .compress :: .consumeOutput k :: ops)
              p' inp' wl' := by
          intro ops p' inp' wl' hx
          refine Tr.parse hlegal ?_
          rw [hp]
          refine Tr.compress (Tr.consumeOutput k ?_)
          rw [← hk1, ← hk4.1]
          have : t.wlog ++ List.take k sp.compress.output = t4.wlog := by rw [hk3]
          rw [this]; exact hx
        have hdel0 : st.delivered = [] := by
          have hz : st.stream = 0 := by
            rename_i hnd
            simp only [Bool.or_eq_true, decide_eq_true_eq, not_or] at hnd
            omega
          cases dest with
          | none => exact (hcn rfl).choose_spec.2.2
          | some n => exact List.length_eq_zero_iff.mp ((hcs n rfl).2.2.1.trans hz)
        have hled4 : ∀ {ops ret p'}, Led r4.sp ops ret p' →
            Led r.sp (.parse new dest :: .compress :: .consumeOutput k :: ops) ret p' := by
          intro ops ret p' hx
          have e : applyOp (applyOp (applyOp r.sp (.parse new dest)) .compress) (.consumeOutput k)
              = r4.sp := by simp only [applyOp, hp, hk1]
          refine Led.cons ?_ (Led.cons ?_ (Led.cons ?_ (by rw [e]; exact hx)))
          · have := hledp (fun s hx => (nomatch hx))
            simp only [okDel, hdel0, List.nil_append] at this
            simp only [applyOp, hp]; exact this
          · simp [dlv, applyOp, Parser.compress]
          · simp [dlv, applyOp, Parser.consumeOutput]
        have stop : ∀ (t5 : Transport) (res5 : IRes), t5.input = t4.input → t5.wlog = t4.wlog →
            (∀ k d, res5 ≠ .ready k d) → (∀ s, res5 ≠ .panic s) →
            (∃ ops, Tr r.sp (new ++ t.input) t.wlog (.parse new dest :: ops) r4.sp t5.input t5.wlog ∧
              FlushedReads sp ops ∧ Led r.sp (.parse new dest :: ops) (retOf res5) r4.sp) ∧
            PollOut r dest r4 m4 res5 ∧ LoopOut r dest r4 res5 := by
          intro t5 res5 h1 h2 h3 h4
          have hret : retOf res5 = [] := by
            cases res5 with
            | ready k d => exact absurd rfl (h3 k d)
            | _ => rfl
          refine ⟨⟨_, htr4 (ops := []) (by rw [h1, h2]; exact Tr.nil _ _ _),
              ⟨fun _ _ hx => (nomatch hx), fun _ _ hx => (nomatch hx), trivial⟩,
              by rw [hret]; exact hled4 (Led.nil _)⟩,
            PollOut.of_same hk2 hfin4 hk5 h3 h4 hs4 hr4, LoopOut.of_notready h3 hps4 (fun _ => hpar4)⟩
        cases o with
        | pending =>
          simp only at h; cases h
          exact stop _ _ rfl rfl (fun k d hx => (nomatch hx)) (fun s hx => (nomatch hx))
        | err e =>
          simp only at h; cases h
          exact stop _ _ rfl rfl (fun k d hx => (nomatch hx)) (fun s hx => (nomatch hx))
        | panic s => exact absurd rfl (hk6 s)
        | ready =>
          simp only at h
          rcases hrd : t4.read r4.sp.free with ⟨t5, x⟩
          rw [hrd] at h
          obtain ⟨hr1, hr2, hr3⟩ := tread_spec hrd
          cases x with
          | pending =>
            simp only at h; cases h
            exact stop _ _ (hr3 (Or.inl rfl)) hr1 (fun k d hx => (nomatch hx)) (fun s hx => (nomatch hx))
          | ready y =>
            cases y with
            | error e =>
              simp only at h; cases h
              exact stop _ _ (hr3 (Or.inr ⟨e, rfl⟩)) hr1 (fun k d hx => (nomatch hx))
                (fun s hx => (nomatch hx))
            | ok bs =>
              obtain ⟨hb1, hb2, -⟩ := hr2 bs rfl
              cases bs with
              | nil =>
                simp only at h; cases h
                exact stop _ _ (by simpa using hb2.symm) hr1 (fun k d hx => (nomatch hx))
                  (fun s hx => (nomatch hx))
              | cons b bs =>
                simp only at h
                have hinv4 : AInv r4 := by
                  refine ⟨?_, ?_⟩
                  · rw [hk1]; exact C03S.consumeOutput_inv (C03S.compress_inv hsinv) k
                  · rw [hk1]; show sp.cap ≥ 24; rw [hcap]; exact hinv.2
                have hd4 : dest = none ∨ r4.sp.parsed = [] := by
                  cases dest with
                  | none => exact Or.inl rfl
                  | some n => exact Or.inr (hps4 (fun hx => nomatch hx))
                have hfuel4 : t5.input.length < fuel := by
                  have e1 : t4.input = t.input := hk4.1
                  have e2 := congrArg List.length hb2
                  simp only [List.length_append, List.length_cons] at e2
                  rw [e1] at e2
                  omega
                obtain ⟨⟨ops, htr, hfl, hled⟩, hpo5, hlo5⟩ :=
                  ih r4 (b :: bs) dest m4 t5 hinv4 hk5 hd4 hb1 hfuel4 r' m' t' res h
                refine ⟨⟨_, htr4 (ops := .parse (b :: bs) dest :: ops) ?_, ?_, hled4 hled⟩,
                  hpo5.pre hk2 hfin4 hs4 hr4,
                  hlo5.pre hfin4 hpar4⟩
                · rw [hb2, ← hr1]
                  exact htr
                · refine ⟨fun _ _ hx => (nomatch hx), fun _ _ hx => (nomatch hx), ?_, ?_⟩
                  · intro _ _ _ _
                    show (sp.compress.consumeOutput k).output = []
                    rw [← hk1]
                    exact (hk7 rfl).1
                  · show FlushedReads ((sp.compress.consumeOutput k).parse (b :: bs) dest).1 ops
                    rw [← hk1]
                    exact hfl

theorem pollInput_zero (r : AReq) (m : MutexSt) (t : Transport) :
    r.pollInput (some 0) m t = (r, m, t, .ready 0 []) := by
  unfold AReq.pollInput; rfl

theorem pollInput_none_buffered (r : AReq) (m : MutexSt) (t : Transport) (h : r.sp.parsed ≠ []) :
    r.pollInput none m t = (r, m, t, .ready 0 []) := by
  unfold AReq.pollInput
  cases hp : r.sp.parsed with
  | nil => exact absurd hp h
  | cons a b => rfl

theorem pollInput_some_buffered (r : AReq) (n : Nat) (m : MutexSt) (t : Transport) (hn : 0 < n)
    (h : r.sp.parsed ≠ []) :
    r.pollInput (some n) m t =
      ({ r with sp := r.sp.consumeStream (min n r.sp.parsed.length) }, m, t,
        .ready (min n r.sp.parsed.length) (r.sp.parsed.take (min n r.sp.parsed.length))) := by
  unfold AReq.pollInput
  cases n with
  | zero => omega
  | succ n =>
    cases hp : r.sp.parsed with
    | nil => exact absurd hp h
    | cons a b => rfl

/-- `poll_input` after its entry flush. -/
def afterFlush (dest : Option Nat) : AReq × MutexSt × Transport × ORes → AReq × MutexSt × Transport × IRes
  | (r, m, t, .pending) => (r, m, t, .pending)
  | (r, m, t, .err e) => (r, m, t, .err e)
  | (r, m, t, .panic s) => (r, m, t, .panic s)
  | (r, m, t, .ready) => inLoop (t.input.length + 2) r [] dest m t

theorem pollInput_loop (r : AReq) (dest : Option Nat) (m : MutexSt) (t : Transport)
    (hd : dest ≠ some 0) (h : r.sp.parsed = []) :
    r.pollInput dest m t = afterFlush dest (r.pollOutput m t) := by
  unfold AReq.pollInput
  cases dest with
  | none =>
    simp only [h]
    rcases r.pollOutput m t with ⟨r1, m1, t1, o⟩
    cases o <;> rfl
  | some n =>
    cases n with
    | zero => exact absurd rfl hd
    | succ n =>
      simp only [h]
      rcases r.pollOutput m t with ⟨r1, m1, t1, o⟩
      cases o <;> rfl

/-- **`Request::poll_input`.**  From an invariant state every poll's effect on the parser is a legal
operation history fed with exactly the bytes taken from the transport; no panic site is reached;
the invariants are kept. -/
theorem pollInput_spec {r : AReq} {dest : Option Nat} {m : MutexSt} {t : Transport} {r' : AReq}
    {m' : MutexSt} {t' : Transport} {res : IRes} (hinv : AInv r) (hl : LockInv r m)
    (h : r.pollInput dest m t = (r', m', t', res)) :
    (∃ ops, Tr r.sp t.input t.wlog ops r'.sp t'.input t'.wlog ∧ FlushedReads r.sp ops ∧
      Led r.sp ops (retOf res) r'.sp) ∧
    PollOut r dest r' m' res ∧
    (dest ≠ some 0 → r.sp.parsed = [] → LoopOut r dest r' res) := by
  by_cases hz : dest = some 0
  · subst hz
    rw [pollInput_zero] at h
    cases h
    refine ⟨⟨[], Tr.nil _ _ _, trivial, Led.nil _⟩,
      ⟨hl, fun s hx => (nomatch hx), rfl, id, Or.inl, ?_, fun hx => (nomatch hx), rfl, rfl⟩,
      fun hx => absurd rfl hx⟩
    intro n k d hn hx
    cases hn; cases hx
    exact ⟨rfl, Nat.le_refl _⟩
  by_cases hp : r.sp.parsed = []
  · rw [pollInput_loop r dest m t hz hp] at h
    rcases hpo : r.pollOutput m t with ⟨r1, m1, t1, o⟩
    obtain ⟨k, hk1, hk2, hk3, hk4, hk5, hk6, hk7, hk8⟩ := pollOutput_spec hl hpo
    rw [hpo] at h
    have hfin1 : r1.isFinalStream = r.isFinalStream :=
      isFinal_congr (by rw [hk1]; rfl) (by rw [hk1]; rfl)
    have hps1 : dest ≠ none → r1.sp.parsed = [] := fun _ => by rw [hk1]; exact hp
    have htr1 : ∀ {ops p' inp' wl'}, Tr r1.sp t1.input t1.wlog ops p' inp' wl' →
        Tr r.sp t.input t.wlog (.consumeOutput k :: ops) p' inp' wl' := by
      intro ops p' inp' wl' hx
      refine Tr.consumeOutput k ?_
      rw [← hk1, ← hk4.1, ← hk3]; exact hx
    have hled1 : ∀ {ops ret p'}, Led r1.sp ops ret p' → Led r.sp (.consumeOutput k :: ops) ret p' := by
      intro ops ret p' hx
      refine Led.cons (by simp [dlv, applyOp, Parser.consumeOutput]) ?_
      show Led (r.sp.consumeOutput k) ops ret p'
      rw [← hk1]; exact hx
    have stop : ∀ (res1 : IRes), (∀ k d, res1 ≠ .ready k d) → (∀ s, res1 ≠ .panic s) →
        (∃ ops, Tr r.sp t.input t.wlog ops r1.sp t1.input t1.wlog ∧ FlushedReads r.sp ops ∧
          Led r.sp ops (retOf res1) r1.sp) ∧
        PollOut r dest r1 m1 res1 ∧
        (dest ≠ some 0 → r.sp.parsed = [] → LoopOut r dest r1 res1) := fun res1 h3 h4 =>
      ⟨⟨_, htr1 (ops := []) (Tr.nil _ _ _), ⟨fun _ _ hx => (nomatch hx), trivial⟩,
        by
          have hret : retOf res1 = [] := by
            cases res1 with
            | ready k d => exact absurd rfl (h3 k d)
            | _ => rfl
          rw [hret]; exact hled1 (Led.nil _)⟩,
        PollOut.of_same hk2 hfin1 hk5 h3 h4 (by rw [hk1]; rfl) (by rw [hk1]; rfl),
        fun _ _ => LoopOut.of_notready h3 hps1 (fun _ => by rw [hk1]; rfl)⟩
    cases o with
    | pending =>
      simp only [afterFlush] at h; cases h
      exact stop _ (fun k d hx => (nomatch hx)) (fun s hx => (nomatch hx))
    | err e =>
      simp only [afterFlush] at h; cases h
      exact stop _ (fun k d hx => (nomatch hx)) (fun s hx => (nomatch hx))
    | panic s => exact absurd rfl (hk6 s)
    | ready =>
      simp only [afterFlush] at h
      have hinv1 : AInv r1 := by
        refine ⟨?_, ?_⟩
        · rw [hk1]; exact C03S.consumeOutput_inv hinv.1 k
        · rw [hk1]; exact hinv.2
      have hd1 : dest = none ∨ r1.sp.parsed = [] := Or.inr (by rw [hk1]; exact hp)
      obtain ⟨⟨ops, htr, hfl, hled⟩, hpo2, hlo2⟩ := inLoop_spec _ r1 [] dest m1 t1 hinv1 hk5 hd1
        (Nat.zero_le _) (by omega) r' m' t' res h
      rw [List.nil_append] at htr
      refine ⟨⟨_, htr1 htr, ⟨fun _ _ hx => (nomatch hx), fun _ _ hx hne => ?_, ?_⟩, hled1 hled⟩,
        hpo2.pre hk2 hfin1 (by rw [hk1]; rfl) (by rw [hk1]; rfl), fun _ _ => hlo2.pre hfin1 (by rw [hk1]; rfl)⟩
      · cases hx; exact absurd rfl hne
      · show FlushedReads ((r.sp.consumeOutput k).parse [] dest).1 ops
        rw [← hk1]; exact hfl
  · -- buffered stream data is handed out first
    cases dest with
    | none =>
      rw [pollInput_none_buffered r m t hp] at h
      cases h
      exact ⟨⟨[], Tr.nil _ _ _, trivial, Led.nil _⟩, ⟨hl, fun s hx => (nomatch hx), rfl, id, Or.inl,
        fun n k d hn => (nomatch hn), fun _ k d hx => by cases hx; rfl, rfl, rfl⟩,
        fun _ hx => absurd hx hp⟩
    | some n =>
      have hn : 0 < n := by
        cases n with
        | zero => exact absurd rfl hz
        | succ n => omega
      rw [pollInput_some_buffered r n m t hn hp] at h
      cases h
      refine ⟨⟨[.consumeStream (min n r.sp.parsed.length)], Tr.consumeStream _ (Tr.nil _ _ _),
          ⟨fun _ _ hx => (nomatch hx), trivial⟩, ?_⟩,
        ⟨lockInv_sp hl id, fun s hx => (nomatch hx), rfl, id, Or.inl, ?_, fun hx => (nomatch hx),
          rfl, rfl⟩,
        fun _ hx => absurd hx hp⟩
      · unfold Led
        simp only [dlvAll, dlv, retOf, List.append_nil]
        rw [consumeStream_parsed, List.take_append_drop]
      · intro n' k d hn' hx
        cases hn'; cases hx
        refine ⟨?_, Nat.min_le_left _ _⟩
        simp only [List.length_take]
        omega

/-! ## `writeable`, `set_stream` -/

/-- The last input stream of a role has no successor. -/
theorem next_last_none (role : Nat) : nextInputStream role (inputStreams role).getLast? = none := by
  unfold nextInputStream inputStreams
  by_cases h1 : role = 1
  · subst h1; decide
  · by_cases h3 : role = 3
    · subst h3; decide
    · simp [h1, h3]

/-- Every way `set_stream` succeeds: the active stream is then the requested one; either nothing
changed, or the stream buffer was discarded; reply buffer, capacity, request are kept. -/
theorem setStream_ok_frame {p p' : Parser} {st : Option Nat} (h : p.setStream st = .ok p') :
    p'.stream = st ∧ p'.output = p.output ∧ p'.cap = p.cap ∧ p'.request = p.request ∧
      p'.raw = p.raw ∧ (p' = p ∨ (p'.parsed = [] ∧ st ≠ p.stream)) := by
  rcases setStream_ok_cases h with ⟨h1, rfl⟩ | ⟨h1, rfl, -⟩
  · exact ⟨h1.symm, rfl, rfl, rfl, rfl, Or.inl rfl⟩
  · exact ⟨rfl, rfl, rfl, rfl, rfl, Or.inr ⟨rfl, h1⟩⟩

/-- Selecting the role's last stream is always accepted while some stream is active. -/
theorem setStream_last_ok {p : Parser} (hinv : SInv p) (hs : p.stream ≠ none) :
    ∃ p', p.setStream (inputStreams p.request.role).getLast? = .ok p' := by
  obtain ⟨-, -, -, -, hst, -⟩ := hinv
  rcases hst with hst | ⟨e, hst, hm⟩
  · exact absurd hst hs
  · have hcur : ∀ e', p.stream = some e' → RT.isInputStream e' = true := by
      intro e' he'; rw [hst] at he'; cases he'; exact mem_inputStreams_isInput hm
    by_cases h1 : p.request.role = 1
    · have hl : inputStreams p.request.role = [5] := by simp [inputStreams, h1, RT.stdin]
      rw [hl] at hm ⊢
      simp only [List.mem_singleton] at hm
      subst hm
      refine ⟨p, ?_⟩
      show p.setStream (some 5) = .ok p
      rw [C18.setStream_some_input_eq p (s := 5) rfl hcur]
      simp [hst]
    · by_cases h3 : p.request.role = 3
      · have hl : inputStreams p.request.role = [5, 8] := by
          simp [inputStreams, h3, RT.stdin, RT.data]
        rw [hl] at hm ⊢
        simp only [List.mem_cons, List.not_mem_nil, or_false] at hm
        show ∃ p', p.setStream (some 8) = .ok p'
        rw [C18.setStream_some_input_eq p (s := 8) rfl hcur]
        rcases hm with rfl | rfl
        · refine ⟨p.switchTo (some 8), ?_⟩
          have hl : Later p.request.role (some 5) 8 := by rw [h3]; decide
          simp [hst, hl]
        · exact ⟨p, by simp [hst]⟩
      · simp [inputStreams, h1, h3] at hm

/-- `writeable` is set whenever no stream is active, and whenever stream data of the final stream
is buffered. -/
def WriteableInv (r : AReq) : Prop :=
  (r.sp.stream = none → r.writeable = true) ∧
  (r.sp.parsed ≠ [] → r.isFinalStream = true → r.writeable = true)

theorem new_winv (cap : Nat) (req : Req.Request) (input : Bytes) (mc : Nat) :
    WriteableInv (AReq.new (Parser.fromParser cap req input mc)) := by
  refine ⟨fun h => ?_, fun h => absurd rfl h⟩
  simp only [AReq.new, Parser.fromParser] at h ⊢
  unfold nextInputStream at h
  unfold inputStreams
  by_cases h1 : req.role = 1
  · simp [h1] at h
  · by_cases h3 : req.role = 3
    · simp [h3] at h
    · simp [h1, h3]

/-- `Request::new` sets `writeable` iff the role has at most one input stream. -/
theorem new_writeable (sp : Parser) :
    (AReq.new sp).writeable = true ↔ (inputStreams sp.request.role).length ≤ 1 := by
  simp [AReq.new]

theorem new_ainv {sp : Parser} (h : SInv sp) (hc : 24 ≤ sp.cap) : AInv (AReq.new sp) := ⟨h, hc⟩

theorem new_lockInv (sp : Parser) {m : MutexSt} (hm : m ≠ some 0) : LockInv (AReq.new sp) m :=
  ⟨⟨fun h => (nomatch h), fun h => absurd h hm⟩, fun _ => rfl⟩

/-- `Request::set_stream` succeeds iff the stream parser accepts; the result. -/
theorem setStream_some_iff (r : AReq) (s : Nat) (r' : AReq) :
    r.setStream s = some r' ↔ ∃ sp', r.sp.setStream (some s) = .ok sp' ∧ r' = { r with sp := sp' } := by
  unfold AReq.setStream
  constructor
  · intro h
    split at h
    · rename_i sp' hs
      cases h
      exact ⟨sp', hs, rfl⟩
    · cases h
  · rintro ⟨sp', hs, rfl⟩
    rw [hs]

theorem setStream_none_iff (r : AReq) (s : Nat) :
    r.setStream s = none ↔ ∀ sp', r.sp.setStream (some s) ≠ .ok sp' := by
  unfold AReq.setStream
  constructor
  · intro h sp' hs
    rw [hs] at h; cases h
  · intro h
    split
    · rename_i sp' hs; exact absurd hs (h sp')
    · rfl

/-- `set_stream` keeps all invariants and never resets `writeable`. -/
theorem setStream_inv {r r' : AReq} {s : Nat} {m : MutexSt} (h : r.setStream s = some r')
    (hinv : AInv r) (hl : LockInv r m) (hw : WriteableInv r) :
    AInv r' ∧ LockInv r' m ∧ WriteableInv r' ∧ r'.writeable = r.writeable ∧ r'.lock = r.lock := by
  obtain ⟨sp', hs, rfl⟩ := (setStream_some_iff r s _).mp h
  obtain ⟨h1, h2, h3, h4, -, h6⟩ := setStream_ok_frame hs
  refine ⟨⟨C03S.setStream_inv hinv.1 hs, by show 24 ≤ sp'.cap; rw [h3]; exact hinv.2⟩,
    lockInv_sp hl (fun hx => by rw [← h2]; exact hx), ⟨fun hx => ?_, fun hp hf => ?_⟩, rfl, rfl⟩
  · simp only at hx; rw [h1] at hx; cases hx
  · rcases h6 with rfl | ⟨hx, -⟩
    · exact hw.2 hp hf
    · exact absurd hx hp

/-- the tail of `writeable()`: the `poll_input(None)` poll on the final stream -/
theorem writeable_tail {r1 : AReq} {m : MutexSt} {t : Transport} {r2 : AReq} {m2 : MutexSt}
    {t2 : Transport} {x : IRes} (hinv : AInv r1) (hl : LockInv r1 m)
    (hfin : r1.isFinalStream = true) (hbuf : r1.sp.parsed ≠ [] → r1.writeable = true)
    (h : r1.pollInput none m t = (r2, m2, t2, x)) :
    AInv r2 ∧ LockInv r2 m2 ∧ (∀ s, x ≠ .panic s) ∧ (r1.writeable = true → r2.writeable = true) ∧
      (∀ k d, x = .ready k d → r2.writeable = true) ∧ r2.isFinalStream = true ∧
      (x = .pending → r2.sp.parsed ≠ [] → r2.writeable = true) := by
  obtain ⟨⟨ops, htr, -⟩, hpo, hlo⟩ := pollInput_spec hinv hl h
  obtain ⟨hs, hc, -, -⟩ := htr.inv hinv.1
  refine ⟨⟨hs, by rw [hc]; exact hinv.2⟩, hpo.linv, hpo.nopanic, hpo.wmono, ?_,
    hpo.final.trans hfin, ?_⟩
  · intro k d hx
    by_cases hp : r1.sp.parsed = []
    · exact (hlo (fun hz => (nomatch hz)) hp).wready k d hx hfin
    · rw [pollInput_none_buffered r1 m t hp] at h
      cases h
      exact hbuf hp
  · intro hx hp2
    by_cases hp : r1.sp.parsed = []
    · rw [(hlo (fun hz => (nomatch hz)) hp).ppend hx] at hp2
      exact absurd hp hp2
    · exact hpo.wmono (hbuf hp)

/-- `poll_input`'s result as `writeable()` reports it (`.and(Ok(()))`). -/
def oresOf : IRes → ORes
  | .ready _ _ => .ready
  | .pending => .pending
  | .err e => .err e
  | .panic s => .panic s

/-- **`Request::writeable()`**, one poll.  Under the invariants (`started`: the future is being
re-polled after a `Pending`, the final stream is then already selected): never panics — in
particular `set_stream(final)` is never rejected —, keeps the invariants, never resets
`writeable`, and completes only with `writeable` set. -/
theorem writeablePoll_spec {r : AReq} {started : Bool} {m : MutexSt} {t : Transport} {r' : AReq}
    {b : Bool} {m' : MutexSt} {t' : Transport} {res : ORes} (hinv : AInv r) (hl : LockInv r m)
    (hw : WriteableInv r) (hstart : started = true → r.isFinalStream = true)
    (h : r.writeablePoll started m t = (r', b, m', t', res)) :
    b = true ∧ AInv r' ∧ LockInv r' m' ∧ (∀ s, res ≠ .panic s) ∧
      (r.writeable = true → r'.writeable = true) ∧ (res = .ready → r'.writeable = true) ∧
      (res = .pending → r'.isFinalStream = true ∧ (r'.sp.parsed ≠ [] → r'.writeable = true)) := by
  -- the `poll_input(None)` poll on the request `r1` with the final stream selected
  have fin : ∀ (r1 : AReq), AInv r1 → LockInv r1 m → r1.isFinalStream = true →
      r1.writeable = r.writeable → (r1.sp.parsed ≠ [] → r1.writeable = true) →
      ∀ r2 m2 t2 x, r1.pollInput none m t = (r2, m2, t2, x) →
      (r', b, m', t', res) = (r2, true, m2, t2, oresOf x) →
      b = true ∧ AInv r' ∧ LockInv r' m' ∧ (∀ s, res ≠ .panic s) ∧
      (r.writeable = true → r'.writeable = true) ∧ (res = .ready → r'.writeable = true) ∧
      (res = .pending → r'.isFinalStream = true ∧ (r'.sp.parsed ≠ [] → r'.writeable = true)) := by
    intro r1 hinv1 hl1 hfin1 hw1 hbuf1 r2 m2 t2 x hpi heq
    cases heq
    obtain ⟨a1, a2, a3, a4, a5, a6, a7⟩ := writeable_tail hinv1 hl1 hfin1 hbuf1 hpi
    refine ⟨rfl, a1, a2, ?_, fun hx => a4 (hw1 ▸ hx), ?_, ?_⟩
    · intro s hx
      cases x with
      | panic s' => exact absurd rfl (a3 s')
      | _ => cases hx
    · intro hx
      cases x with
      | ready k d => exact a5 k d rfl
      | _ => cases hx
    · intro hx
      cases x with
      | pending => exact ⟨a6, a7 rfl⟩
      | _ => cases hx
  cases started with
  | true =>
    simp only [AReq.writeablePoll, Bool.not_true, Bool.false_and, Bool.false_eq_true, if_false,
      if_true] at h
    rcases hpi : r.pollInput none m t with ⟨r2, m2, t2, x⟩
    rw [hpi] at h
    exact fin r hinv hl (hstart rfl) rfl (fun hp => hw.2 hp (hstart rfl)) r2 m2 t2 x hpi
      (by cases x <;> exact h.symm)
  | false =>
    by_cases hwt : r.writeable = true
    · simp only [AReq.writeablePoll, hwt, Bool.not_false, Bool.and_self, if_true] at h
      cases h
      exact ⟨rfl, hinv, hl, fun s hx => (nomatch hx), id, fun _ => hwt, fun hx => (nomatch hx)⟩
    · have hwr : r.writeable = false := by
        cases hx : r.writeable with
        | false => rfl
        | true => exact absurd hx hwt
      have hsn : r.sp.stream ≠ none := fun hx => by
        have := hw.1 hx; rw [hwr] at this; cases this
      obtain ⟨p', hp'⟩ := setStream_last_ok hinv.1 hsn
      obtain ⟨h1, h2, h3, h4, -, h6⟩ := setStream_ok_frame hp'
      simp only [AReq.writeablePoll, hwr, Bool.not_false, Bool.and_false, Bool.false_eq_true,
        if_false, hp'] at h
      rcases hpi : ({ sp := p', lock := r.lock, writeable := false } : AReq).pollInput none m t
        with ⟨r2, m2, t2, x⟩
      rw [hpi] at h
      refine fin { sp := p', lock := r.lock, writeable := false }
        ⟨C03S.setStream_inv hinv.1 hp', ?_⟩
        ⟨hl.1, fun hx => hl.2 (by rw [← h2]; exact hx)⟩ ?_ hwr.symm ?_ r2 m2 t2 x hpi
        (by cases x <;> exact h.symm)
      · show 24 ≤ p'.cap; rw [h3]; exact hinv.2
      · simp only [AReq.isFinalStream, h1, h4, next_last_none]; rfl
      · intro hp
        rcases h6 with rfl | ⟨hx, -⟩
        · exfalso
          have : r.writeable = true := by
            apply hw.2 hp
            simp only [AReq.isFinalStream]
            rw [show r.sp.stream = (inputStreams r.sp.request.role).getLast? from h1,
              next_last_none]
            rfl
          rw [hwr] at this; cases this
        · exact absurd hx hp

/-! ## End of stream: how `stream_end` arises -/

/-- What a loop-body step does to `stream_end` and the record position. -/
def SeKeep (res : Status) : Iter → Prop
  | .cont p2 _ r => r.streamEnd = res.streamEnd ∧ p2.pay = 0
  | .stop _ r => r.streamEnd = res.streamEnd
  | _ => True

theorem parsePayload_se (p : Parser) (dest : Option Nat) (res : Status) :
    SeKeep res (parsePayload p dest res) := by
  unfold parsePayload
  cases hst : p.state with
  | stream =>
    cases dest with
    | none =>
      simp only []
      split
      · trivial
      · split
        · rename_i hc; simp only [Bool.and_eq_true, beq_iff_eq] at hc; exact ⟨rfl, hc.1⟩
        · simp [SeKeep]
    | some c =>
      simp only []
      split
      · trivial
      · split
        · rename_i hc; simp only [Bool.and_eq_true, beq_iff_eq] at hc; exact ⟨rfl, hc.1⟩
        · simp [SeKeep]
  | skip =>
    simp only []
    split
    · trivial
    · split
      · rename_i hc; simp only [Bool.and_eq_true, beq_iff_eq] at hc; exact ⟨rfl, hc.1⟩
      · simp [SeKeep]
  | values v =>
    by_cases hlt : p.raw.length < p.pay
    · simp only [hlt, if_true]
      split
      · trivial
      · split
        · rename_i hc; simp only [Bool.and_eq_true, beq_iff_eq] at hc; exact ⟨rfl, hc.1⟩
        · simp [SeKeep]
    · simp only [hlt, if_false]
      split
      · trivial
      · split
        · rename_i hc; simp only [Bool.and_eq_true, beq_iff_eq] at hc; exact ⟨rfl, hc.1⟩
        · simp [SeKeep]

theorem parseHead_cont_se {p p' : Parser} {dest d' : Option Nat} {res r' : Status}
    (h : parseHead p dest res = .cont p' d' r') : r'.streamEnd = res.streamEnd := by
  unfold parseHead at h
  split at h
  · split at h
    · cases h; rfl
    · cases h
    · rename_i head hh
      by_cases hin : (RT.isInputStream head.rtype && head.requestId == p.request.id) = true
      · rw [if_pos hin] at h
        split at h
        · cases h
        · split at h
          · cases h; rfl
          · cases h
        · cases h; rfl
        · cases h
      · rw [if_neg hin] at h
        split at h
        · cases h
        · split at h
          · cases h; rfl
          · split at h <;> (cases h; rfl)
    · cases h
  · cases h

/-- The padding step followed by `parse_head`, from a position with no payload outstanding. -/
theorem padHead_se (q : Parser) (d : Option Nat) (r : Status) (hpay : q.pay = 0)
    (h0 : r.streamEnd = false) :
    match (if q.pad > 0 then
        if q.raw.length ≤ q.pad then
          Iter.stop { q with raw := [], g1 := q.g1 + q.raw.length, pad := q.pad - q.raw.length } r
        else parseHead { q with raw := q.raw.drop q.pad, g1 := q.g1 + q.pad, pad := 0 } d r
      else parseHead q d r) with
    | .cont _ _ r' => r'.streamEnd = false
    | .stop p' r' => r'.streamEnd = true → HeldBack p' ∧ p'.isRecordBoundary = true
    | _ => True := by
  have key : ∀ (q' : Parser), q'.pay = 0 → q'.pad = 0 →
      match parseHead q' d r with
      | .cont _ _ r' => r'.streamEnd = false
      | .stop p' r' => r'.streamEnd = true → HeldBack p' ∧ p'.isRecordBoundary = true
      | _ => True := by
    intro q' h1 h2
    cases hh : parseHead q' d r with
    | cont p' d' r' => exact (parseHead_cont_se hh).trans h0
    | stop p' r' =>
      intro hse
      obtain ⟨rfl, -, hb⟩ := parseHead_stop_se hh hse h0
      exact ⟨hb, by simp [Parser.isRecordBoundary, h1, h2]⟩
    | err p' e => trivial
    | panic s => trivial
  by_cases hp : q.pad > 0
  · rw [if_pos hp]
    by_cases hl : q.raw.length ≤ q.pad
    · rw [if_pos hl]
      intro hx; rw [h0] at hx; cases hx
    · rw [if_neg hl]
      exact key _ hpay rfl
  · rw [if_neg hp]
    exact key q hpay (by omega)

theorem iter_se (p : Parser) (dest : Option Nat) (res : Status) (h0 : res.streamEnd = false) :
    match iter p dest res with
    | .cont _ _ r' => r'.streamEnd = false
    | .stop p' r' => r'.streamEnd = true → HeldBack p' ∧ p'.isRecordBoundary = true
    | _ => True := by
  unfold iter
  by_cases hpay : p.pay > 0
  · simp only [hpay, if_true]
    have hp := parsePayload_se p dest res
    cases hpp : parsePayload p dest res with
    | cont q d r =>
      rw [hpp] at hp
      exact padHead_se q d r hp.2 (hp.1.trans h0)
    | stop q r =>
      rw [hpp] at hp
      intro hx
      rw [hp, h0] at hx; cases hx
    | err q e => trivial
    | panic s => trivial
  · simp only [hpay, if_false]
    exact padHead_se p dest res (by omega) h0

theorem loop_se : ∀ (n : Nat) (p : Parser) (dest : Option Nat) (res : Status), p.raw.length = n →
    res.streamEnd = false → ∀ p' st, loop p dest res = (p', .ok st) → st.streamEnd = true →
    HeldBack p' ∧ p'.isRecordBoundary = true := by
  intro n
  induction n using Nat.strongRecOn with
  | _ n ih =>
    intro p dest res hn h0 p' st h hse
    rw [loop] at h
    split at h
    · cases h; rw [h0] at hse; cases hse
    · have hi := iter_se p dest res h0
      cases hit : iter p dest res with
      | cont q d r =>
        rw [hit] at hi h
        simp only at h
        split at h
        · rename_i hlt
          exact ih _ (by omega) q d r rfl hi p' st h hse
        · cases h
      | stop q r =>
        rw [hit] at hi h
        cases h
        exact hi hse
      | err q e => rw [hit] at h; cases h
      | panic s => rw [hit] at h; cases h

/-- **How `stream_end` arises.**  A legal `parse` call while a stream is active that reports
`stream_end` leaves the parser at a record boundary in front of a held-back header (the empty
record of the active stream, or a record of a later stream of this request). -/
theorem parse_streamEnd_held {p p' : Parser} {new : Bytes} {dest : Option Nat} {st : Status}
    (hinv : SInv p) (hd : dest = none ∨ p.parsed = []) (hfree : new.length ≤ p.free)
    (hs : p.stream ≠ none) (h : p.parse new dest = (p', .ok st)) (hse : st.streamEnd = true) :
    HeldBack p' ∧ p'.isRecordBoundary = true := by
  rw [parse_eq_loop p new dest hinv.1 hd hfree] at h
  refine loop_se _ _ dest _ rfl ?_ p' st h hse
  simp only [initStatus]
  cases hx : p.stream with
  | none => exact absurd hx hs
  | some e => rfl

/-! ## End of stream at the `Request` level -/

/-- The state a read that reported end-of-stream leaves behind: at a record boundary in front of a
held-back header, nothing buffered. -/
def EofSt (r : AReq) : Prop :=
  HeldBack r.sp ∧ r.sp.isRecordBoundary = true ∧ r.sp.parsed = []

theorem pollOutput_empty {r : AReq} {m : MutexSt} (hl : LockInv r m) (ho : r.sp.output = [])
    (t : Transport) : r.pollOutput m t = (r, m, t, .ready) := by
  unfold AReq.pollOutput
  simp [ho, hl.2 ho]

/-- The request after `set_writeable` was considered. -/
def markWriteable (r : AReq) : AReq :=
  if !r.writeable && r.isFinalStream then { r with writeable := true } else r

theorem markWriteable_sp (r : AReq) : (markWriteable r).sp = r.sp ∧ (markWriteable r).lock = r.lock ∧
    (r.writeable = true → (markWriteable r).writeable = true) ∧
    (r.isFinalStream = true → (markWriteable r).writeable = true) := by
  unfold markWriteable
  split
  · rename_i h
    exact ⟨rfl, rfl, fun _ => rfl, fun _ => rfl⟩
  · rename_i h
    refine ⟨rfl, rfl, id, fun hf => ?_⟩
    cases hw : r.writeable with
    | true => rfl
    | false => simp [hw, hf] at h

/-- In the end-of-stream state one loop iteration returns `Ok(0)` at once, touching nothing. -/
theorem inLoop_eof (fuel : Nat) {r : AReq} (hinv : AInv r) (he : EofSt r) (dest : Option Nat)
    (m : MutexSt) (t : Transport) :
    inLoop (fuel + 1) r [] dest m t = (markWriteable r, m, t, .ready 0 []) := by
  obtain ⟨hb, hrb, hp⟩ := he
  have hpar := C18.held_back_repeats hinv.1 hrb hb dest (Or.inr hp)
  rw [inLoop, hpar]
  simp only [Bool.true_or, if_true]
  have : ({ r with sp := r.sp } : AReq) = r := rfl
  rfl

/-- **End of stream persists (no reply pending).**  Any later `poll_input`, whatever the
destination, returns `Ok(0)` again without any transport call and without touching the parser. -/
theorem pollInput_eof {r : AReq} {m : MutexSt} (hinv : AInv r) (hl : LockInv r m) (he : EofSt r)
    (ho : r.sp.output = []) (dest : Option Nat) (t : Transport) :
    ∃ r', r.pollInput dest m t = (r', m, t, .ready 0 []) ∧ r'.sp = r.sp ∧ r'.lock = r.lock ∧
      (r.writeable = true → r'.writeable = true) ∧ EofSt r' := by
  by_cases hz : dest = some 0
  · subst hz
    exact ⟨r, pollInput_zero r m t, rfl, rfl, id, he⟩
  · refine ⟨markWriteable r, ?_, (markWriteable_sp r).1, (markWriteable_sp r).2.1,
      (markWriteable_sp r).2.2.1, ?_⟩
    · rw [pollInput_loop r dest m t hz he.2.2, pollOutput_empty hl ho]
      simp only [afterFlush]
      exact inLoop_eof _ hinv he dest m t
    · unfold EofSt; rw [(markWriteable_sp r).1]; exact he

/-- **End of stream persists (replies pending).**  If management replies are still queued, the poll
first flushes them (which may report `Pending` or a write error); the read side of the transport
is never touched, the only possible `Ready` is `Ok(0)`, and the state stays an end-of-stream
state. -/
theorem pollInput_eof_flush {r : AReq} {m : MutexSt} {t : Transport} {dest : Option Nat}
    {r' : AReq} {m' : MutexSt} {t' : Transport} {res : IRes} (hinv : AInv r) (hl : LockInv r m)
    (he : EofSt r) (h : r.pollInput dest m t = (r', m', t', res)) :
    RFrame t t' ∧ EofSt r' ∧ (∀ k d, res = .ready k d → k = 0 ∧ d = []) ∧
      (t'.wlog ++ r'.sp.output = t.wlog ++ r.sp.output) := by
  by_cases hz : dest = some 0
  · subst hz
    rw [pollInput_zero] at h
    cases h
    exact ⟨RFrame.refl _, he, fun k d hx => by cases hx; exact ⟨rfl, rfl⟩, rfl⟩
  · rw [pollInput_loop r dest m t hz he.2.2] at h
    rcases hpo : r.pollOutput m t with ⟨r1, m1, t1, o⟩
    obtain ⟨k, hk1, hk2, hk3, hk4, hk5, hk6, hk7, hk8⟩ := pollOutput_spec hl hpo
    rw [hpo] at h
    have he1 : EofSt r1 := by unfold EofSt; rw [hk1]; exact he
    have hled : t1.wlog ++ r1.sp.output = t.wlog ++ r.sp.output := by
      rw [hk3, hk1, List.append_assoc]
      simp [Parser.consumeOutput]
    cases o with
    | pending =>
      simp only [afterFlush] at h; cases h
      exact ⟨hk4, he1, fun k d hx => (nomatch hx), hled⟩
    | err e =>
      simp only [afterFlush] at h; cases h
      exact ⟨hk4, he1, fun k d hx => (nomatch hx), hled⟩
    | panic s => exact absurd rfl (hk6 s)
    | ready =>
      simp only [afterFlush] at h
      have hinv1 : AInv r1 := by
        refine ⟨?_, ?_⟩
        · rw [hk1]; exact C03S.consumeOutput_inv hinv.1 k
        · rw [hk1]; exact hinv.2
      rw [inLoop_eof _ hinv1 he1 dest m1 t1] at h
      cases h
      refine ⟨hk4, ?_, fun k d hx => by cases hx; exact ⟨rfl, rfl⟩, ?_⟩
      · unfold EofSt; rw [(markWriteable_sp r1).1]; exact he1
      · rw [(markWriteable_sp r1).1]; exact hled

/-- **How the end-of-stream state is entered.**  A read into a non-empty buffer that returns
`Ok(0)` while a stream is active leaves the request in the end-of-stream state. -/
theorem pollInput_eof_enters {r : AReq} {n : Nat} {m : MutexSt} {t : Transport} {r' : AReq}
    {m' : MutexSt} {t' : Transport} (hinv : AInv r) (hl : LockInv r m) (hn : 0 < n)
    (hs : r.sp.stream ≠ none) (h : r.pollInput (some n) m t = (r', m', t', .ready 0 [])) :
    EofSt r' := by
  have hz : some n ≠ some 0 := by intro hx; cases hx; omega
  by_cases hp : r.sp.parsed = []
  · obtain ⟨-, hpo, hlo⟩ := pollInput_spec hinv hl h
    have hlo := hlo hz hp
    obtain ⟨q, new, st, hq, hd, hfree, hpar, hk, -, hdone⟩ := hlo.last 0 [] rfl
    have hse : st.streamEnd = true := by
      rcases hdone with hx | hx
      · exact hx
      · omega
    have hqs : q.stream ≠ none := by
      have h1 := C18.parse_keeps_stream q new (some n)
      rw [hpar] at h1
      simp only at h1
      rw [← h1, hpo.strm]; exact hs
    obtain ⟨a, b⟩ := parse_streamEnd_held hq hd hfree hqs hpar hse
    exact ⟨a, b, hlo.psome (fun hx => (nomatch hx))⟩
  · rw [pollInput_some_buffered r n m t hn hp] at h
    have hlen : 0 < r.sp.parsed.length := List.length_pos_iff.mpr hp
    injection h with _ h
    injection h with _ h
    injection h with _ h
    injection h with h _
    omega

/-- `poll_input` keeps `WriteableInv`, except that a poll that fails may leave stream data of the final
stream buffered without `writeable` having been set (the parser had delivered it before it hit the
fatal header). -/
theorem pollInput_winv {r : AReq} {dest : Option Nat} {m : MutexSt} {t : Transport} {r' : AReq}
    {m' : MutexSt} {t' : Transport} {res : IRes} (hinv : AInv r) (hl : LockInv r m) (hw : WriteableInv r)
    (h : r.pollInput dest m t = (r', m', t', res)) :
    (r'.sp.stream = none → r'.writeable = true) ∧ ((∀ e, res ≠ .err e) → WriteableInv r') := by
  obtain ⟨-, hpo, hlo⟩ := pollInput_spec hinv hl h
  have h1 : r'.sp.stream = none → r'.writeable = true := fun hx =>
    hpo.wmono (hw.1 (by rw [← hpo.strm]; exact hx))
  refine ⟨h1, fun hne => ⟨h1, fun hp hf => ?_⟩⟩
  rw [hpo.final] at hf
  by_cases hz : dest = some 0
  · subst hz
    rw [pollInput_zero] at h
    cases h
    exact hw.2 hp hf
  by_cases hp0 : r.sp.parsed = []
  · have hlo := hlo hz hp0
    cases res with
    | ready k d => exact hlo.wready k d rfl hf
    | pending => rw [hlo.ppend rfl] at hp; exact absurd hp0 hp
    | err e => exact absurd rfl (hne e)
    | panic s => exact absurd rfl (hpo.nopanic s)
  · exact hpo.wmono (hw.2 hp0 hf)

/-! ## Composing polls -/

theorem applyOps_append (p : Parser) (a b : List Op) :
    applyOps p (a ++ b) = applyOps (applyOps p a) b := by
  simp [applyOps, List.foldl_append]

theorem legalAll_append {p : Parser} {a b : List Op} :
    LegalAll p (a ++ b) ↔ LegalAll p a ∧ LegalAll (applyOps p a) b := by
  induction a generalizing p with
  | nil => simp [LegalAll]
  | cons op t ih => simp only [List.cons_append, LegalAll, applyOps_cons, ih, and_assoc]

theorem fedBytes_append (a b : List Op) : fedBytes (a ++ b) = fedBytes a ++ fedBytes b := by
  induction a with
  | nil => rfl
  | cons op t ih => cases op <;> simp [fedBytes, ih]

theorem sentAll_append (p : Parser) (a b : List Op) :
    sentAll p (a ++ b) = sentAll p a ++ sentAll (applyOps p a) b := by
  induction a generalizing p with
  | nil => simp [sentAll]
  | cons op t ih => simp [sentAll, ih]

theorem dlvAll_append (p : Parser) (a b : List Op) :
    dlvAll p (a ++ b) = dlvAll p a ++ dlvAll (applyOps p a) b := by
  induction a generalizing p with
  | nil => simp [dlvAll]
  | cons op t ih => simp [dlvAll, ih]

theorem flushedReads_append {p : Parser} {a b : List Op} (ha : FlushedReads p a)
    (hb : FlushedReads (applyOps p a) b) : FlushedReads p (a ++ b) := by
  induction a generalizing p with
  | nil => exact hb
  | cons op t ih => exact ⟨ha.1, ih ha.2 hb⟩

theorem Tr.append {p p1 p2 : Parser} {i0 w0 i1 w1 i2 w2 : Bytes} {a b : List Op}
    (h1 : Tr p i0 w0 a p1 i1 w1) (h2 : Tr p1 i1 w1 b p2 i2 w2) : Tr p i0 w0 (a ++ b) p2 i2 w2 := by
  have e := h1.sp
  subst e
  refine ⟨legalAll_append.mpr ⟨h1.legal, h2.legal⟩, by rw [h2.sp, applyOps_append], ?_, ?_, ?_⟩
  · rw [h1.fed, h2.fed, fedBytes_append, List.append_assoc]
  · rw [h2.sent, h1.sent, sentAll_append, List.append_assoc]
  · intro s hm
    rcases List.mem_append.mp hm with hx | hx
    · exact h1.noset s hx
    · exact h2.noset s hx

theorem Led.append {p p1 p2 : Parser} {a b : List Op} {r1 r2 : Bytes} (h1 : Led p a r1 p1)
    (h2 : Led p1 b r2 p2) (hp : p1 = applyOps p a) : Led p (a ++ b) (r1 ++ r2) p2 := by
  subst hp
  unfold Led at *
  rw [dlvAll_append, ← List.append_assoc, h1, List.append_assoc, h2, List.append_assoc]

end Fcgi.Async
