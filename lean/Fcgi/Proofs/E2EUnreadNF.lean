import Fcgi.Proofs.E2ENoFuel
import Fcgi.Proofs.E2EUnread
/-!
# The non-reading Responder (`Proofs/E2EUnread`) without the model-fuel bound (`…N`)

`UOKn` = `UOK` without `hfu`; copies (text transformation, suffix `N`) of the lemmas that take a `UOK`.
-/
namespace Fcgi.E2E
open Fcgi Fcgi.Req Fcgi.Str Fcgi.Async Fcgi.Run Fcgi.Spec

/-- `UOK` without the model-fuel bound -/
structure UOKn (g : Cfg) : Prop where
  wf : WellFormedPreamble g.p g.recs
  role : g.p.role = 1
  pairs : ∀ q ∈ g.p.pairs, (NV.enc q).length ≤ alignedBufsize g.b
  noise : NoiseFits (alignedBufsize g.b) g.recs
  hX : g.X = serAll g.body
  hU : g.U = serAll g.body
  hOt : g.Ot = []
  hrv : g.revs = []
  mode : (g.hscript = [.ret g.st] ∧ g.data = []) ∨ g.hscript = oscript g.data g.st

/-- One poll that starts inside the (write-only) handler. -/
theorem uhandler_coreN {g : Cfg} (ok : UOKn g) {c : Conn} {r : AReq} {h : HState} (hph : c.phase = .handler r h)
    (hout : HOut g.Wc (fun _ _ _ => False) c.env (handlerPoll ((handlerFuel c.env r + scriptOf c)) r h c.env))
    (hb : Ben c.env.tr) (hstop : c.stop = false) (hev : Ev1 g c.env.tr) (hsc : c.scripts = g.more) :
    URes g 4 c := by
  have hstep := C07.handler_step c r h hph
  rcases hhp : handlerPoll ((handlerFuel c.env r + scriptOf c)) r h c.env with ⟨r', h', e', res⟩
  rw [hhp] at hstep hout
  obtain ⟨hts, hsegs, hres⟩ := hout
  simp only at hts hsegs hres
  rcases hres with ⟨rfl, hwk, hans, hst⟩ | ⟨hres, O1, hd⟩
  · have hstep' : stepConn c = .halt ⟨.handler r' h', e', c.scripts, c.stop⟩ .pending := hstep
    rcases hst with hst | ⟨O1, hst⟩
    · exact hst.elim
    · exact Or.inl ⟨⟨.handler r' h', e', c.scripts, c.stop⟩, (Halts.now hstep').mono (by omega),
        ⟨hts.w, hsegs, rfl⟩, .hwrite rfl hst (hb.step hts) hstop (hev.step hts) hsc, hwk, hans⟩
  · have hres' : res = .done (.ok g.st) := hres
    subst hres'
    have halive : (h'.writers.filter Option.isSome).length = 0 := by rw [hd.ws]; rfl
    simp only [halive] at hstep
    have hstep' : stepConn c =
        .next ⟨.closing r' .start g.st 0, e'.ev s!"HE(ok:{showStatus g.st})", c.scripts, c.stop⟩ := hstep
    have hts2 : TStep c.env.tr (e'.tr.ev s!"HE(ok:{showStatus g.st})") :=
      hts.trans (TStep.ev _ (by simp [isHS, toString_str]))
    have hO : O1 ++ r'.sp.output = [] := by have := hd.out; rwa [show g.Wc.Otot = g.Ot from rfl, ok.hOt] at this
    obtain ⟨hO1, hO2⟩ := List.append_eq_nil_iff.1 hO
    have hcore := uclose_start (g := g)
      (c := ⟨.closing r' .start g.st 0, e'.ev s!"HE(ok:{showStatus g.st})", c.scripts, c.stop⟩) rfl hd.fin hO2
      (by show (e'.tr.ev _).wlog = _
          rw [Transport.ev_wlog, hd.log, hO1, List.append_nil]; rfl)
      hd.mtx (hb.step hts2) hstop (hev.step hts2) hsc
    exact (URes.of_steps (Steps.one hstep') ⟨hts2.w, hsegs, rfl⟩ hcore).mono (by omega)

/-- the first poll of the handler -/
theorem ufirst_pollN {g : Cfg} (ok : UOKn g) {c : Conn} {e1 : Bytes}
    (hph : c.phase = .handler (AReq.new (Str.Parser.fromParser g.cap g.p.request e1 g.mc))
      { ops := g.hscript, propagate := true })
    (hlen : e1.length ≤ g.cap) (hwire : e1 ++ c.env.tr.input = g.X) (hlog : c.env.tr.wlog = g.L1)
    (hm : c.env.mutex = none) (hb : Ben c.env.tr) (hstop : c.stop = false) (hev : Ev1 g c.env.tr)
    (hsc : c.scripts = g.more) : URes g 4 c := by
  have hfin : REnd g.N (AReq.new (Str.Parser.fromParser g.cap g.p.request e1 g.mc)) c.env.tr.input := by
    refine ⟨by simp [AReq.new, Str.Parser.fromParser, Preamble.request, ok.role, inputStreams], rfl, rfl, rfl, ?_,
      rfl, rfl, rfl, hlen, Str.SInv_fromParser g.cap g.p.request e1 g.mc hlen (pid_of_wf ok.wf).2⟩
    show e1 ++ c.env.tr.input = g.U
    rw [ok.hU, ← ok.hX]; exact hwire
  have hfuel := handlerFuel_ge c.env (AReq.new (Str.Parser.fromParser g.cap g.p.request e1 g.mc))
  have hcost : g.hscript = oscript g.data g.st → wcost g.data.length ≤ scriptOf c := by
    intro hs
    have hw := wcost_le g.data.length
    rw [scriptOf_handler hph, hs]; simp [scriptCost, oscript, curCost, opCost]; omega
  rcases ok.mode with ⟨hs, hdata⟩ | hs
  · -- `[.ret st]`
    have hstep := C07.handler_step c _ _ hph
    obtain ⟨f, hf⟩ : ∃ f, (handlerFuel c.env (AReq.new (Str.Parser.fromParser g.cap g.p.request e1 g.mc)) + scriptOf c) = f + 1 :=
      ⟨(handlerFuel c.env (AReq.new (Str.Parser.fromParser g.cap g.p.request e1 g.mc)) + scriptOf c) - 1, by omega⟩
    rw [hs, hf, hp_ret] at hstep
    have hstep' : stepConn c = .next ⟨.closing (AReq.new (Str.Parser.fromParser g.cap g.p.request e1 g.mc)) .start g.st 0,
        c.env.ev s!"HE(ok:{showStatus g.st})", c.scripts, c.stop⟩ := hstep
    have hts2 : TStep c.env.tr (c.env.tr.ev s!"HE(ok:{showStatus g.st})") :=
      TStep.ev _ (by simp [isHS, toString_str])
    have hcore := uclose_start (g := g)
      (c := ⟨.closing (AReq.new (Str.Parser.fromParser g.cap g.p.request e1 g.mc)) .start g.st 0,
        c.env.ev s!"HE(ok:{showStatus g.st})", c.scripts, c.stop⟩) rfl hfin rfl
      (by show (c.env.tr.ev _).wlog = _
          rw [Transport.ev_wlog, hlog, hdata, streamRecords_nil, List.append_nil])
      hm (hb.step hts2) hstop (hev.step hts2) hsc
    exact (URes.of_steps (Steps.one hstep') ⟨hts2.w, rfl, rfl⟩ hcore).mono (by omega)
  · refine uhandler_coreN ok hph ?_ hb hstop hev hsc
    rw [hs]
    exact open_phase (W := g.Wc) (O1 := []) hfin hm (by rw [hlog]; exact (List.append_nil _).symm)
      (by show [] ++ [] = g.Ot; rw [ok.hOt]; rfl)
      (by intro s hs'; rw [show g.Wc.revs = g.revs from rfl, ok.hrv] at hs'; cases hs') hb
      (by have := hcost hs; show wcost g.data.length + 4 ≤ _; omega)

theorem unsN {g : Cfg} (ok : UOKn g) : NoStuckW g.cap g.mc g.W := noStuck_of ok.wf g.X g.b g.mc ok.pairs ok.noise

theorem uparse_pollN {g : Cfg} (ok : UOKn g) {c : Conn} {F : Bytes}
    (hst : PSt g.cap g.mc g.W g.L0 [] c F) (hsc : c.scripts = (g.hscript, true) :: g.more)
    (hm : c.env.mutex = none) (hev : hsCount c.env.tr.events = g.hs0) :
    URes g (2 * c.env.tr.input.length + 8) c := by
  obtain ⟨n, c1, F1, hn, hs, hfr, hout⟩ := parse_loop (cap24 g) (unsN ok) _ c F hst (Nat.le_refl _)
  have hnb : n ≤ 2 * c.env.tr.input.length + 2 := by have := wbit_le c; omega
  rcases hout with ⟨c2, h1, h2, h3, h4, h5⟩ | ⟨wrest, t', hph, hf, hw, hstop1, hben1, hrem1, hwa, hlog, hts', hinp'⟩ |
      ⟨hin, hnf, hph, hst1⟩
  · refine Or.inl ⟨c2, ⟨n, c1, by omega, hs, h1⟩, hfr.link.trans h3.link, ?_, h4,
      by have := hfr.ts.ans_le; omega⟩
    have hts := hfr.ts.trans h3.ts
    exact .parse h2 (h3.scripts.trans (hfr.scripts.trans hsc)) (h3.mutex.trans (hfr.mutex.trans hm))
      (hts.hs.trans hev)
  · -- the preamble is complete and its replies are written: the handler starts
    have hsc1 : c1.scripts = (g.hscript, true) :: g.more := hfr.scripts.trans hsc
    have hmx1 : c1.env.mutex = none := hfr.mutex.trans hm
    have hw' : F1 ++ c1.env.tr.input = g.W := by simpa using hw
    have hF1 : F1 <+: serAll g.recs ++ g.X := ⟨c1.env.tr.input, by simpa [Cfg.W] using hw'⟩
    rcases C06.run_wire_state ok.wf g.X hF1 g.mc with ⟨e1, hFe, he1, hrun⟩ | ⟨t, _, _, hnf⟩
    · have hd : (track g.cap g.mc F1).state = .done g.p.request := by simp only [track, hrun]
      obtain ⟨r, hrq, hr, hstep⟩ := C07.done_starts_handler c1 (track g.cap g.mc F1) wrest [] t' g.p.request
        hph hstop1 hwa hd
      rw [hsc1] at hstep
      have hcap : (track g.cap g.mc F1).cap = g.cap := rfl
      have hinput : (track g.cap g.mc F1).input = e1 := by simp only [track, hrun]
      have hmc : (track g.cap g.mc F1).maxConns = g.mc := rfl
      rw [hcap, hinput, hmc] at hr
      subst hr
      have hwire : e1 ++ c1.env.tr.input = g.X := by
        have : F1 ++ c1.env.tr.input = serAll g.recs ++ g.X := by simpa [Cfg.W] using hw'
        rw [hFe, List.append_assoc] at this
        exact List.append_cancel_left this
      have he1len : e1.length ≤ g.cap := by
        have := hrem1; rw [hrun] at this; exact this
      have hL1 : t'.wlog = g.L1 := by rw [hlog, hrun]; rfl
      have hstep' : stepConn c1 = .next
          ⟨.handler (AReq.new (Str.Parser.fromParser g.cap g.p.request e1 g.mc))
              { ops := g.hscript, propagate := true },
            (⟨t', c1.env.mutex, c1.env.segs⟩ : Run.Env).ev (hsEvent g.p.request), g.more, false⟩ := hstep
      have hwsE : WStep c1.env.tr (t'.ev (hsEvent g.p.request)) :=
        hts'.w.trans ⟨List.suffix_refl _, List.suffix_refl _, rfl, rfl, Or.inl rfl, Nat.le_refl _,
          fun s hs => List.mem_append_left _ hs⟩
      have hev1 : Ev1 g (t'.ev (hsEvent g.p.request)) := by
        have h0 : hsCount t'.events = g.hs0 := (hfr.ts.trans hts').hs.trans hev
        constructor
        · show hsCount (t'.events ++ [hsEvent g.p.request]) = g.hs0 + 1
          rw [hsCount_append, h0, hsCount_single_true (isHS_hsEvent _)]
        · show hsEvent g.p.request ∈ t'.events ++ [hsEvent g.p.request]
          simp
      have hben2 : Ben (t'.ev (hsEvent g.p.request)) := hben1.wstep hwsE
      have hcore := ufirst_pollN ok
        (c := ⟨.handler (AReq.new (Str.Parser.fromParser g.cap g.p.request e1 g.mc))
                { ops := g.hscript, propagate := true },
            (⟨t', c1.env.mutex, c1.env.segs⟩ : Run.Env).ev (hsEvent g.p.request), g.more, false⟩) rfl he1len
        (by show e1 ++ t'.input = g.X; rw [hinp']; exact hwire) hL1 hmx1 hben2 rfl hev1 rfl
      have hres := URes.of_steps (hs.trans (Steps.one hstep')) (hfr.link.trans ⟨hwsE, rfl, hstop1.symm ▸ rfl⟩) hcore
      exact hres.mono (by omega)
    · rw [hf] at hnf; cases hnf
  · exfalso
    have hF1 : F1 = g.W := by
      have := hst1.wire
      rwa [hin, List.append_nil, List.append_nil] at this
    rcases C06.run_wire_state ok.wf g.X (F := F1) (by rw [hF1]; exact List.prefix_refl _) g.mc with
      ⟨e1, hFe, he1, hrun⟩ | ⟨t, ht, hFt, _⟩
    · rw [hrun] at hnf; cases hnf
    · rw [hF1, Cfg.W] at hFt
      have := congrArg List.length hFt
      have : 0 < t.length := List.length_pos_iff.mpr ht
      simp only [List.length_append] at *
      omega

/-- **One poll** of the connection task from any stage of the aborted request. -/
theorem ustage_pollN {g : Cfg} (ok : UOKn g) {c : Conn} (hst : UStage g c) :
    URes g (2 * c.env.tr.input.length + 9) c := by
  cases hst with
  | @start raw hph hwire hraw hlog hb hstop hsc hm hev =>
    have hpre : raw <+: g.W := ⟨c.env.tr.input, hwire⟩
    have hstart := start_track (cap24 g) hraw (unsN ok _ hpre)
    have hstep := step_start c _ hph hstop
    rw [hstart] at hstep
    have hstep' : stepConn c = .next (mkC c (.parseReq (track g.cap g.mc raw)
        (.writing (run .header raw g.mc).out (run .header raw g.mc).st.isFinal)) c.env.tr) := hstep
    have hremle : (run .header raw g.mc).rem.length ≤ g.cap := by
      have := (run_ok raw g.mc (st := .header) trivial).2.2.length_le
      omega
    have hst : PSt g.cap g.mc g.W g.L0 [] (mkC c (.parseReq (track g.cap g.mc raw)
        (.writing (run .header raw g.mc).out (run .header raw g.mc).st.isFinal)) c.env.tr) raw :=
      ⟨by show raw ++ c.env.tr.input ++ [] = g.W
          rw [List.append_nil]; exact hwire,
        hstop, hb, hremle, Or.inr ⟨_, rfl, by show c.env.tr.wlog ++ _ = _; rw [hlog], [], rfl⟩⟩
    have := URes.of_steps (Steps.one hstep') (mkC_link c _ (.refl _)) (uparse_pollN ok hst hsc hm hev)
    exact this.mono (by show 1 + (2 * c.env.tr.input.length + 8) ≤ _; omega)
  | parse hst hsc hm hev => exact (uparse_pollN ok hst hsc hm hev).mono (by omega)
  | @hwrite r h O1 hph hw hb hstop hev hsc =>
    refine (uhandler_coreN ok hph (write_phaseN hw hb ?_) hb hstop hev hsc).mono (by omega)
    have h1 := handlerFuel_ge c.env r
    have h2 := wcost_le (restOf h.sub g.Wc.data).length
    have h3 : scriptOf c = (restOf h.sub g.Wc.data).length + 1 + 2 := by
      rw [scriptOf_handler hph]
      obtain ⟨ops, sub, ws, pr⟩ := h
      have := hw.ops
      simp only at this
      subst this
      simp [scriptCost, wscript, curCost_writeAll, opCost]
    omega
  | @closeW r rest' hph hce hm hlog hb hstop hev hsc =>
    refine (uclose_out (r2 := r) (rest := rest') hph ?_ hce hm hlog hb hstop hev hsc).mono (by omega)
    rw [closePoll_late _ _ _ _ _ _ rfl]
  | @close r rest' hph hce hm hlog hb hstop hev hsc =>
    refine (uclose_core (r2 := r) (rest := rest') hph ?_ (.refl _) rfl hce hm hlog hb hstop hev hsc).mono
      (by omega)
    rw [closePoll_late _ _ _ _ _ _ rfl]
    rfl

/-- **The executor** for a Responder request with KEEP_CONN whose handler reads nothing.  `Z`: what
the client will send next (not arrived yet; all that matters is that `g.U ++ Z` never fills the
buffer and is not final before `Z`). -/
theorem run_unreadN' {g : Cfg} (ok : UOKn g) (hk : g.p.flags.toNat % 2 = 1) {Z : Bytes}
    (hns : NoStuckW g.cap g.mc (g.U ++ Z))
    (hNF : ∀ F x, F ++ x ++ Z = g.U ++ Z → (run .header F g.mc).st.isFinal = false)
    (em : EndMode) (evs0 : List String) (c : Conn) (n fuel : Nat) (hst : UStage g c)
    (hem : c.env.tr.endMode = em) (hev0 : ∀ s ∈ evs0, s ∈ c.env.tr.events)
    (hsegs : c.env.segs = []) (hf : ans c.env.tr + 1 ≤ fuel) :
    ∃ c'' fin, runTask fuel c n none = (c'', fin) ∧ UEnd g Z em evs0 (ans c.env.tr) c'' fin := by
  have h24 := cap24 g
  refine run_gen'
    (fun c0 => ((UStage g c0) ∨
      (ZT g.cap g.mc (g.U ++ Z) g.LU Z c0 ∧ PKeep g.more (g.hs0 + 1) [hsEvent g.p.request] c0)) ∧
      c0.env.tr.endMode = em ∧ (∀ s ∈ evs0, s ∈ c0.env.tr.events) ∧ ans c0.env.tr ≤ ans c.env.tr)
    (fun c0 =>
      (∃ c', Halts (4 * c0.env.tr.input.length + 16) c0 c' .pending ∧ Link c0 c' ∧ c'.env.tr.woken = c0.env.tr.woken ∧
        ZT g.cap g.mc (g.U ++ Z) g.LU Z c' ∧ PKeep g.more (g.hs0 + 1) [hsEvent g.p.request] c' ∧
        ZParked g.cap g.mc (g.U ++ Z) g.LU Z c') ∨
      (∃ c', Halts (4 * c0.env.tr.input.length + 16) c0 c' .finished ∧ Link c0 c' ∧
        PKeep g.more (g.hs0 + 1) [hsEvent g.p.request] c' ∧ ZFin g.mc (g.U ++ Z) g.LU Z c'))
    (fun c'' fin => UEnd g Z em evs0 (ans c.env.tr) c'' fin)
    (fun c0 c1 h a b c d e => by
      refine ⟨?_, e.em.trans h.2.1, fun s hs => e.mem (h.2.2.1 s hs), by
        have := h.2.2.2; unfold ans at this ⊢; rw [e.rd, e.wr]; exact this⟩
      rcases h.1 with h1 | ⟨h1, h2⟩
      · exact Or.inl (h1.cong a b c d e)
      · exact Or.inr ⟨h1.cong a c e, h2.same b d e⟩)
    (fun c0 h => ?_)
    (fun c0 n0 f0 hS0 hsg hq _ => ?_)
    (ans c.env.tr) c n fuel ⟨Or.inl hst, hem, hev0, Nat.le_refl _⟩ hsegs (Nat.le_refl _) hf
  · -- one poll
    have keep : ∀ {c' : Conn}, Link c0 c' → c'.env.tr.endMode = em ∧ (∀ s ∈ evs0, s ∈ c'.env.tr.events) ∧
        ans c'.env.tr ≤ ans c.env.tr :=
      fun hl => ⟨hl.ts.em.trans h.2.1, fun s hs => hl.ts.evm s (h.2.2.1 s hs),
        Nat.le_trans hl.ts.ans_le h.2.2.2⟩
    rcases h.1 with h1 | ⟨h1, h2⟩
    · rcases ustage_pollN ok h1 with ⟨c', hh, hl, hS, hw, ha⟩ | ⟨k, c1, hk1, hs, hl, haf⟩ | ⟨c', hh, hl, hf⟩
      · exact Or.inl ⟨c', hh.mono (by omega), hl, ⟨Or.inl hS, keep hl⟩, hw, ha⟩
      · obtain ⟨raw, hph, hw, hraw⟩ := haf.ph
        have hzt : ZT g.cap g.mc (g.U ++ Z) g.LU Z c1 :=
          Or.inr ⟨raw, hph, by rw [hw], hraw, haf.log, haf.ben, haf.stop⟩
        have hkp : PKeep g.more (g.hs0 + 1) [hsEvent g.p.request] c1 :=
          ⟨haf.sc, haf.mtx, haf.ev.1, fun s hs => by rw [List.mem_singleton.1 hs]; exact haf.ev.2⟩
        have hin1 := hl.ts.inp
        rcases ZRes.of_steps hs hl (ztail_poll h24 hns hNF hzt hkp) with ⟨c', hh, hl', hS, hw, ha⟩ | ⟨c', hh, r⟩ |
            ⟨c', hh, r⟩
        · exact Or.inl ⟨c', hh.mono (by omega), hl', ⟨Or.inr hS, keep hl'⟩, hw, ha⟩
        · exact Or.inr (Or.inl ⟨c', hh.mono (by omega), r⟩)
        · exact Or.inr (Or.inr ⟨c', hh.mono (by omega), r⟩)
      · have := hf.nokeep; omega
    · rcases ztail_poll h24 hns hNF h1 h2 with ⟨c', hh, hl', hS, hw, ha⟩ | ⟨c', hh, r⟩ | ⟨c', hh, r⟩
      · exact Or.inl ⟨c', hh.mono (by omega), hl', ⟨Or.inr hS, keep hl'⟩, hw, ha⟩
      · exact Or.inr (Or.inl ⟨c', hh.mono (by omega), r⟩)
      · exact Or.inr (Or.inr ⟨c', hh.mono (by omega), r⟩)
  · -- from the last poll to the end of `runTask`
    obtain ⟨hsame, hph, hsc, hstop, hmx, hsg', hwk⟩ := prePoll_same c0 n0 hsg
    have hN : 4 * (prePoll c0 n0 none).env.tr.input.length + 16 ≤ 6 * (prePoll c0 n0 none).env.tr.input.length + 26 := by omega
    have hans0 : ans (prePoll c0 n0 none).env.tr = ans c0.env.tr := by unfold ans; rw [hsame.rd, hsame.wr]
    have keep : ∀ {c' : Conn}, Link (prePoll c0 n0 none) c' → c'.env.tr.endMode = em ∧
        (∀ s ∈ evs0, s ∈ c'.env.tr.events) ∧ ans c'.env.tr ≤ ans c.env.tr ∧ c'.env.segs = [] :=
      fun hl => ⟨(hl.ts.em.trans hsame.em).trans hS0.2.1, fun s hs => hl.ts.evm s (hsame.mem (hS0.2.2.1 s hs)),
        by have := hl.ts.ans_le; have := hS0.2.2.2; omega, hl.segs.trans hsg'⟩
    rcases hq with ⟨c', hh, hl, hw, hzt, hkp, hpk⟩ | ⟨c', hh, hl, hkp, hfin⟩
    · have hpoll := hh.pollB hN
      have hw' : c'.env.tr.woken = false := hw.trans hwk
      obtain ⟨k1, k2, k3, k4⟩ := keep hl
      rw [runTask_succ, hpoll]
      simp only [hw', Bool.false_eq_true, if_false]
      rw [release_nil _ k4]
      simp only [hw', Bool.false_eq_true, if_false]
      refine ⟨_, "STALL", rfl, ?_⟩
      obtain ⟨F, hF, hps, hph', hlg⟩ := hpk.pst
      exact ⟨hkp.same rfl rfl ⟨rfl, rfl, rfl, rfl, rfl, rfl, [], by simp, Quiet.nil⟩, k1, k2, k3, k4,
        Or.inl ⟨rfl, ⟨F, hF, hps.cong rfl rfl ⟨rfl, rfl, rfl, rfl, rfl, rfl, [], by simp, Quiet.nil⟩, hph', hlg⟩,
          hpk.inp, hpk.em⟩⟩
    · have hpoll := hh.pollB hN
      obtain ⟨k1, k2, k3, k4⟩ := keep hl
      exact ⟨c', "RET", by rw [runTask_succ, hpoll], hkp, k1, k2, k3, k4, Or.inr ⟨rfl, hfin⟩⟩

end Fcgi.E2E
