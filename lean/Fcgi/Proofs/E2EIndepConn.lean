import Fcgi.Proofs.E2EIndep
import Fcgi.Props.C12Inv

/-!
# A run depends only on the scripted WRITE answers it has consumed — `pollConn`, `runTask`

`extC xs c`: the connection `c` with `xs` appended to its transport's write script (`BadHead xs`).
For connections whose handlers propagate errors (`C12Inv.AllProp`):

* `pollConn_dich`, `runTask_dich`: the run on `extC xs c` is the run on `c` with `xs` still appended
  at the end (same phases, results, events, log) — the appended answers were not reached —, or it
  consumed the failing answer: then it ended `finished` / `"RET"`, and its write log is a byte prefix
  of the log of the run on `c`.
-/
namespace Fcgi.Indep
open Fcgi Fcgi.Req Fcgi.Str Fcgi.Async Fcgi.Run Fcgi.C12Inv

def extC (xs : List WrAns) (c : Conn) : Conn := { c with env := extE xs c.env }

def mapStep (xs : List WrAns) : Step → Step
  | .next c => .next (extC xs c)
  | .halt c r => .halt (extC xs c) r

theorem hStop_cases {r : HRes} (h : hStop r = true) : ∃ e, r = .done (.error e) ∧ errStop e = true := by
  cases r with
  | done x =>
    cases x with
    | error e => exact ⟨e, rfl, h⟩
    | ok st => cases h
  | pending => cases h
  | panic s => cases h

theorem cStop_cases {r : CRes} (h : cStop r = true) : ∃ e, r = .err e := by
  cases r with
  | err e => exact ⟨e, rfl⟩
  | pending => cases h
  | reuse rp => cases h
  | panic s => cases h

theorem closePoll_dich {xs : List WrAns} (hx : BadHead xs) {r : AReq} {st : CloseSt} {status : ExitStatus} {alive : Nat}
    {m : MutexSt} {t : Transport} {r' : AReq} {cs' : CloseSt} {m' : MutexSt} {t' : Transport} {res : CRes}
    (h : closePoll r st status alive m t = (r', cs', m', t', res)) :
    closePoll r st status alive m (ext xs t) = (r', cs', m', ext xs t', res) ∨
    (∃ r2 cs2 m2 t2 res2, closePoll r st status alive m (ext xs t) = (r2, cs2, m2, t2, res2) ∧ cStop res2 = true ∧
      t2.wlog <+: t'.wlog) := by
  rw [closePoll_eq] at h ⊢
  -- the tail behind phase 1 on the reference run
  have htail : ∀ r1 m1 t1 st1, closeP1 r st m t = .ok (r1, m1, t1, st1) → TLe t1 t' := by
    intro r1 m1 t1 st1 h1
    rw [h1] at h
    simp only at h
    split at h
    · subst h; exact closeP2_le.2 ‹_›
    · have h2 := closeP2_le.1 ‹closeP2 _ _ _ _ = _›
      split at h
      · subst h; have := closeP3_le.2 ‹closeP3 _ _ _ _ _ _ = _›; subst this; exact h2
      · have := closeP3_le.1 ‹closeP3 _ _ _ _ _ _ = _›; subst this
        exact h2.trans (closeP4_le h)
  rcases closeP1_dich hx r st m t with hs | ⟨r2, cs2, m2, t2, e, h2, he, hpre⟩
  · rw [hs]
    cases h1 : closeP1 r st m t with
    | error x =>
      rw [h1] at h
      simp only [mapX] at h ⊢
      subst h; exact Or.inl rfl
    | ok y =>
      obtain ⟨r1, m1, t1, st1⟩ := y
      rw [h1] at h
      simp only [mapX, mapMid] at h ⊢
      rw [closeP2_ext]
      cases h2 : closeP2 r1 m1 t1 st1 with
      | error x =>
        rw [h2] at h
        simp only [mapX] at h ⊢
        subst h; exact Or.inl rfl
      | ok y =>
        obtain ⟨r2, m2, t2, st2⟩ := y
        rw [h2] at h
        simp only [mapX, mapMid] at h ⊢
        rw [closeP3_ext]
        cases h3 : closeP3 r2 m2 t2 st2 status alive with
        | error x =>
          rw [h3] at h
          simp only [mapX] at h ⊢
          subst h; exact Or.inl rfl
        | ok y =>
          obtain ⟨r3, m3, t3, st3⟩ := y
          rw [h3] at h
          simp only [mapX, mapMid] at h ⊢
          exact closeP4_dich hx h
  · right
    rw [h2]
    refine ⟨r2, cs2, m2, t2, .err e, rfl, rfl, ?_⟩
    cases h1 : closeP1 r st m t with
    | error x =>
      rw [h1] at h hpre
      simp only at h
      subst h; exact hpre
    | ok y =>
      obtain ⟨r1, m1, t1, st1⟩ := y
      rw [h1] at hpre
      exact pre_tle hpre (htail _ _ _ _ h1)

/-! ## One phase transition -/

theorem stepConn_dich {xs : List WrAns} (hx : BadHead xs) (c : Conn) (hp : AllProp c) :
    stepConn (extC xs c) = mapStep xs (stepConn c) ∨
    (∃ c2, stepConn (extC xs c) = .halt c2 .finished ∧ c2.phase = .finished ∧
      c2.env.tr.wlog <+: (stepConn c).conn.env.tr.wlog) := by
  obtain ⟨phase, env, scripts, stop⟩ := c
  obtain ⟨hsc, hph⟩ := hp
  simp only at hsc hph
  cases phase with
  | finished => exact Or.inl rfl
  | parseReq rp sub =>
    cases stop with
    | true => exact Or.inl rfl
    | false =>
      cases sub with
      | start =>
        left
        simp only [stepConn, extC, Bool.false_eq_true, if_false]
        rcases rp.parse [] with ⟨rp', _ | y⟩ <;> rfl
      | reading =>
        left
        simp only [stepConn, extC, extE, Bool.false_eq_true, if_false]
        rw [read_ext]
        rcases env.tr.read rp.free with ⟨t4, rr⟩
        cases rr with
        | pending => rfl
        | ready x =>
          cases x with
          | error e => rfl
          | ok bs =>
            cases bs with
            | nil => rfl
            | cons b bs =>
              simp only
              rcases rp.parse (b :: bs) with ⟨rp', _ | y⟩ <;> rfl
      | writing rest done =>
        simp only [stepConn, extC, extE, Bool.false_eq_true, if_false]
        rcases hw : writeAllLoop (rest.length + 1) rest env.tr with ⟨rest1, t1, o⟩
        rcases writeAllLoop_dich hx _ _ _ hw with hs | ⟨rest2, t2, res2, h2, hst, hpre⟩
        · left
          rw [hs]
          cases o with
          | pending => rfl
          | err e => rfl
          | panic s => rfl
          | ready =>
            simp only
            cases done with
            | false => rfl
            | true =>
              simp only [Bool.not_true, Bool.false_eq_true, if_false]
              cases rp.intoStreamParser with
              | error e => rfl
              | ok sp => cases scripts <;> rfl
        · right
          obtain ⟨e, rfl, he⟩ := oStop_cases hst
          rw [h2]
          refine ⟨_, rfl, rfl, ?_⟩
          show t2.wlog <+: _
          cases o with
          | pending => exact hpre
          | err e => exact hpre
          | panic s => exact hpre
          | ready =>
            simp only
            cases done with
            | false => exact hpre
            | true =>
              simp only [Bool.not_true, Bool.false_eq_true, if_false]
              cases rp.intoStreamParser with
              | error e => exact hpre
              | ok sp => cases scripts <;> exact hpre
  | handler r h =>
    simp only [stepConn, extC, extE, ext_input]
    rcases hh : handlerPoll (1000 + env.tr.input.length * 4 + (env.segs.map (·.2.length)).sum * 4 + r.sp.cap * 4 + scriptCost h)
      r h env with ⟨r1, h1, e1, hres⟩
    rcases handlerPoll_dich hx _ _ _ _ hph hh with hs | ⟨r2, h2, e2, res2, hh2, hst, hpre⟩
    · left
      have hs' : handlerPoll (1000 + env.tr.input.length * 4 + (env.segs.map (·.2.length)).sum * 4 + r.sp.cap * 4 + scriptCost h)
          r h { tr := ext xs env.tr, mutex := env.mutex, segs := env.segs } = (r1, h1, extE xs e1, hres) := hs
      rw [hs']
      cases hres with
      | pending => rfl
      | panic s => rfl
      | done x =>
        cases x with
        | ok st => rfl
        | error x =>
          simp only
          split <;> rfl
    · right
      obtain ⟨x, rfl, he⟩ := hStop_cases hst
      have hh2' : handlerPoll (1000 + env.tr.input.length * 4 + (env.segs.map (·.2.length)).sum * 4 + r.sp.cap * 4 + scriptCost h)
          r h { tr := ext xs env.tr, mutex := env.mutex, segs := env.segs } = (r2, h2, e2, .done (.error x)) := hh2
      rw [hh2']
      have hne : (x == IoErr.abortRequest) = false := by simpa [errStop] using he
      simp only [hne, Bool.false_eq_true, if_false]
      refine ⟨_, rfl, rfl, ?_⟩
      show e2.tr.wlog <+: _
      cases hres with
      | pending => exact hpre
      | panic s => exact hpre
      | done y =>
        cases y with
        | ok st => exact hpre
        | error y =>
          simp only
          split <;> exact hpre
  | closing r cs status alive =>
    simp only [stepConn, extC, extE]
    rcases hc : closePoll r cs status alive env.mutex env.tr with ⟨r1, cs1, m1, t1, cres⟩
    rcases closePoll_dich hx hc with hs | ⟨r2, cs2, m2, t2, res2, h2, hst, hpre⟩
    · left
      rw [hs]
      cases cres <;> rfl
    · right
      obtain ⟨e, rfl⟩ := cStop_cases hst
      rw [h2]
      refine ⟨_, rfl, rfl, ?_⟩
      show t2.wlog <+: _
      cases cres <;> exact hpre

/-! ## One poll, and the executor -/

theorem pollConn_dich {xs : List WrAns} (hx : BadHead xs) : ∀ (fuel : Nat) (c : Conn), AllProp c →
    pollConn fuel (extC xs c) = (extC xs (pollConn fuel c).1, (pollConn fuel c).2) ∨
    (∃ c2, pollConn fuel (extC xs c) = (c2, .finished) ∧ c2.phase = .finished ∧
      c2.env.tr.wlog <+: (pollConn fuel c).1.env.tr.wlog)
  | 0, c, _ => Or.inl rfl
  | fuel + 1, c, hp => by
    rw [pollConn_succ, pollConn_succ]
    have hsw := stepConn_w c hp
    rcases stepConn_dich hx c hp with hs | ⟨c2, h2, hph, hpre⟩
    · rw [hs]
      cases hst : stepConn c with
      | halt c1 r => exact Or.inl rfl
      | next c1 =>
        rw [hst] at hsw
        simp only [mapStep, Step.run]
        exact pollConn_dich hx fuel c1 hsw.2
    · right
      rw [h2]
      refine ⟨c2, rfl, hph, ?_⟩
      cases hst : stepConn c with
      | halt c1 r => rw [hst] at hpre; exact hpre
      | next c1 =>
        rw [hst] at hpre
        simp only [Step.run]
        obtain ⟨w, hw⟩ := (pollConn_cle fuel c1).wl
        rw [hw]
        exact hpre.trans (List.prefix_append _ _)

theorem release_go_ext (xs : List WrAns) : ∀ (fuel : Nat) (e : Env) (any : Bool),
    Env.release.go fuel (extE xs e) any = (extE xs (Env.release.go fuel e any).1, (Env.release.go fuel e any).2) := by
  intro fuel
  induction fuel with
  | zero => intro e any; unfold Env.release.go; rfl
  | succ n ih =>
    intro e any
    obtain ⟨tr, mutex, segs⟩ := e
    cases segs with
    | nil => unfold Env.release.go; rfl
    | cons p rest =>
      obtain ⟨g, bs⟩ := p
      simp only [Env.release.go, extE, ext_wlog]
      by_cases hg : g.open_ tr.wlog = true
      · simp only [hg, if_true]
        exact ih ⟨{ tr with input := tr.input ++ bs }, mutex, rest⟩ true
      · simp only [hg]
        rfl

theorem release_ext (xs : List WrAns) (e : Env) :
    (extE xs e).release = (extE xs e.release.1, e.release.2) := by
  have h := release_go_ext xs (e.segs.length + 1) e false
  unfold Env.release
  simp only [extE] at h ⊢
  simp only [h]
  rfl

theorem prePoll_ext (xs : List WrAns) (c : Conn) (n : Nat) (sa : Option Nat) :
    prePoll (extC xs c) n sa = extC xs (prePoll c n sa) := by
  unfold prePoll
  split
  · simp only [extC, release_ext]; rfl
  · simp only [extC, release_ext]; rfl

/-- what the executor does with the result of a poll -/
def afterPoll (fuel n : Nat) (sa : Option Nat) : Conn × PRes → Conn × String
  | (c, .finished) => (c, "RET")
  | (c, .panic _) => (c, "PANIC")
  | (c, .pending) =>
    if c.env.tr.woken then runTask fuel c (n + 1) sa
    else
      let (env, _) := c.env.release
      if env.tr.woken then runTask fuel { c with env := env } (n + 1) sa
      else
        let c := { c with env := env }
        match sa with
        | some k => if k > n && !c.stop then runTask fuel c k sa else (c, "STALL")
        | none => (c, "STALL")

theorem runTask_succ' (fuel : Nat) (c : Conn) (n : Nat) (sa : Option Nat) :
    runTask (fuel + 1) c n sa = afterPoll fuel n sa (pollConn (connFuel (prePoll c n sa)) (prePoll c n sa)) := by
  rw [runTask_succ]; rfl

/-- the write log of a run only grows -/
theorem runTask_llog (fuel : Nat) (c : Conn) (n : Nat) (sa : Option Nat) (hp : AllProp c) :
    ∃ w, (runTask fuel c n sa).1.env.tr.wlog = c.env.tr.wlog ++ w := by
  rcases runTask_w fuel c n sa hp with ⟨hc, _⟩ | ⟨hf, _⟩
  · obtain ⟨_, _, d, _, _, hd, _⟩ := hc.answers
    exact ⟨d, hd⟩
  · obtain ⟨t1, hc, hl⟩ := hf.wlog
    obtain ⟨_, _, d, _, _, hd, _⟩ := hc.answers
    exact ⟨d, hl.trans hd⟩

theorem release_wlog (e : Env) : e.release.1.tr.wlog = e.tr.wlog := by
  obtain ⟨_, _, d, _, _, hd, _⟩ := (release_clean e).answers
  have := (release_clean e)
  unfold Env.release
  have h := release_go_wside (e.segs.length + 1) e false
  generalize Env.release.go (e.segs.length + 1) e false = x at h
  obtain ⟨e', any⟩ := x
  exact h.2.2

theorem afterPoll_llog (fuel n : Nat) (sa : Option Nat) (c : Conn) (r : PRes) (hp : AllProp c) :
    ∃ w, (afterPoll fuel n sa (c, r)).1.env.tr.wlog = c.env.tr.wlog ++ w := by
  cases r with
  | finished => exact ⟨[], by simp [afterPoll]⟩
  | panic s => exact ⟨[], by simp [afterPoll]⟩
  | pending =>
    simp only [afterPoll]
    split
    · exact runTask_llog _ _ _ _ hp
    · have hrel := release_wlog c.env
      rcases hre : c.env.release with ⟨env, any⟩
      rw [hre] at hrel
      simp only at hrel ⊢
      have hp' : AllProp { c with env := env } := allProp_of_frame rfl rfl hp
      split
      · obtain ⟨w, hw⟩ := runTask_llog fuel { c with env := env } (n + 1) sa hp'
        exact ⟨w, by rw [hw]; show env.tr.wlog ++ w = _; rw [hrel]⟩
      · cases sa with
        | none => exact ⟨[], by simp [hrel]⟩
        | some k =>
          simp only
          split
          · obtain ⟨w, hw⟩ := runTask_llog fuel { c with env := env } k (some k) hp'
            exact ⟨w, by rw [hw]; show env.tr.wlog ++ w = _; rw [hrel]⟩
          · exact ⟨[], by simp [hrel]⟩

theorem runTask_dich {xs : List WrAns} (hx : BadHead xs) : ∀ (fuel : Nat) (c : Conn) (n : Nat) (sa : Option Nat),
    AllProp c →
    runTask fuel (extC xs c) n sa = (extC xs (runTask fuel c n sa).1, (runTask fuel c n sa).2) ∨
    (∃ c2, runTask fuel (extC xs c) n sa = (c2, "RET") ∧ c2.phase = .finished ∧
      c2.env.tr.wlog <+: (runTask fuel c n sa).1.env.tr.wlog)
  | 0, c, n, sa, _ => Or.inl rfl
  | fuel + 1, c, n, sa, hp => by
    rw [runTask_succ', runTask_succ', prePoll_ext,
      show connFuel (extC xs (prePoll c n sa)) = connFuel (prePoll c n sa) from rfl]
    have hp0 : AllProp (prePoll c n sa) :=
      allProp_of_frame (prePoll_frame c n sa).1 (prePoll_frame c n sa).2 hp
    have hp1 := pollConn_allProp (connFuel (prePoll c n sa)) _ hp0
    rcases pollConn_dich hx (connFuel (prePoll c n sa)) _ hp0 with hs | ⟨c2, h2, hph, hpre⟩
    · rw [hs]
      rcases hpc : pollConn (connFuel (prePoll c n sa)) (prePoll c n sa) with ⟨c1, r⟩
      rw [hpc] at hp1
      simp only at hp1 ⊢
      cases r with
      | finished => exact Or.inl rfl
      | panic s => exact Or.inl rfl
      | pending =>
        simp only [afterPoll]
        have hwk : (extC xs c1).env.tr.woken = c1.env.tr.woken := rfl
        rw [hwk]
        split
        · exact runTask_dich hx fuel c1 (n + 1) sa hp1
        · have hrel : (extC xs c1).env.release = (extE xs c1.env.release.1, c1.env.release.2) := release_ext xs c1.env
          rw [hrel]
          rcases c1.env.release with ⟨env, any⟩
          simp only
          have hp' : AllProp { c1 with env := env } := allProp_of_frame rfl rfl hp1
          have hwk2 : (extE xs env).tr.woken = env.tr.woken := rfl
          rw [hwk2]
          split
          · exact runTask_dich hx fuel { c1 with env := env } (n + 1) sa hp'
          · cases sa with
            | none => exact Or.inl rfl
            | some k =>
              simp only
              split
              · rename_i hc
                have hc' : (decide (k > n) && !c1.stop) = true := hc
                rw [if_pos hc']
                exact runTask_dich hx fuel { c1 with env := env } k (some k) hp'
              · rename_i hc
                have hc' : ¬ (decide (k > n) && !c1.stop) = true := hc
                rw [if_neg hc']
                exact Or.inl rfl
    · right
      rw [h2]
      refine ⟨c2, rfl, hph, ?_⟩
      rcases hpc : pollConn (connFuel (prePoll c n sa)) (prePoll c n sa) with ⟨c1, r⟩
      rw [hpc] at hp1 hpre
      obtain ⟨w, hw⟩ := afterPoll_llog fuel n sa c1 r hp1
      rw [hw]
      exact hpre.trans (List.prefix_append _ _)

end Fcgi.Indep
