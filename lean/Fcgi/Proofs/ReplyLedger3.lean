import Fcgi.Proofs.ReplyLedger2
import Fcgi.Props.C05
/-!
# The reply ledger through `close()` and over any number of requests

§1 `hid_holds`: `HID mc` is a theorem (`C05.run_id`).  §2 `Own`: whoever owns the output mutex is a live
writer (or the request) — kept by `handlerPoll`; so when the handler ends with no writer alive the mutex
is free or the request's.  §3 `CSt`: the ledger through `closePoll`.  §4 `K`: the invariant of the whole
connection, for any number of requests.
-/
namespace Fcgi.C08R
open Fcgi Fcgi.Req Fcgi.Str Fcgi.Async Fcgi.Run

/-! ## 1. The id bound -/

theorem hid_holds (mc : Nat) : HID mc := by
  intro F rq h
  have := C05.run_id F mc (st := .header) trivial trivial
  rw [h] at this
  exact this.2

/-! ## 2. The owner of the mutex is alive -/

/-- a writer's id in the mutex means that writer exists -/
def Own (ws : List (Option Writer)) (m : MutexSt) : Prop :=
  ∀ j, m = some (j + 1) → ∃ w, ws[j]? = some (some w)

theorem Own.fr0 {ws : List (Option Writer)} {m m' : MutexSt} (h : Own ws m) (hf : Fr 0 m m') : Own ws m' := by
  intro j hj
  rcases hf with rfl | ⟨_, h2⟩
  · exact h j hj
  · rcases h2 with h2 | h2 <;> rw [h2] at hj <;> cases hj

theorem Own.writer {ws : List (Option Writer)} {m m' : MutexSt} (h : Own ws m) {i : Nat} {w w' : Writer}
    (hw : ws[i]? = some (some w)) (hf : Fr (i + 1) m m') : Own (ws.set i (some w')) m' := by
  have hil : i < ws.length := by
    rcases Nat.lt_or_ge i ws.length with hx | hx
    · exact hx
    · rw [List.getElem?_eq_none hx] at hw; cases hw
  intro j hj
  have hcase : m = some (j + 1) ∨ j = i := by
    rcases hf with rfl | ⟨_, h2⟩
    · exact Or.inl hj
    · rcases h2 with h2 | h2 <;> rw [h2] at hj <;> cases hj
      exact Or.inr rfl
  rw [List.getElem?_set]
  by_cases hij : i = j
  · subst hij; simp [hil]
  · rw [if_neg hij]
    rcases hcase with hm | hm
    · exact h j hm
    · exact absurd hm.symm hij

theorem Own.open_ {ws : List (Option Writer)} {m : MutexSt} (h : Own ws m) (w : Writer) : Own (ws ++ [some w]) m := by
  intro j hj
  obtain ⟨x, hx⟩ := h j hj
  have hjl : j < ws.length := by
    rcases Nat.lt_or_ge j ws.length with hx' | hx'
    · exact hx'
    · rw [List.getElem?_eq_none hx'] at hx; cases hx
  exact ⟨x, by rw [List.getElem?_append_left hjl]; exact hx⟩

theorem Own.dropW {ws : List (Option Writer)} {m : MutexSt} (h : Own ws m) {i : Nat} {w : Writer}
    (hc : Consistent (i + 1) w.lock m) : Own (ws.set i none) (lockDrop w.lock m) := by
  intro j hj
  unfold lockDrop at hj
  cases hl : w.lock with
  | held => rw [hl] at hj; cases hj
  | none =>
    rw [hl] at hj; simp only at hj
    have hne : i ≠ j := fun hij => by
      subst hij
      have := hc.mpr hj; rw [hl] at this; cases this
    obtain ⟨x, hx⟩ := h j hj
    exact ⟨x, by rw [List.getElem?_set, if_neg hne]; exact hx⟩
  | polling =>
    rw [hl] at hj; simp only at hj
    have hne : i ≠ j := fun hij => by
      subst hij
      have := hc.mpr hj; rw [hl] at this; cases this
    obtain ⟨x, hx⟩ := h j hj
    exact ⟨x, by rw [List.getElem?_set, if_neg hne]; exact hx⟩

theorem writeablePoll_fr {r : AReq} {started : Bool} {m : MutexSt} {t : Transport} {r' : AReq} {b : Bool}
    {m' : MutexSt} {t' : Transport} {res : ORes} (hc : Consistent 0 r.lock m)
    (hp : r.writeablePoll started m t = (r', b, m', t', res)) : Fr 0 m m' := by
  have key : ∀ r1 : AReq, Consistent 0 r1.lock m →
      (match r1.pollInput none m t with
        | (r, m, t, .ready _ _) => (r, true, m, t, ORes.ready)
        | (r, m, t, .pending) => (r, true, m, t, .pending)
        | (r, m, t, .err e) => (r, true, m, t, .err e)
        | (r, m, t, .panic s) => (r, true, m, t, .panic s)) = (r', b, m', t', res) → Fr 0 m m' := by
    intro r1 h1 hq
    rcases hpi : r1.pollInput none m t with ⟨r2, m2, t2, x⟩
    have := pollInput_fr h1 hpi
    rw [hpi] at hq
    cases x <;> (simp only at hq; cases hq; exact this)
  unfold AReq.writeablePoll at hp
  by_cases h0 : (!started && r.writeable) = true
  · rw [if_pos h0] at hp; cases hp; exact Fr.refl _ _
  · rw [if_neg h0] at hp
    cases started with
    | true => exact key r hc hp
    | false =>
      simp only [Bool.false_eq_true, if_false] at hp
      cases hs : r.sp.setStream (inputStreams r.sp.request.role).getLast? with
      | ok sp' => simp only [hs] at hp; exact key { r with sp := sp' } hc hp
      | rejected => simp only [hs] at hp; cases hp; exact Fr.refl _ _
      | panic s => simp only [hs] at hp; cases hp; exact Fr.refl _ _

/-- `HI` together with `Own` -/
def HP (sp0 : Str.Parser) (wl0 : Bytes) (script0 : List HOp) (r : AReq) (ws : List (Option Writer))
    (e : Run.Env) : Prop := HI sp0 wl0 script0 r ws e ∧ Own ws e.mutex

variable {sp0 : Str.Parser} {wl0 : Bytes} {script0 : List HOp}

theorem HP.ev {r : AReq} {ws : List (Option Writer)} {e : Run.Env} (h : HP sp0 wl0 script0 r ws e) (s : String) :
    HP sp0 wl0 script0 r ws (e.ev s) := ⟨h.1.ev s, h.2⟩

theorem HP.pollInput {r : AReq} {ws : List (Option Writer)} {e : Run.Env} (h : HP sp0 wl0 script0 r ws e)
    {dest : Option Nat} {r' : AReq} {m' : MutexSt} {t' : Transport} {res : IRes}
    (hp : r.pollInput dest e.mutex e.tr = (r', m', t', res)) :
    HP sp0 wl0 script0 r' ws { e with mutex := m', tr := t' } :=
  ⟨h.1.pollInput hp, h.2.fr0 (pollInput_fr h.1.linv.1 hp)⟩

theorem HP.writeablePoll {r : AReq} {ws : List (Option Writer)} {e : Run.Env} (h : HP sp0 wl0 script0 r ws e)
    (hnp : ¬ Plain script0) {started : Bool} {r' : AReq} {b : Bool} {m' : MutexSt} {t' : Transport} {res : ORes}
    (hp : r.writeablePoll started e.mutex e.tr = (r', b, m', t', res)) :
    HP sp0 wl0 script0 r' ws { e with mutex := m', tr := t' } :=
  ⟨h.1.writeablePoll hnp hp, h.2.fr0 (writeablePoll_fr h.1.linv.1 hp)⟩

theorem HP.writer {r : AReq} {ws : List (Option Writer)} {e : Run.Env} (h : HP sp0 wl0 script0 r ws e)
    {i : Nat} {w w' : Writer} (hw : ws[i]? = some (some w)) {m' : MutexSt} {t' : Transport} {done : Prop}
    (hown : OwnPost (i + 1) e.mutex e.tr w'.lock m' t' done) :
    HP sp0 wl0 script0 r (ws.set i (some w')) { e with mutex := m', tr := t' } :=
  ⟨h.1.writer hw hown, h.2.writer hw hown.2.1⟩

/-- **`Own` (with `HI`) is an invariant of `handlerPoll`.** -/
theorem handlerPoll_hp : ∀ (fuel : Nat) (r : AReq) (h : HState) (e : Run.Env),
    HP sp0 wl0 script0 r h.writers e → h.ops <:+ script0 →
    Own (handlerPoll fuel r h e).2.1.writers (handlerPoll fuel r h e).2.2.1.mutex := by
  intro fuel
  induction fuel with
  | zero => intro r h e hi hs; exact hi.2
  | succ n ih =>
    intro r h e hi hsuf
    rcases hops : h.ops with _ | ⟨op, rest⟩
    · simp only [handlerPoll, hops]; exact hi.2
    · have hsuf' : rest <:+ script0 := by
        rw [hops] at hsuf; exact (List.suffix_cons op rest).trans hsuf
      have hmem : op ∈ script0 := by
        rw [hops] at hsuf; exact hsuf.subset List.mem_cons_self
      have hsufc : (op :: rest) <:+ script0 := by rw [hops] at hsuf; exact hsuf
      have NEXT : ∀ (r1 : AReq) (h1 : HState) (e1 : Run.Env), HP sp0 wl0 script0 r1 h1.writers e1 →
          Own (handlerPoll n r1 { h1 with ops := rest, sub := .fresh } e1).2.1.writers
            (handlerPoll n r1 { h1 with ops := rest, sub := .fresh } e1).2.2.1.mutex :=
        fun r1 h1 e1 h1i => ih r1 _ e1 h1i hsuf'
      have FAIL : ∀ (r1 : AReq) (h1 : HState) (e1 : Run.Env) (err : IoErr), HP sp0 wl0 script0 r1 h1.writers e1 →
          Own (if h1.propagate then
            (r1, { h1 with ops := rest, sub := .fresh }, e1, HRes.done (.error err))
            else handlerPoll n r1 { h1 with ops := rest, sub := .fresh } e1).2.1.writers
            (if h1.propagate then
            (r1, { h1 with ops := rest, sub := .fresh }, e1, HRes.done (.error err))
            else handlerPoll n r1 { h1 with ops := rest, sub := .fresh } e1).2.2.1.mutex := by
        intro r1 h1 e1 err h1i
        split
        · exact h1i.2
        · exact NEXT r1 h1 e1 h1i
      cases op with
      | ret st => simp only [handlerPoll, hops]; exact hi.2
      | retErr err => simp only [handlerPoll, hops]; exact hi.2
      | read k =>
        simp only [handlerPoll, hops]
        rcases hpi : r.pollInput (some k) e.mutex e.tr with ⟨r1, m1, t1, res⟩
        have h1 := hi.pollInput hpi
        cases res with
        | pending => exact h1.2
        | ready a d => exact NEXT _ h _ (h1.ev _)
        | err x => exact FAIL _ h _ _ (h1.ev _)
        | panic s => exact h1.2
      | readAll =>
        simp only [handlerPoll, hops]
        rcases hpi : r.pollInput (some 64) e.mutex e.tr with ⟨r1, m1, t1, res⟩
        have h1 := hi.pollInput hpi
        cases res with
        | pending => exact h1.2
        | ready a d =>
          cases a with
          | zero => exact NEXT _ h _ (h1.ev _)
          | succ a' => exact ih _ _ _ h1 (by first | exact hsuf | exact hsufc)
        | err x => exact FAIL _ h _ _ (h1.ev _)
        | panic s => exact h1.2
      | fill =>
        simp only [handlerPoll, hops]
        rcases hpi : r.pollInput none e.mutex e.tr with ⟨r1, m1, t1, res⟩
        have h1 := hi.pollInput hpi
        cases res with
        | pending => exact h1.2
        | ready a d => exact NEXT _ h _ (h1.ev _)
        | err x => exact FAIL _ h _ _ (h1.ev _)
        | panic s => exact h1.2
      | consume k =>
        simp only [handlerPoll, hops]
        exact NEXT _ h _ ⟨hi.1.consume k, hi.2⟩
      | setStream t =>
        have hnp : ¬ Plain script0 := fun hP => by have := hP _ hmem; cases this
        simp only [handlerPoll, hops]
        cases hs : r.setStream t with
        | none => exact hi.2
        | some r' =>
          obtain ⟨sp', hsp, rfl⟩ := (setStream_some_iff r t r').mp hs
          exact NEXT _ h _ (HP.ev ⟨hi.1.setStream hsp hnp, hi.2⟩ _)
      | writeable =>
        have hnp : ¬ Plain script0 := fun hP => by have := hP _ hmem; cases this
        simp only [handlerPoll, hops]
        rcases hwp : r.writeablePoll (h.sub == .writeableStarted) e.mutex e.tr with ⟨r1, b1, m1, t1, res⟩
        have h1 := hi.writeablePoll hnp hwp
        cases res with
        | pending => exact h1.2
        | ready => exact NEXT _ h _ (h1.ev _)
        | err x => exact FAIL _ h _ _ (h1.ev _)
        | panic s => exact h1.2
      | open_ t =>
        simp only [handlerPoll, hops]
        split
        · exact hi.2
        · exact NEXT _ { h with writers := h.writers ++ [some { rtype := t, id := r.sp.request.id }] } _
            (HP.ev ⟨hi.1.open_ _ rfl, hi.2.open_ _⟩ _)
      | dropW i =>
        simp only [handlerPoll, hops]
        cases hw : h.writers.getD i none with
        | none => exact NEXT _ h _ hi
        | some w =>
          exact NEXT _ { h with writers := h.writers.set i none } _
            ⟨hi.1.dropW (getD_some hw), hi.2.dropW (hi.1.wcons i w (getD_some hw))⟩
      | writeAll i data =>
        simp only [handlerPoll, hops]
        cases hw : h.writers.getD i none with
        | none => exact NEXT _ h _ (hi.ev _)
        | some w =>
          simp only []
          cases hsub : h.sub <;> simp only [] <;>
          (split
           · exact NEXT _ h _ (hi.ev _)
           · rename_i hemp
             rcases hpw : w.pollWrite i _ e.mutex e.tr with ⟨w1, m1, t1, res⟩
             have hown := (pollWrite_own w i _ e.mutex e.tr (hi.1.wcons i w (getD_some hw)) hpw).1
             have h1 := hi.writer (getD_some hw) hown
             cases res with
             | pending => simp only []; exact h1.2
             | ready k =>
               cases k with
               | zero => simp only []; exact FAIL _ { h with writers := h.writers.set i (some w1) } _ _ (h1.ev _)
               | succ k' =>
                 simp only []
                 exact ih _ _ _ h1 (by first | exact hsuf | exact hsufc)
             | err x => simp only []; exact FAIL _ { h with writers := h.writers.set i (some w1) } _ _ (h1.ev _)
             | panic s => simp only []; exact h1.2)
      | flush i =>
        simp only [handlerPoll, hops]
        cases hw : h.writers.getD i none with
        | none => exact NEXT _ h _ (hi.ev _)
        | some w =>
          simp only []
          rcases hpf : w.pollFlush i e.mutex e.tr with ⟨w1, m1, t1, res⟩
          have hown := (pollFlush_own w i e.mutex e.tr (hi.1.wcons i w (getD_some hw)) hpf).1
          have h1 := hi.writer (getD_some hw) hown
          cases res with
          | pending => simp only []; exact h1.2
          | ready k => simp only []; exact NEXT _ { h with writers := h.writers.set i (some w1) } _ (h1.ev _)
          | err x => simp only []; exact FAIL _ { h with writers := h.writers.set i (some w1) } _ _ (h1.ev _)
          | panic s => simp only []; exact h1.2

end Fcgi.C08R
