import Fcgi.Proofs.ReplyLedger2
import Fcgi.Props.C05
/-!
# The reply ledger through `close()` and over any number of requests

§1 `hid_holds`: `HID mc` is a theorem (`C05.run_id`).  §2 `Own`: whoever owns the output mutex is a live
writer (or the request) — kept by `handlerPoll`; so when the handler ends with no writer alive the mutex
is free or the request's.  §3 `CSt`: the ledger through `closePoll`.  §4 `K`: the invariant of the whole
connection, for any number of requests.
-/
namespace Fcgi.C08R
open Fcgi Fcgi.Req Fcgi.Str Fcgi.Async Fcgi.Run

/-! ## 1. The id bound -/

theorem hid_holds (mc : Nat) : HID mc := by
  intro F rq h
  have := C05.run_id F mc (st := .header) trivial trivial
  rw [h] at this
  exact this.2

/-! ## 2. The owner of the mutex is alive -/

/-- a writer's id in the mutex means that writer exists -/
def Own (ws : List (Option Writer)) (m : MutexSt) : Prop :=
  ∀ j, m = some (j + 1) → ∃ w, ws[j]? = some (some w)

theorem Own.fr0 {ws : List (Option Writer)} {m m' : MutexSt} (h : Own ws m) (hf : Fr 0 m m') : Own ws m' := by
  intro j hj
  rcases hf with rfl | ⟨_, h2⟩
  · exact h j hj
  · rcases h2 with h2 | h2 <;> rw [h2] at hj <;> cases hj

theorem Own.writer {ws : List (Option Writer)} {m m' : MutexSt} (h : Own ws m) {i : Nat} {w w' : Writer}
    (hw : ws[i]? = some (some w)) (hf : Fr (i + 1) m m') : Own (ws.set i (some w')) m' := by
  have hil : i < ws.length := by
    rcases Nat.lt_or_ge i ws.length with hx | hx
    · exact hx
    · rw [List.getElem?_eq_none hx] at hw; cases hw
  intro j hj
  have hcase : m = some (j + 1) ∨ j = i := by
    rcases hf with rfl | ⟨_, h2⟩
    · exact Or.inl hj
    · rcases h2 with h2 | h2 <;> rw [h2] at hj <;> cases hj
      exact Or.inr rfl
  rw [List.getElem?_set]
  by_cases hij : i = j
  · subst hij; simp [hil]
  · rw [if_neg hij]
    rcases hcase with hm | hm
    · exact h j hm
    · exact absurd hm.symm hij

theorem Own.open_ {ws : List (Option Writer)} {m : MutexSt} (h : Own ws m) (w : Writer) : Own (ws ++ [some w]) m := by
  intro j hj
  obtain ⟨x, hx⟩ := h j hj
  have hjl : j < ws.length := by
    rcases Nat.lt_or_ge j ws.length with hx' | hx'
    · exact hx'
    · rw [List.getElem?_eq_none hx'] at hx; cases hx
  exact ⟨x, by rw [List.getElem?_append_left hjl]; exact hx⟩

theorem Own.dropW {ws : List (Option Writer)} {m : MutexSt} (h : Own ws m) {i : Nat} {w : Writer}
    (hc : Consistent (i + 1) w.lock m) : Own (ws.set i none) (lockDrop w.lock m) := by
  intro j hj
  unfold lockDrop at hj
  cases hl : w.lock with
  | held => rw [hl] at hj; cases hj
  | none =>
    rw [hl] at hj; simp only at hj
    have hne : i ≠ j := fun hij => by
      subst hij
      have := hc.mpr hj; rw [hl] at this; cases this
    obtain ⟨x, hx⟩ := h j hj
    exact ⟨x, by rw [List.getElem?_set, if_neg hne]; exact hx⟩
  | polling =>
    rw [hl] at hj; simp only at hj
    have hne : i ≠ j := fun hij => by
      subst hij
      have := hc.mpr hj; rw [hl] at this; cases this
    obtain ⟨x, hx⟩ := h j hj
    exact ⟨x, by rw [List.getElem?_set, if_neg hne]; exact hx⟩

theorem writeablePoll_fr {r : AReq} {started : Bool} {m : MutexSt} {t : Transport} {r' : AReq} {b : Bool}
    {m' : MutexSt} {t' : Transport} {res : ORes} (hc : Consistent 0 r.lock m)
    (hp : r.writeablePoll started m t = (r', b, m', t', res)) : Fr 0 m m' := by
  have key : ∀ r1 : AReq, Consistent 0 r1.lock m →
      (match r1.pollInput none m t with
        | (r, m, t, .ready _ _) => (r, true, m, t, ORes.ready)
        | (r, m, t, .pending) => (r, true, m, t, .pending)
        | (r, m, t, .err e) => (r, true, m, t, .err e)
        | (r, m, t, .panic s) => (r, true, m, t, .panic s)) = (r', b, m', t', res) → Fr 0 m m' := by
    intro r1 h1 hq
    rcases hpi : r1.pollInput none m t with ⟨r2, m2, t2, x⟩
    have := pollInput_fr h1 hpi
    rw [hpi] at hq
    cases x <;> (simp only at hq; cases hq; exact this)
  unfold AReq.writeablePoll at hp
  by_cases h0 : (!started && r.writeable) = true
  · rw [if_pos h0] at hp; cases hp; exact Fr.refl _ _
  · rw [if_neg h0] at hp
    cases started with
    | true => exact key r hc hp
    | false =>
      simp only [Bool.false_eq_true, if_false] at hp
      cases hs : r.sp.setStream (inputStreams r.sp.request.role).getLast? with
      | ok sp' => simp only [hs] at hp; exact key { r with sp := sp' } hc hp
      | rejected => simp only [hs] at hp; cases hp; exact Fr.refl _ _
      | panic s => simp only [hs] at hp; cases hp; exact Fr.refl _ _

/-- `HI` together with `Own` -/
def HP (sp0 : Str.Parser) (wl0 : Bytes) (script0 : List HOp) (r : AReq) (ws : List (Option Writer))
    (e : Run.Env) : Prop := HI sp0 wl0 script0 r ws e ∧ Own ws e.mutex

variable {sp0 : Str.Parser} {wl0 : Bytes} {script0 : List HOp}

theorem HP.ev {r : AReq} {ws : List (Option Writer)} {e : Run.Env} (h : HP sp0 wl0 script0 r ws e) (s : String) :
    HP sp0 wl0 script0 r ws (e.ev s) := ⟨h.1.ev s, h.2⟩

theorem HP.pollInput {r : AReq} {ws : List (Option Writer)} {e : Run.Env} (h : HP sp0 wl0 script0 r ws e)
    {dest : Option Nat} {r' : AReq} {m' : MutexSt} {t' : Transport} {res : IRes}
    (hp : r.pollInput dest e.mutex e.tr = (r', m', t', res)) :
    HP sp0 wl0 script0 r' ws { e with mutex := m', tr := t' } :=
  ⟨h.1.pollInput hp, h.2.fr0 (pollInput_fr h.1.linv.1 hp)⟩

theorem HP.writeablePoll {r : AReq} {ws : List (Option Writer)} {e : Run.Env} (h : HP sp0 wl0 script0 r ws e)
    (hnp : ¬ Plain script0) {started : Bool} {r' : AReq} {b : Bool} {m' : MutexSt} {t' : Transport} {res : ORes}
    (hp : r.writeablePoll started e.mutex e.tr = (r', b, m', t', res)) :
    HP sp0 wl0 script0 r' ws { e with mutex := m', tr := t' } :=
  ⟨h.1.writeablePoll hnp hp, h.2.fr0 (writeablePoll_fr h.1.linv.1 hp)⟩

theorem HP.writer {r : AReq} {ws : List (Option Writer)} {e : Run.Env} (h : HP sp0 wl0 script0 r ws e)
    {i : Nat} {w w' : Writer} (hw : ws[i]? = some (some w)) {m' : MutexSt} {t' : Transport} {done : Prop}
    (hown : OwnPost (i + 1) e.mutex e.tr w'.lock m' t' done) :
    HP sp0 wl0 script0 r (ws.set i (some w')) { e with mutex := m', tr := t' } :=
  ⟨h.1.writer hw hown, h.2.writer hw hown.2.1⟩

/-- **`Own` (with `HI`) is an invariant of `handlerPoll`.** -/
theorem handlerPoll_hp : ∀ (fuel : Nat) (r : AReq) (h : HState) (e : Run.Env),
    HP sp0 wl0 script0 r h.writers e → h.ops <:+ script0 →
    Own (handlerPoll fuel r h e).2.1.writers (handlerPoll fuel r h e).2.2.1.mutex := by
  intro fuel
  induction fuel with
  | zero => intro r h e hi hs; exact hi.2
  | succ n ih =>
    intro r h e hi hsuf
    rcases hops : h.ops with _ | ⟨op, rest⟩
    · simp only [handlerPoll, hops]; exact hi.2
    · have hsuf' : rest <:+ script0 := by
        rw [hops] at hsuf; exact (List.suffix_cons op rest).trans hsuf
      have hmem : op ∈ script0 := by
        rw [hops] at hsuf; exact hsuf.subset List.mem_cons_self
      have hsufc : (op :: rest) <:+ script0 := by rw [hops] at hsuf; exact hsuf
      have NEXT : ∀ (r1 : AReq) (h1 : HState) (e1 : Run.Env), HP sp0 wl0 script0 r1 h1.writers e1 →
          Own (handlerPoll n r1 { h1 with ops := rest, sub := .fresh } e1).2.1.writers
            (handlerPoll n r1 { h1 with ops := rest, sub := .fresh } e1).2.2.1.mutex :=
        fun r1 h1 e1 h1i => ih r1 _ e1 h1i hsuf'
      have FAIL : ∀ (r1 : AReq) (h1 : HState) (e1 : Run.Env) (err : IoErr), HP sp0 wl0 script0 r1 h1.writers e1 →
          Own (if h1.propagate then
            (r1, { h1 with ops := rest, sub := .fresh }, e1, HRes.done (.error err))
            else handlerPoll n r1 { h1 with ops := rest, sub := .fresh } e1).2.1.writers
            (if h1.propagate then
            (r1, { h1 with ops := rest, sub := .fresh }, e1, HRes.done (.error err))
            else handlerPoll n r1 { h1 with ops := rest, sub := .fresh } e1).2.2.1.mutex := by
        intro r1 h1 e1 err h1i
        split
        · exact h1i.2
        · exact NEXT r1 h1 e1 h1i
      cases op with
      | ret st => simp only [handlerPoll, hops]; exact hi.2
      | retErr err => simp only [handlerPoll, hops]; exact hi.2
      | read k =>
        simp only [handlerPoll, hops]
        rcases hpi : r.pollInput (some k) e.mutex e.tr with ⟨r1, m1, t1, res⟩
        have h1 := hi.pollInput hpi
        cases res with
        | pending => exact h1.2
        | ready a d => exact NEXT _ h _ (h1.ev _)
        | err x => exact FAIL _ h _ _ (h1.ev _)
        | panic s => exact h1.2
      | readAll =>
        simp only [handlerPoll, hops]
        rcases hpi : r.pollInput (some 64) e.mutex e.tr with ⟨r1, m1, t1, res⟩
        have h1 := hi.pollInput hpi
        cases res with
        | pending => exact h1.2
        | ready a d =>
          cases a with
          | zero => exact NEXT _ h _ (h1.ev _)
          | succ a' => exact ih _ _ _ h1 (by first | exact hsuf | exact hsufc)
        | err x => exact FAIL _ h _ _ (h1.ev _)
        | panic s => exact h1.2
      | fill =>
        simp only [handlerPoll, hops]
        rcases hpi : r.pollInput none e.mutex e.tr with ⟨r1, m1, t1, res⟩
        have h1 := hi.pollInput hpi
        cases res with
        | pending => exact h1.2
        | ready a d => exact NEXT _ h _ (h1.ev _)
        | err x => exact FAIL _ h _ _ (h1.ev _)
        | panic s => exact h1.2
      | consume k =>
        simp only [handlerPoll, hops]
        exact NEXT _ h _ ⟨hi.1.consume k, hi.2⟩
      | setStream t =>
        have hnp : ¬ Plain script0 := fun hP => by have := hP _ hmem; cases this
        simp only [handlerPoll, hops]
        cases hs : r.setStream t with
        | none => exact hi.2
        | some r' =>
          obtain ⟨sp', hsp, rfl⟩ := (setStream_some_iff r t r').mp hs
          exact NEXT _ h _ (HP.ev ⟨hi.1.setStream hsp hnp, hi.2⟩ _)
      | writeable =>
        have hnp : ¬ Plain script0 := fun hP => by have := hP _ hmem; cases this
        simp only [handlerPoll, hops]
        rcases hwp : r.writeablePoll (h.sub == .writeableStarted) e.mutex e.tr with ⟨r1, b1, m1, t1, res⟩
        have h1 := hi.writeablePoll hnp hwp
        cases res with
        | pending => exact h1.2
        | ready => exact NEXT _ h _ (h1.ev _)
        | err x => exact FAIL _ h _ _ (h1.ev _)
        | panic s => exact h1.2
      | open_ t =>
        simp only [handlerPoll, hops]
        split
        · exact hi.2
        · exact NEXT _ { h with writers := h.writers ++ [some { rtype := t, id := r.sp.request.id }] } _
            (HP.ev ⟨hi.1.open_ _ rfl, hi.2.open_ _⟩ _)
      | dropW i =>
        simp only [handlerPoll, hops]
        cases hw : h.writers.getD i none with
        | none => exact NEXT _ h _ hi
        | some w =>
          exact NEXT _ { h with writers := h.writers.set i none } _
            ⟨hi.1.dropW (getD_some hw), hi.2.dropW (hi.1.wcons i w (getD_some hw))⟩
      | writeAll i data =>
        simp only [handlerPoll, hops]
        cases hw : h.writers.getD i none with
        | none => exact NEXT _ h _ (hi.ev _)
        | some w =>
          simp only []
          cases hsub : h.sub <;> simp only [] <;>
          (split
           · exact NEXT _ h _ (hi.ev _)
           · rename_i hemp
             rcases hpw : w.pollWrite i _ e.mutex e.tr with ⟨w1, m1, t1, res⟩
             have hown := (pollWrite_own w i _ e.mutex e.tr (hi.1.wcons i w (getD_some hw)) hpw).1
             have h1 := hi.writer (getD_some hw) hown
             cases res with
             | pending => simp only []; exact h1.2
             | ready k =>
               cases k with
               | zero => simp only []; exact FAIL _ { h with writers := h.writers.set i (some w1) } _ _ (h1.ev _)
               | succ k' =>
                 simp only []
                 exact ih _ _ _ h1 (by first | exact hsuf | exact hsufc)
             | err x => simp only []; exact FAIL _ { h with writers := h.writers.set i (some w1) } _ _ (h1.ev _)
             | panic s => simp only []; exact h1.2)
      | flush i =>
        simp only [handlerPoll, hops]
        cases hw : h.writers.getD i none with
        | none => exact NEXT _ h _ (hi.ev _)
        | some w =>
          simp only []
          rcases hpf : w.pollFlush i e.mutex e.tr with ⟨w1, m1, t1, res⟩
          have hown := (pollFlush_own w i e.mutex e.tr (hi.1.wcons i w (getD_some hw)) hpf).1
          have h1 := hi.writer (getD_some hw) hown
          cases res with
          | pending => simp only []; exact h1.2
          | ready k => simp only []; exact NEXT _ { h with writers := h.writers.set i (some w1) } _ (h1.ev _)
          | err x => simp only []; exact FAIL _ { h with writers := h.writers.set i (some w1) } _ _ (h1.ev _)
          | panic s => simp only []; exact h1.2

/-! ## 3. `close()` -/

theorem sinv_op {sp : Str.Parser} (h : SInv sp) (op : Op) (hl : Legal sp op) :
    SInv (applyOp sp op) ∧ (applyOp sp op).cap = sp.cap :=
  ⟨(trace_safe h (ops := [op]) ⟨hl, trivial⟩).1, (C05.applyOps_frame [op] sp).1⟩

theorem boundaryLoop_sinv : ∀ (fuel : Nat) (sp : Str.Parser) (new : Bytes) (t : Transport)
    {sp' : Str.Parser} {t' : Transport} {res : ORes}, SInv sp → new.length ≤ sp.free →
    boundaryLoop fuel sp new t = (sp', t', res) → SInv sp' ∧ sp'.cap = sp.cap := by
  intro fuel
  induction fuel with
  | zero => intro sp new t sp' t' res hs _ h; simp only [boundaryLoop] at h; cases h; exact ⟨hs, rfl⟩
  | succ n ih =>
    intro sp new t sp' t' res hs hn h
    have hq := sinv_op hs (.parse new none) ⟨Or.inl rfl, hn⟩
    have hcont : ∀ (q : Str.Parser), SInv q → boundaryLoop.cont q t n = (sp', t', res) →
        SInv sp' ∧ sp'.cap = q.cap := by
      intro q hsq hc
      simp only [boundaryLoop.cont] at hc
      split at hc
      · cases hc; exact ⟨hsq, rfl⟩
      · split at hc
        · cases hc; exact ⟨hsq, rfl⟩
        · have hcq := sinv_op hsq .compress trivial
          rcases hrd : t.read q.compress.free with ⟨t1, rr⟩
          rw [hrd] at hc
          obtain ⟨_, hok, _⟩ := tread_spec hrd
          rcases rr with (_ | bs) | _
          · simp only at hc; cases hc; exact hcq
          · cases bs with
            | nil => simp only at hc; cases hc; exact hcq
            | cons x xs =>
              simp only at hc
              obtain ⟨hlen, _, _⟩ := hok (x :: xs) rfl
              obtain ⟨h1, h2⟩ := ih _ _ _ hcq.1 hlen hc
              exact ⟨h1, h2.trans hcq.2⟩
          · simp only at hc; cases hc; exact hcq
    simp only [boundaryLoop] at h
    rcases hpar : sp.parse new none with ⟨q, pr⟩
    rw [hpar] at h
    have hqe : q = applyOp sp (.parse new none) := by simp [applyOp, hpar]
    rw [← hqe] at hq
    cases pr with
    | panic s => simp only at h; cases h; exact hq
    | err e =>
      simp only at h
      split at h
      · obtain ⟨h1, h2⟩ := hcont q hq.1 h; exact ⟨h1, h2.trans hq.2⟩
      · cases h; exact hq
    | ok st =>
      simp only at h
      obtain ⟨h1, h2⟩ := hcont q hq.1 h; exact ⟨h1, h2.trans hq.2⟩

/-- operations that send nothing and leave the log alone extend the ledger -/
theorem GLed.ops0 {sp0 sp sp' : Str.Parser} {ops ops' : List Op} {wl0 wl : Bytes} (h : GLed sp0 ops sp wl0 wl)
    (hsp : sp' = applyOps sp ops') (hs : C03S.sentAll sp ops' = []) : GLed sp0 (ops ++ ops') sp' wl0 wl := by
  obtain ⟨mix, hm, hsub⟩ := h.sent
  refine ⟨by rw [hsp, h.sp_eq, Str.applyOps_append], mix, hm, ?_⟩
  rw [Async.sentAll_append, ← h.sp_eq, hs, List.append_nil]
  exact hsub

/-- flushing the whole reply buffer into the log -/
theorem GLed.flushAll {sp0 sp : Str.Parser} {ops : List Op} {wl0 wl : Bytes} (h : GLed sp0 ops sp wl0 wl) :
    GLed sp0 (ops ++ [.consumeOutput sp.output.length]) (sp.consumeOutput sp.output.length) wl0
      (wl ++ sp.output) := by
  obtain ⟨mix, hm, hsub⟩ := h.sent
  refine ⟨by rw [h.sp_eq, Str.applyOps_append]; rfl, mix ++ sp.output, by rw [hm, List.append_assoc], ?_⟩
  rw [Async.sentAll_append, ← h.sp_eq]
  simp only [C03S.sentAll, C03S.outSent, List.append_nil, List.take_length]
  exact hsub.append (List.Sublist.refl _)

variable {sp0 : Str.Parser} {wl0 : Bytes} {script0 : List HOp}

theorem HI.weaken {r : AReq} {ws : List (Option Writer)} {e : Run.Env} (h : HI sp0 wl0 script0 r ws e)
    {s' : List HOp} (hnp : ¬ Plain s') : HI sp0 wl0 s' r ws e :=
  ⟨h.ainv, h.linv, h.wcons, h.bound, by obtain ⟨ops, hg, _⟩ := h.led; exact ⟨ops, hg, fun hP => absurd hP hnp⟩⟩

/-- `record_boundary()` (one poll) keeps `HI` -/
theorem HI.boundary {r : AReq} {ws : List (Option Writer)} {e : Run.Env} (h : HI sp0 wl0 script0 r ws e)
    (hnp : ¬ Plain script0) {resume : Bool} {sp' : Str.Parser} {t' : Transport} {res : ORes}
    (hb : closeBoundary r.sp resume e.tr = (sp', t', res)) :
    HI sp0 wl0 script0 { r with sp := sp' } ws { e with tr := t' } := by
  -- the loop from a parser `q` with `HI`
  have loop : ∀ (q : Str.Parser) (t0 : Transport) (new : Bytes) (fuel : Nat),
      HI sp0 wl0 script0 { r with sp := q } ws { e with tr := t0 } → new.length ≤ q.free →
      boundaryLoop fuel q new t0 = (sp', t', res) →
      HI sp0 wl0 script0 { r with sp := sp' } ws { e with tr := t' } := by
    intro q t0 new fuel hq hn hl
    obtain ⟨ops', h1, h2, h3, h4, _⟩ := boundaryLoop_ops fuel q new t0 hl
    obtain ⟨hs1, hs2⟩ := boundaryLoop_sinv fuel q new t0 hq.ainv.1 hn hl
    obtain ⟨ops, hg, _⟩ := hq.led
    refine ⟨⟨hs1, by show 24 ≤ sp'.cap; rw [hs2]; exact hq.ainv.2⟩,
      lockInv_sp hq.linv (fun hx => by
        have : q.output ++ C03S.grownAll q ops' = [] := by rw [← h4]; exact hx
        exact (List.append_eq_nil_iff.1 this).1),
      hq.wcons, hq.bound, ops ++ ops', ?_, fun hP => absurd hP hnp⟩
    show GLed sp0 (ops ++ ops') sp' wl0 t'.wlog
    rw [h3]
    exact hg.ops0 h1 h2
  have same : ∀ (t0 : Transport), t0.wlog = e.tr.wlog → HI sp0 wl0 script0 r ws { e with tr := t0 } :=
    fun t0 hw => h.congr rfl hw
  unfold closeBoundary at hb
  split at hb
  · rcases hrd : e.tr.read r.sp.free with ⟨t1, rr⟩
    rw [hrd] at hb
    obtain ⟨hwl, hok, _⟩ := tread_spec hrd
    rcases rr with (_ | bs) | _
    · simp only at hb; cases hb; exact same _ hwl
    · cases bs with
      | nil => simp only at hb; cases hb; exact same _ hwl
      | cons x xs =>
        simp only at hb
        obtain ⟨hlen, _, _⟩ := hok (x :: xs) rfl
        exact loop r.sp t1 (x :: xs) _ (same _ hwl) hlen hb
    · simp only at hb; cases hb; exact same _ hwl
  · split at hb
    · cases hb; exact h
    · exact loop r.sp e.tr [] _ h (Nat.zero_le _) hb

/-- the ledger inside `close()`; `wl1` = the log when the handler was started -/
def CSt (sp0 : Str.Parser) (wl1 : Bytes) (st : ExitStatus) (al : Nat) (r : AReq) (cs : CloseSt) (e : Run.Env) : Prop :=
  match cs with
  | .writeOut rest endreq =>
    ∃ ops wlB, AInv r ∧ GLed sp0 ops r.sp wl1 wlB ∧ e.tr.wlog ++ rest = wlB ++ r.sp.output ∧
      endreq = epilogueOf r st ∧ r.sp.isRecordBoundary = true ∧ e.mutex = none
  | .writeEnd rest =>
    ∃ ops wlE, AInv r ∧ GLed sp0 ops r.sp wl1 wlE ∧ r.sp.output = [] ∧ r.sp.isRecordBoundary = true ∧
      e.tr.wlog ++ rest = wlE ++ epilogueOf r st ∧ e.mutex = none
  | _ => ∃ ws, HI sp0 wl1 [.writeable] r ws e ∧ (al = 0 → ws = [])

/-- what holds when `close()` hands the parser back -/
def Reused (sp0 : Str.Parser) (wl1 : Bytes) (st : ExitStatus) (r' : AReq) (rp : Req.Parser) (e' : Run.Env) : Prop :=
  ∃ ops mix, r'.sp = applyOps sp0 ops ∧ List.Sublist (C03S.sentAll sp0 ops) mix ∧ r'.sp.output = [] ∧
    e'.tr.wlog = wl1 ++ mix ++ epilogueOf r' st ∧ e'.mutex = none ∧
    PInv rp ∧ rp.state = .header ∧ rp.maxConns = r'.sp.maxConns ∧ rp.input = r'.sp.raw

/-- what one poll of `close()` leaves -/
def CPost (sp0 : Str.Parser) (wl1 : Bytes) (st : ExitStatus) (al : Nat) (out : CloseOut) : Prop :=
  (out.2.2.2.2 = .pending → CSt sp0 wl1 st al out.1 out.2.1 { tr := out.2.2.2.1, mutex := out.2.2.1, segs := [] }) ∧
  (∀ rp, out.2.2.2.2 = .reuse rp →
    Reused sp0 wl1 st out.1 rp { tr := out.2.2.2.1, mutex := out.2.2.1, segs := [] })

theorem notPlainW : ¬ Plain [HOp.writeable] := fun h => by have := h _ List.mem_cons_self; cases this

theorem finishEnd_cst {sp0 : Str.Parser} {wl1 : Bytes} {st : ExitStatus} {al : Nat} {r : AReq} {rest : Bytes}
    {t : Transport} {ops : List Op} {wlE : Bytes} (ha : AInv r) (hg : GLed sp0 ops r.sp wl1 wlE)
    (ho : r.sp.output = []) (hb : r.sp.isRecordBoundary = true) (hw : t.wlog ++ rest = wlE ++ epilogueOf r st) :
    CPost sp0 wl1 st al (closePoll.finishEnd r rest none t) := by
  rcases hfe : closePoll.finishEnd r rest none t with ⟨r', cs', m', t', res⟩
  obtain ⟨rfl, rfl, done, rest', rfl, hd, hwl, _, hres⟩ := finishEnd_spec hfe
  have hlog : t'.wlog ++ rest' = wlE ++ epilogueOf r' st := by rw [hwl, List.append_assoc, ← hd]; exact hw
  refine ⟨fun _ => ⟨ops, wlE, ha, hg, ho, hb, hlog, rfl⟩, fun rp hrp => ?_⟩
  simp only at hrp
  rcases hres with ⟨hr0, hdec⟩ | ⟨hp, _⟩ | hf
  · subst hr0
    rw [hrp, closeDecision_of_inv hb ho] at hdec
    split at hdec
    · cases hdec
      have hirp := (C05.into_request_parser_cases r'.sp).2.2 hb ho
      obtain ⟨i1, _, i3, i4, i5, _, _⟩ := C05.into_request_parser ha.1 ha.2 hirp
      obtain ⟨mix, hm, hsub⟩ := hg.sent
      refine ⟨ops, mix, hg.sp_eq, hsub, ho, ?_, rfl, i5, i4, i3, i1⟩
      show t'.wlog = _
      rw [List.append_nil] at hlog
      rw [hlog, hm]
    · cases hdec
  · rw [hrp] at hp; cases hp
  · rcases hf with ⟨e, _, hf⟩ | hf <;> rw [hrp] at hf <;> cases hf

theorem closeP4_cst {sp0 : Str.Parser} {wl1 : Bytes} {st : ExitStatus} {al : Nat} {r : AReq} {cs : CloseSt}
    {e : Run.Env} (hl : cs.late = true) (h : CSt sp0 wl1 st al r cs e) :
    CPost sp0 wl1 st al (closeP4 r e.mutex e.tr cs) := by
  cases cs with
  | start => cases hl
  | inWriteable => cases hl
  | inBoundary => cases hl
  | writeEnd rest =>
    obtain ⟨ops, wlE, ha, hg, ho, hb, hw, hm⟩ := h
    simp only [closeP4, hm]
    exact finishEnd_cst ha hg ho hb hw
  | writeOut rest endreq =>
    obtain ⟨ops, wlB, ha, hg, hw, he, hb, hm⟩ := h
    simp only [closeP4, hm]
    rcases hwa : writeAllLoop (rest.length + 1) rest e.tr with ⟨rest', t1, ores⟩
    obtain ⟨⟨dn, hdn, hwl⟩, _, hready, _⟩ := writeAllLoop_spec _ _ _ hwa
    cases ores with
    | pending =>
      refine ⟨fun _ => ⟨ops, wlB, ha, hg, ?_, he, hb, rfl⟩, fun rp hrp => by cases hrp⟩
      show t1.wlog ++ rest' = _
      rw [hwl, List.append_assoc, ← hdn]; exact hw
    | err x => exact ⟨(fun hx => by cases hx), (fun rp hrp => by cases hrp)⟩
    | panic x => exact ⟨(fun hx => by cases hx), (fun rp hrp => by cases hrp)⟩
    | ready =>
      have hr0 := hready rfl
      subst hr0
      rw [List.append_nil] at hdn
      simp only []
      have hso := sinv_op ha.1 (.consumeOutput r.sp.output.length) trivial
      refine finishEnd_cst (r := { r with sp := r.sp.consumeOutput r.sp.output.length })
        ⟨hso.1, by show 24 ≤ (applyOp r.sp (.consumeOutput r.sp.output.length)).cap; rw [hso.2]; exact ha.2⟩ hg.flushAll
        (by show r.sp.output.drop r.sp.output.length = []; simp) hb ?_
      rw [he, hwl, ← hdn, hw]
      rfl

/-- the invariant of the early states of `close()` -/
def HIe (sp0 : Str.Parser) (wl1 : Bytes) (al : Nat) (r : AReq) (e : Run.Env) : Prop :=
  ∃ ws, HI sp0 wl1 [.writeable] r ws e ∧ (al = 0 → ws = [])

theorem CPost.noreuse {sp0 : Str.Parser} {wl1 : Bytes} {st : ExitStatus} {al : Nat} {out : CloseOut}
    (hp : out.2.2.2.2 = .pending → CSt sp0 wl1 st al out.1 out.2.1 { tr := out.2.2.2.1, mutex := out.2.2.1, segs := [] })
    (hn : ∀ rp, out.2.2.2.2 ≠ .reuse rp) : CPost sp0 wl1 st al out :=
  ⟨hp, fun rp h => absurd h (hn rp)⟩

/-- phases 3 and 4 from a request at a record boundary -/
theorem closeFrom3_cst {sp0 : Str.Parser} {wl1 : Bytes} {st : ExitStatus} {al : Nat} {r2 : AReq} {e2 : Run.Env}
    (h : HIe sp0 wl1 al r2 e2) (hb : r2.sp.isRecordBoundary = true) :
    CPost sp0 wl1 st al (closeFrom3 r2 e2.mutex e2.tr st al) := by
  by_cases ha : 0 < al
  · rw [closeFrom3_alive _ _ _ _ _ ha]
    exact CPost.noreuse (fun hx => by cases hx) (fun rp hx => by cases hx)
  · have ha0 : al = 0 := by omega
    subst ha0
    obtain ⟨ws, hi, hws⟩ := h
    have hws0 := hws rfl
    subst hws0
    have hmx : lockDrop r2.lock e2.mutex = none := by
      unfold lockDrop
      cases hl : r2.lock with
      | held => rfl
      | none =>
        simp only
        cases hm : e2.mutex with
        | none => rfl
        | some k =>
          cases k with
          | zero => have := hi.linv.1.mpr hm; rw [hl] at this; cases this
          | succ j => have := hi.bound j hm; simp at this
      | polling =>
        simp only
        cases hm : e2.mutex with
        | none => rfl
        | some k =>
          cases k with
          | zero => have := hi.linv.1.mpr hm; rw [hl] at this; cases this
          | succ j => have := hi.bound j hm; simp at this
    unfold closeFrom3
    rw [closeP3_start, if_neg (by omega)]
    simp only [hmx]
    obtain ⟨ops, hg, _⟩ := hi.led
    exact closeP4_cst (r := { r2 with lock := .none }) (cs := .writeOut r2.sp.output (epilogueOf r2 st))
      (e := { tr := e2.tr, mutex := none, segs := [] }) rfl
      ⟨ops, e2.tr.wlog, hi.ainv, hg, rfl, rfl, hb, rfl⟩

/-- phase 2 onwards, from the early invariant -/
theorem closeFrom2_cst {sp0 : Str.Parser} {wl1 : Bytes} {st : ExitStatus} {al : Nat} {r1 : AReq} {e1 : Run.Env}
    (h : HIe sp0 wl1 al r1 e1) {st1 : CloseSt} (hst : st1 = .start ∨ st1 = .inBoundary) :
    CPost sp0 wl1 st al (closeFrom2 r1 e1.mutex e1.tr st1 st al) := by
  obtain ⟨ws, hi, hws⟩ := h
  -- the tail after `record_boundary()`
  have tail : ∀ (q : Str.Parser) (resume : Bool), HI sp0 wl1 [.writeable] { r1 with sp := q } ws e1 →
      CPost sp0 wl1 st al
        (match closeP2Tail r1 e1.mutex (closeBoundary q resume e1.tr) with
          | .error x => x
          | .ok (r, m, t, s) =>
            match closeP3 r m t s st al with
            | .error x => x
            | .ok (r, m, t, s) => closeP4 r m t s) := by
    intro q resume hq
    rcases hcb : closeBoundary q resume e1.tr with ⟨sp', t', res⟩
    have hb := HI.boundary (r := { r1 with sp := q }) hq notPlainW hcb
    have hrb := (closeBoundary_spec hcb).2.2.2
    cases res with
    | ready =>
      simp only [closeP2Tail]
      have := closeFrom3_cst (st := st) (r2 := { r1 with sp := sp' }) (e2 := { e1 with tr := t' })
        ⟨ws, hb, hws⟩ (hrb rfl)
      unfold closeFrom3 at this
      exact this
    | pending =>
      simp only [closeP2Tail]
      exact CPost.noreuse (fun _ => ⟨ws, hb.congr rfl rfl, hws⟩) (fun rp hx => by cases hx)
    | err x => simp only [closeP2Tail]; exact CPost.noreuse (fun hx => by cases hx) (fun rp hx => by cases hx)
    | panic x => simp only [closeP2Tail]; exact CPost.noreuse (fun hx => by cases hx) (fun rp hx => by cases hx)
  unfold closeFrom2
  rcases hst with rfl | rfl
  · rw [closeP2_start]
    have hs : r1.sp.setStream none = .ok (spIgnore r1.sp) := by rw [setStream_none]; rfl
    exact tail _ false (hi.setStream hs notPlainW)
  · rw [closeP2_inBoundary]
    exact tail _ true hi

/-- **One poll of `close()` keeps the ledger**, and when it hands the parser back, `Reused` holds. -/
theorem closePoll_cst {sp0 : Str.Parser} {wl1 : Bytes} {st : ExitStatus} {al : Nat} {r : AReq} {cs : CloseSt}
    {e : Run.Env} (h : CSt sp0 wl1 st al r cs e) :
    CPost sp0 wl1 st al (closePoll r cs st al e.mutex e.tr) := by
  by_cases hl : cs.late = true
  · rw [closePoll_late _ _ _ _ _ _ hl]; exact closeP4_cst hl h
  · rw [closePoll_eq']
    have hwp : ∀ (started : Bool), (cs = .start ∨ cs = .inWriteable) → HIe sp0 wl1 al r e →
        CPost sp0 wl1 st al
          (match (match r.writeablePoll started e.mutex e.tr with
              | (r, _, m, t, .ready) => Except.ok (r, m, t, CloseSt.start)
              | (r, _, m, t, .pending) => .error (r, .inWriteable, m, t, .pending)
              | (r, _, m, t, .err e) => if e == .abortRequest then .ok (r, m, t, .start) else .error (r, .inWriteable, m, t, .err e)
              | (r, _, m, t, .panic s) => .error (r, .inWriteable, m, t, .panic s) : Except CloseOut CloseMid) with
            | .error x => x
            | .ok (r, m, t, s) => closeFrom2 r m t s st al) := by
      intro started _ hh
      obtain ⟨ws, hi, hws⟩ := hh
      rcases hw : r.writeablePoll started e.mutex e.tr with ⟨r1, b1, m1, t1, res⟩
      have h1 := hi.writeablePoll notPlainW hw
      cases res with
      | ready =>
        simp only []
        exact closeFrom2_cst (e1 := { e with mutex := m1, tr := t1 }) ⟨ws, h1, hws⟩ (Or.inl rfl)
      | pending =>
        simp only []
        exact CPost.noreuse (fun _ => ⟨ws, h1.congr rfl rfl, hws⟩) (fun rp hx => by cases hx)
      | err x =>
        by_cases hx : (x == IoErr.abortRequest) = true
        · simp only [hx, if_true]
          exact closeFrom2_cst (e1 := { e with mutex := m1, tr := t1 }) ⟨ws, h1, hws⟩ (Or.inl rfl)
        · simp only [hx]
          exact CPost.noreuse (fun hx => by cases hx) (fun rp hx => by cases hx)
      | panic x => simp only []; exact CPost.noreuse (fun hx => by cases hx) (fun rp hx => by cases hx)
    cases cs with
    | start => simp only [closeP1]; exact hwp _ (Or.inl rfl) h
    | inWriteable => simp only [closeP1]; exact hwp _ (Or.inr rfl) h
    | inBoundary => simp only [closeP1]; exact closeFrom2_cst h (Or.inr rfl)
    | writeOut a b => exact absurd rfl hl
    | writeEnd a => exact absurd rfl hl

/-! ## 4. The whole connection, any number of requests -/

theorem CSt.congr {sp0 : Str.Parser} {wl1 : Bytes} {st : ExitStatus} {al : Nat} {r : AReq} {cs : CloseSt}
    {e e' : Run.Env} (h : CSt sp0 wl1 st al r cs e) (hm : e'.mutex = e.mutex) (hl : e'.tr.wlog = e.tr.wlog) :
    CSt sp0 wl1 st al r cs e' := by
  cases cs with
  | writeOut rest endreq =>
    obtain ⟨ops, wlB, a, b, c, d, f, g⟩ := h
    exact ⟨ops, wlB, a, b, by rw [hl]; exact c, d, f, by rw [hm]; exact g⟩
  | writeEnd rest =>
    obtain ⟨ops, wlE, a, b, c, d, f, g⟩ := h
    exact ⟨ops, wlE, a, b, c, d, by rw [hl]; exact f, by rw [hm]; exact g⟩
  | start => obtain ⟨ws, a, b⟩ := h; exact ⟨ws, a.congr hm hl, b⟩
  | inWriteable => obtain ⟨ws, a, b⟩ := h; exact ⟨ws, a.congr hm hl, b⟩
  | inBoundary => obtain ⟨ws, a, b⟩ := h; exact ⟨ws, a.congr hm hl, b⟩

/-- what the request parser had done when it handed over: consumed `F`, completed request `rq` -/
def HInfo (mc : Nat) (rp : Req.Parser) (rq : Request) (F : Bytes) : Prop :=
  PInv rp ∧ rp.maxConns = mc ∧ rp.state = .done rq ∧ rp.state = (run .header F mc).st ∧
    rp.input = (run .header F mc).rem

/-- one served request's share of the log: the request parser's replies for the bytes `F` it consumed,
then `mix` — the handler's own records with ALL replies the stream parser generated over its whole
history `ops` as a sublist, in order —, then the epilogue -/
def Seg (mc : Nat) (F mix epi : Bytes) : Prop :=
  ∃ (rp : Req.Parser) (rq : Request) (ops : List Op) (r' : AReq) (st : ExitStatus),
    HInfo mc rp rq F ∧ r'.sp = applyOps (Str.Parser.fromParser rp.cap rq rp.input mc) ops ∧
    List.Sublist (C03S.grownAll (Str.Parser.fromParser rp.cap rq rp.input mc) ops) mix ∧
    epi = epilogueOf r' st

/-- the log after any number of completely served requests -/
inductive Served (mc : Nat) (wl : Bytes) : Bytes → Prop
  | nil : Served mc wl wl
  | snoc {L : Bytes} (F mix epi : Bytes) : Served mc wl L → Seg mc F mix epi →
      Served mc wl (L ++ (C04H.reqRef mc F).out ++ mix ++ epi)

/-- **The ledger of the connection**, whatever phase it is in, after any number of requests. -/
def K (mc : Nat) (wl : Bytes) (c : Conn) : Prop :=
  match c.phase with
  | .parseReq _ _ => ∃ L0 raw0 D, Served mc wl L0 ∧ PRLed mc L0 raw0 D c ∧ c.env.mutex = none
  | .handler r h => ∃ L0 F rp rq script0, Served mc wl L0 ∧ HInfo mc rp rq F ∧
      HP (Str.Parser.fromParser rp.cap rq rp.input mc) (L0 ++ (run .header F mc).out) script0 r h.writers c.env ∧
      h.ops <:+ script0
  | .closing r cs st al => ∃ L0 F rp rq, Served mc wl L0 ∧ HInfo mc rp rq F ∧
      CSt (Str.Parser.fromParser rp.cap rq rp.input mc) (L0 ++ (run .header F mc).out) st al r cs c.env
  | .finished => True

theorem K.congr {mc : Nat} {wl : Bytes} {c c' : Conn} (h : K mc wl c) (hp : c'.phase = c.phase)
    (hl : c'.env.tr.wlog = c.env.tr.wlog) (hm : c'.env.mutex = c.env.mutex) : K mc wl c' := by
  unfold K at h ⊢
  rw [hp]
  cases hph : c.phase with
  | finished => trivial
  | parseReq rp sub =>
    rw [hph] at h
    obtain ⟨L0, raw0, D, a, b, d⟩ := h
    refine ⟨L0, raw0, D, a, ?_, by rw [hm]; exact d⟩
    unfold PRLed at b ⊢
    rw [hp, hl]; exact b
  | handler r hh =>
    rw [hph] at h
    obtain ⟨L0, F, rp, rq, script0, a, b, d, f⟩ := h
    exact ⟨L0, F, rp, rq, script0, a, b, ⟨d.1.congr hm hl, by rw [hm]; exact d.2⟩, f⟩
  | closing r cs st al =>
    rw [hph] at h
    obtain ⟨L0, F, rp, rq, a, b, d⟩ := h
    exact ⟨L0, F, rp, rq, a, b, d.congr hm hl⟩

theorem filter_none {ws : List (Option Writer)} (h : (ws.filter Option.isSome).length = 0) (j : Nat) (w : Writer) :
    ws[j]? ≠ some (some w) := by
  intro hj
  have hmem : some w ∈ ws := List.mem_of_getElem? hj
  have : some w ∈ ws.filter Option.isSome := List.mem_filter.2 ⟨hmem, rfl⟩
  rw [List.eq_nil_of_length_eq_zero h] at this
  cases this

/-- the handler returned: `close()` starts with the early invariant -/
theorem hie_of_hp {sp0 : Str.Parser} {wl1 : Bytes} {script0 : List HOp} {r : AReq} {ws : List (Option Writer)}
    {e : Run.Env} (h : HP sp0 wl1 script0 r ws e) (s : String) :
    HIe sp0 wl1 (ws.filter Option.isSome).length r (e.ev s) := by
  by_cases ha : (ws.filter Option.isSome).length = 0
  · refine ⟨[], ⟨h.1.ainv, h.1.linv, (fun i w hw => by cases hw), fun j hj => ?_, ?_⟩, fun _ => rfl⟩
    · obtain ⟨w, hw⟩ := h.2 j hj
      exact absurd hw (filter_none ha j w)
    · obtain ⟨ops, hg, _⟩ := h.1.led
      exact ⟨ops, hg, fun hP => absurd hP notPlainW⟩
  · exact ⟨ws, (h.1.weaken notPlainW).ev s, fun h0 => absurd h0 ha⟩

theorem k_step {mc : Nat} {wl : Bytes} {c : Conn} (h : K mc wl c)
    (hnp : ∀ c1 s, stepConn c ≠ .halt c1 (.panic s)) : K mc wl (stepConn c).conn := by
  cases hph : c.phase with
  | finished => rw [step_finished c hph]; exact h
  | parseReq rp sub =>
    unfold K at h
    rw [hph] at h
    obtain ⟨L0, raw0, D, hsv, hl, hmx⟩ := h
    have hmx' : (stepConn c).conn.env.mutex = none := by
      rw [step_mutex_parse c (Or.inl (by rw [hph]; rfl))]; exact hmx
    rcases prled_step hl with hh | hf | ⟨bs, hl', _, _⟩
    · -- into the handler
      cases hst : stepConn c with
      | halt c1 res =>
        rw [hst] at hh
        cases hp1 : c1.phase with
        | handler r' h' =>
          obtain ⟨r, hh0, hp0⟩ := halt_handler_from_handler hst hp1
          rw [hph] at hp0; cases hp0
        | finished => simp [Step.conn, hp1, Phase.isHandler] at hh
        | parseReq a b => simp [Step.conn, hp1, Phase.isHandler] at hh
        | closing a b d f => simp [Step.conn, hp1, Phase.isHandler] at hh
      | next c1 =>
        rw [hst] at hh hmx'
        simp only [Step.conn] at hh hmx' ⊢
        cases hp1 : c1.phase with
        | finished => simp [hp1, Phase.isHandler] at hh
        | parseReq a b => simp [hp1, Phase.isHandler] at hh
        | closing a b d f => simp [hp1, Phase.isHandler] at hh
        | handler r' h' =>
          obtain ⟨rp', rest, rest', t, rq, hp, _, hw, hd, _, hr, hhh, _, henv⟩ :=
            C07.handler_only_from_done c c1 r' h' hst hp1
          rw [hph] at hp; cases hp
          simp only [PRLed, hph] at hl
          obtain ⟨hmc, ⟨hpi, hin, hstt⟩, _, hlog⟩ := hl
          have hst' : rp.state = (run .header (raw0 ++ D) rp.maxConns).st := by
            rcases hstt with hx | ⟨hx, _⟩
            · exact hx
            · rw [hx] at hd; cases hd
          obtain ⟨⟨dn, hdn, hwl⟩, _, hready, _⟩ := writeAllLoop_spec _ _ _ hw
          have hr0 := hready rfl
          subst hr0
          rw [List.append_nil] at hdn
          subst hmc
          have hidq : rq.id < 65536 := hid_holds rp.maxConns (raw0 ++ D) rq (by rw [← hst', hd])
          have ha : AInv (AReq.new (Str.Parser.fromParser rp.cap rq rp.input rp.maxConns)) :=
            new_ainv (C03S.fromParser_inv rp.cap rq rp.input rp.maxConns hpi.1 hidq) hpi.2.2
          have hl0 : LockInv (AReq.new (Str.Parser.fromParser rp.cap rq rp.input rp.maxConns)) none :=
            new_lockInv _ (fun h => nomatch h)
          unfold K
          rw [hp1]
          refine ⟨L0, raw0 ++ D, rp, rq, (C07.nextScript c.scripts).1, hsv, ⟨hpi, rfl, hd, hst', hin⟩, ⟨?_, ?_⟩,
            by rw [hhh]; exact List.suffix_refl _⟩
          · rw [hhh, hr, henv]
            refine ⟨ha, (by show LockInv _ c.env.mutex; rw [hmx]; exact hl0), (fun i w hw => by cases hw),
              fun j hj => ?_, [], ?_, fun _ => ⟨trivial, fun s hx => by cases hx⟩⟩
            · have : c.env.mutex = some (j + 1) := hj
              rw [hmx] at this; cases this
            · show GLed _ [] _ _ t.wlog
              rw [hwl, ← hdn, hlog]
              exact GLed.nil _ _
          · intro j hj
            rw [hmx'] at hj; cases hj
    · unfold K; rw [hf]; trivial
    · unfold K
      have hpp := prled_isParse hl'
      cases hp1 : (stepConn c).conn.phase with
      | parseReq a b => exact ⟨L0, raw0, D ++ bs, hsv, hl', hmx'⟩
      | finished => rw [hp1] at hpp; cases hpp
      | handler a b => rw [hp1] at hpp; cases hpp
      | closing a b d f => rw [hp1] at hpp; cases hpp
  | handler r hh =>
    unfold K at h
    rw [hph] at h
    obtain ⟨L0, F, rp, rq, script0, hsv, hinfo, hp, hsuf⟩ := h
    have hst := C07.handler_step c r hh hph
    rcases hhp : handlerPoll ((handlerFuel c.env r + scriptOf c)) r hh c.env with ⟨r1, hh1, e1, hres⟩
    have hpost := handlerPoll_hi ((handlerFuel c.env r + scriptOf c)) r hh c.env hp.1 hsuf
    have hown := handlerPoll_hp ((handlerFuel c.env r + scriptOf c)) r hh c.env hp hsuf
    rw [hhp] at hst hpost hown
    have hp1 : HP _ _ script0 r1 hh1.writers e1 := ⟨hpost.1, hown⟩
    cases hres with
    | pending =>
      simp only at hst
      rw [hst]
      exact ⟨L0, F, rp, rq, script0, hsv, hinfo, hp1, hpost.2⟩
    | panic s =>
      simp only at hst
      exact absurd hst (hnp _ _)
    | done x =>
      cases x with
      | ok st =>
        simp only at hst
        rw [hst]
        exact ⟨L0, F, rp, rq, hsv, hinfo, hie_of_hp hp1 _⟩
      | error x =>
        simp only at hst
        rw [hst]
        split
        · exact ⟨L0, F, rp, rq, hsv, hinfo, hie_of_hp hp1 _⟩
        · trivial
  | closing r cs st al =>
    unfold K at h
    rw [hph] at h
    obtain ⟨L0, F, rp, rq, hsv, hinfo, hcs⟩ := h
    have hst := C07.closing_step c r cs st al hph
    have hpost := closePoll_cst hcs
    rcases hcp : closePoll r cs st al c.env.mutex c.env.tr with ⟨r1, cs1, m1, t1, res⟩
    rw [hcp] at hst hpost
    cases res with
    | pending =>
      simp only at hst
      rw [hst]
      exact ⟨L0, F, rp, rq, hsv, hinfo, (hpost.1 rfl).congr rfl rfl⟩
    | panic s => simp only at hst; exact absurd hst (hnp _ _)
    | err x => simp only at hst; rw [hst]; trivial
    | reuse rp1 =>
      simp only at hst
      rw [hst]
      obtain ⟨ops, mix, g1, g2, g3, g4, g5, g6, g7, g8, g9⟩ := hpost.2 rp1 rfl
      have hgr : C03S.sentAll (Str.Parser.fromParser rp.cap rq rp.input mc) ops =
          C03S.grownAll (Str.Parser.fromParser rp.cap rq rp.input mc) ops := by
        have := C03S.output_ledger (Str.Parser.fromParser rp.cap rq rp.input mc) ops
        rw [← g1, g3, List.append_nil] at this
        exact this
      have hmc1 : rp1.maxConns = mc := by
        rw [g8, g1, (C05.applyOps_frame ops _).2.2]; rfl
      refine ⟨t1.wlog, rp1.input, [], ?_, ⟨hmc1, g6, g7, rfl, rfl, rfl⟩, g5⟩
      have : t1.wlog = L0 ++ (C04H.reqRef mc F).out ++ mix ++ epilogueOf r1 st := by
        show _ = _
        have := g4
        simp only at this
        rw [this, (C04H.req_replies_hostile mc F).1]
      rw [this]
      exact .snoc F mix _ hsv ⟨rp, rq, ops, r1, st, hinfo, g1, by rw [← hgr]; exact g2, rfl⟩

theorem k_poll {mc : Nat} {wl : Bytes} : ∀ (fuel : Nat) (c : Conn) {c' : Conn} {res : PRes},
    K mc wl c → pollConn fuel c = (c', res) → (∀ s, res ≠ .panic s) → K mc wl c'
  | 0, c, c', res, _, hp, hnp => by
    have : pollConn 0 c = (c, .panic "model: connection fuel exhausted") := rfl
    rw [this] at hp; cases hp; exact absurd rfl (hnp _)
  | fuel + 1, c, c', res, h, hp, hnp => by
    rw [pollConn_succ] at hp
    cases hst : stepConn c with
    | next c1 =>
      have hj := k_step h (fun c2 s hx => by rw [hst] at hx; cases hx)
      rw [hst] at hp hj
      exact k_poll fuel c1 hj hp hnp
    | halt c1 r =>
      rw [hst] at hp
      simp only [Step.run] at hp
      cases hp
      have hj := k_step h (fun c2 s hx => by rw [hst] at hx; cases hx; exact hnp s rfl)
      rw [hst] at hj
      exact hj

theorem K.release {mc : Nat} {wl : Bytes} {c : Conn} (h : K mc wl c) :
    K mc wl { c with env := c.env.release.1 } :=
  h.congr rfl (release_frame c.env).1 (C08Inv.release_spec c.env).1

theorem K.prePoll {mc : Nat} {wl : Bytes} {c : Conn} (n : Nat) (sa : Option Nat) (h : K mc wl c) :
    K mc wl (Run.prePoll c n sa) := by
  have key : ∀ c0 : Conn, c0.phase = c.phase → c0.env = c.env →
      K mc wl ({ c0 with env := ({ c0.env.release.1 with
        tr := { c0.env.release.1.tr with woken := false } } : Run.Env).ev s!"|{n}" }) := by
    intro c0 hp he
    refine h.congr hp ?_ ?_
    · show c0.env.release.1.tr.wlog = _
      rw [(release_frame c0.env).1, he]
    · show c0.env.release.1.mutex = _
      rw [(C08Inv.release_spec c0.env).1, he]
  unfold Run.prePoll
  split
  · exact key _ rfl rfl
  · exact key _ rfl rfl

/-- a run that ends in STALL keeps `K` -/
theorem k_run {mc : Nat} {wl : Bytes} : ∀ (fuel : Nat) (c : Conn) (n : Nat) (sa : Option Nat),
    K mc wl c → (runTask fuel c n sa).2 = "STALL" → K mc wl (runTask fuel c n sa).1
  | 0, _, _, _, _, h => absurd h C08Inv.fuel_ne_stall
  | fuel + 1, c, n, sa, hj, h => by
    rw [runTask_succ] at h ⊢
    have hj0 := hj.prePoll n sa
    rcases hpc : pollConn (connFuel (Run.prePoll c n sa)) (Run.prePoll c n sa) with ⟨c1, res⟩
    rw [hpc] at h
    cases res with
    | finished => exact absurd h C08Inv.ret_ne_stall
    | panic s => exact absurd h C08Inv.panic_ne_stall
    | pending =>
      have hp := k_poll _ _ hj0 hpc (fun s hx => by cases hx)
      revert h
      simp only []
      split
      · exact fun h => k_run fuel _ _ _ hp h
      · split
        · exact fun h => k_run fuel _ _ _ hp.release h
        · split
          · split
            · exact fun h => k_run fuel _ _ _ hp.release h
            · exact fun _ => hp.release
          · exact fun _ => hp.release

theorem k_init (b mc : Nat) (env : Run.Env) (scripts : List (List HOp × Bool)) (stop : Bool)
    (hm : env.mutex = none) :
    K mc env.tr.wlog { phase := .parseReq (Req.Parser.new b mc) .start, env, scripts, stop } :=
  ⟨env.tr.wlog, [], [], .nil, ⟨rfl, Req.new_inv b mc, rfl, rfl, rfl, rfl⟩, hm⟩

end Fcgi.C08R
