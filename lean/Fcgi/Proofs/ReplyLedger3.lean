import Fcgi.Proofs.ReplyLedger2
import Fcgi.Props.C05
/-!
# The reply ledger through `close()` and over any number of requests

§1 `hid_holds`: `HID mc` is a theorem (`C05.run_id`).  §2 `Own`: whoever owns the output mutex is a live
writer (or the request) — kept by `handlerPoll`; so when the handler ends with no writer alive the mutex
is free or the request's.  §3 `CSt`: the ledger through `closePoll`.  §4 `K`: the invariant of the whole
connection, for any number of requests.
-/
namespace Fcgi.C08R
open Fcgi Fcgi.Req Fcgi.Str Fcgi.Async Fcgi.Run

/-! ## 1. The id bound -/

theorem hid_holds (mc : Nat) : HID mc := by
  intro F rq h
  have := C05.run_id F mc (st := .header) trivial trivial
  rw [h] at this
  exact this.2

/-! ## 2. The owner of the mutex is alive -/

/-- a writer's id in the mutex means that writer exists -/
def Own (ws : List (Option Writer)) (m : MutexSt) : Prop :=
  ∀ j, m = some (j + 1) → ∃ w, ws[j]? = some (some w)

theorem Own.fr0 {ws : List (Option Writer)} {m m' : MutexSt} (h : Own ws m) (hf : Fr 0 m m') : Own ws m' := by
  intro j hj
  rcases hf with rfl | ⟨_, h2⟩
  · exact h j hj
  · rcases h2 with h2 | h2 <;> rw [h2] at hj <;> cases hj

theorem Own.writer {ws : List (Option Writer)} {m m' : MutexSt} (h : Own ws m) {i : Nat} {w w' : Writer}
    (hw : ws[i]? = some (some w)) (hf : Fr (i + 1) m m') : Own (ws.set i (some w')) m' := by
  have hil : i < ws.length := by
    rcases Nat.lt_or_ge i ws.length with hx | hx
    · exact hx
    · rw [List.getElem?_eq_none hx] at hw; cases hw
  intro j hj
  have hcase : m = some (j + 1) ∨ j = i := by
    rcases hf with rfl | ⟨_, h2⟩
    · exact Or.inl hj
    · rcases h2 with h2 | h2 <;> rw [h2] at hj <;> cases hj
      exact Or.inr rfl
  rw [List.getElem?_set]
  by_cases hij : i = j
  · subst hij; simp [hil]
  · rw [if_neg hij]
    rcases hcase with hm | hm
    · exact h j hm
    · exact absurd hm.symm hij

theorem Own.open_ {ws : List (Option Writer)} {m : MutexSt} (h : Own ws m) (w : Writer) : Own (ws ++ [some w]) m := by
  intro j hj
  obtain ⟨x, hx⟩ := h j hj
  have hjl : j < ws.length := by
    rcases Nat.lt_or_ge j ws.length with hx' | hx'
    · exact hx'
    · rw [List.getElem?_eq_none hx'] at hx; cases hx
  exact ⟨x, by rw [List.getElem?_append_left hjl]; exact hx⟩

theorem Own.dropW {ws : List (Option Writer)} {m : MutexSt} (h : Own ws m) {i : Nat} {w : Writer}
    (hc : Consistent (i + 1) w.lock m) : Own (ws.set i none) (lockDrop w.lock m) := by
  intro j hj
  unfold lockDrop at hj
  cases hl : w.lock with
  | held => rw [hl] at hj; cases hj
  | none =>
    rw [hl] at hj; simp only at hj
    have hne : i ≠ j := fun hij => by
      subst hij
      have := hc.mpr hj; rw [hl] at this; cases this
    obtain ⟨x, hx⟩ := h j hj
    exact ⟨x, by rw [List.getElem?_set, if_neg hne]; exact hx⟩
  | polling =>
    rw [hl] at hj; simp only at hj
    have hne : i ≠ j := fun hij => by
      subst hij
      have := hc.mpr hj; rw [hl] at this; cases this
    obtain ⟨x, hx⟩ := h j hj
    exact ⟨x, by rw [List.getElem?_set, if_neg hne]; exact hx⟩

theorem writeablePoll_fr {r : AReq} {started : Bool} {m : MutexSt} {t : Transport} {r' : AReq} {b : Bool}
    {m' : MutexSt} {t' : Transport} {res : ORes} (hc : Consistent 0 r.lock m)
    (hp : r.writeablePoll started m t = (r', b, m', t', res)) : Fr 0 m m' := by
  have key : ∀ r1 : AReq, Consistent 0 r1.lock m →
      (match r1.pollInput none m t with
        | (r, m, t, .ready _ _) => (r, true, m, t, ORes.ready)
        | (r, m, t, .pending) => (r, true, m, t, .pending)
        | (r, m, t, .err e) => (r, true, m, t, .err e)
        | (r, m, t, .panic s) => (r, true, m, t, .panic s)) = (r', b, m', t', res) → Fr 0 m m' := by
    intro r1 h1 hq
    rcases hpi : r1.pollInput none m t with ⟨r2, m2, t2, x⟩
    have := pollInput_fr h1 hpi
    rw [hpi] at hq
    cases x <;> (simp only at hq; cases hq; exact this)
  unfold AReq.writeablePoll at hp
  by_cases h0 : (!started && r.writeable) = true
  · rw [if_pos h0] at hp; cases hp; exact Fr.refl _ _
  · rw [if_neg h0] at hp
    cases started with
    | true => exact key r hc hp
    | false =>
      simp only [Bool.false_eq_true, if_false] at hp
      cases hs : r.sp.setStream (inputStreams r.sp.request.role).getLast? with
      | ok sp' => simp only [hs] at hp; exact key _ hc hp
      | rejected => simp only [hs] at hp; cases hp; exact Fr.refl _ _
      | panic s => simp only [hs] at hp; cases hp; exact Fr.refl _ _

end Fcgi.C08R
