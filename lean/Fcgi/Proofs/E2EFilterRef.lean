import Fcgi.Proofs.E2EIgnore1
/-!
# The reference for the rest of a Filter's Data stream read in ignore mode

`DataRec`: the records of a Data stream (own data / terminator, stream noise).  Under the view's
configuration `E1 = ⟨id, 1, 5⟩` each of them is passed over (`rclass_view1`, `refWire_view1`,
`fits_view1`).  `CleanW1`: byte strings along which no own-id Stdin header is met; on them the
references of the Filter's Data stream `⟨id, 3, 8⟩` and of the view `⟨id, 1, 5⟩` owe the same replies
(`ref_81`) — the lemma that carries the ledgers across `set_stream(None)`.
-/
namespace Fcgi.E2E
open Fcgi Fcgi.Req Fcgi.Str Fcgi.Async Fcgi.Run Fcgi.Spec

/-- the configuration of the Filter's Data stream, and of the view of the ignoring parser -/
abbrev E8 (id mc : Nat) : Str.Cfg := ⟨id, 3, 8, mc⟩
abbrev E1 (id mc : Nat) : Str.Cfg := ⟨id, 1, 5, mc⟩

/-- a record of a Data stream: its own data / terminator, or stream noise -/
def DataRec (id : Nat) (r : Rec) : Prop := r.WF ∧ (StreamNoise id r ∨ (r.rtype = 8 ∧ r.id = id))

theorem streamRecs_data {id : Nat} (hid : id < 65536) {c : Bytes} {rs : List Rec} (h : StreamRecs id 8 c rs) :
    ∀ r ∈ rs, DataRec id r := by
  induction h with
  | term pad res hp => intro r hr; rw [List.mem_singleton.1 hr]; exact ⟨⟨hid, by simp, hp⟩, Or.inr ⟨rfl, rfl⟩⟩
  | noise r hn t ih =>
    intro x hx
    rcases List.mem_cons.1 hx with rfl | hx
    · exact ⟨hn.1, Or.inl hn⟩
    · exact ih x hx
  | chunk c pad res hc hp t ih =>
    intro x hx
    rcases List.mem_cons.1 hx with rfl | hx
    · exact ⟨⟨hid, hc.2, hp⟩, Or.inr ⟨rfl, rfl⟩⟩
    · exact ih x hx

theorem data_recsOK1 {id : Nat} {rs : List Rec} (h : ∀ r ∈ rs, DataRec id r) : RecsOK1 id rs := by
  intro r hr
  obtain ⟨hwf, hk⟩ := h r hr
  refine ⟨hwf, fun hx => ?_⟩
  rcases hk with hn | ⟨h8, _⟩
  · exact hn.2 ⟨hx.2, Or.inl hx.1⟩
  · rw [h8] at hx; exact absurd hx.1 (by decide)

theorem rclass_view1 (id mc : Nat) {r : Rec} (h : DataRec id r) : rclass (E1 id mc) r = .noise := by
  rcases h.2 with hn | ⟨h8, hid⟩
  · exact rclass_noise (E := E1 id mc) hn
  · have hl : ¬ Later 1 (some 5) 8 := by decide
    simp [rclass, h8, hid, RT.isInputStream, hl]

theorem refRun_view1 (id mc : Nat) : ∀ (rs : List Rec), (∀ r ∈ rs, DataRec id r) → ∀ tl,
    refRun (E1 id mc) (rs ++ tl) =
      ⟨(refRun (E1 id mc) tl).content, owedI id mc rs ++ (refRun (E1 id mc) tl).out,
        Stop.add rs.length (refRun (E1 id mc) tl).stop⟩
  | [], _, tl => by simp [owedI, Stop.add]
  | r :: rs, h, tl => by
    have ih := refRun_view1 id mc rs (fun x hx => h x (List.mem_cons_of_mem _ hx)) tl
    simp only [List.cons_append, refRun, rclass_view1 id mc (h r List.mem_cons_self), ih, List.length_cons, Stop.add,
      owedI, List.flatMap_cons, List.append_assoc]

theorem refWire_view1 (id mc : Nat) {rs : List Rec} (h : ∀ r ∈ rs, DataRec id r) :
    refWire (E1 id mc) (serAll rs) = ⟨[], owedI id mc rs, .more, []⟩ := by
  have hwf : ∀ r ∈ rs, r.WF := fun r hr => (h r hr).1
  have := refWire_of_presentation (E1 id mc) hwf (tail := []) (nextRec_short (by simp))
  rw [List.append_nil] at this
  have hrun := refRun_view1 id mc rs h []
  rw [List.append_nil] at hrun
  have hadd : ∀ n, Stop.add n .ranOut = .ranOut := by
    intro n
    induction n with
    | zero => rfl
    | succ n ih => simp only [Stop.add, ih, Stop.succ]
  rw [this, hrun]
  simp [refRun, glue, hadd, refTail, RefOut.pre]

theorem fits_view1 (id mc : Nat) (hid : id < 65536) {rs : List Rec} (h : ∀ r ∈ rs, DataRec id r) {M : Nat}
    (h8 : 8 ≤ M) (hfit : NoiseFits M rs) :
    ∀ G, G <+: serAll rs → (refWire (E1 id mc) G).verdict = .more →
      (refWire (E1 id mc) G).unread.length < M := by
  let e5 : Rec := { rtype := 5, id := id, content := [], pad := [] }
  have he : e5.WF := ⟨hid, by simp [e5], by simp [e5]⟩
  have hcls : rclass (E1 id mc) e5 = .endStream := by simp [rclass, e5, RT.isInputStream]
  have hwf : ∀ r ∈ rs ++ [e5], r.WF := by
    intro r hr
    rcases List.mem_append.1 hr with hr | hr
    · exact (h r hr).1
    · rw [List.mem_singleton.1 hr]; exact he
  have hfull : (refWire (E1 id mc) (serAll (rs ++ [e5]))).verdict ≠ .more := by
    have := refWire_of_presentation (E1 id mc) hwf (tail := []) (nextRec_short (by simp))
    rw [List.append_nil] at this
    have hrun := refRun_view1 id mc rs h [e5]
    have htl : refRun (E1 id mc) [e5] = ⟨[], [], .endOfStream 0⟩ := by simp only [refRun, hcls]
    rw [this, hrun, htl]
    have hadd : ∀ n, Stop.add n (.endOfStream 0) = .endOfStream n := by
      intro n
      induction n with
      | zero => rfl
      | succ n ih => simp only [Stop.add, ih, Stop.succ]
    simp only [hadd, glue]
    intro hx; cases hx
  intro G hG hv
  refine stream_fits (E1 id mc) (rs ++ [e5]) hwf hfull h8 ?_ G ?_ hv
  · intro r hr hg
    rcases List.mem_append.1 hr with hr | hr
    · exact hfit r hr hg
    · rw [List.mem_singleton.1 hr] at hg
      exact absurd hg.1 (by simp [e5, RT.getValues])
  · rw [serAll_app]
    exact hG.trans (List.prefix_append _ _)

/-! ## Strings without own-id Stdin headers -/

inductive CleanW1 (id : Nat) : Nat → Nat → Bytes → Prop
  | payShort {pay pad : Nat} {w : Bytes} : 0 < pay → w.length < pay → CleanW1 id pay pad w
  | payFull {pay pad : Nat} {w : Bytes} : 0 < pay → ¬ w.length < pay → CleanW1 id 0 pad (w.drop pay) →
      CleanW1 id pay pad w
  | padShort {pad : Nat} {w : Bytes} : 0 < pad → w.length < pad → CleanW1 id 0 pad w
  | padFull {pad : Nat} {w : Bytes} : 0 < pad → ¬ w.length < pad → CleanW1 id 0 0 (w.drop pad) → CleanW1 id 0 pad w
  | short {w : Bytes} : w.length < 8 → CleanW1 id 0 0 w
  | hdr {b0 b1 b2 b3 b4 b5 b6 b7 : UInt8} {rest : Bytes} : ¬ (b1.toNat = 5 ∧ be16 b2 b3 = id) →
      CleanW1 id (be16 b4 b5) b6.toNat rest → CleanW1 id 0 0 (b0 :: b1 :: b2 :: b3 :: b4 :: b5 :: b6 :: b7 :: rest)

theorem clean_body1 (id : Nat) {S : Bytes} (hS : ∀ w, w <+: S → CleanW1 id 0 0 w) (c pd : Bytes) {w : Bytes}
    (hw : w <+: c ++ (pd ++ S)) : CleanW1 id c.length pd.length w := by
  have pad_part : ∀ w', w' <+: pd ++ S → CleanW1 id 0 pd.length w' := by
    intro w' hw'
    by_cases hp : 0 < pd.length
    · by_cases hs : w'.length < pd.length
      · exact .padShort hp hs
      · exact .padFull hp hs (hS _ (prefix_drop hw' (by omega)))
    · have : pd = [] := List.length_eq_zero_iff.1 (by omega)
      subst this
      exact hS _ (by simpa using hw')
  by_cases hc : 0 < c.length
  · by_cases hs : w.length < c.length
    · exact .payShort hc hs
    · exact .payFull hc hs (pad_part _ (prefix_drop hw (by omega)))
  · have : c = [] := List.length_eq_zero_iff.1 (by omega)
    subst this
    exact pad_part _ (by simpa using hw)

theorem clean_recs1 (id : Nat) : ∀ (rs : List Rec), RecsOK1 id rs → ∀ w, w <+: serAll rs → CleanW1 id 0 0 w := by
  intro rs
  induction rs with
  | nil =>
    intro _ w hw
    have : w = [] := List.prefix_nil.1 (by simpa [serAll] using hw)
    subst this
    exact .short (by simp)
  | cons r rs ih =>
    intro hR w hw
    by_cases hs : w.length < 8
    · exact .short hs
    · have hr := hR r List.mem_cons_self
      obtain ⟨t, ht⟩ := hw
      rw [serAll_cons] at ht
      obtain ⟨e1, e2⟩ := raw_hdr (raw := w) (fut := t) (r := r) (X := serAll rs) ht (by omega)
      rw [e1]
      have hbody : w.drop 8 <+: r.content ++ (r.pad ++ serAll rs) := ⟨t, e2⟩
      have := clean_body1 id (ih (fun x hx => hR x (List.mem_cons_of_mem _ hx))) r.content r.pad hbody
      simp only [hdr, List.cons_append, List.nil_append]
      refine .hdr ?_ ?_
      · rw [be16_toBe16 hr.1.1]; exact hr.2
      · rw [be16_toBe16 hr.1.2.1, toNat_ofNat_lt hr.1.2.2]; exact this

theorem clean_pos1 {id : Nat} {R : List Rec} (hR : RecsOK1 id R) {raw fut : Bytes} {pay pad : Nat}
    (h : Pos R raw pay pad fut) {w : Bytes} (hw : w <+: raw ++ fut) : CleanW1 id pay pad w := by
  obtain ⟨c, pd, rs, hc, hpd, hwire, hsuf⟩ := h
  rw [hwire] at hw
  rw [← hc, ← hpd]
  exact clean_body1 id (clean_recs1 id rs (fun r hr => hR r (hsuf.subset hr))) c pd hw

/-! ## `⟨id, 3, 8⟩` against `⟨id, 1, 5⟩` -/

/-- the state of the stream parser after `set_stream(None)` -/
def sw : SState → SState
  | .stream => .skip
  | s => s

theorem stateC_sw (st : SState) (c : Bytes) : stateC (sw st) c = [] := by cases st <;> rfl
theorem stateO_sw (mc : Nat) (st : SState) (c : Bytes) : stateO mc (sw st) c = stateO mc st c := by cases st <;> rfl
theorem partialRest_sw (st : SState) (c : Bytes) : partialRest (sw st) c = partialRest st c := by cases st <;> rfl

/-- what the view's reference `B` is, given the Data stream's reference `A` on the same position:
the same replies; if `A` stopped (end of stream, fatal header), `B` goes on over what `A` left. -/
def Rel81 (id mc : Nat) (A B : RefOut) : Prop :=
  (A.verdict = .more ∧ B = ⟨[], A.out, .more, A.unread⟩) ∨
  (A.verdict ≠ .more ∧ B = (refWire (E1 id mc) A.unread).pre [] A.out)

theorem Rel81.pre {id mc : Nat} {A B : RefOut} (h : Rel81 id mc A B) (d o : Bytes) :
    Rel81 id mc (A.pre d o) (B.pre [] o) := by
  rcases h with ⟨h1, h2⟩ | ⟨h1, h2⟩
  · exact Or.inl ⟨h1, by rw [h2]; rfl⟩
  · refine Or.inr ⟨h1, ?_⟩
    rw [h2, RefOut.pre_pre]
    rfl

/-- the header classification of the two configurations on a header that is not an own-id Stdin
header -/
theorem hclass_81 (id mc : Nat) {b0 b1 b2 b3 b4 b5 : UInt8} (h : ¬ (b1.toNat = 5 ∧ be16 b2 b3 = id)) :
    (∃ v, v ≠ .more ∧ hclass (E8 id mc) b0 b1 b2 b3 b4 b5 = .stop v) ∨
    (∃ st o, hclass (E8 id mc) b0 b1 b2 b3 b4 b5 = .pass st o ∧ hclass (E1 id mc) b0 b1 b2 b3 b4 b5 = .pass (sw st) o) := by
  unfold hclass
  simp only
  split
  · exact Or.inl ⟨_, by simp, rfl⟩
  · split
    · exact Or.inr ⟨_, _, rfl, rfl⟩
    · split
      · rename_i hc
        have h8 : b1.toNat = 8 := by
          have := hc.1
          simp only [RT.isInputStream, Bool.or_eq_true, beq_iff_eq] at this
          rcases this with h' | h'
          · exact absurd ⟨h', hc.2⟩ h
          · exact h'
        have hl : ¬ Later 1 (some 5) 8 := by decide
        rw [h8]
        simp only [if_true, hl, if_false, show ¬ ((8 : Nat) = 5) by decide]
        split
        · exact Or.inl ⟨_, by simp, rfl⟩
        · exact Or.inr ⟨_, _, rfl, rfl⟩
      · split
        · exact Or.inl ⟨_, by simp, rfl⟩
        · split
          · exact Or.inr ⟨_, _, rfl, rfl⟩
          · split
            · exact Or.inr ⟨_, _, rfl, rfl⟩
            · exact Or.inr ⟨_, _, rfl, rfl⟩

/-- **The two references owe the same replies** on a string without own-id Stdin headers. -/
theorem ref_81 (id mc : Nat) {pay pad : Nat} {w : Bytes} (h : CleanW1 id pay pad w) (st : SState) :
    Rel81 id mc (ref (E8 id mc) st pay pad w) (ref (E1 id mc) (sw st) pay pad w) := by
  induction h generalizing st with
  | payShort h1 h2 =>
    rw [ref_pay_short _ _ _ h1 h2, ref_pay_short _ _ _ h1 h2, stateC_sw, partialRest_sw]
    exact Or.inl ⟨rfl, rfl⟩
  | payFull h1 h2 _ ih =>
    rw [ref_pay_full _ _ _ h1 (by omega), ref_pay_full _ _ _ h1 (by omega), stateC_sw, stateO_sw]
    exact (ih st).pre _ _
  | padShort h1 h2 =>
    rw [ref_pad_short _ _ h1 h2, ref_pad_short _ _ h1 h2]
    exact Or.inl ⟨rfl, rfl⟩
  | padFull h1 h2 _ ih =>
    rw [ref_pad_full _ _ h1 (by omega), ref_pad_full _ _ h1 (by omega), ref_bdry_irrel _ (sw st) (sw (sw st))]
    rw [ref_bdry_irrel _ (sw (sw st)) (sw st)]
    exact ih st
  | short h1 =>
    rw [ref_short _ _ h1, ref_short _ _ h1]
    exact Or.inl ⟨rfl, rfl⟩
  | @hdr b0 b1 b2 b3 b4 b5 b6 b7 rest hc _ ih =>
    rw [ref_hdr, ref_hdr]
    rcases hclass_81 id mc (b0 := b0) (b4 := b4) (b5 := b5) hc with ⟨v, hv, h8⟩ | ⟨st', o, h8, h1⟩
    · rw [h8]
      refine Or.inr ⟨hv, ?_⟩
      show _ = (refWire (E1 id mc) (b0 :: b1 :: b2 :: b3 :: b4 :: b5 :: b6 :: b7 :: rest)).pre [] []
      rw [RefOut.pre_nil, ← ref_eq_refWire _ (sw st), ref_hdr]
    · rw [h8, h1]
      exact (ih st').pre [] o

/-- the content of the Data stream's reference comes from own-id Data records only -/
theorem ref8_content_nil (id mc : Nat) {pay pad : Nat} {w : Bytes} (h : CleanW id pay pad w) (st : SState)
    (hst : st ≠ .stream) : (ref (E8 id mc) st pay pad w).content = [] := by
  have hC : ∀ c, stateC st c = [] := by intro c; cases st <;> first | rfl | exact absurd rfl hst
  induction h generalizing st with
  | payShort h1 h2 => rw [ref_pay_short _ _ _ h1 h2]; exact hC _
  | payFull h1 h2 _ ih =>
    rw [ref_pay_full _ _ _ h1 (by omega)]
    simp only [RefOut.pre_content, hC, List.nil_append]
    exact ih st hst hC
  | padShort h1 h2 => rw [ref_pad_short _ _ h1 h2]
  | padFull h1 h2 _ ih => rw [ref_pad_full _ _ h1 (by omega)]; exact ih st hst hC
  | short h1 => rw [ref_short _ _ h1]
  | @hdr b0 b1 b2 b3 b4 b5 b6 b7 rest hc _ ih =>
    rw [ref_hdr]
    cases hcl : hclass (E8 id mc) b0 b1 b2 b3 b4 b5 with
    | stop v => rfl
    | pass st' o =>
      simp only [RefOut.pre_content, List.nil_append]
      have hst' : st' ≠ .stream := by
        intro hx
        subst hx
        unfold hclass at hcl
        simp only at hcl
        repeat' split at hcl
        all_goals first | cases hcl | skip
        rename_i h1 h2 h3 h4 h5
        exact hc ⟨h4, h3.2⟩
      exact ih st' hst' (by intro c; cases st' <;> first | rfl | exact absurd rfl hst')

end Fcgi.E2E
