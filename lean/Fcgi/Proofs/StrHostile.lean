import Fcgi.Proofs.StrRef
/-!
# The model of `stream.rs` follows the reference `ref` on ARBITRARY input (C03, stream half)

`Proofs/StrSim.lean` simulates the parser against well-formed traffic only.  Here the same
forward-looking pattern is used with a *function* in place of the existentially quantified wire
shape: for a parser `p` and the bytes `fut` still to be fed,

    R p fut := ref E p.state p.pay p.pad (p.raw ++ fut)

is what is still to come.  `RI` states the conserved quantities of a `parse` call
(`got ++ R.content`, `output ++ R.out`, `R.verdict`, `R.unread` are constant).

* `parseHead_hclass` — `parse_head` acts on a header exactly as `hclass` says (all 256 type values,
  own-id records of earlier / the active / later streams, own-id `AbortRequest`, foreign version);
* `parsePayload_ri`, `parseHead_ri`, `padHead_ri`, `iter_ri`, `loop_ri` — every micro-step /
  iteration / loop keeps `RI`; an `Err e` is returned exactly in front of a header classified
  `stop (err e)`; `stream_end` is raised exactly in front of one classified `stop eos`; a call with
  `dest = None` runs until the state is `Terminal`;
* `parse_ri` — one legal call;  `availOp` — the stream bytes a call makes available.
-/
namespace Fcgi.Str
open Fcgi Fcgi.Req Fcgi.Spec

/-- The parser belongs to the configuration `E` (request id, role, active stream, `max_conns`). -/
structure Match (E : Cfg) (p : Parser) : Prop where
  id : p.request.id = E.id
  role : p.request.role = E.role
  strm : p.stream = some E.s
  mc : p.maxConns = E.mc
  mem : E.s ∈ inputStreams E.role

theorem Match.of_eq {E : Cfg} {p p' : Parser} (h : Match E p) (e1 : p'.request = p.request)
    (e2 : p'.stream = p.stream) (e3 : p'.maxConns = p.maxConns) : Match E p' :=
  ⟨by rw [e1]; exact h.id, by rw [e1]; exact h.role, by rw [e2]; exact h.strm,
   by rw [e3]; exact h.mc, h.mem⟩

/-! ## `parse_head` against `hclass` -/

theorem cons8_of_len {w : Bytes} (h : ¬ w.length < 8) :
    ∃ b0 b1 b2 b3 b4 b5 b6 b7 rest, w = b0 :: b1 :: b2 :: b3 :: b4 :: b5 :: b6 :: b7 :: rest := by
  match w, h with
  | b0 :: b1 :: b2 :: b3 :: b4 :: b5 :: b6 :: b7 :: rest, _ => exact ⟨_, _, _, _, _, _, _, _, _, rfl⟩
  | [], h | [_], h | [_, _], h | [_, _, _], h | [_, _, _, _], h | [_, _, _, _, _], h
  | [_, _, _, _, _, _], h | [_, _, _, _, _, _, _], h => simp at h

/-- **Header classification.**  In front of 8 header bytes at a record boundary, `parse_head`
does what `hclass` says: `Err` for a foreign version or an own-id `AbortRequest` (header left in
place), `stream_end` for an own-id empty record of the active stream or a record of a later stream
(header left in place), and otherwise it consumes the header, queues `o` and enters `st`. -/
theorem parseHead_hclass {E : Cfg} {p : Parser} (hm : Match E p)
    {b0 b1 b2 b3 b4 b5 b6 b7 : UInt8} {rest : Bytes}
    (hraw : p.raw = b0 :: b1 :: b2 :: b3 :: b4 :: b5 :: b6 :: b7 :: rest)
    (dest : Option Nat) (res : Status) :
    match hclass E b0 b1 b2 b3 b4 b5 with
    | .stop .more => False
    | .stop .eos => HeldBack p
    | .stop (.err e) => headErr p.raw p.request.id = some e
    | .pass st o => HeadCont p dest res rest (be16 b4 b5) b6.toNat st o (parseHead p dest res) := by
  have hsin : RT.isInputStream E.s = true := mem_inputStreams_isInput hm.mem
  by_cases hv : b0.toNat ≠ 1
  · have hc : hclass E b0 b1 b2 b3 b4 b5 = .stop (.err (.unknownVersion b0)) := by
      simp only [hclass, if_pos hv]
    rw [hc]
    simp only [headErr, hraw, fromBytes8, if_pos hv]
  · by_cases hval : RT.valid b1.toNat = false
    · have hc : hclass E b0 b1 b2 b3 b4 b5 = .pass .skip (UnknownType.toRecord b1 (be16 b2 b3)) := by
        simp only [hclass, if_neg hv, if_pos hval]
      rw [hc]
      simp only [parseHead, hraw, fromBytes8, if_neg hv, hval, Bool.not_false, if_true]
      exact ⟨_, _, rfl, rfl, rfl, rfl, rfl, rfl, rfl, rfl, rfl, rfl, rfl, rfl⟩
    · have hval' : RT.valid b1.toNat = true := by simpa using hval
      have hfb : RecordHeader.fromBytes [b0, b1, b2, b3, b4, b5, b6, b7] =
          some (.ok { rtype := b1.toNat, requestId := be16 b2 b3, contentLength := be16 b4 b5,
                      paddingLength := b6.toNat }) := by
        rw [fromBytes8, if_neg hv]
        simp only [hval', Bool.not_true, Bool.false_eq_true, if_false]
      by_cases hin : RT.isInputStream b1.toNat = true ∧ be16 b2 b3 = E.id
      · have hinb : (RT.isInputStream b1.toNat && be16 b2 b3 == p.request.id) = true := by
          rw [hm.id]; simp [hin.1, hin.2]
        have hcmp := cmp_some p.request.role hin.1 hsin
        by_cases hs : b1.toNat = E.s
        · by_cases hz : be16 b4 b5 = 0
          · have hc : hclass E b0 b1 b2 b3 b4 b5 = .stop .eos := by
              simp only [hclass, if_neg hv, if_neg hval, if_pos hin, if_pos hs, if_pos hz]
            rw [hc]
            refine ⟨b0, b1, b2, b3, b4, b5, b6, b7, rest, _, hraw, hfb, hin.1, by rw [hm.id]; exact hin.2,
              Or.inl ⟨?_, hz⟩⟩
            rw [hm.strm]
            exact (cmp_eq_iff _ hin.1 hsin).2 hs
          · have hc : hclass E b0 b1 b2 b3 b4 b5 = .pass .stream [] := by
              simp only [hclass, if_neg hv, if_neg hval, if_pos hin, if_pos hs, if_neg hz]
            rw [hc]
            have hcmp' : cmpInputStreams p.request.role b1.toNat p.stream = some .eq := by
              rw [hm.strm]; exact (cmp_eq_iff _ hin.1 hsin).2 hs
            have hz' : (be16 b4 b5 != 0) = true := by rw [bne_iff_ne]; exact hz
            simp only [parseHead, hraw, hfb, hinb, if_true, hcmp', hz']
            exact ⟨_, _, rfl, rfl, rfl, rfl, rfl, by simp, rfl, rfl, rfl, rfl, rfl, rfl⟩
        · by_cases hl : Later E.role (some E.s) b1.toNat
          · have hc : hclass E b0 b1 b2 b3 b4 b5 = .stop .eos := by
              simp only [hclass, if_neg hv, if_neg hval, if_pos hin, if_neg hs, if_pos hl]
            rw [hc]
            refine ⟨b0, b1, b2, b3, b4, b5, b6, b7, rest, _, hraw, hfb, hin.1, by rw [hm.id]; exact hin.2,
              Or.inr ?_⟩
            rw [hm.strm, hm.role]
            exact (cmp_gt_iff _ hin.1 hsin).2 hl
          · have hc : hclass E b0 b1 b2 b3 b4 b5 = .pass .skip [] := by
              simp only [hclass, if_neg hv, if_neg hval, if_pos hin, if_neg hs, if_neg hl]
            rw [hc]
            have hcmp' : cmpInputStreams p.request.role b1.toNat p.stream = some .lt := by
              rw [hm.strm, hm.role]; exact (cmp_lt_iff _ hin.1 hsin).2 ⟨hs, hl⟩
            simp only [parseHead, hraw, hfb, hinb, if_true, hcmp']
            exact ⟨_, _, rfl, rfl, rfl, rfl, rfl, by simp, rfl, rfl, rfl, rfl, rfl, rfl⟩
      · have hinb : (RT.isInputStream b1.toNat && be16 b2 b3 == p.request.id) = false := by
          rw [hm.id]
          cases hi : RT.isInputStream b1.toNat with
          | false => rfl
          | true =>
            simp only [Bool.true_and, beq_eq_false_iff_ne, ne_eq]
            exact fun he => hin ⟨hi, he⟩
        by_cases hab : b1.toNat = RT.abortRequest ∧ be16 b2 b3 = E.id
        · have hc : hclass E b0 b1 b2 b3 b4 b5 = .stop (.err .abortRequest) := by
            simp only [hclass, if_neg hv, if_neg hval, if_neg hin, if_pos hab]
          rw [hc]
          have habb : (b1.toNat == RT.abortRequest && be16 b2 b3 == p.request.id) = true := by
            rw [hm.id]; simp [hab.1, hab.2]
          simp only [headErr, hraw, hfb, hinb, Bool.false_eq_true, if_false, habb, if_true]
        · have habb : (b1.toNat == RT.abortRequest && be16 b2 b3 == p.request.id) = false := by
            rw [hm.id]
            cases ha : b1.toNat == RT.abortRequest with
            | false => rfl
            | true =>
              simp only [beq_iff_eq] at ha
              simp only [Bool.true_and, beq_eq_false_iff_ne, ne_eq]
              exact fun he => hab ⟨ha, he⟩
          by_cases hbg : b1.toNat = RT.beginRequest ∧ be16 b2 b3 ≠ E.id
          · have hc : hclass E b0 b1 b2 b3 b4 b5 = .pass .skip
                (EndRequest.toRecord { appStatus := 0, protocolStatus := 1 } (be16 b2 b3)) := by
              simp only [hclass, if_neg hv, if_neg hval, if_neg hin, if_neg hab, if_pos hbg]
            rw [hc]
            have hbgb : (b1.toNat == RT.beginRequest && be16 b2 b3 != p.request.id) = true := by
              rw [hm.id]; simp [hbg.1, hbg.2]
            simp only [parseHead, hraw, hfb, hinb, Bool.false_eq_true, if_false, habb, hbgb, if_true]
            exact ⟨_, _, rfl, rfl, rfl, rfl, rfl, rfl, rfl, rfl, rfl, rfl, rfl, rfl⟩
          · have hbgb : (b1.toNat == RT.beginRequest && be16 b2 b3 != p.request.id) = false := by
              rw [hm.id]
              cases ha : b1.toNat == RT.beginRequest with
              | false => rfl
              | true =>
                simp only [beq_iff_eq] at ha
                simp only [Bool.true_and, bne_eq_false_iff_eq]
                exact Classical.byContradiction fun he => hbg ⟨ha, he⟩
            by_cases hgv : b1.toNat = RT.getValues ∧ be16 b2 b3 = 0
            · have hc : hclass E b0 b1 b2 b3 b4 b5 = .pass (.values 0) [] := by
                simp only [hclass, if_neg hv, if_neg hval, if_neg hin, if_neg hab, if_neg hbg,
                  if_pos hgv]
              rw [hc]
              have hgvb : (b1.toNat == RT.getValues && RecordHeader.isManagement { rtype := b1.toNat, requestId := be16 b2 b3, contentLength := be16 b4 b5, paddingLength := b6.toNat }) = true := by
                simp [RecordHeader.isManagement, hgv.1, hgv.2, RT.getValues, RT.isManagement]
              simp only [parseHead, hraw, hfb, hinb, Bool.false_eq_true, if_false, habb, hbgb, hgvb,
                if_true]
              exact ⟨_, _, rfl, rfl, rfl, rfl, rfl, by simp, rfl, rfl, rfl, rfl, rfl, rfl⟩
            · have hc : hclass E b0 b1 b2 b3 b4 b5 = .pass .skip [] := by
                simp only [hclass, if_neg hv, if_neg hval, if_neg hin, if_neg hab, if_neg hbg,
                  if_neg hgv]
              rw [hc]
              have hgvb : (b1.toNat == RT.getValues && RecordHeader.isManagement { rtype := b1.toNat, requestId := be16 b2 b3, contentLength := be16 b4 b5, paddingLength := b6.toNat }) = false := by
                cases ha : b1.toNat == RT.getValues with
                | false => rfl
                | true =>
                  simp only [beq_iff_eq] at ha
                  simp only [Bool.true_and, RecordHeader.isManagement, Bool.and_eq_false_iff,
                    beq_eq_false_iff_ne, ne_eq]
                  exact Or.inr fun he => hgv ⟨ha, he⟩
              simp only [parseHead, hraw, hfb, hinb, Bool.false_eq_true, if_false, habb, hbgb, hgvb]
              exact ⟨_, _, rfl, rfl, rfl, rfl, rfl, by simp, rfl, rfl, rfl, rfl, rfl, rfl⟩

/-! ## Stop headers, terminal states -/

/-- `raw` starts with 8 header bytes in front of which the parser stops with verdict `v`. -/
def AtStopHdr (E : Cfg) (raw : Bytes) (v : Verdict) : Prop :=
  ∃ b0 b1 b2 b3 b4 b5 b6 b7 rest, raw = b0 :: b1 :: b2 :: b3 :: b4 :: b5 :: b6 :: b7 :: rest ∧
    hclass E b0 b1 b2 b3 b4 b5 = .stop v

theorem ref_atStop {E : Cfg} {raw : Bytes} {v : Verdict} (h : AtStopHdr E raw v) (st : SState)
    (fut : Bytes) : ref E st 0 0 (raw ++ fut) = ⟨[], [], v, raw ++ fut⟩ := by
  obtain ⟨b0, b1, b2, b3, b4, b5, b6, b7, rest, rfl, hc⟩ := h
  simp only [List.cons_append]
  rw [ref_hdr, hc]

theorem AtStopHdr.unique {E : Cfg} {raw : Bytes} {v v' : Verdict} (h : AtStopHdr E raw v)
    (h' : AtStopHdr E raw v') : v = v' := by
  obtain ⟨b0, b1, b2, b3, b4, b5, b6, b7, rest, rfl, hc⟩ := h
  obtain ⟨c0, c1, c2, c3, c4, c5, c6, c7, rest', he, hc'⟩ := h'
  simp only [List.cons.injEq] at he
  obtain ⟨rfl, rfl, rfl, rfl, rfl, rfl, rfl, rfl, rfl⟩ := he
  rw [hc] at hc'
  cases hc'
  rfl

/-- The parser cannot go on without new input (whatever `dest` is offered). -/
def Terminal (E : Cfg) (p : Parser) : Prop :=
  p.raw = [] ∨
  (p.pay = 0 ∧ p.pad = 0 ∧ (p.raw.length < 8 ∨ ∃ v, AtStopHdr E p.raw v)) ∨
  (∃ v, p.state = .values v ∧ p.raw.length < p.pay ∧ NV.next p.raw = none)

/-- The verdict of a terminal state. -/
def Terminal.verdictIs (E : Cfg) (p : Parser) (v : Verdict) : Prop :=
  (AtStopHdr E p.raw v ∧ p.pay = 0 ∧ p.pad = 0) ∨
    (v = .more ∧ ¬ (p.pay = 0 ∧ p.pad = 0 ∧ ∃ v', AtStopHdr E p.raw v'))

/-- In a terminal state nothing more can be extracted from `raw`. -/
theorem ref_terminal {E : Cfg} {p : Parser} (h : Terminal E p) :
    ∃ v, ref E p.state p.pay p.pad p.raw = ⟨[], [], v, p.raw⟩ ∧ Terminal.verdictIs E p v := by
  by_cases hstop : p.pay = 0 ∧ p.pad = 0 ∧ ∃ v', AtStopHdr E p.raw v'
  · obtain ⟨h1, h2, v, hv⟩ := hstop
    refine ⟨v, ?_, Or.inl ⟨hv, h1, h2⟩⟩
    rw [h1, h2]
    simpa using ref_atStop hv p.state []
  · refine ⟨.more, ?_, Or.inr ⟨rfl, hstop⟩⟩
    rcases h with h | ⟨h1, h2, h3 | ⟨v, hv⟩⟩ | ⟨v, h1, h2, h3⟩
    · rw [h]; exact ref_nil E _ _ _
    · rw [h1, h2]; exact ref_short E _ h3
    · exact absurd ⟨h1, h2, v, hv⟩ hstop
    · rw [h1, ref_pay_short E _ _ (by omega) h2]
      simp only [stateC, partialRest]
      rw [nvall_stuck h3]

/-! ## The invariant of a `parse` call -/

/-- `ref` of what is still to come is constant along a call, up to what was delivered / queued
so far: `T` is the target (content, replies, verdict, unread of the whole call). -/
def RI (E : Cfg) (fut : Bytes) (b : Bool) (T : RefOut) (p : Parser) (res : Status) : Prop :=
  Match E p ∧
  got b p res ++ (ref E p.state p.pay p.pad (p.raw ++ fut)).content = T.content ∧
  p.output ++ (ref E p.state p.pay p.pad (p.raw ++ fut)).out = T.out ∧
  (ref E p.state p.pay p.pad (p.raw ++ fut)).verdict = T.verdict ∧
  (ref E p.state p.pay p.pad (p.raw ++ fut)).unread = T.unread ∧
  (res.streamEnd = true → p.pay = 0 ∧ p.pad = 0 ∧ AtStopHdr E p.raw .eos)

theorem RI.step {E : Cfg} {fut : Bytes} {b : Bool} {T : RefOut} {p : Parser} {res : Status}
    (h : RI E fut b T p res) (hne : ¬ res.streamEnd = true)
    {p' : Parser} {res' : Status} {d o : Bytes} {st' : SState} {pay' pad' : Nat} {raw' : Bytes}
    (e1 : p'.request = p.request) (e2 : p'.stream = p.stream) (e3 : p'.maxConns = p.maxConns)
    (es : p'.state = st') (ep : p'.pay = pay') (epd : p'.pad = pad') (er : p'.raw = raw')
    (hg : got b p' res' = got b p res ++ d) (ho : p'.output = p.output ++ o)
    (href : ref E p.state p.pay p.pad (p.raw ++ fut) = (ref E st' pay' pad' (raw' ++ fut)).pre d o)
    (hse : res'.streamEnd = res.streamEnd) : RI E fut b T p' res' := by
  obtain ⟨hm, hC, hO, hV, hU, -⟩ := h
  rw [href] at hC hO hV hU
  unfold RI
  rw [es, ep, epd, er]
  refine ⟨hm.of_eq e1 e2 e3, ?_, ?_, hV, hU, ?_⟩
  · rw [hg, List.append_assoc]; exact hC
  · rw [ho, List.append_assoc]; exact hO
  · intro h'; rw [hse] at h'; exact absurd h' hne

/-- What one step of the loop body keeps. -/
def StepRI (E : Cfg) (fut : Bytes) (T : RefOut) (dest : Option Nat) : Iter → Prop
  | .cont p' _ r' => RI E fut dest.isSome T p' r'
  | .stop p' r' => RI E fut dest.isSome T p' r' ∧ (dest.isSome = false → Terminal E p')
  | .err p' e => (∃ r', RI E fut dest.isSome T p' r') ∧ p'.pay = 0 ∧ p'.pad = 0 ∧
      AtStopHdr E p'.raw (.err e)
  | .panic _ => False

theorem StepRI.ite {E fut T dest} {cnd : Prop} [Decidable cnd] {p2 : Parser}
    {d2 : Option Nat} {r2 : Status} (hI : RI E fut dest.isSome T p2 r2)
    (hL : ¬ cnd → dest.isSome = false → Terminal E p2) :
    StepRI E fut T dest (if cnd then .cont p2 d2 r2 else .stop p2 r2) := by
  split
  · exact hI
  · rename_i hc; exact ⟨hI, hL hc⟩

theorem ref_adv_raw (E : Cfg) {st : SState} (hst : ∀ v, st ≠ .values v) {pay : Nat} (pad : Nat)
    (raw fut : Bytes) {k : Nat} (hk1 : k ≤ pay) (hk2 : k ≤ raw.length) :
    ref E st pay pad (raw ++ fut) =
      (ref E st (pay - k) pad (raw.drop k ++ fut)).pre (stateC st (raw.take k)) [] := by
  rw [ref_adv E hst pad hk1 (by simp only [List.length_append]; omega),
    List.drop_append_of_le_length hk2, List.take_append_of_le_length hk2]

theorem ref_adv_pad_raw (E : Cfg) (st st' : SState) {pad : Nat} (raw fut : Bytes) {k : Nat}
    (hk1 : k ≤ pad) (hk2 : k ≤ raw.length) :
    ref E st 0 pad (raw ++ fut) = ref E st' 0 (pad - k) (raw.drop k ++ fut) := by
  rw [ref_adv_pad E st st' hk1 (by simp only [List.length_append]; omega),
    List.drop_append_of_le_length hk2]

theorem ref_values_done_raw (E : Cfg) (v : Nat) (st' : SState) {pay : Nat} (pad : Nat)
    (raw fut : Bytes) (hpos : 0 < pay) (hle : pay ≤ raw.length) :
    ref E (.values v) pay pad (raw ++ fut) =
      (ref E st' 0 pad (raw.drop pay ++ fut)).pre []
        (Vars.responseRecord (Vars.extend v (NV.all (raw.take pay)).1) E.mc) := by
  rw [ref_values_done E v st' pad hpos (by simp only [List.length_append]; omega),
    List.drop_append_of_le_length hle, List.take_append_of_le_length hle]

/-- **`parse_payload` keeps the invariant.** -/
theorem parsePayload_ri {E fut T} (p : Parser) (dest : Option Nat) (res : Status)
    (h : RI E fut dest.isSome T p res) (hpay : 0 < p.pay) :
    StepRI E fut T dest (parsePayload p dest res) := by
  have hne : ¬ res.streamEnd = true := fun hs => by have := (h.2.2.2.2.2 hs).1; omega
  unfold parsePayload
  cases hst : p.state with
  | stream =>
    have hnv : ∀ v, SState.stream ≠ .values v := fun v hv => by cases hv
    cases dest with
    | some cap =>
      simp only []
      split
      · exfalso; omega
      · have hk1 : min (min p.pay p.raw.length) cap ≤ p.pay := by omega
        have hk2 : min (min p.pay p.raw.length) cap ≤ p.raw.length := by omega
        refine StepRI.ite ?_ (fun _ hd => by cases hd)
        refine h.step hne (d := p.raw.take (min (min p.pay p.raw.length) cap)) (o := [])
          rfl rfl rfl rfl rfl rfl rfl ?_ (by simp) ?_ rfl
        · simp only [got, Option.isSome_some, if_true, List.take_take]
          rw [Nat.min_eq_left (Nat.min_le_left _ _)]
        · rw [hst]; exact ref_adv_raw E hnv p.pad p.raw fut hk1 hk2
    | none =>
      simp only []
      split
      · exfalso; omega
      · have hk1 : min p.pay p.raw.length ≤ p.pay := by omega
        have hk2 : min p.pay p.raw.length ≤ p.raw.length := by omega
        refine StepRI.ite ?_ ?_
        · refine h.step hne (d := p.raw.take (min p.pay p.raw.length)) (o := [])
            rfl rfl rfl rfl rfl rfl rfl ?_ (by simp) ?_ rfl
          · simp [got]
          · rw [hst]; exact ref_adv_raw E hnv p.pad p.raw fut hk1 hk2
        · intro hc _
          simp only [Bool.and_eq_true, beq_iff_eq, decide_eq_true_eq] at hc
          exact Or.inl (List.drop_eq_nil_of_le (by omega))
  | skip =>
    have hnv : ∀ v, SState.skip ≠ .values v := fun v hv => by cases hv
    simp only []
    split
    · exfalso; omega
    · have hk1 : min p.pay p.raw.length ≤ p.pay := by omega
      have hk2 : min p.pay p.raw.length ≤ p.raw.length := by omega
      refine StepRI.ite ?_ ?_
      · refine h.step hne (d := []) (o := []) rfl rfl rfl rfl rfl rfl rfl ?_ (by simp) ?_ rfl
        · cases dest <;> simp [got]
        · rw [hst]; exact ref_adv_raw E hnv p.pad p.raw fut hk1 hk2
      · intro hc _
        simp only [Bool.and_eq_true, beq_iff_eq, decide_eq_true_eq] at hc
        exact Or.inl (List.drop_eq_nil_of_le (by omega))
  | values v =>
    by_cases hlt : p.raw.length < p.pay
    · have hmin : min p.pay p.raw.length = p.raw.length := by omega
      have hrest := nvall_rest_le p.raw
      obtain ⟨a0, ha0⟩ := C16.rest_suffix p.raw
      have hdrop : p.raw.drop (p.raw.length - (NV.all p.raw).2.length) = (NV.all p.raw).2 := by
        have hl : p.raw.length - (NV.all p.raw).2.length = a0.length := by
          have := congrArg List.length ha0
          simp only [List.length_append] at this; omega
        rw [hl]
        conv => lhs; rw [ha0]
        exact List.drop_left
      simp only [hlt, if_true, hmin, List.take_length]
      split
      · exfalso; omega
      · split
        · rename_i hc
          exfalso
          simp only [Bool.and_eq_true, beq_iff_eq, decide_eq_true_eq] at hc
          omega
        · refine ⟨h.step hne (d := []) (o := []) rfl rfl rfl rfl rfl rfl rfl ?_ (by simp) ?_ rfl, ?_⟩
          · cases dest <;> simp [got]
          · rw [hst, hdrop]; exact ref_values_more E v p.pad p.raw fut hlt
          · intro _
            refine Or.inr (Or.inr ⟨_, rfl, ?_, ?_⟩)
            · simp only [hdrop]; omega
            · simp only [hdrop]; exact C16.stops_for_good p.raw
    · have hmin : min p.pay p.raw.length = p.pay := by omega
      simp only [hlt, if_false, hmin]
      split
      · exfalso; omega
      · refine StepRI.ite ?_ ?_
        · refine h.step hne (d := [])
            (o := Vars.responseRecord (Vars.extend v (NV.all (p.raw.take p.pay)).1) p.maxConns)
            rfl rfl rfl rfl rfl rfl rfl ?_ rfl ?_ rfl
          · cases dest <;> simp [got]
          · rw [hst, h.1.mc, Nat.sub_self]
            exact ref_values_done_raw E v _ p.pad p.raw fut hpay (by omega)
        · intro hc _
          simp only [Bool.and_eq_true, beq_iff_eq, decide_eq_true_eq] at hc
          exact Or.inl (List.drop_eq_nil_of_le (by omega))

/-- **`parse_head` keeps the invariant**; `Err e` exactly in front of a header classified
`stop (err e)`, `stream_end` exactly in front of one classified `stop eos`. -/
theorem parseHead_ri {E fut T} (q : Parser) (d : Option Nat) (r : Status) (hpay : q.pay = 0)
    (hpad : q.pad = 0) (h : RI E fut d.isSome T q r) : StepRI E fut T d (parseHead q d r) := by
  by_cases hlen : q.raw.length < 8
  · rw [parseHead_short hlen]
    exact ⟨h, fun _ => Or.inr (Or.inl ⟨hpay, hpad, Or.inl hlen⟩)⟩
  · obtain ⟨b0, b1, b2, b3, b4, b5, b6, b7, rest, hraw⟩ := cons8_of_len hlen
    have hh := parseHead_hclass h.1 hraw d r
    cases hc : hclass E b0 b1 b2 b3 b4 b5 with
    | stop v =>
      rw [hc] at hh
      have hat : AtStopHdr E q.raw v := ⟨b0, b1, b2, b3, b4, b5, b6, b7, rest, hraw, hc⟩
      cases v with
      | more => exact hh.elim
      | eos =>
        rw [parseHead_held hh]
        obtain ⟨hm, hC, hO, hV, hU, -⟩ := h
        exact ⟨⟨hm, hC, hO, hV, hU, fun _ => ⟨hpay, hpad, hat⟩⟩,
          fun _ => Or.inr (Or.inl ⟨hpay, hpad, Or.inr ⟨_, hat⟩⟩)⟩
      | err e =>
        rw [parseHead_of_headErr d r hh]
        exact ⟨⟨r, h⟩, hpay, hpad, hat⟩
    | pass st o =>
      rw [hc] at hh
      have hne : ¬ r.streamEnd = true := fun hs => by
        obtain ⟨c0, c1, c2, c3, c4, c5, c6, c7, rest', he, hc'⟩ := (h.2.2.2.2.2 hs).2.2
        rw [hraw] at he
        simp only [List.cons.injEq] at he
        obtain ⟨rfl, rfl, rfl, rfl, rfl, rfl, rfl, rfl, rfl⟩ := he
        rw [hc] at hc'; cases hc'
      obtain ⟨p', r', hit, e1, e2, e3, e4, e5, e6, e7, e8, e9, e10, e11⟩ := hh
      rw [hit]
      refine h.step hne (d := []) (o := o) e7 e8 e9 e4 e2 e3 e1 ?_ e5 ?_ e11
      · simp [got, e6, e10]
      · rw [hpay, hpad, hraw]
        simp only [List.cons_append]
        rw [ref_hdr, hc]

/-! ## Padding, one iteration, the loop -/

theorem StepRI.trans {E fut T} {p q : Parser} {dest d : Option Nat} {res r : Status} {it : Iter}
    (hrel : Rel p dest res q d r) (h : StepRI E fut T d it) : StepRI E fut T dest it := by
  cases it with
  | cont p' d' r' => simp only [StepRI] at h ⊢; rw [← hrel.dsome]; exact h
  | stop p' r' => simp only [StepRI] at h ⊢; rw [← hrel.dsome]; exact h
  | err p' e => simp only [StepRI] at h ⊢; rw [← hrel.dsome]; exact h
  | panic s => exact h

/-- The padding step followed by `parse_head`. -/
theorem padHead_ri {E fut T} (q : Parser) (d : Option Nat) (r : Status) (hpay : q.pay = 0)
    (h : RI E fut d.isSome T q r) :
    StepRI E fut T d
      (if q.pad > 0 then
        if q.raw.length ≤ q.pad then
          .stop { q with raw := [], g1 := q.g1 + q.raw.length, pad := q.pad - q.raw.length } r
        else parseHead { q with raw := q.raw.drop q.pad, g1 := q.g1 + q.pad, pad := 0 } d r
      else parseHead q d r) := by
  split
  · rename_i hpos
    have hne : ¬ r.streamEnd = true := fun hs => by have := (h.2.2.2.2.2 hs).2.1; omega
    split
    · rename_i hle
      refine ⟨h.step hne (d := []) (o := []) rfl rfl rfl rfl rfl rfl rfl ?_ (by simp) ?_ rfl,
        fun _ => Or.inl rfl⟩
      · cases d <;> simp [got]
      · rw [hpay]
        have := ref_adv_pad_raw E q.state q.state q.raw fut hle (Nat.le_refl _)
        rw [List.drop_length] at this
        rw [this]; rfl
    · rename_i hgt
      refine parseHead_ri _ d r hpay rfl ?_
      refine h.step hne (d := []) (o := []) rfl rfl rfl rfl rfl rfl rfl ?_ (by simp) ?_ rfl
      · cases d <;> simp [got]
      · rw [hpay]
        have := ref_adv_pad_raw E q.state q.state q.raw fut (Nat.le_refl q.pad) (by omega)
        rw [Nat.sub_self] at this
        rw [this]; rfl
  · exact parseHead_ri q d r hpay (by omega) h

/-- **One iteration of the loop body keeps the invariant.** -/
theorem iter_ri {E fut T} (p : Parser) (dest : Option Nat) (res : Status)
    (h : RI E fut dest.isSome T p res) : StepRI E fut T dest (iter p dest res) := by
  unfold iter
  by_cases hpay : p.pay > 0
  · simp only [hpay, if_true]
    have hp := parsePayload_ri p dest res h hpay
    have hg := parsePayload_good p dest res
    cases hpp : parsePayload p dest res with
    | cont q d r =>
      rw [hpp] at hp hg
      obtain ⟨hrel, -, hq, -⟩ := hg
      simp only [StepRI] at hp
      rw [← hrel.dsome] at hp
      exact StepRI.trans hrel (padHead_ri q d r hq hp)
    | stop q r => rw [hpp] at hp; exact hp
    | err q e => rw [hpp] at hp; exact hp
    | panic s => rw [hpp] at hp; exact hp.elim
  · simp only [hpay, if_false]
    exact padHead_ri p dest res (by omega) h

/-- What the loop returns. -/
def LoopRI (E : Cfg) (fut : Bytes) (T : RefOut) (dest : Option Nat) : Parser × ParseRes → Prop
  | (p', .ok st) => RI E fut dest.isSome T p' st ∧ (dest.isSome = false → Terminal E p')
  | (p', .err e) => (∃ r', RI E fut dest.isSome T p' r') ∧ p'.pay = 0 ∧ p'.pad = 0 ∧
      AtStopHdr E p'.raw (.err e)
  | (_, .panic _) => False

theorem LoopRI.trans {E fut T} {p q : Parser} {dest d : Option Nat} {res r : Status}
    {out : Parser × ParseRes} (hrel : Rel p dest res q d r) (h : LoopRI E fut T d out) :
    LoopRI E fut T dest out := by
  obtain ⟨p', pr⟩ := out
  cases pr with
  | ok st => simp only [LoopRI] at h ⊢; rw [← hrel.dsome]; exact h
  | err e => simp only [LoopRI] at h ⊢; rw [← hrel.dsome]; exact h
  | panic s => exact h

/-- **The loop keeps the invariant.** -/
theorem loop_ri {E fut T} (p : Parser) (dest : Option Nat) (res : Status)
    (h : RI E fut dest.isSome T p res) : LoopRI E fut T dest (loop p dest res) := by
  generalize hn : p.raw.length = n
  induction n using Nat.strongRecOn generalizing p dest res with
  | _ n ih =>
    rw [loop]
    split
    · rename_i hemp
      simp only [List.isEmpty_iff] at hemp
      exact ⟨h, fun _ => Or.inl hemp⟩
    · have hi := iter_ri p dest res h
      have hg := iter_good p dest res
      cases hit : iter p dest res with
      | cont p' d' r' =>
        rw [hit] at hi hg
        obtain ⟨h1, h2, -⟩ := hg
        simp only [if_pos h2]
        simp only [StepRI] at hi
        rw [← h1.dsome] at hi
        exact LoopRI.trans h1 (ih _ (by omega) p' d' r' hi rfl)
      | stop p' r' => rw [hit] at hi; exact hi
      | err p' e => rw [hit] at hi; exact hi
      | panic s => rw [hit] at hi; exact hi.elim

/-! ## One `parse` call -/

/-- Stream bytes a call makes available to the caller: what a successful `parse` reports as
written into `dest`, resp. what the call appended to the internal stream buffer (whether it
returned `Ok` or `Err`: the buffer keeps them).  A failing call into `dest` reports nothing — its
`Status` is lost with the `Err`. -/
def availOp (p : Parser) : Op → Bytes
  | .parse new dest =>
    match dest with
    | none => (p.parse new none).1.parsed.drop p.parsed.length
    | some n =>
      match p.parse new (some n) with
      | (_, .ok st) => st.delivered
      | _ => []
  | _ => []

/-- **Ledger of available stream bytes** over an operation history. -/
def availOps : Parser → List Op → Bytes
  | _, [] => []
  | p, op :: t => availOp p op ++ availOps (applyOp p op) t

/-- **One legal `parse` call** against the reference.  `T` = the reference on everything still to
come before the call (`p.raw ++ new ++ fut`), `R'` = the same after it.  `lost` = stream bytes the
call wrote into `dest` before failing (not reported to the caller; `[]` unless the call returned
`Err` with `dest = Some`). -/
theorem parse_ri {E : Cfg} {fut : Bytes} {p : Parser} {new : Bytes} {dest : Option Nat}
    (hm : Match E p) (hinv : SInv p) (hd : dest = none ∨ p.parsed = []) (hfree : new.length ≤ p.free) :
    ∃ lost, Match E (p.parse new dest).1 ∧
      availOp p (.parse new dest) ++ lost ++
          (ref E (p.parse new dest).1.state (p.parse new dest).1.pay (p.parse new dest).1.pad
            ((p.parse new dest).1.raw ++ fut)).content =
        (ref E p.state p.pay p.pad (p.raw ++ (new ++ fut))).content ∧
      C03S.outGrowth p (.parse new dest) ++
          (ref E (p.parse new dest).1.state (p.parse new dest).1.pay (p.parse new dest).1.pad
            ((p.parse new dest).1.raw ++ fut)).out =
        (ref E p.state p.pay p.pad (p.raw ++ (new ++ fut))).out ∧
      (ref E (p.parse new dest).1.state (p.parse new dest).1.pay (p.parse new dest).1.pad
            ((p.parse new dest).1.raw ++ fut)).verdict =
        (ref E p.state p.pay p.pad (p.raw ++ (new ++ fut))).verdict ∧
      (ref E (p.parse new dest).1.state (p.parse new dest).1.pay (p.parse new dest).1.pad
            ((p.parse new dest).1.raw ++ fut)).unread =
        (ref E p.state p.pay p.pad (p.raw ++ (new ++ fut))).unread ∧
      (dest = none → lost = [] ∧ Terminal E (p.parse new dest).1) ∧
      (match (p.parse new dest).2 with
       | .ok st => lost = [] ∧ (st.streamEnd = true →
           (p.parse new dest).1.pay = 0 ∧ (p.parse new dest).1.pad = 0 ∧
             AtStopHdr E (p.parse new dest).1.raw .eos)
       | .err e => (p.parse new dest).1.pay = 0 ∧ (p.parse new dest).1.pad = 0 ∧
           AtStopHdr E (p.parse new dest).1.raw (.err e)
       | .panic _ => False) := by
  have hfr := parse_frame p new dest
  have hI : RI E fut dest.isSome
      ((ref E p.state p.pay p.pad (p.raw ++ (new ++ fut))).pre
        (got dest.isSome (p.feed new) (initStatus p)) p.output) (p.feed new) (initStatus p) := by
    refine ⟨hm.of_eq rfl rfl rfl, ?_, ?_, ?_, ?_, fun h => ?_⟩
    · simp only [Parser.feed, List.append_assoc]; rfl
    · simp only [Parser.feed, List.append_assoc]; rfl
    · simp only [Parser.feed, List.append_assoc]; rfl
    · simp only [Parser.feed, List.append_assoc]; rfl
    · simp [initStatus, hm.strm] at h
  have hl := loop_ri (p.feed new) dest (initStatus p) hI
  rw [← parse_eq_loop p new dest hinv.1 hd hfree] at hl
  obtain ⟨-, -, -, -, -, ⟨o, ho⟩, ⟨x, hx⟩⟩ := hfr
  have hog : C03S.outGrowth p (.parse new dest) = o := by
    simp only [C03S.outGrowth]; rw [← ho, List.drop_left]
  -- common conclusions from an `RI` at the end of the call
  have key : ∀ (r' : Status), RI E fut dest.isSome
      ((ref E p.state p.pay p.pad (p.raw ++ (new ++ fut))).pre
        (got dest.isSome (p.feed new) (initStatus p)) p.output) (p.parse new dest).1 r' →
      Match E (p.parse new dest).1 ∧
      (got dest.isSome (p.parse new dest).1 r' ++
          (ref E (p.parse new dest).1.state (p.parse new dest).1.pay (p.parse new dest).1.pad
            ((p.parse new dest).1.raw ++ fut)).content =
        got dest.isSome (p.feed new) (initStatus p) ++
          (ref E p.state p.pay p.pad (p.raw ++ (new ++ fut))).content) ∧
      C03S.outGrowth p (.parse new dest) ++
          (ref E (p.parse new dest).1.state (p.parse new dest).1.pay (p.parse new dest).1.pad
            ((p.parse new dest).1.raw ++ fut)).out =
        (ref E p.state p.pay p.pad (p.raw ++ (new ++ fut))).out ∧
      (ref E (p.parse new dest).1.state (p.parse new dest).1.pay (p.parse new dest).1.pad
            ((p.parse new dest).1.raw ++ fut)).verdict =
        (ref E p.state p.pay p.pad (p.raw ++ (new ++ fut))).verdict ∧
      (ref E (p.parse new dest).1.state (p.parse new dest).1.pay (p.parse new dest).1.pad
            ((p.parse new dest).1.raw ++ fut)).unread =
        (ref E p.state p.pay p.pad (p.raw ++ (new ++ fut))).unread := by
    rintro r' ⟨hm', hC, hO, hV, hU, -⟩
    refine ⟨hm', hC, ?_, hV, hU⟩
    rw [hog]
    rw [← ho] at hO
    simp only [RefOut.pre_out, List.append_assoc] at hO
    exact List.append_cancel_left hO
  -- the delivered part, by `dest`
  have hnone : dest = none → ∀ r', (got dest.isSome (p.parse new dest).1 r' ++
        (ref E (p.parse new dest).1.state (p.parse new dest).1.pay (p.parse new dest).1.pad
          ((p.parse new dest).1.raw ++ fut)).content =
      got dest.isSome (p.feed new) (initStatus p) ++
        (ref E p.state p.pay p.pad (p.raw ++ (new ++ fut))).content) →
      availOp p (.parse new dest) ++ [] ++
        (ref E (p.parse new dest).1.state (p.parse new dest).1.pay (p.parse new dest).1.pad
          ((p.parse new dest).1.raw ++ fut)).content =
      (ref E p.state p.pay p.pad (p.raw ++ (new ++ fut))).content := by
    intro hdn r' hC
    subst hdn
    simp only [got, Option.isSome_none, Bool.false_eq_true, if_false, Parser.feed] at hC
    simp only [availOp, List.append_nil]
    rw [← hx] at hC ⊢
    rw [List.append_assoc] at hC
    rw [List.drop_left]
    exact List.append_cancel_left hC
  cases hp : p.parse new dest with
  | mk p' pr =>
    rw [hp] at hl key hnone
    simp only at key hnone ⊢
    cases pr with
    | panic s => exact hl.elim
    | ok st =>
      obtain ⟨hri, hterm⟩ := hl
      obtain ⟨k1, k2, k3, k4, k5⟩ := key st hri
      refine ⟨[], k1, ?_, k3, k4, k5, ?_, rfl, hri.2.2.2.2.2⟩
      · cases dest with
        | none => exact hnone rfl st k2
        | some n =>
          simp only [availOp, hp, List.append_nil]
          simpa [got, initStatus] using k2
      · intro hdn; subst hdn; exact ⟨rfl, hterm rfl⟩
    | err e =>
      obtain ⟨⟨r', hri⟩, h1, h2, h3⟩ := hl
      obtain ⟨k1, k2, k3, k4, k5⟩ := key r' hri
      cases dest with
      | none =>
        exact ⟨[], k1, hnone rfl r' k2, k3, k4, k5,
          fun _ => ⟨rfl, Or.inr (Or.inl ⟨h1, h2, Or.inr ⟨_, h3⟩⟩)⟩, h1, h2, h3⟩
      | some n =>
        refine ⟨r'.delivered, k1, ?_, k3, k4, k5, fun hdn => (by cases hdn), h1, h2, h3⟩
        simp only [availOp, hp, List.nil_append]
        simpa [got, initStatus] using k2

end Fcgi.Str
