import Fcgi.Proofs.ReqBasics
import Fcgi.Proofs.ParamsStream
/-!
# Split / resumability of the `State::drive` loop (`run`)

Feeding `d1` and then continuing on "what was left of `d1`" followed by `d2` is the same as
feeding `d1 ++ d2` at once (`run_split`).  Two per-state obligations:

* S1 (`step_cont_append`): a `Continue` is stable under extension of the data;
* S2 (`step_brk_append`): the state a `Break` leaves is a valid resume point — one `step` of it on
  "remainder ++ d2" is the `step` of the original state on `d1 ++ d2` (up to the output already
  produced).
-/
namespace Fcgi.Req
open Fcgi Fcgi.VarInt

/-! ## Lists -/

theorem drop_app {d1 : Bytes} (d2 : Bytes) {n : Nat} (h : n ≤ d1.length) :
    (d1 ++ d2).drop n = d1.drop n ++ d2 := List.drop_append_of_le_length h

theorem take_app {d1 : Bytes} (d2 : Bytes) {n : Nat} (h : n ≤ d1.length) :
    (d1 ++ d2).take n = d1.take n := List.take_append_of_le_length h

theorem drop_app_ge {d1 : Bytes} (d2 : Bytes) {n : Nat} (h : d1.length ≤ n) :
    (d1 ++ d2).drop n = d2.drop (n - d1.length) := by
  rw [List.drop_append, List.drop_of_length_le h]; rfl

theorem take_app_ge {d1 : Bytes} (d2 : Bytes) {n : Nat} (h : d1.length ≤ n) :
    (d1 ++ d2).take n = d1 ++ d2.take (n - d1.length) := by
  rw [List.take_append, List.take_of_length_le h]

/-! ## `try_head!` looks at the first eight bytes only -/

theorem tryHead_append {c : Ctx} {d1 : Bytes} (d2 : Bytes) (h : 8 ≤ d1.length) :
    tryHead c (d1 ++ d2) = tryHead c d1 := by
  match d1, h with
  | b0 :: b1 :: b2 :: b3 :: b4 :: b5 :: b6 :: b7 :: t, _ => rfl

theorem tryHead_not_short {c : Ctx} {d : Bytes} (h : tryHead c d ≠ .short) : 8 ≤ d.length := by
  match d, h with
  | [], h | [_], h | [_, _], h | [_, _, _], h | [_, _, _, _], h | [_, _, _, _, _], h
  | [_, _, _, _, _, _], h | [_, _, _, _, _, _, _], h => exact absurd rfl h
  | b0 :: b1 :: b2 :: b3 :: b4 :: b5 :: b6 :: b7 :: t, _ => simp

/-! ## `HeaderState::drive` -/

/-- Three-way behaviour of `headerDrive` under extension of the data: it is waiting for more
bytes (nothing consumed, nothing emitted), or it continues — stably —, or it failed — stably. -/
theorem headerDrive_append (d1 d2 : Bytes) :
    headerDrive d1 = (.brk d1 .header, []) ∨
    (∃ r s o, headerDrive d1 = (.cont r s, o) ∧ headerDrive (d1 ++ d2) = (.cont (r ++ d2) s, o)) ∨
    (∃ r e, headerDrive d1 = (.brk r (.fatal e), []) ∧
      headerDrive (d1 ++ d2) = (.brk (r ++ d2) (.fatal e), [])) := by
  cases ht : tryHead .hdr d1 with
  | short => left; simp only [headerDrive, ht]
  | fatal e =>
    have h8 : 8 ≤ d1.length := tryHead_not_short (by rw [ht]; simp)
    have ht2 : tryHead .hdr (d1 ++ d2) = .fatal e := by rw [tryHead_append d2 h8, ht]
    right; right
    exact ⟨d1, e, by simp only [headerDrive, ht], by simp only [headerDrive, ht2]⟩
  | unknownType o st =>
    have h8 : 8 ≤ d1.length := tryHead_not_short (by rw [ht]; simp)
    have ht2 : tryHead .hdr (d1 ++ d2) = .unknownType o st := by rw [tryHead_append d2 h8, ht]
    right; left
    exact ⟨d1.drop 8, st, o, by simp only [headerDrive, ht],
      by simp only [headerDrive, ht2, drop_app d2 h8]⟩
  | ok head =>
    have h8 : 8 ≤ d1.length := tryHead_not_short (by rw [ht]; simp)
    have ht2 : tryHead .hdr (d1 ++ d2) = .ok head := by rw [tryHead_append d2 h8, ht]
    by_cases hb : (head.rtype == RT.beginRequest) = true
    · by_cases hc : head.contentLength ≠ 8
      · right; right
        exact ⟨d1, .invalidRequestLen head.contentLength, by simp only [headerDrive, ht, hb, if_pos hc, if_true],
          by simp only [headerDrive, ht2, hb, if_pos hc, if_true]⟩
      · by_cases h16 : d1.length < 16
        · left; simp only [headerDrive, ht, hb, if_neg hc, if_pos h16, if_true]
        · have h16' : ¬ (d1 ++ d2).length < 16 := by simp only [List.length_append]; omega
          have h16'' : 16 ≤ d1.length := by omega
          have e1 : ((d1 ++ d2).drop 8).take 8 = (d1.drop 8).take 8 := by
            rw [drop_app d2 h8, take_app d2 (by simp only [List.length_drop]; omega)]
          have hA : ∀ br, BeginRequest.fromBytes ((d1.drop 8).take 8) = br → headerDrive d1 =
              match br with
              | some (.error (.unknownRole _)) =>
                ((.cont (d1.drop 16) (Ctx.hdr.intoSkip 0 head.paddingLength)),
                  EndRequest.toRecord { appStatus := 0, protocolStatus := 3 } head.requestId)
              | some (.ok body) =>
                if head.requestId == 0 then (.brk (d1.drop 16) (.fatal .nullRequest), [])
                else (.cont (d1.drop 16) (.params { req := Request.new head.requestId body, buffer := [] } 0 head.paddingLength), [])
              | _ => (.brk (d1.drop 16) (.fatal .protocol), []) := by
            intro br hbr
            simp only [headerDrive, ht, hb, if_neg hc, if_neg h16, if_true, hbr]
            rcases br with _ | (e | body)
            · rfl
            · cases e <;> rfl
            · rfl
          have hB : ∀ br, BeginRequest.fromBytes ((d1.drop 8).take 8) = br → headerDrive (d1 ++ d2) =
              match br with
              | some (.error (.unknownRole _)) =>
                ((.cont (d1.drop 16 ++ d2) (Ctx.hdr.intoSkip 0 head.paddingLength)),
                  EndRequest.toRecord { appStatus := 0, protocolStatus := 3 } head.requestId)
              | some (.ok body) =>
                if head.requestId == 0 then (.brk (d1.drop 16 ++ d2) (.fatal .nullRequest), [])
                else (.cont (d1.drop 16 ++ d2) (.params { req := Request.new head.requestId body, buffer := [] } 0 head.paddingLength), [])
              | _ => (.brk (d1.drop 16 ++ d2) (.fatal .protocol), []) := by
            intro br hbr
            simp only [headerDrive, ht2, hb, if_neg hc, if_neg h16', if_true, e1, drop_app d2 h16'', hbr]
            rcases br with _ | (e | body)
            · rfl
            · cases e <;> rfl
            · rfl
          rw [hA _ rfl, hB _ rfl]
          split
          · right; left; exact ⟨_, _, _, rfl, rfl⟩
          · split
            · right; right; exact ⟨_, _, rfl, rfl⟩
            · right; left; exact ⟨_, _, _, rfl, rfl⟩
          · right; right; exact ⟨_, _, rfl, rfl⟩
    · by_cases hg : (head.rtype == RT.getValues && head.isManagement) = true
      · right; left
        exact ⟨_, _, _, by simp only [headerDrive, ht, hb, hg, if_true]; rfl,
          by simp only [headerDrive, ht2, hb, hg, if_true, drop_app d2 h8]; rfl⟩
      · right; left
        exact ⟨_, _, _, by simp only [headerDrive, ht, hb, hg]; rfl,
          by simp only [headerDrive, ht2, hb, hg, drop_app d2 h8]; rfl⟩

/-! ## Record-header phase of `ParamsState::drive` -/

theorem recPhase_append (i : Inner) (d1 d2 : Bytes) :
    recPhase i d1 = (.brk d1 (.params i 0 0), []) ∨
    (∃ r s o, recPhase i d1 = (.cont r s, o) ∧ recPhase i (d1 ++ d2) = (.cont (r ++ d2) s, o)) ∨
    (∃ e, recPhase i d1 = (.brk d1 (.fatal e), []) ∧
      recPhase i (d1 ++ d2) = (.brk (d1 ++ d2) (.fatal e), [])) := by
  cases ht : tryHead (.par i) d1 with
  | short => left; simp only [recPhase, ht]
  | fatal e =>
    have h8 : 8 ≤ d1.length := tryHead_not_short (by rw [ht]; simp)
    have ht2 : tryHead (.par i) (d1 ++ d2) = .fatal e := by rw [tryHead_append d2 h8, ht]
    right; right
    exact ⟨e, by simp only [recPhase, ht], by simp only [recPhase, ht2]⟩
  | unknownType o st =>
    have h8 : 8 ≤ d1.length := tryHead_not_short (by rw [ht]; simp)
    have ht2 : tryHead (.par i) (d1 ++ d2) = .unknownType o st := by rw [tryHead_append d2 h8, ht]
    right; left
    exact ⟨d1.drop 8, st, o, by simp only [recPhase, ht],
      by simp only [recPhase, ht2, drop_app d2 h8]⟩
  | ok head =>
    have h8 : 8 ≤ d1.length := tryHead_not_short (by rw [ht]; simp)
    have ht2 : tryHead (.par i) (d1 ++ d2) = .ok head := by rw [tryHead_append d2 h8, ht]
    right; left
    refine ⟨d1.drop 8, ?_⟩
    simp only [recPhase, ht, ht2, drop_app d2 h8]
    repeat' split
    all_goals exact ⟨_, _, rfl, rfl⟩

/-! ## `SkipState::drive` -/

theorem skipDrive_cont_append {c : Ctx} {pay pad : Nat} {d1 r : Bytes} {s : State} (d2 : Bytes)
    (h : skipDrive c pay pad d1 = .cont r s) :
    skipDrive c pay pad (d1 ++ d2) = .cont (r ++ d2) s := by
  unfold skipDrive at h ⊢
  split at h
  · cases h
  · split at h
    · split at h <;> cases h
    · cases h
      rename_i h1 h2
      rw [if_neg (by simp only [List.length_append]; omega),
        if_neg (by simp only [List.length_append]; omega), drop_app d2 (by omega)]

/-- The skip state left by a `Break` continues on the following bytes exactly as the original
state would have on all of them. -/
theorem skipDrive_brk_append {c : Ctx} {pay pad : Nat} {d1 r : Bytes} {s : State} (d2 : Bytes)
    (h : skipDrive c pay pad d1 = .brk r s) :
    r = [] ∧ ∃ pay' pad', s = .skip c pay' pad' ∧
      skipDrive c pay pad (d1 ++ d2) = skipDrive c pay' pad' d2 := by
  unfold skipDrive at h
  split at h
  · cases h
    rename_i h1
    refine ⟨rfl, _, _, rfl, ?_⟩
    unfold skipDrive
    simp only [List.length_append]
    by_cases c1 : d1.length + d2.length < pay
    · have a1 : d2.length < pay - d1.length := by omega
      rw [if_pos c1, if_pos a1]; congr 2; omega
    · have a1 : ¬ d2.length < pay - d1.length := by omega
      rw [if_neg c1, if_neg a1]
      by_cases c2 : d1.length + d2.length < pay + pad
      · have a2 : d2.length < pay - d1.length + pad := by omega
        have a3 : d1.length + d2.length - pay ≤ pad := by omega
        have a4 : d2.length - (pay - d1.length) ≤ pad := by omega
        rw [if_pos c2, if_pos a2, if_pos a3, if_pos a4]; congr 2; omega
      · have a2 : ¬ d2.length < pay - d1.length + pad := by omega
        rw [if_neg c2, if_neg a2, drop_app_ge d2 (by omega)]
        congr 2; omega
  · split at h
    · split at h
      · cases h
        rename_i h1 h2 h3
        refine ⟨rfl, _, _, rfl, ?_⟩
        unfold skipDrive
        simp only [List.length_append]
        have a0 : ¬ d1.length + d2.length < pay := by omega
        have a1 : ¬ d2.length < 0 := by omega
        rw [if_neg a0, if_neg a1]
        by_cases c2 : d1.length + d2.length < pay + pad
        · have a2 : d2.length < 0 + (pad - (d1.length - pay)) := by omega
          have a3 : d1.length + d2.length - pay ≤ pad := by omega
          have a4 : d2.length - 0 ≤ pad - (d1.length - pay) := by omega
          rw [if_pos c2, if_pos a2, if_pos a3, if_pos a4]; congr 2; omega
        · have a2 : ¬ d2.length < 0 + (pad - (d1.length - pay)) := by omega
          rw [if_neg c2, if_neg a2, drop_app_ge d2 (by omega)]
          congr 2; omega
      · cases h
    · cases h

/-! ## `GetValuesState::drive` -/

theorem extend_append (v : Nat) (a b : List (Bytes × Bytes)) :
    Vars.extend (Vars.extend v a) b = Vars.extend v (a ++ b) := by
  simp [Vars.extend, List.foldl_append]

/-- Payload incomplete. -/
theorem valuesDrive_lt {c : Ctx} {vars pay pad mc : Nat} {d : Bytes} (hp : 0 < pay)
    (hl : d.length < pay) :
    valuesDrive c vars pay pad d mc =
      (.brk (NV.all d).2
        (.values c (Vars.extend vars (NV.all d).1) (pay - (d.length - (NV.all d).2.length)) pad), []) := by
  have hm : min d.length pay = d.length := by omega
  have hle := all_rest_le d
  have hg : d.length - (NV.all d).2.length ≤ pay := by omega
  simp only [valuesDrive, gt_iff_lt, hp, if_true, hm, List.take_length, hl, hg]
  rw [← all_rest_eq_drop]

/-- Payload complete. -/
theorem valuesDrive_ge {c : Ctx} {vars pay pad mc : Nat} {d : Bytes} (hp : 0 < pay)
    (hl : pay ≤ d.length) :
    valuesDrive c vars pay pad d mc =
      if (d.drop pay).length < pad then
        (.brk [] (.values c (Vars.extend vars (NV.all (d.take pay)).1) 0 (pad - (d.drop pay).length)),
          Vars.responseRecord (Vars.extend vars (NV.all (d.take pay)).1) mc)
      else (.cont ((d.drop pay).drop pad) c.intoState,
          Vars.responseRecord (Vars.extend vars (NV.all (d.take pay)).1) mc) := by
  have hm : min d.length pay = pay := by omega
  have hl' : ¬ d.length < pay := by omega
  simp only [valuesDrive, gt_iff_lt, hp, if_true, hm, hl', if_false]

/-- No payload (left). -/
theorem valuesDrive_zero {c : Ctx} {vars pad mc : Nat} {d : Bytes} :
    valuesDrive c vars 0 pad d mc =
      if d.length < pad then (.brk [] (.values c vars 0 (pad - d.length)), [])
      else (.cont (d.drop pad) c.intoState, []) := by
  simp only [valuesDrive, gt_iff_lt, Nat.lt_irrefl, if_false]

theorem valuesDrive_cont_append {c : Ctx} {vars pay pad mc : Nat} {d1 r o : Bytes} {s : State}
    (d2 : Bytes) (h : valuesDrive c vars pay pad d1 mc = (.cont r s, o)) :
    valuesDrive c vars pay pad (d1 ++ d2) mc = (.cont (r ++ d2) s, o) := by
  by_cases hp : 0 < pay
  · by_cases hl : d1.length < pay
    · rw [valuesDrive_lt hp hl] at h; cases h
    · have hl' : pay ≤ d1.length := by omega
      rw [valuesDrive_ge hp hl'] at h
      rw [valuesDrive_ge hp (by simp only [List.length_append]; omega), take_app d2 hl',
        drop_app d2 hl']
      split at h
      · cases h
      · cases h
        rename_i hq
        simp only [List.length_drop] at hq
        rw [if_neg (by simp only [List.length_append, List.length_drop]; omega),
          drop_app d2 (by simp only [List.length_drop]; omega)]
  · have : pay = 0 := by omega
    subst this
    rw [valuesDrive_zero] at h
    rw [valuesDrive_zero]
    split at h
    · cases h
    · cases h
      rename_i hq
      rw [if_neg (by simp only [List.length_append]; omega), drop_app d2 (by omega)]

/-- The values state left by a `Break` resumes: one `drive` of it on "remainder ++ d2" does what
the original state does on `d1 ++ d2` (the reply record, if already written, is not written
again). -/
theorem valuesDrive_brk_append {c : Ctx} {vars pay pad mc : Nat} {d1 r o : Bytes} {s : State}
    (d2 : Bytes) (h : valuesDrive c vars pay pad d1 mc = (.brk r s, o)) :
    ∃ vars' pay' pad', s = .values c vars' pay' pad' ∧
      valuesDrive c vars pay pad (d1 ++ d2) mc =
        ((valuesDrive c vars' pay' pad' (r ++ d2) mc).1,
          o ++ (valuesDrive c vars' pay' pad' (r ++ d2) mc).2) := by
  by_cases hp : 0 < pay
  · by_cases hl : d1.length < pay
    · -- payload incomplete after `d1`
      rw [valuesDrive_lt hp hl] at h
      cases h
      refine ⟨_, _, _, rfl, ?_⟩
      have hle := all_rest_le d1
      generalize hrest : (NV.all d1).2 = rest1 at *
      generalize hpairs : (NV.all d1).1 = pairs1 at *
      have hall : ∀ x, NV.all (d1 ++ x) = (pairs1 ++ (NV.all (rest1 ++ x)).1, (NV.all (rest1 ++ x)).2) := by
        intro x; rw [C16.all_append, hrest, hpairs]
      have hp' : 0 < pay - (d1.length - rest1.length) := by omega
      by_cases c1 : d1.length + d2.length < pay
      · have hle3 := all_rest_le (rest1 ++ d2)
        simp only [List.length_append] at hle3
        rw [valuesDrive_lt hp (by simp only [List.length_append]; omega),
          valuesDrive_lt hp' (by simp only [List.length_append]; omega), hall, extend_append]
        simp only [List.length_append, List.nil_append]
        congr 3
        omega
      · have e1 : (d1 ++ d2).take pay = d1 ++ d2.take (pay - d1.length) := take_app_ge d2 (by omega)
        have e2 : (rest1 ++ d2).take (pay - (d1.length - rest1.length)) =
            rest1 ++ d2.take (pay - d1.length) := by
          rw [take_app_ge d2 (by omega)]; congr 2; omega
        have e3 : (d1 ++ d2).drop pay = d2.drop (pay - d1.length) := drop_app_ge d2 (by omega)
        have e4 : (rest1 ++ d2).drop (pay - (d1.length - rest1.length)) = d2.drop (pay - d1.length) := by
          rw [drop_app_ge d2 (by omega)]; congr 1; omega
        rw [valuesDrive_ge hp (by simp only [List.length_append]; omega),
          valuesDrive_ge hp' (by simp only [List.length_append]; omega), e1, e2, e3, e4, hall,
          extend_append]
        simp only [List.nil_append]
    · -- payload complete, padding incomplete
      have hl' : pay ≤ d1.length := by omega
      rw [valuesDrive_ge hp hl'] at h
      split at h
      · cases h
        rename_i hq
        refine ⟨_, _, _, rfl, ?_⟩
        rw [valuesDrive_ge hp (by simp only [List.length_append]; omega), take_app d2 hl',
          drop_app d2 hl', valuesDrive_zero]
        simp only [List.length_append, List.nil_append]
        by_cases c1 : (d1.drop pay).length + d2.length < pad
        · have a1 : d2.length < pad - (d1.drop pay).length := by omega
          rw [if_pos c1, if_pos a1]
          simp only [List.append_nil]
          congr 3; omega
        · have a1 : ¬ d2.length < pad - (d1.drop pay).length := by omega
          rw [if_neg c1, if_neg a1, drop_app_ge d2 (by omega)]
          simp only [List.append_nil]
      · cases h
  · have : pay = 0 := by omega
    subst this
    rw [valuesDrive_zero] at h
    split at h
    · cases h
      rename_i hq
      refine ⟨_, _, _, rfl, ?_⟩
      rw [valuesDrive_zero, valuesDrive_zero]
      simp only [List.length_append, List.nil_append]
      by_cases c1 : d1.length + d2.length < pad
      · have a1 : d2.length < pad - d1.length := by omega
        rw [if_pos c1, if_pos a1]
        congr 3; omega
      · have a1 : ¬ d2.length < pad - d1.length := by omega
        rw [if_neg c1, if_neg a1, drop_app_ge d2 (by omega)]
    · cases h

/-! ## `ParamsState::drive` -/

theorem payloadPhase_zero (i : Inner) (pad : Nat) (d : Bytes) :
    payloadPhase i 0 pad d = .ok (i, d) := by
  simp only [payloadPhase, gt_iff_lt, Nat.lt_irrefl, if_false]

theorem payloadPhase_lt {i i' : Inner} {pay pad n : Nat} {d : Bytes} (hp : 0 < pay)
    (hl : d.length < pay) (h : parseStream i d false = .ok i' n) :
    payloadPhase i pay pad d = .error (.brk (d.drop n) (.params i' (pay - n) pad), []) := by
  obtain ⟨i1, n1, hps, _, hn, _⟩ := parseStream_ok i d false
  rw [h] at hps; cases hps
  have hg : n ≤ pay ∧ n ≤ d.length := ⟨by omega, hn⟩
  simp only [payloadPhase, gt_iff_lt, hp, if_true, hl, h, hg, and_self]

theorem payloadPhase_ge {i i' : Inner} {pay pad n : Nat} {d : Bytes} (hp : 0 < pay)
    (hl : pay ≤ d.length) (h : parseStream i (d.take pay) true = .ok i' n) :
    payloadPhase i pay pad d = .ok (i', d.drop pay) := by
  obtain ⟨i1, n1, hps, _, _, he⟩ := parseStream_ok i (d.take pay) true
  rw [h] at hps; cases hps
  have hn : n = pay := by rw [he rfl, List.length_take]; omega
  subst hn
  have hl' : ¬ d.length < n := by omega
  simp only [payloadPhase, gt_iff_lt, hp, if_true, hl', if_false, h, ne_eq, not_true_eq_false]

/-- Once the payload phase falls through it does so again — with the same inner state — when more
data follows. -/
theorem payloadPhase_ok_append {i i' : Inner} {pay pad : Nat} {d1 d : Bytes} (d2 : Bytes)
    (h : payloadPhase i pay pad d1 = .ok (i', d)) :
    payloadPhase i pay pad (d1 ++ d2) = .ok (i', d ++ d2) := by
  rcases payloadPhase_ok h with ⟨rfl, rfl, rfl⟩ | ⟨hp, hl, rfl, hps, _⟩
  · exact payloadPhase_zero _ _ _
  · rw [payloadPhase_ge hp (by simp only [List.length_append]; omega)
      (by rw [take_app d2 hl]; exact hps), drop_app d2 hl]

theorem padPhase_ok_append {i : Inner} {pad : Nat} {d d' : Bytes} (d2 : Bytes)
    (h : padPhase i pad d = .ok d') : padPhase i pad (d ++ d2) = .ok (d' ++ d2) := by
  obtain ⟨rfl, hc⟩ := padPhase_ok h
  unfold padPhase
  rcases hc with rfl | hc
  · simp
  · have a1 : pad > 0 ∨ pad = 0 := by omega
    rcases a1 with a1 | rfl
    · rw [if_pos a1, if_neg (by simp only [List.length_append]; omega), drop_app d2 (by omega)]
    · simp

/-- After payload and padding have been passed, the record-header phase sees the same bytes
followed by the new ones. -/
theorem paramsDrive_rec_append {i i' : Inner} {pay pad : Nat} {d1 d d' : Bytes} (d2 : Bytes)
    (h1 : payloadPhase i pay pad d1 = .ok (i', d)) (h2 : padPhase i' pad d = .ok d') :
    paramsDrive i pay pad (d1 ++ d2) = recPhase i' (d' ++ d2) := by
  rw [paramsDrive_eq, payloadPhase_ok_append d2 h1]
  simp only [padPhase_ok_append d2 h2]

theorem paramsDrive_zero (i : Inner) (d : Bytes) : paramsDrive i 0 0 d = recPhase i d := by
  rw [paramsDrive_eq, payloadPhase_zero]
  simp only [padPhase, gt_iff_lt, Nat.lt_irrefl, if_false]

theorem paramsDrive_cont_append {i : Inner} {pay pad : Nat} {d1 r o : Bytes} {s : State}
    (d2 : Bytes) (h : paramsDrive i pay pad d1 = (.cont r s, o)) :
    paramsDrive i pay pad (d1 ++ d2) = (.cont (r ++ d2) s, o) := by
  rcases paramsDrive_cases i pay pad d1 with ⟨x, hp, he⟩ | ⟨i', d, hp, ⟨x, hq, he⟩ | ⟨d', hq, he⟩⟩
  · obtain ⟨_, _, _, _, _, _, _, hr⟩ := payloadPhase_error hp
    rw [he, hr] at h; cases h
  · obtain ⟨_, _, hr⟩ := padPhase_error hq
    rw [he, hr] at h; cases h
  · rw [paramsDrive_rec_append d2 hp hq]
    rw [he] at h
    rcases recPhase_append i' d' d2 with h0 | ⟨r', s', o', ha, hb⟩ | ⟨e, ha, _⟩
    · rw [h0] at h; cases h
    · rw [ha] at h; cases h; exact hb
    · rw [ha] at h; cases h

theorem step_params (i : Inner) (pay pad : Nat) (d : Bytes) (mc : Nat) :
    step (.params i pay pad) d mc = paramsDrive i pay pad d := rfl

theorem recPhase_nil (i : Inner) : recPhase i [] = (.brk [] (.params i 0 0), []) := rfl

/-- The state a `Break` of `ParamsState::drive` leaves resumes: one `step` of it on
"remainder ++ d2" is the `drive` of the original state on `d1 ++ d2`. -/
theorem paramsDrive_brk_append {i : Inner} {pay pad : Nat} {d1 r o : Bytes} {s : State}
    (d2 : Bytes) (mc : Nat) (hi : InnerOK i) (h : paramsDrive i pay pad d1 = (.brk r s, o)) :
    o = [] ∧ paramsDrive i pay pad (d1 ++ d2) = step s (r ++ d2) mc := by
  rcases paramsDrive_cases i pay pad d1 with ⟨x, hp, he⟩ | ⟨i', d, hp, ⟨x, hq, he⟩ | ⟨d', hq, he⟩⟩
  · -- payload incomplete after `d1`
    obtain ⟨i', n, hps, hok, hp0, hlt, hn, hr⟩ := payloadPhase_error hp
    rw [he, hr] at h; cases h
    refine ⟨rfl, ?_⟩
    rw [step_params]
    by_cases c1 : d1.length + d2.length < pay
    · obtain ⟨i2, k2, hps2, _, hk2, _⟩ := parseStream_ok i' (d1.drop n ++ d2) false
      have hres := parseStream_resume' i i' i2 d1 d2 false n k2 hi hps hps2
      simp only [List.length_append, List.length_drop] at hk2
      rw [paramsDrive_eq, paramsDrive_eq,
        payloadPhase_lt hp0 (by simp only [List.length_append]; omega) hres,
        payloadPhase_lt (by omega) (by simp only [List.length_append, List.length_drop]; omega) hps2]
      simp only []
      rw [← drop_app d2 hn, List.drop_drop, Nat.sub_sub]
    · have e1 : (d1 ++ d2).take pay = d1 ++ d2.take (pay - d1.length) := take_app_ge d2 (by omega)
      have e2 : (d1.drop n ++ d2).take (pay - n) = d1.drop n ++ d2.take (pay - d1.length) := by
        rw [take_app_ge d2 (by simp only [List.length_drop]; omega)]
        congr 2; simp only [List.length_drop]; omega
      have e3 : (d1 ++ d2).drop pay = d2.drop (pay - d1.length) := drop_app_ge d2 (by omega)
      have e4 : (d1.drop n ++ d2).drop (pay - n) = d2.drop (pay - d1.length) := by
        rw [drop_app_ge d2 (by simp only [List.length_drop]; omega)]
        congr 1; simp only [List.length_drop]; omega
      obtain ⟨i2, k2, hps2, _, _, _⟩ := parseStream_ok i' (d1.drop n ++ d2.take (pay - d1.length)) true
      have hres := parseStream_resume' i i' i2 d1 (d2.take (pay - d1.length)) true n k2 hi hps hps2
      rw [paramsDrive_eq, paramsDrive_eq,
        payloadPhase_ge hp0 (by simp only [List.length_append]; omega) (by rw [e1]; exact hres),
        payloadPhase_ge (by omega) (by simp only [List.length_append, List.length_drop]; omega)
          (by rw [e2]; exact hps2), e3, e4]
  · -- payload passed, padding incomplete after `d1`
    obtain ⟨hok, rfl⟩ := payloadPhase_ok_inner hi hp
    obtain ⟨hpad, hle, hr⟩ := padPhase_error hq
    rw [he, hr] at h; cases h
    refine ⟨rfl, ?_⟩
    rw [step_params, paramsDrive_eq, paramsDrive_eq, payloadPhase_ok_append d2 hp, payloadPhase_zero]
    simp only [List.nil_append]
    by_cases c1 : (d1.drop pay).length + d2.length ≤ pad
    · have a1 : padPhase i' pad (d1.drop pay ++ d2) =
          .error (.brk [] (.params i' 0 (pad - ((d1.drop pay).length + d2.length))), []) := by
        simp only [padPhase, gt_iff_lt, hpad, if_true, List.length_append, c1]
      by_cases c2 : 0 < pad - (d1.drop pay).length
      · have a2 : padPhase i' (pad - (d1.drop pay).length) d2 =
            .error (.brk [] (.params i' 0 (pad - (d1.drop pay).length - d2.length)), []) := by
          have : d2.length ≤ pad - (d1.drop pay).length := by omega
          simp only [padPhase, gt_iff_lt, c2, if_true, this]
        simp only [a1, a2, Nat.sub_sub]
      · have hd2 : d2 = [] := List.eq_nil_of_length_eq_zero (by omega)
        subst hd2
        have a2 : padPhase i' (pad - (d1.drop pay).length) [] = .ok [] := by
          simp only [padPhase, gt_iff_lt, c2, if_false]
        simp only [a1, a2, recPhase_nil, List.length_nil, Nat.add_zero]
        congr 3; omega
    · have a1 : padPhase i' pad (d1.drop pay ++ d2) = .ok (d2.drop (pad - (d1.drop pay).length)) := by
        simp only [padPhase, gt_iff_lt, hpad, if_true, List.length_append, c1, if_false]
        rw [drop_app_ge d2 hle]
      have a2 : padPhase i' (pad - (d1.drop pay).length) d2 =
          .ok (d2.drop (pad - (d1.drop pay).length)) := by
        by_cases c2 : 0 < pad - (d1.drop pay).length
        · have : ¬ d2.length ≤ pad - (d1.drop pay).length := by omega
          simp only [padPhase, gt_iff_lt, c2, if_true, this, if_false]
        · have : pad - (d1.drop pay).length = 0 := by omega
          simp only [padPhase, this, gt_iff_lt, Nat.lt_irrefl, if_false, List.drop_zero]
      simp only [a1, a2]
  · -- waiting for a record header / fatal header
    obtain ⟨hok, rfl⟩ := payloadPhase_ok_inner hi hp
    rw [paramsDrive_rec_append d2 hp hq]
    rw [he] at h
    rcases recPhase_append i' d' d2 with h0 | ⟨r', s', o', ha, _⟩ | ⟨e, ha, hb⟩
    · rw [h0] at h; cases h
      exact ⟨rfl, by rw [step_params, paramsDrive_zero]⟩
    · rw [ha] at h; cases h
    · rw [ha] at h; cases h
      exact ⟨rfl, by rw [hb, step_final _ _ rfl]⟩

/-! ## One iteration of the loop -/

theorem step_values {c : Ctx} (hc : ∀ r, c ≠ .dn r) (vars pay pad : Nat) (d : Bytes) (mc : Nat) :
    step (.values c vars pay pad) d mc = valuesDrive c vars pay pad d mc := by
  cases c with
  | dn r => exact absurd rfl (hc r)
  | hdr => rfl
  | par i => rfl

/-- **S1, continue-stability**: a `Continue` does not depend on what follows the bytes it looked at. -/
theorem step_cont_append {st s : State} {d1 r o : Bytes} {mc : Nat} (d2 : Bytes) (hw : WFState st)
    (h : step st d1 mc = (.cont r s, o)) : step st (d1 ++ d2) mc = (.cont (r ++ d2) s, o) := by
  cases st with
  | done r' => cases h
  | fatal e => cases h
  | header =>
    change headerDrive d1 = _ at h
    change headerDrive (d1 ++ d2) = _
    rcases headerDrive_append d1 d2 with h0 | ⟨r', s', o', ha, hb⟩ | ⟨r', e, ha, _⟩
    · rw [h0] at h; cases h
    · rw [ha] at h; cases h; exact hb
    · rw [ha] at h; cases h
  | skip c pay pad =>
    simp only [step, Prod.mk.injEq] at h ⊢
    exact ⟨skipDrive_cont_append d2 h.1, h.2⟩
  | values c vars pay pad =>
    rw [step_values hw.2.2.2.1] at h ⊢
    exact valuesDrive_cont_append d2 h
  | params i pay pad => exact paramsDrive_cont_append d2 h

/-- **S2, break-resumability**: the state a `Break` leaves is a valid resume point.  One `step` of
it on "remainder ++ d2" is the `step` of the original state on `d1 ++ d2`, except that output
already produced is not produced again. -/
theorem step_brk_append {st s : State} {d1 r o : Bytes} {mc : Nat} (d2 : Bytes) (hw : WFState st)
    (h : step st d1 mc = (.brk r s, o)) :
    step st (d1 ++ d2) mc = ((step s (r ++ d2) mc).1, o ++ (step s (r ++ d2) mc).2) := by
  cases st with
  | done r' => cases h; rfl
  | fatal e => cases h; rfl
  | header =>
    change headerDrive d1 = _ at h
    rcases headerDrive_append d1 d2 with h0 | ⟨r', s', o', ha, _⟩ | ⟨r', e, ha, hb⟩
    · rw [h0] at h; cases h; rfl
    · rw [ha] at h; cases h
    · rw [ha] at h; cases h
      change headerDrive (d1 ++ d2) = _
      rw [hb, step_final _ _ rfl]; rfl
  | skip c pay pad =>
    simp only [step, Prod.mk.injEq] at h
    obtain ⟨h1, rfl⟩ := h
    obtain ⟨rfl, pay', pad', rfl, hs⟩ := skipDrive_brk_append d2 h1
    simp only [step, hs, List.nil_append]
  | values c vars pay pad =>
    rw [step_values hw.2.2.2.1] at h ⊢
    obtain ⟨vars', pay', pad', rfl, hs⟩ := valuesDrive_brk_append d2 h
    rw [step_values hw.2.2.2.1]
    exact hs
  | params i pay pad =>
    obtain ⟨rfl, hs⟩ := paramsDrive_brk_append d2 mc hw.2.2 h
    rw [step_params, hs]; rfl

/-! ## The loop -/

theorem out_eta (x : Out) : { x with out := [] ++ x.out } = x := by
  cases x; rfl

/-- Resuming after a `Break`: run-level form of S2 (any `d2`, even empty). -/
theorem run_brk_resume {st s : State} {d1 r o : Bytes} {mc : Nat} (d2 : Bytes) (hw : WFState st)
    (hf : st.isFinal = false) (h : step st d1 mc = (.brk r s, o)) :
    run st (d1 ++ d2) mc =
      { run s (r ++ d2) mc with out := o ++ (run s (r ++ d2) mc).out } := by
  have hs := step_brk_append d2 hw h
  obtain ⟨hws, _⟩ := step_brk hw h
  cases hfs : s.isFinal with
  | true =>
    rw [step_final _ _ hfs] at hs
    rw [run_brk hf hs, run_final _ _ hfs]
  | false =>
    cases hstep : step s (r ++ d2) mc with
    | mk f o' =>
      rw [hstep] at hs
      cases f with
      | panic x => exact (step_no_panic hws hstep).elim
      | brk r' s' => rw [run_brk hf hs, run_brk hfs hstep]
      | cont r' s' =>
        by_cases hr : r' = []
        · subst hr; rw [run_cont_empty hs, run_cont_empty hstep]
        · rw [run_cont hw hs hr, run_cont hws hstep hr]
          simp only [List.append_assoc]

/-- **Split / resumability of `State::drive`.**  From a well-formed state, feeding `d1 ++ d2` at
once is the same as feeding `d1`, then continuing from the state reached on what `d1` left
unconsumed followed by `d2`: same remainder, same final state, same output in total.
(`d2 ≠ []`: see `run_split_nil` for the empty continuation.) -/
theorem run_split {st : State} (hw : WFState st) (d1 d2 : Bytes) (mc : Nat) (h2 : d2 ≠ []) :
    run st (d1 ++ d2) mc =
      { run (run st d1 mc).st ((run st d1 mc).rem ++ d2) mc with
        out := (run st d1 mc).out ++ (run (run st d1 mc).st ((run st d1 mc).rem ++ d2) mc).out } := by
  induction hm : 2 * d1.length + rank st using Nat.strongRecOn generalizing st d1 with
  | _ m ih =>
    subst hm
    cases hf : st.isFinal with
    | true =>
      rw [run_final d1 mc hf]
      simp only [List.nil_append]
    | false =>
      cases h : step st d1 mc with
      | mk f o =>
        cases f with
        | panic s => exact (step_no_panic hw h).elim
        | brk r s => rw [run_brk hf h]; exact run_brk_resume d2 hw hf h
        | cont r s =>
          obtain ⟨hws, hsuf, hg⟩ := step_cont hw h
          have hs := step_cont_append d2 hw h
          by_cases hr : r = []
          · subst hr
            rw [run_cont_empty h]
            rw [List.nil_append] at hs ⊢
            exact run_cont hw hs h2
          · have hr2 : r ++ d2 ≠ [] := by simp [hr]
            rw [run_cont hw h hr, run_cont hw hs hr2]
            have hrank := rank_le_one s
            have hrank' := rank_le_one st
            rw [ih (2 * r.length + rank s) (by omega) hws r rfl]
            simp only [List.append_assoc]

/-! ## The empty continuation: resting states

`State::drive` returns on `Continue` with an empty remainder *without* driving the new state.  The
state so left is a resting state; driving it on no data at all changes nothing — except for
`GetValuesState` with nothing left to read, which then hands over to its continuation. -/

theorem parseStream_nil {i : Inner} (hi : InnerOK i) : parseStream i [] false = .ok i 0 := by
  rw [parseStream_eq i [] false hi]
  obtain ⟨s1, s2⟩ := stall_bounds i.buffer []
  have hi' : NV.next (i.buffer ++ []) = none := by rw [List.append_nil]; exact hi
  simp only [psSpec, Bool.false_eq_true, if_false, hi', if_true]
  generalize stall i.buffer.length (i.buffer ++ []) = s at *
  simp only [List.append_nil] at s2 ⊢
  have : s = i.buffer.length := by omega
  subst this
  simp only [List.take_length, Nat.sub_self]

/-- Driving a well-formed state on no data: nothing happens, except that a values state with
nothing left to read continues to the state it wraps. -/
theorem run_nil {s : State} (hw : WFState s) (mc : Nat) :
    run s [] mc = { rem := [], st := s, out := [] } ∨
      ∃ c v, s = .values c v 0 0 ∧ run s [] mc = { rem := [], st := c.intoState, out := [] } := by
  cases s with
  | done r => exact Or.inl (run_final _ _ rfl)
  | fatal e => exact Or.inl (run_final _ _ rfl)
  | header => exact Or.inl (run_brk (st := .header) rfl rfl)
  | skip c pay pad =>
    left
    obtain ⟨h0, _⟩ := hw
    refine run_brk (st := .skip c pay pad) rfl ?_
    simp only [step, skipDrive, List.length_nil, Prod.mk.injEq, and_true]
    by_cases hp : 0 < pay
    · rw [if_pos hp]; rfl
    · have : pay = 0 := by omega
      subst this
      have hpad : 0 < 0 + pad := by omega
      simp only [Nat.lt_irrefl, if_false, hpad, if_true, Nat.sub_self, Nat.zero_le, Nat.sub_zero]
  | values c v pay pad =>
    have hc := hw.2.2.2.1
    by_cases hp : 0 < pay
    · left
      refine run_brk (st := .values c v pay pad) rfl ?_
      rw [step_values hc, valuesDrive_lt hp (by simpa using hp), all_nil]
      rfl
    · have : pay = 0 := by omega
      subst this
      by_cases hq : 0 < pad
      · left
        refine run_brk (st := .values c v 0 pad) rfl ?_
        rw [step_values hc, valuesDrive_zero, if_pos (by simpa using hq)]
        rfl
      · have : pad = 0 := by omega
        subst this
        right
        refine ⟨c, v, rfl, run_cont_empty (st := .values c v 0 0) (o := []) ?_⟩
        rw [step_values hc, valuesDrive_zero]
        rfl
  | params i pay pad =>
    left
    obtain ⟨_, _, hi⟩ := hw
    refine run_brk (st := .params i pay pad) rfl ?_
    rw [step_params, paramsDrive_eq]
    by_cases hp : 0 < pay
    · rw [payloadPhase_lt hp (by simpa using hp) (parseStream_nil hi)]
      rfl
    · have : pay = 0 := by omega
      subst this
      rw [payloadPhase_zero]
      by_cases hq : 0 < pad
      · simp only [padPhase, gt_iff_lt, hq, if_true, List.length_nil, Nat.zero_le, Nat.sub_zero]
      · have : pad = 0 := by omega
        subst this
        simp only [padPhase, gt_iff_lt, Nat.lt_irrefl, if_false, recPhase_nil]

/-- **The empty continuation.**  Running again on what a run left: nothing changes (the result of
`run` is a fixed point), except when the run stopped on a `Continue` with no data left in a values
state that has nothing more to read — that resting state hands over to its continuation. -/
theorem run_split_nil {st : State} (hw : WFState st) (d1 : Bytes) (mc : Nat) :
    run (run st d1 mc).st (run st d1 mc).rem mc =
        { rem := (run st d1 mc).rem, st := (run st d1 mc).st, out := [] } ∨
      ((run st d1 mc).rem = [] ∧ ∃ c v, (run st d1 mc).st = .values c v 0 0 ∧
        run (run st d1 mc).st (run st d1 mc).rem mc = { rem := [], st := c.intoState, out := [] }) := by
  induction hm : 2 * d1.length + rank st using Nat.strongRecOn generalizing st d1 with
  | _ m ih =>
    subst hm
    cases hf : st.isFinal with
    | true => rw [run_final d1 mc hf]; exact Or.inl (run_final _ _ hf)
    | false =>
      cases h : step st d1 mc with
      | mk f o =>
        cases f with
        | panic s => exact (step_no_panic hw h).elim
        | brk r s =>
          left
          have h1 := run_brk_resume [] hw hf h
          rw [List.append_nil, List.append_nil, run_brk hf h] at h1
          rw [run_brk hf h]
          simp only
          generalize run s r mc = x at h1
          cases x
          simp only [Out.mk.injEq] at h1 ⊢
          obtain ⟨h1a, h1b, ho, h1d⟩ := h1
          refine ⟨h1a.symm, h1b.symm, ?_, h1d.symm⟩
          have := congrArg List.length ho
          simp only [List.length_append] at this
          exact List.eq_nil_of_length_eq_zero (by omega)
        | cont r s =>
          obtain ⟨hws, hsuf, hg⟩ := step_cont hw h
          by_cases hr : r = []
          · subst hr
            rw [run_cont_empty h]
            simp only
            rcases run_nil hws mc with h0 | ⟨c, v, hs, h0⟩
            · exact Or.inl h0
            · exact Or.inr ⟨trivial, c, v, hs, h0⟩
          · rw [run_cont hw h hr]
            have hrank := rank_le_one s
            have hrank' := rank_le_one st
            exact ih (2 * r.length + rank s) (by omega) hws r rfl

/-- `run_split` without the side condition `d2 ≠ []`: false as stated. -/
def run_split_full : Prop :=
  ∀ (st : State) (d1 d2 : Bytes) (mc : Nat), WFState st →
    run st (d1 ++ d2) mc =
      { run (run st d1 mc).st ((run st d1 mc).rem ++ d2) mc with
        out := (run st d1 mc).out ++ (run (run st d1 mc).st ((run st d1 mc).rem ++ d2) mc).out }

/-- Counterexample: a `GetValues` management record with empty body and no padding, and nothing
after it.  The loop rests in `HeaderValues { payload_rem: 0, padding_rem: 0 }`; a further `drive`
on no data moves on to `Header`. -/
def exEmptyGetValues : Bytes := [1, 9, 0, 0, 0, 0, 0, 0]

theorem run_exEmptyGetValues :
    run .header exEmptyGetValues 1 = { rem := [], st := .values .hdr 0 0 0, out := [] } :=
  run_cont_empty (st := .header) (by decide)

theorem run_split_full_false : ¬ run_split_full := by
  intro h
  have h1 := h .header exEmptyGetValues [] 1 trivial
  rw [List.append_nil, run_exEmptyGetValues] at h1
  simp only [List.append_nil, List.nil_append] at h1
  have h2 : run (.values .hdr 0 0 0) [] 1 = { rem := [], st := .header, out := [] } :=
    run_cont_empty (st := .values .hdr 0 0 0) (o := []) (by decide)
  rw [h2] at h1
  cases h1

end Fcgi.Req
