import Fcgi.Proofs.C12Inv
import Fcgi.Props.C10
import Fcgi.Spec.Wire
import Fcgi.Proofs.ReqBasics
/-!
# Helper lemmas for `Props/C12Wf.lean`: everything the connection task writes is made of whole,
well-formed records

* `Whole bs`: `bs = serAll rs` for a list `rs` of well-formed records (`Spec.Rec.WF`).
* Every reply generator of the library yields a `Whole` byte string (`whole_unknown`,
  `whole_endRequest`, `whole_response` — for `maxConns < 2^64`, the Rust type is `usize` —,
  `whole_recordOf`, `whole_epilogue`).
* The request parser's and the stream parser's output only grows by `Whole` strings
  (`run_out_whole`, `reqParse_out`, `strParse_out`).
-/
namespace Fcgi.C12Inv
open Fcgi Fcgi.Req Fcgi.Str Fcgi.Async Fcgi.Run

/-! ## 1. Whole records -/

def AllWF (rs : List Spec.Rec) : Prop := ∀ r ∈ rs, r.WF

/-- a concatenation of complete, well-formed records -/
def Whole (bs : Bytes) : Prop := ∃ rs, AllWF rs ∧ bs = Spec.serAll rs

/-- a prefix of a concatenation of complete, well-formed records -/
def Pre (bs : Bytes) : Prop := ∃ tail, Whole (bs ++ tail)

theorem Whole.nil : Whole [] := ⟨[], nofun, rfl⟩

theorem Whole.append {a b : Bytes} (ha : Whole a) (hb : Whole b) : Whole (a ++ b) := by
  obtain ⟨ra, wa, rfl⟩ := ha
  obtain ⟨rb, wb, rfl⟩ := hb
  refine ⟨ra ++ rb, ?_, by simp [Spec.serAll]⟩
  intro r hr
  rcases List.mem_append.1 hr with h | h
  · exact wa r h
  · exact wb r h

theorem Whole.pre {a : Bytes} (h : Whole a) : Pre a := ⟨[], by simpa using h⟩
theorem Pre.of_whole {a b : Bytes} (h : Whole (a ++ b)) : Pre a := ⟨b, h⟩

theorem toBe16_mod (n : Nat) : toBe16 (n % 65536) = toBe16 n := by
  unfold toBe16
  congr 1
  · apply UInt8.toNat_inj.1
    simp [UInt8.toNat_ofNat']
    omega
  · congr 1
    apply UInt8.toNat_inj.1
    simp [UInt8.toNat_ofNat']

/-- header for content `c` and padding `p`, then `c`, then `p` -/
def recBytes (rt id : Nat) (c p : Bytes) : Bytes :=
  RecordHeader.toBytes ⟨rt, id, c.length, p.length⟩ ++ c ++ p

theorem whole_recBytes (rt id : Nat) {c p : Bytes} (hc : c.length < 65536) (hp : p.length < 256) :
    Whole (recBytes rt id c p) := by
  refine ⟨[{ rtype := UInt8.ofNat rt, id := id % 65536, content := c, pad := p }], ?_, ?_⟩
  · intro r hr
    rw [List.mem_singleton] at hr
    subst hr
    exact ⟨Nat.mod_lt _ (by decide), hc, hp⟩
  · simp only [Spec.serAll, List.flatMap_cons, List.flatMap_nil, List.append_nil, Spec.Rec.ser, recBytes,
      RecordHeader.toBytes, toBe16_mod]

theorem whole_unknown (t : UInt8) (id : Nat) : Whole (UnknownType.toRecord t id) := by
  have h8 : (UnknownType.toBytes t).length = 8 := rfl
  have := whole_recBytes RT.unknown id (c := UnknownType.toBytes t) (p := []) (by omega) (by decide)
  simpa [recBytes, UnknownType.toRecord, h8] using this

theorem whole_endRequest (e : EndRequest) (id : Nat) : Whole (e.toRecord id) := by
  have h8 : e.toBytes.length = 8 := C17.end_length e
  have := whole_recBytes RT.endRequest id (c := e.toBytes) (p := []) (by omega) (by decide)
  simpa [recBytes, EndRequest.toRecord, h8] using this

theorem whole_recordOf (rtype id : Nat) (payload : Bytes) (hp : payload.length ≤ 65535) :
    Whole (recordOf rtype id payload) := by
  have hpad := (C10.padding_ok payload.length).1
  have := whole_recBytes rtype id (c := payload) (p := zeros (RecordHeader.autoPadding payload.length))
    (by omega) (by simp [zeros]; omega)
  simpa [recBytes, recordOf, zeros] using this

theorem whole_emptyRecord (s id : Nat) : Whole (RecordHeader.new s id).toBytes := by
  have := whole_recBytes s id (c := []) (p := []) (by decide) (by decide)
  simpa [recBytes, RecordHeader.new] using this

theorem whole_epilogue (id : Nat) (status : ExitStatus) (streams : List Nat) :
    Whole (makeRequestEpilogue id status streams) := by
  unfold makeRequestEpilogue
  refine Whole.append ?_ (whole_endRequest _ _)
  induction streams with
  | nil => exact Whole.nil
  | cons s ss ih => simp only [List.flatMap_cons]; exact Whole.append (whole_emptyRecord s id) ih

theorem encode_length_le (v : Nat) : (VarInt.encode v).length ≤ 4 := by
  unfold VarInt.encode; split <;> simp

theorem enc_length_le (n v : Bytes) : (NV.enc (n, v)).length ≤ 8 + n.length + v.length := by
  rw [C16.enc_length]
  have := encode_length_le n.length
  have := encode_length_le v.length
  omega

theorem body_length (set mc : Nat) (h : mc < 2 ^ 64) : (Vars.body set mc).length ≤ 200 := by
  have hv : ∀ b, (Vars.value b mc).length ≤ 20 := by
    intro b; unfold Vars.value; split
    · simp
    · exact C17.decimal_length_u64 mc h
  obtain ⟨n1, n2, n3⟩ := C17.names_eq
  have l1 : Vars.nameMaxConns.length = 14 := by rw [n1]; rfl
  have l2 : Vars.nameMaxReqs.length = 13 := by rw [n2]; rfl
  have l3 : Vars.nameMpxsConns.length = 15 := by rw [n3]; rfl
  have e1 := enc_length_le Vars.nameMaxConns (Vars.value 1 mc)
  have e2 := enc_length_le Vars.nameMaxReqs (Vars.value 2 mc)
  have e3 := enc_length_le Vars.nameMpxsConns (Vars.value 4 mc)
  have := hv 1; have := hv 2; have := hv 4
  unfold Vars.body Vars.table
  simp only [List.filter_cons, List.filter_nil]
  split <;> split <;> split <;>
    simp only [List.flatMap_cons, List.flatMap_nil, List.length_append, List.length_nil] <;> omega

theorem whole_response (set mc : Nat) (h : mc < 2 ^ 64) : Whole (Vars.responseRecord set mc) := by
  have hb := body_length set mc h
  have hpad := (C10.padding_ok (Vars.body set mc).length).1
  have := whole_recBytes RT.getValuesResult 0 (c := Vars.body set mc)
    (p := zeros (RecordHeader.autoPadding (Vars.body set mc).length)) (by omega) (by simp [zeros]; omega)
  simpa [recBytes, Vars.responseRecord, RecordHeader.setLengths, RecordHeader.new, zeros] using this

/-! ## 2. The request parser's replies -/

theorem tryHead_out {ctx : Ctx} {inp o : Bytes} {st : State} (h : tryHead ctx inp = .unknownType o st) :
    Whole o := by
  unfold tryHead at h
  repeat' (split at h)
  all_goals first
    | (cases h; exact whole_unknown _ _)
    | cases h

macro "whole_leaf" : tactic => `(tactic| first
  | exact Whole.nil
  | exact whole_unknown _ _
  | exact whole_endRequest _ _
  | exact tryHead_out ‹_›)

theorem headerDrive_out (data : Bytes) : Whole (headerDrive data).2 := by
  unfold headerDrive
  repeat' (first | split | simp only [])
  all_goals whole_leaf

theorem valuesDrive_out (c : Ctx) (vars pay pad : Nat) (data : Bytes) (mc : Nat) (h : mc < 2 ^ 64) :
    Whole (valuesDrive c vars pay pad data mc).2 := by
  unfold valuesDrive
  repeat' (first | split | simp only [])
  all_goals first
    | exact Whole.nil
    | exact whole_response _ _ h

theorem payloadPhase_err {i : Inner} {pay pad : Nat} {data : Bytes} {r : Flow × Bytes}
    (h : payloadPhase i pay pad data = .error r) : r.2 = [] := by
  unfold payloadPhase at h
  repeat' (split at h)
  all_goals first
    | (cases h; rfl)
    | cases h

theorem padPhase_err {i : Inner} {pad : Nat} {data : Bytes} {r : Flow × Bytes}
    (h : padPhase i pad data = .error r) : r.2 = [] := by
  unfold padPhase at h
  repeat' (split at h)
  all_goals first
    | (cases h; rfl)
    | cases h

theorem recPhase_out (i : Inner) (data : Bytes) : Whole (recPhase i data).2 := by
  unfold recPhase
  repeat' (first | split | simp only [])
  all_goals whole_leaf

theorem paramsDrive_out (i : Inner) (pay pad : Nat) (data : Bytes) : Whole (paramsDrive i pay pad data).2 := by
  rw [paramsDrive_eq]
  split
  · rw [payloadPhase_err ‹_›]; exact Whole.nil
  · split
    · rw [padPhase_err ‹_›]; exact Whole.nil
    · exact recPhase_out _ _

theorem step_out (st : State) (data : Bytes) (mc : Nat) (h : mc < 2 ^ 64) : Whole (step st data mc).2 := by
  unfold step
  split
  all_goals first
    | exact Whole.nil
    | exact headerDrive_out _
    | exact valuesDrive_out _ _ _ _ _ _ h
    | exact paramsDrive_out _ _ _ _

theorem run_out_whole (st : State) (data : Bytes) (mc : Nat) (h : mc < 2 ^ 64) :
    Whole (run st data mc).out := by
  induction hm : 2 * data.length + rank st using Nat.strongRecOn generalizing st data with
  | _ m ih =>
    subst hm
    have hs := step_out st data mc h
    rw [run]
    split
    · exact Whole.nil
    · split
      · rename_i heq; rw [heq] at hs; exact hs
      · rename_i heq; rw [heq] at hs; exact hs
      · rename_i r s o heq
        rw [heq] at hs
        split
        · exact hs
        · split
          · rename_i hg
            refine Whole.append hs (ih _ ?_ s r rfl)
            have h1 : rank s ≤ 1 := by unfold rank; split <;> omega
            have h2 : rank st ≤ 1 := by unfold rank; split <;> omega
            rcases hg with hg | ⟨hg1, hg2⟩ <;> omega
          · exact hs

/-- `request::Parser::parse`: the replies it returns are whole records; `maxConns` is a constant. -/
theorem reqParse_out {rp rp' : Req.Parser} {bs : Bytes} {y : Yield} (hmc : rp.maxConns < 2 ^ 64)
    (h : rp.parse bs = (rp', some y)) : Whole y.output ∧ rp'.maxConns = rp.maxConns := by
  have hw := run_out_whole rp.state (rp.input ++ bs) rp.maxConns hmc
  unfold Req.Parser.parse at h
  dsimp only at h
  repeat' (split at h)
  all_goals first
    | (cases h; exact ⟨hw, rfl⟩)
    | cases h

/-! ## 3. The stream parser's replies -/

/-- the reply buffer grew by whole records; `maxConns` is a constant -/
def OutW (p p' : Str.Parser) : Prop :=
  (∃ o, p'.output = p.output ++ o ∧ Whole o) ∧ p'.maxConns = p.maxConns

theorem OutW.refl (p : Str.Parser) : OutW p p := ⟨⟨[], by simp, Whole.nil⟩, rfl⟩

theorem OutW.of_eq {p p' : Str.Parser} (h1 : p'.output = p.output) (h2 : p'.maxConns = p.maxConns) : OutW p p' :=
  ⟨⟨[], by simp [h1], Whole.nil⟩, h2⟩

theorem OutW.trans {a b c : Str.Parser} (h1 : OutW a b) (h2 : OutW b c) : OutW a c := by
  obtain ⟨⟨o1, e1, w1⟩, m1⟩ := h1
  obtain ⟨⟨o2, e2, w2⟩, m2⟩ := h2
  exact ⟨⟨o1 ++ o2, by rw [e2, e1, List.append_assoc], w1.append w2⟩, m2.trans m1⟩

theorem OutW.one {p p' : Str.Parser} {o : Bytes} (h1 : p'.output = p.output ++ o) (hw : Whole o)
    (h2 : p'.maxConns = p.maxConns) : OutW p p' := ⟨⟨o, h1, hw⟩, h2⟩

def IterOutW (p : Str.Parser) : Iter → Prop
  | .cont p' _ _ => OutW p p'
  | .stop p' _ => OutW p p'
  | .err p' _ => OutW p p'
  | .panic _ => True

theorem parseHead_outw (p : Str.Parser) (dest : Option Nat) (res : Status) :
    IterOutW p (parseHead p dest res) := by
  unfold parseHead
  repeat' (first | split | simp only [])
  all_goals first
    | exact OutW.refl _
    | exact OutW.of_eq rfl rfl
    | exact OutW.one rfl (whole_unknown _ _) rfl
    | exact OutW.one rfl (whole_endRequest _ _) rfl
    | trivial

theorem parsePayload_outw (p : Str.Parser) (dest : Option Nat) (res : Status) (hmc : p.maxConns < 2 ^ 64) :
    IterOutW p (parsePayload p dest res) := by
  unfold parsePayload
  repeat' (first | split | simp only [])
  all_goals first
    | exact OutW.refl _
    | exact OutW.of_eq rfl rfl
    | exact OutW.one rfl (whole_response _ _ hmc) rfl
    | trivial

theorem IterOutW.pre {p q : Str.Parser} {it : Iter} (h1 : OutW p q) (h2 : IterOutW q it) : IterOutW p it := by
  cases it with
  | cont p' d r => exact h1.trans h2
  | stop p' r => exact h1.trans h2
  | err p' e => exact h1.trans h2
  | panic s => trivial

theorem iter_outw (p : Str.Parser) (dest : Option Nat) (res : Status) (hmc : p.maxConns < 2 ^ 64) :
    IterOutW p (iter p dest res) := by
  unfold iter
  have key : ∀ (q : Str.Parser) (d : Option Nat) (r : Status), IterOutW q
      (if q.pad > 0 then
        if q.raw.length ≤ q.pad then
          .stop { q with raw := [], g1 := q.g1 + q.raw.length, pad := q.pad - q.raw.length } r
        else parseHead { q with raw := q.raw.drop q.pad, g1 := q.g1 + q.pad, pad := 0 } d r
      else parseHead q d r) := by
    intro q d r
    split
    · split
      · exact OutW.of_eq rfl rfl
      · exact IterOutW.pre (OutW.of_eq rfl rfl) (parseHead_outw _ _ _)
    · exact parseHead_outw _ _ _
  by_cases hpay : p.pay > 0
  · simp only [hpay, if_true]
    have hp := parsePayload_outw p dest res hmc
    cases hpp : parsePayload p dest res with
    | cont q d r => rw [hpp] at hp; exact IterOutW.pre hp (key q d r)
    | stop q r => rw [hpp] at hp; exact hp
    | err q e => rw [hpp] at hp; exact hp
    | panic s => trivial
  · simp only [hpay, if_false]
    exact key p dest res

theorem loop_outw (p : Str.Parser) (dest : Option Nat) (res : Status) (hmc : p.maxConns < 2 ^ 64) :
    OutW p (loop p dest res).1 := by
  generalize hn : p.raw.length = n
  induction n using Nat.strongRecOn generalizing p dest res with
  | _ n ih =>
    rw [loop]
    split
    · exact OutW.refl _
    · have hi := iter_outw p dest res hmc
      cases hit : iter p dest res with
      | cont p' d' r' =>
        rw [hit] at hi
        simp only []
        split
        · rename_i hlt
          exact hi.trans (ih _ (by omega) p' d' r' (by rw [hi.2]; exact hmc) rfl)
        · exact hi
      | stop p' r' => rw [hit] at hi; exact hi
      | err p' e => rw [hit] at hi; exact hi
      | panic s => exact OutW.refl _

/-- `stream::Parser::parse`: the reply buffer only grows by whole records. -/
theorem strParse_out (p : Str.Parser) (new : Bytes) (dest : Option Nat) (hmc : p.maxConns < 2 ^ 64) :
    OutW p (p.parse new dest).1 := by
  unfold Str.Parser.parse
  split
  · exact OutW.refl _
  · split
    · exact OutW.refl _
    · exact (OutW.of_eq (p' := { p with raw := p.raw ++ new }) rfl rfl).trans (loop_outw _ _ _ hmc)

end Fcgi.C12Inv
