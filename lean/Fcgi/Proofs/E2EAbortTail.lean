import Fcgi.Proofs.E2EAbortConn
/-!
# End-to-end composition (C11) — part 4: nothing follows the aborted request

`ATail`: the connection is inside (or at the start of) a `parse_request` whose whole wire is an
absorbed prefix `A` (`Absorb`): an aborted preamble, or the `AbortRequest` record the stream parser
left behind.  `tail_poll` / `run_tail`: `parse_request` swallows it, writes its replies `E`, and the
task returns at end-of-file (`RET`) resp. parks on an empty buffer (`STALL`) — no handler is
started, no script is consumed.  `run_abort_alone`: the aborted request of part 3 with KEEP_CONN and
nothing behind its `AbortRequest` record.
-/
namespace Fcgi.E2E
open Fcgi Fcgi.Req Fcgi.Str Fcgi.Async Fcgi.Run Fcgi.Spec

/-- what stays as it is while `parse_request` runs: the scripts, the handler starts so far, the
events `evs`, the end mode of the transport -/
structure Kept (sc : List (List HOp × Bool)) (h0 : Nat) (evs : List String) (em : EndMode) (c : Conn) : Prop where
  sc : c.scripts = sc
  hs : hsCount c.env.tr.events = h0
  ev : ∀ s ∈ evs, s ∈ c.env.tr.events
  em : c.env.tr.endMode = em

theorem Kept.frame {sc : List (List HOp × Bool)} {h0 : Nat} {evs : List String} {em : EndMode} {c c' : Conn}
    (h : Kept sc h0 evs em c) (hsc : c'.scripts = c.scripts) (ts : TStep c.env.tr c'.env.tr) :
    Kept sc h0 evs em c' :=
  ⟨hsc.trans h.sc, ts.hs.trans h.hs, fun s hs => ts.mem_events (h.ev s hs), ts.em.trans h.em⟩

theorem Kept.same {sc : List (List HOp × Bool)} {h0 : Nat} {evs : List String} {em : EndMode} {c c' : Conn}
    (h : Kept sc h0 evs em c) (hsc : c'.scripts = c.scripts) (ts : TrSame c.env.tr c'.env.tr) :
    Kept sc h0 evs em c' :=
  ⟨hsc.trans h.sc, ts.hs.trans h.hs, fun s hs => ts.mem (h.ev s hs), ts.em.trans h.em⟩

/-- inside (or at the start of) a `parse_request` whose whole wire is `A`; `L` = the log at its start -/
def ATail (cap mc : Nat) (A L : Bytes) (c : Conn) : Prop :=
  (∃ F, PSt cap mc A L [] c F) ∨
  (∃ raw, c.phase = .parseReq ⟨cap, raw, .header, mc⟩ .start ∧ raw ++ c.env.tr.input = A ∧
    raw.length ≤ cap ∧ c.env.tr.wlog = L ∧ Ben c.env.tr ∧ c.stop = false)

theorem ATail.cong {cap mc : Nat} {A L : Bytes} {c c' : Conn} (h : ATail cap mc A L c)
    (hph : c'.phase = c.phase) (hstop : c'.stop = c.stop) (hs : TrSame c.env.tr c'.env.tr) :
    ATail cap mc A L c' := by
  rcases h with ⟨F, hst⟩ | ⟨raw, a, b, c0, d, e, f⟩
  · exact Or.inl ⟨F, hst.cong hph hstop hs⟩
  · exact Or.inr ⟨raw, hph.trans a, by rw [hs.input]; exact b, c0, hs.wlog.trans d, hs.ben e, hstop.trans f⟩

/-- how the run ends when nothing follows -/
structure TailEnd (cap mc : Nat) (LE : Bytes) (sc : List (List HOp × Bool)) (h0 : Nat) (evs : List String)
    (em : EndMode) (c' : Conn) (fin : String) : Prop where
  log : c'.env.tr.wlog = LE
  kept : Kept sc h0 evs em c'
  fin : (fin = "RET" ∧ c'.phase = .finished ∧ em = .eof) ∨
        (fin = "STALL" ∧ c'.phase = .parseReq ⟨cap, [], .header, mc⟩ .reading ∧ c'.env.tr.input = [] ∧ em = .pend)

/-- the poll ends with the task returning, or parked (and not woken) -/
def QTail (cap mc : Nat) (A L E : Bytes) (sc : List (List HOp × Bool)) (h0 : Nat) (evs : List String)
    (em : EndMode) (N : Nat) (c : Conn) : Prop :=
  (∃ c', Halts N c c' .finished ∧ c'.env.segs = c.env.segs ∧ TailEnd cap mc (L ++ E) sc h0 evs em c' "RET") ∨
  (∃ c', Halts N c c' .pending ∧ Link c c' ∧ c'.env.tr.woken = c.env.tr.woken ∧
    ATail cap mc A L c' ∧ TailEnd cap mc (L ++ E) sc h0 evs em c' "STALL")

theorem tail_pst {cap mc : Nat} {A E L : Bytes} (h24 : 24 ≤ cap) (hab : Absorb cap mc A E)
    {sc : List (List HOp × Bool)} {h0 : Nat} {evs : List String} {em : EndMode}
    {c : Conn} {F : Bytes} (hst : PSt cap mc A L [] c F) (hk : Kept sc h0 evs em c) :
    (∃ c', Halts (2 * c.env.tr.input.length + 5) c c' .pending ∧ Link c c' ∧
      (ATail cap mc A L c' ∧ Kept sc h0 evs em c') ∧ c'.env.tr.woken = true ∧ ans c'.env.tr < ans c.env.tr) ∨
    QTail cap mc A L E sc h0 evs em (2 * c.env.tr.input.length + 5) c := by
  have hns : NoStuckW cap mc A := fun F hF => Or.inr (hab.small F hF)
  obtain ⟨n, c1, F1, hn, hs, hfr, hout⟩ := parse_loop h24 hns _ c F hst (Nat.le_refl _)
  have hnb : n ≤ 2 * c.env.tr.input.length + 2 := by have := wbit_le c; omega
  rcases hout with ⟨c2, h1, h2, h3, h4, h5⟩ | ⟨rest, t', _, hf, hw, _⟩ | ⟨hin, hnf, hph, hst1⟩
  · exact Or.inl ⟨c2, ⟨n, c1, by omega, hs, h1⟩, hfr.link.trans h3.link,
      ⟨Or.inl ⟨F1, h2⟩, (hk.frame hfr.scripts hfr.ts).frame h3.scripts h3.ts⟩, h4,
      by have := hfr.ts.ans_le; omega⟩
  · exfalso
    have hpre : F1 <+: A := ⟨c1.env.tr.input, by simpa using hw⟩
    rw [hab.nonfinal hpre] at hf
    cases hf
  · have hF1 : F1 = A := by
      have := hst1.wire
      rwa [hin, List.append_nil, List.append_nil] at this
    subst hF1
    have htrack : track cap mc F1 = ⟨cap, [], .header, mc⟩ := by
      simp only [track, hab.whole]
    rw [htrack] at hph
    have hstep := step_reading c1 _ hph hst1.stop
    have hfree : (⟨cap, [], .header, mc⟩ : Req.Parser).free = cap := by simp [Req.Parser.free]
    rw [hfree] at hstep
    have hlog1 : c1.env.tr.wlog = L ++ E := by
      rcases hst1.ph with ⟨_, _, h⟩ | ⟨rest, hp', _⟩
      · rw [h, hab.whole]
      · rw [hph, htrack] at hp'; cases hp'
    have hk1 := hk.frame hfr.scripts hfr.ts
    rcases hrd : c1.env.tr.read cap with ⟨t, res⟩
    rw [hrd] at hstep
    have hts := read_tstep hrd
    have hwl : t.wlog = c1.env.tr.wlog := by have := read_wlog c1.env.tr cap; rwa [hrd] at this
    have hk2 : Kept sc h0 evs em { c1 with env := { c1.env with tr := t } } := hk1.frame rfl hts
    cases res with
    | pending =>
      obtain ⟨hi, hw⟩ := read_pending hst1.ben hrd
      have hst2 : PSt cap mc F1 L [] { c1 with env := { c1.env with tr := t } } F1 :=
        ⟨by simpa [hi] using hst1.wire, hst1.stop, hst1.ben.step hts, hst1.rem,
          Or.inl ⟨by rw [htrack]; exact hph, hnf, by show t.wlog = _; rw [hwl, hlog1, hab.whole]⟩⟩
      rcases hw with hw | hw
      · exact Or.inl ⟨_, ⟨n, c1, by omega, hs, hstep⟩, hfr.link.trans ⟨hts.w, rfl, rfl⟩,
          ⟨Or.inl ⟨F1, hst2⟩, hk2⟩, hw.1, by show ans t < ans c.env.tr; have := hfr.ts.ans_le; omega⟩
      · rcases hfr.ts.wk with hwk | ⟨hwk, hans⟩
        · refine Or.inr (Or.inr ⟨_, ⟨n, c1, by omega, hs, hstep⟩, hfr.link.trans ⟨hts.w, rfl, rfl⟩, ?_,
            Or.inl ⟨F1, hst2⟩,
            ⟨by show t.wlog = _; rw [hwl, hlog1], hk2, Or.inr ⟨rfl, hph, by show t.input = []; rw [hi, hin], ?_⟩⟩⟩)
          · show t.woken = c.env.tr.woken
            rw [hw.2.2.2, hwk]
          · rw [← hk1.em]; exact hw.2.1
        · exact Or.inl ⟨_, ⟨n, c1, by omega, hs, hstep⟩, hfr.link.trans ⟨hts.w, rfl, rfl⟩,
            ⟨Or.inl ⟨F1, hst2⟩, hk2⟩, by show t.woken = true; rw [hw.2.2.2]; exact hwk,
            by show ans t < ans c.env.tr; have := hts.ans_le; omega⟩
    | ready x =>
      cases x with
      | error e => exact (read_error hst1.ben hrd).elim
      | ok bs =>
        obtain ⟨hinp, _, _, hz⟩ := read_ok_ben hst1.ben hrd
        have hbs : bs = [] := by
          rw [hin] at hinp
          exact (List.append_eq_nil_iff.1 hinp.symm).1
        subst hbs
        have heof : c1.env.tr.endMode = .eof := by
          rcases hz rfl with hz | hz
          · omega
          · exact hz.2
        refine Or.inr (Or.inl ⟨{ c1 with phase := .finished, env := { c1.env with tr := t } },
          ⟨n, c1, by omega, hs, hstep⟩, hfr.segs,
          ⟨by show t.wlog = _; rw [hwl, hlog1], hk1.frame rfl hts, Or.inl ⟨rfl, rfl, ?_⟩⟩⟩)
        rw [← hk1.em]; exact heof

/-- **One poll** of a `parse_request` that finds only the absorbed prefix `A`. -/
theorem tail_poll {cap mc : Nat} {A E L : Bytes} (h24 : 24 ≤ cap) (hab : Absorb cap mc A E)
    {sc : List (List HOp × Bool)} {h0 : Nat} {evs : List String} {em : EndMode}
    {c : Conn} (h : ATail cap mc A L c) (hk : Kept sc h0 evs em c) :
    (∃ c', Halts (2 * c.env.tr.input.length + 6) c c' .pending ∧ Link c c' ∧
      (ATail cap mc A L c' ∧ Kept sc h0 evs em c') ∧ c'.env.tr.woken = true ∧ ans c'.env.tr < ans c.env.tr) ∨
    QTail cap mc A L E sc h0 evs em (2 * c.env.tr.input.length + 6) c := by
  rcases h with ⟨F, hst⟩ | ⟨raw, hph, hwire, hraw, hlog, hb, hstop⟩
  · rcases tail_pst h24 hab hst hk with ⟨c', hh, r⟩ | h
    · exact Or.inl ⟨c', hh.mono (by omega), r⟩
    · rcases h with ⟨c', hh, r⟩ | ⟨c', hh, r⟩
      · exact Or.inr (Or.inl ⟨c', hh.mono (by omega), r⟩)
      · exact Or.inr (Or.inr ⟨c', hh.mono (by omega), r⟩)
  · have hpre : raw <+: A := ⟨c.env.tr.input, hwire⟩
    have hstart := start_track h24 hraw (Or.inr (hab.small raw hpre))
    have hstep := step_start c _ hph hstop
    rw [hstart] at hstep
    have hstep' : stepConn c = .next (mkC c (.parseReq (track cap mc raw)
        (.writing (run .header raw mc).out (run .header raw mc).st.isFinal)) c.env.tr) := hstep
    have hremle : (run .header raw mc).rem.length ≤ cap := by
      have := (run_ok raw mc (st := .header) trivial).2.2.length_le
      omega
    have hst : PSt cap mc A L [] (mkC c (.parseReq (track cap mc raw)
        (.writing (run .header raw mc).out (run .header raw mc).st.isFinal)) c.env.tr) raw :=
      ⟨by show raw ++ c.env.tr.input ++ [] = A
          rw [List.append_nil]; exact hwire,
        hstop, hb, hremle, Or.inr ⟨_, rfl, by show c.env.tr.wlog ++ _ = _; rw [hlog], [], rfl⟩⟩
    have hk' : Kept sc h0 evs em (mkC c (.parseReq (track cap mc raw)
        (.writing (run .header raw mc).out (run .header raw mc).st.isFinal)) c.env.tr) := hk.frame rfl (.refl _)
    have hone := Steps.one hstep'
    rcases tail_pst h24 hab hst hk' with ⟨c', hh, hl, r⟩ | h
    · exact Or.inl ⟨c', (hh.of_steps hone).mono (by show 1 + (2 * c.env.tr.input.length + 5) ≤ _; omega),
        (mkC_link c _ (.refl _)).trans hl, r⟩
    · rcases h with ⟨c', hh, r⟩ | ⟨c', hh, hl, r⟩
      · exact Or.inr (Or.inl ⟨c', (hh.of_steps hone).mono (by show 1 + (2 * c.env.tr.input.length + 5) ≤ _; omega), r⟩)
      · exact Or.inr (Or.inr ⟨c', (hh.of_steps hone).mono (by show 1 + (2 * c.env.tr.input.length + 5) ≤ _; omega),
          (mkC_link c _ (.refl _)).trans hl, r⟩)

/-- from `QTail` at the first poll to the end of `runTask` -/
theorem qtail_end {cap mc : Nat} {A L E : Bytes} {sc : List (List HOp × Bool)} {h0 : Nat} {evs : List String}
    {em : EndMode} {N : Nat} (c : Conn) (n f : Nat) (hsegs : c.env.segs = [])
    (hq : QTail cap mc A L E sc h0 evs em N (prePoll c n none)) (hN : N ≤ 100000) :
    ∃ c'' fin, runTask (f + 1) c n none = (c'', fin) ∧ TailEnd cap mc (L ++ E) sc h0 evs em c'' fin := by
  obtain ⟨hsame, hph, hsc, hstop, hmx, hsg, hwk⟩ := prePoll_same c n hsegs
  rcases hq with ⟨c', hh, hsg', hte⟩ | ⟨c', hh, hl, hw, _, hte⟩
  · have hpoll := hh.pollT hN
    exact ⟨c', "RET", by rw [runTask_succ, hpoll], hte⟩
  · have hpoll := hh.pollT hN
    have hw' : c'.env.tr.woken = false := hw.trans hwk
    have hsg'' : c'.env.segs = [] := hl.segs.trans hsg
    rw [runTask_succ, hpoll]
    simp only [hw', Bool.false_eq_true, if_false]
    rw [release_nil _ hsg'']
    simp only [hw', Bool.false_eq_true, if_false]
    refine ⟨_, "STALL", rfl, ?_⟩
    obtain ⟨hl, hk, hfin⟩ := hte
    exact ⟨hl, ⟨hk.sc, hk.hs, hk.ev, hk.em⟩, hfin⟩

/-- **The executor** on a `parse_request` that finds only the absorbed prefix `A`. -/
theorem run_tail {cap mc : Nat} {A E L : Bytes} (h24 : 24 ≤ cap) (hab : Absorb cap mc A E)
    {sc : List (List HOp × Bool)} {h0 : Nat} {evs : List String} {em : EndMode}
    (c : Conn) (n fuel : Nat) (h : ATail cap mc A L c) (hk : Kept sc h0 evs em c) (hsegs : c.env.segs = [])
    (hf : ans c.env.tr + 1 ≤ fuel) (hlen : 6 * c.env.tr.input.length + 26 ≤ 100000) :
    ∃ c'' fin, runTask fuel c n none = (c'', fin) ∧ TailEnd cap mc (L ++ E) sc h0 evs em c'' fin :=
  run_gen (fun c0 => ATail cap mc A L c0 ∧ Kept sc h0 evs em c0)
    (fun c0 => QTail cap mc A L E sc h0 evs em (2 * c0.env.tr.input.length + 6) c0)
    (fun c'' fin => TailEnd cap mc (L ++ E) sc h0 evs em c'' fin)
    (fun _ _ h a b c _ e => ⟨h.1.cong a c e, h.2.same b e⟩)
    (fun c0 h => by
      rcases tail_poll h24 hab h.1 h.2 with ⟨c', hh, r⟩ | hq
      · exact Or.inl ⟨c', hh.mono (by omega), r⟩
      · exact Or.inr hq)
    (fun c0 n0 f0 _ hsg hq _ hlen0 => by
      obtain ⟨hsame, _⟩ := prePoll_same c0 n0 hsg
      exact qtail_end c0 n0 f0 hsg hq (by rw [hsame.input]; omega))
    (ans c.env.tr) c n fuel ⟨h, hk⟩ hsegs (Nat.le_refl _) hf hlen

/-! ## The `AbortRequest` record the stream parser left behind -/

/-- While idle, an `AbortRequest` record (for whatever id) is swallowed without a reply. -/
theorem absorb_idle_abort {id : Nat} {a : Rec} (ha : IsAbort id a) (hid : id < 65536) {cap : Nat}
    (h16 : 16 ≤ cap) (mc : Nat) : Absorb cap mc a.ser [] := by
  have hwf : a.WF := isAbort_wf ha hid
  have hidle : IdleNoise a := ⟨hwf, fun hx => by rw [ha.1] at hx; exact absurd hx (by decide)⟩
  have howed : owed none mc a = [] := by
    simp [owed, ha.1, RT.valid, RT.getValues, RT.beginRequest]
  have hwhole : run .header a.ser mc = ⟨[], .header, [], none⟩ := by
    have h := header_noise a hidle [] mc
      (Or.inr (fun h => by simp [EmptyGetValues, ha.1, RT.getValues] at h))
    rw [List.append_nil, resting_header mc, howed] at h
    rw [h]; rfl
  refine ⟨hwhole, fun F hF => ?_⟩
  obtain ⟨t, ht⟩ := hF
  by_cases htn : t = []
  · subst htn
    rw [List.append_nil] at ht
    rw [ht, hwhole]
    simp only [List.length_nil]; omega
  · have hnf : (run .header F mc).st.isFinal = false := by
      apply nonfinal_of_append (st := .header) trivial (t := t)
      rw [ht, hwhole]; rfl
    rcases header_noise_partial a hidle mc ht htn hnf [] [] with h | ⟨T, pre, hT, hall⟩ | ⟨r, hr, hg, _⟩
    · omega
    · have hT' : T = [] := List.prefix_nil.1 hT
      rw [hT', all_nil] at hall
      have := (List.append_eq_nil_iff.1 hall.symm).2
      rw [this]; simp only [List.length_nil]; omega
    · rw [List.mem_singleton.1 hr] at hg
      exact absurd hg.1 (by rw [ha.1]; decide)

/-! ## The aborted request with KEEP_CONN and nothing behind its `AbortRequest` record -/

theorem QTail.of_steps {cap mc : Nat} {A L E : Bytes} {sc : List (List HOp × Bool)} {h0 : Nat}
    {evs : List String} {em : EndMode} {k N : Nat} {c c1 : Conn} (hs : Steps k c c1) (hl : Link c c1)
    (hq : QTail cap mc A L E sc h0 evs em N c1) :
    (∃ c', Halts (k + N) c c' .pending ∧ Link c c' ∧
      (ATail cap mc A L c' ∧ Kept sc h0 evs em c') ∧ c'.env.tr.woken = true ∧ ans c'.env.tr < ans c.env.tr) ∨
    QTail cap mc A L E sc h0 evs em (k + N) c := by
  rcases hq with ⟨c', hh, hsg, hte⟩ | ⟨c', hh, hl2, hw, hat, hte⟩
  · exact Or.inr (Or.inl ⟨c', hh.of_steps hs, hsg.trans hl.segs, hte⟩)
  · rcases hl.ts.wk with hwk | ⟨hwk, hans⟩
    · exact Or.inr (Or.inr ⟨c', hh.of_steps hs, hl.trans hl2, hw.trans hwk, hat, hte⟩)
    · exact Or.inl ⟨c', hh.of_steps hs, hl.trans hl2, ⟨hat, hte.kept⟩, hw.trans hwk,
        by have := hl2.ts.ans_le; omega⟩

/-- **With KEEP_CONN and nothing behind the `AbortRequest` record**: `runTask` started in a stage of
the aborted request closes it; the next `parse_request` swallows the `AbortRequest` record the
stream parser left unconsumed (no reply, no handler) and the task returns at end-of-file resp. parks
on an empty buffer. -/
theorem run_abort_alone {g : Cfg} {a : Rec} {pr : Bool} {rest : List HOp}
    (ok : AbOK g a [] pr rest) (hk : g.p.flags.toNat % 2 = 1) (em : EndMode) (c : Conn) (n fuel : Nat)
    (hst : BStage g pr rest c) (hem : c.env.tr.endMode = em) (hsegs : c.env.segs = [])
    (hf : ans c.env.tr + 1 ≤ fuel) (hlen : 6 * c.env.tr.input.length + 26 ≤ 100000) :
    ∃ c'' fin O1 O2 acc lost, runTask fuel c n none = (c'', fin) ∧ O1 ++ O2 = g.Ot ∧ acc ++ lost = g.content ∧
      TailEnd g.cap g.mc (g.LA O1 O2) g.more (g.hs0 + 1) [hsEvent g.p.request, raEvent acc] em c'' fin := by
  have hid := (pid_of_wf ok.wf).2
  have h24 := cap24 g
  have hab : Absorb g.cap g.mc a.ser [] := absorb_idle_abort ok.ab hid (by omega) g.mc
  obtain ⟨c'', fin, hrun, O1, O2, acc, lost, hO, hacc, hte⟩ := run_gen
    (fun c0 => (BStage g pr rest c0 ∧ c0.env.tr.endMode = em) ∨
      (∃ O1 O2 acc lost, O1 ++ O2 = g.Ot ∧ acc ++ lost = g.content ∧ ATail g.cap g.mc a.ser (g.LA O1 O2) c0 ∧
        Kept g.more (g.hs0 + 1) [hsEvent g.p.request, raEvent acc] em c0))
    (fun c0 => ∃ O1 O2 acc lost, O1 ++ O2 = g.Ot ∧ acc ++ lost = g.content ∧
      QTail g.cap g.mc a.ser (g.LA O1 O2) [] g.more (g.hs0 + 1) [hsEvent g.p.request, raEvent acc] em
        (4 * c0.env.tr.input.length + 16) c0)
    (fun c'' fin => ∃ O1 O2 acc lost, O1 ++ O2 = g.Ot ∧ acc ++ lost = g.content ∧
      TailEnd g.cap g.mc (g.LA O1 O2) g.more (g.hs0 + 1) [hsEvent g.p.request, raEvent acc] em c'' fin)
    (fun c0 c1 h a b c d e => by
      rcases h with ⟨h1, h2⟩ | ⟨O1, O2, acc, lost, hO, hacc, hat, hkp⟩
      · exact Or.inl ⟨h1.cong a b c d e, e.em.trans h2⟩
      · exact Or.inr ⟨O1, O2, acc, lost, hO, hacc, hat.cong a c e, hkp.same b e⟩)
    (fun c0 h => by
      rcases h with ⟨h1, h2⟩ | ⟨O1, O2, acc, lost, hO, hacc, hat, hkp⟩
      · rcases bstage_poll ok h1 with ⟨c', hh, hl, hS, hw, ha⟩ | ⟨k, c1, O1, O2, hk1, hs, hl, hO, haf⟩ |
            ⟨c', O1, O2, hh, hl, hO, hf⟩
        · exact Or.inl ⟨c', hh.mono (by omega), hl, Or.inl ⟨hS, hl.ts.em.trans h2⟩, hw, ha⟩
        · -- `close` is done: the next `parse_request` starts on the `AbortRequest` record
          obtain ⟨acc, lost, hacc, hmem⟩ := haf.ra
          obtain ⟨raw, hph, hw, hraw⟩ := haf.ph
          have hat : ATail g.cap g.mc a.ser (g.LA O1 O2) c1 :=
            Or.inr ⟨raw, hph, by rw [hw, ok.hU, List.append_nil], hraw, haf.log, haf.ben, haf.stop⟩
          have hkp : Kept g.more (g.hs0 + 1) [hsEvent g.p.request, raEvent acc] em c1 :=
            ⟨haf.sc, haf.ev.1, fun s hs => by
              rcases List.mem_cons.1 hs with rfl | hs
              · exact haf.ev.2
              · rw [List.mem_singleton.1 hs]; exact hmem, hl.ts.em.trans h2⟩
          have hin1 := hl.ts.inp
          rcases tail_poll h24 hab hat hkp with ⟨c', hh, hl2, hS, hw2, ha2⟩ | hq
          · exact Or.inl ⟨c', (hh.of_steps hs).mono (by omega), hl.trans hl2,
              Or.inr ⟨O1, O2, acc, lost, hO, hacc, hS.1, hS.2⟩, hw2, by have := hl.ts.ans_le; omega⟩
          · rcases QTail.of_steps hs hl hq with ⟨c', hh, hl2, hS, hw2, ha2⟩ | hq'
            · exact Or.inl ⟨c', hh.mono (by omega), hl2, Or.inr ⟨O1, O2, acc, lost, hO, hacc, hS.1, hS.2⟩, hw2, ha2⟩
            · refine Or.inr ⟨O1, O2, acc, lost, hO, hacc, ?_⟩
              rcases hq' with ⟨c', hh, r⟩ | ⟨c', hh, r⟩
              · exact Or.inl ⟨c', hh.mono (by omega), r⟩
              · exact Or.inr ⟨c', hh.mono (by omega), r⟩
        · have := hf.nokeep; omega
      · rcases tail_poll h24 hab hat hkp with ⟨c', hh, hl2, hS, hw2, ha2⟩ | hq
        · exact Or.inl ⟨c', hh.mono (by omega), hl2, Or.inr ⟨O1, O2, acc, lost, hO, hacc, hS.1, hS.2⟩, hw2, ha2⟩
        · refine Or.inr ⟨O1, O2, acc, lost, hO, hacc, ?_⟩
          rcases hq with ⟨c', hh, r⟩ | ⟨c', hh, r⟩
          · exact Or.inl ⟨c', hh.mono (by omega), r⟩
          · exact Or.inr ⟨c', hh.mono (by omega), r⟩)
    (fun c0 n0 f0 _ hsg ⟨O1, O2, acc, lost, hO, hacc, hq⟩ _ hlen0 => by
      obtain ⟨hsame, _⟩ := prePoll_same c0 n0 hsg
      obtain ⟨c'', fin, hrun, hte⟩ := qtail_end c0 n0 f0 hsg hq (by rw [hsame.input]; omega)
      rw [List.append_nil] at hte
      exact ⟨c'', fin, hrun, O1, O2, acc, lost, hO, hacc, hte⟩)
    (ans c.env.tr) c n fuel (Or.inl ⟨hst, hem⟩) hsegs (Nat.le_refl _) hf hlen
  exact ⟨c'', fin, O1, O2, acc, lost, hrun, hO, hacc, hte⟩

end Fcgi.E2E
