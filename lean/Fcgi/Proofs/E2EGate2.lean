import Fcgi.Proofs.E2EGate
/-!
# C09 end to end — after the gate: `open Stdout; write_all(data); return`, the Data stream left unread

Continues `Proofs/E2EGate` for the handler `writeable(); open 6; write_all data; drop; return st`.  No ledger is needed:
after the gate the only parser replies still to be written are flushed by `close` (`record_boundary()` only reads), so
the log is `L₁ ++ O₁ ++ Stdout records ++ O₂ ++ epilogue` with `O₁ ++ O₂` = the replies owed for Stdin and for the Data
records `d₁` that `close` consumed.
-/
namespace Fcgi.E2E
open Fcgi Fcgi.Req Fcgi.Str Fcgi.Async Fcgi.Run Fcgi.Spec Fcgi.C09E

theorem GOK.ctx {g : Cfg} {rest : List HOp} (ok : GOK g rest) : R2fCtx g.p.id g.mc g.cap g.R2 := by
  have h := ok.fg.ctx
  exact h

theorem GOK.ref8 {g : Cfg} {rest : List HOp} (ok : GOK g rest) {A : List Rec} (hA : ∀ r ∈ A, StdinRec g.p.id r) :
    refWire (E8 g.p.id g.mc) (serAll (A ++ g.R2)) =
      ⟨g.content2, owedI g.p.id g.mc A ++ owedStream g.p.id 8 g.mc g.body2, .eos, g.term2.ser⟩ := by
  have h := ok.fg.ref8 (A := A) hA
  exact h

def gateRest (data : Bytes) (st : ExitStatus) : List HOp := [.open_ 6, .writeAll 0 data, .dropW 0, .ret st]

/-- the `Request` once `writeable()` has returned; `O₁` = the replies written so far -/
structure GReq (g : Cfg) (r : AReq) (t : Transport) (O1 : Bytes) : Prop where
  wr : r.writeable = true
  lock : r.lock = .none
  inv : ∃ G dO, RInvB g.K8u r G t.input ([] ++ r.sp.parsed) dO ∧ O1 ++ r.sp.output = dO ∧
    (0 < r.sp.parsed.length ∨ AtEnd g.K8u r t ([] ++ r.sp.parsed) dO)
  pos : Pos (g.R ++ g.R2) r.sp.raw r.sp.pay r.sp.pad t.input

theorem GReq.tr {g : Cfg} {r : AReq} {t t' : Transport} {O1 : Bytes} (h : GReq g r t O1) (hin : t'.input = t.input) :
    GReq g r t' O1 := by
  obtain ⟨G, dO, h1, h2, h3⟩ := h.inv
  refine ⟨h.wr, h.lock, ⟨G, dO, by rw [hin]; exact h1, h2, ?_⟩, by rw [hin]; exact h.pos⟩
  rcases h3 with h3 | ⟨a1, a2, a3, a4, a5⟩
  · exact Or.inl h3
  · exact Or.inr ⟨a1, a2, a3, a4, by rw [hin]; exact a5⟩

/-- one `poll_input(None)` of `writeable()`, with what `close` will need -/
theorem gate_pi2 {g : Cfg} {rest : List HOp} (ok : GOK g rest) {r1 : AReq} {m : MutexSt} {t : Transport} {dO : Bytes}
    (hs : RSt g.K8u g.L1 [] r1 m t [] dO)
    (hpos : Pos (g.R ++ g.R2) r1.sp.raw r1.sp.pay r1.sp.pad t.input) (hb : Ben t)
    {r' : AReq} {m' : MutexSt} {t' : Transport} {k : Nat} {d : Bytes}
    (hpi : r1.pollInput none m t = (r', m', t', .ready k d)) :
    m' = none ∧ ∃ O1, t'.wlog = g.L1 ++ O1 ∧ GReq g r' t' O1 := by
  have hK := ok.kok
  have hwfA : ∀ r ∈ g.R ++ g.R2, r.WF := by
    intro r hr
    rcases List.mem_append.1 hr with hr | hr
    · exact (ok.str r hr).1
    · exact (ok.str2 r hr).1
  obtain ⟨hts, hpost⟩ := pollInput_sim_none hK hb hs hpi
  have hpar1 : r1.sp.parsed = [] := by obtain ⟨G, hi⟩ := hs.inv; exact hi.par
  have hpos' := pollInput_pos_none hwfA hb hs.lk hs.mx hpar1 hpos hpi (fun s hx => nomatch hx)
  obtain ⟨_, hk', dO', hsB, hlk, hm', hposk, hfin⟩ := hpost
  obtain ⟨⟨G, hiB⟩, _, _, ⟨O1, hl1, hl2⟩⟩ := hsB
  refine ⟨hm', O1, hl1, hfin rfl, hlk, ⟨G, dO', hiB, by simpa using hl2, ?_⟩, hpos'⟩
  rcases hposk with h | h
  · exact Or.inl (by omega)
  · exact Or.inr h

/-! ## The handler after the gate -/

/-- the handler suspended in its `write_all`; `Lh` = the log when the write is done -/
structure HGWst (id : Nat) (data : Bytes) (st : ExitStatus) (Lh : Bytes) (h : HState) (e : Run.Env) : Prop where
  ops : h.ops = .writeAll 0 data :: [.dropW 0, .ret st]
  pr : h.propagate = true
  ws : ∃ w L sent, h.writers = [some w] ∧ WSt2 6 0 id w e.mutex (restOf h.sub data) sent ∧ e.tr.wlog = L ++ sent ∧
    L ++ streamRecords 6 id (restOf h.sub data) = Lh

/-- how a poll of the handler after the gate ends -/
def GWOut (id : Nat) (data : Bytes) (st : ExitStatus) (Lh : Bytes) (r : AReq) (e : Run.Env)
    (out : AReq × HState × Run.Env × HRes) : Prop :=
  out.1 = r ∧ TStep e.tr out.2.2.1.tr ∧ out.2.2.1.tr.input = e.tr.input ∧ out.2.2.1.segs = e.segs ∧
  ((out.2.2.2 = .pending ∧ out.2.2.1.tr.woken = true ∧ ans out.2.2.1.tr < ans e.tr ∧
      HGWst id data st Lh out.2.1 out.2.2.1) ∨
   (out.2.2.2 = .done (.ok st) ∧ out.2.1.writers = [none] ∧ out.2.2.1.mutex = none ∧ out.2.2.1.tr.wlog = Lh))

theorem GWOut.after {id : Nat} {data : Bytes} {st : ExitStatus} {Lh : Bytes} {r : AReq} {e e0 : Run.Env}
    {out : AReq × HState × Run.Env × HRes} (h : GWOut id data st Lh r e out)
    (hts : TStep e0.tr e.tr) (hin : e.tr.input = e0.tr.input) (hsg : e.segs = e0.segs) :
    GWOut id data st Lh r e0 out := by
  obtain ⟨q0, q1, q2, q3, q4⟩ := h
  refine ⟨q0, hts.trans q1, q2.trans hin, q3.trans hsg, ?_⟩
  rcases q4 with ⟨a1, a2, a3, a4⟩ | a
  · exact Or.inl ⟨a1, a2, by have := hts.ans_le; omega, a4⟩
  · exact Or.inr a

/-- from (inside) the `write_all` -/
theorem gw_write {id : Nat} (r : AReq) (data : Bytes) (st : ExitStatus) {Lh : Bytes} (fuel : Nat) (sub : HSub) (w : Writer)
    (e : Run.Env) (L sent : Bytes) (hf : wcost (restOf sub data).length + 3 ≤ fuel) (hb : Ben e.tr)
    (hst : WSt2 6 0 id w e.mutex (restOf sub data) sent) (hlog : e.tr.wlog = L ++ sent)
    (hL : L ++ streamRecords 6 id (restOf sub data) = Lh) :
    GWOut id data st Lh r e (handlerPoll fuel r
      { ops := .writeAll 0 data :: [.dropW 0, .ret st], sub := sub, writers := [some w], propagate := true } e) := by
  rcases writeAll_run2 (ty := 6) (me := 0) (id := id) r data [.dropW 0, .ret st] true (restOf sub data).length fuel sub
      [some w] w e L sent (by show 0 < 1; omega) rfl (Nat.le_refl _) (by omega) hb hst hlog with
    ⟨w', e', rd', L', sent', d1, d2, d3, d4, d5, d6, d7, d8, d9, d10, d11⟩ |
    ⟨w', e', f', d1, d2, d3, d4, d5, d6, d7, d8⟩
  · rw [d1]
    exact ⟨rfl, d7, d8, d9, Or.inl ⟨rfl, d10, d11, rfl, rfl, w', L', sent', rfl, d5, d3, d4.trans hL⟩⟩
  · rw [d1]
    obtain ⟨f2, rfl⟩ : ∃ f2, f' = f2 + 2 := ⟨f' - 2, by omega⟩
    show GWOut id data st Lh r e (handlerPoll (f2 + 1 + 1) r
      { ops := .dropW 0 :: [.ret st], sub := .fresh, writers := [some w'], propagate := true } (e'.ev "W=ok"))
    rw [hp_dropW]
    simp only [List.getD_cons_zero, List.set_cons_zero]
    rw [hp_ret]
    refine ⟨rfl, d6.trans (TStep.ev _ (by decide)), d7, d8, Or.inr ⟨rfl, rfl, ?_, ?_⟩⟩
    · show lockDrop w'.lock e'.mutex = none
      rw [d4.lock, d5]; rfl
    · show (e'.tr.ev _).wlog = _
      rw [Transport.ev_wlog, d3, hL]

/-- from the gate: `open 6`, then the write -/
theorem gw_open {g : Cfg} (r : AReq) (data : Bytes) {O1 : Bytes} (fuel : Nat) (e : Run.Env)
    (hwr : r.writeable = true) (hreq : r.sp.request = g.p.request)
    (hm : e.mutex = none) (hlog : e.tr.wlog = g.L1 ++ O1)
    (hf : wcost data.length + 4 ≤ fuel) (hb : Ben e.tr) :
    GWOut g.p.id data g.st (g.L1 ++ O1 ++ streamRecords 6 g.p.id data) r e (handlerPoll fuel r
      { ops := gateRest data g.st, sub := .fresh, writers := [], propagate := true } e) := by
  obtain ⟨f1, rfl⟩ : ∃ f1, fuel = f1 + 1 := ⟨fuel - 1, by omega⟩
  show GWOut _ _ _ _ r e (handlerPoll (f1 + 1) r
    { ops := .open_ 6 :: [.writeAll 0 data, .dropW 0, .ret g.st], sub := .fresh, writers := [], propagate := true } e)
  rw [hp_open]
  rw [if_neg (by simp [hwr, outputStreams, RT.stdout, RT.stderr])]
  have hs1 : TStep e.tr (e.ev s!"o=w{([] : List (Option Writer)).length}").tr := TStep.ev _ (by decide)
  have hid : r.sp.request.id = g.p.id := by rw [hreq]; rfl
  refine (gw_write (id := g.p.id) r data g.st f1 .fresh { rtype := 6, id := r.sp.request.id } _ (g.L1 ++ O1) []
    (by show wcost data.length + 3 ≤ f1; omega) (hb.step hs1)
    ⟨rfl, hid, Or.inl ⟨rfl, rfl, hm, rfl⟩⟩ (by
      show (e.tr.ev _).wlog = _
      rw [Transport.ev_wlog, hlog, List.append_nil]) rfl).after hs1 rfl rfl

/-! ## Stages after the gate -/

/-- the log when `close` is done: `O₁` was written before the handler's record(s), `O₂` by `close`; together they
are the replies owed for the Stdin records and the Data records `d₁` that `close` consumed -/
def GLed (g : Cfg) (data : Bytes) (d1 : List Rec) (Lf : Bytes) : Prop :=
  ∃ O1 O2, O1 ++ O2 = owedI g.p.id g.mc (g.R ++ d1) ∧
    Lf = g.L1 ++ O1 ++ streamRecords 6 g.p.id data ++ O2 ++ g.epi

/-- the handler suspended in its `write_all` -/
def HGW (g : Cfg) (data : Bytes) (c : Conn) : Prop :=
  ∃ r h O1, c.phase = .handler r h ∧
    HGWst g.p.id data g.st (g.L1 ++ O1 ++ streamRecords 6 g.p.id data) h c.env ∧ GReq g r c.env.tr O1 ∧
    Ben c.env.tr ∧ c.stop = false ∧ Ev1 g c.env.tr ∧ c.scripts = g.more

/-- `close`, suspended in the transport read of `record_boundary()`; the handler's records are in the log -/
def GBStage2 (g : Cfg) (data : Bytes) (c : Conn) : Prop :=
  ∃ r dO O1, c.phase = .closing r .inBoundary g.st 0 ∧
    (∃ G, R2f g.p.id g.mc g.cap g.R2 (owedI g.p.id g.mc g.R) r.sp G c.env.tr.input dO) ∧
    r.sp.request = g.p.request ∧ r.sp.maxConns = g.mc ∧ r.lock = .none ∧ r.writeable = true ∧
    c.env.mutex = none ∧ (c.env.tr.wlog = g.L1 ++ O1 ++ streamRecords 6 g.p.id data ∧ O1 ++ r.sp.output = dO) ∧
    r.sp.isRecordBoundary = false ∧ r.sp.raw.length < g.cap ∧ r.sp.g0 = 0 ∧ r.sp.g1 = 0 ∧
    c.env.tr.input ≠ [] ∧ Ben c.env.tr ∧ c.stop = false ∧ Ev1 g c.env.tr ∧ c.scripts = g.more

def TQ2 (g : Cfg) (data : Bytes) (c : Conn) : Prop :=
  ∃ d1 s2 Lf, g.R2 = d1 ++ s2 ∧ GLed g data d1 Lf ∧ LE (gC g (g.R ++ d1) s2) Lf (gC g (g.R ++ d1) s2).epi c
def AQ2 (g : Cfg) (data : Bytes) (c : Conn) : Prop :=
  ∃ d1 s2 Lf, g.R2 = d1 ++ s2 ∧ GLed g data d1 Lf ∧ AfterE (gC g (g.R ++ d1) s2) Lf c
def FQ2 (g : Cfg) (data : Bytes) (c : Conn) : Prop :=
  ∃ d1 s2 Lf, g.R2 = d1 ++ s2 ∧ GLed g data d1 Lf ∧ FinE (gC g (g.R ++ d1) s2) Lf c

def SG2 (g : Cfg) (data : Bytes) (c : Conn) : Prop :=
  SGate g (gateRest data g.st) c ∨ HGW g data c ∨ GBStage2 g data c ∨ TQ2 g data c
abbrev RG2 (g : Cfg) (data : Bytes) (N : Nat) (c : Conn) : Prop := GRes3 (SG2 g data) (AQ2 g data) (FQ2 g data) N c

theorem SG2.cong {g : Cfg} {data : Bytes} (c c' : Conn) (h : SG2 g data c)
    (hph : c'.phase = c.phase) (hsc : c'.scripts = c.scripts) (hstop : c'.stop = c.stop)
    (hm : c'.env.mutex = c.env.mutex) (hs : TrSame c.env.tr c'.env.tr) : SG2 g data c' := by
  rcases h with h | ⟨r, h, O1, h1, ⟨a1, a2, w, L, sent, a3, a4, a5, a6⟩, h3, h4, h5, h6, h7⟩ |
    ⟨r, dO, O1, h1, h2, h3, h4, h5, h6, h7, h8, h9, h10, h11, h12, h13, h14, h15, h16, h17⟩ | ⟨d1, s2, Lf, hsp, hl, h⟩
  · exact Or.inl (SGate.cong _ _ h hph hsc hstop hm hs)
  · exact Or.inr (Or.inl ⟨r, h, O1, hph.trans h1, ⟨a1, a2, w, L, sent, a3, by rw [hm]; exact a4, by rw [hs.wlog]; exact a5, a6⟩,
      h3.tr hs.input, hs.ben h4, hstop.trans h5, hs.ev1 h6, hsc.trans h7⟩)
  · exact Or.inr (Or.inr (Or.inl ⟨r, dO, O1, hph.trans h1, by rw [hs.input]; exact h2, h3, h4, h5, h6, hm.trans h7,
      by rw [hs.wlog]; exact h8, h9, h10, h11, h12, by rw [hs.input]; exact h13, hs.ben h14, hstop.trans h15,
      hs.ev1 h16, hsc.trans h17⟩))
  · exact Or.inr (Or.inr (Or.inr ⟨d1, s2, Lf, hsp, hl, h.cong hph hsc hstop hm hs⟩))

/-- **`record_boundary()` returned**: the rest of that poll of `close` (the mutex is free by then). -/
theorem fboundary_out2 {g : Cfg} {rest : List HOp} (ok : GOK g rest) (data : Bytes) {O1 : Bytes} {c : Conn} {r r' : AReq} {cs : CloseSt}
    {sp0 sp' : Str.Parser} {t' : Transport} {res : ORes} {dO : Bytes}
    (hph : c.phase = .closing r cs g.st 0)
    (heq : closePoll r cs g.st 0 c.env.mutex c.env.tr = closeTail r' none g.st (sp', t', res))
    (hts : TStep c.env.tr t')
    (hend : BEndf g.p.id g.mc g.cap g.R2 (owedI g.p.id g.mc g.R) sp0 sp' dO t')
    (hreq : sp0.request = g.p.request) (hmc : sp0.maxConns = g.mc)
    (hres : (res = .ready ∧ sp'.isRecordBoundary = true) ∨
       (res = .pending ∧ t'.woken = true ∧ ans t' < ans c.env.tr ∧ sp'.isRecordBoundary = false ∧
          sp'.raw.length < g.cap ∧ sp'.g0 = 0 ∧ sp'.g1 = 0 ∧ t'.input ≠ []))
    (hlk : r'.lock = .none) (hwr : r'.writeable = true)
    (hlog : t'.wlog = g.L1 ++ O1 ++ streamRecords 6 g.p.id data ∧ O1 ++ sp0.output = dO)
    (hb : Ben c.env.tr) (hstop : c.stop = false) (hev : Ev1 g c.env.tr) (hsc : c.scripts = g.more) :
    RG2 g data 2 c := by
  obtain ⟨⟨o, G', ho, hr2⟩, hreq', hmc'⟩ := hend
  obtain ⟨hl1, hl2⟩ := hlog
  have hl2' : O1 ++ sp'.output = dO ++ o := by rw [ho, ← List.append_assoc, hl2]
  rcases hres with ⟨rfl, hbd⟩ | ⟨rfl, hwk, hans, hnb, hraw, hg0, hg1, hin⟩
  · -- at a record boundary: the split
    have hpay : sp'.pay = 0 ∧ sp'.pad = 0 := by
      simpa [Str.Parser.isRecordBoundary] using hbd
    obtain ⟨cc, pd, s2, hcc, hpd, hw, ⟨d1, hsuf⟩⟩ := hr2.ign.pos
    rw [hpay.1] at hcc
    rw [hpay.2] at hpd
    have hcc' : cc = [] := List.length_eq_zero_iff.1 hcc
    have hpd' : pd = [] := List.length_eq_zero_iff.1 hpd
    rw [hcc', hpd', List.nil_append, List.nil_append] at hw
    have hsp : g.R2 = d1 ++ s2 := hsuf.symm
    have hctx := ok.ctx
    obtain ⟨_, hout, _⟩ := hr2.now hctx
    have hrem : Rem (E1 g.p.id g.mc) (view1 sp') t'.input = refWire (E1 g.p.id g.mc) (serAll s2) := by
      show ref (E1 g.p.id g.mc) (view1 sp').state (view1 sp').pay (view1 sp').pad ((view1 sp').raw ++ t'.input) = _
      have e1 : (view1 sp').pay = 0 := hpay.1
      have e2 : (view1 sp').pad = 0 := hpay.2
      have e3 : (view1 sp').raw = sp'.raw := rfl
      rw [e1, e2, e3, hw]
      exact ref_eq_refWire (E1 g.p.id g.mc) _ _
    have hs2 : ∀ r ∈ s2, DataRec g.p.id r := fun r hr => ok.str2 r (by rw [hsp]; exact List.mem_append_right _ hr)
    rw [hrem, refWire_view1 g.p.id g.mc hs2] at hout
    have hdO : dO ++ o = owedI g.p.id g.mc (g.R ++ d1) := by
      have : owedI g.p.id g.mc g.R ++ owedI g.p.id g.mc g.R2 =
          owedI g.p.id g.mc (g.R ++ d1) ++ owedI g.p.id g.mc s2 := by
        rw [hsp]; simp [owedI, List.flatMap_append]
      rw [this] at hout
      exact List.append_cancel_right hout
    have hepi : epilogueOf { r' with sp := sp' } g.st = (gC g (g.R ++ d1) s2).epi := by
      simp only [epilogueOf, hwr, if_true, Cfg.epi, outputStreams]
      show makeRequestEpilogue sp'.request.id g.st _ = _
      rw [hreq', hreq]; rfl
    have heq' : closePoll r cs (gC g (g.R ++ d1) s2).st 0 c.env.mutex c.env.tr =
        closeP4 { sp := sp', lock := .none, writeable := r'.writeable } none t'
          (.writeOut sp'.output (gC g (g.R ++ d1) s2).epi) := by
      show closePoll r cs g.st 0 c.env.mutex c.env.tr = _
      rw [heq, ← hepi]
      simp only [closeTail, closeP2Tail, closeP3_start, Nat.lt_irrefl, gt_iff_lt, if_false, hlk, lockDrop]
    have hrawlen : sp'.raw.length ≤ g.cap := by
      have := hr2.sinv.1
      have e : (view1 sp').freeStart = sp'.freeStart := rfl
      have e2 : (view1 sp').cap = sp'.cap := rfl
      rw [e, e2, hr2.capK] at this
      simp only [Str.Parser.freeStart] at this
      omega
    have hce : CEndW (gC g (g.R ++ d1) s2) { sp := sp', lock := .none, writeable := r'.writeable } t'.input :=
      ⟨hpay.1, hpay.2, hw, hreq'.trans hreq, hr2.capK, hmc'.trans hmc, hrawlen⟩
    have hled : GLed g data d1 (t'.wlog ++ sp'.output ++ (gC g (g.R ++ d1) s2).epi) :=
      ⟨O1, sp'.output, by rw [hl2', hdO], by rw [hl1]; simp only [List.append_assoc]; rfl⟩
    have hcore := eclose_out (g := gC g (g.R ++ d1) s2) (Lf := t'.wlog ++ sp'.output ++ (gC g (g.R ++ d1) s2).epi)
      (ep := (gC g (g.R ++ d1) s2).epi) hph heq' hts hce rfl hb hstop hev hsc
    exact hcore.imp
      (fun _ _ x => Or.inr (Or.inr (Or.inr ⟨d1, s2, _, hsp, hled, x⟩)))
      (fun _ _ x => ⟨d1, s2, _, hsp, hled, x⟩) (fun _ _ x => ⟨d1, s2, _, hsp, hled, x⟩)
  · -- suspended in the read
    have hstep := C07.closing_step c r cs g.st 0 hph
    rw [heq] at hstep
    have hstep' : stepConn c = .halt (mkC0 c (.closing { r' with sp := sp' } .inBoundary g.st 0) t') .pending := hstep
    refine Or.inl (Or.inl ⟨_, (Halts.now hstep').mono (by omega), mkC0_link c _ hts, ?_, hwk, hans⟩)
    exact Or.inr (Or.inr (Or.inl ⟨{ r' with sp := sp' }, dO ++ o, O1, rfl, ⟨G', hr2⟩, hreq'.trans hreq, hmc'.trans hmc,
      hlk, hwr, rfl, ⟨hl1, hl2'⟩, hnb, hraw, hg0, hg1, hin, hb.step hts, hstop, hev.step hts, hsc⟩))


/-- a poll that resumes `close` inside `record_boundary()` -/
theorem fb_poll2 {g : Cfg} {rest : List HOp} (ok : GOK g rest) (data : Bytes) {c : Conn} {r : AReq} {dO O1 : Bytes}
    (hph : c.phase = .closing r .inBoundary g.st 0)
    (hr2 : ∃ G, R2f g.p.id g.mc g.cap g.R2 (owedI g.p.id g.mc g.R) r.sp G c.env.tr.input dO)
    (hreq : r.sp.request = g.p.request) (hmc : r.sp.maxConns = g.mc)
    (hlk : r.lock = .none) (hwr : r.writeable = true) (hm : c.env.mutex = none)
    (hlog : c.env.tr.wlog = g.L1 ++ O1 ++ streamRecords 6 g.p.id data ∧ O1 ++ r.sp.output = dO)
    (hnb : r.sp.isRecordBoundary = false) (hraw : r.sp.raw.length < g.cap) (hg0 : r.sp.g0 = 0)
    (hg1 : r.sp.g1 = 0) (hin : c.env.tr.input ≠ [])
    (hb : Ben c.env.tr) (hstop : c.stop = false) (hev : Ev1 g c.env.tr) (hsc : c.scripts = g.more) :
    RG2 g data 2 c := by
  have hctx := ok.ctx
  obtain ⟨G, hr2⟩ := hr2
  have heq0 : closePoll r .inBoundary g.st 0 c.env.mutex c.env.tr =
      closeTail r none g.st (closeBoundary r.sp true c.env.tr) := by
    have := closePoll_bound_tail r c.env.mutex c.env.tr g.st
    rw [hm] at this ⊢
    exact this
  have hfree : r.sp.free = g.cap - r.sp.raw.length := by
    simp [Str.Parser.free, Str.Parser.freeStart, hr2.par, hr2.capK, hg0, hg1]
  have hfp : 0 < r.sp.free := by rw [hfree]; omega
  have hend0 : BEndf g.p.id g.mc g.cap g.R2 (owedI g.p.id g.mc g.R) r.sp r.sp dO c.env.tr :=
    ⟨⟨[], G, (List.append_nil _).symm, by rw [List.append_nil]; exact hr2⟩, rfl, rfl⟩
  rcases hrd : c.env.tr.read r.sp.free with ⟨t1, x⟩
  cases x with
  | pending =>
    have hwl : t1.wlog = c.env.tr.wlog := by have := read_wlog c.env.tr r.sp.free; rwa [hrd] at this
    obtain ⟨hinp, hw | hw⟩ := read_pending hb hrd
    · have hcb : closeBoundary r.sp true c.env.tr = (r.sp, t1, .pending) := by simp [closeBoundary, hrd]
      rw [hcb] at heq0
      exact fboundary_out2 ok data (sp0 := r.sp) (dO := dO) hph heq0 (read_tstep hrd)
        ⟨⟨[], G, (List.append_nil _).symm, by rw [List.append_nil]; exact hr2.input hinp⟩, rfl, rfl⟩ hreq hmc
        (Or.inr ⟨rfl, hw.1, hw.2, hnb, hraw, hg0, hg1, by rw [hinp]; exact hin⟩) hlk hwr
        ⟨hwl.trans hlog.1, hlog.2⟩ hb hstop hev hsc
    · exact absurd hw.1 hin
  | ready y =>
    cases y with
    | error e => exact (read_error hb hrd).elim
    | ok bs =>
      obtain ⟨hinp, hwl, hlen, hz⟩ := read_ok_ben hb hrd
      by_cases hbs : bs = []
      · rcases hz hbs with hz | hz
        · omega
        · exact absurd hz.1 hin
      · have hs1 := read_tstep hrd
        rcases hbl : boundaryLoop (t1.input.length + 2) r.sp bs t1 with ⟨sp', t', res⟩
        have hcb : closeBoundary r.sp true c.env.tr = (sp', t', res) := by
          cases bs with
          | nil => exact absurd rfl hbs
          | cons b0 bs' => simp [closeBoundary, hrd, hbl]
        rw [hcb] at heq0
        obtain ⟨q1, q2, q3, q4⟩ := bloop_simf hctx _ _ bs t1 (hb.step hs1) (hr2.input (by rw [← hinp]))
          hlen (Nat.le_refl _) hbl
        refine fboundary_out2 ok data (sp0 := r.sp) (dO := dO) hph heq0 (hs1.trans q1) q3 hreq hmc ?_
          hlk hwr ⟨(q2.trans hwl).trans hlog.1, hlog.2⟩ hb hstop hev hsc
        rcases q4 with q4 | ⟨a, b, c1, d⟩
        · exact Or.inl q4
        · exact Or.inr ⟨a, b, by have := hs1.ans_le; omega, d⟩



/-- **`close` starts after the handler's write**: `writeable()` returns at once, then `record_boundary()`. -/
theorem gclose_start {g : Cfg} {rest : List HOp} (ok : GOK g rest) (data : Bytes) {c : Conn} {r' : AReq} {O1 : Bytes}
    (hph : c.phase = .closing r' .start g.st 0) (hm : c.env.mutex = none)
    (hgr : GReq g r' c.env.tr O1) (hlogc : c.env.tr.wlog = g.L1 ++ O1 ++ streamRecords 6 g.p.id data)
    (hb : Ben c.env.tr) (hstop : c.stop = false) (hev : Ev1 g c.env.tr) (hsc : c.scripts = g.more) :
    RG2 g data 2 c := by
  have hK := ok.kok
  have hwr : r'.writeable = true := hgr.wr
  have hlk : r'.lock = .none := hgr.lock
  obtain ⟨G, dO', hiB, hl2, hposk⟩ := hgr.inv
  have hposR := hgr.pos
  have hts : TStep c.env.tr c.env.tr := .refl _
  have hstrm : r'.sp.stream = some 8 := hiB.mt.strm
  have hreq : r'.sp.request = g.p.request := hiB.req
  have hp1' : closeP1 r' .start c.env.mutex c.env.tr = .ok (r', none, c.env.tr, .start) := by
    rw [hm]; simp [closeP1, AReq.writeablePoll, hwr]
  by_cases hpar : r'.sp.parsed = []
  · -- nothing buffered: the Data stream has ended, without content
    obtain ⟨_, hdO, hpay, hpad, hwire⟩ : AtEnd g.K8u r' c.env.tr ([] ++ r'.sp.parsed) dO' := by
      rcases hposk with hp | hp
      · rw [hpar] at hp; cases hp
      · exact hp
    have hrb : (spIgnore r'.sp).isRecordBoundary = true := by
      simp [Str.Parser.isRecordBoundary, spIgnore_pay, spIgnore_pad, hpay, hpad]
    have h2 : closeP2 r' none c.env.tr .start = .ok ({ r' with sp := spIgnore r'.sp }, none, c.env.tr, .start) := by
      rw [closeP2_start]
      simp [closeBoundary, hrb, closeP2Tail]
    have hepi : ∀ l, epilogueOf { sp := spIgnore r'.sp, lock := l, writeable := r'.writeable } g.st = (gF g).epi := by
      intro l
      simp only [epilogueOf, hwr, if_true, Cfg.epi, outputStreams]
      show makeRequestEpilogue (spIgnore r'.sp).request.id g.st _ = _
      rw [spIgnore_request, hreq]
      rfl
    have heq : closePoll r' .start (gF g).st 0 c.env.mutex c.env.tr =
        closeP4 (closeReq r') none c.env.tr (.writeOut r'.sp.output (gF g).epi) := by
      show closePoll r' .start g.st 0 c.env.mutex c.env.tr = _
      rw [closePoll_eq, hp1']
      simp only
      rw [h2]
      simp only
      rw [closeP3_start]
      simp only [Nat.lt_irrefl, if_false, gt_iff_lt, hlk, lockDrop, hepi, spIgnore_output]
      rfl
    have hrawlen : r'.sp.raw.length ≤ g.cap := by
      have := hiB.sinv.1
      rw [hiB.capK] at this
      simp only [Str.Parser.freeStart] at this
      have e : g.K8u.cap = g.cap := rfl
      omega
    have hce : CEndW (gF g) (closeReq r') c.env.tr.input :=
      ⟨by show (spIgnore r'.sp).pay = 0; rw [spIgnore_pay]; exact hpay,
        by show (spIgnore r'.sp).pad = 0; rw [spIgnore_pad]; exact hpad,
        by show (spIgnore r'.sp).raw ++ c.env.tr.input = serAll [g.term2]
           rw [spIgnore_raw, C02.serAll_single]; exact hwire,
        by show (spIgnore r'.sp).request = _; rw [spIgnore_request]; exact hreq,
        by show (spIgnore r'.sp).cap = _; rw [spIgnore_cap]; exact hiB.capK,
        by show (spIgnore r'.sp).maxConns = _; rw [spIgnore_mc]; exact hiB.mt.mc,
        by show (spIgnore r'.sp).raw.length ≤ _; rw [spIgnore_raw]; exact hrawlen⟩
    have hled : GLed g data g.body2 (c.env.tr.wlog ++ r'.sp.output ++ (gF g).epi) := by
      refine ⟨O1, r'.sp.output, ?_, by rw [hlogc]; simp only [List.append_assoc]; rfl⟩
      rw [hl2, hdO]
      show owedI g.p.id g.mc g.R ++ owedStream g.p.id 8 g.mc g.body2 = _
      rw [← owedI_eq_owedStream8]; simp [owedI, List.flatMap_append]
    have hcore := eclose_out (g := gF g) (Lf := c.env.tr.wlog ++ r'.sp.output ++ (gF g).epi) (ep := (gF g).epi)
      hph heq hts hce rfl hb hstop hev hsc
    exact hcore.imp
      (fun _ _ x => Or.inr (Or.inr (Or.inr ⟨g.body2, [g.term2], _, rfl, hled, x⟩)))
      (fun _ _ x => ⟨g.body2, [g.term2], _, rfl, hled, x⟩) (fun _ _ x => ⟨g.body2, [g.term2], _, rfl, hled, x⟩)
  · -- Data content is buffered: `set_stream(None)`, `record_boundary()`
    have hd : ([] ++ r'.sp.parsed : Bytes) ≠ [] := by simpa using hpar
    have hXR : g.K8u.X = serAll g.R ++ serAll g.R2 := ok.XR
    obtain ⟨Gd, hG⟩ := past_stdin (mc := g.mc) ok.str rfl hXR hiB hd
    have hposD := pos_in_data (mc := g.mc) ok.str hK rfl
      (fun A' hA => by rw [ok.ref8 (fun r hr => ok.str r (hA.subset hr))]; rfl) hiB hd hposR
    subst hG
    have hr2 := r2f_of_switch ok.str ok.ctx rfl hXR rfl hiB hposD
    have hctx := ok.ctx
    have hign : spIgnore r'.sp = r'.sp.switchTo none := by simp [spIgnore, hstrm]
    have heq0 := closePoll_w_tail g.st hp1'
    rw [hign] at heq0
    have hmc : (r'.sp.switchTo none).maxConns = g.mc := hiB.mt.mc
    have hlogt : c.env.tr.wlog = g.L1 ++ O1 ++ streamRecords 6 g.p.id data ∧ O1 ++ (r'.sp.switchTo none).output = dO' :=
      ⟨hlogc, hl2⟩
    by_cases hbd : (r'.sp.switchTo none).isRecordBoundary = true
    · have hcb : closeBoundary (r'.sp.switchTo none) false c.env.tr = (r'.sp.switchTo none, c.env.tr, .ready) := by
        simp [closeBoundary, hbd]
      rw [hcb] at heq0
      exact fboundary_out2 ok data (sp0 := r'.sp.switchTo none) (dO := dO') hph heq0 hts
        ⟨⟨[], Gd, (List.append_nil _).symm, by rw [List.append_nil]; exact hr2⟩, rfl, rfl⟩ hreq hmc (Or.inl ⟨rfl, hbd⟩)
        hlk hwr hlogt hb hstop hev hsc
    · have hbd' : (r'.sp.switchTo none).isRecordBoundary = false := by simpa using hbd
      rcases hbl : boundaryLoop (c.env.tr.input.length + 2) (r'.sp.switchTo none) [] c.env.tr with ⟨sp', t2, res⟩
      have hcb : closeBoundary (r'.sp.switchTo none) false c.env.tr = (sp', t2, res) := by
        simp [closeBoundary, hbd', hbl]
      rw [hcb] at heq0
      obtain ⟨q1, q2, q3, q4⟩ := bloop_simf hctx _ _ [] c.env.tr (hb.step hts) (by rw [List.nil_append]; exact hr2)
        (Nat.zero_le _) (Nat.le_refl _) hbl
      refine fboundary_out2 ok data (sp0 := r'.sp.switchTo none) (dO := dO') hph heq0 (hts.trans q1) q3 hreq hmc ?_
        hlk hwr ⟨q2.trans hlogt.1, hlogt.2⟩ hb hstop hev hsc
      rcases q4 with q4 | ⟨a, b, c1, d⟩
      · exact Or.inl q4
      · exact Or.inr ⟨a, b, by have := hts.ans_le; omega, d⟩


/-! ## Polls -/

theorem wcost_le_cur' (sub : HSub) (data : Bytes) : wcost (restOf sub data).length ≤ curCost sub (.writeAll 0 data) := by
  cases sub <;> simp [restOf, curCost, opCost, wcost] <;> omega

/-- what a poll of the handler after the gate comes to -/
theorem gw_res {g : Cfg} {data : Bytes} (ok : GOK g (gateRest data g.st)) {c : Conn} {r0 r : AReq} {h : HState} {e0 : Run.Env}
    {O1 : Bytes} (hph : c.phase = .handler r0 h)
    {out : AReq × HState × Run.Env × HRes}
    (heq : handlerPoll ((handlerFuel c.env r0 + scriptOf c)) r0 h c.env = out)
    (hw : GWOut g.p.id data g.st (g.L1 ++ O1 ++ streamRecords 6 g.p.id data) r e0 out)
    (hts0 : TStep c.env.tr e0.tr) (hsg0 : e0.segs = c.env.segs)
    (hgr : GReq g r e0.tr O1)
    (hb : Ben c.env.tr) (hstop : c.stop = false) (hev : Ev1 g c.env.tr) (hsc : c.scripts = g.more) :
    RG2 g data 3 c := by
  obtain ⟨r', h', e', res⟩ := out
  obtain ⟨q0, q1, q2, q3, q4⟩ := hw
  simp only at q0 q1 q2 q3 q4
  subst q0
  have hts := hts0.trans q1
  rcases q4 with ⟨rfl, hwk, hans, hwg⟩ | ⟨rfl, hws, hm, hlog⟩
  · have hstep := C07.handler_step c r0 h hph
    rw [heq] at hstep
    have hstep' : stepConn c = .halt ⟨.handler r' h', e', c.scripts, c.stop⟩ .pending := hstep
    exact Or.inl (Or.inl ⟨_, (Halts.now hstep').mono (by omega), ⟨hts.w, q3.trans hsg0, rfl⟩,
      Or.inr (Or.inl ⟨r', h', O1, rfl, hwg, hgr.tr q2, hb.step hts, hstop, hev.step hts, hsc⟩), hwk,
      by show ans e'.tr < ans c.env.tr; have := hts0.ans_le; omega⟩)
  · have hstep := C07.handler_step c r0 h hph
    rw [heq] at hstep
    have halive : (h'.writers.filter Option.isSome).length = 0 := by rw [hws]; rfl
    simp only [halive] at hstep
    have hstep' : stepConn c =
        .next ⟨.closing r' .start g.st 0, e'.ev s!"HE(ok:{showStatus g.st})", c.scripts, c.stop⟩ := hstep
    have hts2 : TStep c.env.tr (e'.tr.ev s!"HE(ok:{showStatus g.st})") :=
      hts.trans (TStep.ev _ (by simp [isHS, toString_str]))
    have hres := gclose_start ok data
      (c := ⟨.closing r' .start g.st 0, e'.ev s!"HE(ok:{showStatus g.st})", c.scripts, c.stop⟩) (r' := r') (O1 := O1)
      rfl hm (hgr.tr (by show (e'.tr.ev _).input = _; exact q2))
      (by show (e'.tr.ev _).wlog = _; rw [Transport.ev_wlog, hlog]) (hb.step hts2) hstop (hev.step hts2) hsc
    exact (GRes3.of_steps (Steps.one hstep') ⟨hts2.w, q3.trans hsg0, rfl⟩ hres).mono (by omega)

theorem hgw_poll {g : Cfg} {data : Bytes} (ok : GOK g (gateRest data g.st)) {c : Conn} (h : HGW g data c) :
    RG2 g data 3 c := by
  obtain ⟨r, ⟨ops, sub, wsl, pr⟩, O1, hph, ⟨a1, a2, w, L, sent, a3, a4, a5, a6⟩, hgr, hb, hstop, hev, hsc⟩ := h
  simp only at a1 a2 a3 a4 a6
  subst a1 a2 a3
  have hfuel := handlerFuel_ge c.env r
  have hsc0 : scriptOf c = curCost sub (.writeAll 0 data) + 2 := by
    rw [scriptOf_handler hph]
    simp [scriptCost, opCost]
  have hwc := wcost_le_cur' sub data
  exact gw_res ok hph rfl (gw_write (id := g.p.id) r data g.st _ sub w c.env L sent (by omega) hb a4 a5 a6)
    (.refl _) rfl hgr hb hstop hev hsc

/-- one poll of the handler in (or starting) `writeable()` -/
theorem wh_core2 {g : Cfg} {data : Bytes} (ok : GOK g (gateRest data g.st)) {c : Conn} {r0 r1 : AReq} {sub : HSub} {dO : Bytes}
    (hph : c.phase = .handler r0 { ops := .writeable :: gateRest data g.st, sub := sub, writers := [], propagate := true })
    (hwp : r0.writeablePoll (sub == .writeableStarted) c.env.mutex c.env.tr =
      wmap (r1.pollInput none c.env.mutex c.env.tr))
    (hs : RSt g.K8u g.L1 [] r1 c.env.mutex c.env.tr [] dO) (hwr1 : r1.writeable = false)
    (hpos : Pos (g.R ++ g.R2) r1.sp.raw r1.sp.pay r1.sp.pad c.env.tr.input)
    (hb : Ben c.env.tr) (hstop : c.stop = false) (hev : Ev1 g c.env.tr) (hsc : c.scripts = g.more) :
    RG2 g data 4 c := by
  rcases hpi : r1.pollInput none c.env.mutex c.env.tr with ⟨r', m', t', res⟩
  obtain ⟨hts, hpost⟩ := gate_pi ok hs hwr1 hpos hb hpi
  have hfuel := handlerFuel_ge c.env r0
  have hsc0 : scriptOf c = curCost sub .writeable + (data.length + 4) := by
    rw [scriptOf_handler hph]
    simp [scriptCost, gateRest, opCost]
    omega
  have hcp := curCost_pos sub .writeable
  obtain ⟨f, hf⟩ : ∃ f, handlerFuel c.env r0 + scriptOf c = f + 1 := ⟨handlerFuel c.env r0 + scriptOf c - 1, by omega⟩
  cases res with
  | pending =>
    obtain ⟨⟨dO', hs'⟩, hw', hpos', hwk, hans⟩ := hpost
    rw [hpi] at hwp
    have hstep := C07.handler_step c r0 _ hph
    rw [hf, hp_writeable_pending (by rw [hwp]; rfl)] at hstep
    have hstep' : stepConn c = .halt ⟨.handler r' ⟨.writeable :: gateRest data g.st, .writeableStarted, [], true⟩,
        ⟨t', m', c.env.segs⟩, c.scripts, c.stop⟩ .pending := hstep
    exact Or.inl (Or.inl ⟨_, (Halts.now hstep').mono (by omega), ⟨hts.w, rfl, rfl⟩,
      Or.inl (Or.inr ⟨r', dO', rfl, hs', hw', hpos', hb.step hts, hstop, hev.step hts, hsc⟩), hwk, hans⟩)
  | err x => exact hpost.elim
  | panic x => exact hpost.elim
  | ready k d =>
    obtain ⟨hm', O1, hl1, hgr⟩ := gate_pi2 ok hs hpos hb hpi
    subst hm'
    rw [hpi] at hwp
    have heq : handlerPoll (handlerFuel c.env r0 + scriptOf c) r0
        { ops := .writeable :: gateRest data g.st, sub := sub, writers := [], propagate := true } c.env =
        handlerPoll f r' { ops := gateRest data g.st, sub := .fresh, writers := [], propagate := true }
          ((⟨t', none, c.env.segs⟩ : Run.Env).ev "w=ok") := by
      rw [hf, hp_writeable_ready (by rw [hwp]; rfl)]
    have hs1 : TStep c.env.tr ((⟨t', none, c.env.segs⟩ : Run.Env).ev "w=ok").tr := hts.trans (TStep.ev _ (by decide))
    have hreq : r'.sp.request = g.p.request := by
      obtain ⟨G, dO2, hiB, _⟩ := hgr.inv
      exact hiB.req
    have hwc : wcost data.length ≤ data.length + 1 := by unfold wcost; omega
    refine (gw_res ok hph heq (e0 := (⟨t', none, c.env.segs⟩ : Run.Env).ev "w=ok")
      (gw_open (g := g) r' data f _ hgr.wr hreq rfl (by
        show (t'.ev _).wlog = _
        rw [Transport.ev_wlog, hl1]) (by omega) (hb.step hs1))
      hs1 rfl (hgr.tr rfl) hb hstop hev hsc).mono (by omega)

theorem wh_poll2 {g : Cfg} {data : Bytes} (ok : GOK g (gateRest data g.st)) {c : Conn} (h : WH g (gateRest data g.st) c) :
    RG2 g data 4 c := by
  obtain ⟨r, dO, hph, hs, hwr, hpos, hb, hstop, hev, hsc⟩ := h
  exact wh_core2 ok hph (by rw [show ((HSub.writeableStarted == HSub.writeableStarted) = true) from rfl]; exact wp_resume _ _ _)
    hs hwr hpos hb hstop hev hsc

/-- the first poll of the handler -/
theorem gate_first2 {g : Cfg} {data : Bytes} (ok : GOK g (gateRest data g.st)) (c : Conn) (hc : FirstCfg g c) :
    RG2 g data 6 c := by
  obtain ⟨e1, hph, hlen, hwire, hlog, hm, hb, hstop, hev, hsc⟩ := hc
  have hrole : g.p.request.role = 3 := ok.role
  rw [ok.hs] at hph
  have hwr : (AReq.new (Str.Parser.fromParser g.cap g.p.request e1 g.mc)).writeable = false := by
    simp [AReq.new, Str.Parser.fromParser, hrole, inputStreams]
  have hstrm : (Str.Parser.fromParser g.cap g.p.request e1 g.mc).stream = some 5 := by
    simp [Str.Parser.fromParser, hrole, nextInputStream, RT.stdin]
  have hset : (Str.Parser.fromParser g.cap g.p.request e1 g.mc).setStream
      (inputStreams (Str.Parser.fromParser g.cap g.p.request e1 g.mc).request.role).getLast? =
      .ok ((Str.Parser.fromParser g.cap g.p.request e1 g.mc).switchTo (some 8)) := by
    have e : (inputStreams (Str.Parser.fromParser g.cap g.p.request e1 g.mc).request.role).getLast? = some 8 := by
      show (inputStreams g.p.request.role).getLast? = some 8
      rw [hrole]; rfl
    rw [e, setStream_some_input _ (by decide) (by intro e he; rw [hstrm] at he; cases he; decide), hstrm]
    have hl : Later (Str.Parser.fromParser g.cap g.p.request e1 g.mc).request.role (some 5) 8 := by
      show Later g.p.request.role (some 5) 8
      rw [hrole]; exact later358
    simp [hl]
  have hsinv0 := Str.SInv_fromParser g.cap g.p.request e1 g.mc hlen ok.hid
  have hri : RInv g.K8u
      ({ AReq.new (Str.Parser.fromParser g.cap g.p.request e1 g.mc) with
        sp := (Str.Parser.fromParser g.cap g.p.request e1 g.mc).switchTo (some 8) } : AReq)
      e1 c.env.tr.input [] [] := by
    refine ⟨⟨rfl, hrole, rfl, rfl, by show 8 ∈ inputStreams 3; decide⟩,
      SInv_switchTo hsinv0 (Or.inr ⟨8, rfl, by show 8 ∈ inputStreams g.p.request.role; rw [hrole]; decide⟩),
      rfl, rfl, rfl, hwire, fun x => ?_⟩
    rw [RefOut.pre_nil]
    exact (ref_eq_refWire _ _ _).symm
  refine (wh_core2 ok (sub := .fresh) (dO := []) hph
    (by rw [show ((HSub.fresh == HSub.writeableStarted) = false) from rfl]; exact wp_first _ _ _ hwr hset)
    ⟨⟨e1, hri⟩, by show LockInv _ c.env.mutex; rw [hm]; exact lockInv_free rfl, Or.inl hm,
      ⟨[], by show c.env.tr.wlog = _; rw [hlog, List.append_nil], rfl⟩⟩
    hwr
    ⟨[], [], g.R ++ g.R2, rfl, rfl, by
      show e1 ++ c.env.tr.input = [] ++ ([] ++ serAll (g.R ++ g.R2))
      rw [hwire, ok.XR, C02.serAll_append]; rfl, List.suffix_refl _⟩
    hb hstop hev hsc).mono (by omega)


theorem sg2_poll {g : Cfg} {data : Bytes} (ok : GOK g (gateRest data g.st)) {c : Conn} (h : SG2 g data c) :
    RG2 g data (2 * c.env.tr.input.length + 15) c := by
  rcases h with (h | h) | h | ⟨r, dO, O1, h1, h2, h3, h4, h5, h6, h7, h8, h9, h10, h11, h12, h13, h14, h15, h16, h17⟩ |
    ⟨d1, s2, Lf, hsp, hl, h⟩
  · exact fstage_poll3 ok.fok (fun _ h => Or.inl (Or.inl h)) (gate_first2 ok) h
  · exact (wh_poll2 ok h).mono (by omega)
  · exact (hgw_poll ok h).mono (by omega)
  · exact (fb_poll2 ok data h1 h2 h3 h4 h5 h6 h7 h8 h9 h10 h11 h12 h13 h14 h15 h16 h17).mono (by omega)
  · exact ((le_poll h).imp
      (fun _ _ x => Or.inr (Or.inr (Or.inr ⟨d1, s2, Lf, hsp, hl, x⟩)))
      (fun _ _ x => ⟨d1, s2, Lf, hsp, hl, x⟩) (fun _ _ x => ⟨d1, s2, Lf, hsp, hl, x⟩)).mono (by omega)

/-- **The executor** for the Filter `writeable(); open Stdout; write_all(data); return`, the Data stream unread. -/
theorem run_gate2 {g : Cfg} {data : Bytes} (ok : GOK g (gateRest data g.st)) {Z : Bytes}
    (hns : ∀ d1 s2, g.R2 = d1 ++ s2 → NoStuckW g.cap g.mc (serAll s2 ++ Z))
    (hNF : ∀ d1 s2, g.R2 = d1 ++ s2 → ∀ F x, F ++ x ++ Z = serAll s2 ++ Z → (run .header F g.mc).st.isFinal = false)
    (em : EndMode) (evs0 : List String) (c : Conn) (n0 fuel : Nat) (hst : FStage g c)
    (hem : c.env.tr.endMode = em) (hev0 : ∀ s ∈ evs0, s ∈ c.env.tr.events)
    (hsegs : c.env.segs = []) (hf : ans c.env.tr + 1 ≤ fuel) :
    ∃ c'' fin, runTask fuel c n0 none = (c'', fin) ∧
      (GEnd g.cap g.mc Z g.more (g.hs0 + 1)
          (fun i : List Rec × List Rec × Bytes => g.R2 = i.1 ++ i.2.1 ∧ g.p.flags.toNat % 2 = 1 ∧ GLed g data i.1 i.2.2)
          (fun i => serAll i.2.1 ++ Z) (fun i => i.2.2)
          (fun _ => [hsEvent g.p.request]) em evs0 (ans c.env.tr) c'' fin ∨
       (fin = "RET" ∧ FQ2 g data c'' ∧ c''.env.tr.endMode = em ∧ (∀ s ∈ evs0, s ∈ c''.env.tr.events))) :=
  run_stages3' (cap24 g) (fun i hi => hns i.1 i.2.1 hi.1) (fun i hi => hNF i.1 i.2.1 hi.1)
    (fun c c' h => SG2.cong c c' h)
    (fun _ h => (sg2_poll ok h).imp (fun _ _ h => h) (fun c1 _ h => by
      obtain ⟨d1, s2, Lf, hsp, hl, haf⟩ := h
      obtain ⟨raw, hph, hw, hraw⟩ := haf.ph
      exact ⟨(d1, s2, Lf), ⟨hsp, haf.keep, hl⟩,
        Or.inr ⟨raw, hph, by rw [hw]; rfl, hraw, haf.log, haf.ben, haf.stop⟩,
        ⟨haf.sc, haf.mtx, haf.ev.1, fun s hs => by rw [List.mem_singleton.1 hs]; exact haf.ev.2⟩⟩) (fun _ _ h => h))
    em evs0 c n0 fuel (Or.inl (Or.inl hst)) hem hev0 hsegs hf

end Fcgi.E2E
