import Fcgi.Proofs.E2ETruncF
import Fcgi.Proofs.E2ETrunc2Cfg

/-!
# C12 end to end, Filter: the reference on the cut wires

* `refWire_skip`: a leading record the stream parser passes over silently (for the `Data` stream: the
  terminating record of `Stdin`, which the parser never consumed) does not change the reference.
* `cut_of_body8`, `cut_of_body8'`: every cut inside the body of a well-formed `Data` stream (up to 7
  bytes into its terminating record) is a `Cut` (the `Data` analogue of `cut_of_body`).
* `k1_ref`: the reference for `Stdin` on `body ++ Z`, `Z` = at least the header of the stream's
  terminating record and anything behind it: end of stream, `Z` unread.
* `k2_cut`: the reference for `Data` on such a `Z` that ends inside the `Data` body.
-/
namespace Fcgi.C12E
open Fcgi Fcgi.Req Fcgi.Str Fcgi.Async Fcgi.Run Fcgi.Spec Fcgi.E2E

theorem refWire_skip (E : Str.Cfg) (pre : Rec) (hwf : pre.WF) (hc : rclass E pre = .noise)
    (ho : owed (some E.id) E.mc pre = []) (w : Bytes) : refWire E (pre.ser ++ w) = refWire E w := by
  obtain ⟨rs, tail, rfl, hrs, ht⟩ := C03SI.decomposition_exists w
  have hwf' : ∀ r ∈ pre :: rs, r.WF := by
    intro r hr
    rcases List.mem_cons.1 hr with rfl | hr
    · exact hwf
    · exact hrs r hr
  have h1 := refWire_of_presentation E hwf' ht
  rw [serAll_cons, List.append_assoc] at h1
  rw [h1, refWire_of_presentation E hrs ht]
  simp only [refRun, hc, ho, List.nil_append]
  unfold glue
  cases (refRun E rs).stop <;> simp [Stop.succ]

/-- **Every cut inside the body of a well-formed `Data` stream is a `Cut`**: the reference has seen a
prefix of the content and owes a prefix of the replies owed for the whole stream. -/
theorem cut_of_body8 (id role mc : Nat) (hid : id < 65536) {content : Bytes} {body : List Rec}
    (hb : Body id 8 content body) {M : Nat} (h8 : 8 ≤ M) (hfit : NoiseFits M body) {Y : Bytes}
    (hY : Y <+: serAll body) :
    ∃ C O U, refWire ⟨id, role, 8, mc⟩ Y = ⟨C, O, .more, U⟩ ∧ C <+: content ∧ O <+: owedStream id 8 mc body ∧
      (∀ G, G <+: Y → (refWire ⟨id, role, 8, mc⟩ G).verdict = .more →
        (refWire ⟨id, role, 8, mc⟩ G).unread.length < M) := by
  have hwfb := body_wf hid hb
  have key : (refWire ⟨id, role, 8, mc⟩ Y).verdict = .more ∧ (refWire ⟨id, role, 8, mc⟩ Y).content <+: content ∧
      (refWire ⟨id, role, 8, mc⟩ Y).out <+: owedStream id 8 mc body := by
    rcases prefix_serAll _ Y hY with rfl | ⟨pre, r, post, tail, hrs, rfl, ht, hl⟩
    · have := refWire_of_presentation ⟨id, role, 8, mc⟩ hwfb (tail := []) (nextRec_short (by simp))
      rw [List.append_nil] at this
      rw [this, refRun_body (E := ⟨id, role, 8, mc⟩) (Or.inr rfl) hb]
      refine ⟨rfl, ?_, ?_⟩
      · show content ++ [] <+: content
        rw [List.append_nil]
        exact List.prefix_refl _
      · show owedStream id 8 mc body ++ [] <+: _
        rw [List.append_nil]
        exact List.prefix_refl _
    · subst hrs
      have hrwf : r.WF := hwfb r (by simp)
      have hprewf : ∀ x ∈ pre, x.WF := fun x hx => hwfb x (by simp [hx])
      obtain ⟨c1, c2, rfl, hb1, hb2⟩ := body_split pre hb
      rw [refWire_of_presentation _ hprewf (tail_nextRec hrwf ht hl),
        refRun_body (E := ⟨id, role, 8, mc⟩) (Or.inr rfl) hb1]
      simp only [glue, RefOut.pre_verdict, RefOut.pre_content, RefOut.pre_out]
      rw [owedStream_append, owedStream_cons]
      have htm := tail_more ⟨id, role, 8, mc⟩ hrwf ht hl
      cases hb2 with
      | noise _ hn t =>
        obtain ⟨h1, h2, h3⟩ := htm.1 (rclass_noise (E := ⟨id, role, 8, mc⟩) hn)
        rw [h2, List.append_nil]
        refine ⟨h1, List.prefix_append _ _, ?_⟩
        rw [if_neg]
        · obtain ⟨z, hz⟩ := h3
          exact ⟨z ++ owedStream id 8 mc post, by
            simp only at hz
            rw [← hz]; simp only [List.append_assoc]⟩
        · intro hh
          simp only [Bool.and_eq_true, beq_iff_eq] at hh
          exact hn.2 ⟨hh.2, Or.inr (Or.inl hh.1)⟩
      | @chunk c3 _ cc pad res hc hp t =>
        have hcl : rclass ⟨id, role, 8, mc⟩ { rtype := UInt8.ofNat 8, id := id, content := cc, pad := pad, reserved := res } = .data := by
          have hne : cc ≠ [] := fun h => by rw [h] at hc; simp at hc
          simp [rclass, RT.isInputStream, hne]
        obtain ⟨h1, ⟨z, hz⟩, h3⟩ := htm.2 hcl
        refine ⟨h1, ?_, ?_⟩
        · simp only at hz
          rw [← hz]
          exact ⟨z ++ c3, by simp only [List.append_assoc]⟩
        · rw [h3, List.append_nil]
          exact List.prefix_append _ _
  refine ⟨_, _, _, refOut_more key.1, key.2.1, key.2.2, ?_⟩
  -- the buffer condition, from the whole stream
  let term : Rec := { rtype := UInt8.ofNat 8, id := id, content := [], pad := [], reserved := 0 }
  have htwf : term.WF := ⟨hid, by simp [term], by simp [term]⟩
  have hcls : rclass ⟨id, role, 8, mc⟩ term = .endStream := by simp [rclass, term, RT.isInputStream]
  have href := refWire_stream ⟨id, role, 8, mc⟩ (Or.inr rfl) hid hb term htwf hcls [] (fun r hr => by cases hr)
  have hwf : ∀ r ∈ body ++ [term], r.WF := by
    intro r hr
    rcases List.mem_append.1 hr with hr | hr
    · exact hwfb r hr
    · rw [List.mem_singleton] at hr; subst hr; exact htwf
  have hfit' : NoiseFits M (body ++ [term]) := by
    intro r hr hg
    rcases List.mem_append.1 hr with hr | hr
    · exact hfit r hr hg
    · rw [List.mem_singleton] at hr
      subst hr
      exfalso
      have := hg.1
      simp [term, RT.getValues] at this
  have hsf := stream_fits ⟨id, role, 8, mc⟩ (body ++ [term]) hwf (by rw [href]; simp) h8 hfit'
  intro G hG hv
  refine hsf G ?_ hv
  rw [C02.serAll_append]
  exact (hG.trans hY).trans (List.prefix_append _ _)

/-- the reference on all data records and noise of a stream plus fewer than 8 further bytes -/
theorem refWire_body_short8 (id role mc : Nat) (hid : id < 65536) {content : Bytes} {body : List Rec}
    (hb : Body id 8 content body) {w : Bytes} (hw : w.length < 8) :
    refWire ⟨id, role, 8, mc⟩ (serAll body ++ w) = ⟨content, owedStream id 8 mc body, .more, w⟩ := by
  rw [refWire_of_presentation _ (body_wf hid hb) (nextRec_short hw),
    refRun_body (E := ⟨id, role, 8, mc⟩) (Or.inr rfl) hb, refTail_short _ hw]
  simp [glue, RefOut.pre]

/-- **… and so is every cut within the first 7 bytes behind the body** (`h`: the part of the header
of the terminating record that arrived). -/
theorem cut_of_body8' (id role mc : Nat) (hid : id < 65536) {content : Bytes} {body : List Rec}
    (hb : Body id 8 content body) {M : Nat} (h8 : 8 ≤ M) (hfit : NoiseFits M body) {Y h : Bytes}
    (hh : h.length < 8) (hY : Y <+: serAll body ++ h) :
    ∃ C O U, refWire ⟨id, role, 8, mc⟩ Y = ⟨C, O, .more, U⟩ ∧ C <+: content ∧ O <+: owedStream id 8 mc body ∧
      (∀ G, G <+: Y → (refWire ⟨id, role, 8, mc⟩ G).verdict = .more →
        (refWire ⟨id, role, 8, mc⟩ G).unread.length < M) := by
  rcases prefix_append_cases hY with ⟨w, rfl, hw⟩ | ⟨t, _, hYt⟩
  · have hwl : w.length < 8 := Nat.lt_of_le_of_lt hw.length_le hh
    refine ⟨_, _, _, refWire_body_short8 id role mc hid hb hwl, List.prefix_refl _, List.prefix_refl _, ?_⟩
    intro G hG hv
    rcases prefix_append_cases hG with ⟨w2, rfl, hw2⟩ | ⟨t2, _, hGt⟩
    · have hw2l : w2.length < 8 := Nat.lt_of_le_of_lt hw2.length_le hwl
      rw [refWire_body_short8 id role mc hid hb hw2l]
      show w2.length < M
      omega
    · obtain ⟨_, _, _, _, _, _, hf⟩ := cut_of_body8 id role mc hid hb h8 hfit (List.prefix_refl (serAll body))
      exact hf G ⟨t2, hGt⟩ hv
  · exact cut_of_body8 id role mc hid hb h8 hfit ⟨t, hYt⟩


/-- **`Stdin` ends where the header of its terminating record is**, whatever follows. -/
theorem k1_ref (id mc : Nat) (hid : id < 65536) {content : Bytes} {body : List Rec} (hb : Body id 5 content body)
    (term : Rec) (htw : term.WF) (hcls : rclass ⟨id, 3, 5, mc⟩ term = .endStream) {Z R : Bytes}
    (hZ : Z <+: term.ser ++ R) (h8 : 8 ≤ Z.length) :
    refWire ⟨id, 3, 5, mc⟩ (serAll body ++ Z) = ⟨content, owedStream id 5 mc body, .eos, Z⟩ := by
  have hwfb := body_wf hid hb
  rcases prefix_append_cases hZ with ⟨w, rfl, _⟩ | ⟨t', ht', hzt⟩
  · obtain ⟨rs, tail, rfl, hrs, ht⟩ := C03SI.decomposition_exists w
    have hwf : ∀ r ∈ body ++ term :: rs, r.WF := by
      intro r hr
      rcases List.mem_append.1 hr with hr | hr
      · exact hwfb r hr
      · rcases List.mem_cons.1 hr with rfl | hr
        · exact htw
        · exact hrs r hr
    have hpres := refWire_of_presentation ⟨id, 3, 5, mc⟩ hwf ht
    have hser : serAll (body ++ term :: rs) ++ tail = serAll body ++ (term.ser ++ (serAll rs ++ tail)) := by
      rw [C02.serAll_append, serAll_cons]; simp only [List.append_assoc]
    rw [hser] at hpres
    rw [hpres, refRun_body_app (E := ⟨id, 3, 5, mc⟩) (Or.inl rfl) hb]
    have htl : refRun ⟨id, 3, 5, mc⟩ (term :: rs) = ⟨[], [], .endOfStream 0⟩ := by simp only [refRun, hcls]
    rw [htl]
    have hadd : ∀ n, Stop.add n (.endOfStream 0) = .endOfStream n := by
      intro n
      induction n with
      | zero => rfl
      | succ n ih => simp only [Stop.add, ih, Stop.succ]
    simp only [hadd, glue, List.append_nil, List.drop_left', serAll_cons, List.append_assoc]
  · have hpre : Z <+: term.ser := ⟨t', hzt⟩
    have hl : Z.length < term.ser.length := by
      have := congrArg List.length hzt
      have : 0 < t'.length := List.length_pos_iff.mpr ht'
      simp only [List.length_append] at *
      omega
    rw [refWire_of_presentation _ hwfb (tail_nextRec htw hpre hl),
      refRun_body (E := ⟨id, 3, 5, mc⟩) (Or.inl rfl) hb, refTail_end _ htw hcls hpre hl h8]
    simp [glue, RefOut.pre]

/-- **A cut of the `Data` stream**, seen behind (at least the header of) the `Stdin` terminator. -/
theorem k2_cut (id mc : Nat) (hid : id < 65536) (term : Rec) (htw : term.WF)
    (hpc : rclass ⟨id, 3, 8, mc⟩ term = .noise) (hpo : owed (some id) mc term = [])
    {content2 : Bytes} {body2 : List Rec} (hb2 : Body id 8 content2 body2) {M : Nat} (hM : 8 ≤ M)
    (hfit : NoiseFits M body2) {Z h : Bytes} (hh : h.length < 8) (hZ : Z <+: term.ser ++ (serAll body2 ++ h)) :
    ∃ C O U, refWire ⟨id, 3, 8, mc⟩ Z = ⟨C, O, .more, U⟩ ∧ C <+: content2 ∧ O <+: owedStream id 8 mc body2 := by
  rcases prefix_append_cases hZ with ⟨w, rfl, hw⟩ | ⟨t', ht', hzt⟩
  · rw [refWire_skip ⟨id, 3, 8, mc⟩ term htw hpc hpo]
    obtain ⟨C, O, U, h1, h2, h3, _⟩ := cut_of_body8' id 3 mc hid hb2 hM hfit hh hw
    exact ⟨C, O, U, h1, h2, h3⟩
  · have hpre : Z <+: term.ser := ⟨t', hzt⟩
    have hl : Z.length < term.ser.length := by
      have := congrArg List.length hzt
      have : 0 < t'.length := List.length_pos_iff.mpr ht'
      simp only [List.length_append] at *
      omega
    have hpres := refWire_of_presentation ⟨id, 3, 8, mc⟩ (rs := []) (tail := Z) (fun r hr => by cases hr)
      (tail_nextRec htw hpre hl)
    simp only [serAll_nil, List.nil_append] at hpres
    obtain ⟨hv, hc, ho⟩ := (tail_more ⟨id, 3, 8, mc⟩ htw hpre hl).1 hpc
    have ho' : (refTail ⟨id, 3, 8, mc⟩ Z).out = [] := by
      have : (refTail ⟨id, 3, 8, mc⟩ Z).out <+: [] := by
        have := ho
        simp only at this
        rwa [hpo] at this
      exact List.prefix_nil.mp this
    refine ⟨[], [], (refTail ⟨id, 3, 8, mc⟩ Z).unread, ?_, List.nil_prefix, List.nil_prefix⟩
    rw [hpres]
    simp only [glue, refRun, RefOut.pre, List.nil_append]
    rw [show refTail ⟨id, 3, 8, mc⟩ Z = ⟨(refTail ⟨id, 3, 8, mc⟩ Z).content, (refTail ⟨id, 3, 8, mc⟩ Z).out,
      (refTail ⟨id, 3, 8, mc⟩ Z).verdict, (refTail ⟨id, 3, 8, mc⟩ Z).unread⟩ from rfl, hc, ho', hv]

end Fcgi.C12E
