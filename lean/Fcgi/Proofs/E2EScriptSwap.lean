import Fcgi.Proofs.E2EScriptIndep
/-!
# Replacing the write answers a run has not consumed

`swp kq s t`: the transport `t` with the LAST `k` write answers of its script replaced by `s`.  If a run on `t` ends with
at least `k ≥ 1` write answers left, it never touched the last `k` answers (and never asked beyond its script), so the
run on `swp kq s t` is the same run: `runTask_sw`, `closedLoop_sw`.  This is the two-sided form of
`Proofs/E2EScriptIndep` (there: appending to a script of which something is left; here: REPLACING the unconsumed tail —
in particular truncating it, `s = []`).  Generated from `Proofs/E2EScriptIndep` (`/verif/.run/gen/swap.py`) and adapted.
-/
namespace Fcgi.E2E
open Fcgi Fcgi.Req Fcgi.Str Fcgi.Async Fcgi.Run Fcgi.Spec Fcgi.Indep3 Fcgi.C12Inv

/-- the last `k` write answers replaced by `s` -/
def swp (kq : Nat) (s : List WrAns) (t : Transport) : Transport := { t with wr := t.wr.take (t.wr.length - kq) ++ s }
def swpE (kq : Nat) (s : List WrAns) (e : Run.Env) : Run.Env := { e with tr := swp kq s e.tr }
def swpC (kq : Nat) (s : List WrAns) (c : Conn) : Conn := { c with env := swpE kq s c.env }
def mapOutS (kq : Nat) (s : List WrAns) (x : CloseOut) : CloseOut := (x.1, x.2.1, x.2.2.1, swp kq s x.2.2.2.1, x.2.2.2.2)
def mapMidS (kq : Nat) (s : List WrAns) (x : CloseMid) : CloseMid := (x.1, x.2.1, swp kq s x.2.2.1, x.2.2.2)
def mapXS (kq : Nat) (s : List WrAns) : Except CloseOut CloseMid → Except CloseOut CloseMid
  | .error x => .error (mapOutS kq s x)
  | .ok y => .ok (mapMidS kq s y)
def mapStepS (kq : Nat) (s : List WrAns) : Step → Step
  | .next c => .next (swpC kq s c)
  | .halt c r => .halt (swpC kq s c) r

theorem le_up {kq : Nat} {t' t : Transport} (h : kq ≤ t'.wr.length) (hs : SufL t' t) : kq ≤ t.wr.length :=
  Nat.le_trans h hs.1.length_le

theorem read_sw (kq : Nat) (s : List WrAns) (t : Transport) (cap : Nat) :
    (swp kq s t).read cap = (swp kq s (t.read cap).1, (t.read cap).2) := by
  obtain ⟨input, endMode, rd, wr, fl, wlog, events, hold, woken, readWaker, abortKind⟩ := t
  unfold Transport.read swp
  simp only
  repeat' split
  all_goals first | rfl | simp_all [Transport.ev, Transport.rdErr]

theorem flush_sw (kq : Nat) (s : List WrAns) (t : Transport) : (swp kq s t).flush = (swp kq s t.flush.1, t.flush.2) := by
  obtain ⟨input, endMode, rd, wr, fl, wlog, events, hold, woken, readWaker, abortKind⟩ := t
  unfold Transport.flush swp
  simp only
  repeat' split
  all_goals first | rfl | simp_all [Transport.ev, Transport.flErr]

theorem ev_sw (kq : Nat) (s : List WrAns) (t : Transport) (e : String) : (swp kq s t).ev e = swp kq s (t.ev e) := rfl

theorem writeV_sw (kq : Nat) (hk1 : 1 ≤ kq) (s : List WrAns) (t : Transport) (sl : List Bytes) (tag : String)
    (h : kq ≤ (t.writeV sl tag).1.wr.length) :
    (swp kq s t).writeV sl tag = (swp kq s (t.writeV sl tag).1, (t.writeV sl tag).2) := by
  obtain ⟨input, endMode, rd, wr, fl, wlog, events, hold, woken, readWaker, abortKind⟩ := t
  unfold Transport.writeV swp at *
  simp only at *
  by_cases hd : sl.flatten.isEmpty = true
  · simp [hd, Transport.ev]
  · cases wr with
    | nil =>
      exfalso
      simp only [hd, Bool.false_eq_true, if_false] at h
      simp [Transport.ev] at h
      omega
    | cons a rest =>
      have hr : kq ≤ rest.length := by
        simp only [hd, Bool.false_eq_true, if_false] at h
        cases a <;> simpa [Transport.ev] using h
      have e1 : (a :: rest).length - kq = (rest.length - kq) + 1 := by simp only [List.length_cons]; omega
      simp only [hd, Bool.false_eq_true, if_false, e1, List.take_succ_cons, List.cons_append]
      cases a <;> simp [Transport.ev, Transport.wrErr]

theorem closeP3_sw (kq : Nat) (s : List WrAns) (r : AReq) (m : MutexSt) (t : Transport) (st : CloseSt) (status : ExitStatus)
    (alive : Nat) : closeP3 r m (swp kq s t) st status alive = mapXS kq s (closeP3 r m t st status alive) := by
  simp only [closeP3]
  split
  · split <;> rfl
  · rfl

theorem release_go_sw (kq : Nat) (s : List WrAns) : ∀ (fuel : Nat) (e : Run.Env) (any : Bool),
    Run.Env.release.go fuel (swpE kq s e) any =
      (swpE kq s (Run.Env.release.go fuel e any).1, (Run.Env.release.go fuel e any).2) := by
  intro fuel
  induction fuel with
  | zero => intro e any; unfold Run.Env.release.go; rfl
  | succ n ih =>
    intro e any
    obtain ⟨tr, mutex, segs⟩ := e
    cases segs with
    | nil => unfold Run.Env.release.go; rfl
    | cons p rest =>
      obtain ⟨g, bs⟩ := p
      simp only [Run.Env.release.go, swpE]
      have e0 : (swp kq s tr).wlog = tr.wlog := rfl
      rw [e0]
      by_cases hg : g.open_ tr.wlog = true
      · simp only [hg, if_true]
        exact ih ⟨{ tr with input := tr.input ++ bs }, mutex, rest⟩ true
      · simp only [hg]
        rfl

theorem release_sw (kq : Nat) (s : List WrAns) (e : Run.Env) :
    (swpE kq s e).release = (swpE kq s e.release.1, e.release.2) := by
  have h := release_go_sw kq s (e.segs.length + 1) e false
  unfold Run.Env.release
  simp only [swpE] at h ⊢
  simp only [h]
  rfl

theorem prePoll_sw (kq : Nat) (s : List WrAns) (c : Conn) (n : Nat) (sa : Option Nat) :
    prePoll (swpC kq s c) n sa = swpC kq s (prePoll c n sa) := by
  unfold prePoll
  split
  · simp only [swpC, release_sw]; rfl
  · simp only [swpC, release_sw]; rfl

theorem writeAllLoop_sw (kq : Nat) (hk1 : 1 ≤ kq) (s : List WrAns) : ∀ (fuel : Nat) (buf : Bytes) (t : Transport)
    {rest : Bytes} {t' : Transport} {res : ORes}, writeAllLoop fuel buf t = (rest, t', res) → kq ≤ t'.wr.length →
    writeAllLoop fuel buf (swp kq s t) = (rest, swp kq s t', res) := by
  intro fuel
  induction fuel with
  | zero => intro buf t rest t' res h _; simp only [writeAllLoop] at h ⊢; cases h; rfl
  | succ n ih =>
    intro buf t rest t' res h hne
    simp only [writeAllLoop] at h ⊢
    by_cases hbuf : buf.isEmpty = true
    · simp only [hbuf, if_true] at h ⊢
      cases h; rfl
    · simp only [hbuf, Bool.false_eq_true, if_false, Transport.write] at h ⊢
      rcases hw : t.writeV [buf] "W" with ⟨tw, r⟩
      rw [hw] at h
      have hk : kq ≤ tw.wr.length := by
        cases r with
        | pending => simp only at h; cases h; exact hne
        | ready x =>
          cases x with
          | error e => simp only at h; cases h; exact hne
          | ok k =>
            cases k with
            | zero => simp only at h; cases h; exact hne
            | succ k => simp only at h; exact le_up hne (suf_any (writeAllLoop_wout _ _ _ h))
      rw [writeV_sw kq hk1 s t _ _ (by rw [hw]; exact hk), hw]
      simp only
      cases r with
      | pending => simp only at h ⊢; cases h; rfl
      | ready x =>
        cases x with
        | error e => simp only at h ⊢; cases h; rfl
        | ok k =>
          cases k with
          | zero => simp only at h ⊢; cases h; rfl
          | succ k => simp only at h ⊢; exact ih _ _ h hne

theorem outLoop_sw (kq : Nat) (hk1 : 1 ≤ kq) (s : List WrAns) : ∀ (fuel : Nat) (sp : Str.Parser) (t : Transport)
    {sp' : Str.Parser} {t' : Transport} {res : ORes}, outLoop fuel sp t = (sp', t', res) → kq ≤ t'.wr.length →
    outLoop fuel sp (swp kq s t) = (sp', swp kq s t', res) := by
  intro fuel
  induction fuel with
  | zero => intro sp t sp' t' res h _; simp only [outLoop] at h ⊢; cases h; rfl
  | succ n ih =>
    intro sp t sp' t' res h hne
    simp only [outLoop] at h ⊢
    by_cases hbuf : sp.output.isEmpty = true
    · simp only [hbuf, if_true] at h ⊢
      cases h; rfl
    · simp only [hbuf, Bool.false_eq_true, if_false, Transport.write] at h ⊢
      rcases hw : t.writeV [sp.output] "W" with ⟨tw, r⟩
      rw [hw] at h
      have hk : kq ≤ tw.wr.length := by
        cases r with
        | pending => simp only at h; cases h; exact hne
        | ready x =>
          cases x with
          | error e => simp only at h; cases h; exact hne
          | ok k =>
            cases k with
            | zero => simp only at h; cases h; exact hne
            | succ k => simp only at h; exact le_up hne (suf_any (outLoop_wout _ _ _ h))
      rw [writeV_sw kq hk1 s t _ _ (by rw [hw]; exact hk), hw]
      simp only
      cases r with
      | pending => simp only at h ⊢; cases h; rfl
      | ready x =>
        cases x with
        | error e => simp only at h ⊢; cases h; rfl
        | ok k =>
          cases k with
          | zero => simp only at h ⊢; cases h; rfl
          | succ k => simp only at h ⊢; exact ih _ _ h hne

theorem pollOutput_sw (kq : Nat) (hk1 : 1 ≤ kq) (s : List WrAns) {r : AReq} {m : MutexSt} {t : Transport}
    {r' : AReq} {m' : MutexSt} {t' : Transport} {res : ORes}
    (h : r.pollOutput m t = (r', m', t', res)) (hne : kq ≤ t'.wr.length) :
    r.pollOutput m (swp kq s t) = (r', m', swp kq s t', res) := by
  simp only [AReq.pollOutput] at h ⊢
  by_cases he : r.sp.output.isEmpty = true
  · simp only [he, if_true] at h ⊢
    split at h <;> (cases h; simp_all)
  · simp only [he, Bool.false_eq_true, if_false] at h ⊢
    rcases hlp : lockPoll (if r.lock == .none then LockSt.polling else r.lock) m 0 with ⟨l, m1, got⟩
    simp only [hlp] at h ⊢
    cases got with
    | false => simp only [Bool.not_false, if_true] at h ⊢; cases h; rfl
    | true =>
      simp only [Bool.not_true, Bool.false_eq_true, if_false] at h ⊢
      rcases ho : outLoop (r.sp.output.length + 1) r.sp t with ⟨sp1, t1, o1⟩
      rw [ho] at h
      have hne1 : kq ≤ t1.wr.length := by
        cases o1 <;> (simp only at h; cases h; exact hne)
      rw [outLoop_sw kq hk1 s _ _ _ ho hne1]
      cases o1 <;> (simp only at h ⊢; cases h; rfl)

theorem inLoop_sw (kq : Nat) (hk1 : 1 ≤ kq) (s : List WrAns) : ∀ (fuel : Nat) (r : AReq) (new : Bytes) (dest : Option Nat) (m : MutexSt)
    (t : Transport) {r' : AReq} {m' : MutexSt} {t' : Transport} {res : IRes},
    inLoop fuel r new dest m t = (r', m', t', res) → kq ≤ t'.wr.length →
    inLoop fuel r new dest m (swp kq s t) = (r', m', swp kq s t', res) := by
  intro fuel
  induction fuel with
  | zero => intro r new dest m t r' m' t' res h _; simp only [inLoop] at h ⊢; cases h; rfl
  | succ n ih =>
    intro r new dest m t r' m' t' res h hne
    rw [inLoop_succ] at h ⊢
    rcases hp : r.sp.parse new dest with ⟨sp, pr⟩
    rw [hp] at h
    cases pr with
    | panic x => simp only at h ⊢; cases h; rfl
    | err x => simp only at h ⊢; cases h; rfl
    | ok st =>
      simp only at h ⊢
      by_cases hc : (st.streamEnd || decide (st.stream > 0)) = true
      · simp only [hc, if_true] at h ⊢; cases h; rfl
      · simp only [hc, Bool.false_eq_true, if_false] at h ⊢
        rcases hpo : ({ r with sp := sp.compress } : AReq).pollOutput m t with ⟨r1, m1, t1, o1⟩
        rw [hpo] at h
        have hne1 : kq ≤ t1.wr.length := by
          cases o1 with
          | ready => exact le_up hne (inCont_suf h)
          | pending => simp only at h; cases h; exact hne
          | err e => simp only at h; cases h; exact hne
          | panic x => simp only at h; cases h; exact hne
        rw [pollOutput_sw kq hk1 s hpo hne1]
        cases o1 with
        | pending => simp only at h ⊢; cases h; rfl
        | err e => simp only at h ⊢; cases h; rfl
        | panic x => simp only at h ⊢; cases h; rfl
        | ready =>
          simp only at h ⊢
          unfold inCont at h ⊢
          rw [read_sw]
          rcases hr : t1.read r1.sp.free with ⟨t2, x⟩
          rw [hr] at h
          simp only
          cases x with
          | pending => simp only at h ⊢; cases h; rfl
          | ready y =>
            cases y with
            | error e => simp only at h ⊢; cases h; rfl
            | ok bs =>
              cases bs with
              | nil => simp only at h ⊢; cases h; rfl
              | cons b bs => simp only at h ⊢; exact ih _ _ _ _ _ h hne

theorem pollInput_sw (kq : Nat) (hk1 : 1 ≤ kq) (s : List WrAns) {r : AReq} {dest : Option Nat} {m : MutexSt} {t : Transport}
    {r' : AReq} {m' : MutexSt} {t' : Transport} {res : IRes}
    (h : r.pollInput dest m t = (r', m', t', res)) (hne : kq ≤ t'.wr.length) :
    r.pollInput dest m (swp kq s t) = (r', m', swp kq s t', res) := by
  have main : piMain r dest m t = (r', m', t', res) → piMain r dest m (swp kq s t) = (r', m', swp kq s t', res) := by
    intro h
    unfold piMain at h ⊢
    rcases hpo : r.pollOutput m t with ⟨r1, m1, t1, o1⟩
    rw [hpo] at h
    have hne1 : kq ≤ t1.wr.length := by
      cases o1 with
      | ready => simp only at h; exact le_up hne (suf_any (inLoop_wout _ _ _ _ _ _ h))
      | pending => simp only at h; cases h; exact hne
      | err e => simp only at h; cases h; exact hne
      | panic x => simp only at h; cases h; exact hne
    rw [pollOutput_sw kq hk1 s hpo hne1]
    cases o1 with
    | pending => simp only at h ⊢; cases h; rfl
    | err e => simp only at h ⊢; cases h; rfl
    | panic x => simp only at h ⊢; cases h; rfl
    | ready => simp only at h ⊢; exact inLoop_sw kq hk1 s _ _ _ _ _ _ h hne
  rw [pollInput_eq] at h ⊢
  rcases dest with _ | n
  · rcases hb : r.sp.parsed with _ | ⟨b, bs⟩
    · rw [hb] at h; exact main h
    · rw [hb] at h; simp only at h ⊢; cases h; rfl
  · rcases n with _ | n
    · simp only at h ⊢; cases h; rfl
    · rcases hb : r.sp.parsed with _ | ⟨b, bs⟩
      · rw [hb] at h; exact main h
      · rw [hb] at h; simp only at h ⊢; cases h; rfl

theorem writeablePoll_sw (kq : Nat) (hk1 : 1 ≤ kq) (s : List WrAns) {r : AReq} {started : Bool} {m : MutexSt} {t : Transport}
    {r' : AReq} {b : Bool} {m' : MutexSt} {t' : Transport} {res : ORes}
    (h : r.writeablePoll started m t = (r', b, m', t', res)) (hne : kq ≤ t'.wr.length) :
    r.writeablePoll started m (swp kq s t) = (r', b, m', swp kq s t', res) := by
  simp only [AReq.writeablePoll] at h ⊢
  by_cases hc : (!started && r.writeable) = true
  · simp only [hc, if_true] at h ⊢; cases h; rfl
  · simp only [hc, Bool.false_eq_true, if_false] at h ⊢
    generalize hr1 : (if started = true then some r else
      match r.sp.setStream (inputStreams r.sp.request.role).getLast? with
      | .ok sp => some { r with sp := sp }
      | _ => none) = r1 at h ⊢
    cases r1 with
    | none => simp only at h ⊢; cases h; rfl
    | some r2 =>
      simp only at h ⊢
      rcases hpi : r2.pollInput none m t with ⟨r3, m3, t3, x⟩
      rw [hpi] at h
      have hne3 : kq ≤ t3.wr.length := by cases x <;> (simp only at h; cases h; exact hne)
      rw [pollInput_sw kq hk1 s hpi hne3]
      cases x <;> (simp only at h ⊢; cases h; rfl)

theorem writeLoop_sw (kq : Nat) (hk1 : 1 ≤ kq) (s : List WrAns) : ∀ (fuel : Nat) (w : Writer) (head buf : Bytes) (t : Transport)
    {w' : Writer} {t' : Transport} {res : WRes}, writeLoop fuel w head buf t = (w', t', res) → kq ≤ t'.wr.length →
    writeLoop fuel w head buf (swp kq s t) = (w', swp kq s t', res) := by
  intro fuel
  induction fuel with
  | zero => intro w head buf t w' t' res h _; simp only [writeLoop] at h ⊢; cases h; rfl
  | succ n ih =>
    intro w head buf t w' t' res h hne
    simp only [writeLoop] at h ⊢
    by_cases h1 : (!w.isWriting) = true
    · simp only [h1, if_true] at h ⊢; cases h; rfl
    · simp only [h1, Bool.false_eq_true, if_false] at h ⊢
      by_cases h2 : w.contentLen > buf.length
      · simp only [h2, if_true] at h ⊢; cases h; rfl
      · simp only [h2, if_false] at h ⊢
        rcases hw : t.writeV [head.drop w.headIdx, buf.drop (buf.length - w.contentLen), zeros w.padLen] "V" with ⟨tw, r⟩
        rw [hw] at h
        have hk : kq ≤ tw.wr.length := by
          cases r with
          | pending => simp only at h; cases h; exact hne
          | ready x =>
            cases x with
            | error e => simp only at h; cases h; exact hne
            | ok k =>
              cases k with
              | zero => simp only at h; cases h; exact hne
              | succ k =>
                simp only at h
                split at h
                · cases h; exact hne
                · exact le_up hne (suf_any (writeLoop_wout _ _ _ _ _ h))
        rw [writeV_sw kq hk1 s t _ _ (by rw [hw]; exact hk), hw]
        simp only
        cases r with
        | pending => simp only at h ⊢; cases h; rfl
        | ready x =>
          cases x with
          | error e => simp only at h ⊢; cases h; rfl
          | ok k =>
            cases k with
            | zero => simp only at h ⊢; cases h; rfl
            | succ k =>
              simp only at h ⊢
              split at h
              · rename_i hc
                rw [if_pos hc]
                cases h; rfl
              · rename_i hc
                rw [if_neg hc]
                exact ih _ _ _ _ h hne

theorem pollWrite_sw (kq : Nat) (hk1 : 1 ≤ kq) (s : List WrAns) {w : Writer} {me : Nat} {buf : Bytes} {m : MutexSt} {t : Transport}
    {w' : Writer} {m' : MutexSt} {t' : Transport} {res : WRes}
    (h : w.pollWrite me buf m t = (w', m', t', res)) (hne : kq ≤ t'.wr.length) :
    w.pollWrite me buf m (swp kq s t) = (w', m', swp kq s t', res) := by
  simp only [Writer.pollWrite] at h ⊢
  by_cases h0 : buf.isEmpty = true
  · simp only [h0, if_true] at h ⊢; cases h; rfl
  · simp only [h0, Bool.false_eq_true, if_false] at h ⊢
    generalize hsu : (if w.lock == .none then
        if w.isWriting then (Except.error "async_io:71 lock was dropped mid-write" : Except String Writer)
        else .ok { w with contentLen := min buf.length 65535, padLen := RecordHeader.autoPadding (min buf.length 65535),
                          headIdx := 0, origLen := min buf.length 65535, lock := .polling }
      else .ok w) = su at h ⊢
    cases su with
    | error x => simp only at h ⊢; cases h; rfl
    | ok w1 =>
      simp only at h ⊢
      by_cases h1 : (!w1.isWriting) = true
      · simp only [h1, if_true] at h ⊢; cases h; rfl
      · simp only [h1, Bool.false_eq_true, if_false] at h ⊢
        by_cases h2 : buf.length < w1.origLen
        · simp only [h2, if_true] at h ⊢; cases h; rfl
        · simp only [h2, if_false] at h ⊢
          rcases hlp : lockPoll w1.lock m (me + 1) with ⟨l, m1, got⟩
          simp only [hlp] at h ⊢
          cases got with
          | false => simp only [Bool.not_false, if_true] at h ⊢; cases h; rfl
          | true =>
            simp only [Bool.not_true, Bool.false_eq_true, if_false] at h ⊢
            rcases hwl : writeLoop (8 + w1.contentLen + w1.padLen + 1) { w1 with lock := l } ({ w1 with lock := l } : Writer).headBytes
              (buf.take w1.origLen) t with ⟨w2, t2, r2⟩
            have hwl' : writeLoop (8 + ({ w1 with lock := l } : Writer).contentLen + ({ w1 with lock := l } : Writer).padLen + 1)
              { w1 with lock := l } ({ w1 with lock := l } : Writer).headBytes (buf.take ({ w1 with lock := l } : Writer).origLen) t =
              (w2, t2, r2) := hwl
            rw [hwl'] at h
            have hne2 : kq ≤ t2.wr.length := by cases r2 <;> (simp only at h; cases h; exact hne)
            rw [writeLoop_sw kq hk1 s _ _ _ _ _ hwl' hne2]
            cases r2 <;> (simp only at h ⊢; cases h; rfl)

theorem pollFlush_sw (kq : Nat) (hk1 : 1 ≤ kq) (s : List WrAns) {w : Writer} {me : Nat} {m : MutexSt} {t : Transport}
    {w' : Writer} {m' : MutexSt} {t' : Transport} {res : WRes}
    (h : w.pollFlush me m t = (w', m', t', res)) :
    w.pollFlush me m (swp kq s t) = (w', m', swp kq s t', res) := by
  simp only [Writer.pollFlush] at h ⊢
  by_cases h0 : w.isWriting = true
  · simp only [h0, if_true] at h ⊢; cases h; rfl
  · simp only [h0, Bool.false_eq_true, if_false] at h ⊢
    rcases hlp : lockPoll (if w.lock == .none then LockSt.polling else w.lock) m (me + 1) with ⟨l, m1, got⟩
    simp only [hlp] at h ⊢
    cases got with
    | false => simp only [Bool.not_false, if_true] at h ⊢; cases h; rfl
    | true =>
      simp only [Bool.not_true, Bool.false_eq_true, if_false] at h ⊢
      rw [flush_sw]
      rcases hf : t.flush with ⟨t1, x⟩
      rw [hf] at h
      simp only
      cases x with
      | pending => simp only at h ⊢; cases h; rfl
      | ready y => cases y <;> (simp only at h ⊢; cases h; rfl)

theorem boundaryLoop_sw (kq : Nat) (hk1 : 1 ≤ kq) (s : List WrAns) : ∀ (fuel : Nat) (sp : Str.Parser) (new : Bytes) (t : Transport)
    {sp' : Str.Parser} {t' : Transport} {res : ORes}, boundaryLoop fuel sp new t = (sp', t', res) →
    boundaryLoop fuel sp new (swp kq s t) = (sp', swp kq s t', res) := by
  intro fuel
  induction fuel with
  | zero => intro sp new t sp' t' res h; simp only [boundaryLoop] at h ⊢; cases h; rfl
  | succ n ih =>
    intro sp new t sp' t' res h
    have cont : ∀ (sp0 : Str.Parser), boundaryLoop.cont sp0 t n = (sp', t', res) →
        boundaryLoop.cont sp0 (swp kq s t) n = (sp', swp kq s t', res) := by
      intro sp0 h
      simp only [boundaryLoop.cont] at h ⊢
      by_cases h1 : sp0.isRecordBoundary = true
      · simp only [h1, if_true] at h ⊢; cases h; rfl
      · simp only [h1, Bool.false_eq_true, if_false] at h ⊢
        by_cases h2 : (!sp0.parsed.isEmpty) = true
        · simp only [h2, if_true] at h ⊢; cases h; rfl
        · simp only [h2, Bool.false_eq_true, if_false] at h ⊢
          rw [read_sw]
          rcases hr : t.read sp0.compress.free with ⟨t1, x⟩
          rw [hr] at h
          simp only
          cases x with
          | pending => simp only at h ⊢; cases h; rfl
          | ready y =>
            cases y with
            | error e => simp only at h ⊢; cases h; rfl
            | ok bs =>
              cases bs with
              | nil => simp only at h ⊢; cases h; rfl
              | cons b bs => simp only at h ⊢; exact ih _ _ _ h
    simp only [boundaryLoop] at h ⊢
    rcases hp : sp.parse new none with ⟨sp1, pr⟩
    rw [hp] at h
    cases pr with
    | panic x => simp only at h ⊢; cases h; rfl
    | err e =>
      simp only at h ⊢
      by_cases he : (e == PErr.abortRequest) = true
      · simp only [he, if_true] at h ⊢; exact cont _ h
      · simp only [he, Bool.false_eq_true, if_false] at h ⊢; cases h; rfl
    | ok st => simp only at h ⊢; exact cont _ h

theorem closeBoundary_sw (kq : Nat) (hk1 : 1 ≤ kq) (s : List WrAns) {sp : Str.Parser} {resume : Bool} {t : Transport}
    {sp' : Str.Parser} {t' : Transport} {res : ORes} (h : closeBoundary sp resume t = (sp', t', res)) :
    closeBoundary sp resume (swp kq s t) = (sp', swp kq s t', res) := by
  simp only [closeBoundary] at h ⊢
  cases resume with
  | true =>
    simp only [if_true] at h ⊢
    rw [read_sw]
    rcases hr : t.read sp.free with ⟨t1, x⟩
    rw [hr] at h
    simp only
    cases x with
    | pending => simp only at h ⊢; cases h; rfl
    | ready y =>
      cases y with
      | error e => simp only at h ⊢; cases h; rfl
      | ok bs =>
        cases bs with
        | nil => simp only at h ⊢; cases h; rfl
        | cons b bs => simp only at h ⊢; exact boundaryLoop_sw kq hk1 s _ _ _ _ h
  | false =>
    simp only [Bool.false_eq_true, if_false] at h ⊢
    by_cases h1 : sp.isRecordBoundary = true
    · simp only [h1, if_true] at h ⊢; cases h; rfl
    · simp only [h1, Bool.false_eq_true, if_false] at h ⊢; exact boundaryLoop_sw kq hk1 s _ _ _ _ h

theorem closeP1_sw (kq : Nat) (hk1 : 1 ≤ kq) (s : List WrAns) (r : AReq) (st : CloseSt) (m : MutexSt) (t : Transport)
    (hne : kq ≤ (xTr (closeP1 r st m t)).wr.length) :
    closeP1 r st m (swp kq s t) = mapXS kq s (closeP1 r st m t) := by
  have main : ∀ b : Bool,
      kq ≤ (xTr (match r.writeablePoll b m t with
        | (r, _, m, t, .ready) => (Except.ok (r, m, t, CloseSt.start) : Except CloseOut CloseMid)
        | (r, _, m, t, .pending) => .error (r, .inWriteable, m, t, .pending)
        | (r, _, m, t, .err e) => if e == .abortRequest then .ok (r, m, t, .start) else .error (r, .inWriteable, m, t, .err e)
        | (r, _, m, t, .panic s) => .error (r, .inWriteable, m, t, .panic s))).wr.length →
      (match r.writeablePoll b m (swp kq s t) with
        | (r, _, m, t, .ready) => (Except.ok (r, m, t, CloseSt.start) : Except CloseOut CloseMid)
        | (r, _, m, t, .pending) => .error (r, .inWriteable, m, t, .pending)
        | (r, _, m, t, .err e) => if e == .abortRequest then .ok (r, m, t, .start) else .error (r, .inWriteable, m, t, .err e)
        | (r, _, m, t, .panic s) => .error (r, .inWriteable, m, t, .panic s)) =
      mapXS kq s (match r.writeablePoll b m t with
        | (r, _, m, t, .ready) => (Except.ok (r, m, t, CloseSt.start) : Except CloseOut CloseMid)
        | (r, _, m, t, .pending) => .error (r, .inWriteable, m, t, .pending)
        | (r, _, m, t, .err e) => if e == .abortRequest then .ok (r, m, t, .start) else .error (r, .inWriteable, m, t, .err e)
        | (r, _, m, t, .panic s) => .error (r, .inWriteable, m, t, .panic s)) := by
    intro b hne
    rcases hw : r.writeablePoll b m t with ⟨r1, b1, m1, t1, x⟩
    rw [hw] at hne
    have hne1 : kq ≤ t1.wr.length := by
      cases x with
      | err e => simp only at hne; split at hne <;> exact hne
      | _ => exact hne
    rw [writeablePoll_sw kq hk1 s hw hne1]
    cases x with
    | err e => simp only; split <;> rfl
    | _ => rfl
  cases st with
  | start => exact main _ hne
  | inWriteable => exact main _ hne
  | inBoundary => rfl
  | writeOut a b => rfl
  | writeEnd a => rfl

theorem closeP2_sw (kq : Nat) (hk1 : 1 ≤ kq) (s : List WrAns) (r : AReq) (m : MutexSt) (t : Transport) (st : CloseSt) :
    closeP2 r m (swp kq s t) st = mapXS kq s (closeP2 r m t st) := by
  have main : ∀ (cs : CloseSt) (sp : Str.Parser) (resume : Bool),
      (match closeBoundary sp resume (swp kq s t) with
        | (sp, t, .ready) => (Except.ok ({ r with sp := sp }, m, t, CloseSt.start) : Except CloseOut CloseMid)
        | (sp, t, .pending) => .error ({ r with sp := sp }, .inBoundary, m, t, .pending)
        | (sp, t, .err e) => .error ({ r with sp := sp }, .inBoundary, m, t, .err e)
        | (sp, t, .panic s) => .error ({ r with sp := sp }, .inBoundary, m, t, .panic s)) =
      mapXS kq s (match closeBoundary sp resume t with
        | (sp, t, .ready) => (Except.ok ({ r with sp := sp }, m, t, CloseSt.start) : Except CloseOut CloseMid)
        | (sp, t, .pending) => .error ({ r with sp := sp }, .inBoundary, m, t, .pending)
        | (sp, t, .err e) => .error ({ r with sp := sp }, .inBoundary, m, t, .err e)
        | (sp, t, .panic s) => .error ({ r with sp := sp }, .inBoundary, m, t, .panic s)) := by
    intro cs sp resume
    rcases hb : closeBoundary sp resume t with ⟨sp1, t1, x⟩
    rw [closeBoundary_sw kq hk1 s hb]
    cases x <;> rfl
  cases st with
  | start =>
    simp only [closeP2]
    cases r.sp.setStream none with
    | ok sp => exact main .start sp false
    | rejected => rfl
    | panic x => rfl
  | inBoundary => exact main .inBoundary r.sp true
  | inWriteable => rfl
  | writeOut a b => rfl
  | writeEnd a => rfl

theorem finishEnd_sw (kq : Nat) (hk1 : 1 ≤ kq) (s : List WrAns) {r : AReq} {rest : Bytes} {m : MutexSt} {t : Transport}
    {r' : AReq} {cs' : CloseSt} {m' : MutexSt} {t' : Transport} {res : CRes}
    (h : closePoll.finishEnd r rest m t = (r', cs', m', t', res)) (hne : kq ≤ t'.wr.length) :
    closePoll.finishEnd r rest m (swp kq s t) = (r', cs', m', swp kq s t', res) := by
  simp only [closePoll.finishEnd] at h ⊢
  rcases hw : writeAllLoop (rest.length + 1) rest t with ⟨rest1, t1, x⟩
  rw [hw] at h
  have hne1 : kq ≤ t1.wr.length := by
    cases x with
    | ready => simp only at h; repeat' (split at h)
               all_goals (cases h; exact hne)
    | _ => simp only at h; cases h; exact hne
  rw [writeAllLoop_sw kq hk1 s _ _ _ hw hne1]
  cases x with
  | ready =>
    simp only at h ⊢
    repeat' (split at h)
    all_goals (cases h; simp_all)
  | _ => simp only at h ⊢; cases h; rfl

theorem closeP4_sw (kq : Nat) (hk1 : 1 ≤ kq) (s : List WrAns) {r : AReq} {st : CloseSt} {m : MutexSt} {t : Transport}
    {r' : AReq} {cs' : CloseSt} {m' : MutexSt} {t' : Transport} {res : CRes}
    (h : closeP4 r m t st = (r', cs', m', t', res)) (hne : kq ≤ t'.wr.length) :
    closeP4 r m (swp kq s t) st = (r', cs', m', swp kq s t', res) := by
  cases st with
  | writeOut rest endreq =>
    simp only [closeP4] at h ⊢
    rcases hw : writeAllLoop (rest.length + 1) rest t with ⟨rest1, t1, x⟩
    rw [hw] at h
    have hne1 : kq ≤ t1.wr.length := by
      cases x with
      | ready => simp only at h; exact le_up hne (suf_any (finishEnd_wout h))
      | _ => simp only at h; cases h; exact hne
    rw [writeAllLoop_sw kq hk1 s _ _ _ hw hne1]
    cases x with
    | ready => simp only at h ⊢; exact finishEnd_sw kq hk1 s h hne
    | _ => simp only at h ⊢; cases h; rfl
  | writeEnd rest => simp only [closeP4] at h ⊢; exact finishEnd_sw kq hk1 s h hne
  | start => simp only [closeP4] at h ⊢; cases h; rfl
  | inWriteable => simp only [closeP4] at h ⊢; cases h; rfl
  | inBoundary => simp only [closeP4] at h ⊢; cases h; rfl

theorem closePoll_sw (kq : Nat) (hk1 : 1 ≤ kq) (s : List WrAns) {r : AReq} {st : CloseSt} {status : ExitStatus} {alive : Nat} {m : MutexSt}
    {t : Transport} {r' : AReq} {cs' : CloseSt} {m' : MutexSt} {t' : Transport} {res : CRes}
    (h : closePoll r st status alive m t = (r', cs', m', t', res)) (hne : kq ≤ t'.wr.length) :
    closePoll r st status alive m (swp kq s t) = (r', cs', m', swp kq s t', res) := by
  rw [closePoll_eq] at h ⊢
  rcases h1 : closeP1 r st m t with x1 | ⟨r1, m1, t1, st1⟩
  · rw [h1] at h
    simp only at h
    subst h
    rw [closeP1_sw kq hk1 s r st m t (by rw [h1]; exact hne), h1]
    rfl
  · rw [h1] at h
    simp only at h
    rcases h2 : closeP2 r1 m1 t1 st1 with x2 | ⟨r2, m2, t2, st2⟩
    · rw [h2] at h
      simp only at h
      subst h
      have hne1 : kq ≤ t1.wr.length := le_up hne (suf_of_clean (closeP2_wout.2 h2))
      rw [closeP1_sw kq hk1 s r st m t (by rw [h1]; exact hne1), h1]
      simp only [mapXS, mapMidS]
      rw [closeP2_sw kq hk1 s, h2]
      rfl
    · rw [h2] at h
      simp only at h
      have hs12 : SufL t2 t1 := suf_of_clean (closeP2_wout.1 h2)
      rcases h3 : closeP3 r2 m2 t2 st2 status alive with x3 | ⟨r3, m3, t3, st3⟩
      · rw [h3] at h
        simp only at h
        subst h
        have e3 := closeP3_le.2 h3
        have hne2 : kq ≤ t2.wr.length := by rw [← e3]; exact hne
        have hne1 : kq ≤ t1.wr.length := le_up hne2 hs12
        rw [closeP1_sw kq hk1 s r st m t (by rw [h1]; exact hne1), h1]
        simp only [mapXS, mapMidS]
        rw [closeP2_sw kq hk1 s, h2]
        simp only [mapXS, mapMidS]
        rw [closeP3_sw kq s, h3]
        rfl
      · rw [h3] at h
        simp only at h
        have e3 : t3 = t2 := closeP3_le.1 h3
        have hne3 : kq ≤ t3.wr.length := le_up hne (suf_any (closeP4_wout h))
        have hne2 : kq ≤ t2.wr.length := by rw [← e3]; exact hne3
        have hne1 : kq ≤ t1.wr.length := le_up hne2 hs12
        rw [closeP1_sw kq hk1 s r st m t (by rw [h1]; exact hne1), h1]
        simp only [mapXS, mapMidS]
        rw [closeP2_sw kq hk1 s, h2]
        simp only [mapXS, mapMidS]
        rw [closeP3_sw kq s, h3]
        simp only [mapXS, mapMidS]
        exact closeP4_sw kq hk1 s h hne


theorem handlerPoll_sw (kq : Nat) (hk1 : 1 ≤ kq) (s : List WrAns) : ∀ (fuel : Nat) (r : AReq) (h : HState) (e : Run.Env)
    {r' : AReq} {h' : HState} {e' : Run.Env} {res : HRes},
    handlerPoll fuel r h e = (r', h', e', res) → kq ≤ e'.tr.wr.length →
    handlerPoll fuel r h (swpE kq s e) = (r', h', swpE kq s e', res) := by
  intro fuel
  induction fuel with
  | zero => intro r h e r' h' e' res hh _; simp only [handlerPoll] at hh ⊢; cases hh; rfl
  | succ n ih =>
    intro r h e r' h' e' res hh hne
    obtain ⟨ops, sub, ws, pr⟩ := h
    cases ops with
    | nil => simp only [handlerPoll] at hh ⊢; cases hh; rfl
    | cons op rest =>
      -- `fail`
      have hfail : ∀ (r1 : AReq) (ws1 : List (Option Writer)) (e1 : Run.Env) (err : IoErr),
          (if pr = true then (r1, (⟨rest, .fresh, ws1, pr⟩ : HState), e1, HRes.done (.error err))
            else handlerPoll n r1 ⟨rest, .fresh, ws1, pr⟩ e1) = (r', h', e', res) →
          (if pr = true then (r1, (⟨rest, .fresh, ws1, pr⟩ : HState), swpE kq s e1, HRes.done (.error err))
            else handlerPoll n r1 ⟨rest, .fresh, ws1, pr⟩ (swpE kq s e1)) = (r', h', swpE kq s e', res) := by
        intro r1 ws1 e1 err hx
        by_cases hp : pr = true
        · simp only [hp, if_true] at hx ⊢; cases hx; rfl
        · simp only [hp, Bool.false_eq_true, if_false] at hx ⊢; exact ih _ _ _ hx hne
      cases op with
      | ret st => simp only [handlerPoll] at hh ⊢; cases hh; rfl
      | retErr err => simp only [handlerPoll] at hh ⊢; cases hh; rfl
      | consume k => simp only [handlerPoll] at hh ⊢; exact ih _ _ _ hh hne
      | setStream t =>
        simp only [handlerPoll] at hh ⊢
        cases hs : r.setStream t with
        | none => rw [hs] at hh; simp only at hh ⊢; cases hh; rfl
        | some r1 => rw [hs] at hh; simp only at hh ⊢; exact ih _ _ _ hh hne
      | open_ t =>
        simp only [handlerPoll] at hh ⊢
        split at hh
        · rename_i hc; rw [if_pos hc]; cases hh; rfl
        · rename_i hc; rw [if_neg hc]; exact ih _ _ _ hh hne
      | dropW i =>
        simp only [handlerPoll] at hh ⊢
        cases hg : ws.getD i none with
        | none => rw [hg] at hh; simp only at hh ⊢; exact ih _ _ _ hh hne
        | some w => rw [hg] at hh; simp only at hh ⊢; exact ih _ _ _ hh hne
      | read k =>
        simp only [handlerPoll] at hh ⊢
        rcases hpi : r.pollInput (some k) e.mutex e.tr with ⟨r1, m1, t1, x⟩
        rw [hpi] at hh
        have hne1 : kq ≤ t1.wr.length := by
          cases x with
          | pending => simp only at hh; cases hh; exact hne
          | panic z => simp only at hh; cases hh; exact hne
          | ready a b => simp only at hh; exact le_up hne (handlerPoll_suf _ _ _ _ hh)
          | err z => simp only at hh; exact le_up hne (fail_suf hh)
        have hpa := pollInput_sw kq hk1 s hpi hne1
        rw [show (swpE kq s e).mutex = e.mutex from rfl, show (swpE kq s e).tr = swp kq s e.tr from rfl, hpa]
        cases x with
        | pending => simp only at hh ⊢; cases hh; rfl
        | panic z => simp only at hh ⊢; cases hh; rfl
        | ready a b => simp only at hh ⊢; exact ih _ _ _ hh hne
        | err z => simp only at hh ⊢; exact hfail _ _ _ _ hh
      | fill =>
        simp only [handlerPoll] at hh ⊢
        rcases hpi : r.pollInput none e.mutex e.tr with ⟨r1, m1, t1, x⟩
        rw [hpi] at hh
        have hne1 : kq ≤ t1.wr.length := by
          cases x with
          | pending => simp only at hh; cases hh; exact hne
          | panic z => simp only at hh; cases hh; exact hne
          | ready a b => simp only at hh; exact le_up hne (handlerPoll_suf _ _ _ _ hh)
          | err z => simp only at hh; exact le_up hne (fail_suf hh)
        have hpa := pollInput_sw kq hk1 s hpi hne1
        rw [show (swpE kq s e).mutex = e.mutex from rfl, show (swpE kq s e).tr = swp kq s e.tr from rfl, hpa]
        cases x with
        | pending => simp only at hh ⊢; cases hh; rfl
        | panic z => simp only at hh ⊢; cases hh; rfl
        | ready a b => simp only at hh ⊢; exact ih _ _ _ hh hne
        | err z => simp only at hh ⊢; exact hfail _ _ _ _ hh
      | readAll =>
        simp only [handlerPoll] at hh ⊢
        rcases hpi : r.pollInput (some 64) e.mutex e.tr with ⟨r1, m1, t1, x⟩
        rw [hpi] at hh
        have hne1 : kq ≤ t1.wr.length := by
          cases x with
          | pending => simp only at hh; cases hh; exact hne
          | panic z => simp only at hh; cases hh; exact hne
          | ready a b =>
            cases a with
            | zero => simp only at hh; exact le_up hne (handlerPoll_suf _ _ _ _ hh)
            | succ a => simp only at hh; exact le_up hne (handlerPoll_suf _ _ _ _ hh)
          | err z => simp only at hh; exact le_up hne (fail_suf hh)
        have hpa := pollInput_sw kq hk1 s hpi hne1
        rw [show (swpE kq s e).mutex = e.mutex from rfl, show (swpE kq s e).tr = swp kq s e.tr from rfl, hpa]
        cases x with
        | pending => simp only at hh ⊢; cases hh; rfl
        | panic z => simp only at hh ⊢; cases hh; rfl
        | ready a b =>
          cases a with
          | zero => simp only at hh ⊢; exact ih _ _ _ hh hne
          | succ a => simp only at hh ⊢; exact ih _ _ _ hh hne
        | err z => simp only at hh ⊢; exact hfail _ _ _ _ hh
      | writeable =>
        simp only [handlerPoll] at hh ⊢
        rcases hpi : r.writeablePoll (sub == .writeableStarted) e.mutex e.tr with ⟨r1, b1, m1, t1, x⟩
        rw [hpi] at hh
        have hne1 : kq ≤ t1.wr.length := by
          cases x with
          | pending => simp only at hh; cases hh; exact hne
          | panic z => simp only at hh; cases hh; exact hne
          | ready => simp only at hh; exact le_up hne (handlerPoll_suf _ _ _ _ hh)
          | err z => simp only at hh; exact le_up hne (fail_suf hh)
        have hpa := writeablePoll_sw kq hk1 s hpi hne1
        rw [show (swpE kq s e).mutex = e.mutex from rfl, show (swpE kq s e).tr = swp kq s e.tr from rfl, hpa]
        cases x with
        | pending => simp only at hh ⊢; cases hh; rfl
        | panic z => simp only at hh ⊢; cases hh; rfl
        | ready => simp only at hh ⊢; exact ih _ _ _ hh hne
        | err z => simp only at hh ⊢; exact hfail _ _ _ _ hh
      | flush i =>
        simp only [handlerPoll] at hh ⊢
        cases hg : ws.getD i none with
        | none => rw [hg] at hh; simp only at hh ⊢; exact ih _ _ _ hh hne
        | some w =>
          rw [hg] at hh
          simp only at hh ⊢
          rcases hpf : w.pollFlush i e.mutex e.tr with ⟨w1, m1, t1, x⟩
          rw [hpf] at hh
          have hpa := pollFlush_sw kq hk1 s hpf
          rw [show (swpE kq s e).mutex = e.mutex from rfl, show (swpE kq s e).tr = swp kq s e.tr from rfl, hpa]
          cases x with
          | pending => simp only at hh ⊢; cases hh; rfl
          | panic z => simp only at hh ⊢; cases hh; rfl
          | ready k => simp only at hh ⊢; exact ih _ _ _ hh hne
          | err z => simp only at hh ⊢; exact hfail _ _ _ _ hh
      | writeAll i data =>
        simp only [handlerPoll] at hh ⊢
        cases hg : ws.getD i none with
        | none => rw [hg] at hh; simp only at hh ⊢; exact ih _ _ _ hh hne
        | some w =>
          rw [hg] at hh
          simp only at hh ⊢
          cases sub with
          | writeRest rd =>
            simp only at hh ⊢
            by_cases hc : (rd : Bytes).isEmpty = true
            · simp only [hc, if_true] at hh ⊢; exact ih _ _ _ hh hne
            · simp only [hc, Bool.false_eq_true, if_false] at hh ⊢
              rcases hpw : w.pollWrite i rd e.mutex e.tr with ⟨w1, m1, t1, x⟩
              rw [hpw] at hh
              have hne1 : kq ≤ t1.wr.length := by
                cases x with
                | pending => simp only at hh; cases hh; exact hne
                | panic z => simp only at hh; cases hh; exact hne
                | ready k =>
                  cases k with
                  | zero => simp only at hh; exact le_up hne (fail_suf hh)
                  | succ k => simp only at hh; exact le_up hne (handlerPoll_suf _ _ _ _ hh)
                | err z => simp only at hh; exact le_up hne (fail_suf hh)
              have hpa := pollWrite_sw kq hk1 s hpw hne1
              rw [show (swpE kq s e).mutex = e.mutex from rfl, show (swpE kq s e).tr = swp kq s e.tr from rfl, hpa]
              cases x with
              | pending => simp only at hh ⊢; cases hh; rfl
              | panic z => simp only at hh ⊢; cases hh; rfl
              | ready k =>
                cases k with
                | zero => simp only at hh ⊢; exact hfail _ _ _ _ hh
                | succ k => simp only at hh ⊢; exact ih _ _ _ hh hne
              | err z => simp only at hh ⊢; exact hfail _ _ _ _ hh
          | _ =>
            simp only at hh ⊢
            by_cases hc : (data : Bytes).isEmpty = true
            · simp only [hc, if_true] at hh ⊢; exact ih _ _ _ hh hne
            · simp only [hc, Bool.false_eq_true, if_false] at hh ⊢
              rcases hpw : w.pollWrite i data e.mutex e.tr with ⟨w1, m1, t1, x⟩
              rw [hpw] at hh
              have hne1 : kq ≤ t1.wr.length := by
                cases x with
                | pending => simp only at hh; cases hh; exact hne
                | panic z => simp only at hh; cases hh; exact hne
                | ready k =>
                  cases k with
                  | zero => simp only at hh; exact le_up hne (fail_suf hh)
                  | succ k => simp only at hh; exact le_up hne (handlerPoll_suf _ _ _ _ hh)
                | err z => simp only at hh; exact le_up hne (fail_suf hh)
              have hpa := pollWrite_sw kq hk1 s hpw hne1
              rw [show (swpE kq s e).mutex = e.mutex from rfl, show (swpE kq s e).tr = swp kq s e.tr from rfl, hpa]
              cases x with
              | pending => simp only at hh ⊢; cases hh; rfl
              | panic z => simp only at hh ⊢; cases hh; rfl
              | ready k =>
                cases k with
                | zero => simp only at hh ⊢; exact hfail _ _ _ _ hh
                | succ k => simp only at hh ⊢; exact ih _ _ _ hh hne
              | err z => simp only at hh ⊢; exact hfail _ _ _ _ hh


/-- **one phase transition** -/
theorem stepConn_sw (kq : Nat) (hk1 : 1 ≤ kq) (s : List WrAns) (c : Conn) (hne : kq ≤ (stepConn c).conn.env.tr.wr.length) :
    stepConn (swpC kq s c) = mapStepS kq s (stepConn c) := by
  obtain ⟨phase, env, scripts, stop⟩ := c
  cases phase with
  | finished => rfl
  | handler r h =>
    simp only [stepConn, swpC, swpE] at hne ⊢
    rcases hhp : handlerPoll (1000 + env.tr.input.length * 4 + (env.segs.map (·.2.length)).sum * 4 + r.sp.cap * 4 + scriptCost h)
      r h env with ⟨r1, h1, e1, x⟩
    rw [hhp] at hne
    have hne1 : kq ≤ e1.tr.wr.length := by
      cases x with
      | pending => exact hne
      | panic z => exact hne
      | done res =>
        cases res with
        | ok st => exact hne
        | error y => simp only at hne; split at hne <;> exact hne
    have hpa := handlerPoll_sw kq hk1 s _ _ _ _ hhp hne1
    have e0 : (swp kq s env.tr).input = env.tr.input := rfl
    rw [e0]
    rw [show ({ tr := swp kq s env.tr, mutex := env.mutex, segs := env.segs } : Run.Env) = swpE kq s env from rfl, hpa]
    cases x with
    | pending => rfl
    | panic z => rfl
    | done res =>
      cases res with
      | ok st => rfl
      | error y => simp only [mapStepS]; split <;> rfl
  | closing r cs status alive =>
    simp only [stepConn, swpC, swpE] at hne ⊢
    rcases hcp : closePoll r cs status alive env.mutex env.tr with ⟨r1, cs1, m1, t1, x⟩
    rw [hcp] at hne
    have hne1 : kq ≤ t1.wr.length := by cases x <;> exact hne
    rw [closePoll_sw kq hk1 s hcp hne1]
    cases x <;> rfl
  | parseReq rp sub =>
    cases stop with
    | true => rfl
    | false =>
      cases sub with
      | start =>
        simp only [stepConn, swpC, swpE, Bool.false_eq_true, if_false] at hne ⊢
        rcases rp.parse [] with ⟨rp1, oy⟩
        cases oy <;> rfl
      | reading =>
        simp only [stepConn, swpC, swpE, Bool.false_eq_true, if_false] at hne ⊢
        rw [read_sw]
        rcases env.tr.read rp.free with ⟨t1, x⟩
        cases x with
        | pending => rfl
        | ready y =>
          cases y with
          | error e => rfl
          | ok bs =>
            cases bs with
            | nil => rfl
            | cons b bs =>
              simp only
              rcases rp.parse (b :: bs) with ⟨rp1, oy⟩
              cases oy <;> rfl
      | writing rest done =>
        simp only [stepConn, swpC, swpE, Bool.false_eq_true, if_false] at hne ⊢
        rcases hw : writeAllLoop (rest.length + 1) rest env.tr with ⟨rest1, t1, x⟩
        rw [hw] at hne
        have hne1 : kq ≤ t1.wr.length := by
          cases x with
          | ready =>
            simp only at hne
            cases done with
            | false => exact hne
            | true =>
              simp only [Bool.not_true, Bool.false_eq_true, if_false] at hne
              cases hsp : rp.intoStreamParser with
              | error e => rw [hsp] at hne; exact hne
              | ok sp => rw [hsp] at hne; cases scripts with
                | nil => exact hne
                | cons sc ss => exact hne
          | _ => exact hne
        rw [writeAllLoop_sw kq hk1 s _ _ _ hw hne1]
        cases x with
        | ready =>
          simp only
          cases done with
          | false => rfl
          | true =>
            simp only [Bool.not_true, Bool.false_eq_true, if_false]
            cases rp.intoStreamParser with
            | error e => rfl
            | ok sp =>
              cases scripts with
              | nil => rfl
              | cons sc ss => rfl
        | _ => rfl

/-- **one poll** -/
theorem pollConn_sw (kq : Nat) (hk1 : 1 ≤ kq) (s : List WrAns) : ∀ (fuel : Nat) (c : Conn), kq ≤ (pollConn fuel c).1.env.tr.wr.length →
    pollConn fuel (swpC kq s c) = (swpC kq s (pollConn fuel c).1, (pollConn fuel c).2)
  | 0, c, _ => rfl
  | fuel + 1, c, hne => by
    rw [pollConn_succ] at hne
    rw [pollConn_succ, pollConn_succ]
    cases hst : stepConn c with
    | halt c1 r =>
      rw [hst] at hne
      rw [stepConn_sw kq hk1 s c (by rw [hst]; exact hne), hst]
      rfl
    | next c1 =>
      rw [hst] at hne
      have hne' : kq ≤ (pollConn fuel c1).1.env.tr.wr.length := hne
      have hne1 : kq ≤ c1.env.tr.wr.length := le_up hne' (pollConn_suf fuel c1)
      rw [stepConn_sw kq hk1 s c (by rw [hst]; exact hne1), hst]
      simp only [mapStepS, Step.run]
      exact pollConn_sw kq hk1 s fuel c1 hne'

/-- **a run of the task** that ends with write answers left does not depend on what is appended to the script -/
theorem runTask_sw (kq : Nat) (hk1 : 1 ≤ kq) (s : List WrAns) : ∀ (fuel : Nat) (c : Conn) (n : Nat) (sa : Option Nat),
    kq ≤ (runTask fuel c n sa).1.env.tr.wr.length →
    runTask fuel (swpC kq s c) n sa = (swpC kq s (runTask fuel c n sa).1, (runTask fuel c n sa).2)
  | 0, c, n, sa, _ => rfl
  | fuel + 1, c, n, sa, hne => by
    rw [runTask_succ'] at hne
    rw [runTask_succ', runTask_succ', prePoll_sw,
      show connFuel (swpC kq s (prePoll c n sa)) = connFuel (prePoll c n sa) from rfl]
    rcases hpc : pollConn (connFuel (prePoll c n sa)) (prePoll c n sa) with ⟨c1, r⟩
    rw [hpc] at hne
    have hsuf : SufL (afterPoll fuel n sa (c1, r)).1.env.tr c1.env.tr := by
      have h1 := runTask_suf (fuel + 1) c n sa
      cases r with
      | finished => exact SufL.refl _
      | panic z => exact SufL.refl _
      | pending =>
        simp only [afterPoll]
        split
        · exact runTask_suf _ _ _ _
        · have hrel := release_wf c1.env
          generalize c1.env.release = y at hrel
          obtain ⟨env, any⟩ := y
          simp only at hrel ⊢
          have h2 : SufL env.tr c1.env.tr := SufL.of_eq hrel.1 hrel.2
          split
          · exact (runTask_suf _ _ _ _).trans h2
          · cases sa with
            | none => exact h2
            | some k =>
              simp only
              split
              · exact (runTask_suf _ _ _ _).trans h2
              · exact h2
    have hne1 : kq ≤ c1.env.tr.wr.length := le_up hne hsuf
    have hpa := pollConn_sw kq hk1 s (connFuel (prePoll c n sa)) (prePoll c n sa) (by rw [hpc]; exact hne1)
    rw [hpa, hpc]
    simp only
    cases r with
    | finished => rfl
    | panic z => rfl
    | pending =>
      simp only [afterPoll] at hne ⊢
      have hwk : (swpC kq s c1).env.tr.woken = c1.env.tr.woken := rfl
      rw [hwk]
      split
      · rename_i hc
        rw [if_pos hc] at hne
        exact runTask_sw kq hk1 s fuel c1 (n + 1) sa hne
      · rename_i hc
        rw [if_neg hc] at hne
        have hrel : (swpC kq s c1).env.release = (swpE kq s c1.env.release.1, c1.env.release.2) :=
          release_sw kq s c1.env
        rw [hrel]
        generalize c1.env.release = y at hne ⊢
        obtain ⟨env, any⟩ := y
        simp only at hne ⊢
        have hwk2 : (swpE kq s env).tr.woken = env.tr.woken := rfl
        rw [hwk2]
        split
        · rename_i hc2
          rw [if_pos hc2] at hne
          exact runTask_sw kq hk1 s fuel { c1 with env := env } (n + 1) sa hne
        · rename_i hc2
          rw [if_neg hc2] at hne
          cases sa with
          | none => rfl
          | some k =>
            simp only at hne ⊢
            split
            · rename_i hc3
              have hc' : (decide (k > n) && !c1.stop) = true := hc3
              rw [if_pos hc'] at hne ⊢
              exact runTask_sw kq hk1 s fuel { c1 with env := env } k (some k) hne
            · rename_i hc3
              have hc' : ¬ (decide (k > n) && !c1.stop) = true := hc3
              rw [if_neg hc']
              rfl

theorem feed_sw (kq : Nat) (hk1 : 1 ≤ kq) (s : List WrAns) (c : Conn) (w : Bytes) : feed (swpC kq s c) w = swpC kq s (feed c w) := rfl

/-- **a closed-loop run** that ends `STALL` with write answers left does not depend on what is appended to the script -/
theorem closedLoop_sw (kq : Nat) (hk1 : 1 ≤ kq) (s : List WrAns) (fuel : Nat) : ∀ (ws : List Bytes) (c : Conn) (n : Nat),
    kq ≤ (closedLoop fuel ws c n).1.env.tr.wr.length →
    closedLoop fuel ws (swpC kq s c) n = (swpC kq s (closedLoop fuel ws c n).1, (closedLoop fuel ws c n).2)
  | [], c, n, hne => runTask_sw kq hk1 s fuel c n none hne
  | w :: ws, c, n, hne => by
    simp only [closedLoop] at hne ⊢
    rcases hr : runTask fuel c n none with ⟨c1, fin⟩
    rw [hr] at hne
    simp only at hne
    by_cases hf : fin = "STALL"
    · rw [if_pos hf] at hne
      have hne1 : kq ≤ c1.env.tr.wr.length :=
        le_up hne ((closedLoop_suf fuel ws (feed c1 w) (n + 1000)).trans (SufL.of_eq rfl rfl))
      have h1 := runTask_sw kq hk1 s fuel c n none (by rw [hr]; exact hne1)
      rw [h1, hr]
      simp only [if_pos hf]
      rw [feed_sw kq hk1 s]
      exact closedLoop_sw kq hk1 s fuel ws (feed c1 w) (n + 1000) hne
    · rw [if_neg hf] at hne
      have h1 := runTask_sw kq hk1 s fuel c n none (by rw [hr]; exact hne)
      rw [h1, hr]
      simp only [if_neg hf]

end Fcgi.E2E
