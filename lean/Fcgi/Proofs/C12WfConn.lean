import Fcgi.Proofs.C12Wf
/-!
# Helper lemmas for `Props/C12Wf.lean`, part 2: the request side (`poll_output`, `poll_input`,
`writeable()`, `close`) and the handler interpreter keep the write log a prefix of whole records

`RInv wlog m r`: the `Request`'s lock agrees with the mutex; while it does not hold the mutex the log
and its reply buffer are each a concatenation of whole records; while it holds it (a flush is in
progress) the log followed by the rest of the reply buffer is.
-/
namespace Fcgi.C12Inv
open Fcgi Fcgi.Req Fcgi.Str Fcgi.Async Fcgi.Run

/-- the mutex was left alone, or only party `owner` took/released it -/
def MFrame (owner : Nat) (m m' : MutexSt) : Prop := m' = m ∨ Touched owner m m'

theorem MFrame.refl (owner : Nat) (m : MutexSt) : MFrame owner m m := Or.inl rfl

structure RInv (wlog : Bytes) (m : MutexSt) (r : AReq) : Prop where
  own : Consistent 0 r.lock m
  mc : r.sp.maxConns < 2 ^ 64
  held : r.lock = .held → Whole (wlog ++ r.sp.output)
  free : r.lock ≠ .held → Whole wlog ∧ Whole r.sp.output

theorem RInv.pre {wlog : Bytes} {m : MutexSt} {r : AReq} (h : RInv wlog m r) : Pre wlog := by
  by_cases hl : r.lock = .held
  · exact Pre.of_whole (h.held hl)
  · exact (h.free hl).1.pre

/-- the parser's reply buffer grew by whole records; lock and mutex untouched -/
theorem RInv.grow {wlog : Bytes} {m : MutexSt} {r r' : AReq} (h : RInv wlog m r) (hl : r'.lock = r.lock)
    (ho : OutW r.sp r'.sp) : RInv wlog m r' := by
  obtain ⟨⟨o, he, hw⟩, hmc⟩ := ho
  refine ⟨by rw [hl]; exact h.own, by rw [hmc]; exact h.mc, fun hh => ?_, fun hh => ?_⟩
  · rw [he, ← List.append_assoc]
    exact (h.held (hl ▸ hh)).append hw
  · obtain ⟨h1, h2⟩ := h.free (hl ▸ hh)
    exact ⟨h1, by rw [he]; exact h2.append hw⟩

theorem RInv.same {wlog : Bytes} {m : MutexSt} {r r' : AReq} (h : RInv wlog m r) (hl : r'.lock = r.lock)
    (ho : r'.sp.output = r.sp.output) (hm : r'.sp.maxConns = r.sp.maxConns) : RInv wlog m r' :=
  h.grow hl (OutW.of_eq ho hm)

/-- `poll_output` -/
theorem pollOutput_rinv {r : AReq} {m : MutexSt} {t : Transport} {r' : AReq} {m' : MutexSt} {t' : Transport}
    {o : ORes} (hinv : RInv t.wlog m r) (h : r.pollOutput m t = (r', m', t', o)) :
    RInv t'.wlog m' r' ∧ MFrame 0 m m' := by
  by_cases hne : r.sp.output = []
  · have he : r.sp.output.isEmpty = true := by simp [hne]
    unfold AReq.pollOutput at h
    simp only [he, if_true] at h
    split at h <;> cases h <;> exact ⟨hinv, .refl _ _⟩
  · rw [pollOutput_nonempty r m t hne] at h
    have hc0 : Consistent 0 (lock0 r.lock) m := by
      have := hinv.own
      unfold Consistent lock0 at *
      cases hl : r.lock <;> simp_all
    have hl0 : lock0 r.lock = .held ↔ r.lock = .held := by
      unfold lock0; cases r.lock <;> simp
    obtain ⟨hc', hgot, hnot⟩ := lockPoll_spec _ m 0 hc0
    split at h
    · rename_i hg
      obtain ⟨h1, h2, h3, _⟩ := hnot hg
      cases h
      have hnh : r.lock ≠ .held := fun hh => h3 (hl0.2 hh)
      refine ⟨⟨hc', hinv.mc, fun hh => ?_, fun _ => hinv.free hnh⟩, Or.inl h2⟩
      simp only [] at hh
      rw [h1] at hh; cases hh
    · rename_i hg
      have hg' : (lockPoll (lock0 r.lock) m 0).2.2 = true := by simpa using hg
      obtain ⟨h1, h2, h3⟩ := hgot hg'
      have hfr : MFrame 0 m (some 0) := Or.inr ⟨h3, Or.inr rfl⟩
      rcases hl' : outLoop (r.sp.output.length + 1) r.sp t with ⟨sp3, t3, o3⟩
      rw [hl'] at h
      obtain ⟨d, hd, hout, hsp, hrdy, _⟩ := Async.outLoop_spec _ _ _ _ _ _ hl'
      have hmc3 : sp3.maxConns = r.sp.maxConns := by rw [hsp]
      -- whatever the lock was, log ++ buffer is whole afterwards
      have hall : Whole (t3.wlog ++ sp3.output) := by
        rw [hd, List.append_assoc, ← hout]
        by_cases hh : r.lock = .held
        · exact hinv.held hh
        · exact (hinv.free hh).1.append (hinv.free hh).2
      have hcases : o3 = .ready ∨ o3 ≠ .ready := by
        cases o3
        · exact Or.inl rfl
        all_goals exact Or.inr (fun hn => by cases hn)
      rcases hcases with rfl | hnr
      · cases h
        have he := hrdy rfl
        refine ⟨⟨by simp [Consistent], by simp only []; rw [hmc3]; exact hinv.mc, fun hh => (nomatch hh),
          fun _ => ⟨?_, by simp only []; rw [he]; exact Whole.nil⟩⟩, Or.inr ⟨h3, Or.inl rfl⟩⟩
        rw [he, List.append_nil] at hall; exact hall
      · have : (r', m', t', o) = ({ r with sp := sp3, lock := (lockPoll (lock0 r.lock) m 0).1 },
            (lockPoll (lock0 r.lock) m 0).2.1, t3, o3) := by
          rw [← h]
          cases o3
          · exact absurd rfl hnr
          all_goals rfl
        cases this
        rw [h2]
        refine ⟨⟨by simp only []; rw [h1]; simp [Consistent], by simp only []; rw [hmc3]; exact hinv.mc,
          fun _ => hall, fun hh => ?_⟩, hfr⟩
        simp only [] at hh
        exact absurd h1 hh

theorem MFrame.trans {owner : Nat} {a b c : MutexSt} (h1 : MFrame owner a b) (h2 : MFrame owner b c) :
    MFrame owner a c := by
  rcases h1 with rfl | ⟨h1a, h1b⟩
  · exact h2
  · rcases h2 with rfl | ⟨_, h2b⟩
    · exact Or.inr ⟨h1a, h1b⟩
    · exact Or.inr ⟨h1a, h2b⟩

theorem read_wlog' {t t' : Transport} {cap : Nat} {x : Poll (Except IoErr Bytes)} (h : t.read cap = (t', x)) :
    t'.wlog = t.wlog := by
  have := read_wlog t cap; rwa [h] at this

theorem inLoop_rinv : ∀ (fuel : Nat) (r : AReq) (new : Bytes) (dest : Option Nat) (m : MutexSt) (t : Transport)
    {r' : AReq} {m' : MutexSt} {t' : Transport} {res : IRes},
    RInv t.wlog m r → inLoop fuel r new dest m t = (r', m', t', res) →
    RInv t'.wlog m' r' ∧ MFrame 0 m m' := by
  intro fuel
  induction fuel with
  | zero => intro r new dest m t r' m' t' res hinv h; simp only [inLoop] at h; cases h; exact ⟨hinv, .refl _ _⟩
  | succ k ih =>
    intro r new dest m t r' m' t' res hinv h
    simp only [inLoop] at h
    have hgrow := strParse_out r.sp new dest hinv.mc
    cases hparse : r.sp.parse new dest with
    | mk sp pr =>
      rw [hparse] at h hgrow
      have hinv1 : RInv t.wlog m { r with sp := sp } := hinv.grow rfl hgrow
      cases pr with
      | panic s => simp only at h; cases h; exact ⟨hinv1, .refl _ _⟩
      | err e => simp only at h; cases h; exact ⟨hinv1, .refl _ _⟩
      | ok st =>
        simp only at h
        split at h
        · cases h
          refine ⟨?_, .refl _ _⟩
          split
          · exact hinv1.same rfl rfl rfl
          · exact hinv1
        · have hinv2 : RInv t.wlog m { r with sp := sp.compress } := hinv1.same rfl rfl rfl
          cases hpo : AReq.pollOutput { r with sp := sp.compress } m t with
          | mk r1 x =>
            obtain ⟨m1, t1, ores⟩ := x
            obtain ⟨hinv3, hf3⟩ := pollOutput_rinv hinv2 hpo
            have hpo' : AReq.pollOutput { sp := sp.compress, lock := r.lock, writeable := r.writeable } m t
                = (r1, m1, t1, ores) := hpo
            rw [hpo'] at h
            cases ores with
            | pending => simp only at h; cases h; exact ⟨hinv3, hf3⟩
            | err e => simp only at h; cases h; exact ⟨hinv3, hf3⟩
            | panic s => simp only at h; cases h; exact ⟨hinv3, hf3⟩
            | ready =>
              simp only at h
              cases hrd : t1.read r1.sp.free with
              | mk t2 pr =>
                rw [hrd] at h
                have hinv4 : RInv t2.wlog m1 r1 := by rw [read_wlog' hrd]; exact hinv3
                cases pr with
                | pending => simp only at h; cases h; exact ⟨hinv4, hf3⟩
                | ready ex =>
                  cases ex with
                  | error e => simp only at h; cases h; exact ⟨hinv4, hf3⟩
                  | ok bs =>
                    cases bs with
                    | nil => simp only at h; cases h; exact ⟨hinv4, hf3⟩
                    | cons b bs =>
                      simp only at h
                      obtain ⟨h5, h6⟩ := ih _ _ _ _ _ hinv4 h
                      exact ⟨h5, hf3.trans h6⟩

theorem pollInput_rinv {r : AReq} {dest : Option Nat} {m : MutexSt} {t : Transport}
    {r' : AReq} {m' : MutexSt} {t' : Transport} {res : IRes}
    (hinv : RInv t.wlog m r) (h : r.pollInput dest m t = (r', m', t', res)) :
    RInv t'.wlog m' r' ∧ MFrame 0 m m' := by
  simp only [AReq.pollInput] at h
  repeat' (split at h)
  all_goals first
    | (cases h; exact ⟨hinv, .refl _ _⟩)
    | (cases h; exact ⟨hinv.same rfl rfl rfl, .refl _ _⟩)
    | (cases h; exact pollOutput_rinv hinv ‹_›)
    | (obtain ⟨h1, h2⟩ := pollOutput_rinv hinv ‹_›
       obtain ⟨h3, h4⟩ := inLoop_rinv _ _ _ _ _ _ h1 h
       exact ⟨h3, h2.trans h4⟩)

theorem setStream_frame {p p' : Str.Parser} {st : Option Nat} (h : p.setStream st = .ok p') :
    p'.output = p.output ∧ p'.maxConns = p.maxConns := by
  rcases setStream_ok_cases h with ⟨_, rfl⟩ | ⟨_, rfl, _⟩
  · exact ⟨rfl, rfl⟩
  · exact ⟨rfl, rfl⟩

theorem writeablePoll_rinv {r : AReq} {started : Bool} {m : MutexSt} {t : Transport}
    {r' : AReq} {b : Bool} {m' : MutexSt} {t' : Transport} {res : ORes}
    (hinv : RInv t.wlog m r) (h : r.writeablePoll started m t = (r', b, m', t', res)) :
    RInv t'.wlog m' r' ∧ MFrame 0 m m' := by
  simp only [AReq.writeablePoll] at h
  split at h
  · cases h; exact ⟨hinv, .refl _ _⟩
  · split at h
    · cases h; exact ⟨hinv, .refl _ _⟩
    · rename_i r0 heq
      have hinv0 : RInv t.wlog m r0 := by
        split at heq
        · cases heq; exact hinv
        · split at heq
          · cases heq
            obtain ⟨h1, h2⟩ := setStream_frame ‹_›
            exact hinv.same rfl h1 h2
          · cases heq
      split at h
      all_goals
        have hp := pollInput_rinv hinv0 ‹_›
        cases h
        exact hp

/-! ## `close` -/

theorem boundaryCont_outw {n : Nat}
    (ih : ∀ (sp : Str.Parser) (new : Bytes) (t : Transport) {sp' : Str.Parser} {t' : Transport} {res : ORes},
      sp.maxConns < 2 ^ 64 → boundaryLoop n sp new t = (sp', t', res) → OutW sp sp' ∧ t'.wlog = t.wlog)
    {sp : Str.Parser} {t : Transport} {sp' : Str.Parser} {t' : Transport} {res : ORes}
    (hmc : sp.maxConns < 2 ^ 64)
    (h : boundaryLoop.cont sp t n = (sp', t', res)) : OutW sp sp' ∧ t'.wlog = t.wlog := by
  simp only [boundaryLoop.cont] at h
  repeat' (split at h)
  all_goals first
    | (cases h; exact ⟨OutW.refl _, rfl⟩)
    | (cases h; exact ⟨OutW.of_eq rfl rfl, read_wlog' ‹_›⟩)
    | (obtain ⟨h1, h2⟩ := ih _ _ _ (show sp.compress.maxConns < 2 ^ 64 from hmc) h
       exact ⟨(OutW.of_eq (p := sp) (p' := sp.compress) rfl rfl).trans h1, h2.trans (read_wlog' ‹_›)⟩)

theorem boundaryLoop_outw : ∀ (fuel : Nat) (sp : Str.Parser) (new : Bytes) (t : Transport)
    {sp' : Str.Parser} {t' : Transport} {res : ORes},
    sp.maxConns < 2 ^ 64 → boundaryLoop fuel sp new t = (sp', t', res) → OutW sp sp' ∧ t'.wlog = t.wlog := by
  intro fuel
  induction fuel with
  | zero => intro sp new t sp' t' res _ h; simp only [boundaryLoop] at h; cases h; exact ⟨OutW.refl _, rfl⟩
  | succ n ih =>
    intro sp new t sp' t' res hmc h
    simp only [boundaryLoop] at h
    have hg := strParse_out sp new none hmc
    cases hparse : sp.parse new none with
    | mk sp1 pr =>
      rw [hparse] at h hg
      have hmc1 : sp1.maxConns < 2 ^ 64 := by rw [hg.2]; exact hmc
      cases pr with
      | panic s => simp only at h; cases h; exact ⟨hg, rfl⟩
      | err e =>
        simp only at h
        split at h
        · obtain ⟨h1, h2⟩ := boundaryCont_outw ih hmc1 h
          exact ⟨hg.trans h1, h2⟩
        · cases h; exact ⟨hg, rfl⟩
      | ok st =>
        simp only at h
        obtain ⟨h1, h2⟩ := boundaryCont_outw ih hmc1 h
        exact ⟨hg.trans h1, h2⟩

theorem closeBoundary_outw {sp : Str.Parser} {resume : Bool} {t : Transport}
    {sp' : Str.Parser} {t' : Transport} {res : ORes} (hmc : sp.maxConns < 2 ^ 64)
    (h : closeBoundary sp resume t = (sp', t', res)) : OutW sp sp' ∧ t'.wlog = t.wlog := by
  simp only [closeBoundary] at h
  repeat' (split at h)
  all_goals first
    | (cases h; exact ⟨OutW.refl _, rfl⟩)
    | (cases h; exact ⟨OutW.refl _, read_wlog' ‹_›⟩)
    | exact boundaryLoop_outw _ _ _ _ hmc h
    | (obtain ⟨h1, h2⟩ := boundaryLoop_outw _ _ _ _ hmc h
       exact ⟨h1, h2.trans (read_wlog' ‹_›)⟩)

/-- no `StreamWriter` owns the mutex -/
def MFree (m : MutexSt) : Prop := m = none ∨ m = some 0

theorem MFree.frame {m m' : MutexSt} (h : MFree m) (hf : MFrame 0 m m') : MFree m' := by
  rcases hf with rfl | ⟨_, h2⟩
  · exact h
  · exact h2

/-- invariant of a `close` in progress -/
def CloseLI (wlog : Bytes) (m : MutexSt) (r : AReq) (cs : CloseSt) : Prop :=
  if cs.late = true then Whole (wlog ++ cs.owed) ∧ r.sp.maxConns < 2 ^ 64 ∧ m = none
  else RInv wlog m r ∧ MFree m

theorem CloseLI.pre {wlog : Bytes} {m : MutexSt} {r : AReq} {cs : CloseSt} (h : CloseLI wlog m r cs) :
    Pre wlog := by
  unfold CloseLI at h
  split at h
  · exact Pre.of_whole h.1
  · exact h.1.pre

theorem closeP1_rinv {r : AReq} {st : CloseSt} {m : MutexSt} {t : Transport} (hinv : RInv t.wlog m r) :
    (∀ {r1 m1 t1 st1}, closeP1 r st m t = .ok (r1, m1, t1, st1) → RInv t1.wlog m1 r1 ∧ MFrame 0 m m1) ∧
    (∀ {r' cs' m' t' res}, closeP1 r st m t = .error (r', cs', m', t', res) →
      (RInv t'.wlog m' r' ∧ MFrame 0 m m') ∧ cs' = .inWriteable) := by
  constructor
  all_goals
    intros
    rename_i h
    simp only [closeP1] at h
    repeat' (split at h)
    all_goals first
      | (cases h; exact ⟨hinv, .refl _ _⟩)
      | (have hp := writeablePoll_rinv hinv ‹_›
         cases h
         first | exact hp | exact ⟨hp, rfl⟩)
      | cases h

theorem closeP2_rinv {r : AReq} {m : MutexSt} {t : Transport} {st : CloseSt} (hinv : RInv t.wlog m r) :
    (∀ {r2 m2 t2 st2}, closeP2 r m t st = .ok (r2, m2, t2, st2) → RInv t2.wlog m2 r2 ∧ m2 = m) ∧
    (∀ {r' cs' m' t' res}, closeP2 r m t st = .error (r', cs', m', t', res) → RInv t'.wlog m' r' ∧ m' = m) := by
  have key : ∀ (sp0 : Str.Parser) (resume : Bool), OutW r.sp sp0 →
      (∀ {r2 m2 t2 st2}, closeP2Tail r m (closeBoundary sp0 resume t) = .ok (r2, m2, t2, st2) →
        RInv t2.wlog m2 r2 ∧ m2 = m) ∧
      (∀ {r' cs' m' t' res}, closeP2Tail r m (closeBoundary sp0 resume t) = .error (r', cs', m', t', res) →
        RInv t'.wlog m' r' ∧ m' = m) := by
    intro sp0 resume h0
    cases hb : closeBoundary sp0 resume t with
    | mk sp x =>
      obtain ⟨t1, ores⟩ := x
      obtain ⟨h1, h2⟩ := closeBoundary_outw (by rw [h0.2]; exact hinv.mc) hb
      have hr : RInv t1.wlog m { r with sp := sp } := by
        rw [h2]; exact hinv.grow rfl (h0.trans h1)
      constructor
      · intro r2 m2 t2 st2 h
        cases ores <;> simp only [closeP2Tail] at h <;> cases h
        exact ⟨hr, rfl⟩
      · intro r' cs' m' t' res h
        cases ores <;> simp only [closeP2Tail] at h <;> cases h <;> exact ⟨hr, rfl⟩
  cases st with
  | start =>
    rw [closeP2_start]
    refine key _ _ ?_
    unfold spIgnore
    split
    · exact OutW.refl _
    · exact OutW.of_eq rfl rfl
  | inBoundary => rw [closeP2_inBoundary]; exact key _ _ (OutW.refl _)
  | inWriteable =>
    rw [closeP2_other _ _ _ _ (Or.inr rfl)]
    exact ⟨fun h => by cases h; exact ⟨hinv, rfl⟩, fun h => nomatch h⟩
  | writeOut a b =>
    rw [closeP2_other _ _ _ _ (Or.inl rfl)]
    exact ⟨fun h => by cases h; exact ⟨hinv, rfl⟩, fun h => nomatch h⟩
  | writeEnd a =>
    rw [closeP2_other _ _ _ _ (Or.inl rfl)]
    exact ⟨fun h => by cases h; exact ⟨hinv, rfl⟩, fun h => nomatch h⟩

theorem finishEnd_mc {r : AReq} {rest : Bytes} {m : MutexSt} {t : Transport}
    {r' : AReq} {cs' : CloseSt} {m' : MutexSt} {t' : Transport} {res : CRes}
    (h : closePoll.finishEnd r rest m t = (r', cs', m', t', res)) :
    r' = r ∧ ∀ rp, res = .reuse rp → rp.maxConns = r.sp.maxConns := by
  simp only [closePoll.finishEnd] at h
  repeat' (split at h)
  all_goals first
    | (cases h
       refine ⟨rfl, fun rp hrp => ?_⟩
       cases hrp
       have hq := ‹r.sp.intoRequestParser = _›
       unfold Str.Parser.intoRequestParser at hq
       repeat' (split at hq)
       all_goals first | (cases hq; rfl) | cases hq)
    | (cases h; exact ⟨rfl, fun rp hrp => nomatch hrp⟩)

theorem closeP4_mc {r : AReq} {st : CloseSt} {m : MutexSt} {t : Transport}
    {r' : AReq} {cs' : CloseSt} {m' : MutexSt} {t' : Transport} {res : CRes}
    (h : closeP4 r m t st = (r', cs', m', t', res)) :
    r'.sp.maxConns = r.sp.maxConns ∧ ∀ rp, res = .reuse rp → rp.maxConns = r.sp.maxConns := by
  simp only [closeP4] at h
  repeat' (split at h)
  all_goals first
    | (cases h; exact ⟨rfl, fun rp hrp => nomatch hrp⟩)
    | (obtain ⟨h1, h2⟩ := finishEnd_mc h
       subst h1
       exact ⟨rfl, h2⟩)

theorem closeP4_li {r : AReq} {st : CloseSt} {m : MutexSt} {t : Transport}
    {r' : AReq} {cs' : CloseSt} {m' : MutexSt} {t' : Transport} {res : CRes}
    (hl : st.late = true) (hw : Whole (t.wlog ++ st.owed)) (hmc : r.sp.maxConns < 2 ^ 64) (hm : m = none)
    (h : closeP4 r m t st = (r', cs', m', t', res)) :
    CloseLI t'.wlog m' r' cs' ∧ ∀ rp, res = .reuse rp → Whole t'.wlog ∧ rp.maxConns < 2 ^ 64 ∧ m' = none := by
  obtain ⟨hmm, _, _, hlate, _, ⟨done, hd, hlog⟩, hres, _⟩ := closeP4_spec h hl
  obtain ⟨hm1, hm2⟩ := closeP4_mc h
  have hw' : Whole (t'.wlog ++ cs'.owed) := by
    rw [hlog, List.append_assoc, ← hd]; exact hw
  refine ⟨?_, fun rp hrp => ?_⟩
  · unfold CloseLI
    rw [if_pos hlate]
    exact ⟨hw', by rw [hm1]; exact hmc, hmm.trans hm⟩
  · subst hrp
    refine ⟨?_, by rw [hm2 _ rfl]; exact hmc, hmm.trans hm⟩
    rcases hres with ⟨hcs, _⟩ | ⟨hp, _⟩ | hf
    · rw [hcs] at hw'
      simpa [CloseSt.owed] using hw'
    · cases hp
    · rcases hf with ⟨e, _, he⟩ | he <;> cases he

/-- One poll of `close` keeps the invariant; `reuse` is reached only with a whole log and a free
mutex. -/
theorem closePoll_li {r : AReq} {st : CloseSt} {status : ExitStatus} {alive : Nat} {m : MutexSt}
    {t : Transport} {r' : AReq} {cs' : CloseSt} {m' : MutexSt} {t' : Transport} {res : CRes}
    (hinv : CloseLI t.wlog m r st)
    (h : closePoll r st status alive m t = (r', cs', m', t', res)) :
    (res = .pending → CloseLI t'.wlog m' r' cs') ∧ Pre t'.wlog ∧
    (∀ rp, res = .reuse rp → Whole t'.wlog ∧ rp.maxConns < 2 ^ 64 ∧ m' = none) := by
  rcases closePoll_cases h with ⟨hl, h1⟩ | ⟨hl, r1, m1, t1, st1, h1, h2⟩ |
      ⟨hl, r1, m1, t1, st1, r2, m2, t2, h1, h2, _, h3⟩ | ⟨hl, h4⟩
  · have hr : RInv t.wlog m r ∧ MFree m := by unfold CloseLI at hinv; rw [hl] at hinv; exact hinv
    obtain ⟨⟨hr', hf'⟩, hcs⟩ := (closeP1_rinv hr.1).2 h1
    subst hcs
    refine ⟨fun _ => by unfold CloseLI; exact ⟨hr', hr.2.frame hf'⟩, hr'.pre, fun rp hrp => ?_⟩
    rcases (closeP1_error h1).2.2 with hh | ⟨_, hh, _⟩ | ⟨_, hh, _⟩ <;> rw [hh] at hrp <;> cases hrp
  · have hr : RInv t.wlog m r ∧ MFree m := by unfold CloseLI at hinv; rw [hl] at hinv; exact hinv
    obtain ⟨hr1, hf1⟩ := (closeP1_rinv hr.1).1 h1
    obtain ⟨hr', hm'⟩ := (closeP2_rinv hr1).2 h2
    obtain ⟨_, _, hcs, _, hres⟩ := closeP2_error h2
    subst hcs
    refine ⟨fun _ => by unfold CloseLI; exact ⟨hr', by rw [hm']; exact hr.2.frame hf1⟩, hr'.pre,
      fun rp hrp => ?_⟩
    rcases hres with hh | ⟨_, hh⟩ | ⟨_, hh, _⟩ <;> rw [hh] at hrp <;> cases hrp
  · have hr : RInv t.wlog m r ∧ MFree m := by unfold CloseLI at hinv; rw [hl] at hinv; exact hinv
    obtain ⟨hr1, hf1⟩ := (closeP1_rinv hr.1).1 h1
    obtain ⟨hr2, hm2⟩ := (closeP2_rinv hr1).1 h2
    have hfree2 : MFree m2 := by rw [hm2]; exact hr.2.frame hf1
    unfold closeFrom3 at h3
    rw [closeP3_start] at h3
    by_cases ha : alive > 0
    · simp only [ha, if_true] at h3
      cases h3
      exact ⟨fun hh => (nomatch hh), hr2.pre, fun rp hrp => (nomatch hrp)⟩
    · simp only [ha, if_false] at h3
      have hw : Whole (t2.wlog ++ (CloseSt.writeOut r2.sp.output (epilogueOf r2 status)).owed) := by
        simp only [CloseSt.owed, ← List.append_assoc]
        refine Whole.append ?_ (whole_epilogue _ _ _)
        by_cases hh : r2.lock = .held
        · exact hr2.held hh
        · exact (hr2.free hh).1.append (hr2.free hh).2
      have hdrop : lockDrop r2.lock m2 = none := by
        by_cases hh : r2.lock = .held
        · rw [hh]; rfl
        · have hne : m2 ≠ some 0 := fun e => hh (hr2.own.mpr e)
          have : m2 = none := by
            rcases hfree2 with h0 | h0
            · exact h0
            · exact absurd h0 hne
          rw [this]; cases r2.lock <;> rfl
      obtain ⟨h5, h6⟩ := closeP4_li (r := { r2 with lock := .none }) rfl hw hr2.mc hdrop h3
      exact ⟨fun _ => h5, h5.pre, h6⟩
  · have hw : Whole (t.wlog ++ st.owed) ∧ r.sp.maxConns < 2 ^ 64 ∧ m = none := by
      unfold CloseLI at hinv; rw [if_pos hl] at hinv; exact hinv
    obtain ⟨h5, h6⟩ := closeP4_li hl hw.1 hw.2.1 hw.2.2 h4
    exact ⟨fun _ => h5, h5.pre, h6⟩

end Fcgi.C12Inv
