import Fcgi.Proofs.E2EFilterAbort3
/-!
# `poll_input(None)` on a stream that is cut by an `AbortRequest` AFTER some content

`close()`'s `writeable()` of a Filter whose handler did not read: `set_stream(Data)`, `poll_input(None)`.
With Data content before the request's `AbortRequest` record: the call returns `Ready` as soon as a
`parse` call has buffered content (the request becomes writeable), or — all that content and the abort
record arriving in the same `parse` call — fails with `Err(AbortRequest)`, the content lost, the request
not writeable.
-/
namespace Fcgi.E2E
open Fcgi Fcgi.Req Fcgi.Str Fcgi.Async Fcgi.Run Fcgi.Spec Fcgi.C09E

theorem _root_.Fcgi.C09E.RInvB.nowA {K : RCtx} (hK : K.Aborted) {r : AReq} {G fut dC dO : Bytes} (h : RInvB K r G fut dC dO) :
    K.C = dC ++ (Rem K.E r.sp fut).content ∧ K.O = dO ++ (Rem K.E r.sp fut).out ∧
    (Rem K.E r.sp fut).verdict = .err .abortRequest ∧ (Rem K.E r.sp fut).unread = K.U := by
  have := h.hist fut
  rw [h.wire, hK.ref] at this
  have h1 := congrArg RefOut.content this
  have h2 := congrArg RefOut.out this
  have h3 := congrArg RefOut.verdict this
  have h4 := congrArg RefOut.unread this
  simp only [RefOut.pre_content, RefOut.pre_out, RefOut.pre_verdict, RefOut.pre_unread] at h1 h2 h3 h4
  exact ⟨h1, h2, h3.symm, h4.symm⟩

/-- One `parse` call of the read loop of `poll_input(None)` on a stream cut by an `AbortRequest`. -/
theorem parse_rinv_noneA {K : RCtx} (hK : K.Aborted) {r : AReq} {G new fut dO : Bytes}
    (hi : RInv K r G (new ++ fut) [] dO) (hfree : new.length ≤ r.sp.free) :
    (∃ p' st o, r.sp.parse new none = (p', .ok st) ∧ st.streamEnd = false ∧ st.delivered = [] ∧
      st.stream = p'.parsed.length ∧ p'.output = r.sp.output ++ o ∧
      RInvB K { r with sp := p' } (G ++ new) fut p'.parsed (dO ++ o) ∧
      (st.stream = 0 → p'.raw.length < K.cap ∧ fut ≠ [])) ∨
    (∃ p' o, r.sp.parse new none = (p', .err .abortRequest) ∧ p'.output = r.sp.output ++ o ∧
      dO ++ o = K.O ∧ p'.pay = 0 ∧ p'.pad = 0 ∧ p'.raw ++ fut = K.U ∧
      SInv p' ∧ p'.request = K.rq ∧ p'.cap = K.cap ∧ p'.maxConns = K.E.mc) := by
  have hpt := C03S.parse_total r.sp new none hi.sinv (Or.inl rfl) hfree
  have hri : ∀ x, ∃ lost, _ := fun x =>
    parse_ri (E := K.E) (fut := x) (p := r.sp) (new := new) (dest := none) hi.mt hi.sinv (Or.inl rfl) hfree
  have hfr := parse_frame r.sp new none
  have hnow := hi.nowA hK
  cases hp : r.sp.parse new none with
  | mk p' pr =>
    rw [hp] at hpt hfr
    cases pr with
    | panic s => exact hpt.elim
    | err e =>
      right
      obtain ⟨hs', _, hcap', hreq', _, hmc', _⟩ := hpt
      obtain ⟨o, ho⟩ := hfr.2.2.2.2.2.1
      obtain ⟨lost, hm', h1, h2, hv, hu, _, hm⟩ := hri fut
      rw [hp] at hm' h1 h2 hv hu hm
      simp only at hm' h1 h2 hv hu hm
      obtain ⟨a, b, c⟩ := hm
      rw [a, b, ref_atStop c] at h1 h2 hv hu
      simp only [List.append_nil] at h1 h2 hv hu
      have ho' : p'.output = r.sp.output ++ o := ho.symm
      have hog : C03S.outGrowth r.sp (.parse new none) = o := by
        simp only [C03S.outGrowth, hp, ho', List.drop_left]
      rw [hog] at h2
      unfold Rem at hnow
      have he : e = .abortRequest := by
        have := hnow.2.2.1
        rw [← hv] at this
        cases this; rfl
      subst he
      exact ⟨p', o, rfl, ho', by rw [hnow.2.1, h2], a, b,
        by rw [← hnow.2.2.2, ← hu], hs', hreq'.trans hi.req, hcap'.trans hi.capK, hmc'.trans hi.mt.mc⟩
    | ok st =>
      left
      obtain ⟨hs', _, hcap', hreq', _, _, _⟩ := hpt
      obtain ⟨d, hd1, hd2, hd3⟩ := (C03S.counts_exact hi.sinv.1 (Or.inl rfl) hfree hp).2.1 rfl
      rw [hi.par, List.nil_append] at hd1
      subst hd1
      obtain ⟨⟨o, ho, _⟩, _⟩ := C03S.counts_exact hi.sinv.1 (Or.inl rfl) hfree hp
      have hog : C03S.outGrowth r.sp (.parse new none) = o := by
        simp only [C03S.outGrowth, hp, ho, List.drop_left]
      have hav : availOp r.sp (.parse new none) = p'.parsed := by
        simp [availOp, hp, hi.par]
      have hist' : ∀ x, refWire K.E ((G ++ new) ++ x) = (Rem K.E p' x).pre p'.parsed (dO ++ o) := by
        intro x
        obtain ⟨lost, _, h1, h2, h3, h4, _, hm⟩ := hri x
        rw [hp] at h1 h2 h3 h4 hm
        simp only at h1 h2 h3 h4 hm
        rw [hm.1, List.append_nil, hav] at h1
        rw [hog] at h2
        rw [List.append_assoc, hi.hist (new ++ x)]
        apply RefOut.ext'
        · simp only [RefOut.pre_content, Rem, List.nil_append]; rw [← h1]
        · simp only [RefOut.pre_out, Rem, List.append_assoc]; rw [← h2]
        · simp only [RefOut.pre_verdict, Rem]; rw [h3]
        · simp only [RefOut.pre_unread, Rem]; rw [h4]
      have hmt' : Match K.E p' := by
        obtain ⟨_, hm', _⟩ := hri fut
        rw [hp] at hm'; exact hm'
      have hi' : RInvB K { r with sp := p' } (G ++ new) fut p'.parsed (dO ++ o) :=
        ⟨hmt', hs', hreq'.trans hi.req, hcap'.trans hi.capK,
          by rw [List.append_assoc]; exact hi.wire, hist'⟩
      have hse : st.streamEnd = false := by
        cases hse : st.streamEnd with
        | false => rfl
        | true =>
          exfalso
          obtain ⟨lost, _, _, _, _, _, _, hm⟩ := hri fut
          rw [hp] at hm
          obtain ⟨a, b, c⟩ := hm.2 hse
          have hnow' := hi'.nowA hK
          simp only [Rem] at hnow'
          rw [a, b, ref_atStop c] at hnow'
          cases hnow'.2.2.1
      refine ⟨p', st, o, rfl, hse, hd3, hd2.symm, ho, hi', ?_⟩
      intro h2
      have hidle : Idle p' := parse_stall_none hi.sinv.1 hfree hp hse
      have hp0 : p'.parsed = [] := List.length_eq_zero_iff.1 (by omega)
      have h0 := hist' []
      rw [idle_ref K.E hidle, List.append_nil] at h0
      have hv : (refWire K.E (G ++ new)).verdict = .more := by rw [h0]; rfl
      have hu : (refWire K.E (G ++ new)).unread = p'.raw := by rw [h0]; rfl
      constructor
      · rw [← hu]
        exact hK.fits _ ⟨fut, by rw [List.append_assoc]; exact hi.wire⟩ hv
      · intro hf
        subst hf
        have hw := hi.wire
        rw [List.append_nil] at hw
        rw [hw, hK.ref] at hv
        cases hv


/-- What `poll_input(None)` returns on such a stream (`w0`: the `writeable` flag before the call). -/
def FillPostN (K : RCtx) (L P : Bytes) (w0 : Bool) (t : Transport) (r' : AReq) (m' : MutexSt)
    (t' : Transport) : IRes → Prop
  | .pending => (∃ dO', RSt K L P r' m' t' [] dO') ∧ t'.woken = true ∧ ans t' < ans t ∧ r'.writeable = w0
  | .ready k d => d = [] ∧ k = r'.sp.parsed.length ∧ 0 < k ∧ ∃ dO', RStB K L P r' m' t' r'.sp.parsed dO' ∧
      r'.lock = .none ∧ m' = none ∧ (K.final = true → r'.writeable = true)
  | .err e => e = .abortRequest ∧ m' = none ∧ AtAbort K L P r' t' ∧ r'.writeable = w0
  | .panic _ => False

theorem inLoop_sim_noneA {K : RCtx} (hK : K.Aborted) {L P : Bytes} : ∀ (fuel : Nat) (r : AReq)
    (new : Bytes) (t : Transport) {dO : Bytes} {r' : AReq} {m' : MutexSt} {t' : Transport} {res : IRes},
    Ben t → (∃ G, RInv K r G (new ++ t.input) [] dO) → r.lock = .none → r.sp.output = [] →
    t.wlog = L ++ (P ++ dO) → new.length ≤ r.sp.free → t.input.length + 2 ≤ fuel →
    inLoop fuel r new none none t = (r', m', t', res) →
    TStep t t' ∧ FillPostN K L P r.writeable t r' m' t' res := by
  intro fuel
  induction fuel with
  | zero => intro r new t dO r' m' t' res _ _ _ _ _ _ hf; omega
  | succ k ih =>
    intro r new t dO r' m' t' res hb ⟨G, hi⟩ hlk hout hlog hfree hf h
    rcases parse_rinv_noneA hK hi hfree with ⟨p', st, o, hp, hse, hdel, hcnt, ho, hiB, hstall⟩ |
      ⟨p', o, hp, ho, hO, hpay, hpad, hwire, hsinv, hreq, hcap, hmc⟩
    · rw [hout, List.nil_append] at ho
      simp only [inLoop, hp] at h
      split at h
      · -- the call buffered content: `Ready`
        rename_i hc
        have hk : 0 < st.stream := by
          simp only [hse, Bool.false_or, decide_eq_true_eq] at hc
          exact hc
        have hfin : ({ r with sp := p' } : AReq).isFinalStream = K.final := isFinal_of_match hiB.mt
        have key : ∀ w : Bool, (K.final = true → w = true) →
            (({ sp := p', lock := r.lock, writeable := w } : AReq), (none : MutexSt), t,
              IRes.ready st.stream st.delivered) = (r', m', t', res) →
            TStep t t' ∧ FillPostN K L P r.writeable t r' m' t' res := by
          intro w hw h
          cases h
          have hst : RStB K L P { sp := p', lock := r.lock, writeable := w } none t p'.parsed (dO ++ o) :=
            ⟨⟨G ++ new, hiB.congr rfl rfl rfl rfl rfl rfl rfl rfl hiB.sinv⟩,
              lockInv_free hlk, Or.inl rfl, ⟨P ++ dO, hlog, by rw [ho, List.append_assoc]⟩⟩
          exact ⟨.refl _, hdel, hcnt, hk, dO ++ o, hst, hlk, rfl, hw⟩
        split at h
        · exact key true (fun _ => rfl) h
        · rename_i hcond
          refine key r.writeable (fun hf => ?_) h
          rw [hfin, hf] at hcond
          simpa using hcond
      rename_i hc
      simp only [hse, Bool.false_or, decide_eq_true_eq, Nat.not_lt, Nat.le_zero_eq] at hc
      obtain ⟨hraw, hne⟩ := hstall hc
      have hp0 : p'.parsed = [] := List.length_eq_zero_iff.1 (by omega)
      have hi1 : RInv K { r with sp := p' } (G ++ new) t.input [] (dO ++ o) := by
        rw [hp0] at hiB
        exact hiB.toR hp0
      have hi2 : RInv K { r with sp := p'.compress } (G ++ new) t.input [] (dO ++ o) :=
        hi1.congr rfl rfl rfl rfl rfl rfl rfl rfl rfl (SInv_compress hi1.sinv)
      have hl2 : LockInv { r with sp := p'.compress } none := lockInv_free hlk
      rcases hpo : AReq.pollOutput { r with sp := p'.compress } none t with ⟨r3, m3, t3, ores⟩
      have hw3 : r3.writeable = r.writeable := by
        have := pollOutput_writeable { r with sp := p'.compress } none t
        rw [hpo] at this; exact this
      rw [hpo] at h
      obtain ⟨kk, e1, e2, e3, e4, e5, _, e7, e8⟩ := Async.pollOutput_spec hl2 hpo
      obtain ⟨b1, b2⟩ := pollOutput_ben hl2 (Or.inl rfl) hb hpo
      have hout2 : ({ r with sp := p'.compress } : AReq).sp.output = o := ho
      have hi3 : RInv K r3 (G ++ new) t3.input [] (dO ++ o) := by
        rw [e4.1]
        exact hi2.consumed e1
      have hlog3 : ∃ O1, t3.wlog = L ++ O1 ∧ O1 ++ r3.sp.output = P ++ (dO ++ o) :=
        ⟨P ++ dO ++ o.take kk, by rw [e3, hlog, hout2]; simp only [List.append_assoc], by
          rw [e1]
          show (P ++ dO ++ o.take kk) ++ (p'.compress.output.drop kk) = _
          rw [show p'.compress.output = o from ho]
          simp only [List.append_assoc, List.take_append_drop]⟩
      rcases b2 with rfl | ⟨rfl, bw, ba⟩
      · obtain ⟨f1, f2, f3, f4⟩ := e7 rfl
        have hm3 : m3 = none := by
          by_cases ho0 : o = []
          · exact (f3 (by rw [hout2]; exact ho0)).2.1
          · exact f4 (by rw [hout2]; exact ho0)
        subst hm3
        have hlog3' : t3.wlog = L ++ (P ++ (dO ++ o)) := by
          obtain ⟨O1, g1, g2⟩ := hlog3
          rw [f1, List.append_nil] at g2
          rw [g1, g2]
        have hb3 := hb.step b1
        have hne3 : t3.input ≠ [] := by rw [e4.1]; exact hne
        simp only at h
        split at h
        · rename_i t1 hr
          have hwl : t1.wlog = t3.wlog := by have := read_wlog t3 r3.sp.free; rwa [hr] at this
          cases h
          obtain ⟨hinp, hw | hw⟩ := read_pending hb3 hr
          · exact ⟨b1.trans (read_tstep hr), ⟨⟨dO ++ o, ⟨⟨G ++ new, by rw [hinp]; exact hi3⟩, e5, Or.inl rfl,
              ⟨P ++ (dO ++ o), by rw [hwl, hlog3'], by rw [f1, List.append_nil]⟩⟩⟩, hw.1,
              by have := b1.ans_le; omega, hw3⟩⟩
          · exact absurd hw.1 hne3
        · rename_i t1 e hr
          exact (read_error hb3 hr).elim
        · rename_i t1 hr
          obtain ⟨_, _, _, hz⟩ := read_ok_ben hb3 hr
          have hfreepos : 0 < r3.sp.free := by
            have hpar := hi3.par
            have hcapK := hi3.capK
            rw [e1] at hpar hcapK ⊢
            simp only [Str.Parser.consumeOutput, Str.Parser.compress] at hpar hcapK
            simp [Str.Parser.free, Str.Parser.freeStart, Str.Parser.compress, Str.Parser.consumeOutput, hpar, hcapK]
            omega
          rcases hz rfl with hz | hz
          · omega
          · exact absurd hz.1 hne3
        · rename_i t1 bs hbs hr
          obtain ⟨hin, hwl, hlen, _⟩ := read_ok_ben hb3 hr
          have hs1 := read_tstep hr
          have hbne : bs ≠ [] := fun hx => hbs (by rw [hx])
          have hbpos : 0 < bs.length := List.length_pos_iff.mpr hbne
          have hlen1 : t1.input.length + 2 ≤ k := by
            have := congrArg List.length hin
            rw [e4.1] at this
            simp only [List.length_append] at this
            omega
          obtain ⟨q1, q4⟩ := ih r3 bs t1 (hb3.step hs1)
            ⟨G ++ new, by rw [← hin]; exact hi3⟩ f2 f1 (by rw [hwl, hlog3']) hlen hlen1 h
          rw [hw3] at q4
          refine ⟨(b1.trans hs1).trans q1, ?_⟩
          cases res with
          | pending =>
            exact ⟨q4.1, q4.2.1, by have := (b1.trans hs1).ans_le; have := q4.2.2.1; omega, q4.2.2.2⟩
          | ready k d => exact q4
          | err e => exact q4
          | panic s => exact q4
      · obtain ⟨g1, g2⟩ := e8 (by intro hx; cases hx)
        have hm3 : m3 = some 0 := by
          rcases g2 with ⟨g2, _⟩ | ⟨_, _, _, _, i, hi⟩
          · exact g2
          · cases hi
        cases h
        exact ⟨b1, ⟨dO ++ o, ⟨⟨G ++ new, hi3⟩, e5, Or.inr hm3, hlog3⟩⟩, bw, ba, hw3⟩
    · -- the abort record is reached
      rw [hout, List.nil_append] at ho
      simp only [inLoop, hp] at h
      cases h
      refine ⟨.refl _, rfl, rfl, ⟨hlk, hpay, hpad, hwire, hsinv, hreq, hcap, hmc, ?_⟩, rfl⟩
      exact ⟨P ++ dO, hlog, by show (P ++ dO) ++ p'.output = _; rw [ho, List.append_assoc, hO]⟩

/-- **`poll_input(None)`** (empty stream buffer) on a stream aborted before any content. -/
theorem pollInput_sim_noneA {K : RCtx} (hK : K.Aborted) {L P : Bytes} {r : AReq} {m : MutexSt}
    {t : Transport} {dO : Bytes} {r' : AReq} {m' : MutexSt} {t' : Transport} {res : IRes}
    (hb : Ben t) (hs : RSt K L P r m t [] dO)
    (h : r.pollInput none m t = (r', m', t', res)) :
    TStep t t' ∧ FillPostN K L P r.writeable t r' m' t' res := by
  obtain ⟨⟨G, hi⟩, hl, hm, ⟨O1, hlog1, hlog2⟩⟩ := hs
  have hpar := hi.par
  simp only [AReq.pollInput, hpar] at h
  rcases hpo : r.pollOutput m t with ⟨r3, m3, t3, ores⟩
  have hw3 : r3.writeable = r.writeable := by
    have := pollOutput_writeable r m t
    rw [hpo] at this; exact this
  rw [hpo] at h
  obtain ⟨kk, e1, e2, e3, e4, e5, _, e7, e8⟩ := Async.pollOutput_spec hl hpo
  obtain ⟨b1, b2⟩ := pollOutput_ben hl hm hb hpo
  have hi3 : RInv K r3 G t3.input [] dO := by
    rw [e4.1]
    exact hi.consumed e1
  have hlog3 : ∃ O1', t3.wlog = L ++ O1' ∧ O1' ++ r3.sp.output = P ++ dO :=
    ⟨O1 ++ r.sp.output.take kk, by rw [e3, hlog1, List.append_assoc], by
      rw [e1]; simp only [Str.Parser.consumeOutput, List.append_assoc, List.take_append_drop]; exact hlog2⟩
  rcases b2 with rfl | ⟨rfl, bw, ba⟩
  · obtain ⟨f1, f2, f3, f4⟩ := e7 rfl
    have hm3 : m3 = none := by
      by_cases ho0 : r.sp.output = []
      · have hm0 : m = none := by
          rcases hm with hm | hm
          · exact hm
          · have := hl.1.2 hm
            rw [hl.2 ho0] at this; cases this
        rw [(f3 ho0).2.1, hm0]
      · exact f4 ho0
    subst hm3
    have hlog3' : t3.wlog = L ++ (P ++ dO) := by
      obtain ⟨O1', g1, g2⟩ := hlog3
      rw [f1, List.append_nil] at g2
      rw [g1, g2]
    simp only at h
    obtain ⟨q1, q2⟩ := inLoop_sim_noneA hK (L := L) (P := P) _ r3 [] t3 (hb.step b1) ⟨G, by simpa using hi3⟩ f2 f1 hlog3'
      (by simp) (Nat.le_refl _) h
    rw [hw3] at q2
    refine ⟨b1.trans q1, ?_⟩
    cases res with
    | pending => exact ⟨q2.1, q2.2.1, by have := b1.ans_le; have := q2.2.2.1; omega, q2.2.2.2⟩
    | ready k d => exact q2
    | err e => exact q2
    | panic s => exact q2
  · obtain ⟨g1, g2⟩ := e8 (by intro hx; cases hx)
    have hm3 : m3 = some 0 := by
      rcases g2 with ⟨g2, _⟩ | ⟨_, _, hmm, _, i, hi⟩
      · exact g2
      · rcases hm with hm | hm <;> rw [hm] at hi <;> cases hi
    cases h
    exact ⟨b1, ⟨dO, ⟨⟨G, hi3⟩, e5, Or.inr hm3, hlog3⟩⟩, bw, ba, hw3⟩


/-! ## The ignoring parser on Data records that are cut by the request's `AbortRequest` -/

/-- `R` = the Data records, the abort record, what follows; the `(5,1)`-view's reference on `serAll R`
stops in front of the abort record with the replies `Ow`, `U` unread -/
structure R2aCtx (id mc cap : Nat) (R : List Rec) (Ow U : Bytes) : Prop where
  ok1 : RecsOK1 id R
  ref : refWire (E1 id mc) (serAll R) = ⟨[], Ow, .err .abortRequest, U⟩
  fits : ∀ G, G <+: serAll R → (refWire (E1 id mc) G).verdict = .more →
    (refWire (E1 id mc) G).unread.length < cap
  cap8 : 8 ≤ cap

theorem r2a_now {id mc cap : Nat} {R : List Rec} {Ow U P : Bytes} (hc : R2aCtx id mc cap R Ow U) {sp : Str.Parser}
    {G fut dO : Bytes} (h : R2f id mc cap R P sp G fut dO) :
    (Rem (E1 id mc) (view1 sp) fut).content = [] ∧ dO ++ (Rem (E1 id mc) (view1 sp) fut).out = P ++ Ow ∧
    (Rem (E1 id mc) (view1 sp) fut).verdict = .err .abortRequest ∧
    (Rem (E1 id mc) (view1 sp) fut).unread = U := by
  have := h.hist fut (by rw [h.wire]; exact List.prefix_refl _)
  rw [h.wire, hc.ref] at this
  have h1 := congrArg RefOut.content this
  have h2 := congrArg RefOut.out this
  have h3 := congrArg RefOut.verdict this
  have h4 := congrArg RefOut.unread this
  simp only [RefOut.pre_content, RefOut.pre_out, RefOut.pre_verdict, RefOut.pre_unread, List.nil_append] at h1 h2 h3 h4
  exact ⟨h1.symm, h2.symm, h3.symm, h4.symm⟩

/-- **One `parse(new, None)` call of `record_boundary()`.** -/
theorem parse_r2a {id mc cap : Nat} {R : List Rec} {Ow U P : Bytes} (hc : R2aCtx id mc cap R Ow U) {sp : Str.Parser}
    {G new fut dO : Bytes}
    (hi : R2f id mc cap R P sp G (new ++ fut) dO) (hfree : new.length ≤ sp.free) :
    (∃ p' st o, sp.parse new none = (p', .ok st) ∧ p'.output = sp.output ++ o ∧ p'.request = sp.request ∧
      p'.maxConns = sp.maxConns ∧
      R2f id mc cap R P p' (G ++ new) fut (dO ++ o) ∧
      (p'.isRecordBoundary = false → p'.raw.length < cap ∧ fut ≠ [])) ∨
    (∃ p' o, sp.parse new none = (p', .err .abortRequest) ∧ p'.output = sp.output ++ o ∧
      p'.request = sp.request ∧ p'.maxConns = sp.maxConns ∧ p'.cap = cap ∧ dO ++ o = P ++ Ow ∧
      p'.pay = 0 ∧ p'.pad = 0 ∧ p'.raw ++ fut = U ∧ p'.raw.length ≤ cap) := by
  have hR := hc.ok1
  obtain ⟨hv, hign⟩ := parse_ign1 hR hi.ign
  have hfree' : new.length ≤ (view1 sp).free := hfree
  have hpar' : (view1 sp).parsed = [] := hi.par
  have hpt := C03S.parse_total (view1 sp) new none hi.sinv (Or.inl rfl) hfree'
  have hri : ∀ x, ∃ lost, _ := fun x =>
    parse_ri (E := E1 id mc) (fut := x) (p := view1 sp) (new := new) (dest := none) hi.mt hi.sinv (Or.inl rfl) hfree'
  have hfr := parse_frame (view1 sp) new none
  have hnow := r2a_now hc hi
  cases hp : sp.parse new none with
  | mk p1 res1 =>
    rw [hp] at hv hign
    simp only at hv hign
    rw [hv] at hpt hfr
    cases res1 with
    | panic s => exact hpt.elim
    | err e =>
      right
      simp only [resv] at hpt hfr
      obtain ⟨hs', _, hcap', _, _, hmc', _⟩ := hpt
      obtain ⟨o, ho⟩ := hfr.2.2.2.2.2.1
      have ho' : p1.output = sp.output ++ o := ho.symm
      have hog : C03S.outGrowth (view1 sp) (.parse new none) = o := by
        simp only [C03S.outGrowth, hv]
        show (view1 p1).output.drop (view1 sp).output.length = o
        rw [show (view1 p1).output = p1.output from rfl, show (view1 sp).output = sp.output from rfl, ho', List.drop_left]
      obtain ⟨lost, _, _, h2, hvd, hu, _, hm⟩ := hri fut
      rw [hv] at h2 hvd hu hm
      simp only [resv] at h2 hvd hu hm
      obtain ⟨a, b, c⟩ := hm
      rw [a, b, ref_atStop c] at h2 hvd hu
      simp only [List.append_nil] at h2 hvd hu
      rw [hog] at h2
      obtain ⟨_, hno, hnv, hnu⟩ := hnow
      unfold Rem at hno hnv hnu
      have he : e = .abortRequest := by
        rw [← hvd] at hnv
        cases hnv; rfl
      subst he
      have hreq1 : p1.request = sp.request := by
        have := (parse_frame sp new none).2.1
        rw [hp] at this
        exact this
      have hrawlen : p1.raw.length ≤ cap := by
        have h1 := hs'.1
        have e1 : (view1 p1).freeStart = p1.freeStart := rfl
        have e2 : (view1 p1).cap = p1.cap := rfl
        have e3 : p1.cap = cap := (show p1.cap = sp.cap from hcap').trans hi.capK
        rw [e1, e2, e3] at h1
        simp only [Str.Parser.freeStart] at h1
        omega
      exact ⟨p1, o, rfl, ho', hreq1, hmc', (show p1.cap = sp.cap from hcap').trans hi.capK,
        by rw [← hno, h2], a, b, by rw [← hnu, ← hu]; rfl, hrawlen⟩
    | ok st =>
      left
      have hign1 : Ign id R p1 fut := by
        rcases hign with h | ⟨s, hs⟩
        · exact h
        · cases hs
      simp only [resv] at hpt hfr
      obtain ⟨hs', hfs', hcap', hreq', _, hmc', _⟩ := hpt
      obtain ⟨o, ho⟩ := hfr.2.2.2.2.2.1
      obtain ⟨d, hd⟩ := hfr.2.2.2.2.2.2
      have ho' : p1.output = sp.output ++ o := ho.symm
      have hog : C03S.outGrowth (view1 sp) (.parse new none) = o := by
        simp only [C03S.outGrowth, hv]
        show (view1 p1).output.drop (view1 sp).output.length = o
        rw [show (view1 p1).output = p1.output from rfl, show (view1 sp).output = sp.output from rfl, ho', List.drop_left]
      have hav : availOp (view1 sp) (.parse new none) = d := by
        simp only [availOp, hv]
        show (view1 p1).parsed.drop (view1 sp).parsed.length = d
        rw [← hd, List.drop_left]
      -- nothing goes into the stream buffer
      have hd0 : d = [] := by
        obtain ⟨lost, _, h1, _, _, _, _, _⟩ := hri fut
        rw [hv] at h1
        simp only at h1
        rw [hav] at h1
        have hc0 := hnow.1
        unfold Rem at hc0
        rw [hc0] at h1
        exact (List.append_eq_nil_iff.1 (List.append_eq_nil_iff.1 h1).1).1
      have hpar1 : p1.parsed = [] := by
        have : (view1 p1).parsed = (view1 sp).parsed ++ d := hd.symm
        rw [hd0, List.append_nil] at this
        exact this.trans hi.par
      have hist' : ∀ x, (G ++ new) ++ x <+: serAll R →
          (refWire (E1 id mc) ((G ++ new) ++ x)).pre [] P = (Rem (E1 id mc) (view1 p1) x).pre [] (dO ++ o) := by
        intro x hx
        obtain ⟨lost, _, h1, h2, h3, h4, hl, _⟩ := hri x
        rw [hv] at h1 h2 h3 h4 hl
        simp only at h1 h2 h3 h4 hl
        rw [(hl trivial).1, List.append_nil, hav, hd0, List.nil_append] at h1
        rw [hog] at h2
        rw [List.append_assoc] at hx ⊢
        rw [hi.hist (new ++ x) hx]
        apply RefOut.ext'
        · simp only [RefOut.pre_content, Rem, List.nil_append]; rw [← h1]
        · simp only [RefOut.pre_out, Rem, List.append_assoc]; rw [← h2]
        · simp only [RefOut.pre_verdict, Rem]; rw [h3]
        · simp only [RefOut.pre_unread, Rem]; rw [h4]
      have hmt' : Match (E1 id mc) (view1 p1) := by
        obtain ⟨_, hm', _⟩ := hri fut
        rw [hv] at hm'; exact hm'
      have hterm : Terminal (E1 id mc) (view1 p1) := by
        obtain ⟨_, _, _, _, _, _, hl, _⟩ := hri fut
        rw [hv] at hl
        exact (hl rfl).2
      have hi' : R2f id mc cap R P p1 (G ++ new) fut (dO ++ o) :=
        ⟨hign1, hmt', hs', (show p1.cap = sp.cap from hcap').trans hi.capK, hpar1,
          by rw [List.append_assoc]; exact hi.wire, hist'⟩
      refine ⟨p1, st, o, rfl, ho', (congrArg (fun r : Request => r) ?_), hmc', hi', ?_⟩
      · -- the actual request is untouched
        have := (parse_frame sp new none).2.1
        rw [hp] at this
        exact this
      · intro hnb
        have hnb' : ¬ (p1.pay = 0 ∧ p1.pad = 0) := by
          intro hx
          simp [Str.Parser.isRecordBoundary, hx.1, hx.2] at hnb
        have hidle : Idle (view1 p1) := by
          rcases hterm with h | ⟨h1, h2, _⟩ | h
          · exact Or.inl (Or.inl h)
          · exact absurd ⟨h1, h2⟩ hnb'
          · exact Or.inr h
        have h0 := hist' [] (by
          rw [List.append_nil]
          exact ⟨fut, by rw [List.append_assoc]; exact hi.wire⟩)
        rw [idle_ref (E1 id mc) hidle, List.append_nil] at h0
        have hvm : (refWire (E1 id mc) (G ++ new)).verdict = .more := congrArg RefOut.verdict h0
        have hu : (refWire (E1 id mc) (G ++ new)).unread = p1.raw := congrArg RefOut.unread h0
        constructor
        · rw [← hu]
          exact hc.fits _ ⟨fut, by rw [List.append_assoc]; exact hi.wire⟩ hvm
        · intro hf
          subst hf
          obtain ⟨c, pd, rs, h1, h2, h3, _⟩ := hign1.pos
          rw [List.append_nil] at h3
          have hlen := congrArg List.length h3
          simp only [List.length_append] at hlen
          rcases hidle with (h | ⟨a, b, _⟩) | ⟨v, _, hlt, _⟩
          · have h' : p1.raw = [] := h
            rw [h'] at hlen
            simp only [List.length_nil] at hlen
            exact hnb' ⟨by omega, by omega⟩
          · exact hnb' ⟨a, b⟩
          · have : (view1 p1).raw.length < (view1 p1).pay := hlt
            have e1 : (view1 p1).raw = p1.raw := rfl
            have e2 : (view1 p1).pay = p1.pay := rfl
            rw [e1, e2] at this
            omega


/-! ## The loop of `record_boundary()` -/

/-- what `record_boundary()` leaves when it is done or suspended -/
structure BEnda (id mc cap : Nat) (R : List Rec) (P : Bytes) (sp sp' : Str.Parser) (dO : Bytes) (t' : Transport) : Prop where
  out : ∃ o G', sp'.output = sp.output ++ o ∧ R2f id mc cap R P sp' G' t'.input (dO ++ o)
  req : sp'.request = sp.request
  mc : sp'.maxConns = sp.maxConns

theorem bloop_simA {id mc cap : Nat} {R : List Rec} {Ow U P : Bytes} (hc : R2aCtx id mc cap R Ow U) : ∀ (fuel : Nat) (sp : Str.Parser)
    (new : Bytes) (t : Transport) {G dO : Bytes} {sp' : Str.Parser} {t' : Transport} {res : ORes},
    Ben t → R2f id mc cap R P sp G (new ++ t.input) dO → new.length ≤ sp.free → t.input.length + 2 ≤ fuel →
    boundaryLoop fuel sp new t = (sp', t', res) →
    TStep t t' ∧ t'.wlog = t.wlog ∧
    ((BEnda id mc cap R P sp sp' dO t' ∧
      ((res = .ready ∧ sp'.isRecordBoundary = true) ∨
       (res = .pending ∧ t'.woken = true ∧ ans t' < ans t ∧ sp'.isRecordBoundary = false ∧
          sp'.raw.length < cap ∧ sp'.g0 = 0 ∧ sp'.g1 = 0 ∧ t'.input ≠ []))) ∨
     -- the abort record is reached: `record_boundary()` returns in front of it
     (res = .ready ∧ ∃ o, sp'.output = sp.output ++ o ∧ dO ++ o = P ++ Ow ∧ sp'.request = sp.request ∧
        sp'.maxConns = sp.maxConns ∧ sp'.cap = cap ∧ sp'.pay = 0 ∧ sp'.pad = 0 ∧ sp'.raw ++ t'.input = U ∧
        sp'.raw.length ≤ cap)) := by
  intro fuel
  induction fuel with
  | zero => intro sp new t G dO sp' t' res _ _ _ hf; omega
  | succ k ih =>
    intro sp new t G dO sp' t' res hb hi hfree hf h
    rcases parse_r2a hc hi hfree with ⟨p1, st, o, hp, ho, hreq, hmc, hi1, hstall⟩ |
      ⟨p1, o, hp, ho, hreq, hmc, hcap, hO, hpay, hpad, hU, hrl⟩
    rotate_left
    · -- `Err(AbortRequest)`: the loop goes on to its boundary check, which succeeds
      have hbd : p1.isRecordBoundary = true := by simp [Str.Parser.isRecordBoundary, hpay, hpad]
      simp only [boundaryLoop, hp, beq_self_eq_true, if_true, boundaryLoop.cont, hbd] at h
      cases h
      exact ⟨.refl _, rfl, Or.inr ⟨rfl, o, ho, hO, hreq, hmc, hcap, hpay, hpad, hU, hrl⟩⟩
    simp only [boundaryLoop, hp] at h
    by_cases hbd : p1.isRecordBoundary = true
    · simp only [boundaryLoop.cont, hbd, if_true] at h
      cases h
      exact ⟨.refl _, rfl, Or.inl ⟨⟨⟨o, _, ho, hi1⟩, hreq, hmc⟩, Or.inl ⟨rfl, hbd⟩⟩⟩
    · have hbd' : p1.isRecordBoundary = false := by simpa using hbd
      obtain ⟨hraw, hne⟩ := hstall hbd'
      have hpe : p1.parsed.isEmpty = true := by rw [hi1.par]; rfl
      simp only [boundaryLoop.cont, hbd', Bool.false_eq_true, if_false, hpe, Bool.not_true] at h
      have hi2 := hi1.compress
      have hfreec : p1.compress.free = cap - p1.raw.length := by
        simp [Str.Parser.free, Str.Parser.freeStart, Str.Parser.compress, hi1.par, hi1.capK]
      have hfp : 0 < p1.compress.free := by rw [hfreec]; omega
      split at h
      · rename_i t1 hr
        have hwl : t1.wlog = t.wlog := by have := read_wlog t p1.compress.free; rwa [hr] at this
        obtain ⟨hinp, hw | hw⟩ := read_pending hb hr
        · have hts := read_tstep hr
          cases h
          exact ⟨hts, hwl, Or.inl ⟨⟨⟨o, _, ho, hi2.input hinp⟩, hreq, hmc⟩,
            Or.inr ⟨rfl, hw.1, hw.2, hbd', hraw, rfl, rfl, by rw [hinp]; exact hne⟩⟩⟩
        · exact absurd hw.1 hne
      · rename_i t1 e hr
        exact (read_error hb hr).elim
      · rename_i t1 hr
        obtain ⟨_, _, _, hz⟩ := read_ok_ben hb hr
        rcases hz rfl with hz | hz
        · omega
        · exact absurd hz.1 hne
      · rename_i t1 bs hbs hr
        obtain ⟨hin, hwl, hlen, _⟩ := read_ok_ben hb hr
        have hbne : bs ≠ [] := fun hx => hbs (by rw [hx])
        have hbpos : 0 < bs.length := List.length_pos_iff.mpr hbne
        have hs1 := read_tstep hr
        have hlen1 : t1.input.length + 2 ≤ k := by
          have := congrArg List.length hin
          simp only [List.length_append] at this
          omega
        obtain ⟨q1, q2, q3⟩ :=
          ih p1.compress bs t1 (hb.step hs1) (hi2.input (by rw [← hin])) hlen hlen1 h
        refine ⟨hs1.trans q1, q2.trans hwl, ?_⟩
        rcases q3 with ⟨⟨⟨o2, G2, ho2, hi3⟩, hreq2, hmc2⟩, q4⟩ | ⟨hr, o2, ho2, hO2, hreq2, hmc2, hcap2, r5, r6, r7, r8⟩
        · refine Or.inl ⟨⟨⟨o ++ o2, G2, ?_, by rw [← List.append_assoc]; exact hi3⟩,
            hreq2.trans hreq, hmc2.trans hmc⟩, ?_⟩
          · rw [ho2]
            show p1.output ++ o2 = _
            rw [ho, List.append_assoc]
          · rcases q4 with q4 | ⟨a, b, c, d⟩
            · exact Or.inl q4
            · exact Or.inr ⟨a, b, by have := hs1.ans_le; omega, d⟩
        · refine Or.inr ⟨hr, o ++ o2, ?_, by rw [← List.append_assoc]; exact hO2, hreq2.trans hreq, hmc2.trans hmc,
            hcap2, r5, r6, r7, r8⟩
          rw [ho2]
          show p1.output ++ o2 = _
          rw [ho, List.append_assoc]



end Fcgi.E2E
