import Fcgi.Props.C07
import Fcgi.Props.C01Chunked
import Fcgi.Props.C02
import Fcgi.Proofs.AsyncWriter
/-!
# End-to-end composition (C07) — part 1: the benign transport, counted phase transitions

`Ben t`: the scripted transport never answers with an error (or a zero-length write), its end mode
is not `err`, and no closed-loop peer holds input back.  `TStep t t'`: `t'` is a later state of such
a transport (answer lists are suffixes).  `ans t` counts the scripted answers still to come: every
transient `Pending` consumes one, which bounds the number of polls.

`Steps n c c'`: `n` phase transitions (`stepConn … = .next …`) lead from `c` to `c'` inside one poll.
-/
namespace Fcgi.E2E
open Fcgi Fcgi.Req Fcgi.Str Fcgi.Async Fcgi.Run

/-! ## Benign transports -/

/-- No error answers, no zero-length writes, no error end mode, no peer holding input back. -/
structure Ben (t : Transport) : Prop where
  rd : ∀ a ∈ t.rd, a ≠ RdAns.err
  wr : ∀ a ∈ t.wr, a ≠ WrAns.err ∧ a ≠ WrAns.zero
  hold : t.hold = false
  em : t.endMode ≠ EndMode.err

/-- scripted read/write answers still to come -/
def ans (t : Transport) : Nat := t.rd.length + t.wr.length

/-- `t'` is a later state of the transport `t`. -/
structure TStep (t t' : Transport) : Prop where
  tle : TLe t t'
  rd : t'.rd <:+ t.rd
  wr : t'.wr <:+ t.wr
  hold : t'.hold = t.hold
  em : t'.endMode = t.endMode
  /-- the waker is only invoked by a transient `Pending`, which consumes a scripted answer -/
  wk : t'.woken = t.woken ∨ (t'.woken = true ∧ ans t' < ans t)

theorem TStep.refl (t : Transport) : TStep t t :=
  ⟨.refl _, List.suffix_refl _, List.suffix_refl _, rfl, rfl, Or.inl rfl⟩

theorem TStep.ans_le {t t' : Transport} (s : TStep t t') : ans t' ≤ ans t := by
  have h1 := s.rd.length_le
  have h2 := s.wr.length_le
  unfold ans; omega

theorem TStep.trans {a b c : Transport} (h1 : TStep a b) (h2 : TStep b c) : TStep a c := by
  refine ⟨h1.tle.trans h2.tle, h2.rd.trans h1.rd, h2.wr.trans h1.wr, h2.hold.trans h1.hold,
    h2.em.trans h1.em, ?_⟩
  have l1 := h1.ans_le
  have l2 := h2.ans_le
  rcases h1.wk with a | ⟨a, a'⟩ <;> rcases h2.wk with b | ⟨b, b'⟩
  · exact Or.inl (b.trans a)
  · exact Or.inr ⟨b, by omega⟩
  · exact Or.inr ⟨b.trans a, by omega⟩
  · exact Or.inr ⟨b, by omega⟩

theorem Ben.step {t t' : Transport} (h : Ben t) (s : TStep t t') : Ben t' :=
  ⟨fun a ha => h.rd a (s.rd.subset ha), fun a ha => h.wr a (s.wr.subset ha),
   s.hold.trans h.hold, by rw [s.em]; exact h.em⟩

theorem TStep.ev (t : Transport) {s : String} (h : isHS s = false) : TStep t (t.ev s) :=
  ⟨TLe.ev_of t h, List.suffix_refl _, List.suffix_refl _, rfl, rfl, Or.inl rfl⟩

/-! ### `poll_read` -/

theorem read_frame (t : Transport) (cap : Nat) :
    (t.read cap).1.rd <:+ t.rd ∧ (t.read cap).1.wr = t.wr ∧ (t.read cap).1.hold = t.hold ∧
    (t.read cap).1.endMode = t.endMode ∧
    ((t.read cap).1.woken = t.woken ∨ ((t.read cap).1.woken = true ∧ ans (t.read cap).1 < ans t)) := by
  obtain ⟨input, endMode, rd, wr, fl, wlog, events, hold, woken, readWaker, abortKind⟩ := t
  rcases rd with _ | ⟨a, rest⟩
  · unfold Transport.read; repeat' split
    all_goals (try simp [Transport.ev, ans])
    all_goals (repeat' split)
    all_goals (try simp_all)
  · unfold Transport.read; repeat' split
    all_goals (try simp [Transport.ev, ans])
    all_goals (repeat' split)
    all_goals (try simp_all)

theorem read_tstep {t t' : Transport} {cap : Nat} {res : Poll (Except IoErr Bytes)}
    (h : t.read cap = (t', res)) : TStep t t' := by
  obtain ⟨h1, h2, h3, h4, h5⟩ := read_frame t cap
  rw [h] at h1 h2 h3 h4 h5
  exact ⟨read_le h, h1, by rw [h2]; exact List.suffix_refl _, h3, h4, h5⟩

/-- A `Pending` read is a scripted transient one (the waker was invoked, one answer was consumed) or
the transport is parked at the end of its input. -/
theorem read_pending {t t' : Transport} {cap : Nat} (hb : Ben t) (h : t.read cap = (t', .pending)) :
    t'.input = t.input ∧
      ((t'.woken = true ∧ ans t' < ans t) ∨
       (t.input = [] ∧ t.endMode = .pend ∧ 0 < cap ∧ t'.woken = t.woken)) := by
  obtain ⟨_, _, hh, he⟩ := hb
  obtain ⟨input, endMode, rd, wr, fl, wlog, events, hold, woken, readWaker, abortKind⟩ := t
  simp only at hh he
  subst hh
  rcases rd with _ | ⟨a, rest⟩
  · unfold Transport.read at h
    revert h; repeat' split
    all_goals (try simp [Transport.ev])
    all_goals (repeat' split)
    all_goals (try simp)
    all_goals (intro h1; subst h1; simp_all [ans] <;> omega)
  · unfold Transport.read at h
    revert h; repeat' split
    all_goals (try simp [Transport.ev])
    all_goals (repeat' split)
    all_goals (try simp)
    all_goals (intro h1; subst h1; simp_all [ans] <;> omega)

theorem read_error {t t' : Transport} {cap : Nat} {e : IoErr} (hb : Ben t)
    (h : t.read cap = (t', .ready (.error e))) : False := by
  obtain ⟨hr, _, hh, he⟩ := hb
  obtain ⟨input, endMode, rd, wr, fl, wlog, events, hold, woken, readWaker, abortKind⟩ := t
  simp only at hh he hr
  subst hh
  rcases rd with _ | ⟨a, rest⟩
  · unfold Transport.read at h
    revert h; repeat' split
    all_goals (try simp [Transport.ev])
    all_goals (repeat' split)
    all_goals (try simp)
    all_goals simp_all
  · unfold Transport.read at h
    revert h; repeat' split
    all_goals (try simp [Transport.ev])
    all_goals (repeat' split)
    all_goals (try simp)
    all_goals simp_all

/-- A successful read hands over a prefix of the pending input that fits the buffer; it is empty only
for an empty buffer or at end-of-file. -/
theorem read_ok_ben {t t' : Transport} {cap : Nat} {bs : Bytes} (hb : Ben t)
    (h : t.read cap = (t', .ready (.ok bs))) :
    t.input = bs ++ t'.input ∧ t'.wlog = t.wlog ∧ bs.length ≤ cap ∧
    (bs = [] → cap = 0 ∨ (t.input = [] ∧ t.endMode = .eof)) := by
  obtain ⟨h1, h2, _⟩ := read_ok h
  refine ⟨h1, h2, ?_⟩
  clear h1 h2
  obtain ⟨_, _, hh, _⟩ := hb
  obtain ⟨input, endMode, rd, wr, fl, wlog, events, hold, woken, readWaker, abortKind⟩ := t
  simp only at hh
  subst hh
  rcases rd with _ | ⟨a, rest⟩
  · unfold Transport.read at h
    revert h; repeat' split
    all_goals (try simp [Transport.ev])
    all_goals (repeat' split)
    all_goals (try simp)
    all_goals (intro h1 h2; subst h1; subst h2; simp_all <;> omega)
  · unfold Transport.read at h
    revert h; repeat' split
    all_goals (try simp [Transport.ev])
    all_goals (repeat' split)
    all_goals (try simp)
    all_goals (intro h1 h2; subst h1; subst h2; simp_all <;> omega)

/-! ### `poll_write` / `poll_write_vectored` -/

theorem writeV_ben (t : Transport) (sl : List Bytes) (tag : String)
    (hw : ∀ a ∈ t.wr, a ≠ WrAns.err ∧ a ≠ WrAns.zero) :
    (t.writeV sl tag).1.wr <:+ t.wr ∧ (t.writeV sl tag).1.rd = t.rd ∧
    (t.writeV sl tag).1.hold = t.hold ∧ (t.writeV sl tag).1.endMode = t.endMode ∧
    match (t.writeV sl tag).2 with
    | .ready (.ok n) => (sl.flatten ≠ [] → 0 < n) ∧ (t.writeV sl tag).1.woken = t.woken
    | .ready (.error _) => False
    | .pending => (t.writeV sl tag).1.woken = true ∧ ans (t.writeV sl tag).1 < ans t := by
  unfold Transport.writeV
  generalize sl.flatten = data
  by_cases hd : data.isEmpty = true
  · simp only [hd, if_true, Transport.ev]
    simp_all
  · simp only [hd, Bool.false_eq_true, if_false]
    have hpos : 0 < data.length := by
      cases data with
      | nil => simp at hd
      | cons x xs => simp
    rcases hwr : t.wr with _ | ⟨a, rest⟩
    · simp [Transport.ev]; omega
    · have := hw a (by rw [hwr]; exact List.mem_cons_self)
      cases a <;> simp [Transport.ev, ans, hwr] <;> simp_all <;> omega

/-- the vectored write of `writeLoop` -/
theorem writeV_tstep {t t' : Transport} {sl : List Bytes} {res : Poll (Except IoErr Nat)} (hb : Ben t)
    (h : t.writeV sl "V" = (t', res)) :
    TStep t t' ∧ t'.input = t.input ∧
    (match res with
     | .ready (.ok n) => n ≤ sl.flatten.length ∧ t'.wlog = t.wlog ++ sl.flatten.take n ∧ (sl.flatten ≠ [] → 0 < n)
     | .ready (.error _) => False
     | .pending => t'.wlog = t.wlog ∧ t'.woken = true ∧ ans t' < ans t) := by
  have h1 := writeV_ben t sl "V" hb.wr
  have h2 := writeV_spec t sl "V"
  rw [h] at h1 h2
  obtain ⟨a1, a2, a3, a4, a5⟩ := h1
  obtain ⟨b1, b2⟩ := h2
  have hwk : t'.woken = t.woken ∨ (t'.woken = true ∧ ans t' < ans t) := by
    cases res with
    | pending => exact Or.inr a5
    | ready x =>
      cases x with
      | error e => exact a5.elim
      | ok n => exact Or.inl a5.2
  refine ⟨⟨writeV_le h, by rw [a2]; exact List.suffix_refl _, a1, a3, a4, hwk⟩, b1, ?_⟩
  cases res with
  | pending => exact ⟨b2, a5⟩
  | ready x =>
    cases x with
    | error e => exact a5
    | ok n => exact ⟨b2.1, b2.2, a5.1⟩

/-- the plain write of `write_all` / `poll_output` -/
theorem write_tstep {t t' : Transport} {buf : Bytes} {res : Poll (Except IoErr Nat)} (hb : Ben t)
    (h : t.write buf = (t', res)) :
    TStep t t' ∧ t'.input = t.input ∧
    (match res with
     | .ready (.ok n) => n ≤ buf.length ∧ t'.wlog = t.wlog ++ buf.take n ∧ (buf ≠ [] → 0 < n)
     | .ready (.error _) => False
     | .pending => t'.wlog = t.wlog ∧ t'.woken = true ∧ ans t' < ans t) := by
  have hle := write_le h
  unfold Transport.write at h
  have h1 := writeV_ben t [buf] "W" hb.wr
  have h2 := writeV_spec t [buf] "W"
  rw [h] at h1 h2
  obtain ⟨a1, a2, a3, a4, a5⟩ := h1
  obtain ⟨b1, b2⟩ := h2
  have hwk : t'.woken = t.woken ∨ (t'.woken = true ∧ ans t' < ans t) := by
    cases res with
    | pending => exact Or.inr a5
    | ready x =>
      cases x with
      | error e => exact a5.elim
      | ok n => exact Or.inl a5.2
  refine ⟨⟨hle, by rw [a2]; exact List.suffix_refl _, a1, a3, a4, hwk⟩, b1, ?_⟩
  cases res with
  | pending => exact ⟨b2, a5⟩
  | ready x =>
    cases x with
    | error e => exact a5
    | ok n =>
      simp only [List.flatten_cons, List.flatten_nil, List.append_nil] at b2 a5
      exact ⟨b2.1, b2.2, a5.1⟩

/-! ### `write_all` -/

/-- One poll of `write_all` on a benign transport: it writes a prefix, never fails; `Ready` means
everything is out, `Pending` is a transient one. -/
theorem writeAllLoop_ben : ∀ (fuel : Nat) (buf : Bytes) (t : Transport) {rest : Bytes} {t' : Transport} {res : ORes},
    Ben t → buf.length < fuel → writeAllLoop fuel buf t = (rest, t', res) →
    TStep t t' ∧ t'.input = t.input ∧ (∃ done, buf = done ++ rest ∧ t'.wlog = t.wlog ++ done) ∧
    ((res = .ready ∧ rest = []) ∨ (res = .pending ∧ rest ≠ [] ∧ t'.woken = true ∧ ans t' < ans t)) := by
  intro fuel
  induction fuel with
  | zero => intro buf t rest t' res _ hf; omega
  | succ k ih =>
    intro buf t rest t' res hb hf h
    simp only [writeAllLoop] at h
    split at h
    · cases h
      exact ⟨.refl _, rfl, ⟨[], by simp⟩, Or.inl ⟨rfl, by simpa using ‹buf.isEmpty = true›⟩⟩
    · rename_i hne
      have hne' : buf ≠ [] := by simpa using hne
      split at h
      · rename_i tw hw
        cases h
        obtain ⟨s1, s2, s3, s4, s5⟩ := write_tstep hb hw
        exact ⟨s1, s2, ⟨[], by simp [s3]⟩, Or.inr ⟨rfl, hne', s4, s5⟩⟩
      · rename_i tw e hw
        exact (write_tstep hb hw).2.2.elim
      · rename_i tw hw
        have := (write_tstep hb hw).2.2.2.2 hne'
        omega
      · rename_i tw n hn0 hw
        obtain ⟨s1, s2, s3, s4, s5⟩ := write_tstep hb hw
        have hlen : (buf.drop n).length < k := by
          have := s5 hne'
          simp only [List.length_drop]
          have : 0 < buf.length := List.length_pos_iff.mpr hne'
          omega
        obtain ⟨q1, q2, ⟨done, hd, hl⟩, q4⟩ := ih _ _ (hb.step s1) hlen h
        refine ⟨s1.trans q1, q2.trans s2, ⟨buf.take n ++ done, ?_, ?_⟩, ?_⟩
        · rw [List.append_assoc, ← hd, List.take_append_drop]
        · rw [hl, s4, List.append_assoc]
        · rcases q4 with q4 | ⟨a, b, c, d⟩
          · exact Or.inl q4
          · exact Or.inr ⟨a, b, c, by have := s1.ans_le; omega⟩

/-! ## Counted phase transitions inside one poll -/

/-- `n` transitions `stepConn … = .next …` lead from `c` to `c'`. -/
inductive Steps : Nat → Conn → Conn → Prop
  | refl (c : Conn) : Steps 0 c c
  | step {n : Nat} {c c1 c2 : Conn} : stepConn c = .next c1 → Steps n c1 c2 → Steps (n + 1) c c2

theorem Steps.one {c c1 : Conn} (h : stepConn c = .next c1) : Steps 1 c c1 := .step h (.refl _)

theorem Steps.trans {n m : Nat} {a b c : Conn} (h1 : Steps n a b) (h2 : Steps m b c) :
    Steps (n + m) a c := by
  induction h1 with
  | refl c => simpa using h2
  | @step k _ _ _ hs _ ih =>
    have := Steps.step hs (ih h2)
    rwa [show k + 1 + m = k + m + 1 by omega]

theorem Steps.poll {n : Nat} {c c1 : Conn} (h : Steps n c c1) (f : Nat) :
    pollConn (n + f) c = pollConn f c1 := by
  induction h with
  | refl c => simp
  | @step k _ _ _ hs _ ih =>
    rw [show k + 1 + f = (k + f) + 1 by omega, pollConn_succ, hs]
    exact ih

/-- The poll started at `c` ends at `c'` with result `r` after fewer than `N` phase transitions. -/
def Halts (N : Nat) (c c' : Conn) (r : PRes) : Prop :=
  ∃ n c1, n < N ∧ Steps n c c1 ∧ stepConn c1 = .halt c' r

theorem Halts.poll {N : Nat} {c c' : Conn} {r : PRes} (h : Halts N c c' r) {F : Nat} (hF : N ≤ F) :
    pollConn F c = (c', r) := by
  obtain ⟨n, c1, hn, hs, hh⟩ := h
  obtain ⟨f, rfl⟩ : ∃ f, F = n + (f + 1) := ⟨F - n - 1, by omega⟩
  rw [hs.poll, pollConn_succ, hh]
  rfl

/-- the fuel `runTask` passes is at least `100000` -/
theorem connFuel_ge (c : Conn) : 100000 ≤ connFuel c := by unfold connFuel; omega

/-- … so a poll that halts within `100000` transitions is what `runTask`'s `pollConn` call returns -/
theorem Halts.pollT {N : Nat} {c c' : Conn} {r : PRes} (h : Halts N c c' r) (hF : N ≤ 100000) :
    pollConn (connFuel c) c = (c', r) := h.poll (Nat.le_trans hF (connFuel_ge c))

/-- `connFuel` covers every bound of the form `6·|input| + 26` (the per-poll bounds of the stage lemmas):
no size hypothesis on the input is needed. -/
theorem connFuel_bound (c : Conn) : 6 * c.env.tr.input.length + 26 ≤ connFuel c := by
  unfold connFuel; omega

/-- a poll that halts within `6·|input| + 26` transitions is what `runTask`'s `pollConn` call returns,
whatever the size of the input -/
theorem Halts.pollB {N : Nat} {c c' : Conn} {r : PRes} (h : Halts N c c' r)
    (hF : N ≤ 6 * c.env.tr.input.length + 26) : pollConn (connFuel c) c = (c', r) :=
  h.poll (Nat.le_trans hF (connFuel_bound c))

theorem Halts.of_steps {k N : Nat} {c c1 c' : Conn} {r : PRes} (hs : Steps k c c1)
    (h : Halts N c1 c' r) : Halts (k + N) c c' r := by
  obtain ⟨n, c2, hn, hs2, hh⟩ := h
  exact ⟨k + n, c2, by omega, hs.trans hs2, hh⟩

theorem Halts.mono {N M : Nat} {c c' : Conn} {r : PRes} (h : Halts N c c' r) (hm : N ≤ M) :
    Halts M c c' r := by
  obtain ⟨n, c2, hn, hs2, hh⟩ := h
  exact ⟨n, c2, by omega, hs2, hh⟩

theorem Halts.now {c c' : Conn} {r : PRes} (h : stepConn c = .halt c' r) : Halts 1 c c' r :=
  ⟨0, c, by omega, .refl _, h⟩

end Fcgi.E2E
