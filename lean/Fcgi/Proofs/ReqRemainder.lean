import Fcgi.Props.C01
import Fcgi.Proofs.ReqSplit
/-!
# What `State::drive` leaves unconsumed on a prefix of a well-formed preamble

`run .header w` for `w` a prefix of `serAll recs` (`WellFormedPreamble p recs`) that does not end
in a final state leaves (`remainder_bound`)

* fewer than 16 bytes (an incomplete record header / BeginRequest record), or
* the end of an incomplete name-value pair of the request: `pre ++ rem` is a *strict* prefix of
  `NV.enc q` for some `q ∈ p.pairs` (`pre` = what already sits in the side buffer), or
* the undecodable tail `(NV.all d).2` of a strict prefix `d` of the body of a management
  `GetValues` noise record.

Hence (`remainder_lt`) the remainder is shorter than any `M ≥ 16` that bounds the encoded length
of every pair and the undecodable tails of the noise bodies (`NoiseFits`); `NoiseSmall` is a
syntactic sufficient condition for the latter.  Also: before the last byte of the preamble the
state is never final (`prefix_not_final`).
-/
namespace Fcgi.Req
open Fcgi Fcgi.Spec Fcgi.VarInt

/-! ## 0. Lists -/

/-- A prefix of `a ++ b` contains all of `a`, or is a strict prefix of `a`. -/
theorem prefix_append_cases {w a b : Bytes} (h : w <+: a ++ b) :
    (∃ w', w = a ++ w' ∧ w' <+: b) ∨ (∃ t, t ≠ [] ∧ w ++ t = a) := by
  obtain ⟨z, hz⟩ := h
  rcases List.append_eq_append_iff.mp hz with ⟨a', ha, _⟩ | ⟨c', hw, hb⟩
  · by_cases hn : a' = []
    · subst hn
      exact Or.inl ⟨[], by simpa using ha.symm, List.nil_prefix⟩
    · exact Or.inr ⟨a', hn, ha.symm⟩
  · exact Or.inl ⟨c', hw, ⟨z, hb.symm⟩⟩

theorem length_lt_of_append_ne {w t a : Bytes} (h : w ++ t = a) (ht : t ≠ []) :
    w.length < a.length := by
  have := congrArg List.length h
  have : 0 < t.length := List.length_pos_iff.mpr ht
  simp only [List.length_append] at *
  omega

/-! ## 1. The undecoded tail of a prefix of an encoded pair sequence -/

/-- A strict prefix of one encoded pair is not a complete pair. -/
theorem next_strict_prefix_enc {q : Bytes × Bytes}
    (hq : q.1.length ≤ maxVal ∧ q.2.length ≤ maxVal) {t s : Bytes} (h : t ++ s = NV.enc q)
    (hs : s ≠ []) : NV.next t = none := by
  obtain ⟨n, v⟩ := q
  cases hn : NV.next t with
  | none => rfl
  | some x =>
    obtain ⟨p', r⟩ := x
    have h1 := C16.next_append s hn
    rw [h] at h1
    have h2 := C16.next_enc n v [] hq.1 hq.2
    rw [List.append_nil] at h2
    rw [h2] at h1
    simp only [Option.some.injEq, Prod.mk.injEq] at h1
    have := h1.2
    have hs' : s = [] := (List.append_eq_nil_iff.mp this.symm).2
    exact absurd hs' hs

/-- **Tail of a prefix of the Params stream.**  For a prefix `T` of the concatenated encodings of
`ps`, what `NVIter` leaves undecoded is empty or a *strict* prefix of the encoding of one of the
pairs. -/
theorem all_prefix_stream (ps : List (Bytes × Bytes))
    (hps : ∀ q ∈ ps, q.1.length ≤ maxVal ∧ q.2.length ≤ maxVal) :
    ∀ T : Bytes, T <+: ps.flatMap NV.enc →
      (NV.all T).2 = [] ∨
        ∃ q ∈ ps, (NV.all T).2 <+: NV.enc q ∧ (NV.all T).2.length < (NV.enc q).length := by
  induction ps with
  | nil =>
    intro T hT
    have : T = [] := by simpa using hT
    subst this
    left; rw [all_nil]
  | cons q ps ih =>
    intro T hT
    rw [List.flatMap_cons] at hT
    have hq := hps q (by simp)
    rcases prefix_append_cases hT with ⟨T', rfl, hT'⟩ | ⟨t, ht, hTt⟩
    · obtain ⟨n, v⟩ := q
      have hnext := C16.next_enc n v T' hq.1 hq.2
      rw [C16.all_some hnext]
      rcases ih (fun x hx => hps x (by simp [hx])) T' hT' with h0 | ⟨x, hx, h1, h2⟩
      · exact Or.inl h0
      · exact Or.inr ⟨x, by simp [hx], h1, h2⟩
    · right
      rw [C16.all_none (next_strict_prefix_enc hq hTt ht)]
      exact ⟨q, by simp, ⟨t, hTt⟩, length_lt_of_append_ne hTt ht⟩

/-- The undecoded tail of `C ++ d` when `C` has been consumed with undecoded tail `buf` and
`buf ++ d'`, `d'` the unconsumed part of `d`, is not a complete pair. -/
theorem all_tail_of_consumed {C m d' buf : Bytes} (hb : buf = (NV.all (C ++ m)).2)
    (hn : NV.next (buf ++ d') = none) : (NV.all (C ++ (m ++ d'))).2 = buf ++ d' := by
  rw [← List.append_assoc, C16.all_append (C ++ m) d', ← hb, C16.all_none hn]

/-! ## 2. One iteration on a prefix of the data -/

/-- If the iteration on `w ++ t` continues, the iteration on `w` alone either breaks (it waits for
more bytes, or fails) or continues into the same state with the same output. -/
theorem step_prefix {st s1 : State} {w t Y o : Bytes} {mc : Nat} (hw : WFState st)
    (h : step st (w ++ t) mc = (.cont Y s1, o)) :
    (∃ r' s' o', step st w mc = (.brk r' s', o')) ∨
      (∃ r', step st w mc = (.cont r' s1, o) ∧ Y = r' ++ t) := by
  cases hs : step st w mc with
  | mk f o' =>
    cases f with
    | panic x => exact (step_no_panic hw hs).elim
    | brk r' s' => exact Or.inl ⟨r', s', o', rfl⟩
    | cont r' s' =>
      have := step_cont_append t hw hs
      rw [h] at this
      simp only [Prod.mk.injEq, Flow.cont.injEq] at this
      obtain ⟨⟨h1, h2⟩, h3⟩ := this
      subst h2 h3
      exact Or.inr ⟨r', rfl, h1⟩

/-- `HeaderState::drive` waiting: fewer than 16 bytes are held back. -/
theorem headerDrive_wait {d r o : Bytes} (h : headerDrive d = (.brk r .header, o)) :
    r.length < 16 := by
  unfold headerDrive at h
  split at h
  · rename_i hs
    cases h
    have := tryHead_short hs; omega
  · cases h
  · cases h
  · split at h
    · split at h
      · cases h
      · split at h
        · cases h; assumption
        · simp only at h
          split at h
          · cases h
          · split at h <;> cases h
          · cases h
    · split at h <;> cases h

/-- A run from a resting state `st` over `w`, where the iteration of `st` on the longer `w ++ t`
continues with `X` into `s1`: either fewer than 16 bytes are left, or the first iteration went
through and the run continued in `s1` on a strict prefix of `X`. -/
theorem run_partial {st s1 : State} {w t X o : Bytes} {mc : Nat} (hw : WFState st)
    (hbrk : ∀ r s o', step st w mc = (.brk r s, o') → s.isFinal = false → r.length < 16)
    (hfull : step st (w ++ t) mc = (.cont X s1, o))
    (hnf : (run st w mc).st.isFinal = false) :
    (run st w mc).rem.length < 16 ∨
      ∃ r', r' ≠ [] ∧ X = r' ++ t ∧ (run st w mc).rem = (run s1 r' mc).rem ∧
        (run st w mc).st = (run s1 r' mc).st := by
  have hf := not_final_of_step_cont hfull
  rcases step_prefix hw hfull with ⟨r', s', o', hs⟩ | ⟨r', hs, hX⟩
  · left
    rw [run_brk hf hs] at hnf ⊢
    exact hbrk r' s' o' hs hnf
  · by_cases hr : r' = []
    · subst hr
      left
      rw [run_cont_empty hs]; simp
    · right
      refine ⟨r', hr, hX, ?_, ?_⟩ <;> rw [run_cont hw hs hr]

theorem header_hbrk (w : Bytes) (mc : Nat) :
    ∀ r s o', step .header w mc = (.brk r s, o') → s.isFinal = false → r.length < 16 := by
  intro r s o' hs hnf
  obtain ⟨_, _, _, hst⟩ := headerDrive_brk hs
  rcases hst with rfl | ⟨e, rfl⟩
  · exact headerDrive_wait hs
  · cases hnf

theorem params_hbrk {i : Inner} (hi : InnerOK i) (w : Bytes) (mc : Nat) :
    ∀ r s o', step (.params i 0 0) w mc = (.brk r s, o') → s.isFinal = false → r.length < 16 := by
  intro r s o' hs hnf
  rw [step_params_zero] at hs
  obtain ⟨rfl, _, _, hst⟩ := recPhase_brk hi hs
  rcases hst with ⟨_, h8⟩ | ⟨e, rfl⟩
  · omega
  · cases hnf

/-! ## 3. The rest of a record, cut short -/

/-- A skip state driven on fewer bytes than it has to skip swallows them all. -/
theorem run_skip_partial (c : Ctx) {pay pad : Nat} {r' : Bytes} (mc : Nat)
    (hl : r'.length < pay + pad) : (run (c.intoSkip pay pad) r' mc).rem = [] := by
  have hne : ¬ ((pay == 0 && pad == 0) = true) := by
    simp only [Bool.and_eq_true, beq_iff_eq]; omega
  unfold Ctx.intoSkip
  rw [if_neg hne]
  have hs : ∃ s, step (.skip c pay pad) r' mc = (.brk [] s, []) := by
    simp only [step, skipDrive]
    by_cases h1 : r'.length < pay
    · rw [if_pos h1]; exact ⟨_, rfl⟩
    · rw [if_neg h1, if_pos hl, if_pos (by omega)]; exact ⟨_, rfl⟩
  obtain ⟨s, hs⟩ := hs
  rw [run_brk (st := .skip c pay pad) rfl hs]

/-- A fresh `GetValuesState` driven on a strict prefix `r'` of body and padding: everything is
swallowed, except the undecodable tail of `r'` while `r'` is still a strict prefix of the body. -/
theorem run_values_partial (c : Ctx) (hd : ∀ r, c ≠ .dn r) {body padb r' t : Bytes} (mc : Nat)
    (h : body ++ padb = r' ++ t) (ht : t ≠ []) :
    (run (.values c 0 body.length padb.length) r' mc).rem = [] ∨
      ∃ d, d <+: body ∧ d.length < body.length ∧
        (run (.values c 0 body.length padb.length) r' mc).rem = (NV.all d).2 := by
  have hl : r'.length < body.length + padb.length := by
    have := length_lt_of_append_ne h.symm ht
    simpa using this
  by_cases hp : 0 < body.length
  · by_cases h1 : r'.length < body.length
    · right
      have hs := valuesDrive_lt (c := c) (vars := 0) (pad := padb.length) (mc := mc) hp h1
      rw [← step_values hd] at hs
      refine ⟨r', ?_, h1, ?_⟩
      · exact List.prefix_of_prefix_length_le ⟨t, h.symm⟩ ⟨padb, rfl⟩ (by omega)
      · rw [run_brk (st := .values c 0 body.length padb.length) rfl hs]
    · left
      have hs := valuesDrive_ge (c := c) (vars := 0) (pad := padb.length) (mc := mc) (d := r') hp
        (by omega)
      rw [if_pos (by simp only [List.length_drop]; omega), ← step_values hd] at hs
      rw [run_brk (st := .values c 0 body.length padb.length) rfl hs]
  · left
    have h0 : body.length = 0 := by omega
    have hs := valuesDrive_zero (c := c) (vars := 0) (pad := padb.length) (mc := mc) (d := r')
    rw [if_pos (by omega), ← step_values hd] at hs
    rw [h0, run_brk (st := .values c 0 0 padb.length) rfl hs]

/-- A `ParamsState` inside a record (`pay` payload bytes and `pad` padding bytes to go) driven on
fewer bytes than that: everything is swallowed, except what `parse_stream` (no record end) leaves
while the payload is incomplete. -/
theorem run_params_partial {i : Inner} {pay pad : Nat} {r' : Bytes} (mc : Nat)
    (hl : r'.length < pay + pad) :
    (run (.params i pay pad) r' mc).rem = [] ∨
      (r'.length < pay ∧ ∃ i' k, parseStream i r' false = .ok i' k ∧
        (run (.params i pay pad) r' mc).rem = r'.drop k) := by
  by_cases hp : 0 < pay
  · by_cases h1 : r'.length < pay
    · right
      obtain ⟨i', n, hps, _, _, _⟩ := parseStream_ok i r' false
      refine ⟨h1, i', n, hps, ?_⟩
      have hs : step (.params i pay pad) r' mc =
          (.brk (r'.drop n) (.params i' (pay - n) pad), []) := by
        rw [step_params, paramsDrive_eq, payloadPhase_lt hp h1 hps]
      rw [run_brk (st := .params i pay pad) rfl hs]
    · left
      obtain ⟨i', n, hps, _, _, _⟩ := parseStream_ok i (r'.take pay) true
      have hpad : 0 < pad := by omega
      have hle : (r'.drop pay).length ≤ pad := by simp only [List.length_drop]; omega
      have hs : step (.params i pay pad) r' mc =
          (.brk [] (.params i' 0 (pad - (r'.drop pay).length)), []) := by
        rw [step_params, paramsDrive_eq, payloadPhase_ge hp (by omega) hps]
        simp only [padPhase, gt_iff_lt, hpad, if_true, hle]
      rw [run_brk (st := .params i pay pad) rfl hs]
  · left
    have h0 : pay = 0 := by omega
    subst h0
    have hpad : 0 < pad := by omega
    have hle : r'.length ≤ pad := by omega
    have hs : step (.params i 0 pad) r' mc = (.brk [] (.params i 0 (pad - r'.length)), []) := by
      rw [step_params, paramsDrive_eq, payloadPhase_zero]
      simp only [padPhase, gt_iff_lt, hpad, if_true, hle]
    rw [run_brk (st := .params i 0 pad) rfl hs]

/-! ## 4. The first iteration on a complete record (the `step` facts behind `Proofs/ReqRecords`) -/

/-- A management `GetValues` record. -/
def IsMgmtGetValues (r : Rec) : Prop := r.rtype.toNat = RT.getValues ∧ r.id = 0

/-- Where a noise record's header leaves the loop: `X` (body and padding still to be read) and the
state `s1` reading it — a skip state, or for a management `GetValues` record a values state. -/
def After (c : Ctx) (r : Rec) (X : Bytes) (s1 : State) : Prop :=
  ∃ body, X = body ++ r.pad ∧
    (s1 = c.intoSkip body.length r.pad.length ∨
      (IsMgmtGetValues r ∧ body = r.content ∧ s1 = .values c 0 body.length r.pad.length))

theorem step_header_noise (r : Rec) (h : IdleNoise r) (rest : Bytes) (mc : Nat) :
    ∃ X s1 o, step .header (r.ser ++ rest) mc = (.cont (X ++ rest) s1, o) ∧ After .hdr r X s1 := by
  obtain ⟨hwf, hb⟩ := h
  have hwf' := hwf
  obtain ⟨h1, h2, h3⟩ := hwf'
  cases hv : RT.valid r.rtype.toNat with
  | false =>
    have hs : step .header (r.ser ++ rest) mc =
        (.cont (r.content ++ (r.pad ++ rest)) (Ctx.hdr.intoSkip r.content.length r.pad.length),
          UnknownType.toRecord r.rtype r.id) := by
      simp only [step_header, headerDrive, tryHead_ser_invalid .hdr r hwf rest hv, ser_drop8]
    exact ⟨r.content ++ r.pad, _, _, by rw [List.append_assoc]; exact hs, r.content, rfl, Or.inl rfl⟩
  | true =>
    by_cases ht : r.rtype.toNat = 1
    · obtain ⟨r0, r1, f, a, b, c, d, e, hc, hrole⟩ := hb ht
      have hs : step .header (r.ser ++ rest) mc =
          (.cont (r.pad ++ rest) (Ctx.hdr.intoSkip 0 r.pad.length),
            EndRequest.toRecord { appStatus := 0, protocolStatus := 3 } r.id) := by
        have hd16 : (r.ser ++ rest).drop 16 = r.pad ++ rest := by
          rw [show 16 = 8 + 8 from rfl, ← List.drop_drop, ser_drop8, hc]; rfl
        have hlen : ¬ (r.ser ++ rest).length < 16 := by
          simp [ser_length, hc]; omega
        simp only [step_header, headerDrive, tryHead_ser_valid .hdr r hwf rest hv, ser_drop8, hd16]
        simp [ht, RT.beginRequest, hc, ser_length, BeginRequest.fromBytes, hrole]
        omega
      exact ⟨r.pad, _, _, hs, [], rfl, Or.inl rfl⟩
    · by_cases hg : r.rtype.toNat = 9 ∧ r.id = 0
      · have hs : step .header (r.ser ++ rest) mc =
            (.cont (r.content ++ (r.pad ++ rest)) (.values .hdr 0 r.content.length r.pad.length), []) := by
          simp only [step_header, headerDrive, tryHead_ser_valid .hdr r hwf rest hv, ser_drop8]
          simp [hg.1, hg.2, RT.beginRequest, RT.getValues, RecordHeader.isManagement, RT.isManagement]
        exact ⟨r.content ++ r.pad, _, _, by rw [List.append_assoc]; exact hs, r.content, rfl,
          Or.inr ⟨hg, rfl, rfl⟩⟩
      · have hs : step .header (r.ser ++ rest) mc =
            (.cont (r.content ++ (r.pad ++ rest)) (Ctx.hdr.intoSkip r.content.length r.pad.length), []) := by
          simp only [step_header, headerDrive, tryHead_ser_valid .hdr r hwf rest hv, ser_drop8]
          by_cases h9 : r.rtype.toNat = 9
          · have hid : r.id ≠ 0 := fun h0 => hg ⟨h9, h0⟩
            simp [h9, hid, RT.beginRequest, RT.getValues, RecordHeader.isManagement]
          · simp [h9, ht, RT.beginRequest, RT.getValues]
        exact ⟨r.content ++ r.pad, _, _, by rw [List.append_assoc]; exact hs, r.content, rfl,
          Or.inl rfl⟩

theorem step_header_begin (id role : Nat) (flags : UInt8) (body5 padb : Bytes) (res : UInt8)
    (rest : Bytes) (mc : Nat) (hid : 0 < id ∧ id < 65536) (hrole : roleValid role = true)
    (hb : body5.length = 5) (hp : padb.length < 256) :
    step .header (Rec.ser { rtype := 1, id := id, content := toBe16 role ++ [flags] ++ body5,
                           pad := padb, reserved := res } ++ rest) mc =
      (.cont (padb ++ rest)
        (.params { req := Request.new id { role := role, flags := flags }, buffer := [] } 0 padb.length),
        []) := by
  have hrole' : 1 ≤ role ∧ role ≤ 3 := by simpa [roleValid] using hrole
  generalize hr : ({ rtype := 1, id := id, content := toBe16 role ++ [flags] ++ body5,
                     pad := padb, reserved := res } : Rec) = r
  have hwf : r.WF := by subst hr; exact ⟨hid.2, by simp [toBe16, hb], hp⟩
  have hv : RT.valid r.rtype.toNat = true := by subst hr; rfl
  match body5, hb with
  | [a, b, c, d, e], _ =>
    have hc : r.content = [UInt8.ofNat (role / 256), UInt8.ofNat role, flags, a, b, c, d, e] := by
      subst hr; simp [toBe16]
    have hd16 : (r.ser ++ rest).drop 16 = r.pad ++ rest := by
      rw [show 16 = 8 + 8 from rfl, ← List.drop_drop, ser_drop8, hc]; rfl
    have hbe : be16 (UInt8.ofNat (role / 256)) (UInt8.ofNat role) = role := be16_toBe16 (by omega)
    simp only [step_header, headerDrive, tryHead_ser_valid .hdr r hwf rest hv, ser_drop8, hd16]
    have hid0 : id ≠ 0 := by omega
    subst hr
    simp [RT.beginRequest, ser_length, toBe16, BeginRequest.fromBytes, hbe, hrole, hid0]
    omega

theorem step_params_noise (i : Inner) (r : Rec) (h : ParamsNoise i.req.id r)
    (rest : Bytes) (mc : Nat) :
    ∃ X s1 o, step (.params i 0 0) (r.ser ++ rest) mc = (.cont (X ++ rest) s1, o) ∧
      After (.par i) r X s1 := by
  obtain ⟨hwf, hn⟩ := h
  have hwf' := hwf
  obtain ⟨h1, h2, h3⟩ := hwf'
  cases hv : RT.valid r.rtype.toNat with
  | false =>
    have hs : step (.params i 0 0) (r.ser ++ rest) mc =
        (.cont (r.content ++ (r.pad ++ rest)) ((Ctx.par i).intoSkip r.content.length r.pad.length),
          UnknownType.toRecord r.rtype r.id) := by
      simp only [step_params_zero, recPhase, tryHead_ser_invalid (.par i) r hwf rest hv, ser_drop8]
    exact ⟨r.content ++ r.pad, _, _, by rw [List.append_assoc]; exact hs, r.content, rfl, Or.inl rfl⟩
  | true =>
    have hnp : ¬ (r.rtype.toNat = 4 ∧ r.id = i.req.id) := fun hx => hn ⟨hx.2, Or.inl hx.1⟩
    have hna : ¬ (r.rtype.toNat = 2 ∧ r.id = i.req.id) := fun hx => hn ⟨hx.2, Or.inr hx.1⟩
    have hc1 : (r.rtype.toNat == RT.params && r.id == i.req.id) = false := by
      simp only [RT.params, Bool.and_eq_false_iff, beq_eq_false_iff_ne, ne_eq]
      by_cases h4 : r.rtype.toNat = 4
      · exact Or.inr (fun hx => hnp ⟨h4, hx⟩)
      · exact Or.inl h4
    have hc2 : (r.rtype.toNat == RT.abortRequest && r.id == i.req.id) = false := by
      simp only [RT.abortRequest, Bool.and_eq_false_iff, beq_eq_false_iff_ne, ne_eq]
      by_cases h4 : r.rtype.toNat = 2
      · exact Or.inr (fun hx => hna ⟨h4, hx⟩)
      · exact Or.inl h4
    by_cases hb : r.rtype.toNat = 1 ∧ r.id ≠ i.req.id
    · have hs : step (.params i 0 0) (r.ser ++ rest) mc =
          (.cont (r.content ++ (r.pad ++ rest)) ((Ctx.par i).intoSkip r.content.length r.pad.length),
            EndRequest.toRecord { appStatus := 0, protocolStatus := 1 } r.id) := by
        simp only [step_params_zero, recPhase, tryHead_ser_valid (.par i) r hwf rest hv, ser_drop8]
        simp [hb.1, hb.2, RT.beginRequest, RT.params, RT.abortRequest]
      exact ⟨r.content ++ r.pad, _, _, by rw [List.append_assoc]; exact hs, r.content, rfl,
        Or.inl rfl⟩
    · by_cases hg : r.rtype.toNat = 9 ∧ r.id = 0
      · have hs : step (.params i 0 0) (r.ser ++ rest) mc =
            (.cont (r.content ++ (r.pad ++ rest)) (.values (.par i) 0 r.content.length r.pad.length), []) := by
          simp only [step_params_zero, recPhase, tryHead_ser_valid (.par i) r hwf rest hv, ser_drop8]
          simp [hg.1, hg.2, RT.beginRequest, RT.getValues, RT.params, RT.abortRequest,
            RecordHeader.isManagement, RT.isManagement]
        exact ⟨r.content ++ r.pad, _, _, by rw [List.append_assoc]; exact hs, r.content, rfl,
          Or.inr ⟨hg, rfl, rfl⟩⟩
      · have hc3 : (r.rtype.toNat == RT.beginRequest && r.id != i.req.id) = false := by
          simp only [RT.beginRequest, Bool.and_eq_false_iff, beq_eq_false_iff_ne, ne_eq,
            bne_eq_false_iff_eq]
          by_cases h4 : r.rtype.toNat = 1
          · exact Or.inr (Classical.not_not.mp (fun hx => hb ⟨h4, hx⟩))
          · exact Or.inl h4
        have hc4 : (r.rtype.toNat == RT.getValues &&
            RecordHeader.isManagement ⟨r.rtype.toNat, r.id, r.content.length, r.pad.length⟩) = false := by
          by_cases h9 : r.rtype.toNat = 9
          · have hid : r.id ≠ 0 := fun h0 => hg ⟨h9, h0⟩
            simp [h9, hid, RT.getValues, RecordHeader.isManagement]
          · simp [h9, RT.getValues]
        have hs : step (.params i 0 0) (r.ser ++ rest) mc =
            (.cont (r.content ++ (r.pad ++ rest)) ((Ctx.par i).intoSkip r.content.length r.pad.length), []) := by
          simp only [step_params_zero, recPhase, tryHead_ser_valid (.par i) r hwf rest hv, ser_drop8]
          simp only [hc1, hc2, hc3, hc4, Bool.false_eq_true, if_false]
        exact ⟨r.content ++ r.pad, _, _, by rw [List.append_assoc]; exact hs, r.content, rfl,
          Or.inl rfl⟩

theorem step_params_chunk (i : Inner) (c padb : Bytes) (res : UInt8) (rest : Bytes) (mc : Nat)
    (hc : 0 < c.length ∧ c.length < 65536) (hp : padb.length < 256) (hid : i.req.id < 65536) :
    step (.params i 0 0) (Rec.ser { rtype := 4, id := i.req.id, content := c, pad := padb,
                                    reserved := res } ++ rest) mc =
      (.cont (c ++ (padb ++ rest)) (.params i c.length padb.length), []) := by
  generalize hr : ({ rtype := 4, id := i.req.id, content := c, pad := padb, reserved := res } : Rec) = r
  have hwf : r.WF := by subst hr; exact ⟨hid, hc.2, hp⟩
  have hv : RT.valid r.rtype.toNat = true := by subst hr; rfl
  simp only [step_params_zero, recPhase, tryHead_ser_valid (.par i) r hwf rest hv, ser_drop8]
  subst hr
  have : c.length ≠ 0 := by omega
  simp [RT.params, this]

theorem step_params_done (i : Inner) (padb : Bytes) (res : UInt8) (rest : Bytes)
    (mc : Nat) (hp : padb.length < 256) (hid : i.req.id < 65536) :
    step (.params i 0 0) (Rec.ser { rtype := 4, id := i.req.id, content := [], pad := padb,
                                    reserved := res } ++ rest) mc =
      (.cont (padb ++ rest) ((Ctx.dn i.req).intoSkip 0 padb.length), []) := by
  generalize hr : ({ rtype := 4, id := i.req.id, content := [], pad := padb, reserved := res } : Rec) = r
  have hwf : r.WF := by subst hr; exact ⟨hid, by simp, hp⟩
  have hv : RT.valid r.rtype.toNat = true := by subst hr; rfl
  simp only [step_params_zero, recPhase, tryHead_ser_valid (.par i) r hwf rest hv, ser_drop8]
  subst hr
  simp [RT.params]

end Fcgi.Req
