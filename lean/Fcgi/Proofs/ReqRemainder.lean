import Fcgi.Props.C01
import Fcgi.Proofs.ReqSplit
/-!
# What `State::drive` leaves unconsumed on a prefix of a well-formed preamble

`run .header w` for `w` a prefix of `serAll recs` (`WellFormedPreamble p recs`) that does not end
in a final state leaves (`remainder_bound`)

* fewer than 16 bytes (an incomplete record header / BeginRequest record), or
* the end of an incomplete name-value pair of the request: `pre ++ rem` is a *strict* prefix of
  `NV.enc q` for some `q ∈ p.pairs` (`pre` = what already sits in the side buffer), or
* the undecodable tail `(NV.all d).2` of a strict prefix `d` of the body of a management
  `GetValues` noise record.

Hence (`remainder_lt`) the remainder is shorter than any `M ≥ 16` that bounds the encoded length
of every pair and the undecodable tails of the noise bodies (`NoiseFits`); `NoiseSmall` is a
syntactic sufficient condition for the latter.  Also: before the last byte of the preamble the
state is never final (`prefix_not_final`).
-/
namespace Fcgi.Req
open Fcgi Fcgi.Spec Fcgi.VarInt

/-! ## 0. Lists -/

/-- A prefix of `a ++ b` contains all of `a`, or is a strict prefix of `a`. -/
theorem prefix_append_cases {w a b : Bytes} (h : w <+: a ++ b) :
    (∃ w', w = a ++ w' ∧ w' <+: b) ∨ (∃ t, t ≠ [] ∧ w ++ t = a) := by
  obtain ⟨z, hz⟩ := h
  rcases List.append_eq_append_iff.mp hz with ⟨a', ha, _⟩ | ⟨c', hw, hb⟩
  · by_cases hn : a' = []
    · subst hn
      exact Or.inl ⟨[], by simpa using ha.symm, List.nil_prefix⟩
    · exact Or.inr ⟨a', hn, ha.symm⟩
  · exact Or.inl ⟨c', hw, ⟨z, hb.symm⟩⟩

theorem length_lt_of_append_ne {w t a : Bytes} (h : w ++ t = a) (ht : t ≠ []) :
    w.length < a.length := by
  have := congrArg List.length h
  have : 0 < t.length := List.length_pos_iff.mpr ht
  simp only [List.length_append] at *
  omega

/-! ## 1. The undecoded tail of a prefix of an encoded pair sequence -/

/-- A strict prefix of one encoded pair is not a complete pair. -/
theorem next_strict_prefix_enc {q : Bytes × Bytes}
    (hq : q.1.length ≤ maxVal ∧ q.2.length ≤ maxVal) {t s : Bytes} (h : t ++ s = NV.enc q)
    (hs : s ≠ []) : NV.next t = none := by
  obtain ⟨n, v⟩ := q
  cases hn : NV.next t with
  | none => rfl
  | some x =>
    obtain ⟨p', r⟩ := x
    have h1 := C16.next_append s hn
    rw [h] at h1
    have h2 := C16.next_enc n v [] hq.1 hq.2
    rw [List.append_nil] at h2
    rw [h2] at h1
    simp only [Option.some.injEq, Prod.mk.injEq] at h1
    have := h1.2
    have hs' : s = [] := (List.append_eq_nil_iff.mp this.symm).2
    exact absurd hs' hs

/-- **Tail of a prefix of the Params stream.**  For a prefix `T` of the concatenated encodings of
`ps`, what `NVIter` leaves undecoded is empty or a *strict* prefix of the encoding of one of the
pairs. -/
theorem all_prefix_stream (ps : List (Bytes × Bytes))
    (hps : ∀ q ∈ ps, q.1.length ≤ maxVal ∧ q.2.length ≤ maxVal) :
    ∀ T : Bytes, T <+: ps.flatMap NV.enc →
      (NV.all T).2 = [] ∨
        ∃ q ∈ ps, (NV.all T).2 <+: NV.enc q ∧ (NV.all T).2.length < (NV.enc q).length := by
  induction ps with
  | nil =>
    intro T hT
    have : T = [] := by simpa using hT
    subst this
    left; rw [all_nil]
  | cons q ps ih =>
    intro T hT
    rw [List.flatMap_cons] at hT
    have hq := hps q (by simp)
    rcases prefix_append_cases hT with ⟨T', rfl, hT'⟩ | ⟨t, ht, hTt⟩
    · obtain ⟨n, v⟩ := q
      have hnext := C16.next_enc n v T' hq.1 hq.2
      rw [C16.all_some hnext]
      rcases ih (fun x hx => hps x (by simp [hx])) T' hT' with h0 | ⟨x, hx, h1, h2⟩
      · exact Or.inl h0
      · exact Or.inr ⟨x, by simp [hx], h1, h2⟩
    · right
      rw [C16.all_none (next_strict_prefix_enc hq hTt ht)]
      exact ⟨q, by simp, ⟨t, hTt⟩, length_lt_of_append_ne hTt ht⟩

/-- The undecoded tail of `C ++ d` when `C` has been consumed with undecoded tail `buf` and
`buf ++ d'`, `d'` the unconsumed part of `d`, is not a complete pair. -/
theorem all_tail_of_consumed {C m d' buf : Bytes} (hb : buf = (NV.all (C ++ m)).2)
    (hn : NV.next (buf ++ d') = none) : (NV.all (C ++ (m ++ d'))).2 = buf ++ d' := by
  rw [← List.append_assoc, C16.all_append (C ++ m) d', ← hb, C16.all_none hn]

/-! ## 2. One iteration on a prefix of the data -/

/-- If the iteration on `w ++ t` continues, the iteration on `w` alone either breaks (it waits for
more bytes, or fails) or continues into the same state with the same output. -/
theorem step_prefix {st s1 : State} {w t Y o : Bytes} {mc : Nat} (hw : WFState st)
    (h : step st (w ++ t) mc = (.cont Y s1, o)) :
    (∃ r' s' o', step st w mc = (.brk r' s', o')) ∨
      (∃ r', step st w mc = (.cont r' s1, o) ∧ Y = r' ++ t) := by
  cases hs : step st w mc with
  | mk f o' =>
    cases f with
    | panic x => exact (step_no_panic hw hs).elim
    | brk r' s' => exact Or.inl ⟨r', s', o', rfl⟩
    | cont r' s' =>
      have := step_cont_append t hw hs
      rw [h] at this
      simp only [Prod.mk.injEq, Flow.cont.injEq] at this
      obtain ⟨⟨h1, h2⟩, h3⟩ := this
      subst h2 h3
      exact Or.inr ⟨r', rfl, h1⟩

/-- `HeaderState::drive` waiting: fewer than 16 bytes are held back. -/
theorem headerDrive_wait {d r o : Bytes} (h : headerDrive d = (.brk r .header, o)) :
    r.length < 16 := by
  unfold headerDrive at h
  split at h
  · rename_i hs
    cases h
    have := tryHead_short hs; omega
  · cases h
  · cases h
  · split at h
    · split at h
      · cases h
      · split at h
        · cases h; assumption
        · simp only at h
          split at h
          · cases h
          · split at h <;> cases h
          · cases h
    · split at h <;> cases h

/-- A run from a resting state `st` over `w`, where the iteration of `st` on the longer `w ++ t`
continues with `X` into `s1`: either fewer than 16 bytes are left, or the first iteration went
through and the run continued in `s1` on a strict prefix of `X`. -/
theorem run_partial {st s1 : State} {w t X o : Bytes} {mc : Nat} (hw : WFState st)
    (hbrk : ∀ r s o', step st w mc = (.brk r s, o') → s.isFinal = false → r.length < 16)
    (hfull : step st (w ++ t) mc = (.cont X s1, o))
    (hnf : (run st w mc).st.isFinal = false) :
    (run st w mc).rem.length < 16 ∨
      ∃ r', r' ≠ [] ∧ X = r' ++ t ∧ (run st w mc).rem = (run s1 r' mc).rem ∧
        (run st w mc).st = (run s1 r' mc).st := by
  have hf := not_final_of_step_cont hfull
  rcases step_prefix hw hfull with ⟨r', s', o', hs⟩ | ⟨r', hs, hX⟩
  · left
    rw [run_brk hf hs] at hnf ⊢
    exact hbrk r' s' o' hs hnf
  · by_cases hr : r' = []
    · subst hr
      left
      rw [run_cont_empty hs]; simp
    · right
      refine ⟨r', hr, hX, ?_, ?_⟩ <;> rw [run_cont hw hs hr]

theorem header_hbrk (w : Bytes) (mc : Nat) :
    ∀ r s o', step .header w mc = (.brk r s, o') → s.isFinal = false → r.length < 16 := by
  intro r s o' hs hnf
  obtain ⟨_, _, _, hst⟩ := headerDrive_brk hs
  rcases hst with rfl | ⟨e, rfl⟩
  · exact headerDrive_wait hs
  · cases hnf

theorem params_hbrk {i : Inner} (hi : InnerOK i) (w : Bytes) (mc : Nat) :
    ∀ r s o', step (.params i 0 0) w mc = (.brk r s, o') → s.isFinal = false → r.length < 16 := by
  intro r s o' hs hnf
  rw [step_params_zero] at hs
  obtain ⟨rfl, _, _, hst⟩ := recPhase_brk hi hs
  rcases hst with ⟨_, h8⟩ | ⟨e, rfl⟩
  · omega
  · cases hnf

/-! ## 3. The rest of a record, cut short -/

/-- A skip state driven on fewer bytes than it has to skip swallows them all. -/
theorem run_skip_partial (c : Ctx) {pay pad : Nat} {r' : Bytes} (mc : Nat)
    (hl : r'.length < pay + pad) : (run (c.intoSkip pay pad) r' mc).rem = [] := by
  have hne : ¬ ((pay == 0 && pad == 0) = true) := by
    simp only [Bool.and_eq_true, beq_iff_eq]; omega
  unfold Ctx.intoSkip
  rw [if_neg hne]
  have hs : ∃ s, step (.skip c pay pad) r' mc = (.brk [] s, []) := by
    simp only [step, skipDrive]
    by_cases h1 : r'.length < pay
    · rw [if_pos h1]; exact ⟨_, rfl⟩
    · rw [if_neg h1, if_pos hl, if_pos (by omega)]; exact ⟨_, rfl⟩
  obtain ⟨s, hs⟩ := hs
  rw [run_brk (st := .skip c pay pad) rfl hs]

/-- A fresh `GetValuesState` driven on a strict prefix `r'` of body and padding: everything is
swallowed, except the undecodable tail of `r'` while `r'` is still a strict prefix of the body. -/
theorem run_values_partial (c : Ctx) (hd : ∀ r, c ≠ .dn r) {body padb r' t : Bytes} (mc : Nat)
    (h : body ++ padb = r' ++ t) (ht : t ≠ []) :
    (run (.values c 0 body.length padb.length) r' mc).rem = [] ∨
      ∃ d, d <+: body ∧ d.length < body.length ∧
        (run (.values c 0 body.length padb.length) r' mc).rem = (NV.all d).2 := by
  have hl : r'.length < body.length + padb.length := by
    have := length_lt_of_append_ne h.symm ht
    simpa using this
  by_cases hp : 0 < body.length
  · by_cases h1 : r'.length < body.length
    · right
      have hs := valuesDrive_lt (c := c) (vars := 0) (pad := padb.length) (mc := mc) hp h1
      rw [← step_values hd] at hs
      refine ⟨r', ?_, h1, ?_⟩
      · exact List.prefix_of_prefix_length_le ⟨t, h.symm⟩ ⟨padb, rfl⟩ (by omega)
      · rw [run_brk (st := .values c 0 body.length padb.length) rfl hs]
    · left
      have hs := valuesDrive_ge (c := c) (vars := 0) (pad := padb.length) (mc := mc) (d := r') hp
        (by omega)
      rw [if_pos (by simp only [List.length_drop]; omega), ← step_values hd] at hs
      rw [run_brk (st := .values c 0 body.length padb.length) rfl hs]
  · left
    have h0 : body.length = 0 := by omega
    have hs := valuesDrive_zero (c := c) (vars := 0) (pad := padb.length) (mc := mc) (d := r')
    rw [if_pos (by omega), ← step_values hd] at hs
    rw [h0, run_brk (st := .values c 0 0 padb.length) rfl hs]

/-- A `ParamsState` inside a record (`pay` payload bytes and `pad` padding bytes to go) driven on
fewer bytes than that: everything is swallowed, except what `parse_stream` (no record end) leaves
while the payload is incomplete. -/
theorem run_params_partial {i : Inner} {pay pad : Nat} {r' : Bytes} (mc : Nat)
    (hl : r'.length < pay + pad) :
    (run (.params i pay pad) r' mc).rem = [] ∨
      (r'.length < pay ∧ ∃ i' k, parseStream i r' false = .ok i' k ∧
        (run (.params i pay pad) r' mc).rem = r'.drop k) := by
  by_cases hp : 0 < pay
  · by_cases h1 : r'.length < pay
    · right
      obtain ⟨i', n, hps, _, _, _⟩ := parseStream_ok i r' false
      refine ⟨h1, i', n, hps, ?_⟩
      have hs : step (.params i pay pad) r' mc =
          (.brk (r'.drop n) (.params i' (pay - n) pad), []) := by
        rw [step_params, paramsDrive_eq, payloadPhase_lt hp h1 hps]
      rw [run_brk (st := .params i pay pad) rfl hs]
    · left
      obtain ⟨i', n, hps, _, _, _⟩ := parseStream_ok i (r'.take pay) true
      have hpad : 0 < pad := by omega
      have hle : (r'.drop pay).length ≤ pad := by simp only [List.length_drop]; omega
      have hs : step (.params i pay pad) r' mc =
          (.brk [] (.params i' 0 (pad - (r'.drop pay).length)), []) := by
        rw [step_params, paramsDrive_eq, payloadPhase_ge hp (by omega) hps]
        simp only [padPhase, gt_iff_lt, hpad, if_true, hle]
      rw [run_brk (st := .params i pay pad) rfl hs]
  · left
    have h0 : pay = 0 := by omega
    subst h0
    have hpad : 0 < pad := by omega
    have hle : r'.length ≤ pad := by omega
    have hs : step (.params i 0 pad) r' mc = (.brk [] (.params i 0 (pad - r'.length)), []) := by
      rw [step_params, paramsDrive_eq, payloadPhase_zero]
      simp only [padPhase, gt_iff_lt, hpad, if_true, hle]
    rw [run_brk (st := .params i 0 pad) rfl hs]

/-! ## 4. The first iteration on a complete record (the `step` facts behind `Proofs/ReqRecords`) -/

/-- A management `GetValues` record. -/
def IsMgmtGetValues (r : Rec) : Prop := r.rtype.toNat = RT.getValues ∧ r.id = 0

/-- Where a noise record's header leaves the loop: `X` (body and padding still to be read) and the
state `s1` reading it — a skip state, or for a management `GetValues` record a values state. -/
def After (c : Ctx) (r : Rec) (X : Bytes) (s1 : State) : Prop :=
  ∃ body, X = body ++ r.pad ∧
    (s1 = c.intoSkip body.length r.pad.length ∨
      (IsMgmtGetValues r ∧ body = r.content ∧ s1 = .values c 0 body.length r.pad.length))

theorem step_header_noise (r : Rec) (h : IdleNoise r) (rest : Bytes) (mc : Nat) :
    ∃ X s1 o, step .header (r.ser ++ rest) mc = (.cont (X ++ rest) s1, o) ∧ After .hdr r X s1 := by
  obtain ⟨hwf, hb⟩ := h
  have hwf' := hwf
  obtain ⟨h1, h2, h3⟩ := hwf'
  cases hv : RT.valid r.rtype.toNat with
  | false =>
    have hs : step .header (r.ser ++ rest) mc =
        (.cont (r.content ++ (r.pad ++ rest)) (Ctx.hdr.intoSkip r.content.length r.pad.length),
          UnknownType.toRecord r.rtype r.id) := by
      simp only [step_header, headerDrive, tryHead_ser_invalid .hdr r hwf rest hv, ser_drop8]
    exact ⟨r.content ++ r.pad, _, _, by rw [List.append_assoc]; exact hs, r.content, rfl, Or.inl rfl⟩
  | true =>
    by_cases ht : r.rtype.toNat = 1
    · obtain ⟨r0, r1, f, a, b, c, d, e, hc, hrole⟩ := hb ht
      have hs : step .header (r.ser ++ rest) mc =
          (.cont (r.pad ++ rest) (Ctx.hdr.intoSkip 0 r.pad.length),
            EndRequest.toRecord { appStatus := 0, protocolStatus := 3 } r.id) := by
        have hd16 : (r.ser ++ rest).drop 16 = r.pad ++ rest := by
          rw [show 16 = 8 + 8 from rfl, ← List.drop_drop, ser_drop8, hc]; rfl
        have hlen : ¬ (r.ser ++ rest).length < 16 := by
          simp [ser_length, hc]; omega
        simp only [step_header, headerDrive, tryHead_ser_valid .hdr r hwf rest hv, ser_drop8, hd16]
        simp [ht, RT.beginRequest, hc, ser_length, BeginRequest.fromBytes, hrole]
        omega
      exact ⟨r.pad, _, _, hs, [], rfl, Or.inl rfl⟩
    · by_cases hg : r.rtype.toNat = 9 ∧ r.id = 0
      · have hs : step .header (r.ser ++ rest) mc =
            (.cont (r.content ++ (r.pad ++ rest)) (.values .hdr 0 r.content.length r.pad.length), []) := by
          simp only [step_header, headerDrive, tryHead_ser_valid .hdr r hwf rest hv, ser_drop8]
          simp [hg.1, hg.2, RT.beginRequest, RT.getValues, RecordHeader.isManagement, RT.isManagement]
        exact ⟨r.content ++ r.pad, _, _, by rw [List.append_assoc]; exact hs, r.content, rfl,
          Or.inr ⟨hg, rfl, rfl⟩⟩
      · have hs : step .header (r.ser ++ rest) mc =
            (.cont (r.content ++ (r.pad ++ rest)) (Ctx.hdr.intoSkip r.content.length r.pad.length), []) := by
          simp only [step_header, headerDrive, tryHead_ser_valid .hdr r hwf rest hv, ser_drop8]
          by_cases h9 : r.rtype.toNat = 9
          · have hid : r.id ≠ 0 := fun h0 => hg ⟨h9, h0⟩
            simp [h9, hid, RT.beginRequest, RT.getValues, RecordHeader.isManagement]
          · simp [h9, ht, RT.beginRequest, RT.getValues]
        exact ⟨r.content ++ r.pad, _, _, by rw [List.append_assoc]; exact hs, r.content, rfl,
          Or.inl rfl⟩

theorem step_header_begin (id role : Nat) (flags : UInt8) (body5 padb : Bytes) (res : UInt8)
    (rest : Bytes) (mc : Nat) (hid : 0 < id ∧ id < 65536) (hrole : roleValid role = true)
    (hb : body5.length = 5) (hp : padb.length < 256) :
    step .header (Rec.ser { rtype := 1, id := id, content := toBe16 role ++ [flags] ++ body5,
                            pad := padb, reserved := res } ++ rest) mc =
      (.cont (padb ++ rest)
        (.params { req := Request.new id { role := role, flags := flags }, buffer := [] } 0 padb.length),
        []) := by
  have hrole' : 1 ≤ role ∧ role ≤ 3 := by simpa [roleValid] using hrole
  generalize hr : ({ rtype := 1, id := id, content := toBe16 role ++ [flags] ++ body5,
                     pad := padb, reserved := res } : Rec) = r
  have hwf : r.WF := by subst hr; exact ⟨hid.2, by simp [toBe16, hb], hp⟩
  have hv : RT.valid r.rtype.toNat = true := by subst hr; rfl
  match body5, hb with
  | [a, b, c, d, e], _ =>
    have hc : r.content = [UInt8.ofNat (role / 256), UInt8.ofNat role, flags, a, b, c, d, e] := by
      subst hr; simp [toBe16]
    have hd16 : (r.ser ++ rest).drop 16 = r.pad ++ rest := by
      rw [show 16 = 8 + 8 from rfl, ← List.drop_drop, ser_drop8, hc]; rfl
    have hbe : be16 (UInt8.ofNat (role / 256)) (UInt8.ofNat role) = role := be16_toBe16 (by omega)
    simp only [step_header, headerDrive, tryHead_ser_valid .hdr r hwf rest hv, ser_drop8, hd16]
    have hid0 : id ≠ 0 := by omega
    subst hr
    simp [RT.beginRequest, ser_length, toBe16, BeginRequest.fromBytes, hbe, hrole, hid0]
    omega

theorem step_params_noise (i : Inner) (r : Rec) (h : ParamsNoise i.req.id r)
    (rest : Bytes) (mc : Nat) :
    ∃ X s1 o, step (.params i 0 0) (r.ser ++ rest) mc = (.cont (X ++ rest) s1, o) ∧
      After (.par i) r X s1 := by
  obtain ⟨hwf, hn⟩ := h
  have hwf' := hwf
  obtain ⟨h1, h2, h3⟩ := hwf'
  cases hv : RT.valid r.rtype.toNat with
  | false =>
    have hs : step (.params i 0 0) (r.ser ++ rest) mc =
        (.cont (r.content ++ (r.pad ++ rest)) ((Ctx.par i).intoSkip r.content.length r.pad.length),
          UnknownType.toRecord r.rtype r.id) := by
      simp only [step_params_zero, recPhase, tryHead_ser_invalid (.par i) r hwf rest hv, ser_drop8]
    exact ⟨r.content ++ r.pad, _, _, by rw [List.append_assoc]; exact hs, r.content, rfl, Or.inl rfl⟩
  | true =>
    have hnp : ¬ (r.rtype.toNat = 4 ∧ r.id = i.req.id) := fun hx => hn ⟨hx.2, Or.inl hx.1⟩
    have hna : ¬ (r.rtype.toNat = 2 ∧ r.id = i.req.id) := fun hx => hn ⟨hx.2, Or.inr hx.1⟩
    have hc1 : (r.rtype.toNat == RT.params && r.id == i.req.id) = false := by
      simp only [RT.params, Bool.and_eq_false_iff, beq_eq_false_iff_ne, ne_eq]
      by_cases h4 : r.rtype.toNat = 4
      · exact Or.inr (fun hx => hnp ⟨h4, hx⟩)
      · exact Or.inl h4
    have hc2 : (r.rtype.toNat == RT.abortRequest && r.id == i.req.id) = false := by
      simp only [RT.abortRequest, Bool.and_eq_false_iff, beq_eq_false_iff_ne, ne_eq]
      by_cases h4 : r.rtype.toNat = 2
      · exact Or.inr (fun hx => hna ⟨h4, hx⟩)
      · exact Or.inl h4
    by_cases hb : r.rtype.toNat = 1 ∧ r.id ≠ i.req.id
    · have hs : step (.params i 0 0) (r.ser ++ rest) mc =
          (.cont (r.content ++ (r.pad ++ rest)) ((Ctx.par i).intoSkip r.content.length r.pad.length),
            EndRequest.toRecord { appStatus := 0, protocolStatus := 1 } r.id) := by
        simp only [step_params_zero, recPhase, tryHead_ser_valid (.par i) r hwf rest hv, ser_drop8]
        simp [hb.1, hb.2, RT.beginRequest, RT.params, RT.abortRequest]
      exact ⟨r.content ++ r.pad, _, _, by rw [List.append_assoc]; exact hs, r.content, rfl,
        Or.inl rfl⟩
    · by_cases hg : r.rtype.toNat = 9 ∧ r.id = 0
      · have hs : step (.params i 0 0) (r.ser ++ rest) mc =
            (.cont (r.content ++ (r.pad ++ rest)) (.values (.par i) 0 r.content.length r.pad.length), []) := by
          simp only [step_params_zero, recPhase, tryHead_ser_valid (.par i) r hwf rest hv, ser_drop8]
          simp [hg.1, hg.2, RT.beginRequest, RT.getValues, RT.params, RT.abortRequest,
            RecordHeader.isManagement, RT.isManagement]
        exact ⟨r.content ++ r.pad, _, _, by rw [List.append_assoc]; exact hs, r.content, rfl,
          Or.inr ⟨hg, rfl, rfl⟩⟩
      · have hc3 : (r.rtype.toNat == RT.beginRequest && r.id != i.req.id) = false := by
          simp only [RT.beginRequest, Bool.and_eq_false_iff, beq_eq_false_iff_ne, ne_eq,
            bne_eq_false_iff_eq]
          by_cases h4 : r.rtype.toNat = 1
          · exact Or.inr (Classical.not_not.mp (fun hx => hb ⟨h4, hx⟩))
          · exact Or.inl h4
        have hc4 : (r.rtype.toNat == RT.getValues &&
            RecordHeader.isManagement ⟨r.rtype.toNat, r.id, r.content.length, r.pad.length⟩) = false := by
          by_cases h9 : r.rtype.toNat = 9
          · have hid : r.id ≠ 0 := fun h0 => hg ⟨h9, h0⟩
            simp [h9, hid, RT.getValues, RecordHeader.isManagement]
          · simp [h9, RT.getValues]
        have hs : step (.params i 0 0) (r.ser ++ rest) mc =
            (.cont (r.content ++ (r.pad ++ rest)) ((Ctx.par i).intoSkip r.content.length r.pad.length), []) := by
          simp only [step_params_zero, recPhase, tryHead_ser_valid (.par i) r hwf rest hv, ser_drop8]
          simp only [hc1, hc2, hc3, hc4, Bool.false_eq_true, if_false]
        exact ⟨r.content ++ r.pad, _, _, by rw [List.append_assoc]; exact hs, r.content, rfl,
          Or.inl rfl⟩

theorem step_params_chunk (i : Inner) (c padb : Bytes) (res : UInt8) (rest : Bytes) (mc : Nat)
    (hc : 0 < c.length ∧ c.length < 65536) (hp : padb.length < 256) (hid : i.req.id < 65536) :
    step (.params i 0 0) (Rec.ser { rtype := 4, id := i.req.id, content := c, pad := padb,
                                    reserved := res } ++ rest) mc =
      (.cont (c ++ (padb ++ rest)) (.params i c.length padb.length), []) := by
  generalize hr : ({ rtype := 4, id := i.req.id, content := c, pad := padb, reserved := res } : Rec) = r
  have hwf : r.WF := by subst hr; exact ⟨hid, hc.2, hp⟩
  have hv : RT.valid r.rtype.toNat = true := by subst hr; rfl
  simp only [step_params_zero, recPhase, tryHead_ser_valid (.par i) r hwf rest hv, ser_drop8]
  subst hr
  have : c.length ≠ 0 := by omega
  simp [RT.params, this]

theorem step_params_done (i : Inner) (padb : Bytes) (res : UInt8) (rest : Bytes)
    (mc : Nat) (hp : padb.length < 256) (hid : i.req.id < 65536) :
    step (.params i 0 0) (Rec.ser { rtype := 4, id := i.req.id, content := [], pad := padb,
                                    reserved := res } ++ rest) mc =
      (.cont (padb ++ rest) ((Ctx.dn i.req).intoSkip 0 padb.length), []) := by
  generalize hr : ({ rtype := 4, id := i.req.id, content := [], pad := padb, reserved := res } : Rec) = r
  have hwf : r.WF := by subst hr; exact ⟨hid, by simp, hp⟩
  have hv : RT.valid r.rtype.toNat = true := by subst hr; rfl
  simp only [step_params_zero, recPhase, tryHead_ser_valid (.par i) r hwf rest hv, ser_drop8]
  subst hr
  simp [RT.params]

/-! ## 5. What a run over a strict prefix of one record leaves -/

/-- `rem` is the end of the undecoded tail of a prefix `T` of the Params stream `S`
(`pre` is the part of that tail already moved to the side buffer). -/
def InStream (S rem : Bytes) : Prop := ∃ T pre, T <+: S ∧ (NV.all T).2 = pre ++ rem

/-- `rem` is the undecodable tail of a strict prefix of the body of a management `GetValues`
record among `recs`. -/
def InNoise (recs : List Rec) (rem : Bytes) : Prop :=
  ∃ r ∈ recs, IsMgmtGetValues r ∧
    ∃ d, d <+: r.content ∧ d.length < r.content.length ∧ rem = (NV.all d).2

def RemP (S : Bytes) (recs : List Rec) (rem : Bytes) : Prop :=
  rem.length < 16 ∨ InStream S rem ∨ InNoise recs rem

theorem RemP.cons {S : Bytes} {r : Rec} {rs : List Rec} {rem : Bytes} (h : RemP S rs rem) :
    RemP S (r :: rs) rem := by
  rcases h with h | h | ⟨x, hx, h⟩
  · exact Or.inl h
  · exact Or.inr (Or.inl h)
  · exact Or.inr (Or.inr ⟨x, by simp [hx], h⟩)

theorem RemP.nil {S : Bytes} {rs : List Rec} {rem : Bytes} (h : rem = []) : RemP S rs rem :=
  Or.inl (by rw [h]; simp)

theorem pre_rem (o : Bytes) (res : Out) : (pre o res).rem = res.rem := rfl
theorem pre_st (o : Bytes) (res : Out) : (pre o res).st = res.st := rfl

/-- Body and padding of a noise record cut short. -/
theorem after_partial {c : Ctx} (hd : ∀ r, c ≠ .dn r) {r : Rec} {X r' t : Bytes} {s1 : State}
    (mc : Nat) (ha : After c r X s1) (hX : X = r' ++ t) (ht : t ≠ []) :
    (run s1 r' mc).rem = [] ∨
      (IsMgmtGetValues r ∧ ∃ d, d <+: r.content ∧ d.length < r.content.length ∧
        (run s1 r' mc).rem = (NV.all d).2) := by
  obtain ⟨body, hb, hs | ⟨hg, hbody, hs⟩⟩ := ha
  · left
    subst hs
    apply run_skip_partial
    have := length_lt_of_append_ne (hX.symm.trans hb) ht
    simpa using this
  · subst hbody hs
    rcases run_values_partial c hd mc (hb.symm.trans hX) ht with h0 | h1
    · exact Or.inl h0
    · exact Or.inr ⟨hg, h1⟩

theorem noise_partial {c : Ctx} (hd : ∀ r, c ≠ .dn r) {st : State} (hw : WFState st)
    {r : Rec} {w t : Bytes} (mc : Nat)
    (hbrk : ∀ r s o', step st w mc = (.brk r s, o') → s.isFinal = false → r.length < 16)
    (hstep : ∃ X s1 o, step st (r.ser ++ []) mc = (.cont (X ++ []) s1, o) ∧ After c r X s1)
    (h : w ++ t = r.ser) (ht : t ≠ []) (hnf : (run st w mc).st.isFinal = false)
    (S : Bytes) (rs : List Rec) : RemP S (r :: rs) (run st w mc).rem := by
  obtain ⟨X, s1, o, hs, ha⟩ := hstep
  simp only [List.append_nil] at hs
  rw [← h] at hs
  rcases run_partial hw hbrk hs hnf with hlt | ⟨r', _, hX, hrem, _⟩
  · exact Or.inl hlt
  · rw [hrem]
    rcases after_partial hd mc ha hX ht with h0 | ⟨hg, d, hd1, hd2, hd3⟩
    · exact RemP.nil h0
    · exact Or.inr (Or.inr ⟨r, by simp, hg, d, hd1, hd2, hd3⟩)

theorem header_noise_partial (r : Rec) (hn : IdleNoise r) {w t : Bytes} (mc : Nat)
    (h : w ++ t = r.ser) (ht : t ≠ []) (hnf : (run .header w mc).st.isFinal = false)
    (S : Bytes) (rs : List Rec) : RemP S (r :: rs) (run .header w mc).rem :=
  noise_partial (c := .hdr) (by intro r; simp) (st := .header) trivial mc (header_hbrk w mc)
    (step_header_noise r hn [] mc) h ht hnf S rs

theorem params_noise_partial (i : Inner) (hi : InnerOK i) (r : Rec) (hn : ParamsNoise i.req.id r)
    {w t : Bytes} (mc : Nat) (h : w ++ t = r.ser) (ht : t ≠ [])
    (hnf : (run (.params i 0 0) w mc).st.isFinal = false) (S : Bytes) (rs : List Rec) :
    RemP S (r :: rs) (run (.params i 0 0) w mc).rem :=
  noise_partial (c := .par i) (by intro r; simp) (wf_params_zero hi) mc (params_hbrk hi w mc)
    (step_params_noise i r hn [] mc) h ht hnf S rs

/-- A BeginRequest record cut short: fewer than 16 bytes are held back, or (inside its padding)
nothing. -/
theorem header_begin_partial (id role : Nat) (flags : UInt8) (body5 padb : Bytes) (res : UInt8)
    {w t : Bytes} (mc : Nat) (hid : 0 < id ∧ id < 65536) (hrole : roleValid role = true)
    (hb : body5.length = 5) (hp : padb.length < 256)
    (h : w ++ t = Rec.ser { rtype := 1, id := id, content := toBe16 role ++ [flags] ++ body5,
                             pad := padb, reserved := res })
    (ht : t ≠ []) (hnf : (run .header w mc).st.isFinal = false) :
    (run .header w mc).rem.length < 16 := by
  have hs := step_header_begin id role flags body5 padb res [] mc hid hrole hb hp
  simp only [List.append_nil] at hs
  rw [← h] at hs
  rcases run_partial (st := .header) trivial (header_hbrk w mc) hs hnf with hlt | ⟨r', _, hX, hrem, _⟩
  · exact hlt
  · rw [hrem]
    have hl : r'.length < 0 + padb.length := by
      have := length_lt_of_append_ne hX.symm ht; omega
    rcases run_params_partial (i := { req := Request.new id { role := role, flags := flags }, buffer := [] })
      mc hl with h0 | ⟨h1, _⟩
    · rw [h0]; simp
    · omega

/-- The closing empty Params record cut short. -/
theorem params_done_partial (i : Inner) (hi : InnerOK i) (padb : Bytes) (res : UInt8)
    {w t : Bytes} (mc : Nat) (hp : padb.length < 256) (hid : i.req.id < 65536)
    (h : w ++ t = Rec.ser { rtype := 4, id := i.req.id, content := [], pad := padb, reserved := res })
    (ht : t ≠ []) (hnf : (run (.params i 0 0) w mc).st.isFinal = false) :
    (run (.params i 0 0) w mc).rem.length < 16 := by
  have hs := step_params_done i padb res [] mc hp hid
  simp only [List.append_nil] at hs
  rw [← h] at hs
  rcases run_partial (wf_params_zero hi) (params_hbrk hi w mc) hs hnf with hlt | ⟨r', _, hX, hrem, _⟩
  · exact hlt
  · rw [hrem]
    have hl : r'.length < 0 + padb.length := by
      have := length_lt_of_append_ne hX.symm ht; omega
    rw [run_skip_partial (Ctx.dn i.req) mc hl]; simp

/-- A Params record of the request cut short: what is held back is the end of the undecoded tail
of the stream consumed so far followed by the part of the record's content seen. -/
theorem params_chunk_partial (i : Inner) (C : Bytes) (hinv : ParamsInv [] C i) (c padb : Bytes)
    (res : UInt8) {w t : Bytes} (mc : Nat) (hc : 0 < c.length ∧ c.length < 65536)
    (hp : padb.length < 256) (hid : i.req.id < 65536)
    (h : w ++ t = Rec.ser { rtype := 4, id := i.req.id, content := c, pad := padb, reserved := res })
    (ht : t ≠ []) (hnf : (run (.params i 0 0) w mc).st.isFinal = false) (payload : Bytes) :
    (run (.params i 0 0) w mc).rem.length < 16 ∨
      InStream (C ++ (c ++ payload)) (run (.params i 0 0) w mc).rem := by
  have hi := hinv.next_buffer
  have hs := step_params_chunk i c padb res [] mc hc hp hid
  simp only [List.append_nil] at hs
  rw [← h] at hs
  rcases run_partial (wf_params_zero hi) (params_hbrk hi w mc) hs hnf with hlt | ⟨r', _, hX, hrem, _⟩
  · exact Or.inl hlt
  · rw [hrem]
    have hl : r'.length < c.length + padb.length := by
      have := length_lt_of_append_ne hX.symm ht
      simpa using this
    rcases run_params_partial (i := i) mc hl with h0 | ⟨h1, i', k, hps, hr⟩
    · left; rw [h0]; simp
    · right
      rw [hr]
      obtain ⟨hk, hinv', _, _, hnone⟩ := parseStream_spec [] C i i' r' false k hinv hps
      have hpre : r' <+: c :=
        List.prefix_of_prefix_length_le ⟨t, hX.symm⟩ ⟨padb, rfl⟩ (by omega)
      obtain ⟨z, hz⟩ := hpre
      refine ⟨C ++ r', i'.buffer, ⟨z ++ payload, ?_⟩, ?_⟩
      · rw [← hz]; simp only [List.append_assoc]
      · have := all_tail_of_consumed (C := C) (m := r'.take k) (d' := r'.drop k) hinv'.2
          (hnone rfl)
        rwa [List.take_append_drop] at this

/-! ## 6. The remainder over a prefix of the whole preamble -/

theorem params_remainder {id : Nat} {payload : Bytes} {rs : List Rec} (h : ParamsRecs id payload rs)
    (hid : id < 65536) (mc : Nat) :
    ∀ (i : Inner) (C : Bytes), i.req.id = id → ParamsInv [] C i → ∀ w, w <+: serAll rs →
      (run (.params i 0 0) w mc).st.isFinal = false →
        RemP (C ++ payload) rs (run (.params i 0 0) w mc).rem := by
  induction h with
  | done pad res hp =>
    intro i C hi hinv w hw hnf
    subst hi
    rw [serAll_cons, serAll_nil, List.append_nil] at hw
    obtain ⟨t, ht⟩ := hw
    by_cases hte : t = []
    · subst hte
      rw [List.append_nil] at ht
      have := params_done i hinv.next_buffer pad res [] mc hp hid
      rw [List.append_nil, ← ht] at this
      rw [this] at hnf
      cases hnf
    · exact Or.inl (params_done_partial i hinv.next_buffer pad res mc hp hid ht hte hnf)
  | @noise payload rs r hn t ih =>
    intro i C hi hinv w hw hnf
    subst hi
    rw [serAll_cons] at hw
    rcases prefix_append_cases hw with ⟨w', rfl, hw'⟩ | ⟨t', ht', hwt⟩
    · by_cases hl : w' ≠ [] ∨ ¬ EmptyGetValues r
      · rw [params_noise i hinv.next_buffer r hn w' mc hl] at hnf ⊢
        rw [pre_st] at hnf
        rw [pre_rem]
        exact (ih i C rfl hinv w' hw' hnf).cons
      · have hw0 : w' = [] := Classical.not_not.mp (fun hx => hl (Or.inl hx))
        have hE : EmptyGetValues r := Classical.not_not.mp (fun hx => hl (Or.inr hx))
        subst hw0
        rw [List.append_nil, params_emptyGetValues_last i r hn.1 hE mc]
        exact RemP.nil rfl
    · exact params_noise_partial i hinv.next_buffer r hn mc hwt ht' hnf _ _
  | @chunk payload rs c pad res hc hp t ih =>
    intro i C hi hinv w hw hnf
    subst hi
    rw [serAll_cons] at hw
    rcases prefix_append_cases hw with ⟨w', rfl, hw'⟩ | ⟨t', ht', hwt⟩
    · obtain ⟨i1, k, hps⟩ := parseStream_ok_inv [] C i c true hinv
      obtain ⟨hk, hok1, hrun1⟩ :=
        params_chunk i i1 hinv.next_buffer c pad res k w' mc hc hp hid hps
      obtain ⟨_, hinv1, hs1, _, _⟩ := parseStream_spec [] C i i1 c true k hinv hps
      rw [hk, List.take_length] at hinv1
      rw [hrun1] at hnf ⊢
      have := (ih i1 (C ++ c) hs1.1 hinv1 w' hw' hnf).cons
        (r := { rtype := 4, id := i.req.id, content := c, pad := pad, reserved := res })
      rwa [List.append_assoc] at this
    · rcases params_chunk_partial i C hinv c pad res mc hc hp hid hwt ht' hnf payload with h1 | h2
      · exact Or.inl h1
      · exact Or.inr (Or.inl h2)

theorem header_remainder {p : Preamble} {recs : List Rec} (h : WellFormedPreamble p recs)
    (mc : Nat) : ∀ w, w <+: serAll recs → (run .header w mc).st.isFinal = false →
      RemP (p.pairs.flatMap NV.enc) recs (run .header w mc).rem := by
  induction h with
  | @noise rs r hn t ih =>
    intro w hw hnf
    rw [serAll_cons] at hw
    rcases prefix_append_cases hw with ⟨w', rfl, hw'⟩ | ⟨t', ht', hwt⟩
    · by_cases hl : w' ≠ [] ∨ ¬ EmptyGetValues r
      · rw [header_noise r hn w' mc hl] at hnf ⊢
        rw [pre_st] at hnf
        rw [pre_rem]
        exact (ih w' hw' hnf).cons
      · have hw0 : w' = [] := Classical.not_not.mp (fun hx => hl (Or.inl hx))
        have hE : EmptyGetValues r := Classical.not_not.mp (fun hx => hl (Or.inr hx))
        subst hw0
        rw [List.append_nil, header_emptyGetValues_last r hn.1 hE mc]
        exact RemP.nil rfl
    · exact header_noise_partial r hn mc hwt ht' hnf _ _
  | @begin rs pad res body5 hb hp hid hrole hl t =>
    intro w hw hnf
    rw [serAll_cons] at hw
    rcases prefix_append_cases hw with ⟨w', rfl, hw'⟩ | ⟨t', ht', hwt⟩
    · rw [header_begin p.id p.role p.flags body5 pad res w' mc hid hrole hb hp] at hnf ⊢
      have := (params_remainder t hid.2 mc
        { req := Request.new p.id { role := p.role, flags := p.flags }, buffer := [] } [] rfl
        (paramsInv_init [] _ rfl rfl) w' hw' hnf).cons
        (r := { rtype := 1, id := p.id, content := toBe16 p.role ++ [p.flags] ++ body5, pad := pad,
                reserved := res })
      rwa [List.nil_append] at this
    · exact Or.inl (header_begin_partial p.id p.role p.flags body5 pad res mc hid hrole hb hp hwt ht' hnf)

/-! ## 7. `remainder_bound` -/

/-- `rem` is the end of an incomplete pair of `pairs`: with what precedes it (`pre`, the part
already in the side buffer) it forms a *strict* prefix of the pair's encoding. -/
def InPair (pairs : List (Bytes × Bytes)) (rem : Bytes) : Prop :=
  ∃ q ∈ pairs, ∃ pre, pre ++ rem <+: NV.enc q ∧ (pre ++ rem).length < (NV.enc q).length

theorem wf_pairs_valid {p : Preamble} {recs : List Rec} (h : WellFormedPreamble p recs) :
    ∀ q ∈ p.pairs, q.1.length ≤ maxVal ∧ q.2.length ≤ maxVal := by
  induction h with
  | noise r hn t ih => exact ih
  | «begin» pad res body5 hb hp hid hrole hl t => exact hl

/-- **Remainder bound.**  Driving the parser over a prefix `w` of a well-formed preamble's wire
bytes without reaching a final state leaves fewer than 16 bytes, or the end of an incomplete pair
of the request, or the undecodable tail of a strict prefix of a management `GetValues` body. -/
theorem remainder_bound {p : Preamble} {recs : List Rec} (h : WellFormedPreamble p recs)
    {w : Bytes} (hw : w <+: serAll recs) (mc : Nat)
    (hnf : (run .header w mc).st.isFinal = false) :
    (run .header w mc).rem.length < 16 ∨ InPair p.pairs (run .header w mc).rem ∨
      InNoise recs (run .header w mc).rem := by
  rcases header_remainder h mc w hw hnf with h1 | ⟨T, pre, hT, hall⟩ | h3
  · exact Or.inl h1
  · rcases all_prefix_stream p.pairs (wf_pairs_valid h) T hT with h0 | ⟨q, hq, hp1, hp2⟩
    · left
      rw [hall] at h0
      rw [(List.append_eq_nil_iff.mp h0).2]; simp
    · rw [hall] at hp1 hp2
      exact Or.inr (Or.inl ⟨q, hq, pre, hp1, hp2⟩)
  · exact Or.inr (Or.inr h3)

/-- Before the last byte of the preamble has been seen the loop never ends in a final state. -/
theorem prefix_not_final {p : Preamble} {recs : List Rec} (h : WellFormedPreamble p recs)
    {w t : Bytes} (hw : w ++ t = serAll recs) (ht : t ≠ []) (mc : Nat) :
    (run .header w mc).st.isFinal = false := by
  cases hf : (run .header w mc).st.isFinal with
  | false => rfl
  | true =>
    exfalso
    have hs := run_split (st := .header) trivial w t mc ht
    have h1 := C01.C01_oneshot h [] mc
    rw [List.append_nil] at h1
    rw [hw, h1, run_final _ _ hf] at hs
    have := congrArg Out.rem hs
    simp only at this
    exact ht (List.append_eq_nil_iff.mp this.symm).2

/-! ## 8. Length form -/

/-- Every undecodable tail of a strict prefix of a management `GetValues` body among `recs` is
shorter than `M`. -/
def NoiseFits (M : Nat) (recs : List Rec) : Prop :=
  ∀ r ∈ recs, IsMgmtGetValues r → ∀ d, d <+: r.content → d.length < r.content.length →
    (NV.all d).2.length < M

/-- Syntactic sufficient condition: every management `GetValues` record among `recs` has a body of
at most `L + 8` bytes, or a body that is a sequence of encoded pairs each with
`name.len + value.len ≤ L`. -/
def NoiseSmall (L : Nat) (recs : List Rec) : Prop :=
  ∀ r ∈ recs, IsMgmtGetValues r →
    r.content.length ≤ L + 8 ∨
      ∃ qs : List (Bytes × Bytes),
        (∀ q ∈ qs, q.1.length ≤ maxVal ∧ q.2.length ≤ maxVal ∧ q.1.length + q.2.length ≤ L) ∧
          r.content = qs.flatMap NV.enc

theorem enc_length_le (q : Bytes × Bytes) : (NV.enc q).length ≤ 8 + q.1.length + q.2.length := by
  obtain ⟨n, v⟩ := q
  rw [C16.enc_length, C15.encode_length, C15.encode_length]
  simp only
  split <;> split <;> omega

theorem enc_length_ge (q : Bytes × Bytes) : 2 + q.1.length + q.2.length ≤ (NV.enc q).length := by
  obtain ⟨n, v⟩ := q
  rw [C16.enc_length, C15.encode_length, C15.encode_length]
  simp only
  split <;> split <;> omega

theorem noiseFits_mono {M M' : Nat} {recs : List Rec} (h : NoiseFits M recs) (hm : M ≤ M') :
    NoiseFits M' recs :=
  fun r hr hg d hd hl => Nat.lt_of_lt_of_le (h r hr hg d hd hl) hm

/-- Bodies no longer than `M` fit (the side condition of `C01.C01_full`). -/
theorem noiseFits_of_content {M : Nat} {recs : List Rec}
    (h : ∀ r ∈ recs, r.rtype.toNat = RT.getValues → r.id = 0 → r.content.length ≤ M) :
    NoiseFits M recs := by
  intro r hr hg d _ hl
  have := all_rest_length_le d
  have := h r hr hg.1 hg.2
  omega

theorem noiseSmall_fits {L : Nat} {recs : List Rec} (h : NoiseSmall L recs) :
    NoiseFits (L + 8) recs := by
  intro r hr hg d hd hl
  rcases h r hr hg with h1 | ⟨qs, hqs, hc⟩
  · have := all_rest_length_le d
    omega
  · rw [hc] at hd
    rcases all_prefix_stream qs (fun q hq => ⟨(hqs q hq).1, (hqs q hq).2.1⟩) d hd with h0 | ⟨q, hq, _, h2⟩
    · rw [h0]; simp
    · have := enc_length_le q
      have := (hqs q hq).2.2
      omega

/-- **Remainder bound, length form.**  If every pair's encoding is at most `M` bytes, the noise
bodies fit `M`, and `M ≥ 16`, the unconsumed remainder is always shorter than `M`. -/
theorem remainder_lt {p : Preamble} {recs : List Rec} (h : WellFormedPreamble p recs)
    {M : Nat} (h16 : 16 ≤ M) (hpairs : ∀ q ∈ p.pairs, (NV.enc q).length ≤ M)
    (hnoise : NoiseFits M recs) {w : Bytes} (hw : w <+: serAll recs) (mc : Nat)
    (hnf : (run .header w mc).st.isFinal = false) : (run .header w mc).rem.length < M := by
  rcases remainder_bound h hw mc hnf with h1 | ⟨q, hq, pre, _, h2⟩ | ⟨r, hr, hg, d, hd1, hd2, hd3⟩
  · omega
  · have := hpairs q hq
    simp only [List.length_append] at h2
    omega
  · rw [hd3]; exact hnoise r hr hg d hd1 hd2

/-- The same with the coarse bound of the documentation: `name.len + value.len ≤ L` for every pair
of the request and `NoiseSmall L` give a remainder of at most `max 15 (L + 7)` bytes. -/
theorem remainder_le_max {p : Preamble} {recs : List Rec} (h : WellFormedPreamble p recs)
    {L : Nat} (hpairs : ∀ q ∈ p.pairs, q.1.length + q.2.length ≤ L) (hnoise : NoiseSmall L recs)
    {w : Bytes} (hw : w <+: serAll recs) (mc : Nat)
    (hnf : (run .header w mc).st.isFinal = false) :
    (run .header w mc).rem.length ≤ max 15 (L + 7) := by
  have := remainder_lt h (M := max 16 (L + 8)) (by omega)
    (fun q hq => by have := enc_length_le q; have := hpairs q hq; omega)
    (noiseFits_mono (noiseSmall_fits hnoise) (by omega)) hw mc hnf
  omega

/-! ## Non-vacuity: the concrete preamble of `Props/C01.lean` -/
namespace Examples
open Fcgi.C01.Example

theorem len_maxConns : (NV.enc (Vars.nameMaxConns, [])).length = 16 := by decide +kernel
theorem len_mpxsConns : (NV.enc (Vars.nameMpxsConns, [])).length = 17 := by decide +kernel

/-- Every record body of the example has at most 17 bytes. -/
theorem recs_content_le : ∀ r ∈ recs, r.content.length ≤ 17 := by
  intro r hr
  simp only [recs, List.mem_cons, List.not_mem_nil, or_false] at hr
  have h16 := len_maxConns
  have h17 := len_mpxsConns
  rcases hr with rfl | rfl | rfl | rfl | rfl | rfl <;>
    simp only [List.length_cons, List.length_nil] <;> omega

theorem recs_noise_fits {M : Nat} (hM : 17 ≤ M) : NoiseFits M recs :=
  noiseFits_of_content (fun r hr _ _ => Nat.le_trans (recs_content_le r hr) hM)

theorem recs_noise_small {L : Nat} (hL : 9 ≤ L) : NoiseSmall L recs :=
  fun r hr _ => Or.inl (by have := recs_content_le r hr; omega)

/-- The single pair `("a", "b")` encodes to 4 bytes. -/
theorem pre_pairs_enc : ∀ q ∈ C01.Example.pre.pairs, (NV.enc q).length = 4 := by
  intro q hq
  simp only [C01.Example.pre, List.mem_singleton] at hq
  subst hq; decide

/-- `remainder_bound` / `remainder_lt` applied: over any prefix of the 86 example bytes the loop
never holds back 24 bytes or more. -/
example {w : Bytes} (hw : w <+: serAll recs) (mc : Nat)
    (hnf : (run .header w mc).st.isFinal = false) : (run .header w mc).rem.length < 24 :=
  remainder_lt recs_wf (by omega) (fun q hq => by rw [pre_pairs_enc q hq]; omega)
    (recs_noise_fits (by omega)) hw mc hnf

example {w : Bytes} (hw : w <+: serAll recs) (mc : Nat)
    (hnf : (run .header w mc).st.isFinal = false) :
    (run .header w mc).rem.length < 16 ∨ InPair C01.Example.pre.pairs (run .header w mc).rem ∨
      InNoise recs (run .header w mc).rem := remainder_bound recs_wf hw mc hnf

/-- Before the last of the example's bytes the loop is never final. -/
example (mc : Nat) : ∀ k, k < (serAll recs).length →
    (run .header ((serAll recs).take k) mc).st.isFinal = false := by
  intro k hk
  refine prefix_not_final recs_wf (List.take_append_drop k _) ?_ mc
  intro hx
  have := congrArg List.length hx
  simp only [List.length_drop, List.length_nil] at this
  omega

end Examples

end Fcgi.Req
